import TxdbusModel.Sig.Ty
/-
Spec side of the signature grammar: a recursive-descent parser written from the DBus specification's
grammar (not from txdbus), the left inverse of `render` (`Proofs/Sig/Parse.lean`:
`parseTypes (renderAll ts) = some ts`, `parseType t.render = some t`), and the validity predicate.
Like `Ty` itself the parser accepts the *shape* grammar (a dict entry anywhere, empty structs);
the restrictions of the specification are `Ty.valid` / `sigValid` below.  Core Lean only.
-/
namespace Txdbus

mutual
/-- One complete type from the front of `s` (first argument: step budget). -/
def parseTyF : Nat → List Char → Option (Ty × List Char)
  | 0, _ => none
  | _ + 1, [] => none
  | fuel + 1, c :: cs =>
    if c = 'v' then some (.variant, cs)
    else if c = 'a' then
      match parseTyF fuel cs with
      | some (t, r) => some (.array t, r)
      | none => none
    else if c = '(' then
      match parseManyF fuel cs with
      | some (fs, ')' :: r) => some (.struct fs, r)
      | _ => none
    else if c = '{' then
      match parseTyF fuel cs with
      | some (k, r1) =>
        match parseTyF fuel r1 with
        | some (v, '}' :: r2) => some (.dict k v, r2)
        | _ => none
      | none => none
    else
      match Basic.ofCode? c with
      | some bc => some (.basic bc, cs)
      | none => none
/-- Complete types up to the end of input or the next closing bracket. -/
def parseManyF : Nat → List Char → Option (List Ty × List Char)
  | 0, _ => none
  | _ + 1, [] => some ([], [])
  | fuel + 1, c :: cs =>
    if c = ')' ∨ c = '}' then some ([], c :: cs)
    else
      match parseTyF fuel (c :: cs) with
      | some (t, r) =>
        match parseManyF fuel r with
        | some (ts, r') => some (t :: ts, r')
        | none => none
      | none => none
end

/-- A whole signature: a sequence of complete types. -/
def parseTypes (s : List Char) : Option (List Ty) :=
  match parseManyF (s.length + 1) s with
  | some (ts, []) => some ts
  | _ => none

/-- Exactly one complete type. -/
def parseType (s : List Char) : Option Ty :=
  match parseTyF s.length s with
  | some (t, []) => some t
  | _ => none

/-! ### validity (DBus specification, "Type System") -/

def Ty.isBasic : Ty → Bool
  | .basic _ => true
  | _ => false

mutual
/-- Shape restrictions: structs are non-empty; a dict entry occurs only as the element type of an
array and its key is a basic type. -/
def Ty.wf : Ty → Bool
  | .basic _ => true
  | .variant => true
  | .array (.dict k v) => k.isBasic && v.wf
  | .array e => e.wf
  | .struct fs => !fs.isEmpty && wfAll fs
  | .dict _ _ => false
def wfAll : List Ty → Bool
  | [] => true
  | t :: ts => t.wf && wfAll ts
end

mutual
/-- Maximum nesting of arrays. -/
def Ty.arrayDepth : Ty → Nat
  | .basic _ => 0
  | .variant => 0
  | .array e => e.arrayDepth + 1
  | .struct fs => arrayDepthAll fs
  | .dict k v => max k.arrayDepth v.arrayDepth
def arrayDepthAll : List Ty → Nat
  | [] => 0
  | t :: ts => max t.arrayDepth (arrayDepthAll ts)
end

mutual
/-- Maximum nesting of structs (dict entries count as structs, as in the reference implementation). -/
def Ty.structDepth : Ty → Nat
  | .basic _ => 0
  | .variant => 0
  | .array e => e.structDepth
  | .struct fs => structDepthAll fs + 1
  | .dict k v => max k.structDepth v.structDepth + 1
def structDepthAll : List Ty → Nat
  | [] => 0
  | t :: ts => max t.structDepth (structDepthAll ts)
end

/-- A valid single complete type. -/
def Ty.valid (t : Ty) : Bool := t.wf && t.arrayDepth ≤ 32 && t.structDepth ≤ 32

/-- A valid signature: valid complete types, at most 255 bytes. -/
def sigValid (ts : List Ty) : Bool := ts.all Ty.valid && (renderAll ts).length ≤ 255

end Txdbus
