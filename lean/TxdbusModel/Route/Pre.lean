import TxdbusModel.Route.Rule
/-
C12 - the match code BEFORE the repairs C12-01 .. C12-04 (snapshot 4c62642), kept only for the
witness theorems in Properties/C12: `Tables.pre` (type constraint stored under a key that is
never evaluated) and `Pre.ruleMatch` (plain `startswith` for path_namespace and argNpath,
argument constraints guarded by `m.body is not None`).
-/
namespace Txdbus.Route.Pre

/-- `if m.path is None or not m.path.startswith(self.path_namespace): return`. -/
def matchNs (r : Rule) (m : Msg) : Option Outcome :=
  match r.attrs.lookup "path_namespace".toList with
  | none => none
  | some nsv =>
    match m.path with
    | .missing => some .err
    | .none => some .skip
    | .some p =>
      match nsv with
      | .str ns => if ns.isPrefixOf p then none else some .skip
      | _ => some .err

/-- `if idx >= len(m.body) or not m.body[idx].startswith(val): return`. -/
def matchArgPaths (body : List Arg) : List (Nat × Str) → Option Outcome
  | [] => none
  | (i, v) :: t =>
    match body[i]? with
    | none => some .skip
    | some (.str s) => if v.isPrefixOf s then matchArgPaths body t else some .skip
    | some .other => some .err

/-- `Rule.match(m)` of the snapshot. -/
def ruleMatch (r : Rule) (m : Msg) : Outcome :=
  match matchSimple m r.simple with
  | some o => o
  | none =>
  match matchNs r m with
  | some o => o
  | none =>
  match m.body with
  | none => .call                  -- `hasattr(self, 'args') and m.body is not None`: both loops skipped
  | some body =>
    match loopPairs (matchArgs body) (r.attrs.lookup "args".toList) with
    | some o => o
    | none =>
    match loopPairs (matchArgPaths body) (r.attrs.lookup "arg_paths".toList) with
    | some o => o
    | none => .call

/-- What the snapshot does with rule `a` and message `m` (`none`: addMatch failed). -/
def outcome (a : RuleArgs) (m : Msg) : Option Outcome :=
  match mkRule Tables.pre a with
  | .ok r => some (ruleMatch r m)
  | .error _ => none

end Txdbus.Route.Pre
