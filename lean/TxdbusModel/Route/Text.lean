import TxdbusModel.Route.Rule
/-
C12 - CODE MODEL of the rule text: `DBusClientConnection.addMatch` (rendering, client.py) and
`Bus.dbus_AddMatch` (parsing, bus.py).

Python behaviour mirrored by hand: `'%d' % idx` for `idx >= 0`, `','.join`, `str.split(sep)`
(always at least one piece), tuple unpacking of the pieces (`ValueError` unless exactly two),
slice `v[1:-1]` and `k[3:-4]` (clamping), `int(s)` decided for ASCII digit strings and for strings
that certainly are no integer literal; sign, blanks, `_` and non-ASCII digits are answered
`outOfDomain` (the harness skips the comparison there and counts it).
-/
namespace Txdbus.Route

/-! ### `'%d' % n` -/

def digitChar (d : Nat) : Char := Char.ofNat (48 + d)

def natDigitsFuel : Nat → Nat → List Char
  | 0, _ => []
  | fuel + 1, n => if n < 10 then [digitChar n] else natDigitsFuel fuel (n / 10) ++ [digitChar (n % 10)]

/-- Decimal digits of a natural number (`'%d' % n`). -/
def natDigits (n : Nat) : List Char := natDigitsFuel (n + 1) n

/-! ### client.py: rendering -/

/-- `f"{k}='{v}'"`. -/
def renderItem (k v : Str) : Str := k ++ ('=' :: '\'' :: (v ++ ['\'']))

/-- The local `add(k, v)`: `if v is not None: l.append(...)`. -/
def optItem (k : Str) : Option Str → List Str
  | none => []
  | some v => [renderItem k v]

def argKey (i : Nat) : Str := "arg".toList ++ natDigits i
def argPathKey (i : Nat) : Str := "arg".toList ++ natDigits i ++ "path".toList

/-- The list `l` built by `DBusClientConnection.addMatch`. -/
def renderItems (a : RuleArgs) : List Str :=
  optItem "type".toList a.mtype
  ++ optItem "sender".toList a.sender
  ++ optItem "interface".toList a.iface
  ++ optItem "member".toList a.member
  ++ optItem "path".toList a.path
  ++ optItem "path_namespace".toList a.pathNs
  ++ optItem "destination".toList a.dest
  ++ (a.args.getD []).map (fun iv => renderItem (argKey iv.1) iv.2)           -- `if arg:` + loop
  ++ (a.argPaths.getD []).map (fun iv => renderItem (argPathKey iv.1) iv.2)   -- `if arg_path:` + loop
  ++ optItem "arg0namespace".toList a.arg0ns

/-- `sep.join(l)` for a one-character separator. -/
def joinWith (c : Char) : List Str → Str
  | [] => []
  | [x] => x
  | x :: y :: t => x ++ c :: joinWith c (y :: t)

/-- The rule text sent in `AddMatch`. -/
def renderRule (a : RuleArgs) : Str := joinWith ',' (renderItems a)

/-! ### bus.py: parsing -/

/-- Python `s.split(c)` for a one-character separator. -/
def splitOn (c : Char) : List Char → List Str
  | [] => [[]]
  | x :: t =>
    if x = c then [] :: splitOn c t
    else
      match splitOn c t with
      | p :: ps => (x :: p) :: ps
      | [] => [[x]]

def isAsciiDigit (c : Char) : Bool := '0' ≤ c && c ≤ '9'

/-- A character that can never occur in a string `int()` accepts: printable ASCII other than digits,
`+`, `-`, `_` (Python's `int` allows a sign, single underscores between digits, surrounding white
space and any Unicode decimal digit - all of that is outside the modelled domain). -/
def neverInInt (c : Char) : Bool :=
  33 ≤ c.toNat && c.toNat ≤ 126 && !isAsciiDigit c && c != '+' && c != '-' && c != '_'

inductive IntResult where
  | ok (n : Nat)
  | valueError
  | outOfDomain        -- the model does not decide (sign, blanks, underscores, non-ASCII)
  deriving DecidableEq, Repr

/-- `int(s)`: decided for non-empty ASCII digit strings (value), for the empty string and for strings
containing a character no integer literal can contain (`ValueError`); everything else is reported as
outside the model. -/
def parseNat (s : Str) : IntResult :=
  if s.isEmpty then .valueError
  else if s.all isAsciiDigit then .ok (s.foldl (fun acc c => acc * 10 + (c.toNat - 48)) 0)
  else if s.any neverInInt then .valueError
  else .outOfDomain

inductive ParseErr where
  | valueError      -- tuple unpacking or `int()` failed
  | outOfDomain     -- not modelled: the text assigns a string to `args` / `arg_paths` directly, or an
                    -- argument index that `int()` might accept but is not a plain ASCII digit string
  deriving DecidableEq, Repr

/-- `v[1:-1]`. -/
def sliceInner (v : Str) : Str := (v.drop 1).dropLast

/-- `k[3:-4]`. -/
def slice3m4 (k : Str) : Str := (k.take (k.length - 4)).drop 3

def setParam (a : RuleArgs) (p : Param) (v : Str) : Option RuleArgs :=
  match p with
  | .mtype => some { a with mtype := some v }
  | .sender => some { a with sender := some v }
  | .iface => some { a with iface := some v }
  | .member => some { a with member := some v }
  | .path => some { a with path := some v }
  | .pathNs => some { a with pathNs := some v }
  | .dest => some { a with dest := some v }
  | .arg0ns => some { a with arg0ns := some v }
  | .args => none
  | .argPaths => none

/-- One iteration of `for item in rule.split(',')`. -/
def parseItem (kwKeys : List Str) (a : RuleArgs) (item : Str) : Except ParseErr RuleArgs :=
  match splitOn '=' item with
  | [k0, v] =>
    let value := sliceInner v
    let k := if k0 = "type".toList then "mtype".toList else k0
    if kwKeys.contains k then
      match Param.ofName k with
      | none => .error .outOfDomain
      | some p =>
        match setParam a p value with
        | some a' => .ok a'
        | none => .error .outOfDomain
    else if "arg".toList.isPrefixOf k then
      if "path".toList.isSuffixOf k then
        match parseNat (slice3m4 k) with
        | .valueError => .error .valueError
        | .outOfDomain => .error .outOfDomain
        | .ok i => .ok { a with argPaths := some (a.argPaths.getD [] ++ [(i, value)]) }
      else
        match parseNat (k.drop 3) with
        | .valueError => .error .valueError
        | .outOfDomain => .error .outOfDomain
        | .ok i => .ok { a with args := some (a.args.getD [] ++ [(i, value)]) }
    else .ok a
  | _ => .error .valueError

def parseItems (kwKeys : List Str) : RuleArgs → List Str → Except ParseErr RuleArgs
  | a, [] => .ok a
  | a, it :: t =>
    match parseItem kwKeys a it with
    | .error e => .error e
    | .ok a' => parseItems kwKeys a' t

/-- The `kwargs` computed by `Bus.dbus_AddMatch(rule)`. -/
def parseRule (kwKeys : List Str) (text : Str) : Except ParseErr RuleArgs :=
  parseItems kwKeys {} (splitOn ',' text)

/-- The keys of the `kwargs` literal the theorems are proved for (`busKeys_current` in
Properties/C12 states that the source still has exactly these). -/
def curBusKeys : List Str :=
  ["mtype".toList, "sender".toList, "interface".toList, "member".toList, "path".toList,
   "path_namespace".toList, "destination".toList, "args".toList, "arg_paths".toList, "arg0namespace".toList]

def parseRuleGen (text : Str) : Except ParseErr RuleArgs := parseRule Gen.Route.busKwargKeys text

end Txdbus.Route
