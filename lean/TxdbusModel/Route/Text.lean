import TxdbusModel.Route.Rule
/-
C12 - CODE MODEL of the rule text: `DBusClientConnection.addMatch` (rendering, client.py) and
`Bus.dbus_AddMatch` (parsing, bus.py).

Python behaviour mirrored by hand: `'%d' % idx` for `idx >= 0`, `str.replace`, `','.join`,
`str.find`, the index loop of `_parseMatchRule` with its one-character look-ahead
`rule[i + 1:i + 2]`, slice `k[3:-4]` (clamping), `int(s)` decided for ASCII digit strings and for
strings that certainly are no integer literal; sign, blanks, `_` and non-ASCII digits are answered
`outOfDomain` (the harness skips the comparison there and counts it).
-/
namespace Txdbus.Route

/-! ### `'%d' % n` -/

def digitChar (d : Nat) : Char := Char.ofNat (48 + d)

def natDigitsFuel : Nat → Nat → List Char
  | 0, _ => []
  | fuel + 1, n => if n < 10 then [digitChar n] else natDigitsFuel fuel (n / 10) ++ [digitChar (n % 10)]

/-- Decimal digits of a natural number (`'%d' % n`). -/
def natDigits (n : Nat) : List Char := natDigitsFuel (n + 1) n

/-! ### client.py: rendering -/

/-- `str(v).replace("'", "'\\''")`: an apostrophe becomes close-quote, backslash-apostrophe, open-quote. -/
def escapeQuotes : Str → Str
  | [] => []
  | c :: t => if c = '\'' then '\'' :: '\\' :: '\'' :: '\'' :: escapeQuotes t else c :: escapeQuotes t

/-- The value as it is written between the apostrophes (`esc`: whether the source escapes). -/
def quotedValue (esc : Bool) (v : Str) : Str := if esc then escapeQuotes v else v

/-- `f"{k}='{v}'"` (after the escaping). -/
def renderItemWith (esc : Bool) (k v : Str) : Str := k ++ ('=' :: '\'' :: (quotedValue esc v ++ ['\'']))

/-- The local `add(k, v)`: `if v is not None: ...; l.append(...)`. -/
def optItem (esc : Bool) (k : Str) : Option Str → List Str
  | none => []
  | some v => [renderItemWith esc k v]

def argKey (i : Nat) : Str := "arg".toList ++ natDigits i
def argPathKey (i : Nat) : Str := "arg".toList ++ natDigits i ++ "path".toList

/-- The list `l` built by `DBusClientConnection.addMatch`. -/
def renderItemsWith (esc : Bool) (a : RuleArgs) : List Str :=
  optItem esc "type".toList a.mtype
  ++ optItem esc "sender".toList a.sender
  ++ optItem esc "interface".toList a.iface
  ++ optItem esc "member".toList a.member
  ++ optItem esc "path".toList a.path
  ++ optItem esc "path_namespace".toList a.pathNs
  ++ optItem esc "destination".toList a.dest
  ++ (a.args.getD []).map (fun iv => renderItemWith esc (argKey iv.1) iv.2)           -- `if arg:` + loop
  ++ (a.argPaths.getD []).map (fun iv => renderItemWith esc (argPathKey iv.1) iv.2)   -- `if arg_path:` + loop
  ++ optItem esc "arg0namespace".toList a.arg0ns

/-- `sep.join(l)` for a one-character separator. -/
def joinWith (c : Char) : List Str → Str
  | [] => []
  | [x] => x
  | x :: y :: t => x ++ c :: joinWith c (y :: t)

/-- The rule text sent in `AddMatch`. -/
def renderRuleWith (esc : Bool) (a : RuleArgs) : Str := joinWith ',' (renderItemsWith esc a)

/-- The current client (it escapes; `tables_current` pins `Tables.gen.clientEscapes = true`). -/
def renderItem (k v : Str) : Str := renderItemWith true k v
def renderItems (a : RuleArgs) : List Str := renderItemsWith true a
def renderRule (a : RuleArgs) : Str := renderRuleWith true a

/-! ### bus.py: parsing -/

def isAsciiDigit (c : Char) : Bool := '0' ≤ c && c ≤ '9'

/-- A character that can never occur in a string `int()` accepts: printable ASCII other than digits,
`+`, `-`, `_` (Python's `int` allows a sign, single underscores between digits, surrounding white
space and any Unicode decimal digit - all of that is outside the modelled domain). -/
def neverInInt (c : Char) : Bool :=
  33 ≤ c.toNat && c.toNat ≤ 126 && !isAsciiDigit c && c != '+' && c != '-' && c != '_'

inductive IntResult where
  | ok (n : Nat)
  | valueError
  | outOfDomain        -- the model does not decide (sign, blanks, underscores, non-ASCII)
  deriving DecidableEq, Repr

/-- `int(s)`: decided for non-empty ASCII digit strings (value), for the empty string and for strings
containing a character no integer literal can contain (`ValueError`); everything else is reported as
outside the model. -/
def parseNat (s : Str) : IntResult :=
  if s.isEmpty then .valueError
  else if s.all isAsciiDigit then .ok (s.foldl (fun acc c => acc * 10 + (c.toNat - 48)) 0)
  else if s.any neverInInt then .valueError
  else .outOfDomain

inductive ParseErr where
  | valueError      -- an item without `=`, an unterminated quote, or `int()` failed
  | outOfDomain     -- not modelled: the text assigns a string to `args` / `arg_paths` directly, or an
                    -- argument index that `int()` might accept but is not a plain ASCII digit string
  deriving DecidableEq, Repr

/-- State of the inner loop of `_parseMatchRule`: `quoted = False`, `quoted = True`, and "the
previous character was a backslash outside quotes" - the model's way of writing the look-ahead
`c == '\\\\' and rule[i + 1:i + 2] == "'"`: the backslash is emitted as itself unless an apostrophe follows. -/
inductive BQ where
  | plain | quoted | bs
  deriving DecidableEq, Repr

def consB (c : Char) (vr : Str × Str) : Str × Str := (c :: vr.1, vr.2)

/-- The inner `while i < n` loop: the value, and the text after the comma that ended it (`[]` when the
text ended).  `none`: `ValueError` (unterminated quote). -/
def busScanValue : BQ → List Char → Option (Str × Str)
  | .plain, [] => some ([], [])
  | .quoted, [] => none
  | .bs, [] => some (['\\'], [])
  | .quoted, c :: t =>
    if c = '\'' then busScanValue .plain t else (busScanValue .quoted t).map (consB c)
  | .plain, c :: t =>
    if c = '\'' then busScanValue .quoted t
    else if c = ',' then some ([], t)
    else if c = '\\' then busScanValue .bs t
    else (busScanValue .plain t).map (consB c)
  | .bs, c :: t =>
    if c = '\'' then (busScanValue .plain t).map (consB '\'')
    else if c = ',' then some (['\\'], t)
    else if c = '\\' then (busScanValue .bs t).map (consB '\\')
    else (busScanValue .plain t).map (fun vr => consB '\\' (consB c vr))

/-- `j = rule.find('=', i); key = rule[i:j]`: `none` when there is no `=` (`ValueError`). -/
def busScanKey : List Char → Option (Str × Str)
  | [] => none
  | c :: t => if c = '=' then some ([], t) else (busScanKey t).map (fun kr => (c :: kr.1, kr.2))

/-- The outer `while i < n` loop of `_parseMatchRule` (fuel: the text gets shorter every round). -/
def busItems : Nat → Str → Except ParseErr (List (Str × Str))
  | _, [] => .ok []                      -- `while i < n` ends
  | 0, _ :: _ => .error .valueError      -- unreachable with the fuel `parseMatchRule` supplies
  | fuel + 1, c :: t =>
    match busScanKey (c :: t) with
    | none => .error .valueError
    | some (k, rest) =>
      match busScanValue .plain rest with
      | none => .error .valueError
      | some (v, more) =>
        match busItems fuel more with
        | .error e => .error e
        | .ok l => .ok ((k, v) :: l)

/-- `_parseMatchRule(rule)`. -/
def parseMatchRule (text : Str) : Except ParseErr (List (Str × Str)) := busItems (text.length + 1) text

/-- `k[3:-4]`. -/
def slice3m4 (k : Str) : Str := (k.take (k.length - 4)).drop 3

def setParam (a : RuleArgs) (p : Param) (v : Str) : Option RuleArgs :=
  match p with
  | .mtype => some { a with mtype := some v }
  | .sender => some { a with sender := some v }
  | .iface => some { a with iface := some v }
  | .member => some { a with member := some v }
  | .path => some { a with path := some v }
  | .pathNs => some { a with pathNs := some v }
  | .dest => some { a with dest := some v }
  | .arg0ns => some { a with arg0ns := some v }
  | .args => none
  | .argPaths => none

/-- One iteration of `for k, value in _parseMatchRule(rule)` in `dbus_AddMatch`. -/
def parseItem (kwKeys : List Str) (a : RuleArgs) (kv : Str × Str) : Except ParseErr RuleArgs :=
  let value := kv.2
  let k := if kv.1 = "type".toList then "mtype".toList else kv.1
  if kwKeys.contains k then
    match Param.ofName k with
    | none => .error .outOfDomain
    | some p =>
      match setParam a p value with
      | some a' => .ok a'
      | none => .error .outOfDomain
  else if "arg".toList.isPrefixOf k then
    if "path".toList.isSuffixOf k then
      match parseNat (slice3m4 k) with
      | .valueError => .error .valueError
      | .outOfDomain => .error .outOfDomain
      | .ok i => .ok { a with argPaths := some (a.argPaths.getD [] ++ [(i, value)]) }
    else
      match parseNat (k.drop 3) with
      | .valueError => .error .valueError
      | .outOfDomain => .error .outOfDomain
      | .ok i => .ok { a with args := some (a.args.getD [] ++ [(i, value)]) }
  else .ok a

def parseItems (kwKeys : List Str) : RuleArgs → List (Str × Str) → Except ParseErr RuleArgs
  | a, [] => .ok a
  | a, it :: t =>
    match parseItem kwKeys a it with
    | .error e => .error e
    | .ok a' => parseItems kwKeys a' t

/-- The `kwargs` computed by `Bus.dbus_AddMatch(rule)`. -/
def parseRule (kwKeys : List Str) (text : Str) : Except ParseErr RuleArgs :=
  match parseMatchRule text with
  | .error e => .error e
  | .ok items => parseItems kwKeys {} items

/-- The keys of the `kwargs` literal the theorems are proved for (`tables_current` in
Properties/C12 states that the source still has exactly these). -/
def curBusKeys : List Str :=
  ["mtype".toList, "sender".toList, "interface".toList, "member".toList, "path".toList,
   "path_namespace".toList, "destination".toList, "args".toList, "arg_paths".toList, "arg0namespace".toList]

def parseRuleGen (text : Str) : Except ParseErr RuleArgs := parseRule Gen.Route.busKwargKeys text

end Txdbus.Route
