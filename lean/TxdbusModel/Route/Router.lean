import TxdbusModel.Route.Rule
/-
C12 - CODE MODEL of `MessageRouter`: `_id`, the insertion-ordered dict `_rules`,
`addMatch` (id allocation), `delMatch` (`del self._rules[rule_id]`, `KeyError` when absent),
`routeMessage` (every rule in dict order; an exception in one `Rule.match` - including one raised
by the callback - is caught inside that `match`, so the loop always continues).
-/
namespace Txdbus.Route

/-! Callbacks are identified by a number (`Cb`); whether a callback raises when invoked is an input
of `route` (a function of the rule id and the callback). -/

structure Entry where
  id : Nat
  cb : Cb
  rule : Rule
  deriving DecidableEq, Repr, Inhabited

structure Router where
  nextId : Nat := 0               -- `self._id`
  rules : List Entry := []        -- `self._rules`, in dict (insertion) order
  deriving DecidableEq, Repr, Inhabited

/-- Python `d[k] = v` on an insertion-ordered dict: overwrite in place or append. -/
def dictSet (k : Nat) (e : Entry) : List Entry → List Entry
  | [] => [e]
  | x :: t => if x.id = k then e :: t else x :: dictSet k e t

/-- `MessageRouter.addMatch(callback, **a)`: returns the new state and the rule id. -/
def Router.add (T : Tables) (s : Router) (cb : Cb) (a : RuleArgs) : Except Unit (Router × Nat) :=
  match mkRule T a with
  | .error e => .error e
  | .ok r =>
    let i := s.nextId
    .ok ({ nextId := s.nextId + 1, rules := dictSet i { id := i, cb := cb, rule := r } s.rules }, i)

/-- `MessageRouter.delMatch(rule_id)`; `none` is `KeyError` (state unchanged). -/
def Router.del (s : Router) (id : Nat) : Option Router :=
  if s.rules.any (fun e => e.id = id) then
    some { s with rules := s.rules.filter (fun e => e.id ≠ id) }
  else none

/-- Result of routing one message: the (rule id, callback) pairs invoked, in order, and how many
exceptions `log.err()` recorded. -/
structure Routed where
  invoked : List (Nat × Cb) := []
  logged : Nat := 0
  deriving DecidableEq, Repr, Inhabited

/-- `for r in self._rules.values(): r.match(m)` (`Rule.match` of the tree under test: `Rule.matchGen`). -/
def routeList (raises : Nat → Cb → Bool) (m : Msg) : List Entry → Routed
  | [] => {}
  | e :: t =>
    let rest := routeList raises m t
    match e.rule.matchGen m with
    | .skip => rest
    | .err => { rest with logged := rest.logged + 1 }
    | .call =>
      { invoked := (e.id, e.cb) :: rest.invoked,
        logged := rest.logged + (if raises e.id e.cb then 1 else 0) }

def Router.route (s : Router) (raises : Nat → Cb → Bool) (m : Msg) : Routed :=
  routeList raises m s.rules

/-! ### Histories -/

/-- What the caller of an operation observes. -/
inductive Obs where
  | added (id : Nat)
  | addFailed
  | deleted
  | keyError
  | routed (r : Routed)
  deriving DecidableEq, Repr

def Router.step (T : Tables) (raises : Nat → Cb → Bool) (s : Router) : Op → Router × Obs
  | .add cb a =>
    match s.add T cb a with
    | .ok (s', i) => (s', .added i)
    | .error _ => (s, .addFailed)
  | .del id =>
    match s.del id with
    | some s' => (s', .deleted)
    | none => (s, .keyError)
  | .route m => (s, .routed (s.route raises m))

/-- Run a history from a given state; returns the final state and the observations. -/
def Router.run (T : Tables) (raises : Nat → Cb → Bool) (s : Router) : List Op → Router × List Obs
  | [] => (s, [])
  | op :: ops =>
    let (s', o) := s.step T raises op
    let (s'', os) := Router.run T raises s' ops
    (s'', o :: os)

end Txdbus.Route
