/-
C12 - data shared by the match-rule spec and the code models.
Core Lean only.  A Python `str` is a `List Char` (DESIGN section 4).
-/
namespace Txdbus.Route

abbrev Str := List Char

/-- One element of a message body as the match code sees it.  Every string-like DBus type
(`s`, `o`, `g`) unmarshals to a plain Python `str`, so the code cannot tell them apart; every
other value (numbers, booleans, lists, dicts, tuples, bytes) compares unequal to any `str`
and has no usable `startswith`/`endswith`. -/
inductive Arg where
  | str (s : Str)
  | other
  deriving DecidableEq, Repr, Inhabited

/-- An attribute of a message object: not set at all (`getattr` raises `AttributeError`, e.g.
`member` of a method return), `None` (the class default), or a string. -/
inductive Attr where
  | missing
  | none
  | some (s : Str)
  deriving DecidableEq, Repr, Inhabited

/-- The part of a received `DBusMessage` that match rules look at. -/
structure Msg where
  mtype : Nat                     -- `_messageType`: 1 call, 2 return, 3 error, 4 signal
  path : Attr
  iface : Attr
  member : Attr
  dest : Attr
  sender : Attr
  body : Option (List Arg)        -- `None` when the message carries no signature
  deriving DecidableEq, Repr, Inhabited

/-- The keyword arguments of `MessageRouter.addMatch` (and, with `arg`/`arg_path` for
`args`/`arg_paths`, of `DBusClientConnection.addMatch`): the constraints of one match rule. -/
structure RuleArgs where
  mtype : Option Str := none
  sender : Option Str := none
  iface : Option Str := none
  member : Option Str := none
  path : Option Str := none
  pathNs : Option Str := none
  dest : Option Str := none
  args : Option (List (Nat × Str)) := none
  argPaths : Option (List (Nat × Str)) := none
  arg0ns : Option Str := none
  deriving DecidableEq, Repr, Inhabited

/-- Callbacks are identified by a number. -/
abbrev Cb := Nat

/-- One operation of a router history. -/
inductive Op where
  | add (cb : Cb) (a : RuleArgs)
  | del (id : Nat)
  | route (m : Msg)
  deriving Repr

/-- One event of a client-connection history: a call of `addMatch` / `delMatch`, the daemon's reply
(success or error) to the `k`-th remote call issued so far, an incoming signal. -/
inductive COp where
  | addMatch (cb : Cb) (a : RuleArgs)
  | delMatch (id : Nat)
  | replyOk (k : Nat)
  | replyErr (k : Nat)
  | signal (m : Msg)
  deriving Repr

/-- `idx`-th body argument; a message without body has no arguments. -/
def Msg.arg? (m : Msg) (i : Nat) : Option Arg := (m.body.getD [])[i]?

end Txdbus.Route
