import TxdbusModel.Route.Router
import TxdbusModel.Route.Text
/-
C12 - CODE MODEL of the match-rule part of `DBusClientConnection` (client.py):
`addMatch` sends `AddMatch(text)` and registers the rule in the local router only when the
daemon's reply arrives; `delMatch` looks the text up in `match_rules` (`KeyError` when absent),
sends `RemoveMatch(text)` and unregisters when the reply arrives; `signalReceived` routes.
Remote calls are identified by the order in which they were issued (the harness maps serials).
-/
namespace Txdbus.Route

/-- The continuation attached to a pending remote call. -/
inductive Pending where
  | addOk (cb : Cb) (a : RuleArgs) (text : Str)
  | delOk (id : Nat)
  deriving Repr

structure Client where
  router : Router := {}
  matchRules : List (Nat × Str) := []        -- `self.match_rules`
  calls : List (Option Pending) := []        -- k-th call issued; `none` once answered
  deriving Repr

inductive CObs where
  | sentAdd (text : Str)          -- AddMatch written to the transport
  | sentRemove (text : Str)       -- RemoveMatch written to the transport
  | keyError                      -- delMatch(id) raised synchronously
  | addDone (id : Nat)            -- the Deferred of addMatch fired with the rule id
  | addFailed
  | delDone
  | delFailed                     -- the `ok` callback of delMatch raised KeyError (second removal)
  | failed                        -- error reply: the Deferred errbacks, nothing is registered
  | ignored                       -- reply to a call that is not pending
  | routed (r : Routed)
  deriving DecidableEq, Repr

def setNone {α : Type} : Nat → List (Option α) → List (Option α)
  | _, [] => []
  | 0, _ :: t => none :: t
  | k + 1, x :: t => x :: setNone k t

def Client.step (T : Tables) (raises : Nat → Cb → Bool) (c : Client) : COp → Client × CObs
  | .addMatch cb a =>
    let text := renderRuleWith T.clientEscapes a
    ({ c with calls := c.calls ++ [some (.addOk cb a text)] }, .sentAdd text)
  | .delMatch id =>
    match c.matchRules.lookup id with
    | none => (c, .keyError)
    | some text => ({ c with calls := c.calls ++ [some (.delOk id)] }, .sentRemove text)
  | .replyOk k =>
    match c.calls[k]? with
    | some (some (.addOk cb a text)) =>
      let c1 := { c with calls := setNone k c.calls }
      match c1.router.add T cb a with
      | .error _ => (c1, .addFailed)
      | .ok (r', i) =>
        -- `self.match_rules[rule_id] = rule` (the id is fresh: a plain append, see the invariant)
        ({ c1 with router := r', matchRules := c1.matchRules.filter (fun p => p.1 ≠ i) ++ [(i, text)] }, .addDone i)
    | some (some (.delOk id)) =>
      let c1 := { c with calls := setNone k c.calls }
      if (c1.matchRules.lookup id).isSome then
        let c2 := { c1 with matchRules := c1.matchRules.filter (fun p => p.1 ≠ id) }
        match c2.router.del id with
        | some r' => ({ c2 with router := r' }, .delDone)
        | none => (c2, .delFailed)
      else (c1, .delFailed)
    | _ => (c, .ignored)
  | .replyErr k =>
    match c.calls[k]? with
    | some (some _) => ({ c with calls := setNone k c.calls }, .failed)
    | _ => (c, .ignored)
  | .signal m => (c, .routed (c.router.route raises m))

def Client.run (T : Tables) (raises : Nat → Cb → Bool) (c : Client) : List COp → Client × List CObs
  | [] => (c, [])
  | op :: ops =>
    let (c', o) := c.step T raises op
    let (c'', os) := Client.run T raises c' ops
    (c'', o :: os)

end Txdbus.Route
