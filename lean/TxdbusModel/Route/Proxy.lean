import TxdbusModel.Route.Basic
/-
C12 - CODE MODEL of the proxy's signal gate (objects.py): `isSignatureValid` and the
`callback_caller` closure of `RemoteDBusObject.notifyOnSignal`.
-/
namespace Txdbus.Route

/-- Python truthiness of an optional string (`None` and `''` are falsy). -/
def strTruthy : Option Str → Bool
  | none => false
  | some s => !s.isEmpty

/-- `isSignatureValid(expected, received)`. -/
def isSignatureValid (expected received : Option Str) : Bool :=
  if strTruthy expected then
    if !strTruthy received || expected != received then false else true
  else
    if strTruthy received then false else true

/-- `callback_caller(sig_msg)`: `none` = the user callback is not called, `some args` = it is
called with these positional arguments (`callback()` when the body is `None` or empty). -/
def proxyGate (declared received : Option Str) (body : Option (List Arg)) : Option (List Arg) :=
  if isSignatureValid declared received then
    match body with
    | some (x :: t) => some (x :: t)
    | _ => some []
  else none

/-- Spec side: a signature that is absent and the empty signature are the same signature. -/
def sigNorm : Option Str → Str
  | none => []
  | some s => s

end Txdbus.Route
