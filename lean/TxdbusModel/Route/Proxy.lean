import TxdbusModel.Route.Basic
/-
C12 - CODE MODEL of the proxy's signal gate (objects.py): `isSignatureValid` and the
`callback_caller` closure of `RemoteDBusObject.notifyOnSignal`.
-/
namespace Txdbus.Route

/-- Python truthiness of an optional string (`None` and `''` are falsy). -/
def strTruthy : Option Str → Bool
  | none => false
  | some s => !s.isEmpty

/-- `isSignatureValid(expected, received)`. -/
def isSignatureValid (expected received : Option Str) : Bool :=
  if strTruthy expected then
    if !strTruthy received || expected != received then false else true
  else
    if strTruthy received then false else true

/-- `callback_caller(sig_msg)`: `none` = the user callback is not called, `some args` = it is
called with these positional arguments (`callback()` when the body is `None` or empty). -/
def proxyGate (declared received : Option Str) (body : Option (List Arg)) : Option (List Arg) :=
  if isSignatureValid declared received then
    match body with
    | some (x :: t) => some (x :: t)
    | _ => some []
  else none

/-- Spec side: a signature that is absent and the empty signature are the same signature. -/
def sigNorm : Option Str → Str
  | none => []
  | some s => s

/-! ### `notifyOnSignal`: which declaration a subscription refers to -/

/-- A `DBusInterface` as `notifyOnSignal` sees it: its name and its `signals` dict (name -> declared
signature, keys distinct). -/
structure IfaceDecl where
  name : Str
  signals : List (Str × Str)
  deriving DecidableEq, Repr

/-- The loop at the head of `notifyOnSignal(signalName, callback, interface)`:
`for i in self.interfaces: if interface and not i.name == interface: continue;
 if signalName in i.signals: signal = i.signals[signalName]; iface = i; break`.
`none` = `AttributeError` (no interface declares the signal). -/
def selectSignal (signalName : Str) (interface : Option Str) : List IfaceDecl → Option (Str × Str)
  | [] => none
  | i :: rest =>
    if strTruthy interface && !(some i.name == interface) then selectSignal signalName interface rest
    else
      match i.signals.lookup signalName with
      | some sg => some (i.name, sg)
      | none => selectSignal signalName interface rest

/-- The keyword arguments of the `addMatch` call made by `notifyOnSignal`. -/
def notifyRule (objectPath signalName ifaceName : Str) : RuleArgs :=
  { mtype := some "signal".toList, path := some objectPath, member := some signalName, iface := some ifaceName }

/-! ### `_signalRules` and `cancelSignalNotification` -/

/-- `self._signalRules` (a set of rule ids; `None` before the first subscription = empty). -/
structure ProxySubs where
  rules : List Nat := []
  deriving DecidableEq, Repr

/-- `on_ok(rule_id)`: `self._signalRules.add(rule_id)`. -/
def ProxySubs.onOk (p : ProxySubs) (id : Nat) : ProxySubs :=
  if p.rules.contains id then p else { rules := id :: p.rules }

/-- `cancelSignalNotification(rule_id)`: `some id` = `conn.delMatch(id)` is called. -/
def ProxySubs.cancel (p : ProxySubs) (id : Nat) : ProxySubs × Option Nat :=
  if p.rules.contains id then ({ rules := p.rules.filter (· ≠ id) }, some id) else (p, none)

/-! ### several proxies

`_signalRules` belongs to the `RemoteDBusObject` INSTANCE: every proxy - on the same connection or on another
one, where rule ids are numbered from 0 again - has its own set.  A table of proxies, numbered in order of
creation; a proxy that has not subscribed yet has the empty set. -/

def ProxyTable.get (t : List ProxySubs) (p : Nat) : ProxySubs := t.getD p {}

def ProxyTable.put (t : List ProxySubs) (p : Nat) (v : ProxySubs) : List ProxySubs :=
  (t ++ List.replicate (p + 1 - t.length) ({} : ProxySubs)).set p v

/-- `on_ok(rule_id)` of proxy `p`. -/
def ProxyTable.onOk (t : List ProxySubs) (p id : Nat) : List ProxySubs :=
  ProxyTable.put t p ((ProxyTable.get t p).onOk id)

/-- `cancelSignalNotification(rule_id)` on proxy `p`. -/
def ProxyTable.cancel (t : List ProxySubs) (p id : Nat) : List ProxySubs × Option Nat :=
  (ProxyTable.put t p ((ProxyTable.get t p).cancel id).1, ((ProxyTable.get t p).cancel id).2)

end Txdbus.Route
