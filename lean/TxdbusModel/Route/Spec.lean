import TxdbusModel.Route.Basic
import TxdbusModel.Gen.Route
/-
C12 - SPEC: when does a message satisfy a match rule.  Written from the property statement
(which quotes the "Match Rules" section of the DBus specification); it never looks at txdbus.

  type            the message type named by the rule
  interface, member, path, destination    present and equal
  path_namespace  the message's path is that path or a descendant of it ("/" contains everything)
  argN            the N-th body argument exists, is a string, and equals the value
  argNpath        the N-th body argument exists, is a string (or object path), and is equal to the
                  value, or whichever of the two ends in '/' is a prefix of the other

`sender` and `arg0namespace` are not among the constraints the property lists; a client-side
router cannot evaluate `sender` (it sees unique names) - the spec below ignores both.
-/
namespace Txdbus.Route.Spec

/-- Message type names of the DBus specification. -/
def mtypeName : Nat → Option Str
  | 1 => some "method_call".toList
  | 2 => some "method_return".toList
  | 3 => some "error".toList
  | 4 => some "signal".toList
  | _ => none

def optAll {α : Type} (o : Option α) (p : α → Bool) : Bool :=
  match o with
  | none => true
  | some v => p v

def endsSlash (s : Str) : Bool := s.getLast? == some '/'

/-- `p` is the namespace `ns` or a descendant of it. -/
def inNamespace (ns p : Str) : Bool :=
  ns == ['/'] || p == ns || (ns ++ ['/']).isPrefixOf p

/-- The components of a path: the stretches between slashes (`/a/b` has `["", "a", "b"]`). -/
def components : Str → List Str
  | [] => [[]]
  | c :: t =>
    if c = '/' then [] :: components t
    else
      match components t with
      | p :: ps => (c :: p) :: ps
      | [] => [[c]]

/-- "That path or a descendant of it", said with components: the namespace's components are an initial
stretch of the path's components (the root namespace contains everything).  `inNamespace` above is the
same thing said with characters - theorem `namespace_is_component_prefix`. -/
def descendantOrSelf (ns p : Str) : Prop :=
  ns = ['/'] ∨ components ns <+: components p

/-- argNpath: equal, or whichever of the two ends in '/' is a prefix of the other. -/
def argPathMatches (v a : Str) : Bool :=
  a == v || (endsSlash v && v.isPrefixOf a) || (endsSlash a && a.isPrefixOf v)

def argIs (m : Msg) (iv : Nat × Str) : Bool := m.arg? iv.1 == some (.str iv.2)

def argPathIs (m : Msg) (iv : Nat × Str) : Bool :=
  match m.arg? iv.1 with
  | some (.str a) => argPathMatches iv.2 a
  | _ => false

def pathIn (m : Msg) (ns : Str) : Bool :=
  match m.path with
  | .some p => inNamespace ns p
  | _ => false

/-- The message satisfies every constraint of the rule. -/
def specMatches (r : RuleArgs) (m : Msg) : Bool :=
  optAll r.mtype (fun t => mtypeName m.mtype == some t)
  && optAll r.iface (fun v => m.iface == .some v)
  && optAll r.member (fun v => m.member == .some v)
  && optAll r.path (fun v => m.path == .some v)
  && optAll r.dest (fun v => m.dest == .some v)
  && optAll r.pathNs (pathIn m)
  && (r.args.getD []).all (argIs m)
  && (r.argPaths.getD []).all (argPathIs m)

/-- arg0namespace: `name` is the bus / interface name `ns` itself or lies below it (`com.ex` contains `com.ex` and
`com.ex.a`, not `com.exa`). -/
def inBusNamespace (ns name : Str) : Bool := name == ns || (ns ++ ['.']).isPrefixOf name

/-- "Matches messages whose first argument is of type STRING, and is a bus name or interface name within the
specified namespace." -/
def arg0In (m : Msg) (ns : Str) : Bool :=
  match m.arg? 0 with
  | some (.str a) => inBusNamespace ns a
  | _ => false

/-- The message satisfies every constraint of the rule, `arg0namespace` included (DBus specification).  This is
the matching relation of the property once the router evaluates `arg0namespace` (fixes/C14-05); `specMatches`
above is the relation without that clause (what txdbus as found implements; kept, C14 builds on it). -/
def specMatchesFull (r : RuleArgs) (m : Msg) : Bool :=
  specMatches r m && optAll r.arg0ns (arg0In m)

def specMatchesWith (evalArg0 : Bool) (r : RuleArgs) (m : Msg) : Bool :=
  if evalArg0 then specMatchesFull r m else specMatches r m

/-- The matching relation the router of the tree under test is measured against in the history theorems:
the full relation when the tree evaluates `arg0namespace` (the switch is probed from the source), the relation
without the clause for txdbus as found - where the difference between the two IS the recorded finding
`arg0namespace-constraint-ignored` (witness theorem `found_router_ignores_arg0namespace`). -/
def specMatchesGen (r : RuleArgs) (m : Msg) : Bool := specMatchesWith Gen.Route.evaluatesArg0ns r m

/-! ### SPEC of the rule text: what a DBus match-rule text means

From the "Match Rules" section of the DBus specification: a rule is a comma-separated list of
`key=value` pairs.  In a value an apostrophe starts / ends a quoted stretch inside which every
other character is literal; outside quotes a backslash followed by an apostrophe stands for an
apostrophe and a comma ends the value.  Keys: `type`, `sender`, `interface`, `member`, `path`,
`path_namespace`, `destination`, `arg0namespace`, `argN`, `argNpath` (N decimal).  Nothing here
looks at txdbus. -/

/-- One constraint of a rule, as the specification names them. -/
inductive Constraint where
  | mtype (v : Str) | sender (v : Str) | iface (v : Str) | member (v : Str) | path (v : Str)
  | pathNs (v : Str) | dest (v : Str) | arg0ns (v : Str)
  | arg (i : Nat) (v : Str) | argPath (i : Nat) (v : Str)
  deriving DecidableEq, Repr

def optC (f : Str → Constraint) : Option Str → List Constraint
  | none => []
  | some v => [f v]

/-- The constraints a rule consists of (`arg=[]` contributes none). -/
def constraintsOf (a : RuleArgs) : List Constraint :=
  optC .mtype a.mtype ++ optC .sender a.sender ++ optC .iface a.iface ++ optC .member a.member
  ++ optC .path a.path ++ optC .pathNs a.pathNs ++ optC .dest a.dest
  ++ (a.args.getD []).map (fun iv => .arg iv.1 iv.2)
  ++ (a.argPaths.getD []).map (fun iv => .argPath iv.1 iv.2)
  ++ optC .arg0ns a.arg0ns

/-- Scanner state inside a value: outside quotes, inside quotes, or just after a backslash outside
quotes. -/
inductive Q where
  | plain | quoted | bs
  deriving DecidableEq, Repr

def consV (c : Char) (vr : Str × Option Str) : Str × Option Str := (c :: vr.1, vr.2)

/-- Scan a value.  Result: the value and what follows the comma that ended it (`none`: the text
ended).  `none`: unterminated quote. -/
def scanValue : Q → List Char → Option (Str × Option Str)
  | .plain, [] => some ([], none)
  | .quoted, [] => none
  | .bs, [] => some (['\\'], none)
  | .quoted, c :: t =>
    if c = '\'' then scanValue .plain t else (scanValue .quoted t).map (consV c)
  | .plain, c :: t =>
    if c = '\'' then scanValue .quoted t
    else if c = ',' then some ([], some t)
    else if c = '\\' then scanValue .bs t
    else (scanValue .plain t).map (consV c)
  | .bs, c :: t =>
    if c = '\'' then (scanValue .plain t).map (consV '\'')          -- backslash-apostrophe: an apostrophe
    else if c = ',' then some (['\\'], some t)
    else if c = '\\' then (scanValue .bs t).map (consV '\\')
    else (scanValue .plain t).map (fun vr => consV '\\' (consV c vr))

/-- Scan a key up to `=`; a key contains neither comma nor apostrophe. -/
def scanKey : List Char → Option (Str × Str)
  | [] => none
  | c :: t =>
    if c = '=' then some ([], t)
    else if c = ',' || c = '\'' then none
    else (scanKey t).map (fun kr => (c :: kr.1, kr.2))

def parseItemsText : Nat → Str → Option (List (Str × Str))
  | 0, _ => none
  | fuel + 1, text =>
    match scanKey text with
    | none => none
    | some (k, rest) =>
      match scanValue .plain rest with
      | none => none
      | some (v, none) => some [(k, v)]
      | some (v, some more) => (parseItemsText fuel more).map (fun l => (k, v) :: l)

/-- The `key=value` pairs of a rule text (`none`: not a rule). -/
def parseRuleText (text : Str) : Option (List (Str × Str)) :=
  if text.isEmpty then some [] else parseItemsText (text.length + 1) text

/-- A decimal number: non-empty, ASCII digits only. -/
def decimal? (ds : Str) : Option Nat :=
  if ds.isEmpty || !ds.all (fun c => '0' ≤ c && c ≤ '9') then none
  else some (ds.foldl (fun acc c => acc * 10 + (c.toNat - '0'.toNat)) 0)

/-- The constraint a `key=value` pair stands for. -/
def constraintOfItem (k v : Str) : Option Constraint :=
  if k = "type".toList then some (.mtype v)
  else if k = "sender".toList then some (.sender v)
  else if k = "interface".toList then some (.iface v)
  else if k = "member".toList then some (.member v)
  else if k = "path".toList then some (.path v)
  else if k = "path_namespace".toList then some (.pathNs v)
  else if k = "destination".toList then some (.dest v)
  else if k = "arg0namespace".toList then some (.arg0ns v)
  else if "arg".toList.isPrefixOf k then
    let r := k.drop 3
    if "path".toList.isSuffixOf r then (decimal? (r.take (r.length - 4))).map (fun i => .argPath i v)
    else (decimal? r).map (fun i => .arg i v)
  else none

/-- What a rule text means: its list of constraints (`none`: not a rule, or an unknown key). -/
def ruleTextMeaning (text : Str) : Option (List Constraint) :=
  (parseRuleText text).bind (fun l => l.mapM (fun kv => constraintOfItem kv.1 kv.2))

/-! ### SPEC of the router: an abstract registry

Ids are handed out in order of registration and never again; a removed registration is gone;
a routed message reaches exactly the live registrations whose rule it satisfies, each once,
in registration order.  Nothing here depends on what callbacks do. -/

structure Reg where
  id : Nat
  cb : Cb
  args : RuleArgs
  deriving Repr

structure SpecRouter where
  count : Nat := 0
  live : List Reg := []
  deriving Repr

inductive SpecObs where
  | added (id : Nat)
  | deleted
  | keyError
  | routed (invoked : List (Nat × Cb))
  deriving DecidableEq, Repr

def SpecRouter.step (s : SpecRouter) : Op → SpecRouter × SpecObs
  | .add cb a => ({ count := s.count + 1, live := s.live ++ [{ id := s.count, cb := cb, args := a }] }, .added s.count)
  | .del id =>
    if s.live.any (fun g => g.id = id) then ({ s with live := s.live.filter (fun g => g.id ≠ id) }, .deleted)
    else (s, .keyError)
  | .route m => (s, .routed ((s.live.filter (fun g => specMatchesGen g.args m)).map (fun g => (g.id, g.cb))))

def SpecRouter.run (s : SpecRouter) : List Op → SpecRouter × List SpecObs
  | [] => (s, [])
  | op :: ops =>
    let (s', o) := s.step op
    let (s'', os) := SpecRouter.run s' ops
    (s'', o :: os)

/-! ### SPEC of the client connection: a registry that is a function of the history alone

A registration exists from the moment the daemon acknowledged its `AddMatch` until the moment the
daemon acknowledged a `RemoveMatch` for its id.  Requests are numbered in the order they were sent;
`delMatch(id)` sends a request only for an id that is registered at that moment.  The state below
is computed from the events only - it never looks at the code model. -/

inductive Request where
  | add (cb : Cb) (a : RuleArgs)
  | del (id : Nat)
  deriving Repr

structure ClientSpec where
  reg : SpecRouter := {}
  requests : List (Option Request) := []      -- k-th request sent; `none` once answered
  deriving Repr

def answered {α : Type} : Nat → List (Option α) → List (Option α)
  | _, [] => []
  | 0, _ :: t => none :: t
  | k + 1, x :: t => x :: answered k t

def ClientSpec.step (s : ClientSpec) : COp → ClientSpec
  | .addMatch cb a => { s with requests := s.requests ++ [some (.add cb a)] }
  | .delMatch id =>
    if s.reg.live.any (fun g => g.id = id) then { s with requests := s.requests ++ [some (.del id)] } else s
  | .replyOk k =>
    match s.requests[k]? with
    | some (some (.add cb a)) => { reg := (s.reg.step (.add cb a)).1, requests := answered k s.requests }
    | some (some (.del id)) => { reg := (s.reg.step (.del id)).1, requests := answered k s.requests }
    | _ => s
  | .replyErr k =>
    match s.requests[k]? with
    | some (some _) => { s with requests := answered k s.requests }
    | _ => s
  | .signal _ => s

def ClientSpec.run (s : ClientSpec) : List COp → ClientSpec
  | [] => s
  | op :: ops => ClientSpec.run (s.step op) ops

end Txdbus.Route.Spec
