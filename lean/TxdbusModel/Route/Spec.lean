import TxdbusModel.Route.Basic
/-
C12 - SPEC: when does a message satisfy a match rule.  Written from the property statement
(which quotes the "Match Rules" section of the DBus specification); it never looks at txdbus.

  type            the message type named by the rule
  interface, member, path, destination    present and equal
  path_namespace  the message's path is that path or a descendant of it ("/" contains everything)
  argN            the N-th body argument exists, is a string, and equals the value
  argNpath        the N-th body argument exists, is a string (or object path), and is equal to the
                  value, or whichever of the two ends in '/' is a prefix of the other

`sender` and `arg0namespace` are not among the constraints the property lists; a client-side
router cannot evaluate `sender` (it sees unique names) - the spec below ignores both.
-/
namespace Txdbus.Route.Spec

/-- Message type names of the DBus specification. -/
def mtypeName : Nat → Option Str
  | 1 => some "method_call".toList
  | 2 => some "method_return".toList
  | 3 => some "error".toList
  | 4 => some "signal".toList
  | _ => none

def optAll {α : Type} (o : Option α) (p : α → Bool) : Bool :=
  match o with
  | none => true
  | some v => p v

def endsSlash (s : Str) : Bool := s.getLast? == some '/'

/-- `p` is the namespace `ns` or a descendant of it. -/
def inNamespace (ns p : Str) : Bool :=
  ns == ['/'] || p == ns || (ns ++ ['/']).isPrefixOf p

/-- argNpath: equal, or whichever of the two ends in '/' is a prefix of the other. -/
def argPathMatches (v a : Str) : Bool :=
  a == v || (endsSlash v && v.isPrefixOf a) || (endsSlash a && a.isPrefixOf v)

def argIs (m : Msg) (iv : Nat × Str) : Bool := m.arg? iv.1 == some (.str iv.2)

def argPathIs (m : Msg) (iv : Nat × Str) : Bool :=
  match m.arg? iv.1 with
  | some (.str a) => argPathMatches iv.2 a
  | _ => false

def pathIn (m : Msg) (ns : Str) : Bool :=
  match m.path with
  | .some p => inNamespace ns p
  | _ => false

/-- The message satisfies every constraint of the rule. -/
def specMatches (r : RuleArgs) (m : Msg) : Bool :=
  optAll r.mtype (fun t => mtypeName m.mtype == some t)
  && optAll r.iface (fun v => m.iface == .some v)
  && optAll r.member (fun v => m.member == .some v)
  && optAll r.path (fun v => m.path == .some v)
  && optAll r.dest (fun v => m.dest == .some v)
  && optAll r.pathNs (pathIn m)
  && (r.args.getD []).all (argIs m)
  && (r.argPaths.getD []).all (argPathIs m)

/-! ### SPEC of the router: an abstract registry

Ids are handed out in order of registration and never again; a removed registration is gone;
a routed message reaches exactly the live registrations whose rule it satisfies, each once,
in registration order.  Nothing here depends on what callbacks do. -/

structure Reg where
  id : Nat
  cb : Cb
  args : RuleArgs
  deriving Repr

structure SpecRouter where
  count : Nat := 0
  live : List Reg := []
  deriving Repr

inductive SpecObs where
  | added (id : Nat)
  | deleted
  | keyError
  | routed (invoked : List (Nat × Cb))
  deriving DecidableEq, Repr

def SpecRouter.step (s : SpecRouter) : Op → SpecRouter × SpecObs
  | .add cb a => ({ count := s.count + 1, live := s.live ++ [{ id := s.count, cb := cb, args := a }] }, .added s.count)
  | .del id =>
    if s.live.any (fun g => g.id = id) then ({ s with live := s.live.filter (fun g => g.id ≠ id) }, .deleted)
    else (s, .keyError)
  | .route m => (s, .routed ((s.live.filter (fun g => specMatches g.args m)).map (fun g => (g.id, g.cb))))

def SpecRouter.run (s : SpecRouter) : List Op → SpecRouter × List SpecObs
  | [] => (s, [])
  | op :: ops =>
    let (s', o) := s.step op
    let (s'', os) := SpecRouter.run s' ops
    (s'', o :: os)

end Txdbus.Route.Spec
