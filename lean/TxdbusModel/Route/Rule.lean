import TxdbusModel.Route.Basic
import TxdbusModel.Gen.Route
/-
C12 - CODE MODEL of txdbus/router.py: `MessageRouter.addMatch` (which constraint is stored where),
`Rule.add`, `Rule.match` in the code's order, with the `hasattr` guards, the `body is None`
handling and the catch-all `except BaseException: log.err()`.

The model is parameterised by the tables extracted from the source (`Tables`): the tuple of
"simple" keys in `Rule.add`, the key each `addMatch` parameter is stored under, `_mtypes` and
whether the type constraint is translated through it.  `Tables.gen` is the current source;
`Tables.pre` is the tree before the repair of F15 (kept for the witness theorems).
-/
namespace Txdbus.Route

/-- The parameters of `MessageRouter.addMatch`. -/
inductive Param where
  | mtype | sender | iface | member | path | pathNs | dest | args | argPaths | arg0ns
  deriving DecidableEq, Repr

def Param.ofName (s : Str) : Option Param :=
  if s = "mtype".toList then some .mtype
  else if s = "sender".toList then some .sender
  else if s = "interface".toList then some .iface
  else if s = "member".toList then some .member
  else if s = "path".toList then some .path
  else if s = "path_namespace".toList then some .pathNs
  else if s = "destination".toList then some .dest
  else if s = "args".toList then some .args
  else if s = "arg_paths".toList then some .argPaths
  else if s = "arg0namespace".toList then some .arg0ns
  else none

structure Tables where
  mtypes : List (Str × Nat)            -- router._mtypes
  simpleKeys : List Str                -- tuple in Rule.add
  addKeys : List (Str × Str)           -- (parameter name, key given to Rule.add), in code order
  mtypeLookup : Bool                   -- `_mtypes.get(mtype, mtype)` instead of `mtype`
  clientEscapes : Bool                 -- client.addMatch writes an apostrophe in a value as '\''
  deriving DecidableEq, Repr

def Tables.gen : Tables :=
  { mtypes := Gen.Route.mtypes, simpleKeys := Gen.Route.simpleKeys,
    addKeys := Gen.Route.addKeys, mtypeLookup := Gen.Route.mtypeLookup,
    clientEscapes := Gen.Route.clientEscapes }

/-- The tables the property theorems are proved for (the repaired router); the theorem
`tables_current` (Properties/C12) states `Tables.gen = Tables.cur`, so an edit of any of these
tables in the source breaks that theorem. -/
def Tables.cur : Tables :=
  { mtypes := [("method_call".toList, 1), ("method_return".toList, 2), ("error".toList, 3), ("signal".toList, 4)],
    simpleKeys := ["_messageType".toList, "interface".toList, "member".toList, "path".toList, "destination".toList],
    addKeys := [("mtype".toList, "_messageType".toList), ("sender".toList, "sender".toList),
                ("interface".toList, "interface".toList), ("member".toList, "member".toList),
                ("path".toList, "path".toList), ("destination".toList, "destination".toList),
                ("path_namespace".toList, "path_namespace".toList), ("args".toList, "args".toList),
                ("arg_paths".toList, "arg_paths".toList), ("arg0namespace".toList, "arg0namespace".toList)],
    mtypeLookup := true, clientEscapes := true }

/-- The tables of the tree before the repair of F15 (`type` stored under a key never evaluated). -/
def Tables.pre : Tables :=
  { mtypes := [("method_call".toList, 1), ("method_return".toList, 2), ("error".toList, 3), ("signal".toList, 4)],
    simpleKeys := ["mtype".toList, "interface".toList, "member".toList, "path".toList, "destination".toList],
    addKeys := [("mtype".toList, "_messageType".toList), ("sender".toList, "sender".toList),
                ("interface".toList, "interface".toList), ("member".toList, "member".toList),
                ("path".toList, "path".toList), ("destination".toList, "destination".toList),
                ("path_namespace".toList, "path_namespace".toList), ("args".toList, "args".toList),
                ("arg_paths".toList, "arg_paths".toList), ("arg0namespace".toList, "arg0namespace".toList)],
    mtypeLookup := false, clientEscapes := false }

/-- Python values that end up inside a stored rule or come out of `getattr(m, key)`. -/
inductive PyVal where
  | none
  | int (n : Nat)
  | str (s : Str)
  | pairs (l : List (Nat × Str))
  deriving DecidableEq, Repr, Inhabited

/-- Python truthiness (`if mtype:` ...). -/
def PyVal.truthy : PyVal → Bool
  | .none => false
  | .int n => n != 0
  | .str s => !s.isEmpty
  | .pairs l => !l.isEmpty

/-- Python `x != v` for the values that occur (an `int` never equals a `str`, `None` only itself). -/
def PyVal.ne (x v : PyVal) : Bool := !(x == v)

/-- `Rule`: `self.simple` (in insertion order) and the attributes set with `setattr`
(newest first, so that `List.lookup` is `getattr`). -/
structure Rule where
  simple : List (Str × PyVal) := []
  attrs : List (Str × PyVal) := []
  deriving DecidableEq, Repr, Inhabited

/-- `Rule.add(key, value)`. -/
def Rule.add (T : Tables) (r : Rule) (key : Str) (v : PyVal) : Rule :=
  if T.simpleKeys.contains key then { r with simple := r.simple ++ [(key, v)] }
  else { r with attrs := (key, v) :: r.attrs }

def optStr : Option Str → PyVal
  | none => .none
  | some s => .str s

def optPairs : Option (List (Nat × Str)) → PyVal
  | none => .none
  | some l => .pairs l

/-- The value of an `addMatch` parameter as a Python value. -/
def RuleArgs.get (a : RuleArgs) : Param → PyVal
  | .mtype => optStr a.mtype | .sender => optStr a.sender | .iface => optStr a.iface
  | .member => optStr a.member | .path => optStr a.path | .pathNs => optStr a.pathNs
  | .dest => optStr a.dest | .args => optPairs a.args | .argPaths => optPairs a.argPaths
  | .arg0ns => optStr a.arg0ns

/-- `_mtypes.get(mtype, mtype)` (only applied to the type constraint, only when the source does). -/
def Tables.storedValue (T : Tables) (p : Param) (v : PyVal) : PyVal :=
  match p, v with
  | .mtype, .str s =>
    if T.mtypeLookup then
      match T.mtypes.lookup s with
      | some n => .int n
      | none => .str s
    else .str s
  | _, v => v

/-- One line pair `if p: r.add('key', value)` of `MessageRouter.addMatch`.  A parameter name
the model does not know is an error (never defaulted). -/
def addStep (T : Tables) (a : RuleArgs) (r : Except Unit Rule) (pk : Str × Str) : Except Unit Rule :=
  match r, Param.ofName pk.1 with
  | .error e, _ => .error e
  | .ok _, none => .error ()
  | .ok r, some p =>
    let v := a.get p
    if v.truthy then .ok (r.add T pk.2 (T.storedValue p v)) else .ok r

/-- The `Rule` built by `MessageRouter.addMatch(callback, **a)`. -/
def mkRule (T : Tables) (a : RuleArgs) : Except Unit Rule :=
  T.addKeys.foldl (addStep T a) (.ok {})

/-- `getattr(m, key)`: `.error ()` is `AttributeError`.  Only the attributes match rules can name
are modelled. -/
def attrVal : Attr → Except Unit PyVal
  | .missing => .error ()
  | .none => .ok .none
  | .some s => .ok (.str s)

def Msg.getattr (m : Msg) (k : Str) : Except Unit PyVal :=
  if k = "_messageType".toList then .ok (.int m.mtype)
  else if k = "interface".toList then attrVal m.iface
  else if k = "member".toList then attrVal m.member
  else if k = "path".toList then attrVal m.path
  else if k = "destination".toList then attrVal m.dest
  else if k = "sender".toList then attrVal m.sender
  else .error ()

/-- What one `Rule.match(m)` does: returns quietly, raises before the callback (caught and
logged by the catch-all `except`), or calls the callback. -/
inductive Outcome where
  | skip | err | call
  deriving DecidableEq, Repr, Inhabited

/-- `for k, v in self.simple: if getattr(m, k) != v: return`.  `none` = fell through. -/
def matchSimple (m : Msg) : List (Str × PyVal) → Option Outcome
  | [] => none
  | (k, v) :: t =>
    match m.getattr k with
    | .error _ => some .err
    | .ok x => if x.ne v then some .skip else matchSimple m t

/-- `_inNamespace(path, namespace)` of the repaired router. -/
def inNamespace (p ns : Str) : Bool :=
  p == ns || ns == ['/'] || (ns ++ ['/']).isPrefixOf p

def endsWithSlash (s : Str) : Bool := s.getLast? == some '/'

/-- `_argPathMatches(arg, value)` of the repaired router, on two strings. -/
def argPathMatches (a v : Str) : Bool :=
  a == v || (endsWithSlash v && v.isPrefixOf a) || (endsWithSlash a && a.isPrefixOf v)

/-- `if hasattr(self, 'path_namespace'): if m.path is None or not _inNamespace(...): return`. -/
def matchNs (r : Rule) (m : Msg) : Option Outcome :=
  match r.attrs.lookup "path_namespace".toList with
  | none => none
  | some nsv =>
    match m.path with
    | .missing => some .err
    | .none => some .skip
    | .some p =>
      match nsv with
      | .str ns => if inNamespace p ns then none else some .skip
      | _ => some .err

/-- `for idx, val in self.args: if idx >= len(body) or body[idx] != val: return`. -/
def matchArgs (body : List Arg) : List (Nat × Str) → Option Outcome
  | [] => none
  | (i, v) :: t =>
    match body[i]? with
    | none => some .skip
    | some (.str s) => if s == v then matchArgs body t else some .skip
    | some .other => some .skip

/-- `for idx, val in self.arg_paths: if idx >= len(body) or not _argPathMatches(body[idx], val): return`;
a non-string argument has no `startswith`/`endswith`: the exception is caught by the catch-all. -/
def matchArgPaths (body : List Arg) : List (Nat × Str) → Option Outcome
  | [] => none
  | (i, v) :: t =>
    match body[i]? with
    | none => some .skip
    | some (.str s) => if argPathMatches s v then matchArgPaths body t else some .skip
    | some .other => some .err

/-- An attribute that should hold a list of `(idx, value)` pairs. -/
def loopPairs (f : List (Nat × Str) → Option Outcome) : Option PyVal → Option Outcome
  | none => none
  | some (.pairs l) => f l
  | some _ => some .err          -- iterating / unpacking something else raises

/-- `Rule.match(m)`. -/
def Rule.match (r : Rule) (m : Msg) : Outcome :=
  match matchSimple m r.simple with
  | some o => o
  | none =>
  match matchNs r m with
  | some o => o
  | none =>
  let body := m.body.getD []                  -- `body = m.body if m.body is not None else ()`
  match loopPairs (matchArgs body) (r.attrs.lookup "args".toList) with
  | some o => o
  | none =>
  match loopPairs (matchArgPaths body) (r.attrs.lookup "arg_paths".toList) with
  | some o => o
  | none => .call

/-! ### `arg0namespace` (fixes/C14-05)

`Rule.match` above is txdbus as found: the `arg0namespace` attribute is stored and never read.  The repaired
router evaluates it after the argument-path constraints; `Gen.Route.evaluatesArg0ns` (probed from the source on
every run) says which router the tree under test has.  `Rule.match` itself is kept as it is - it is the `false`
instance, and C14's bus model builds on it. -/

/-- `_inBusNamespace(name, namespace)`: `name == namespace or name.startswith(namespace + '.')`. -/
def inBusNamespace (name ns : Str) : Bool :=
  name == ns || (ns ++ ['.']).isPrefixOf name

/-- The `arg0namespace` clause of the repaired `Rule.match`:

    if hasattr(self, 'arg0namespace'):
        if (len(body) == 0 or not isinstance(body[0], str)
                or not _inBusNamespace(body[0], self.arg0namespace)):
            return
-/
def matchArg0ns (r : Rule) (body : List Arg) : Option Outcome :=
  match r.attrs.lookup "arg0namespace".toList with
  | none => none
  | some (.str ns) =>
    match body.head? with
    | some (.str s) => if inBusNamespace s ns then none else some .skip
    | _ => some .skip
  | some _ => some .err

/-- `Rule.match(m)`; `evalArg0 = false`: txdbus as found (= `Rule.match`), `true`: after fixes/C14-05 (the clause
is the last test before the callback, so it is reached exactly when everything before it let the message through). -/
def Rule.matchWith (evalArg0 : Bool) (r : Rule) (m : Msg) : Outcome :=
  match r.match m with
  | .call =>
    if evalArg0 then
      match matchArg0ns r (m.body.getD []) with
      | some o => o
      | none => .call
    else .call
  | o => o

/-- `Rule.match(m)` of the tree under test. -/
def Rule.matchGen (r : Rule) (m : Msg) : Outcome := r.matchWith Gen.Route.evaluatesArg0ns m

end Txdbus.Route
