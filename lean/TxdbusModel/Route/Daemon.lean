import TxdbusModel.Route.Client
import TxdbusModel.Route.Spec
/-
C12 - the client connection TOGETHER with a message-bus daemon that follows the DBus specification
for `AddMatch` / `RemoveMatch` ("Message Bus Messages"):

  AddMatch(rule)      adds the rule to the connection's rules - one entry per call, also for a rule
                      the connection already holds (the rules are a MULTISET); an invalid rule is
                      refused with an error reply and not added
  RemoveMatch(rule)   removes ONE instance of the rule; error `MatchRuleNotFound` when none is held
  routing             a broadcast signal is forwarded to the connection while at least one held
                      rule matches it

The daemon below is SPEC (it never looks at txdbus); the client is the CODE model of
`Route/Client.lean`: what it writes (`CObs.sentAdd` / `CObs.sentRemove`, one per `addMatch` / per
`delMatch` of a known id) is handed to the daemon in the order written, the daemon's reply to the
k-th call is delivered by the history event `deliver k` (any order, any delay).
-/
namespace Txdbus.Route

namespace Spec

/-- Does the message satisfy one constraint, as the DAEMON evaluates it (the daemon, unlike a client-side
router, also evaluates `sender` - it stamps every message with the unique name of its sender - and
`arg0namespace`: first argument a string equal to the value or continuing it after a dot). -/
def constraintHolds (m : Msg) : Constraint → Bool
  | .mtype v => mtypeName m.mtype == some v
  | .sender v => m.sender == .some v
  | .iface v => m.iface == .some v
  | .member v => m.member == .some v
  | .path v => m.path == .some v
  | .pathNs v => pathIn m v
  | .dest v => m.dest == .some v
  | .arg0ns v => arg0In m v
  | .arg i v => argIs m (i, v)
  | .argPath i v => argPathIs m (i, v)

/-- A rule TEXT, read with the grammar of the specification, is satisfied by the message. -/
def textMatches (text : Str) (m : Msg) : Bool :=
  match ruleTextMeaning text with
  | some cs => cs.all (constraintHolds m)
  | none => false

/-- A text the daemon accepts as a rule. -/
def textIsRule (text : Str) : Bool := (ruleTextMeaning text).isSome

end Spec

/-- SPEC daemon, the part that concerns one connection. -/
structure Daemon where
  rules : List Str := []          -- the rules held for the connection, a multiset (order carries no meaning)
  replies : List Bool := []       -- reply to the k-th call received: `true` method return, `false` error
  deriving Repr

def Daemon.addMatch (accepts : Str → Bool) (d : Daemon) (t : Str) : Daemon :=
  if accepts t then { rules := t :: d.rules, replies := d.replies ++ [true] }
  else { d with replies := d.replies ++ [false] }                    -- MatchRuleInvalid

def Daemon.removeMatch (d : Daemon) (t : Str) : Daemon :=
  if d.rules.contains t then { rules := d.rules.erase t, replies := d.replies ++ [true] }
  else { d with replies := d.replies ++ [false] }                    -- MatchRuleNotFound

/-- What the daemon does with something the client wrote. -/
def Daemon.receive (accepts : Str → Bool) (d : Daemon) : CObs → Daemon
  | .sentAdd t => d.addMatch accepts t
  | .sentRemove t => d.removeMatch t
  | _ => d

/-- A broadcast signal is forwarded to the connection iff some held rule matches it. -/
def Daemon.forwards (d : Daemon) (m : Msg) : Bool := d.rules.any (fun t => Spec.textMatches t m)

/-- One event of a history of the connection and its daemon. -/
inductive SOp where
  | addMatch (cb : Cb) (a : RuleArgs)     -- the application calls `addMatch`
  | delMatch (id : Nat)                   -- the application calls `delMatch`
  | deliver (k : Nat)                     -- the daemon's reply to the k-th call reaches the client
  | signal (m : Msg)                      -- another connection broadcasts a signal
  deriving Repr

structure System where
  client : Client := {}
  daemon : Daemon := {}
  deriving Repr

inductive SObs where
  | client (o : CObs)
  | notForwarded
  deriving DecidableEq, Repr

def System.step (T : Tables) (accepts : Str → Bool) (raises : Nat → Cb → Bool) (s : System) : SOp → System × SObs
  | .addMatch cb a =>
    let co := s.client.step T raises (.addMatch cb a)
    ({ client := co.1, daemon := s.daemon.receive accepts co.2 }, .client co.2)
  | .delMatch id =>
    let co := s.client.step T raises (.delMatch id)
    ({ client := co.1, daemon := s.daemon.receive accepts co.2 }, .client co.2)
  | .deliver k =>
    match s.daemon.replies[k]? with
    | some true =>
      let co := s.client.step T raises (.replyOk k)
      ({ s with client := co.1 }, .client co.2)
    | some false =>
      let co := s.client.step T raises (.replyErr k)
      ({ s with client := co.1 }, .client co.2)
    | none => (s, .client .ignored)
  | .signal m =>
    if s.daemon.forwards m then
      let co := s.client.step T raises (.signal m)
      ({ s with client := co.1 }, .client co.2)
    else (s, .notForwarded)

def System.run (T : Tables) (accepts : Str → Bool) (raises : Nat → Cb → Bool) (s : System) :
    List SOp → System × List SObs
  | [] => (s, [])
  | op :: ops =>
    let so := s.step T accepts raises op
    let r := System.run T accepts raises so.1 ops
    (r.1, so.2 :: r.2)

/-- `delMatch(id)` is not called again while the `RemoveMatch` of an earlier `delMatch(id)` is unanswered
(the application removes a registration once).  A second call in that window writes a second
`RemoveMatch` with the same text - which a daemon holding another rule with identical text honours by
dropping THAT rule. -/
def Client.removalPending (c : Client) (id : Nat) : Bool :=
  c.calls.any (fun p => match p with | some (.delOk i) => i == id | _ => false)

def SOp.Single (c : Client) : SOp → Prop
  | .delMatch id => c.removalPending id = false
  | _ => True

/-- Every `delMatch` of the history is issued while no removal of the same id is pending. -/
def System.SingleRemoval (T : Tables) (accepts : Str → Bool) (raises : Nat → Cb → Bool) : System → List SOp → Prop
  | _, [] => True
  | s, op :: ops => op.Single s.client ∧ System.SingleRemoval T accepts raises (s.step T accepts raises op).1 ops

instance (c : Client) : (op : SOp) → Decidable (op.Single c)
  | .delMatch id => inferInstanceAs (Decidable (c.removalPending id = false))
  | .addMatch _ _ => isTrue trivial
  | .deliver _ => isTrue trivial
  | .signal _ => isTrue trivial

instance System.decSingleRemoval (T : Tables) (accepts : Str → Bool) (raises : Nat → Cb → Bool) :
    (s : System) → (h : List SOp) → Decidable (System.SingleRemoval T accepts raises s h)
  | _, [] => isTrue trivial
  | s, op :: ops =>
    have := System.decSingleRemoval T accepts raises (s.step T accepts raises op).1 ops
    inferInstanceAs (Decidable (op.Single s.client ∧ _))

/-- All replies have reached the client. -/
def Client.quiescent (c : Client) : Bool := c.calls.all (fun p => p.isNone)

/-- The texts of the locally registered rules (`match_rules.values()`). -/
def Client.localTexts (c : Client) : List Str := c.matchRules.map Prod.snd

end Txdbus.Route
