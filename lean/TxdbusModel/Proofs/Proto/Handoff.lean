import TxdbusModel.Proofs.Proto.Step
/-
Definitions and lemmas used by the statements of Properties/C04.lean: the invariant of the binary
branch, the single read against the spec, the loop over a handshake.
-/
namespace Txdbus.Proto
open Txdbus.Gen.ProtoConst

variable {α : Type}

/-- Invariant of the binary branch between two reads: either nothing is cached and fewer than 16
bytes are buffered, or the cached length is the announced length of the incomplete message at the
front of the buffer.  (True of a fresh connection; re-established by every read.) -/
def Framed (s : St α) : Prop := BinPost ⟨s.buffer, s.nextMsgLen, s.bigEndian⟩

theorem framed_noFrame (s : St α) (h : Framed s) : ¬ Spec.hasFrame s.buffer := by
  intro hf
  cases h with
  | inl h => have := hf.1; have := h.2; simp only at this; omega
  | inr h =>
    have h1 := hf.2
    have h2 := h.2.1
    have h3 := h.2.2
    simp only at h2 h3
    omega

theorem binStep_frames (s : St α) (d : Bytes) (hf : Framed s) :
    (binStep s d).2 = (Spec.frames (s.buffer ++ d)).1.map Effect.msg ∧
    (binStep s d).1.buffer = (Spec.frames (s.buffer ++ d)).2 ∧
    Framed (binStep s d).1 := by
  have hpre : BinPre (s.buffer ++ d) s.nextMsgLen := by
    cases hf with
    | inl h => exact Or.inl h.1
    | inr h =>
      refine Or.inr ⟨by simp; have := h.1; simp only at this; omega, ?_⟩
      rw [msgLen_append _ _ h.1]; exact h.2.1
  have := binLoop_frames (s.buffer ++ d) s.nextMsgLen s.bigEndian hpre
  exact ⟨by show List.map _ _ = _; rw [this.1], this.2.1, this.2.2⟩

theorem linesOf_noLose (es : List Effect) : linesOf (noLose es) = linesOf es := by
  induction es with
  | nil => rfl
  | cons e t ih => cases e <;> simp_all [noLose, linesOf, Effect.isLose]

theorem msgsOf_noLose (es : List Effect) : msgsOf (noLose es) = msgsOf es := by
  induction es with
  | nil => rfl
  | cons e t ih => cases e <;> simp_all [noLose, msgsOf, Effect.isLose]

/-- The first read of a server whose first byte is NUL: the rest of the read is treated as a read of a
server that has seen its first byte. -/
theorem server_first_read (A : Auth α) (s : St α) (d : Bytes) (hc : s.client = false)
    (hfb : s.firstByte = true) (ha : s.authenticated = false) :
    step A s (0 :: d) = step A { s with firstByte := false } d ∧ Ready { s with firstByte := false } := by
  refine ⟨?_, Or.inr rfl⟩
  unfold step lineStep
  simp [hc, hfb, ha]

/-- The authenticator answers `cont` to every line of `hs`, ending in state `a'`. -/
def authRun (A : Auth α) : α → List Bytes → Option α
  | a, [] => some a
  | a, l :: t => match A.handle a l with
    | (a', .cont) => authRun A a' t
    | _ => none

theorem lineLoop_handshake (A : Auth α) (a a1 a' : α) (hs : List Bytes) (last : Bytes) (more : List Bytes)
    (hlen : ∀ l ∈ hs ++ [last], l.length ≤ maxAuthLength)
    (hrun : authRun A a hs = some a1) (hlast : A.handle a1 last = (a', .success)) :
    lineLoop A a false ((hs ++ [last]) ++ more) =
      ⟨.success, a', false, (hs ++ [last]).map Effect.line, more⟩ := by
  induction hs generalizing a with
  | nil =>
    simp only [authRun] at hrun
    injection hrun with hrun
    subst hrun
    have : ¬ last.length > maxAuthLength := by
      have := hlen last (by simp); omega
    simp [lineLoop_cons_success A a a' last more this hlast]
  | cons l t ih =>
    have hl : ¬ l.length > maxAuthLength := by
      have := hlen l (by simp); omega
    cases hh : A.handle a l with
    | mk a2 res =>
      cases res with
      | cont =>
        simp only [authRun, hh] at hrun
        have := ih a2 (fun x hx => hlen x (by simp at hx ⊢; exact Or.inr hx)) hrun
        simp only [List.cons_append]
        rw [lineLoop_cons_cont A a a2 l _ hl hh]
        simp only [List.append_assoc] at this ⊢
        rw [this]
        simp [LineOut.pre]
      | success => simp [authRun, hh] at hrun
      | failed => simp [authRun, hh] at hrun

theorem linesOf_lines_msgs (ls ms : List Bytes) :
    linesOf (ls.map Effect.line ++ ms.map Effect.msg) = ls ∧
    msgsOf (ls.map Effect.line ++ ms.map Effect.msg) = ms := by
  induction ls with
  | nil =>
    simp only [List.map_nil, List.nil_append]
    induction ms with
    | nil => exact ⟨rfl, rfl⟩
    | cons m t ih => simp [linesOf, msgsOf, ih.1, ih.2]
  | cons l t ih => simp [linesOf, msgsOf, ih.1, ih.2]


end Txdbus.Proto
