import TxdbusModel.Proofs.Proto.Frames
import TxdbusModel.Proofs.Proto.Split
/-
Lemmas about `step` / `run`: two reads against the one read that joins them, for every state.
-/
namespace Txdbus.Proto
open Txdbus.Gen.ProtoConst

variable {α : Type}

/-- Same final state, same effects up to repeated `loseConnection` calls. -/
def Equiv (x y : St α × List Effect) : Prop := x.1 = y.1 ∧ noLose x.2 = noLose y.2

theorem Equiv.rfl' (x : St α × List Effect) : Equiv x x := ⟨rfl, rfl⟩

theorem Equiv.trans' {x y z : St α × List Effect} (h1 : Equiv x y) (h2 : Equiv y z) : Equiv x z :=
  ⟨h1.1.trans h2.1, h1.2.trans h2.2⟩

theorem noLose_append (a b : List Effect) : noLose (a ++ b) = noLose a ++ noLose b := by
  simp [noLose]

/-- A server still waiting for its NUL byte indexes `data[0]`; every other state accepts any read. -/
def Ready (s : St α) : Prop := s.client = true ∨ s.firstByte = false

/-! ### binary branch -/

theorem binStep_append (s : St α) (a b : Bytes) :
    binStep s (a ++ b) = ((binStep (binStep s a).1 b).1, (binStep s a).2 ++ (binStep (binStep s a).1 b).2) := by
  simp only [binStep, ← List.append_assoc]
  rw [binLoop_append (s.buffer ++ a) s.nextMsgLen s.bigEndian b]
  simp

theorem binLoop_nil (next : Nat) (big : Bool) : binLoop [] next big = (⟨[], next, big⟩, []) := by
  have hr : refresh [] next big = (next, big) := by
    unfold refresh
    have : geLen ([] : Bytes) minHeader = false := by rw [geLen_eq, minHeader_eq]; rfl
    simp [this]
  rw [binLoop_unfold, hr]
  have : next = 0 ∨ geLen ([] : Bytes) next = false := by
    cases next with
    | zero => exact Or.inl rfl
    | succ n => exact Or.inr rfl
  rw [if_pos this]

theorem binStep_nil (s : St α) (h : s.buffer = []) : binStep s [] = (s, []) := by
  cases s
  simp only at h
  subst h
  simp [binStep, binLoop_nil]

theorem binStep_auth (s : St α) (d : Bytes) : (binStep s d).1.authenticated = s.authenticated := rfl
theorem binStep_client (s : St α) (d : Bytes) : (binStep s d).1.client = s.client := rfl
theorem binStep_firstByte (s : St α) (d : Bytes) : (binStep s d).1.firstByte = s.firstByte := rfl

/-! ### the loop over the lines -/

theorem lineLoop_cons_closed (A : Auth α) (a : α) (l : Bytes) (t : List Bytes) :
    lineLoop A a true (l :: t) = ⟨.ret, a, true, [], []⟩ := by
  simp [lineLoop]

theorem lineLoop_cons_long (A : Auth α) (a : α) (l : Bytes) (t : List Bytes) (h : l.length > maxAuthLength) :
    lineLoop A a false (l :: t) = ⟨.ret, a, true, [.lose], []⟩ := by
  simp [lineLoop, h]

theorem lineLoop_cons_success (A : Auth α) (a a' : α) (l : Bytes) (t : List Bytes)
    (h : ¬ l.length > maxAuthLength) (e : A.handle a l = (a', .success)) :
    lineLoop A a false (l :: t) = ⟨.success, a', false, [.line l], t⟩ := by
  simp [lineLoop, h, e]

theorem lineLoop_cons_cont (A : Auth α) (a a' : α) (l : Bytes) (t : List Bytes)
    (h : ¬ l.length > maxAuthLength) (e : A.handle a l = (a', .cont)) :
    lineLoop A a false (l :: t) = (lineLoop A a' false t).pre [.line l] := by
  simp [lineLoop, h, e]

theorem lineLoop_cons_failed (A : Auth α) (a a' : α) (l : Bytes) (t : List Bytes)
    (h : ¬ l.length > maxAuthLength) (e : A.handle a l = (a', .failed)) :
    lineLoop A a false (l :: t) = (lineLoop A a' true t).pre [.line l, .lose] := by
  simp [lineLoop, h, e]

theorem lineLoop_closed (A : Auth α) (a : α) (ls : List Bytes) :
    lineLoop A a true ls = ⟨if ls = [] then .done else .ret, a, true, [], []⟩ := by
  cases ls with
  | nil => rfl
  | cons l t => simp [lineLoop_cons_closed]

theorem lineLoop_ret_closed (A : Auth α) (a : α) (c : Bool) (ls : List Bytes)
    (h : (lineLoop A a c ls).kind = .ret) : (lineLoop A a c ls).closed = true := by
  induction ls generalizing a c with
  | nil => simp [lineLoop] at h
  | cons l t ih =>
    cases c with
    | true => rw [lineLoop_cons_closed]
    | false =>
      by_cases hl : l.length > maxAuthLength
      · rw [lineLoop_cons_long A a l t hl]
      · cases hh : A.handle a l with
        | mk a' res =>
          cases res with
          | success => rw [lineLoop_cons_success A a a' l t hl hh] at h; cases h
          | cont =>
            rw [lineLoop_cons_cont A a a' l t hl hh] at h ⊢
            exact ih _ _ h
          | failed =>
            rw [lineLoop_cons_failed A a a' l t hl hh] at h ⊢
            exact ih _ _ h

theorem pre_kind (e : List Effect) (r : LineOut α) : (r.pre e).kind = r.kind := rfl
theorem pre_auth (e : List Effect) (r : LineOut α) : (r.pre e).auth = r.auth := rfl
theorem pre_closed (e : List Effect) (r : LineOut α) : (r.pre e).closed = r.closed := rfl
theorem pre_effs (e : List Effect) (r : LineOut α) : (r.pre e).effs = e ++ r.effs := rfl
theorem pre_rest (e : List Effect) (r : LineOut α) : (r.pre e).rest = r.rest := rfl
theorem pre_pre (e e' : List Effect) (r : LineOut α) : (r.pre e).pre e' = r.pre (e' ++ e) := by
  simp [LineOut.pre]

/-- The loop over more lines, in terms of the loop over the first ones. -/
def lineLoopThen (A : Auth α) (L : LineOut α) (ls' : List Bytes) : LineOut α :=
  match L.kind with
  | .done => (lineLoop A L.auth L.closed ls').pre L.effs
  | .ret => L
  | .success => { L with rest := L.rest ++ ls' }

theorem lineLoopThen_pre (A : Auth α) (L : LineOut α) (ls' : List Bytes) (e : List Effect) :
    lineLoopThen A (L.pre e) ls' = (lineLoopThen A L ls').pre e := by
  unfold lineLoopThen
  cases hk : L.kind <;> simp [LineOut.pre, hk]

theorem lineLoop_append (A : Auth α) (a : α) (c : Bool) (ls ls' : List Bytes) :
    lineLoop A a c (ls ++ ls') = lineLoopThen A (lineLoop A a c ls) ls' := by
  induction ls generalizing a c with
  | nil => simp [lineLoop, lineLoopThen, LineOut.pre]
  | cons l t ih =>
    simp only [List.cons_append]
    cases c with
    | true => simp [lineLoop_cons_closed, lineLoopThen]
    | false =>
      by_cases hl : l.length > maxAuthLength
      · simp [lineLoop_cons_long A a l _ hl, lineLoopThen]
      · cases hh : A.handle a l with
        | mk a' res =>
          cases res with
          | success => simp [lineLoop_cons_success A a a' l _ hl hh, lineLoopThen]
          | cont =>
            rw [lineLoop_cons_cont A a a' l _ hl hh, lineLoop_cons_cont A a a' l _ hl hh, ih, lineLoopThen_pre]
          | failed =>
            rw [lineLoop_cons_failed A a a' l _ hl hh, lineLoop_cons_failed A a a' l _ hl hh, ih,
              lineLoopThen_pre]


/-! ### what follows the loop -/

theorem lineFinish_upd (s : St α) (x : Bytes) (y : α) (z : Bool) (rem : Bytes) (L : LineOut α) :
    lineFinish { s with buffer := x, auth := y, closed := z } rem L = lineFinish s rem L := rfl

/-- The state in which the binary branch is entered after the authenticator reported success. -/
def handoffState (s : St α) (L : LineOut α) : St α :=
  { s with buffer := [], auth := L.auth, closed := L.closed, authenticated := true }

theorem lineFinish_success (s : St α) (rem : Bytes) (L : LineOut α) (h : L.kind = .success) :
    lineFinish s rem L =
      ((binStep (handoffState s L) (joinCRLF L.rest rem)).1,
       L.effs ++ (binStep (handoffState s L) (joinCRLF L.rest rem)).2) := by
  have e : lineFinish s rem L =
      if joinCRLF L.rest rem ≠ [] then
        ((binStep (handoffState s L) (joinCRLF L.rest rem)).1,
         L.effs ++ (binStep (handoffState s L) (joinCRLF L.rest rem)).2)
      else (handoffState s L, L.effs) := by
    unfold lineFinish
    simp only [h]
    rfl
  rw [e]
  by_cases hr : joinCRLF L.rest rem = []
  · rw [if_neg (by simp [hr]), hr, binStep_nil _ rfl]; simp
  · rw [if_pos hr]

theorem lineFinish_pre (s : St α) (rem : Bytes) (L : LineOut α) (e : List Effect) :
    lineFinish s rem (L.pre e) = ((lineFinish s rem L).1, e ++ (lineFinish s rem L).2) := by
  cases hk : L.kind with
  | done =>
    unfold lineFinish
    simp only [pre_kind, pre_auth, pre_closed, pre_effs, hk]
    split <;> simp
  | ret =>
    unfold lineFinish
    simp only [pre_kind, pre_auth, pre_closed, pre_effs, hk]
  | success =>
    rw [lineFinish_success _ _ _ hk, lineFinish_success _ _ (L.pre e) (by rw [pre_kind]; exact hk)]
    simp [handoffState, pre_auth, pre_closed, pre_effs, pre_rest]

theorem lineFinish_ret (s : St α) (rem : Bytes) (L : LineOut α) (h : L.kind = .ret) :
    lineFinish s rem L = ({ s with buffer := rem, auth := L.auth, closed := L.closed }, L.effs) := by
  unfold lineFinish
  simp only [h]

theorem lineBody_eq (A : Auth α) (s : St α) (d : Bytes) :
    lineBody A s d = lineFinish s (splitCRLF (s.buffer ++ d)).2
      (lineLoop A s.auth s.closed (splitCRLF (s.buffer ++ d)).1) := rfl

/-- Once the transport is closing, a read in line mode only replaces the buffered remainder. -/
theorem lineBody_closed (A : Auth α) (s : St α) (d : Bytes) (h : s.closed = true) :
    (lineBody A s d).1 = { s with buffer := (splitCRLF (s.buffer ++ d)).2 } ∧
    noLose (lineBody A s d).2 = [] := by
  cases s with
  | mk client buffer next big authd fb closed auth =>
    simp only at h
    subst h
    rw [lineBody_eq]
    simp only [lineLoop_closed]
    unfold lineFinish
    by_cases hl : (splitCRLF (buffer ++ d)).1 = []
    · simp only [hl, if_true]
      split <;> simp [noLose, Effect.isLose]
    · simp [hl, noLose]


/-- The limit on the unterminated remainder (`MAX_AUTH_LENGTH + len(authDelimiter) - 1`). -/
theorem remLimit_eq : maxAuthLength + authDelimiter.length - remainderSlack = maxAuthLength + 1 := by
  rw [authDelimiter_eq, remainderSlack_eq]; rfl

/-- A remainder over the limit closes the connection whatever follows: reading on, in one go, hands
no further line to the authenticator and ends closed. -/
theorem long_rem_closes (A : Auth α) (s : St α) (a1 : α) (c1 : Bool) (r b : Bytes)
    (hr : Spec.hasCRLF r = false)
    (hlong : r.length > maxAuthLength + authDelimiter.length - remainderSlack) :
    (lineFinish s (splitCRLF (r ++ b)).2 (lineLoop A a1 c1 (splitCRLF (r ++ b)).1)).1 =
        { s with buffer := (splitCRLF (r ++ b)).2, auth := a1, closed := true } ∧
    noLose (lineFinish s (splitCRLF (r ++ b)).2 (lineLoop A a1 c1 (splitCRLF (r ++ b)).1)).2 = [] := by
  rw [remLimit_eq] at hlong
  cases c1 with
  | true =>
    simp only [lineLoop_closed]
    unfold lineFinish
    by_cases hl : (splitCRLF (r ++ b)).1 = []
    · simp only [hl, if_true]
      split <;> simp [noLose, Effect.isLose]
    · simp [hl, noLose]
  | false =>
    cases hl : (splitCRLF (r ++ b)).1 with
    | nil =>
      have hj := join_split (r ++ b)
      rw [hl] at hj
      have hrem : (splitCRLF (r ++ b)).2 = r ++ b := hj
      have hlen : (splitCRLF (r ++ b)).2.length > maxAuthLength + authDelimiter.length - remainderSlack := by
        rw [remLimit_eq, hrem]; simp; omega
      unfold lineFinish
      simp [lineLoop, hlen, noLose, Effect.isLose]
    | cons l1 t =>
      have hge := split_first_line_ge r b l1 t hr hl
      have hl1 : l1.length > maxAuthLength := by omega
      rw [lineLoop_cons_long A a1 l1 t hl1]
      unfold lineFinish
      simp [noLose, Effect.isLose]

/-- Two reads in line mode against the read that joins them. -/
theorem lineBody_append (A : Auth α) (s : St α) (a b : Bytes) (hs : s.authenticated = false) (hr : Ready s) :
    Equiv ((step A (lineBody A s a).1 b).1, (lineBody A s a).2 ++ (step A (lineBody A s a).1 b).2)
          (lineBody A s (a ++ b)) := by
  -- the one read
  have hsplit : splitCRLF (s.buffer ++ (a ++ b)) =
      ((splitCRLF (s.buffer ++ a)).1 ++ (splitCRLF ((splitCRLF (s.buffer ++ a)).2 ++ b)).1,
       (splitCRLF ((splitCRLF (s.buffer ++ a)).2 ++ b)).2) := by
    rw [← List.append_assoc, split_append]
  have hone : lineBody A s (a ++ b) =
      lineFinish s (splitCRLF ((splitCRLF (s.buffer ++ a)).2 ++ b)).2
        (lineLoopThen A (lineLoop A s.auth s.closed (splitCRLF (s.buffer ++ a)).1)
          (splitCRLF ((splitCRLF (s.buffer ++ a)).2 ++ b)).1) := by
    rw [lineBody_eq, hsplit, lineLoop_append]
  rw [hone, lineBody_eq A s a]
  generalize hsp1 : splitCRLF (s.buffer ++ a) = sp1
  have hnocrlf : Spec.hasCRLF sp1.2 = false := by rw [← hsp1]; exact split_rem_noCRLF _
  generalize hL1 : lineLoop A s.auth s.closed sp1.1 = L1
  cases hk : L1.kind with
  | ret =>
    have hc : L1.closed = true := by
      rw [← hL1]; apply lineLoop_ret_closed; rw [hL1]; exact hk
    rw [lineFinish_ret _ _ _ hk]
    simp only [lineLoopThen, hk]
    rw [lineFinish_ret _ _ _ hk]
    -- second read on a closing transport
    have hst : step A { s with buffer := sp1.2, auth := L1.auth, closed := L1.closed } b =
        lineBody A { s with buffer := sp1.2, auth := L1.auth, closed := L1.closed } b := by
      unfold step lineStep
      cases hr with
      | inl h => simp [hs, h]
      | inr h => simp [hs, h]
    rw [hst]
    have hcl := lineBody_closed A { s with buffer := sp1.2, auth := L1.auth, closed := L1.closed } b hc
    refine ⟨?_, ?_⟩
    · exact hcl.1
    · show noLose (L1.effs ++ _) = noLose L1.effs
      rw [noLose_append, hcl.2]; simp
  | success =>
    rw [lineFinish_success _ _ _ hk]
    have hk' : (lineLoopThen A L1 (splitCRLF (sp1.2 ++ b)).1).kind = .success := by
      simp [lineLoopThen, hk]
    rw [lineFinish_success _ _ _ hk']
    have hrest : joinCRLF (lineLoopThen A L1 (splitCRLF (sp1.2 ++ b)).1).rest (splitCRLF (sp1.2 ++ b)).2 =
        joinCRLF L1.rest sp1.2 ++ b := by
      simp only [lineLoopThen, hk]
      rw [joinCRLF_append, join_split, joinCRLF_append_last]
    have hho : handoffState s (lineLoopThen A L1 (splitCRLF (sp1.2 ++ b)).1) = handoffState s L1 := by
      simp [lineLoopThen, hk, handoffState]
    have heff : (lineLoopThen A L1 (splitCRLF (sp1.2 ++ b)).1).effs = L1.effs := by
      simp [lineLoopThen, hk]
    rw [hrest, hho, heff, binStep_append]
    have hst : step A (binStep (handoffState s L1) (joinCRLF L1.rest sp1.2)).1 b =
        binStep (binStep (handoffState s L1) (joinCRLF L1.rest sp1.2)).1 b := by
      unfold step
      rw [binStep_auth]
      simp [handoffState]
    rw [hst]
    refine ⟨rfl, ?_⟩
    simp [List.append_assoc]
  | done =>
    simp only [lineLoopThen, hk]
    rw [lineFinish_pre]
    by_cases hlong : sp1.2.length > maxAuthLength + authDelimiter.length - remainderSlack
    · -- the first read already closes
      have h1 : lineFinish s sp1.2 L1 =
          ({ s with buffer := sp1.2, auth := L1.auth, closed := true }, L1.effs ++ [.lose]) := by
        unfold lineFinish; simp [hk, hlong]
      rw [h1]
      have hst : step A { s with buffer := sp1.2, auth := L1.auth, closed := true } b =
          lineBody A { s with buffer := sp1.2, auth := L1.auth, closed := true } b := by
        unfold step lineStep
        cases hr with
        | inl h => simp [hs, h]
        | inr h => simp [hs, h]
      rw [hst]
      have hcl := lineBody_closed A { s with buffer := sp1.2, auth := L1.auth, closed := true } b rfl
      have hlc := long_rem_closes A s L1.auth L1.closed sp1.2 b hnocrlf hlong
      refine ⟨?_, ?_⟩
      · show (lineBody A _ b).1 = _
        rw [hcl.1, hlc.1]
      · show noLose ((L1.effs ++ [.lose]) ++ _) = noLose (L1.effs ++ _)
        rw [noLose_append, noLose_append, noLose_append, hcl.2, hlc.2]
        simp [noLose, Effect.isLose]
    · have h1 : lineFinish s sp1.2 L1 =
          ({ s with buffer := sp1.2, auth := L1.auth, closed := L1.closed }, L1.effs) := by
        unfold lineFinish; simp [hk, hlong]
      rw [h1]
      have hst : step A { s with buffer := sp1.2, auth := L1.auth, closed := L1.closed } b =
          lineBody A { s with buffer := sp1.2, auth := L1.auth, closed := L1.closed } b := by
        unfold step lineStep
        cases hr with
        | inl h => simp [hs, h]
        | inr h => simp [hs, h]
      rw [hst, lineBody_eq]
      exact ⟨rfl, rfl⟩


/-! ### `step` and `run` -/

theorem step_auth (A : Auth α) (s : St α) (d : Bytes) (h : s.authenticated = true) :
    step A s d = binStep s d := by
  unfold step; simp [h]

theorem step_line (A : Auth α) (s : St α) (d : Bytes) (h : s.authenticated = false) (hr : Ready s) :
    step A s d = lineBody A s d := by
  unfold step lineStep
  cases hr with
  | inl h' => simp [h, h']
  | inr h' => simp [h, h']

theorem lineFinish_client (s : St α) (rem : Bytes) (L : LineOut α) :
    (lineFinish s rem L).1.client = s.client ∧ (lineFinish s rem L).1.firstByte = s.firstByte := by
  cases hk : L.kind with
  | done => unfold lineFinish; simp only [hk]; split <;> exact ⟨rfl, rfl⟩
  | ret => rw [lineFinish_ret _ _ _ hk]; exact ⟨rfl, rfl⟩
  | success => rw [lineFinish_success _ _ _ hk]; exact ⟨rfl, rfl⟩

theorem step_ready (A : Auth α) (s : St α) (d : Bytes) (hr : Ready s) : Ready (step A s d).1 := by
  cases ha : s.authenticated with
  | true => rw [step_auth A s d ha]; exact hr
  | false =>
    rw [step_line A s d ha hr, lineBody_eq]
    have := lineFinish_client s (splitCRLF (s.buffer ++ d)).2
      (lineLoop A s.auth s.closed (splitCRLF (s.buffer ++ d)).1)
    unfold Ready at hr ⊢
    rw [this.1, this.2]; exact hr

/-- Two reads against the one read that joins them: same final state, same effects up to repeated
`loseConnection` calls.  For every state that is not a server still waiting for its NUL byte. -/
theorem step_append (A : Auth α) (s : St α) (a b : Bytes) (hr : Ready s) :
    Equiv ((step A (step A s a).1 b).1, (step A s a).2 ++ (step A (step A s a).1 b).2)
          (step A s (a ++ b)) := by
  cases ha : s.authenticated with
  | true =>
    rw [step_auth A s a ha, step_auth A s (a ++ b) ha,
      step_auth A (binStep s a).1 b (by rw [binStep_auth]; exact ha), binStep_append]
    exact ⟨rfl, rfl⟩
  | false =>
    rw [step_line A s a ha hr, step_line A s (a ++ b) ha hr]
    exact lineBody_append A s a b ha hr

theorem run_cons (A : Auth α) (s : St α) (d : Bytes) (ds : List Bytes) :
    run A s (d :: ds) = ((run A (step A s d).1 ds).1, (step A s d).2 ++ (run A (step A s d).1 ds).2) := rfl

/-- Any non-empty sequence of reads against the single read of their concatenation. -/
theorem run_flatten (A : Auth α) (s : St α) (d : Bytes) (ds : List Bytes) (hr : Ready s) :
    Equiv (run A s (d :: ds)) (step A s (d :: ds).flatten) := by
  induction ds generalizing s d with
  | nil =>
    rw [run_cons]
    simp [run, Equiv]
  | cons e es ih =>
    rw [run_cons]
    have ih' := ih (step A s d).1 e (step_ready A s d hr)
    have hsa := step_append A s d (e :: es).flatten hr
    have hfl : (d :: e :: es).flatten = d ++ (e :: es).flatten := by simp
    rw [hfl]
    refine Equiv.trans' ?_ hsa
    refine ⟨ih'.1, ?_⟩
    show noLose (_ ++ _) = noLose (_ ++ _)
    rw [noLose_append, noLose_append, ih'.2]

/-- In binary mode the correspondence is exact. -/
theorem run_flatten_binary (A : Auth α) (s : St α) (d : Bytes) (ds : List Bytes) (ha : s.authenticated = true) :
    run A s (d :: ds) = binStep s (d :: ds).flatten := by
  induction ds generalizing s d with
  | nil =>
    rw [run_cons, step_auth A s d ha]
    simp [run]
  | cons e es ih =>
    rw [run_cons, step_auth A s d ha, ih (binStep s d).1 e (by rw [binStep_auth]; exact ha)]
    have hfl : (d :: e :: es).flatten = d ++ (e :: es).flatten := by simp
    rw [hfl, binStep_append]

end Txdbus.Proto
