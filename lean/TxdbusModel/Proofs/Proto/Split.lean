import TxdbusModel.Proto.Framing
import TxdbusModel.Proto.FramesSpec
/-
Lemmas about `splitCRLF` (Python's `bytes.split(b'\r\n')` + `pop(-1)`) and `joinCRLF`.
-/
namespace Txdbus.Proto

theorem splitCRLF_cons2 (x y : UInt8) (t : Bytes) : splitCRLF (x :: y :: t) =
    if x = 13 ∧ y = 10 then ([] :: (splitCRLF t).1, (splitCRLF t).2)
    else match (splitCRLF (y :: t)).1 with
      | [] => ([], x :: (splitCRLF (y :: t)).2)
      | l :: ls => ((x :: l) :: ls, (splitCRLF (y :: t)).2) := by
  rw [splitCRLF]
  rfl

theorem joinCRLF_append (a b : List Bytes) (r : Bytes) : joinCRLF (a ++ b) r = joinCRLF a (joinCRLF b r) := by
  induction a with
  | nil => rfl
  | cons l t ih => simp [joinCRLF, ih]

theorem joinCRLF_append_last (ls : List Bytes) (r b : Bytes) : joinCRLF ls (r ++ b) = joinCRLF ls r ++ b := by
  induction ls with
  | nil => rfl
  | cons l t ih => simp [joinCRLF, ih]

/-- `b'\r\n'.join(x.split(b'\r\n')) == x`. -/
theorem join_split (s : Bytes) : joinCRLF (splitCRLF s).1 (splitCRLF s).2 = s := by
  fun_induction splitCRLF s with
  | case1 => rfl
  | case2 x => rfl
  | case3 x y t h r ih => simp [joinCRLF, r, ih, h.1, h.2]
  | case4 x y t h r hr ih => simp_all [joinCRLF, r]
  | case5 x y t h r l ls hr ih => simp_all [joinCRLF, r]


/-- Splitting a longer string: split the string, then split its unterminated remainder plus the new bytes. -/
theorem split_append (a b : Bytes) :
    splitCRLF (a ++ b) =
      ((splitCRLF a).1 ++ (splitCRLF ((splitCRLF a).2 ++ b)).1, (splitCRLF ((splitCRLF a).2 ++ b)).2) := by
  fun_induction splitCRLF a with
  | case1 => simp
  | case2 x => simp
  | case3 x y t h r ih =>
    show splitCRLF (x :: y :: (t ++ b)) = _
    rw [splitCRLF_cons2, if_pos h]
    show ([] :: (splitCRLF (t ++ b)).1, (splitCRLF (t ++ b)).2) = _
    rw [ih]
    simp [r]
  | case4 x y t h r hr ih =>
    have hj := join_split (y :: t)
    have hr2 : r.2 = y :: t := by
      have : joinCRLF r.1 r.2 = y :: t := hj
      rw [hr] at this
      exact this
    show splitCRLF (x :: y :: (t ++ b)) = ([] ++ (splitCRLF (x :: r.2 ++ b)).1, (splitCRLF (x :: r.2 ++ b)).2)
    rw [hr2]
    simp
  | case5 x y t h r l ls hr ih =>
    show splitCRLF (x :: y :: (t ++ b)) = (((x :: l) :: ls) ++ (splitCRLF (r.2 ++ b)).1, (splitCRLF (r.2 ++ b)).2)
    rw [splitCRLF_cons2, if_neg h]
    have ih' : splitCRLF (y :: (t ++ b)) = (r.1 ++ (splitCRLF (r.2 ++ b)).1, (splitCRLF (r.2 ++ b)).2) := ih
    rw [ih', hr]
    rfl


theorem hasCRLF_cons2 (x y : UInt8) (t : Bytes) :
    Spec.hasCRLF (x :: y :: t) = ((x == 13 && y == 10) || Spec.hasCRLF (y :: t)) := rfl

/-- A string without the delimiter is not split. -/
theorem split_noCRLF (r : Bytes) (h : Spec.hasCRLF r = false) : splitCRLF r = ([], r) := by
  fun_induction splitCRLF r with
  | case1 => rfl
  | case2 x => rfl
  | case3 x y t hd r ih => simp [hasCRLF_cons2, hd.1, hd.2] at h
  | case4 x y t hd r hr ih =>
    rw [hasCRLF_cons2] at h
    have h2 : Spec.hasCRLF (y :: t) = false := by
      cases hh : Spec.hasCRLF (y :: t) with
      | false => rfl
      | true => rw [hh] at h; simp at h
    have := ih h2
    simp [r, this]
  | case5 x y t hd r l ls hr ih =>
    rw [hasCRLF_cons2] at h
    have h2 : Spec.hasCRLF (y :: t) = false := by
      cases hh : Spec.hasCRLF (y :: t) with
      | false => rfl
      | true => rw [hh] at h; simp at h
    have := ih h2
    rw [show r.1 = [] from by simp [r, this]] at hr
    cases hr

/-- The unterminated remainder holds no delimiter. -/
theorem split_rem_noCRLF (s : Bytes) : Spec.hasCRLF (splitCRLF s).2 = false := by
  fun_induction splitCRLF s with
  | case1 => rfl
  | case2 x => rfl
  | case3 x y t hd r ih => exact ih
  | case4 x y t hd r hr ih =>
    have hj := join_split (y :: t)
    have hr2 : r.2 = y :: t := by
      have : joinCRLF r.1 r.2 = y :: t := hj
      rw [hr] at this
      exact this
    show Spec.hasCRLF (x :: r.2) = false
    rw [hr2, hasCRLF_cons2]
    have ih' : Spec.hasCRLF r.2 = false := ih
    rw [hr2] at ih'
    rw [ih']
    have : (x == 13 && y == 10) = false := by
      cases hx : (x == 13 && y == 10) with
      | false => rfl
      | true => simp at hx; exact absurd hx hd
    simp [this]
  | case5 x y t hd r l ls hr ih => exact ih

/-- A line without the delimiter, followed by the delimiter, is split off as it is. -/
theorem split_line_cons (l s : Bytes) (h : Spec.hasCRLF l = false) :
    splitCRLF (l ++ 13 :: 10 :: s) = (l :: (splitCRLF s).1, (splitCRLF s).2) := by
  induction l with
  | nil => simp [splitCRLF_cons2]
  | cons x t ih =>
    cases t with
    | nil =>
      show splitCRLF (x :: 13 :: 10 :: s) = _
      rw [splitCRLF_cons2, if_neg (by intro hh; exact absurd hh.2 (by decide)), splitCRLF_cons2,
        if_pos ⟨rfl, rfl⟩]
    | cons y t' =>
      rw [hasCRLF_cons2] at h
      have h2 : Spec.hasCRLF (y :: t') = false := by
        cases hh : Spec.hasCRLF (y :: t') with
        | false => rfl
        | true => rw [hh] at h; simp at h
      have hd : ¬ (x = 13 ∧ y = 10) := by
        intro hh; simp [hh.1, hh.2] at h
      show splitCRLF (x :: y :: (t' ++ 13 :: 10 :: s)) = _
      rw [splitCRLF_cons2, if_neg hd]
      have ih' : splitCRLF (y :: (t' ++ 13 :: 10 :: s)) = ((y :: t') :: (splitCRLF s).1, (splitCRLF s).2) :=
        ih h2
      rw [ih']

/-- A handshake (lines without the delimiter, each followed by it) followed by arbitrary bytes. -/
theorem split_unlines (hs : List Bytes) (rest : Bytes) (h : ∀ l ∈ hs, Spec.hasCRLF l = false) :
    splitCRLF (Spec.unlines hs ++ rest) = (hs ++ (splitCRLF rest).1, (splitCRLF rest).2) := by
  induction hs with
  | nil => simp [Spec.unlines]
  | cons l t ih =>
    have e : Spec.unlines (l :: t) ++ rest = l ++ 13 :: 10 :: (Spec.unlines t ++ rest) := by
      simp [Spec.unlines]
    rw [e, split_line_cons l _ (h l (by simp)), ih (fun x hx => h x (by simp [hx]))]
    simp

/-- If the carried remainder `r` holds no delimiter, the first line completed by new bytes is `r`
extended, or `r` without its final CR: it is not shorter than `r` minus one. -/
theorem split_first_line_ge (r b l1 : Bytes) (t : List Bytes) (h : Spec.hasCRLF r = false)
    (e : (splitCRLF (r ++ b)).1 = l1 :: t) : r.length ≤ l1.length + 1 := by
  induction r generalizing l1 t with
  | nil => simp
  | cons x r' ih =>
    cases r' with
    | nil => simp
    | cons y r'' =>
      rw [hasCRLF_cons2] at h
      have h2 : Spec.hasCRLF (y :: r'') = false := by
        cases hh : Spec.hasCRLF (y :: r'') with
        | false => rfl
        | true => rw [hh] at h; simp at h
      have hd : ¬ (x = 13 ∧ y = 10) := by
        intro hh; simp [hh.1, hh.2] at h
      have e' : (splitCRLF (x :: y :: (r'' ++ b))).1 = l1 :: t := e
      rw [splitCRLF_cons2, if_neg hd] at e'
      cases hq : (splitCRLF (y :: (r'' ++ b))).1 with
      | nil => rw [hq] at e'; cases e'
      | cons l ls =>
        rw [hq] at e'
        have := ih l ls h2 hq
        injection e' with e1 e2
        subst e1
        simp at this ⊢
        omega

end Txdbus.Proto
