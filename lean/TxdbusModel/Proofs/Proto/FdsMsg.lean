import TxdbusModel.Proto.FdsMsg
import TxdbusModel.Proofs.Proto.FdsSender
import TxdbusModel.Proofs.Proto.Frames
import TxdbusModel.Proofs.Msg.WithWire
import TxdbusModel.Proofs.Wire.SpecRoundtrip
/-
C20 composed with C03 (and C01 through it): lemmas behind `info_of_constructed` and `descriptors_end_to_end`
(Properties/C20.lean).

  * `hIdx_of_rep` / `bvOf_of_rep`: for a body in C01's domain (`Code.Rep`: the Python value conforms to the type and
    denotes the spec value; the descriptors met so far are `lall[0..k)`) the `h` positions of the spec value carry
    the indices `k .. k'-1` in wire order, and its `BV` abstraction has the descriptors `ds[k..k')` as leaves;
  * `rep_agree`: `Rep` only looks at the entries `[k, k')` of the descriptor list (so the receiver's queue, which
    holds the message's descriptors followed by early arrivals, is as good as the sender's list);
  * `parse_noBody_constructed`, `info_core`: C03's `parse_marshal` with a codec that leaves the body alone, the
    body bytes decoded by C01's specification decoder (`Spec.decodeAll_encodeAll`).
C03's proof files (Proofs/Msg, Proofs/Wire) and C04's Proofs/Proto/Frames.lean are imported read-only.
-/
namespace Txdbus.Proto
open Txdbus.Code
open Txdbus.Msg (Tables BodyCodec Call construct parseMessage wireCodec)

theorem hIdx_scalar (lall : List PyVal) (v : Val) (fd : Bool) (t : Ty) (pv : PyVal) (k k' : Nat)
    (hv : (∃ n, v = .int n) ∨ (∃ b, v = .bool b) ∨ (∃ b, v = .double b) ∨ (∃ b, v = .str b))
    (hr : RepScalar lall v fd t pv k k') : hIdx v t = List.range' k (k' - k) ∧ k ≤ k' := by
  obtain ⟨c, rfl, hcase⟩ := hr
  rcases hcase with ⟨rfl, _, rfl, rfl, _, _⟩ | ⟨hc, _, rfl⟩
  · simp [hIdx]
  · rcases hv with ⟨n, rfl⟩ | ⟨b, rfl⟩ | ⟨b, rfl⟩ | ⟨b, rfl⟩
    · cases c <;> first | (exfalso; exact hc rfl) | simp [hIdx]
    all_goals simp [hIdx]

mutual
theorem hIdx_of_rep (lall : List PyVal) :
    ∀ (v : Val) (fd : Bool) (t : Ty) (pv : PyVal) (k k' : Nat),
      Rep lall v fd t pv k k' → hIdx v t = List.range' k (k' - k) ∧ k ≤ k'
  | .int n, fd, t, pv, k, k', hr => by
    simp only [Rep] at hr; exact hIdx_scalar lall _ fd t pv k k' (Or.inl ⟨_, rfl⟩) hr
  | .bool b, fd, t, pv, k, k', hr => by
    simp only [Rep] at hr; exact hIdx_scalar lall _ fd t pv k k' (Or.inr (Or.inl ⟨_, rfl⟩)) hr
  | .double b, fd, t, pv, k, k', hr => by
    simp only [Rep] at hr; exact hIdx_scalar lall _ fd t pv k k' (Or.inr (Or.inr (Or.inl ⟨_, rfl⟩))) hr
  | .str b, fd, t, pv, k, k', hr => by
    simp only [Rep] at hr; exact hIdx_scalar lall _ fd t pv k k' (Or.inr (Or.inr (Or.inr ⟨_, rfl⟩))) hr
  | .variant t' v', fd, t, pv, k, k', hr => by
    simp only [Rep] at hr
    obtain ⟨rfl, _, hrep, hk⟩ := hr
    have ih := hIdx_of_rep lall v' false t' pv k k hrep
    simp only [hIdx, hk]
    exact ⟨ih.1, Nat.le_refl _⟩
  | .array vs, fd, t, pv, k, k', hr => by
    simp only [Rep] at hr
    obtain ⟨el, items, rfl, _, _, hrep⟩ := hr
    simp only [hIdx]
    exact hIdxElems_of_rep lall vs fd el items k k' hrep
  | .struct vs, fd, t, pv, k, k', hr => by
    simp only [Rep] at hr
    obtain ⟨fs, items, rfl, _, _, hrep⟩ := hr
    simp only [hIdx]
    exact hIdxFields_of_rep lall vs fd fs items k k' hrep
  | .entry a b, fd, t, pv, k, k', hr => by
    simp only [Rep] at hr
    obtain ⟨kt, vt, x, y, k1, rfl, _, _, hra, hrb⟩ := hr
    have iha := hIdx_of_rep lall a fd kt x k k1 hra
    have ihb := hIdx_of_rep lall b fd vt y k1 k' hrb
    simp only [hIdx, iha.1, ihb.1]
    refine ⟨?_, by omega⟩
    have : k' - k = (k1 - k) + (k' - k1) := by omega
    rw [this, ← List.range'_append_1]
    congr 2; omega
theorem hIdxElems_of_rep (lall : List PyVal) :
    ∀ (vs : List Val) (fd : Bool) (el : Ty) (items : List PyVal) (k k' : Nat),
      RepElems lall vs fd el items k k' → hIdxElems vs el = List.range' k (k' - k) ∧ k ≤ k'
  | [], fd, el, items, k, k', hr => by
    simp only [RepElems] at hr
    obtain ⟨_, rfl⟩ := hr
    simp [hIdxElems]
  | v :: vs, fd, el, items, k, k', hr => by
    simp only [RepElems] at hr
    obtain ⟨x, xs, k1, _, hrv, hrs⟩ := hr
    have ih1 := hIdx_of_rep lall v fd el x k k1 hrv
    have ih2 := hIdxElems_of_rep lall vs fd el xs k1 k' hrs
    simp only [hIdxElems, ih1.1, ih2.1]
    refine ⟨?_, by omega⟩
    have : k' - k = (k1 - k) + (k' - k1) := by omega
    rw [this, ← List.range'_append_1]
    congr 2; omega
theorem hIdxFields_of_rep (lall : List PyVal) :
    ∀ (vs : List Val) (fd : Bool) (ts : List Ty) (items : List PyVal) (k k' : Nat),
      RepFields lall vs fd ts items k k' → hIdxFields vs ts = List.range' k (k' - k) ∧ k ≤ k'
  | [], fd, ts, items, k, k', hr => by
    simp only [RepFields] at hr
    obtain ⟨_, _, rfl⟩ := hr
    simp [hIdxFields]
  | v :: vs, fd, ts, items, k, k', hr => by
    simp only [RepFields] at hr
    obtain ⟨t, ts', x, xs, k1, rfl, _, hrv, hrs⟩ := hr
    have ih1 := hIdx_of_rep lall v fd t x k k1 hrv
    have ih2 := hIdxFields_of_rep lall vs fd ts' xs k1 k' hrs
    simp only [hIdxFields, ih1.1, ih2.1]
    refine ⟨?_, by omega⟩
    have : k' - k = (k1 - k) + (k' - k1) := by omega
    rw [this, ← List.range'_append_1]
    congr 2; omega
end


/-- the codec that marshals like `C` and leaves the body alone when parsing -/
def hyb (C : BodyCodec PyVal) : BodyCodec PyVal := ⟨C.marshal, noBody.unmarshal⟩

theorem construct_hyb (T : Tables) (C : BodyCodec PyVal) (na : Char → Bool) (maxLen : Nat) (st : Msg.St)
    (c : Call PyVal) : construct T (hyb C) na maxLen st c = construct T C na maxLen st c := by
  cases c <;> rfl

theorem parse_hyb (T : Tables) (C : BodyCodec PyVal) (raw : Bytes) (fds : Option (List PyVal)) :
    parseMessage T (hyb C) raw fds = parseMessage T noBody raw fds := rfl

theorem bodyAlign_eq : bodyAlign = Code.genAlign := rfl

theorem decode_encodeAll (ts : List Ty) (vs : List Val) (bs : Bytes) (e : Endian) (hts : allWF ts = true)
    (henc : Spec.encodeAll Code.genAlign e ts vs 0 = some bs) :
    Spec.decode bodyAlign e ts bs 0 = some (vs, bs.length) := by
  have hd : vdepthAll vs ≤ bs.length := Spec.vdepth_fields Code.genAlign e vs ts 0 bs henc
  have := Spec.decodeAll_encodeAll Code.genAlign e ts vs 0 bs [] [] bs.length hts rfl henc hd
  simpa [Spec.decode, bodyAlign_eq] using this


/-- `parseMessage` with `noBody` on a constructed message (any codec marshalled the body): the attributes
and the body bytes of the message object. -/
theorem parse_noBody_constructed (T : Tables) (hT : T.OK) (C : BodyCodec PyVal) (na : Char → Bool) (maxLen : Nat)
    (st st' : Msg.St) (c : Call PyVal) (m : Msg.Msg PyVal)
    (hs : 1 ≤ st.nextSerial) (hsig : Msg.Main.SigNoNul c) (h : construct T C na maxLen st c = (st', .ok m)) :
    ∃ m', parseMessage T noBody m.raw (some []) = .ok m' ∧ (∀ a, m'.attrs a = Msg.plain (m.attrs a)) ∧
      m'.rawBody = m.rawBody := by
  have h' : construct T (hyb C) na maxLen st c = (st', .ok m) := by rw [construct_hyb]; exact h
  obtain ⟨sm, hb⟩ := Msg.construct_ok T hT C na maxLen st st' c m h
  have hC : ∀ sg, m.attrs .signature = .str .plain sg → sg ≠ [] →
      ∃ bytes fds', (hyb C).marshal sg m.body c.oob = .ok (bytes, fds') ∧
        (hyb C).unmarshal sg bytes true (some []) = .ok PyVal.none := by
    intro sg hsg hne
    rcases hb.bodyCase with ⟨ht, _, _⟩ | ⟨sg', fds', hs1, _, hs3, _⟩
    · rw [← hb.attrs .signature (by decide), hsg] at ht
      cases sg with
      | nil => exact absurd rfl hne
      | cons ch cs => simp [Msg.truthy] at ht
    · rw [← hb.attrs .signature (by decide), hsg] at hs1
      simp only [PyVal.str.injEq, true_and] at hs1
      subst hs1
      exact ⟨m.rawBody, fds', by rw [hb.body]; exact hs3, rfl⟩
  obtain ⟨m', p1, _, _, _, _, p6, _, _, _, p10, _⟩ :=
    Msg.Main.parse_marshal T hT (hyb C) na maxLen st st' c m hs hsig h' (some []) PyVal.none hC
  exact ⟨m', by rw [← parse_hyb T C]; exact p1, p6, p10⟩

theorem raw_head_constructed (T : Tables) (hT : T.OK) (C : BodyCodec PyVal) (na : Char → Bool) (maxLen : Nat)
    (st st' : Msg.St) (c : Call PyVal) (m : Msg.Msg PyVal) (h : construct T C na maxLen st c = (st', .ok m)) :
    m.raw.head? = some 108 := by
  obtain ⟨sm, hb⟩ := Msg.construct_ok T hT C na maxLen st st' c m h
  have hen : sm.endian = .little := by rw [hb.smEq]; rfl
  rw [hb.raw]
  simp [Msg.Spec.encodeMsg, Msg.Spec.fixedPart, hen, Msg.Spec.endianByte]


theorem declaredOf_plain (v : PyVal) : declaredOf (Msg.plain v) = declaredOf v := by
  cases v <;> rfl

/-- `infoOfParse` on a constructed message whose body bytes are the specification encoding of `vs : ts`. -/
theorem info_core (T : Tables) (hT : T.OK) (C : BodyCodec PyVal) (na : Char → Bool) (maxLen : Nat)
    (st st' : Msg.St) (c : Call PyVal) (m : Msg.Msg PyVal)
    (hs : 1 ≤ st.nextSerial) (h : construct T C na maxLen st c = (st', .ok m))
    (ts : List Ty) (vs : List Val) (hsigc : c.signature = some (renderAll ts)) (hne : renderAll ts ≠ [])
    (hts : allWF ts = true) (henc : Spec.encodeAll Code.genAlign .little ts vs 0 = some m.rawBody) :
    infoOfParse T m.raw = ⟨declaredOf (m.attrs .unixFds), hIdxFields vs ts⟩ := by
  have hsig : Msg.Main.SigNoNul c := by
    intro sg hsg
    rw [hsigc] at hsg
    simp only [Option.some.injEq] at hsg
    subst hsg
    exact Msg.render_noNul ts
  obtain ⟨m', p1, p2, p3⟩ := parse_noBody_constructed T hT C na maxLen st st' c m hs hsig h
  obtain ⟨sm, hb⟩ := Msg.construct_ok T hT C na maxLen st st' c m h
  have hsa : m'.attrs .signature = .str .plain (renderAll ts) := by
    rw [p2, hb.attrs .signature (by decide), Msg.Main.pre_signature, hsigc]; rfl
  have hempty : (renderAll ts).isEmpty = false := by
    cases hr : renderAll ts with
    | nil => exact absurd hr hne
    | cons ch cs => rfl
  simp only [infoOfParse, p1, p2 .unixFds, declaredOf_plain, hsa, hempty, Bool.false_eq_true, if_false, p3,
    raw_head_constructed T hT C na maxLen st st' c m h, bodyIndices, parseSig_renderAll]
  simp [decode_encodeAll ts vs m.rawBody .little hts henc]


theorem take_drop_split (ds : List Nat) (k k1 k' : Nat) (h1 : k ≤ k1) (h2 : k1 ≤ k') :
    (ds.drop k).take (k1 - k) ++ (ds.drop k1).take (k' - k1) = (ds.drop k).take (k' - k) := by
  have e : k' - k = (k1 - k) + (k' - k1) := by omega
  rw [e, List.take_add, List.drop_drop]
  congr 3; omega

theorem bvOf_scalar (ds : List Nat) (v : Val) (fd : Bool) (t : Ty) (pv : PyVal) (k k' : Nat)
    (hv : (∃ n, v = .int n) ∨ (∃ b, v = .bool b) ∨ (∃ b, v = .double b) ∨ (∃ b, v = .str b))
    (hr : RepScalar (ds.map fdVal) v fd t pv k k') : fdLeaves (bvOf ds v t) = (ds.drop k).take (k' - k) := by
  obtain ⟨c, rfl, hcase⟩ := hr
  rcases hcase with ⟨rfl, _, rfl, rfl, hl, _⟩ | ⟨hc, _, rfl⟩
  · have hk : k < ds.length := by
      rcases Nat.lt_or_ge k ds.length with h | h
      · exact h
      · rw [List.getElem?_eq_none (by simpa using h)] at hl; cases hl
    simp [bvOf, fdLeaves, List.getD_eq_getElem?_getD, List.getElem?_eq_getElem hk, List.take_one,
      List.head?_drop]
  · rcases hv with ⟨n, rfl⟩ | ⟨b, rfl⟩ | ⟨b, rfl⟩ | ⟨b, rfl⟩
    · cases c <;> first | (exfalso; exact hc rfl) | simp [bvOf, fdLeaves]
    all_goals simp [bvOf, fdLeaves]

mutual
theorem bvOf_of_rep (ds : List Nat) :
    ∀ (v : Val) (fd : Bool) (t : Ty) (pv : PyVal) (k k' : Nat),
      Rep (ds.map fdVal) v fd t pv k k' → fdLeaves (bvOf ds v t) = (ds.drop k).take (k' - k)
  | .int n, fd, t, pv, k, k', hr => by
    simp only [Rep] at hr; exact bvOf_scalar ds _ fd t pv k k' (Or.inl ⟨_, rfl⟩) hr
  | .bool b, fd, t, pv, k, k', hr => by
    simp only [Rep] at hr; exact bvOf_scalar ds _ fd t pv k k' (Or.inr (Or.inl ⟨_, rfl⟩)) hr
  | .double b, fd, t, pv, k, k', hr => by
    simp only [Rep] at hr; exact bvOf_scalar ds _ fd t pv k k' (Or.inr (Or.inr (Or.inl ⟨_, rfl⟩))) hr
  | .str b, fd, t, pv, k, k', hr => by
    simp only [Rep] at hr; exact bvOf_scalar ds _ fd t pv k k' (Or.inr (Or.inr (Or.inr ⟨_, rfl⟩))) hr
  | .variant t' v', fd, t, pv, k, k', hr => by
    simp only [Rep] at hr
    obtain ⟨rfl, _, hrep, hk⟩ := hr
    have ih := bvOf_of_rep ds v' false t' pv k k hrep
    simp only [bvOf, fdLeaves, fdLeavesL, List.append_nil, ih, hk]
  | .array vs, fd, t, pv, k, k', hr => by
    simp only [Rep] at hr
    obtain ⟨el, items, rfl, _, _, hrep⟩ := hr
    simp only [bvOf, fdLeaves]
    exact bvOfElems_of_rep ds vs fd el items k k' hrep
  | .struct vs, fd, t, pv, k, k', hr => by
    simp only [Rep] at hr
    obtain ⟨fs, items, rfl, _, _, hrep⟩ := hr
    simp only [bvOf, fdLeaves]
    exact bvOfFields_of_rep ds vs fd fs items k k' hrep
  | .entry a b, fd, t, pv, k, k', hr => by
    simp only [Rep] at hr
    obtain ⟨kt, vt, x, y, k1, rfl, _, _, hra, hrb⟩ := hr
    have iha := bvOf_of_rep ds a fd kt x k k1 hra
    have ihb := bvOf_of_rep ds b fd vt y k1 k' hrb
    have m1 := (hIdx_of_rep _ a fd kt x k k1 hra).2
    have m2 := (hIdx_of_rep _ b fd vt y k1 k' hrb).2
    simp only [bvOf, fdLeaves, fdLeavesL, List.append_nil, iha, ihb]
    exact take_drop_split ds k k1 k' m1 m2
theorem bvOfElems_of_rep (ds : List Nat) :
    ∀ (vs : List Val) (fd : Bool) (el : Ty) (items : List PyVal) (k k' : Nat),
      RepElems (ds.map fdVal) vs fd el items k k' → fdLeavesL (bvOfElems ds vs el) = (ds.drop k).take (k' - k)
  | [], fd, el, items, k, k', hr => by
    simp only [RepElems] at hr
    obtain ⟨_, rfl⟩ := hr
    simp [bvOfElems, fdLeavesL]
  | v :: vs, fd, el, items, k, k', hr => by
    simp only [RepElems] at hr
    obtain ⟨x, xs, k1, _, hrv, hrs⟩ := hr
    have ih1 := bvOf_of_rep ds v fd el x k k1 hrv
    have ih2 := bvOfElems_of_rep ds vs fd el xs k1 k' hrs
    have m1 := (hIdx_of_rep _ v fd el x k k1 hrv).2
    have m2 := (hIdxElems_of_rep _ vs fd el xs k1 k' hrs).2
    simp only [bvOfElems, fdLeavesL, ih1, ih2]
    exact take_drop_split ds k k1 k' m1 m2
theorem bvOfFields_of_rep (ds : List Nat) :
    ∀ (vs : List Val) (fd : Bool) (ts : List Ty) (items : List PyVal) (k k' : Nat),
      RepFields (ds.map fdVal) vs fd ts items k k' → fdLeavesL (bvOfFields ds vs ts) = (ds.drop k).take (k' - k)
  | [], fd, ts, items, k, k', hr => by
    simp only [RepFields] at hr
    obtain ⟨_, _, rfl⟩ := hr
    simp [bvOfFields, fdLeavesL]
  | v :: vs, fd, ts, items, k, k', hr => by
    simp only [RepFields] at hr
    obtain ⟨t, ts', x, xs, k1, rfl, _, hrv, hrs⟩ := hr
    have ih1 := bvOf_of_rep ds v fd t x k k1 hrv
    have ih2 := bvOfFields_of_rep ds vs fd ts' xs k1 k' hrs
    have m1 := (hIdx_of_rep _ v fd t x k k1 hrv).2
    have m2 := (hIdxFields_of_rep _ vs fd ts' xs k1 k' hrs).2
    simp only [bvOfFields, fdLeavesL, ih1, ih2]
    exact take_drop_split ds k k1 k' m1 m2
end

/-! ### `Rep` looks only at the entries `[k, k')` of the descriptor list -/

theorem rep_agree_scalar (l l' : List PyVal) (v : Val) (fd : Bool) (t : Ty) (pv : PyVal) (k k' : Nat)
    (hr : RepScalar l v fd t pv k k') (hag : ∀ i, k ≤ i → i < k' → l'[i]? = l[i]?) : RepScalar l' v fd t pv k k' := by
  obtain ⟨c, rfl, hcase⟩ := hr
  rcases hcase with ⟨rfl, rfl, rfl, rfl, hl, hp⟩ | ⟨hc, hb, rfl⟩
  · exact ⟨.h, rfl, Or.inl ⟨rfl, rfl, rfl, rfl, by rw [hag k (Nat.le_refl _) (by omega)]; exact hl, hp⟩⟩
  · exact ⟨c, rfl, Or.inr ⟨hc, hb, rfl⟩⟩

mutual
theorem rep_agree (l l' : List PyVal) :
    ∀ (v : Val) (fd : Bool) (t : Ty) (pv : PyVal) (k k' : Nat),
      Rep l v fd t pv k k' → (∀ i, k ≤ i → i < k' → l'[i]? = l[i]?) → Rep l' v fd t pv k k'
  | .int n, fd, t, pv, k, k', hr, hag => by
    simp only [Rep] at hr ⊢; exact rep_agree_scalar l l' _ fd t pv k k' hr hag
  | .bool b, fd, t, pv, k, k', hr, hag => by
    simp only [Rep] at hr ⊢; exact rep_agree_scalar l l' _ fd t pv k k' hr hag
  | .double b, fd, t, pv, k, k', hr, hag => by
    simp only [Rep] at hr ⊢; exact rep_agree_scalar l l' _ fd t pv k k' hr hag
  | .str b, fd, t, pv, k, k', hr, hag => by
    simp only [Rep] at hr ⊢; exact rep_agree_scalar l l' _ fd t pv k k' hr hag
  | .variant t' v', fd, t, pv, k, k', hr, hag => by
    simp only [Rep] at hr ⊢
    obtain ⟨h1, h2, hrep, hk⟩ := hr
    exact ⟨h1, h2, rep_agree l l' v' false t' pv k k hrep (fun i h1 h2 => by omega), hk⟩
  | .array vs, fd, t, pv, k, k', hr, hag => by
    simp only [Rep] at hr ⊢
    obtain ⟨el, items, h1, h2, h3, hrep⟩ := hr
    exact ⟨el, items, h1, h2, h3, rep_agreeElems l l' vs fd el items k k' hrep hag⟩
  | .struct vs, fd, t, pv, k, k', hr, hag => by
    simp only [Rep] at hr ⊢
    obtain ⟨fs, items, h1, h2, h3, hrep⟩ := hr
    exact ⟨fs, items, h1, h2, h3, rep_agreeFields l l' vs fd fs items k k' hrep hag⟩
  | .entry a b, fd, t, pv, k, k', hr, hag => by
    simp only [Rep] at hr ⊢
    obtain ⟨kt, vt, x, y, k1, h1, h2, h3, hra, hrb⟩ := hr
    have m1 := (hIdx_of_rep _ a fd kt x k k1 hra).2
    have m2 := (hIdx_of_rep _ b fd vt y k1 k' hrb).2
    exact ⟨kt, vt, x, y, k1, h1, h2, h3,
      rep_agree l l' a fd kt x k k1 hra (fun i h1 h2 => hag i h1 (by omega)),
      rep_agree l l' b fd vt y k1 k' hrb (fun i h1 h2 => hag i (by omega) h2)⟩
theorem rep_agreeElems (l l' : List PyVal) :
    ∀ (vs : List Val) (fd : Bool) (el : Ty) (items : List PyVal) (k k' : Nat),
      RepElems l vs fd el items k k' → (∀ i, k ≤ i → i < k' → l'[i]? = l[i]?) → RepElems l' vs fd el items k k'
  | [], fd, el, items, k, k', hr, _ => by
    simp only [RepElems] at hr ⊢; exact hr
  | v :: vs, fd, el, items, k, k', hr, hag => by
    simp only [RepElems] at hr ⊢
    obtain ⟨x, xs, k1, h1, hrv, hrs⟩ := hr
    have m1 := (hIdx_of_rep _ v fd el x k k1 hrv).2
    have m2 := (hIdxElems_of_rep _ vs fd el xs k1 k' hrs).2
    exact ⟨x, xs, k1, h1, rep_agree l l' v fd el x k k1 hrv (fun i h1 h2 => hag i h1 (by omega)),
      rep_agreeElems l l' vs fd el xs k1 k' hrs (fun i h1 h2 => hag i (by omega) h2)⟩
theorem rep_agreeFields (l l' : List PyVal) :
    ∀ (vs : List Val) (fd : Bool) (ts : List Ty) (items : List PyVal) (k k' : Nat),
      RepFields l vs fd ts items k k' → (∀ i, k ≤ i → i < k' → l'[i]? = l[i]?) → RepFields l' vs fd ts items k k'
  | [], fd, ts, items, k, k', hr, _ => by
    simp only [RepFields] at hr ⊢; exact hr
  | v :: vs, fd, ts, items, k, k', hr, hag => by
    simp only [RepFields] at hr ⊢
    obtain ⟨t, ts', x, xs, k1, h1, h2, hrv, hrs⟩ := hr
    have m1 := (hIdx_of_rep _ v fd t x k k1 hrv).2
    have m2 := (hIdxFields_of_rep _ vs fd ts' xs k1 k' hrs).2
    exact ⟨t, ts', x, xs, k1, h1, h2, rep_agree l l' v fd t x k k1 hrv (fun i h1 h2 => hag i h1 (by omega)),
      rep_agreeFields l l' vs fd ts' xs k1 k' hrs (fun i h1 h2 => hag i (by omega) h2)⟩
end


/-- `self.unix_fds` after `_marshal`: set to `len(oobFDs)` only `if oobFDs:` (a non-empty list). -/
def ufdAttr : Option (List PyVal) → PyVal
  | some (fd :: l) => .int .plain ((fd :: l).length : Nat)
  | _ => .none

/-- What `marshal.marshal` did inside a successful constructor call with a non-empty signature: the body bytes
and the `unix_fds` attribute of the message object, from what `Code.marshal` returns. -/
theorem constructed_body_facts (T : Tables) (hT : T.OK) (na : Char → Bool) (maxLen : Nat) (st st' : Msg.St)
    (c : Call PyVal) (m : Msg.Msg PyVal) (fuel : Nat) (sg : List Char) (pv : PyVal) (bs : Bytes)
    (fdsOut : Option (List PyVal))
    (hsig : c.signature = some sg) (hne : sg ≠ []) (hbody : c.body = some pv)
    (hm : Code.marshal fuel sg pv 0 true c.oob = .ok (bs.length, bs, fdsOut))
    (h : construct T (wireCodec fuel) na maxLen st c = (st', .ok m)) :
    m.rawBody = bs ∧
    m.attrs .unixFds = ufdAttr fdsOut := by
  obtain ⟨sm, hb⟩ := Msg.construct_ok T hT (wireCodec fuel) na maxLen st st' c m h
  have hpb : c.pre.body = c.body := by cases c <;> rfl
  have hps : c.pre.attrs .signature = .str .plain sg := by rw [Msg.Main.pre_signature, hsig]; rfl
  rcases hb.bodyCase with ⟨ht, _, _⟩ | ⟨sg', fds', hs1, _, hs3, hs4⟩
  · rw [hps] at ht
    cases sg with
    | nil => exact absurd rfl hne
    | cons ch cs => simp [Msg.truthy] at ht
  · rw [hps] at hs1
    simp only [PyVal.str.injEq, true_and] at hs1
    subst hs1
    rw [hpb, hbody] at hs3
    simp only [wireCodec, Option.getD_some, hm, Except.ok.injEq, Prod.mk.injEq] at hs3
    obtain ⟨hs3a, hs3b⟩ := hs3
    subst hs3b
    refine ⟨hs3a.symm, ?_⟩
    rcases hs4 with ⟨fd, l, rfl, hu⟩ | ⟨hn | hn, hu⟩
    · exact hu
    · subst hn; exact hu
    · subst hn; exact hu


theorem range'_zero (n : Nat) : List.range' 0 (n - 0) = List.range n := by
  simp [List.range_eq_range']

/-- **C20 ∘ C03 ∘ C01, item 1 (general tables).**  A method call constructed by C03's model with `oobFDs=[]`, a
non-empty signature `renderAll ts` and a body in C01's domain whose descriptor arguments are, in wire order, the
numbers `ds` (`Code.RepFields (ds.map fdVal) …`): what C03's `parseMessage` finds in its bytes is the `unix_fds`
count `|ds|` (field absent iff there are none) and the indices `0 .. |ds|-1`. -/
theorem info_of_constructed_gen (T : Tables) (hT : T.OK) (na : Char → Bool) (maxLen : Nat) (st st' : Msg.St)
    (c : Call PyVal) (m : Msg.Msg PyVal) (hs : 1 ≤ st.nextSerial)
    (ts : List Ty) (pv : PyVal) (items : List PyVal) (vs : List Val) (ds : List Nat) (bs : Bytes) (fuel : Nat)
    (hsig : c.signature = some (renderAll ts)) (hne : renderAll ts ≠ []) (hbody : c.body = some pv)
    (hoob : c.oob = some [])
    (hts : allWF ts = true) (hitems : Code.topItems pv = .ok items)
    (hrep : Code.RepFields (ds.map fdVal) vs true ts items 0 ds.length)
    (henc : Spec.encodeAll Code.genAlign (Txdbus.endianOf true) ts vs 0 = some bs) (hfuel : depthAll vs ≤ fuel)
    (h : construct T (wireCodec fuel) na maxLen st c = (st', .ok m)) :
    infoOfParse T m.raw = ⟨if ds.isEmpty then none else some ds.length, List.range ds.length⟩ := by
  have hm : Code.marshal fuel (renderAll ts) pv 0 true c.oob = .ok (bs.length, bs, some (ds.map fdVal)) := by
    have h' := Code.marshal_eq_spec Code.genAlign Code.padOK_gen Code.genAlign_pos true ts pv items vs (ds.map fdVal)
      ds.length 0 bs fuel hitems hrep henc hfuel
    rw [hoob, h', List.take_of_length_le (by simp)]
  obtain ⟨hraw, hufd⟩ := constructed_body_facts T hT na maxLen st st' c m fuel (renderAll ts) pv bs _ hsig hne hbody hm h
  have hcore := info_core T hT (wireCodec fuel) na maxLen st st' c m hs h ts vs hsig hne hts (by rw [hraw]; exact henc)
  rw [hcore, hufd, (hIdxFields_of_rep _ vs true ts items 0 ds.length hrep).1, range'_zero]
  cases ds with
  | nil => rfl
  | cons d t => simp [declaredOf, ufdAttr]

/-- The same for a constructor call without a descriptor list (`oobFDs=None`: method returns, errors, signals,
default method calls) whose body has no descriptor arguments: no `unix_fds` field, no index. -/
theorem info_of_constructed_none_gen (T : Tables) (hT : T.OK) (na : Char → Bool) (maxLen : Nat) (st st' : Msg.St)
    (c : Call PyVal) (m : Msg.Msg PyVal) (hs : 1 ≤ st.nextSerial)
    (ts : List Ty) (pv : PyVal) (items : List PyVal) (vs : List Val) (lall : List PyVal) (bs : Bytes) (fuel : Nat)
    (hsig : c.signature = some (renderAll ts)) (hne : renderAll ts ≠ []) (hbody : c.body = some pv)
    (hoob : c.oob = none)
    (hts : allWF ts = true) (hitems : Code.topItems pv = .ok items)
    (hrep : Code.RepFields lall vs false ts items 0 0)
    (henc : Spec.encodeAll Code.genAlign (Txdbus.endianOf true) ts vs 0 = some bs) (hfuel : depthAll vs ≤ fuel)
    (h : construct T (wireCodec fuel) na maxLen st c = (st', .ok m)) :
    infoOfParse T m.raw = ⟨none, []⟩ := by
  have hm : Code.marshal fuel (renderAll ts) pv 0 true c.oob = .ok (bs.length, bs, none) := by
    rw [hoob]
    exact Msg.marshal_eq_spec_none true ts pv items vs lall 0 0 0 bs fuel hitems hrep henc hfuel
  obtain ⟨hraw, hufd⟩ := constructed_body_facts T hT na maxLen st st' c m fuel (renderAll ts) pv bs _ hsig hne hbody hm h
  have hcore := info_core T hT (wireCodec fuel) na maxLen st st' c m hs h ts vs hsig hne hts (by rw [hraw]; exact henc)
  rw [hcore, hufd, (hIdxFields_of_rep _ vs false ts items 0 0 hrep).1]
  rfl

/-- A constructor call without a signature (or with the empty one) and without descriptors handed in: nothing
is marshalled, no `unix_fds` field, no index. -/
theorem info_of_constructed_no_body_gen (T : Tables) (hT : T.OK) (C : BodyCodec PyVal) (na : Char → Bool)
    (maxLen : Nat) (st st' : Msg.St) (c : Call PyVal) (m : Msg.Msg PyVal) (hs : 1 ≤ st.nextSerial)
    (hsig : c.signature = none ∨ c.signature = some [])
    (h : construct T C na maxLen st c = (st', .ok m)) :
    infoOfParse T m.raw = ⟨none, []⟩ := by
  have hnonul : Msg.Main.SigNoNul c := by
    intro sg hsg
    rcases hsig with h0 | h0 <;> rw [h0] at hsg
    · cases hsg
    · simp only [Option.some.injEq] at hsg; subst hsg; rfl
  obtain ⟨m', p1, p2, p3⟩ := parse_noBody_constructed T hT C na maxLen st st' c m hs hnonul h
  obtain ⟨sm, hb⟩ := Msg.construct_ok T hT C na maxLen st st' c m h
  have hps : c.pre.attrs .signature = Msg.strAttr c.signature := Msg.Main.pre_signature c
  have hufd : m.attrs .unixFds = .none := by
    rcases hb.bodyCase with ⟨_, _, hu⟩ | ⟨sg', fds', hs1, hne', _, _⟩
    · exact hu
    · rw [hps] at hs1
      rcases hsig with h0 | h0 <;> rw [h0] at hs1
      · cases hs1
      · simp only [Msg.strAttr, PyVal.str.injEq, true_and] at hs1; exact absurd hs1.symm hne'
  have hsa : m'.attrs .signature = Msg.plain (Msg.strAttr c.signature) := by
    rw [p2, hb.attrs .signature (by decide), hps]
  simp only [infoOfParse, p1, p2 .unixFds, hufd, hsa]
  rcases hsig with h0 | h0 <;> rw [h0] <;> rfl

end Txdbus.Proto
