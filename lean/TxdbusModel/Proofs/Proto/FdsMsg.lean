import TxdbusModel.Proto.FdsMsg
import TxdbusModel.Proofs.Proto.FdsSender
import TxdbusModel.Proofs.Proto.WithMsg
import TxdbusModel.Proofs.Wire.SpecRoundtrip
/-
C20 composed with C03 (and C01 through it): lemmas behind `info_of_constructed` and `descriptors_end_to_end`
(Properties/C20.lean).

  * `hIdx_of_rep` / `bvOf_of_rep`: for a body in C01's domain (`Code.Rep`: the Python value conforms to the type and
    denotes the spec value; the descriptors met so far are `lall[0..k)`) the `h` positions of the spec value carry
    the indices `k .. k'-1` in wire order, and its `BV` abstraction has the descriptors `ds[k..k')` as leaves;
  * `rep_agree`: `Rep` only looks at the entries `[k, k')` of the descriptor list (so the receiver's queue, which
    holds the message's descriptors followed by early arrivals, is as good as the sender's list);
  * `parse_noBody_constructed`, `info_core`: C03's `parse_marshal` with a codec that leaves the body alone, the
    body bytes decoded by C01's specification decoder (`Spec.decodeAll_encodeAll`).
C03's proof files (Proofs/Msg, Proofs/Wire) and C04's Proofs/Proto/WithMsg.lean are imported read-only.
-/
namespace Txdbus.Proto.FdsE2E
open Txdbus.Code
open Txdbus.Msg (Tables BodyCodec Call construct parseMessage wireCodec)

theorem hIdx_scalar (lall : List PyVal) (v : Val) (fd : Bool) (t : Ty) (pv : PyVal) (k k' : Nat)
    (hv : (∃ n, v = .int n) ∨ (∃ b, v = .bool b) ∨ (∃ b, v = .double b) ∨ (∃ b, v = .str b))
    (hr : RepScalar lall v fd t pv k k') : hIdx v t = List.range' k (k' - k) ∧ k ≤ k' := by
  obtain ⟨c, rfl, hcase⟩ := hr
  rcases hcase with ⟨rfl, _, rfl, rfl, _, _⟩ | ⟨hc, _, rfl⟩
  · simp [hIdx]
  · rcases hv with ⟨n, rfl⟩ | ⟨b, rfl⟩ | ⟨b, rfl⟩ | ⟨b, rfl⟩
    · cases c <;> first | (exfalso; exact hc rfl) | simp [hIdx]
    all_goals simp [hIdx]

mutual
theorem hIdx_of_rep (lall : List PyVal) :
    ∀ (v : Val) (fd : Bool) (t : Ty) (pv : PyVal) (k k' : Nat),
      Rep lall v fd t pv k k' → hIdx v t = List.range' k (k' - k) ∧ k ≤ k'
  | .int n, fd, t, pv, k, k', hr => by
    simp only [Rep] at hr; exact hIdx_scalar lall _ fd t pv k k' (Or.inl ⟨_, rfl⟩) hr
  | .bool b, fd, t, pv, k, k', hr => by
    simp only [Rep] at hr; exact hIdx_scalar lall _ fd t pv k k' (Or.inr (Or.inl ⟨_, rfl⟩)) hr
  | .double b, fd, t, pv, k, k', hr => by
    simp only [Rep] at hr; exact hIdx_scalar lall _ fd t pv k k' (Or.inr (Or.inr (Or.inl ⟨_, rfl⟩))) hr
  | .str b, fd, t, pv, k, k', hr => by
    simp only [Rep] at hr; exact hIdx_scalar lall _ fd t pv k k' (Or.inr (Or.inr (Or.inr ⟨_, rfl⟩))) hr
  | .variant t' v', fd, t, pv, k, k', hr => by
    simp only [Rep] at hr
    obtain ⟨rfl, _, hrep, hk⟩ := hr
    have ih := hIdx_of_rep lall v' false t' pv k k hrep
    simp only [hIdx, hk]
    exact ⟨ih.1, Nat.le_refl _⟩
  | .array vs, fd, t, pv, k, k', hr => by
    simp only [Rep] at hr
    obtain ⟨el, items, rfl, _, _, hrep⟩ := hr
    simp only [hIdx]
    exact hIdxElems_of_rep lall vs fd el items k k' hrep
  | .struct vs, fd, t, pv, k, k', hr => by
    simp only [Rep] at hr
    obtain ⟨fs, items, rfl, _, _, hrep⟩ := hr
    simp only [hIdx]
    exact hIdxFields_of_rep lall vs fd fs items k k' hrep
  | .entry a b, fd, t, pv, k, k', hr => by
    simp only [Rep] at hr
    obtain ⟨kt, vt, x, y, k1, rfl, _, _, hra, hrb⟩ := hr
    have iha := hIdx_of_rep lall a fd kt x k k1 hra
    have ihb := hIdx_of_rep lall b fd vt y k1 k' hrb
    simp only [hIdx, iha.1, ihb.1]
    refine ⟨?_, by omega⟩
    have : k' - k = (k1 - k) + (k' - k1) := by omega
    rw [this, ← List.range'_append_1]
    congr 2; omega
theorem hIdxElems_of_rep (lall : List PyVal) :
    ∀ (vs : List Val) (fd : Bool) (el : Ty) (items : List PyVal) (k k' : Nat),
      RepElems lall vs fd el items k k' → hIdxElems vs el = List.range' k (k' - k) ∧ k ≤ k'
  | [], fd, el, items, k, k', hr => by
    simp only [RepElems] at hr
    obtain ⟨_, rfl⟩ := hr
    simp [hIdxElems]
  | v :: vs, fd, el, items, k, k', hr => by
    simp only [RepElems] at hr
    obtain ⟨x, xs, k1, _, hrv, hrs⟩ := hr
    have ih1 := hIdx_of_rep lall v fd el x k k1 hrv
    have ih2 := hIdxElems_of_rep lall vs fd el xs k1 k' hrs
    simp only [hIdxElems, ih1.1, ih2.1]
    refine ⟨?_, by omega⟩
    have : k' - k = (k1 - k) + (k' - k1) := by omega
    rw [this, ← List.range'_append_1]
    congr 2; omega
theorem hIdxFields_of_rep (lall : List PyVal) :
    ∀ (vs : List Val) (fd : Bool) (ts : List Ty) (items : List PyVal) (k k' : Nat),
      RepFields lall vs fd ts items k k' → hIdxFields vs ts = List.range' k (k' - k) ∧ k ≤ k'
  | [], fd, ts, items, k, k', hr => by
    simp only [RepFields] at hr
    obtain ⟨_, _, rfl⟩ := hr
    simp [hIdxFields]
  | v :: vs, fd, ts, items, k, k', hr => by
    simp only [RepFields] at hr
    obtain ⟨t, ts', x, xs, k1, rfl, _, hrv, hrs⟩ := hr
    have ih1 := hIdx_of_rep lall v fd t x k k1 hrv
    have ih2 := hIdxFields_of_rep lall vs fd ts' xs k1 k' hrs
    simp only [hIdxFields, ih1.1, ih2.1]
    refine ⟨?_, by omega⟩
    have : k' - k = (k1 - k) + (k' - k1) := by omega
    rw [this, ← List.range'_append_1]
    congr 2; omega
end


/-- the codec that marshals like `C` and leaves the body alone when parsing -/
def hyb (C : BodyCodec PyVal) : BodyCodec PyVal := ⟨C.marshal, noBody.unmarshal⟩

theorem construct_hyb (T : Tables) (C : BodyCodec PyVal) (na : Char → Bool) (maxLen : Nat) (st : Msg.St)
    (c : Call PyVal) : construct T (hyb C) na maxLen st c = construct T C na maxLen st c := by
  cases c <;> rfl

theorem parse_hyb (T : Tables) (C : BodyCodec PyVal) (raw : Bytes) (fds : Option (List PyVal)) :
    parseMessage T (hyb C) raw fds = parseMessage T noBody raw fds := rfl

theorem bodyAlign_eq : bodyAlign = Code.genAlign := rfl

theorem decode_encodeAll (ts : List Ty) (vs : List Val) (bs : Bytes) (e : Endian) (hts : allWF ts = true)
    (henc : Spec.encodeAll Code.genAlign e ts vs 0 = some bs) :
    Spec.decode bodyAlign e ts bs 0 = some (vs, bs.length) := by
  have hd : vdepthAll vs ≤ bs.length := Spec.vdepth_fields Code.genAlign e vs ts 0 bs henc
  have := Spec.decodeAll_encodeAll Code.genAlign e ts vs 0 bs [] [] bs.length hts rfl henc hd
  simpa [Spec.decode, bodyAlign_eq] using this


/-- `parseMessage` with `noBody` on a constructed message (any codec marshalled the body): the attributes
and the body bytes of the message object. -/
theorem parse_noBody_constructed (T : Tables) (hT : T.OK) (C : BodyCodec PyVal) (na : Char → Bool) (maxLen : Nat)
    (st st' : Msg.St) (c : Call PyVal) (m : Msg.Msg PyVal)
    (hs : 1 ≤ st.nextSerial) (hsig : Msg.Main.SigNoNul c) (h : construct T C na maxLen st c = (st', .ok m)) :
    ∃ m', parseMessage T noBody m.raw (some []) = .ok m' ∧ (∀ a, m'.attrs a = Msg.plain (m.attrs a)) ∧
      m'.rawBody = m.rawBody := by
  have h' : construct T (hyb C) na maxLen st c = (st', .ok m) := by rw [construct_hyb]; exact h
  obtain ⟨sm, hb⟩ := Msg.construct_ok T hT C na maxLen st st' c m h
  have hC : ∀ sg, m.attrs .signature = .str .plain sg → sg ≠ [] →
      ∃ bytes fds', (hyb C).marshal sg m.body c.oob = .ok (bytes, fds') ∧
        (hyb C).unmarshal sg bytes true (some []) = .ok PyVal.none := by
    intro sg hsg hne
    rcases hb.bodyCase with ⟨ht, _, _⟩ | ⟨sg', fds', hs1, _, hs3, _⟩
    · rw [← hb.attrs .signature (by decide), hsg] at ht
      cases sg with
      | nil => exact absurd rfl hne
      | cons ch cs => simp [Msg.truthy] at ht
    · rw [← hb.attrs .signature (by decide), hsg] at hs1
      simp only [PyVal.str.injEq, true_and] at hs1
      subst hs1
      exact ⟨m.rawBody, fds', by rw [hb.body]; exact hs3, rfl⟩
  obtain ⟨m', p1, _, _, _, _, p6, _, _, _, p10, _⟩ :=
    Msg.Main.parse_marshal T hT (hyb C) na maxLen st st' c m hs hsig h' (some []) PyVal.none hC
  exact ⟨m', by rw [← parse_hyb T C]; exact p1, p6, p10⟩

theorem raw_head_constructed (T : Tables) (hT : T.OK) (C : BodyCodec PyVal) (na : Char → Bool) (maxLen : Nat)
    (st st' : Msg.St) (c : Call PyVal) (m : Msg.Msg PyVal) (h : construct T C na maxLen st c = (st', .ok m)) :
    m.raw.head? = some 108 := by
  obtain ⟨sm, hb⟩ := Msg.construct_ok T hT C na maxLen st st' c m h
  have hen : sm.endian = .little := by rw [hb.smEq]; rfl
  rw [hb.raw]
  simp [Msg.Spec.encodeMsg, Msg.Spec.fixedPart, hen, Msg.Spec.endianByte]


theorem declaredOf_plain (v : PyVal) : declaredOf (Msg.plain v) = declaredOf v := by
  cases v <;> rfl

/-- `infoOfParse` on a constructed message whose body bytes are the specification encoding of `vs : ts`. -/
theorem info_core (T : Tables) (hT : T.OK) (C : BodyCodec PyVal) (na : Char → Bool) (maxLen : Nat)
    (st st' : Msg.St) (c : Call PyVal) (m : Msg.Msg PyVal)
    (hs : 1 ≤ st.nextSerial) (h : construct T C na maxLen st c = (st', .ok m))
    (ts : List Ty) (vs : List Val) (hsigc : c.signature = some (renderAll ts)) (hne : renderAll ts ≠ [])
    (hts : allWF ts = true) (henc : Spec.encodeAll Code.genAlign .little ts vs 0 = some m.rawBody) :
    infoOfParse T m.raw = ⟨declaredOf (m.attrs .unixFds), hIdxFields vs ts⟩ := by
  have hsig : Msg.Main.SigNoNul c := by
    intro sg hsg
    rw [hsigc] at hsg
    simp only [Option.some.injEq] at hsg
    subst hsg
    exact Msg.render_noNul ts
  obtain ⟨m', p1, p2, p3⟩ := parse_noBody_constructed T hT C na maxLen st st' c m hs hsig h
  obtain ⟨sm, hb⟩ := Msg.construct_ok T hT C na maxLen st st' c m h
  have hsa : m'.attrs .signature = .str .plain (renderAll ts) := by
    rw [p2, hb.attrs .signature (by decide), Msg.Main.pre_signature, hsigc]; rfl
  have hempty : (renderAll ts).isEmpty = false := by
    cases hr : renderAll ts with
    | nil => exact absurd hr hne
    | cons ch cs => rfl
  simp only [infoOfParse, p1, p2 .unixFds, declaredOf_plain, hsa, hempty, Bool.false_eq_true, if_false, p3,
    raw_head_constructed T hT C na maxLen st st' c m h, bodyIndices, parseSig_renderAll]
  simp [decode_encodeAll ts vs m.rawBody .little hts henc]


theorem take_drop_split (ds : List Nat) (k k1 k' : Nat) (h1 : k ≤ k1) (h2 : k1 ≤ k') :
    (ds.drop k).take (k1 - k) ++ (ds.drop k1).take (k' - k1) = (ds.drop k).take (k' - k) := by
  have e : k' - k = (k1 - k) + (k' - k1) := by omega
  rw [e, List.take_add, List.drop_drop]
  congr 3; omega

theorem bvOf_scalar (ds : List Nat) (v : Val) (fd : Bool) (t : Ty) (pv : PyVal) (k k' : Nat)
    (hv : (∃ n, v = .int n) ∨ (∃ b, v = .bool b) ∨ (∃ b, v = .double b) ∨ (∃ b, v = .str b))
    (hr : RepScalar (ds.map fdVal) v fd t pv k k') : fdLeaves (bvOf ds v t) = (ds.drop k).take (k' - k) := by
  obtain ⟨c, rfl, hcase⟩ := hr
  rcases hcase with ⟨rfl, _, rfl, rfl, hl, _⟩ | ⟨hc, _, rfl⟩
  · have hk : k < ds.length := by
      rcases Nat.lt_or_ge k ds.length with h | h
      · exact h
      · rw [List.getElem?_eq_none (by simpa using h)] at hl; cases hl
    simp [bvOf, fdLeaves, List.getD_eq_getElem?_getD, List.getElem?_eq_getElem hk, List.take_one,
      List.head?_drop]
  · rcases hv with ⟨n, rfl⟩ | ⟨b, rfl⟩ | ⟨b, rfl⟩ | ⟨b, rfl⟩
    · cases c <;> first | (exfalso; exact hc rfl) | simp [bvOf, fdLeaves]
    all_goals simp [bvOf, fdLeaves]

mutual
theorem bvOf_of_rep (ds : List Nat) :
    ∀ (v : Val) (fd : Bool) (t : Ty) (pv : PyVal) (k k' : Nat),
      Rep (ds.map fdVal) v fd t pv k k' → fdLeaves (bvOf ds v t) = (ds.drop k).take (k' - k)
  | .int n, fd, t, pv, k, k', hr => by
    simp only [Rep] at hr; exact bvOf_scalar ds _ fd t pv k k' (Or.inl ⟨_, rfl⟩) hr
  | .bool b, fd, t, pv, k, k', hr => by
    simp only [Rep] at hr; exact bvOf_scalar ds _ fd t pv k k' (Or.inr (Or.inl ⟨_, rfl⟩)) hr
  | .double b, fd, t, pv, k, k', hr => by
    simp only [Rep] at hr; exact bvOf_scalar ds _ fd t pv k k' (Or.inr (Or.inr (Or.inl ⟨_, rfl⟩))) hr
  | .str b, fd, t, pv, k, k', hr => by
    simp only [Rep] at hr; exact bvOf_scalar ds _ fd t pv k k' (Or.inr (Or.inr (Or.inr ⟨_, rfl⟩))) hr
  | .variant t' v', fd, t, pv, k, k', hr => by
    simp only [Rep] at hr
    obtain ⟨rfl, _, hrep, hk⟩ := hr
    have ih := bvOf_of_rep ds v' false t' pv k k hrep
    simp only [bvOf, fdLeaves, fdLeavesL, List.append_nil, ih, hk]
  | .array vs, fd, t, pv, k, k', hr => by
    simp only [Rep] at hr
    obtain ⟨el, items, rfl, _, _, hrep⟩ := hr
    simp only [bvOf, fdLeaves]
    exact bvOfElems_of_rep ds vs fd el items k k' hrep
  | .struct vs, fd, t, pv, k, k', hr => by
    simp only [Rep] at hr
    obtain ⟨fs, items, rfl, _, _, hrep⟩ := hr
    simp only [bvOf, fdLeaves]
    exact bvOfFields_of_rep ds vs fd fs items k k' hrep
  | .entry a b, fd, t, pv, k, k', hr => by
    simp only [Rep] at hr
    obtain ⟨kt, vt, x, y, k1, rfl, _, _, hra, hrb⟩ := hr
    have iha := bvOf_of_rep ds a fd kt x k k1 hra
    have ihb := bvOf_of_rep ds b fd vt y k1 k' hrb
    have m1 := (hIdx_of_rep _ a fd kt x k k1 hra).2
    have m2 := (hIdx_of_rep _ b fd vt y k1 k' hrb).2
    simp only [bvOf, fdLeaves, fdLeavesL, List.append_nil, iha, ihb]
    exact take_drop_split ds k k1 k' m1 m2
theorem bvOfElems_of_rep (ds : List Nat) :
    ∀ (vs : List Val) (fd : Bool) (el : Ty) (items : List PyVal) (k k' : Nat),
      RepElems (ds.map fdVal) vs fd el items k k' → fdLeavesL (bvOfElems ds vs el) = (ds.drop k).take (k' - k)
  | [], fd, el, items, k, k', hr => by
    simp only [RepElems] at hr
    obtain ⟨_, rfl⟩ := hr
    simp [bvOfElems, fdLeavesL]
  | v :: vs, fd, el, items, k, k', hr => by
    simp only [RepElems] at hr
    obtain ⟨x, xs, k1, _, hrv, hrs⟩ := hr
    have ih1 := bvOf_of_rep ds v fd el x k k1 hrv
    have ih2 := bvOfElems_of_rep ds vs fd el xs k1 k' hrs
    have m1 := (hIdx_of_rep _ v fd el x k k1 hrv).2
    have m2 := (hIdxElems_of_rep _ vs fd el xs k1 k' hrs).2
    simp only [bvOfElems, fdLeavesL, ih1, ih2]
    exact take_drop_split ds k k1 k' m1 m2
theorem bvOfFields_of_rep (ds : List Nat) :
    ∀ (vs : List Val) (fd : Bool) (ts : List Ty) (items : List PyVal) (k k' : Nat),
      RepFields (ds.map fdVal) vs fd ts items k k' → fdLeavesL (bvOfFields ds vs ts) = (ds.drop k).take (k' - k)
  | [], fd, ts, items, k, k', hr => by
    simp only [RepFields] at hr
    obtain ⟨_, _, rfl⟩ := hr
    simp [bvOfFields, fdLeavesL]
  | v :: vs, fd, ts, items, k, k', hr => by
    simp only [RepFields] at hr
    obtain ⟨t, ts', x, xs, k1, rfl, _, hrv, hrs⟩ := hr
    have ih1 := bvOf_of_rep ds v fd t x k k1 hrv
    have ih2 := bvOfFields_of_rep ds vs fd ts' xs k1 k' hrs
    have m1 := (hIdx_of_rep _ v fd t x k k1 hrv).2
    have m2 := (hIdxFields_of_rep _ vs fd ts' xs k1 k' hrs).2
    simp only [bvOfFields, fdLeavesL, ih1, ih2]
    exact take_drop_split ds k k1 k' m1 m2
end

/-! ### `Rep` looks only at the entries `[k, k')` of the descriptor list -/

theorem rep_agree_scalar (l l' : List PyVal) (v : Val) (fd : Bool) (t : Ty) (pv : PyVal) (k k' : Nat)
    (hr : RepScalar l v fd t pv k k') (hag : ∀ i, k ≤ i → i < k' → l'[i]? = l[i]?) : RepScalar l' v fd t pv k k' := by
  obtain ⟨c, rfl, hcase⟩ := hr
  rcases hcase with ⟨rfl, rfl, rfl, rfl, hl, hp⟩ | ⟨hc, hb, rfl⟩
  · exact ⟨.h, rfl, Or.inl ⟨rfl, rfl, rfl, rfl, by rw [hag k (Nat.le_refl _) (by omega)]; exact hl, hp⟩⟩
  · exact ⟨c, rfl, Or.inr ⟨hc, hb, rfl⟩⟩

mutual
theorem rep_agree (l l' : List PyVal) :
    ∀ (v : Val) (fd : Bool) (t : Ty) (pv : PyVal) (k k' : Nat),
      Rep l v fd t pv k k' → (∀ i, k ≤ i → i < k' → l'[i]? = l[i]?) → Rep l' v fd t pv k k'
  | .int n, fd, t, pv, k, k', hr, hag => by
    simp only [Rep] at hr ⊢; exact rep_agree_scalar l l' _ fd t pv k k' hr hag
  | .bool b, fd, t, pv, k, k', hr, hag => by
    simp only [Rep] at hr ⊢; exact rep_agree_scalar l l' _ fd t pv k k' hr hag
  | .double b, fd, t, pv, k, k', hr, hag => by
    simp only [Rep] at hr ⊢; exact rep_agree_scalar l l' _ fd t pv k k' hr hag
  | .str b, fd, t, pv, k, k', hr, hag => by
    simp only [Rep] at hr ⊢; exact rep_agree_scalar l l' _ fd t pv k k' hr hag
  | .variant t' v', fd, t, pv, k, k', hr, hag => by
    simp only [Rep] at hr ⊢
    obtain ⟨h1, h2, hrep, hk⟩ := hr
    exact ⟨h1, h2, rep_agree l l' v' false t' pv k k hrep (fun i h1 h2 => by omega), hk⟩
  | .array vs, fd, t, pv, k, k', hr, hag => by
    simp only [Rep] at hr ⊢
    obtain ⟨el, items, h1, h2, h3, hrep⟩ := hr
    exact ⟨el, items, h1, h2, h3, rep_agreeElems l l' vs fd el items k k' hrep hag⟩
  | .struct vs, fd, t, pv, k, k', hr, hag => by
    simp only [Rep] at hr ⊢
    obtain ⟨fs, items, h1, h2, h3, hrep⟩ := hr
    exact ⟨fs, items, h1, h2, h3, rep_agreeFields l l' vs fd fs items k k' hrep hag⟩
  | .entry a b, fd, t, pv, k, k', hr, hag => by
    simp only [Rep] at hr ⊢
    obtain ⟨kt, vt, x, y, k1, h1, h2, h3, hra, hrb⟩ := hr
    have m1 := (hIdx_of_rep _ a fd kt x k k1 hra).2
    have m2 := (hIdx_of_rep _ b fd vt y k1 k' hrb).2
    exact ⟨kt, vt, x, y, k1, h1, h2, h3,
      rep_agree l l' a fd kt x k k1 hra (fun i h1 h2 => hag i h1 (by omega)),
      rep_agree l l' b fd vt y k1 k' hrb (fun i h1 h2 => hag i (by omega) h2)⟩
theorem rep_agreeElems (l l' : List PyVal) :
    ∀ (vs : List Val) (fd : Bool) (el : Ty) (items : List PyVal) (k k' : Nat),
      RepElems l vs fd el items k k' → (∀ i, k ≤ i → i < k' → l'[i]? = l[i]?) → RepElems l' vs fd el items k k'
  | [], fd, el, items, k, k', hr, _ => by
    simp only [RepElems] at hr ⊢; exact hr
  | v :: vs, fd, el, items, k, k', hr, hag => by
    simp only [RepElems] at hr ⊢
    obtain ⟨x, xs, k1, h1, hrv, hrs⟩ := hr
    have m1 := (hIdx_of_rep _ v fd el x k k1 hrv).2
    have m2 := (hIdxElems_of_rep _ vs fd el xs k1 k' hrs).2
    exact ⟨x, xs, k1, h1, rep_agree l l' v fd el x k k1 hrv (fun i h1 h2 => hag i h1 (by omega)),
      rep_agreeElems l l' vs fd el xs k1 k' hrs (fun i h1 h2 => hag i (by omega) h2)⟩
theorem rep_agreeFields (l l' : List PyVal) :
    ∀ (vs : List Val) (fd : Bool) (ts : List Ty) (items : List PyVal) (k k' : Nat),
      RepFields l vs fd ts items k k' → (∀ i, k ≤ i → i < k' → l'[i]? = l[i]?) → RepFields l' vs fd ts items k k'
  | [], fd, ts, items, k, k', hr, _ => by
    simp only [RepFields] at hr ⊢; exact hr
  | v :: vs, fd, ts, items, k, k', hr, hag => by
    simp only [RepFields] at hr ⊢
    obtain ⟨t, ts', x, xs, k1, h1, h2, hrv, hrs⟩ := hr
    have m1 := (hIdx_of_rep _ v fd t x k k1 hrv).2
    have m2 := (hIdxFields_of_rep _ vs fd ts' xs k1 k' hrs).2
    exact ⟨t, ts', x, xs, k1, h1, h2, rep_agree l l' v fd t x k k1 hrv (fun i h1 h2 => hag i h1 (by omega)),
      rep_agreeFields l l' vs fd ts' xs k1 k' hrs (fun i h1 h2 => hag i (by omega) h2)⟩
end


/-- `self.unix_fds` after `_marshal`: set to `len(oobFDs)` only `if oobFDs:` (a non-empty list). -/
def ufdAttr : Option (List PyVal) → PyVal
  | some (fd :: l) => .int .plain ((fd :: l).length : Nat)
  | _ => .none

/-- What `marshal.marshal` did inside a successful constructor call with a non-empty signature: the body bytes
and the `unix_fds` attribute of the message object, from what `Code.marshal` returns. -/
theorem constructed_body_facts (T : Tables) (hT : T.OK) (na : Char → Bool) (maxLen : Nat) (st st' : Msg.St)
    (c : Call PyVal) (m : Msg.Msg PyVal) (fuel : Nat) (sg : List Char) (pv : PyVal) (bs : Bytes)
    (fdsOut : Option (List PyVal))
    (hsig : c.signature = some sg) (hne : sg ≠ []) (hbody : c.body = some pv)
    (hm : Code.marshal fuel sg pv 0 true c.oob = .ok (bs.length, bs, fdsOut))
    (h : construct T (wireCodec fuel) na maxLen st c = (st', .ok m)) :
    m.rawBody = bs ∧
    m.attrs .unixFds = ufdAttr fdsOut := by
  obtain ⟨sm, hb⟩ := Msg.construct_ok T hT (wireCodec fuel) na maxLen st st' c m h
  have hpb : c.pre.body = c.body := by cases c <;> rfl
  have hps : c.pre.attrs .signature = .str .plain sg := by rw [Msg.Main.pre_signature, hsig]; rfl
  rcases hb.bodyCase with ⟨ht, _, _⟩ | ⟨sg', fds', hs1, _, hs3, hs4⟩
  · rw [hps] at ht
    cases sg with
    | nil => exact absurd rfl hne
    | cons ch cs => simp [Msg.truthy] at ht
  · rw [hps] at hs1
    simp only [PyVal.str.injEq, true_and] at hs1
    subst hs1
    rw [hpb, hbody] at hs3
    simp only [wireCodec, Option.getD_some, hm, Except.ok.injEq, Prod.mk.injEq] at hs3
    obtain ⟨hs3a, hs3b⟩ := hs3
    subst hs3b
    refine ⟨hs3a.symm, ?_⟩
    rcases hs4 with ⟨fd, l, rfl, hu⟩ | ⟨hn | hn, hu⟩
    · exact hu
    · subst hn; exact hu
    · subst hn; exact hu


theorem range'_zero (n : Nat) : List.range' 0 (n - 0) = List.range n := by
  simp [List.range_eq_range']

/-- **C20 ∘ C03 ∘ C01, item 1 (general tables).**  A method call constructed by C03's model with `oobFDs=[]`, a
non-empty signature `renderAll ts` and a body in C01's domain whose descriptor arguments are, in wire order, the
numbers `ds` (`Code.RepFields (ds.map fdVal) …`): what C03's `parseMessage` finds in its bytes is the `unix_fds`
count `|ds|` (field absent iff there are none) and the indices `0 .. |ds|-1`. -/
theorem info_of_constructed_gen (T : Tables) (hT : T.OK) (na : Char → Bool) (maxLen : Nat) (st st' : Msg.St)
    (c : Call PyVal) (m : Msg.Msg PyVal) (hs : 1 ≤ st.nextSerial)
    (ts : List Ty) (pv : PyVal) (items : List PyVal) (vs : List Val) (ds : List Nat) (bs : Bytes) (fuel : Nat)
    (hsig : c.signature = some (renderAll ts)) (hne : renderAll ts ≠ []) (hbody : c.body = some pv)
    (hoob : c.oob = some [])
    (hts : allWF ts = true) (hitems : Code.topItems pv = .ok items)
    (hrep : Code.RepFields (ds.map fdVal) vs true ts items 0 ds.length)
    (henc : Spec.encodeAll Code.genAlign (Txdbus.endianOf true) ts vs 0 = some bs) (hfuel : depthAll vs ≤ fuel)
    (h : construct T (wireCodec fuel) na maxLen st c = (st', .ok m)) :
    infoOfParse T m.raw = ⟨if ds.isEmpty then none else some ds.length, List.range ds.length⟩ := by
  have hm : Code.marshal fuel (renderAll ts) pv 0 true c.oob = .ok (bs.length, bs, some (ds.map fdVal)) := by
    have h' := Code.marshal_eq_spec Code.genAlign Code.padOK_gen Code.genAlign_pos true ts pv items vs (ds.map fdVal)
      ds.length 0 bs fuel hitems hrep henc hfuel
    rw [hoob, h', List.take_of_length_le (by simp)]
  obtain ⟨hraw, hufd⟩ := constructed_body_facts T hT na maxLen st st' c m fuel (renderAll ts) pv bs _ hsig hne hbody hm h
  have hcore := info_core T hT (wireCodec fuel) na maxLen st st' c m hs h ts vs hsig hne hts (by rw [hraw]; exact henc)
  rw [hcore, hufd, (hIdxFields_of_rep _ vs true ts items 0 ds.length hrep).1, range'_zero]
  cases ds with
  | nil => rfl
  | cons d t => simp [declaredOf, ufdAttr]

/-- The same for a constructor call without a descriptor list (`oobFDs=None`: method returns, errors, signals,
default method calls) whose body has no descriptor arguments: no `unix_fds` field, no index. -/
theorem info_of_constructed_none_gen (T : Tables) (hT : T.OK) (na : Char → Bool) (maxLen : Nat) (st st' : Msg.St)
    (c : Call PyVal) (m : Msg.Msg PyVal) (hs : 1 ≤ st.nextSerial)
    (ts : List Ty) (pv : PyVal) (items : List PyVal) (vs : List Val) (lall : List PyVal) (bs : Bytes) (fuel : Nat)
    (hsig : c.signature = some (renderAll ts)) (hne : renderAll ts ≠ []) (hbody : c.body = some pv)
    (hoob : c.oob = none)
    (hts : allWF ts = true) (hitems : Code.topItems pv = .ok items)
    (hrep : Code.RepFields lall vs false ts items 0 0)
    (henc : Spec.encodeAll Code.genAlign (Txdbus.endianOf true) ts vs 0 = some bs) (hfuel : depthAll vs ≤ fuel)
    (h : construct T (wireCodec fuel) na maxLen st c = (st', .ok m)) :
    infoOfParse T m.raw = ⟨none, []⟩ := by
  have hm : Code.marshal fuel (renderAll ts) pv 0 true c.oob = .ok (bs.length, bs, none) := by
    rw [hoob]
    exact Msg.marshal_eq_spec_none true ts pv items vs lall 0 0 0 bs fuel hitems hrep henc hfuel
  obtain ⟨hraw, hufd⟩ := constructed_body_facts T hT na maxLen st st' c m fuel (renderAll ts) pv bs _ hsig hne hbody hm h
  have hcore := info_core T hT (wireCodec fuel) na maxLen st st' c m hs h ts vs hsig hne hts (by rw [hraw]; exact henc)
  rw [hcore, hufd, (hIdxFields_of_rep _ vs false ts items 0 0 hrep).1]
  rfl

/-- A constructor call without a signature (or with the empty one) and without descriptors handed in: nothing
is marshalled, no `unix_fds` field, no index. -/
theorem info_of_constructed_no_body_gen (T : Tables) (hT : T.OK) (C : BodyCodec PyVal) (na : Char → Bool)
    (maxLen : Nat) (st st' : Msg.St) (c : Call PyVal) (m : Msg.Msg PyVal) (hs : 1 ≤ st.nextSerial)
    (hsig : c.signature = none ∨ c.signature = some [])
    (h : construct T C na maxLen st c = (st', .ok m)) :
    infoOfParse T m.raw = ⟨none, []⟩ := by
  have hnonul : Msg.Main.SigNoNul c := by
    intro sg hsg
    rcases hsig with h0 | h0 <;> rw [h0] at hsg
    · cases hsg
    · simp only [Option.some.injEq] at hsg; subst hsg; rfl
  obtain ⟨m', p1, p2, p3⟩ := parse_noBody_constructed T hT C na maxLen st st' c m hs hnonul h
  obtain ⟨sm, hb⟩ := Msg.construct_ok T hT C na maxLen st st' c m h
  have hps : c.pre.attrs .signature = Msg.strAttr c.signature := Msg.Main.pre_signature c
  have hufd : m.attrs .unixFds = .none := by
    rcases hb.bodyCase with ⟨_, _, hu⟩ | ⟨sg', fds', hs1, hne', _, _⟩
    · exact hu
    · rw [hps] at hs1
      rcases hsig with h0 | h0 <;> rw [h0] at hs1
      · cases hs1
      · simp only [Msg.strAttr, PyVal.str.injEq, true_and] at hs1; exact absurd hs1.symm hne'
  have hsa : m'.attrs .signature = Msg.plain (Msg.strAttr c.signature) := by
    rw [p2, hb.attrs .signature (by decide), hps]
  simp only [infoOfParse, p1, p2 .unixFds, hufd, hsa]
  rcases hsig with h0 | h0 <;> rw [h0] <;> rfl


/-! ### Sent messages (spec side of the composition) -/

/-- One message that was sent: the message object C03's constructor model built, the descriptors the caller
attached (the out-of-band list after the constructor returned, as descriptor numbers), and the body in C01's
terms (types, spec values, Python items; all empty for a message without signature). -/
structure SentFd where
  msg : Msg.Msg PyVal
  /-- the constructor call that made `msg` -/
  call : Call PyVal
  ds : List Nat
  ts : List Ty
  vs : List Val
  items : List PyVal

/-- The body as the sender model of Proto/Fds.lean walks it. -/
def SentFd.body (x : SentFd) : List BV := bvOfFields x.ds x.vs x.ts

/-- The message in the vocabulary of `Consistent` / `attribution`: its bytes, its descriptors and indices as the
sender model `callRemote` lays them out. -/
def SentFd.toMsg (x : SentFd) : Msg := sentMsg x.msg.raw x.body

/-- `x.msg` was produced by the constructor call `x.call` of C03's model under the premises of C03's `parse_marshal_c01` /
`parse_marshal_no_body` (body codec = C01's code model): no signature (or the empty one) and no descriptors handed
in; or a non-empty signature `renderAll ts` with a body in C01's domain and either `oobFDs=[]` (method calls: the
descriptor arguments of the body are, in wire order, `ds`) or `oobFDs=None` (any constructor; no descriptor
argument, `ds = []`). -/
def SentFdOK (T : Tables) (na : Char → Bool) (maxLen fuel : Nat) (x : SentFd) : Prop :=
  ∃ (st st' : Msg.St), 1 ≤ st.nextSerial ∧
    construct T (wireCodec fuel) na maxLen st x.call = (st', .ok x.msg) ∧
    (((x.call.signature = none ∨ x.call.signature = some []) ∧ (x.call.oob = none ∨ x.call.oob = some []) ∧
        x.ds = [] ∧ x.ts = [] ∧ x.vs = [] ∧ x.items = []) ∨
     ∃ (pv : PyVal) (bs : Bytes),
       x.call.signature = some (renderAll x.ts) ∧ renderAll x.ts ≠ [] ∧ x.call.body = some pv ∧ allWF x.ts = true ∧
       Code.topItems pv = .ok x.items ∧ Code.KeysOKList x.items ∧
       Spec.encodeAll Code.genAlign (Txdbus.endianOf true) x.ts x.vs 0 = some bs ∧ depthAll x.vs ≤ fuel ∧
       ((x.call.oob = some [] ∧ Code.RepFields (x.ds.map fdVal) x.vs true x.ts x.items 0 x.ds.length) ∨
        (x.call.oob = none ∧ x.ds = [] ∧ ∃ lall, Code.RepFields lall x.vs false x.ts x.items 0 0)))

theorem sigNoNul_of_sentFdOK {ts : List Ty} {c : Call PyVal}
    (h : (c.signature = none ∨ c.signature = some []) ∨ c.signature = some (renderAll ts)) :
    Msg.Main.SigNoNul c := by
  intro sg hsg
  rcases h with (h0 | h0) | h0 <;> rw [h0] at hsg
  · cases hsg
  · simp only [Option.some.injEq] at hsg; subst hsg; rfl
  · simp only [Option.some.injEq] at hsg; subst hsg; exact Msg.render_noNul ts

/-- The descriptors of the sender model's message are the descriptors attached. -/
theorem sentFd_leaves (T : Tables) (na : Char → Bool) (maxLen fuel : Nat) (x : SentFd)
    (h : SentFdOK T na maxLen fuel x) : fdLeavesL x.body = x.ds := by
  obtain ⟨st, st', _, _, hcase⟩ := h
  generalize x.call = c at hcase
  rcases hcase with ⟨_, _, hds, hts, hvs, _⟩ | ⟨pv, bs, _, _, _, _, _, _, _, _, hoob⟩
  · simp [SentFd.body, hds, hvs, bvOfFields, fdLeavesL]
  · rcases hoob with ⟨_, hrep⟩ | ⟨_, hds, lall, hrep⟩
    · have := bvOfFields_of_rep x.ds x.vs true x.ts x.items 0 x.ds.length hrep
      simpa [SentFd.body] using this
    · have hag : ∀ i, 0 ≤ i → i < 0 → (x.ds.map fdVal)[i]? = lall[i]? := fun i _ h => absurd h (Nat.not_lt_zero i)
      have hrep' := rep_agreeFields lall (x.ds.map fdVal) x.vs false x.ts x.items 0 0 hrep hag
      have := bvOfFields_of_rep x.ds x.vs false x.ts x.items 0 0 hrep'
      simpa [SentFd.body, hds] using this

theorem toMsg_fds (T : Tables) (na : Char → Bool) (maxLen fuel : Nat) (x : SentFd)
    (h : SentFdOK T na maxLen fuel x) :
    x.toMsg.raw = x.msg.raw ∧ x.toMsg.fds = x.ds ∧ x.toMsg.idx = List.range x.ds.length := by
  have hl := sentFd_leaves T na maxLen fuel x h
  refine ⟨rfl, ?_, ?_⟩
  · simp [SentFd.toMsg, sentMsg, callRemote, marshalMsg, marshalBVs_spec, hl]
  · simp [SentFd.toMsg, sentMsg, callRemote, marshalMsg, marshalBVs_spec, hl, List.range_eq_range']

/-- **Item 1 for a sent message**: what C03's `parseMessage` finds in its bytes is what the sender model of
Proto/Fds.lean (`callRemote` on the body's `BV` abstraction) wrote: the `unix_fds` header and the indices. -/
theorem info_of_sent (T : Tables) (hT : T.OK) (na : Char → Bool) (maxLen fuel : Nat) (x : SentFd)
    (h : SentFdOK T na maxLen fuel x) :
    infoOfParse T x.msg.raw = ⟨(callRemote true x.body).1.header, (callRemote true x.body).1.indices⟩ := by
  have hl := sentFd_leaves T na maxLen fuel x h
  have hsend : (⟨(callRemote true x.body).1.header, (callRemote true x.body).1.indices⟩ : MsgInfo) =
      ⟨if x.ds.isEmpty then none else some x.ds.length, List.range x.ds.length⟩ := by
    simp [callRemote, marshalMsg, marshalBVs_spec, hl, List.range_eq_range']
  rw [hsend]
  obtain ⟨st, st', hs, hc, hcase⟩ := h
  generalize x.call = c at hc hcase
  rcases hcase with ⟨hsig, _, hds, _, _, _⟩ | ⟨pv, bs, hsig, hne, hbody, hts, hitems, _, henc, hfuel, hoob⟩
  · rw [info_of_constructed_no_body_gen T hT (wireCodec fuel) na maxLen st st' c x.msg hs hsig hc, hds]; rfl
  · rcases hoob with ⟨hoob, hrep⟩ | ⟨hoob, hds, lall, hrep⟩
    · exact info_of_constructed_gen T hT na maxLen st st' c x.msg hs x.ts pv x.items x.vs x.ds bs fuel hsig hne hbody
        hoob hts hitems hrep henc hfuel hc
    · rw [info_of_constructed_none_gen T hT na maxLen st st' c x.msg hs x.ts pv x.items x.vs lall bs fuel hsig hne
        hbody hoob hts hitems hrep henc hfuel hc, hds]; rfl

/-- C03's layout is C04's `Spec.WellFormed`: C04's `WithMsg.wellFormed_of_constructed_gen` (C03 `marshal_wellformed` +
C04 `wellFormed_of_layout`) for a sent message. -/
theorem wellFormed_of_sentFd (T : Tables) (hT : T.OK) (na : Char → Bool) (maxLen fuel : Nat)
    (hmax : maxLen ≤ Msg.Spec.maxMessage) (x : SentFd) (h : SentFdOK T na maxLen fuel x) :
    Spec.WellFormed x.msg.raw := by
  obtain ⟨st, st', hs, hc, hcase⟩ := h
  generalize x.call = c at hc hcase
  have hsig : Msg.Main.SigNoNul c := by
    apply sigNoNul_of_sentFdOK (ts := x.ts)
    rcases hcase with ⟨hsig, _⟩ | ⟨_, _, hsig, _⟩
    · exact Or.inl hsig
    · exact Or.inr hsig
  exact WithMsg.wellFormed_of_constructed_gen T hT (wireCodec fuel) na maxLen hmax st st' c x.msg hs hsig hc

/-! ### C03's parse with C01's codec on the receiver's real queue -/

/-- The receiver's `parseMessage` result `r` is the message `x` that was sent: same class, serial, flags, header
attributes (as Python values: `UInt32(5) == 5`), and the body is C01's normal form of the body that was sent
(`Code.plainList items`: at every `h` position the very descriptor object the sender passed). -/
def ParsedAs (x : SentFd) (r : Except PyErr (Msg.Msg PyVal)) : Prop :=
  ∃ m', r = .ok m' ∧ m'.cls = x.msg.cls ∧ m'.serial = x.msg.serial ∧ m'.expectReply = x.msg.expectReply ∧
    m'.autoStart = x.msg.autoStart ∧ (∀ a, m'.attrs a = Msg.plain (x.msg.attrs a)) ∧
    m'.body = (if renderAll x.ts = [] then none else some (.list (Code.plainList x.items)))

theorem queue_agree (ds rest : List Nat) :
    ∀ i, 0 ≤ i → i < ds.length → ((ds ++ rest).map fdVal)[i]? = (ds.map fdVal)[i]? := by
  intro i _ hi
  rw [List.map_append, List.getElem?_append_left (by simpa using hi)]

/-- `parseMessage(raw, self._receivedFDs)` (C03's model, C01's codec) on a queue that starts with the message's
own descriptors - whatever follows them (early arrivals of later messages) - returns the message sent. -/
theorem parsedAs_of_sent (T : Tables) (hT : T.OK) (na : Char → Bool) (maxLen fuel : Nat) (x : SentFd)
    (h : SentFdOK T na maxLen fuel x) (rest : List Nat) :
    ParsedAs x (parseMessage T (wireCodec fuel) x.msg.raw (some ((x.ds ++ rest).map fdVal))) := by
  obtain ⟨st, st', hs, hc, hcase⟩ := h
  generalize x.call = c at hc hcase
  rcases hcase with ⟨hsig, _, _, hts, _, _⟩ | ⟨pv, bs, hsig, hne, hbody, hts, hitems, hkeys, henc, hfuel, hoob⟩
  · obtain ⟨m', p1, p2, p3, p4, p5, p6, p7, _⟩ :=
      Msg.parse_marshal_no_body_gen T hT na maxLen st st' c x.msg hs fuel (some ((x.ds ++ rest).map fdVal)) hsig hc
    exact ⟨m', p1, p2, p3, p4, p5, p6, by rw [p7, hts]; rfl⟩
  · have key : ∀ (fdsOut : Option (List PyVal)) (fd : Bool) (lall : List PyVal) (k' : Nat),
        Code.marshal fuel (renderAll x.ts) pv 0 true c.oob = .ok (bs.length, bs, fdsOut) →
        Code.RepFields lall x.vs fd x.ts x.items 0 k' →
        (∀ i, 0 ≤ i → i < k' → ((x.ds ++ rest).map fdVal)[i]? = lall[i]?) →
        ParsedAs x (parseMessage T (wireCodec fuel) x.msg.raw (some ((x.ds ++ rest).map fdVal))) := by
      intro fdsOut fd lall k' hm hrep hag
      have hrep' := rep_agreeFields lall ((x.ds ++ rest).map fdVal) x.vs fd x.ts x.items 0 k' hrep hag
      have hu := Code.unmarshal_eq_spec Code.genAlign Code.padOK_gen Code.genAlign_pos true
        (some ((x.ds ++ rest).map fdVal)) x.ts x.vs 0 bs [] [] (Code.plainList x.items) fuel hts henc rfl
        (Code.fromSpecFields_of_rep _ x.vs fd x.ts x.items 0 k' hrep' hkeys) hfuel
      simp only [List.nil_append, List.append_nil] at hu
      obtain ⟨m', p1, p2, p3, p4, p5, p6, p7, _⟩ :=
        Msg.parse_marshal_wire_core T hT na maxLen st st' c x.msg hs (renderAll x.ts) pv bs fdsOut
          (some ((x.ds ++ rest).map fdVal)) (Code.plainList x.items) fuel hsig hne (Msg.render_noNul x.ts) hbody hm hu hc
      exact ⟨m', p1, p2, p3, p4, p5, p6, by rw [p7, if_neg hne]⟩
    rcases hoob with ⟨hoob, hrep⟩ | ⟨hoob, _, lall, hrep⟩
    · have hm : Code.marshal fuel (renderAll x.ts) pv 0 true c.oob = .ok (bs.length, bs, some (x.ds.map fdVal)) := by
        have h' := Code.marshal_eq_spec Code.genAlign Code.padOK_gen Code.genAlign_pos true x.ts pv x.items x.vs
          (x.ds.map fdVal) x.ds.length 0 bs fuel hitems hrep henc hfuel
        rw [hoob, h', List.take_of_length_le (by simp)]
      exact key _ true _ _ hm hrep (queue_agree x.ds rest)
    · have hm : Code.marshal fuel (renderAll x.ts) pv 0 true c.oob = .ok (bs.length, bs, none) := by
        rw [hoob]
        exact Msg.marshal_eq_spec_none true x.ts pv x.items x.vs lall 0 0 0 bs fuel hitems hrep henc hfuel
      exact key _ false _ _ hm hrep (fun i _ h => absurd h (Nat.not_lt_zero i))


/-- `self.unix_fds` of a sent message: the number of descriptors attached, the attribute absent when there are none. -/
theorem sent_unixFds (T : Tables) (hT : T.OK) (na : Char → Bool) (maxLen fuel : Nat) (x : SentFd)
    (h : SentFdOK T na maxLen fuel x) :
    x.msg.attrs .unixFds = if x.ds.isEmpty then PyVal.none else PyVal.int .plain (x.ds.length : Nat) := by
  obtain ⟨st, st', hs, hc, hcase⟩ := h
  generalize x.call = c at hc hcase
  rcases hcase with ⟨hsig, _, hds, _, _, _⟩ | ⟨pv, bs, hsig, hne, hbody, hts, hitems, _, henc, hfuel, hoob⟩
  · obtain ⟨sm, hb⟩ := Msg.construct_ok T hT (wireCodec fuel) na maxLen st st' c x.msg hc
    have hps : c.pre.attrs .signature = Msg.strAttr c.signature := Msg.Main.pre_signature c
    rw [hds]
    rcases hb.bodyCase with ⟨_, _, hu⟩ | ⟨sg', fds', hs1, hne', _, _⟩
    · exact hu
    · rw [hps] at hs1
      rcases hsig with h0 | h0 <;> rw [h0] at hs1
      · cases hs1
      · simp only [Msg.strAttr, PyVal.str.injEq, true_and] at hs1; exact absurd hs1.symm hne'
  · rcases hoob with ⟨hoob, hrep⟩ | ⟨hoob, hds, lall, hrep⟩
    · have hm : Code.marshal fuel (renderAll x.ts) pv 0 true c.oob = .ok (bs.length, bs, some (x.ds.map fdVal)) := by
        have h' := Code.marshal_eq_spec Code.genAlign Code.padOK_gen Code.genAlign_pos true x.ts pv x.items x.vs
          (x.ds.map fdVal) x.ds.length 0 bs fuel hitems hrep henc hfuel
        rw [hoob, h', List.take_of_length_le (by simp)]
      rw [(constructed_body_facts T hT na maxLen st st' c x.msg fuel (renderAll x.ts) pv bs _ hsig hne hbody hm hc).2]
      cases hd : x.ds with
      | nil => rfl
      | cons d t => simp [ufdAttr]
    · have hm : Code.marshal fuel (renderAll x.ts) pv 0 true c.oob = .ok (bs.length, bs, none) := by
        rw [hoob]
        exact Msg.marshal_eq_spec_none true x.ts pv x.items x.vs lall 0 0 0 bs fuel hitems hrep henc hfuel
      rw [(constructed_body_facts T hT na maxLen st st' c x.msg fuel (renderAll x.ts) pv bs _ hsig hne hbody hm hc).2, hds]
      rfl

/-- **C04's model of `rawDBusMessageReceived`** (`Receive.handleFrame`, Proto/Receive.lean: `parseMessage(raw,
self._receivedFDs)`, then `self._receivedFDs[m.unix_fds:]` when the attribute exists, then the hook of the message
type) on a queue that starts with the message's own descriptors: it returns the message that was sent and leaves
exactly what follows those descriptors - what `deliver` with `infoOfParse` computes. -/
theorem handleFrame_sent (T : Tables) (hT : T.OK) (na : Char → Bool) (maxLen fuel : Nat) (x : SentFd)
    (h : SentFdOK T na maxLen fuel x) (rest : List Nat) :
    ∃ m', parseMessage T (wireCodec fuel) x.msg.raw (some ((x.ds ++ rest).map fdVal)) = .ok m' ∧
      Receive.handleFrame T (wireCodec fuel) ((x.ds ++ rest).map fdVal) x.msg.raw =
        .ok (Receive.hookOfType (T.messageType m'.cls), m', rest.map fdVal) := by
  obtain ⟨m', hp, _, _, _, _, hattrs, _⟩ := parsedAs_of_sent T hT na maxLen fuel x h rest
  refine ⟨m', hp, ?_⟩
  have hu := sent_unixFds T hT na maxLen fuel x h
  simp only [Receive.handleFrame, hp, hattrs .unixFds, hu]
  cases hd : x.ds with
  | nil => simp [Msg.plain, Receive.fdsAfter]
  | cons d t =>
    have : (PyVal.int IntCls.plain ((d :: t).length : Nat)) = PyVal.int IntCls.plain (((d :: t).length : Nat) : Int) := rfl
    simp [Msg.plain, Receive.fdsAfter, Receive.sliceFrom]
    omega

/-- `ds` are the deliveries of the first messages of `xs`, in order: each carries the bytes of its message;
every `h` argument resolved to the descriptor attached to THIS message at that position (`args`); the queue at
that moment was the message's own descriptors followed by early arrivals of later messages, and exactly the
message's own descriptors were removed; C03's `parseMessage` with C01's codec, run on that very queue
(`parsedDelivery` - the code's call), returns the message that was sent, the descriptors in its body; and C04's model
of the whole of `rawDBusMessageReceived` (`Receive.handleFrame`: that parse, then `self._receivedFDs[m.unix_fds:]`,
then the hook of the message type) on that queue hands that message to the hook of its type and leaves exactly
`queueAfter`. -/
def ParsedFrom (T : Tables) (fuel : Nat) : List SentFd → List Delivery → Prop
  | _, [] => True
  | [], _ :: _ => False
  | x :: t, d :: ds =>
    d.raw = x.msg.raw ∧ d.args = x.ds.map some ∧
    (∃ early, d.queueBefore = x.ds ++ early ∧ d.queueAfter = early ∧ early <+: (t.map (·.ds)).flatten) ∧
    ParsedAs x (parsedDelivery T fuel d) ∧
    (∃ m', parsedDelivery T fuel d = .ok m' ∧
      Receive.handleFrame T (wireCodec fuel) (d.queueBefore.map fdVal) d.raw =
        .ok (Receive.hookOfType (T.messageType m'.cls), m', d.queueAfter.map fdVal)) ∧
    ParsedFrom T fuel t ds

theorem parsedFrom_of_goodFrom (T : Tables) (hT : T.OK) (na : Char → Bool) (maxLen fuel : Nat) :
    ∀ (xs : List SentFd) (ds : List Delivery), (∀ x ∈ xs, SentFdOK T na maxLen fuel x) →
      GoodFrom (xs.map SentFd.toMsg) ds → ParsedFrom T fuel xs ds
  | _, [], _, _ => by simp [ParsedFrom]
  | [], _ :: _, _, h => by simp [GoodFrom] at h
  | x :: t, d :: ds, hx, h => by
    simp only [List.map_cons, GoodFrom] at h
    obtain ⟨h1, h2, ⟨early, h3, h4, h5⟩, h6⟩ := h
    obtain ⟨e1, e2, e3⟩ := toMsg_fds T na maxLen fuel x (hx x (by simp))
    have hfl : (t.map SentFd.toMsg).map Msg.fds = t.map (·.ds) := by
      rw [List.map_map]
      apply List.map_congr_left
      intro y hy
      exact (toMsg_fds T na maxLen fuel y (hx y (by simp [hy]))).2.1
    refine ⟨by rw [h1, e1], ?_, ⟨early, by rw [h3, e2], h4, by rw [← hfl]; exact h5⟩, ?_, ?_,
      parsedFrom_of_goodFrom T hT na maxLen fuel t ds (fun y hy => hx y (by simp [hy])) h6⟩
    · rw [h2, e2, e3]
      apply List.ext_getElem?
      intro i
      simp only [List.getElem?_map]
      by_cases hi : i < x.ds.length
      · simp [hi]
      · simp [hi]
    · have := parsedAs_of_sent T hT na maxLen fuel x (hx x (by simp)) early
      simp only [parsedDelivery, h1, e1, h3, e2]
      exact this
    · obtain ⟨m', hp, hh⟩ := handleFrame_sent T hT na maxLen fuel x (hx x (by simp)) early
      refine ⟨m', ?_, ?_⟩
      · simp only [parsedDelivery, h1, e1, h3, e2]; exact hp
      · rw [h1, e1, h3, e2, h4]; exact hh

/-- In terms of the descriptors alone. -/
theorem parsedFrom_args (T : Tables) (fuel : Nat) :
    ∀ (xs : List SentFd) (ds : List Delivery), ParsedFrom T fuel xs ds →
      ds.map (fun d => (d.raw, d.args)) = (xs.take ds.length).map (fun x => (x.msg.raw, x.ds.map some))
  | _, [], _ => by simp
  | [], _ :: _, h => by simp [ParsedFrom] at h
  | x :: t, d :: ds, h => by
    simp only [ParsedFrom] at h
    simp only [List.map_cons, List.length_cons, List.take_succ_cons, h.1, h.2.1,
      parsedFrom_args T fuel t ds h.2.2.2.2.2]

/-! ### Everything that was sent has arrived -/

theorem hasFrame_of_wellFormed_append (m rest : Bytes) (h : Spec.WellFormed m) : Spec.hasFrame (m ++ rest) := by
  refine ⟨by simp only [List.length_append]; have := h.1; omega, ?_⟩
  rw [msgLen_append m rest h.1, h.2]
  simp

/-- When all bytes have arrived (`bytesOf evs` = the bytes of all messages) and the buffer holds no complete
message, every message has been delivered and nothing is buffered. -/
theorem all_delivered (ms : List Msg) (hwf : ∀ m ∈ ms, Spec.WellFormed m.raw) (n : Nat) (hn : n ≤ ms.length)
    (buf : Bytes) (hb : bytesUpTo ms ms.length = bytesUpTo ms n ++ buf) (hnf : ¬ Spec.hasFrame buf) :
    n = ms.length ∧ buf = [] := by
  rw [bytesUpTo_all ms n] at hb
  have hbuf : buf = ((ms.drop n).map Msg.raw).flatten := (List.append_cancel_left hb).symm
  cases hd : ms.drop n with
  | nil =>
    rw [hd] at hbuf
    have : ms.length ≤ n := by
      have := congrArg List.length hd
      simp at this; omega
    exact ⟨by omega, by simpa using hbuf⟩
  | cons m t =>
    exfalso
    rw [hd] at hbuf
    apply hnf
    rw [hbuf]
    simp only [List.map_cons, List.flatten_cons]
    apply hasFrame_of_wellFormed_append
    exact hwf m (List.mem_of_mem_drop (by rw [hd]; simp))


/-! ### Sender side; helpers for the instances in Properties/C20.lean -/

theorem mapM_fdNat (ds : List Nat) : (ds.map fdVal).mapM fdNat? = some ds := by
  induction ds with
  | nil => rfl
  | cons d t ih =>
    simp only [List.map_cons, List.mapM_cons, ih]
    simp [fdVal, fdNat?]

theorem sender_sends_constructed_gen (a : Msg.CallArgs PyVal) (ts : List Ty) (pv : PyVal) (items : List PyVal)
    (vs : List Val) (ds : List Nat) (bs : Bytes) (fuel : Nat)
    (hsig : a.signature = some (renderAll ts)) (hne : renderAll ts ≠ []) (hbody : a.body = some pv)
    (hoob : a.oobFDs = some []) (hitems : Code.topItems pv = .ok items)
    (hrep : Code.RepFields (ds.map fdVal) vs true ts items 0 ds.length)
    (henc : Spec.encodeAll Code.genAlign (Txdbus.endianOf true) ts vs 0 = some bs) (hfuel : depthAll vs ≤ fuel) :
    oobAfter fuel a = some (ds.map fdVal) ∧
    sendConstructed (oobAfter fuel a) = some (callRemote true (bvOfFields ds vs ts)).2 := by
  have hm : Code.marshal fuel (renderAll ts) pv 0 true (some []) = .ok (bs.length, bs, some (ds.map fdVal)) := by
    have h' := Code.marshal_eq_spec Code.genAlign Code.padOK_gen Code.genAlign_pos true ts pv items vs (ds.map fdVal)
      ds.length 0 bs fuel hitems hrep henc hfuel
    rw [h', List.take_of_length_le (by simp)]
  have ho : oobAfter fuel a = some (ds.map fdVal) := by
    unfold oobAfter
    rw [hsig]
    cases hr : renderAll ts with
    | nil => exact absurd hr hne
    | cons ch cs =>
      simp only [wireCodec, hbody, hoob, Option.getD_some]
      rw [← hr, hm]
  have hl : fdLeavesL (bvOfFields ds vs ts) = ds := by
    simpa using bvOfFields_of_rep ds vs true ts items 0 ds.length hrep
  refine ⟨ho, ?_⟩
  rw [ho]
  simp only [sendConstructed, Option.getD_some, mapM_fdNat]
  simp [callRemote, marshalMsg, sendMessage, marshalBVs_spec, hl]

/-- the sender's own transport calls as receiver events -/
def senderEvs (xs : List SentFd) : List Ev :=
  (xs.map (fun x => (callRemote true x.body).2.map (toEv x.msg.raw))).flatten

theorem construct_shape20 {T : Tables} {C : BodyCodec PyVal} {na : Char → Bool} {maxLen : Nat} {st : Msg.St}
    {c : Call PyVal} (hok : (construct T C na maxLen st c).2.toOption.isSome = true) :
    ∃ st' m, construct T C na maxLen st c = (st', .ok m) := by
  cases hr : construct T C na maxLen st c with
  | mk st' r =>
    cases r with
    | error e => rw [hr] at hok; cases hok
    | ok m => exact ⟨st', m, rfl⟩


section Literal
variable {α : Type}

/-! ### The literal receiver (descriptor events + `Receive.handleFrame`) follows the abstract one -/

/-- `handleFrame` on the queue of the delivery returns normally and leaves the delivery's `queueAfter`. -/
def Agrees (T : Tables) (fuel : Nat) (d : Delivery) : Prop :=
  ∃ h m', Receive.handleFrame T (wireCodec fuel) (d.queueBefore.map fdVal) d.raw = .ok (h, m', d.queueAfter.map fdVal)

/-- the hook call the literal receiver makes for a delivery -/
def litCallOf (T : Tables) (fuel : Nat) (d : Delivery) : LitCall :=
  (Receive.handleFrame T (wireCodec fuel) (d.queueBefore.map fdVal) d.raw).map (fun r => (r.1, r.2.1))

theorem litDeliverAll_sim (T : Tables) (fuel : Nat) (info : Bytes → MsgInfo) :
    ∀ (raws : List Bytes) (q : List Nat), (∀ d ∈ (deliverAll info q raws).2, Agrees T fuel d) →
      litDeliverAll T fuel (q.map fdVal) raws =
        ((deliverAll info q raws).1.map fdVal, (deliverAll info q raws).2.map (litCallOf T fuel), false)
  | [], q, _ => by simp [litDeliverAll, deliverAll]
  | raw :: t, q, h => by
    simp only [deliverAll] at h ⊢
    obtain ⟨hk, m', hh⟩ := h (deliver info q raw).2 (by simp)
    have e1 : (deliver info q raw).2.queueBefore = q := rfl
    have e2 : (deliver info q raw).2.raw = raw := rfl
    have e3 : (deliver info q raw).2.queueAfter = (deliver info q raw).1 := rfl
    rw [e1, e2, e3] at hh
    have ih := litDeliverAll_sim T fuel info t (deliver info q raw).1 (fun d hd => h d (by simp [hd]))
    simp only [litDeliverAll, hh, ih, List.map_cons]
    simp [litCallOf, e1, e2, hh, Except.map]

theorem litRecvRun_sim (T : Tables) (fuel : Nat) (A : Auth α) (info : Bytes → MsgInfo) :
    ∀ (evs : List Ev) (r : Recv α), (∀ d ∈ (recvRun A info r evs).2, Agrees T fuel d) →
      litRecvRun T fuel A ⟨r.st, r.queue.map fdVal, false⟩ evs =
        (⟨(recvRun A info r evs).1.st, (recvRun A info r evs).1.queue.map fdVal, false⟩,
         (recvRun A info r evs).2.map (litCallOf T fuel))
  | [], r, _ => by simp [litRecvRun, recvRun]
  | .fd n :: es, r, h => by
    simp only [recvRun, recvEv, List.nil_append] at h ⊢
    have ih := litRecvRun_sim T fuel A info es ⟨r.st, r.queue ++ [n]⟩ h
    simp only [List.map_append, List.map_cons, List.map_nil] at ih
    simp [litRecvRun, litRecvEv, ih]
  | .read d :: es, r, h => by
    simp only [recvRun, recvEv] at h ⊢
    have h1 : ∀ x ∈ (deliverAll info r.queue (msgsOf (step A r.st d).2)).2, Agrees T fuel x :=
      fun x hx => h x (by simp [hx])
    have s1 := litDeliverAll_sim T fuel info (msgsOf (step A r.st d).2) r.queue h1
    have ih := litRecvRun_sim T fuel A info es
      ⟨(step A r.st d).1, (deliverAll info r.queue (msgsOf (step A r.st d).2)).1⟩ (fun x hx => h x (by simp [hx]))
    simp only [litRecvRun, litRecvEv, s1, Bool.false_eq_true, if_false, ih, List.map_append]

theorem agrees_of_parsedFrom (T : Tables) (fuel : Nat) :
    ∀ (xs : List SentFd) (ds : List Delivery), ParsedFrom T fuel xs ds → ∀ d ∈ ds, Agrees T fuel d
  | _, [], _ => by simp
  | [], _ :: _, h => by simp [ParsedFrom] at h
  | x :: t, d :: ds, h => by
    simp only [ParsedFrom] at h
    obtain ⟨_, _, _, _, ⟨m', _, hh⟩, hrest⟩ := h
    intro d' hd'
    simp only [List.mem_cons] at hd'
    rcases hd' with rfl | hd'
    · exact ⟨_, m', hh⟩
    · exact agrees_of_parsedFrom T fuel t ds hrest d' hd'

/-! ### The code-level sender for a sent message -/

theorem call_oob_some {c : Call PyVal} {l : List PyVal} (h : c.oob = some l) : ∃ a, c = .methodCall a := by
  cases c with
  | methodCall a => exact ⟨a, rfl⟩
  | methodReturn a => cases h
  | error a => cases h
  | signal a => cases h

/-- `sendMessage` on the message object of a sent message (`sendOfCall`: `oobAfter` + `sendConstructed` of the code
model) makes exactly the transport calls of the sender model of Proto/Fds.lean - in all three branches of `SentFdOK`. -/
theorem sendOfCall_sent (T : Tables) (na : Char → Bool) (maxLen fuel : Nat) (x : SentFd)
    (h : SentFdOK T na maxLen fuel x) : sendOfCall fuel x.call = some (callRemote true x.body).2 := by
  have hl := sentFd_leaves T na maxLen fuel x h
  obtain ⟨st, st', hs, hc, hcase⟩ := h
  generalize x.call = c at hc hcase
  rcases hcase with ⟨hsig, hoob, hds, _, _, _⟩ | ⟨pv, bs, hsig, hne, hbody, hts, hitems, _, henc, hfuel, hoob⟩
  · have hw : (callRemote true x.body).2 = [SendEv.write] := by
      simp [callRemote, marshalMsg, sendMessage, marshalBVs_spec, hl, hds]
    rw [hw]
    cases c with
    | methodCall a =>
      have ho : oobAfter fuel a = a.oobFDs := by
        unfold oobAfter
        rcases hsig with h0 | h0 <;> simp only [Call.signature] at h0 <;> rw [h0]
      simp only [sendOfCall, ho]
      rcases hoob with h0 | h0 <;> simp only [Call.oob] at h0 <;> rw [h0] <;> rfl
    | methodReturn a => rfl
    | error a => rfl
    | signal a => rfl
  · rcases hoob with ⟨hoob, hrep⟩ | ⟨hoob, hds, lall, hrep⟩
    · obtain ⟨a, rfl⟩ := call_oob_some hoob
      exact (sender_sends_constructed_gen a x.ts pv x.items x.vs x.ds bs fuel hsig hne hbody hoob hitems hrep henc
        hfuel).2
    · have hw : (callRemote true x.body).2 = [SendEv.write] := by
        simp [callRemote, marshalMsg, sendMessage, marshalBVs_spec, hl, hds]
      rw [hw]
      cases c with
      | methodCall a =>
        have hm := Msg.marshal_eq_spec_none true x.ts pv x.items x.vs lall 0 0 0 bs fuel hitems hrep henc hfuel
        have ho : oobAfter fuel a = none := by
          unfold oobAfter
          simp only [Call.signature, Call.body, Call.oob] at hsig hbody hoob
          rw [hsig]
          cases hr : renderAll x.ts with
          | nil => exact absurd hr hne
          | cons ch cs =>
            simp only [wireCodec, hbody, hoob, Option.getD_some]
            rw [← hr, hm]
        simp only [sendOfCall, ho]; rfl
      | methodReturn a => rfl
      | error a => rfl
      | signal a => rfl


/-- The receiver events caused by the CODE-level sender: for every message the transport calls of `sendMessage` on the
message object its constructor call made (`sendOfCall`: `oobAfter` + `sendConstructed`), nothing reordered. -/
def senderEvsCode (fuel : Nat) (xs : List SentFd) : List Ev :=
  (xs.map (fun x => ((sendOfCall fuel x.call).getD []).map (toEv x.msg.raw))).flatten

theorem senderEvsCode_eq (T : Tables) (na : Char → Bool) (maxLen fuel : Nat) (xs : List SentFd)
    (hxs : ∀ x ∈ xs, SentFdOK T na maxLen fuel x) : senderEvsCode fuel xs = senderEvs xs := by
  unfold senderEvsCode senderEvs
  congr 1
  apply List.map_congr_left
  intro x hx
  rw [sendOfCall_sent T na maxLen fuel x (hxs x hx)]
  rfl

theorem bytesOf_map_read (reads : List Bytes) : bytesOf (reads.map Ev.read) = reads.flatten := by
  induction reads with
  | nil => rfl
  | cons d t ih => simp [bytesOf, ih]

theorem fdsOf_map_read (reads : List Bytes) : fdsOf (reads.map Ev.read) = [] := by
  induction reads with
  | nil => rfl
  | cons d t ih => simp [fdsOf, ih]

/-- The schedule "every descriptor before the first byte" (what `recv-deep-queue` generates): all descriptors of all
messages arrive first, then the bytes, cut into reads anywhere - an event sequence the environment allows. -/
theorem earliest_consistent (ms : List Msg) (reads : List Bytes) (hlen : ∀ m ∈ ms, 16 ≤ m.raw.length)
    (hr : reads.flatten = bytesUpTo ms ms.length) :
    Consistent ms ((fdsUpTo ms ms.length).map Ev.fd ++ reads.map Ev.read) := by
  have hb := bytesOf_map_read reads
  have hf := fdsOf_map_read reads
  refine ⟨?_, ?_, ?_⟩
  · rw [bytesOf_append, bytesOf_map_fd, List.nil_append, hb, hr]; exact List.prefix_refl _
  · rw [fdsOf_append, fdsOf_map_fd, hf, List.append_nil]; exact List.prefix_refl _
  · intro p hp k hk hle
    have hpre : fdsUpTo ms k <+: fdsUpTo ms ms.length := by
      rw [fdsUpTo_all ms k]; exact List.prefix_append _ _
    rcases prefix_append_cases p _ _ hp with h1 | ⟨q2, rfl, _⟩
    · obtain ⟨u, hu⟩ := h1
      have hbp : bytesOf p = [] := by
        have := congrArg bytesOf hu
        rw [bytesOf_append, bytesOf_map_fd] at this
        exact (List.append_eq_nil_iff.1 this).1
      rw [hbp] at hle
      cases k with
      | zero => simp [fdsUpTo]
      | succ k =>
        exfalso
        cases ms with
        | nil => simp at hk
        | cons m t =>
          have hm := hlen m (by simp)
          have e : bytesUpTo (m :: t) (k + 1) = m.raw ++ bytesUpTo t k := by simp [bytesUpTo]
          rw [e] at hle
          simp only [List.length_append, List.length_nil] at hle
          omega
    · rw [fdsOf_append, fdsOf_map_fd]
      have := hpre.length_le
      simp only [List.length_append]
      omega

/-- `cs` are the hook calls for the first messages of `xs`, in order: each is the call of the hook of the message's type
with a message that is the one sent (`ParsedAs`). -/
def LitFrom (T : Tables) : List SentFd → List LitCall → Prop
  | _, [] => True
  | [], _ :: _ => False
  | x :: t, c :: cs =>
    (∃ m', c = .ok (Receive.hookOfType (T.messageType m'.cls), m') ∧ ParsedAs x (.ok m')) ∧ LitFrom T t cs

/-- What the hooks of the literal receiver are handed, delivery by delivery. -/
theorem litCalls_of_parsedFrom (T : Tables) (fuel : Nat) :
    ∀ (xs : List SentFd) (ds : List Delivery), ParsedFrom T fuel xs ds → LitFrom T xs (ds.map (litCallOf T fuel))
  | _, [], _ => by simp [LitFrom]
  | [], _ :: _, h => by simp [ParsedFrom] at h
  | x :: t, d :: ds, h => by
    simp only [ParsedFrom] at h
    obtain ⟨_, _, _, hpa, ⟨m', hp, hh⟩, hrest⟩ := h
    simp only [List.map_cons, LitFrom]
    refine ⟨⟨m', ?_, by rw [← hp]; exact hpa⟩, litCalls_of_parsedFrom T fuel t ds hrest⟩
    simp [litCallOf, hh, Except.map]

end Literal

/-- `RepFields` for the body `[7, 7]` of signature `hh` (the instance in Properties/C20.lean). -/
theorem exFd_rep : Code.RepFields ([7, 7].map fdVal) [.int 0, .int 1] true [.basic .h, .basic .h]
    [.int .plain 7, .int .plain 7] 0 2 := by
  refine ⟨_, _, _, _, 1, rfl, rfl, ?_, _, _, _, _, 2, rfl, rfl, ?_, ⟨rfl, rfl, rfl⟩⟩
  · simp only [Code.Rep]
    exact ⟨.h, rfl, Or.inl ⟨rfl, rfl, rfl, rfl, rfl, rfl⟩⟩
  · simp only [Code.Rep]
    exact ⟨.h, rfl, Or.inl ⟨rfl, rfl, rfl, rfl, rfl, rfl⟩⟩

/-- An authenticator for the instances (never consulted in binary mode). -/
def idleAuth : Auth Unit := ⟨fun _ _ => ((), .cont)⟩

end Txdbus.Proto.FdsE2E
