import TxdbusModel.Proofs.Proto.Handoff
import TxdbusModel.Gen.ProtoConst
/-
C20's own copy of C04's theorem `handoff` (Properties/C04.lean, C04.4: handshake ++ arbitrary bytes, cut anywhere -
the authenticator gets the handshake lines, the messages delivered are `frames rest`, the protocol ends in binary
mode).  Statement and proof are C04's, word for word, on C04's lemmas (Proofs/Proto/Handoff.lean, Split.lean,
Step.lean - imported read-only); it is repeated here only so that Properties/C20.lean does not have to import
Properties/C04.lean, whose import closure (the C04 ∘ C03 extension: Proto/Receive.lean, Proofs/Proto/WithMsg.lean) is
being extended independently and defines names (`Txdbus.Proto.recvRun`) that C20's model already uses.
-/
namespace Txdbus.Proto
open Txdbus.Gen.ProtoConst

variable {α : Type}

theorem handoff_c20 (A : Auth α) (s : St α) (hs : List Bytes) (last rest : Bytes) (reads : List Bytes) (a1 a' : α)
    (hr : Ready s) (ha : s.authenticated = false) (hbuf : s.buffer = []) (hcl : s.closed = false)
    (hnext : s.nextMsgLen = 0)
    (hlines : ∀ l ∈ hs ++ [last], Spec.hasCRLF l = false ∧ l.length ≤ maxAuthLength)
    (hrun : authRun A s.auth hs = some a1) (hlast : A.handle a1 last = (a', .success))
    (hne : reads ≠ []) (hreads : reads.flatten = Spec.unlines (hs ++ [last]) ++ rest) :
    linesOf (run A s reads).2 = hs ++ [last] ∧
    msgsOf (run A s reads).2 = (Spec.frames rest).1 ∧
    (run A s reads).1.buffer = (Spec.frames rest).2 ∧
    (run A s reads).1.authenticated = true ∧
    (run A s reads).1.closed = false ∧
    Framed (run A s reads).1 := by
  cases reads with
  | nil => exact absurd rfl hne
  | cons d ds =>
    have hrf := run_flatten A s d ds hr
    rw [hreads] at hrf
    -- the single read
    have hsp := split_unlines (hs ++ [last]) rest (fun l hl => (hlines l hl).1)
    have hone : step A s (Spec.unlines (hs ++ [last]) ++ rest) =
        lineFinish s (splitCRLF rest).2
          ⟨.success, a', false, (hs ++ [last]).map Effect.line, (splitCRLF rest).1⟩ := by
      rw [step_line A s _ ha hr, lineBody_eq, hbuf, List.nil_append, hsp, hcl,
        lineLoop_handshake A s.auth a1 a' hs last _ (fun l hl => (hlines l hl).2) hrun hlast]
    rw [lineFinish_success _ _ _ rfl] at hone
    simp only [join_split] at hone
    have hfr : Framed (handoffState s ⟨.success, a', false, (hs ++ [last]).map Effect.line, (splitCRLF rest).1⟩) := by
      refine Or.inl ⟨hnext, ?_⟩
      show ([] : Bytes).length < 16
      decide
    have hb := binStep_frames _ rest hfr
    simp only [handoffState, List.nil_append] at hb
    simp only [handoffState] at hone
    rw [hone] at hrf
    refine ⟨?_, ?_, ?_, ?_, ?_, ?_⟩
    · rw [← linesOf_noLose, hrf.2, linesOf_noLose]
      show linesOf (_ ++ _) = _
      rw [hb.1]
      exact (linesOf_lines_msgs _ _).1
    · rw [← msgsOf_noLose, hrf.2, msgsOf_noLose]
      show msgsOf (_ ++ _) = _
      rw [hb.1]
      exact (linesOf_lines_msgs _ _).2
    · rw [hrf.1]; exact hb.2.1
    · rw [hrf.1]; rfl
    · rw [hrf.1]; rfl
    · rw [hrf.1]; exact hb.2.2

/-- `BEGIN` (for the examples of Properties/C20.lean) -/
def beginLineC20 : Bytes := [66, 69, 71, 73, 78]

end Txdbus.Proto
