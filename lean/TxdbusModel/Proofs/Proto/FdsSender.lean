import TxdbusModel.Proofs.Proto.FdsHandshake
/-
C20: where the sender model and the receiver theorem meet - the receive order induced by the sender's
transport calls is `Consistent`, `MsgOK` for what `callRemote` sends, deliveries in terms of the
descriptors themselves.
-/
namespace Txdbus.Proto
variable {α : Type}

/-- What the sender's transport calls become at the receiver when nothing is reordered or cut: for every
message its `sendFileDescriptor` calls as descriptor arrivals, then its `write` as one read. -/
def canonicalEvs : List Msg → List Ev
  | [] => []
  | m :: t => m.fds.map Ev.fd ++ (Ev.read m.raw :: canonicalEvs t)

theorem bytesOf_canonical (ms : List Msg) : bytesOf (canonicalEvs ms) = bytesUpTo ms ms.length := by
  induction ms with
  | nil => rfl
  | cons m t ih =>
    simp only [canonicalEvs, bytesOf_append, bytesOf_map_fd, List.nil_append, bytesOf, ih]
    simp [bytesUpTo]

theorem fdsOf_canonical (ms : List Msg) : fdsOf (canonicalEvs ms) = fdsUpTo ms ms.length := by
  induction ms with
  | nil => rfl
  | cons m t ih =>
    simp only [canonicalEvs, fdsOf_append, fdsOf_map_fd, fdsOf, ih]
    simp [fdsUpTo]

theorem canonical_timing (ms : List Msg) (hlen : ∀ m ∈ ms, 16 ≤ m.raw.length) :
    ∀ p, p <+: canonicalEvs ms → ∀ k, k ≤ ms.length → (bytesUpTo ms k).length ≤ (bytesOf p).length →
      (fdsUpTo ms k).length ≤ (fdsOf p).length := by
  induction ms with
  | nil =>
    intro p hp k hk _
    have : k = 0 := by simpa using hk
    subst this; simp [fdsUpTo]
  | cons m t ih =>
    intro p hp k hk hle
    cases k with
    | zero => simp [fdsUpTo]
    | succ k =>
      have hm := hlen m (by simp)
      have hk' : k ≤ t.length := by simpa using hk
      have hb : bytesUpTo (m :: t) (k + 1) = m.raw ++ bytesUpTo t k := by simp [bytesUpTo]
      have hf : fdsUpTo (m :: t) (k + 1) = m.fds ++ fdsUpTo t k := by simp [fdsUpTo]
      rw [hb] at hle
      rw [hf]
      simp only [canonicalEvs] at hp
      rcases prefix_append_cases p _ _ hp with h1 | ⟨q2, rfl, hq2⟩
      · -- only descriptor arrivals of the first message so far: no byte read
        obtain ⟨u, hu⟩ := h1
        have : bytesOf p = [] := by
          have := congrArg bytesOf hu
          rw [bytesOf_append, bytesOf_map_fd] at this
          exact (List.append_eq_nil_iff.1 this).1
        rw [this] at hle
        simp only [List.length_append, List.length_nil] at hle
        omega
      · cases q2 with
        | nil =>
          simp only [List.append_nil, bytesOf_map_fd, List.length_nil, List.length_append] at hle
          omega
        | cons e q3 =>
          have he : e = .read m.raw ∧ q3 <+: canonicalEvs t := by
            obtain ⟨u, hu⟩ := hq2
            simp at hu
            exact ⟨hu.1, ⟨u, hu.2⟩⟩
          obtain ⟨rfl, hq3⟩ := he
          rw [bytesOf_append, bytesOf_map_fd] at hle
          simp only [bytesOf, List.nil_append, List.length_append] at hle
          have := ih (fun x hx => hlen x (by simp [hx])) q3 hq3 k hk' (by omega)
          rw [fdsOf_append, fdsOf_map_fd]
          simp only [fdsOf, List.length_append]
          omega

/-- The delivery order of the sender's own transport calls is one of the event sequences a stream
socket may produce. -/
theorem canonical_consistent (ms : List Msg) (hlen : ∀ m ∈ ms, 16 ≤ m.raw.length) :
    Consistent ms (canonicalEvs ms) :=
  ⟨by rw [bytesOf_canonical]; exact List.prefix_refl _, by rw [fdsOf_canonical]; exact List.prefix_refl _,
   canonical_timing ms hlen⟩

/-- The message `callRemote` sends for `body`, its bytes being `raw`. -/
def sentMsg (raw : Bytes) (body : List BV) : Msg :=
  ⟨raw, (callRemote true body).1.oob, (callRemote true body).1.indices⟩

/-- Where sender and receiver meet: if the parser reads back from `raw` the header field and the index
values `_marshal` wrote (the C01-C03 round trip: UINT32 index at every `h` position, header field 9 =
count), the message satisfies `MsgOK`. -/
theorem msgOK_of_callRemote (info : Bytes → MsgInfo) (raw : Bytes) (body : List BV)
    (h : info raw = ⟨(callRemote true body).1.header, (callRemote true body).1.indices⟩) :
    MsgOK info (sentMsg raw body) := by
  have hl : (callRemote true body).1.oob = fdLeavesL body ∧
      (callRemote true body).1.indices = List.range (fdLeavesL body).length ∧
      (callRemote true body).1.header =
        (if (fdLeavesL body).isEmpty then none else some (fdLeavesL body).length) := by
    simp [callRemote, marshalMsg, marshalBVs_spec, List.range_eq_range']
  refine ⟨by simp [sentMsg, h], ?_, ?_⟩
  · show DeclOK (info raw).declared (callRemote true body).1.oob.length
    rw [h, hl.1]
    simp only [hl.2.2]
    cases hq : fdLeavesL body with
    | nil => exact Or.inr ⟨by simp, rfl⟩
    | cons a t => exact Or.inl (by simp)
  · intro j hj
    simp only [sentMsg, hl.1, hl.2.1] at hj ⊢
    exact List.mem_range.1 hj

/-- With the sender's indices `0..k-1` every delivery carries exactly the message's descriptors. -/
theorem goodFrom_args (ms : List Msg) (ds : List Delivery) (h : GoodFrom ms ds)
    (hidx : ∀ m ∈ ms, m.idx = List.range m.fds.length) :
    ds.map (fun d => (d.raw, d.args)) = (ms.take ds.length).map (fun m => (m.raw, m.fds.map some)) := by
  induction ds generalizing ms with
  | nil => simp
  | cons d t ih =>
    cases ms with
    | nil => simp [GoodFrom] at h
    | cons m ms' =>
      simp only [GoodFrom] at h
      have hm := hidx m (by simp)
      have : m.idx.map (fun j => m.fds[j]?) = m.fds.map some := by
        rw [hm]
        apply List.ext_getElem?
        intro i
        simp only [List.getElem?_map]
        by_cases hi : i < m.fds.length
        · simp [hi]
        · simp [hi]
      simp only [List.map_cons, List.length_cons, List.take_succ_cons, h.1, h.2.1, this]
      rw [ih ms' h.2.2.2 (fun x hx => hidx x (by simp [hx]))]


/-- A transport call of the sender as the event it causes at the receiver when nothing is reordered. -/
def toEv (raw : Bytes) : SendEv → Ev
  | .sendFd d => .fd d
  | .write => .read raw

theorem canonical_eq_transport (pairs : List (Bytes × List BV)) :
    canonicalEvs (pairs.map (fun p => sentMsg p.1 p.2)) =
      (pairs.map (fun p => (callRemote true p.2).2.map (toEv p.1))).flatten := by
  induction pairs with
  | nil => rfl
  | cons p t ih =>
    simp only [List.map_cons, canonicalEvs, List.flatten_cons, ih]
    simp [sentMsg, callRemote, sendMessage, toEv, Function.comp_def]

end Txdbus.Proto
