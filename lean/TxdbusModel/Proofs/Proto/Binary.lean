import TxdbusModel.Proto.Framing
import TxdbusModel.Proto.FramesSpec
/-
Lemmas about the binary branch: the header computation of the code equals the spec's `msgLen`, it
only looks at the first 16 bytes, `binLoop` of a concatenation, `binLoop` against `frames`.
-/
namespace Txdbus.Proto

open Txdbus.Gen.ProtoConst

/-! ### Table facts (break when the constants of protocol.py change) -/

theorem minHeader_eq : minHeader = 16 := by decide
theorem msgHdrLen_eq : msgHdrLen = 16 := by decide
theorem littleMarker_eq : littleMarker = 108 := by decide
theorem bodyLenSlice_eq : bodyLenSlice = (4, 8) := by decide
theorem harrLenSlice_eq : harrLenSlice = (12, 16) := by decide
theorem padModulus_eq : padModulus = 8 := by decide
theorem authDelimiter_eq : authDelimiter = [13, 10] := by decide
theorem remainderSlack_eq : remainderSlack = 1 := by decide

/-! ### The first 16 bytes -/

theorem exists_cons_of_succ_le {α : Type} {n : Nat} (l : List α) (h : n + 1 ≤ l.length) :
    ∃ a t, l = a :: t ∧ n ≤ t.length := by
  cases l with
  | nil => simp at h
  | cons a t => exact ⟨a, t, rfl, by simpa using h⟩

theorem exists_16 (l : Bytes) (h : 16 ≤ l.length) :
    ∃ b0 b1 b2 b3 b4 b5 b6 b7 b8 b9 b10 b11 b12 b13 b14 b15 t,
      l = b0 :: b1 :: b2 :: b3 :: b4 :: b5 :: b6 :: b7 :: b8 :: b9 :: b10 :: b11 :: b12 :: b13 :: b14
            :: b15 :: t := by
  obtain ⟨b0, l0, rfl, h0⟩ := exists_cons_of_succ_le l h
  obtain ⟨b1, l1, rfl, h1⟩ := exists_cons_of_succ_le l0 h0
  obtain ⟨b2, l2, rfl, h2⟩ := exists_cons_of_succ_le l1 h1
  obtain ⟨b3, l3, rfl, h3⟩ := exists_cons_of_succ_le l2 h2
  obtain ⟨b4, l4, rfl, h4⟩ := exists_cons_of_succ_le l3 h3
  obtain ⟨b5, l5, rfl, h5⟩ := exists_cons_of_succ_le l4 h4
  obtain ⟨b6, l6, rfl, h6⟩ := exists_cons_of_succ_le l5 h5
  obtain ⟨b7, l7, rfl, h7⟩ := exists_cons_of_succ_le l6 h6
  obtain ⟨b8, l8, rfl, h8⟩ := exists_cons_of_succ_le l7 h7
  obtain ⟨b9, l9, rfl, h9⟩ := exists_cons_of_succ_le l8 h8
  obtain ⟨b10, l10, rfl, h10⟩ := exists_cons_of_succ_le l9 h9
  obtain ⟨b11, l11, rfl, h11⟩ := exists_cons_of_succ_le l10 h10
  obtain ⟨b12, l12, rfl, h12⟩ := exists_cons_of_succ_le l11 h11
  obtain ⟨b13, l13, rfl, h13⟩ := exists_cons_of_succ_le l12 h12
  obtain ⟨b14, l14, rfl, h14⟩ := exists_cons_of_succ_le l13 h13
  obtain ⟨b15, l15, rfl, _⟩ := exists_cons_of_succ_le l14 h14
  exact ⟨b0, b1, b2, b3, b4, b5, b6, b7, b8, b9, b10, b11, b12, b13, b14, b15, l15, rfl⟩

/-- The code's header computation on a buffer of at least 16 bytes: the spec's length, and "big" iff
the first byte is not 'l'. -/
theorem computeLen_eq_spec (buf : Bytes) (h : 16 ≤ buf.length) :
    computeLen buf = (Spec.msgLen buf, decide (buf.head? ≠ some 108)) := by
  obtain ⟨b0, b1, b2, b3, b4, b5, b6, b7, b8, b9, b10, b11, b12, b13, b14, b15, t, rfl⟩ := exists_16 buf h
  by_cases hb : b0 = 108
  · subst hb
    simp [computeLen, Spec.msgLen, Spec.u32At, Spec.byteAt, Spec.pad8, slice, unpackU32,
      msgHdrLen_eq, littleMarker_eq, bodyLenSlice_eq, harrLenSlice_eq, padModulus_eq]
    split <;> omega
  · simp [computeLen, Spec.msgLen, Spec.u32At, Spec.byteAt, Spec.pad8, slice, unpackU32,
      msgHdrLen_eq, littleMarker_eq, bodyLenSlice_eq, harrLenSlice_eq, padModulus_eq, hb]
    split <;> omega

/-- The spec's length only depends on the first 16 bytes. -/
theorem msgLen_append (buf d : Bytes) (h : 16 ≤ buf.length) : Spec.msgLen (buf ++ d) = Spec.msgLen buf := by
  obtain ⟨b0, b1, b2, b3, b4, b5, b6, b7, b8, b9, b10, b11, b12, b13, b14, b15, t, rfl⟩ := exists_16 buf h
  simp [Spec.msgLen, Spec.u32At, Spec.byteAt]

theorem computeLen_append (buf d : Bytes) (h : 16 ≤ buf.length) : computeLen (buf ++ d) = computeLen buf := by
  rw [computeLen_eq_spec buf h, computeLen_eq_spec (buf ++ d) (by simp; omega), msgLen_append buf d h]
  obtain ⟨b0, t, rfl, _⟩ := exists_cons_of_succ_le (n := 15) buf h
  simp

theorem computeLen_fst_ge (buf : Bytes) (h : 16 ≤ buf.length) : 16 ≤ (computeLen buf).1 := by
  rw [computeLen_eq_spec buf h]; exact Spec.msgLen_ge buf

/-! ### The loop -/

theorem binLoop_unfold (buf : Bytes) (next : Nat) (big : Bool) : binLoop buf next big =
    if (refresh buf next big).1 = 0 ∨ geLen buf (refresh buf next big).1 = false then
      (⟨buf, (refresh buf next big).1, (refresh buf next big).2⟩, [])
    else
      ((binLoop (buf.drop (refresh buf next big).1) 0 (refresh buf next big).2).1,
        buf.take (refresh buf next big).1 :: (binLoop (buf.drop (refresh buf next big).1) 0 (refresh buf next big).2).2) := by
  rw [binLoop]
  split <;> rfl

theorem refresh_idem (X : Bytes) (n : Nat) (b : Bool) :
    refresh X (refresh X n b).1 (refresh X n b).2 = refresh X n b := by
  unfold refresh
  by_cases h : (n == 0 && geLen X minHeader) = true
  · simp only [h, if_true]
    by_cases h2 : ((computeLen X).1 == 0 && geLen X minHeader) = true
    · simp [h2]
    · simp [h2]
  · simp [h]

theorem binLoop_refresh (X : Bytes) (n : Nat) (b : Bool) :
    binLoop X (refresh X n b).1 (refresh X n b).2 = binLoop X n b := by
  rw [binLoop_unfold X n b, binLoop_unfold X (refresh X n b).1, refresh_idem]

/-- `refresh` on a longer buffer: the same, unless nothing was known and the short buffer had no header. -/
theorem refresh_append (buf d : Bytes) (next : Nat) (big : Bool)
    (h : next ≠ 0 ∨ 16 ≤ buf.length) : refresh (buf ++ d) next big = refresh buf next big := by
  unfold refresh
  by_cases hn : next = 0
  · subst hn
    have h16 : 16 ≤ buf.length := by cases h with
      | inl h => exact absurd rfl h
      | inr h => exact h
    have g1 : geLen buf minHeader = true := (geLen_iff _ _).2 (by rw [minHeader_eq]; exact h16)
    have g2 : geLen (buf ++ d) minHeader = true :=
      (geLen_iff _ _).2 (by rw [minHeader_eq]; simp; omega)
    simp [g1, g2, computeLen_append buf d h16]
  · simp [hn]

theorem refresh_short (buf : Bytes) (big : Bool) (h : buf.length < 16) : refresh buf 0 big = (0, big) := by
  unfold refresh
  have : geLen buf minHeader = false := by
    rw [geLen_eq, minHeader_eq]; simp; omega
  simp [this]

/-- The loop on a longer buffer = the loop on the buffer, then the loop on what it left plus the new
bytes.  No assumption on the state. -/
theorem binLoop_append (buf : Bytes) (next : Nat) (big : Bool) (d : Bytes) :
    binLoop (buf ++ d) next big =
      ((binLoop ((binLoop buf next big).1.buffer ++ d) (binLoop buf next big).1.nextMsgLen
          (binLoop buf next big).1.bigEndian).1,
       (binLoop buf next big).2 ++
        (binLoop ((binLoop buf next big).1.buffer ++ d) (binLoop buf next big).1.nextMsgLen
          (binLoop buf next big).1.bigEndian).2) := by
  fun_induction binLoop buf next big with
  | case1 buf next big c h =>
    show binLoop (buf ++ d) next big = ((binLoop (buf ++ d) c.1 c.2).1, [] ++ (binLoop (buf ++ d) c.1 c.2).2)
    simp only [List.nil_append]
    -- binLoop (buf ++ d) c.1 c.2 = binLoop (buf ++ d) next big
    by_cases hn : next = 0
    · subst hn
      by_cases h16 : 16 ≤ buf.length
      · have : refresh (buf ++ d) 0 big = c := refresh_append buf d 0 big (Or.inr h16)
        rw [← this, binLoop_refresh]
      · have : c = (0, big) := refresh_short buf big (by omega)
        rw [this]
    · have : c = (next, big) := by simp [c, refresh, hn]
      rw [this]
  | case2 buf next big c h r ih =>
    show binLoop (buf ++ d) next big =
      ((binLoop (r.1.buffer ++ d) r.1.nextMsgLen r.1.bigEndian).1,
       (List.take c.1 buf :: r.2) ++ (binLoop (r.1.buffer ++ d) r.1.nextMsgLen r.1.bigEndian).2)
    have h1 : c.1 ≠ 0 := fun e => h (Or.inl e)
    have h2 : geLen buf c.1 = true := by
      cases hg : geLen buf c.1 with
      | true => rfl
      | false => exact absurd (Or.inr hg) h
    have h3 : c.1 ≤ buf.length := (geLen_iff _ _).1 h2
    have hc : refresh (buf ++ d) next big = c := by
      apply refresh_append
      by_cases hn : next = 0
      · right
        subst hn
        by_cases h16 : 16 ≤ buf.length
        · exact h16
        · exfalso; apply h1
          have : c = (0, big) := refresh_short buf big (by omega)
          rw [this]
      · exact Or.inl hn
    rw [binLoop_unfold (buf ++ d) next big, hc]
    have h4 : ¬ (c.1 = 0 ∨ geLen (buf ++ d) c.1 = false) := by
      intro hh
      cases hh with
      | inl e => exact h1 e
      | inr e =>
        have : geLen (buf ++ d) c.1 = true := (geLen_iff _ _).2 (by simp; omega)
        rw [this] at e; cases e
    rw [if_neg h4]
    have hd : List.drop c.1 (buf ++ d) = List.drop c.1 buf ++ d := by
      rw [List.drop_append_of_le_length h3]
    have ht : List.take c.1 (buf ++ d) = List.take c.1 buf := by
      rw [List.take_append_of_le_length h3]
    rw [hd, ht, ih]
    simp [r]

/-! ### The loop against the spec -/

/-- What the cached length may be when the loop starts. -/
def BinPre (buf : Bytes) (next : Nat) : Prop := next = 0 ∨ (16 ≤ buf.length ∧ next = Spec.msgLen buf)

/-- What holds when the loop has stopped: nothing is known and fewer than 16 bytes are buffered, or the
cached length is that of the (incomplete) message at the front of the buffer. -/
def BinPost (r : BinState) : Prop :=
  (r.nextMsgLen = 0 ∧ r.buffer.length < 16) ∨
  (16 ≤ r.buffer.length ∧ r.nextMsgLen = Spec.msgLen r.buffer ∧ r.buffer.length < r.nextMsgLen)

theorem refresh_long (buf : Bytes) (next : Nat) (big : Bool) (h : BinPre buf next) (h16 : 16 ≤ buf.length) :
    (refresh buf next big).1 = Spec.msgLen buf := by
  unfold refresh
  have g1 : geLen buf minHeader = true := (geLen_iff _ _).2 (by rw [minHeader_eq]; exact h16)
  by_cases hn : next = 0
  · subst hn
    simp [g1, computeLen_eq_spec buf h16]
  · cases h with
    | inl h => exact absurd h hn
    | inr h =>
      have : ¬ ((next == 0 && geLen buf minHeader) = true) := by simp [hn]
      rw [if_neg this]; exact h.2

theorem refresh_short' (buf : Bytes) (next : Nat) (big : Bool) (h : BinPre buf next) (h16 : buf.length < 16) :
    refresh buf next big = (0, big) := by
  cases h with
  | inl h => subst h; exact refresh_short buf big h16
  | inr h => omega

theorem frames_unfold (s : Bytes) : Spec.frames s =
    if Spec.hasFrame s then
      (s.take (Spec.msgLen s) :: (Spec.frames (s.drop (Spec.msgLen s))).1, (Spec.frames (s.drop (Spec.msgLen s))).2)
    else ([], s) := by
  rw [Spec.frames]
  split <;> rfl

theorem binLoop_frames (buf : Bytes) (next : Nat) (big : Bool) (h : BinPre buf next) :
    (binLoop buf next big).2 = (Spec.frames buf).1 ∧
    (binLoop buf next big).1.buffer = (Spec.frames buf).2 ∧
    BinPost (binLoop buf next big).1 := by
  fun_induction binLoop buf next big with
  | case1 buf next big c hc =>
    show [] = (Spec.frames buf).1 ∧ buf = (Spec.frames buf).2 ∧ BinPost ⟨buf, c.1, c.2⟩
    by_cases h16 : 16 ≤ buf.length
    · have e : c.1 = Spec.msgLen buf := refresh_long buf next big h h16
      have hlt : buf.length < Spec.msgLen buf := by
        cases hc with
        | inl z => have := Spec.msgLen_ge buf; omega
        | inr g =>
          rw [geLen_eq, e] at g
          simpa using g
      have nf : ¬ Spec.hasFrame buf := fun hf => by have := hf.2; omega
      rw [frames_unfold, if_neg nf]
      refine ⟨rfl, rfl, Or.inr ⟨h16, e, ?_⟩⟩
      show buf.length < c.1
      omega
    · have e : c = (0, big) := refresh_short' buf next big h (by omega)
      have nf : ¬ Spec.hasFrame buf := fun hf => h16 hf.1
      rw [frames_unfold, if_neg nf]
      refine ⟨rfl, rfl, Or.inl ⟨?_, by show buf.length < 16; omega⟩⟩
      show c.1 = 0
      rw [e]
  | case2 buf next big c hc r ih =>
    show (List.take c.1 buf :: r.2) = (Spec.frames buf).1 ∧ r.1.buffer = (Spec.frames buf).2 ∧ BinPost r.1
    have h1 : c.1 ≠ 0 := fun e => hc (Or.inl e)
    have h2 : geLen buf c.1 = true := by
      cases hg : geLen buf c.1 with
      | true => rfl
      | false => exact absurd (Or.inr hg) hc
    have h3 : c.1 ≤ buf.length := (geLen_iff _ _).1 h2
    have h16 : 16 ≤ buf.length := by
      by_cases h16 : 16 ≤ buf.length
      · exact h16
      · exfalso; apply h1
        have e : c = (0, big) := refresh_short' buf next big h (by omega)
        rw [e]
    have e : c.1 = Spec.msgLen buf := refresh_long buf next big h h16
    have hf : Spec.hasFrame buf := ⟨h16, by omega⟩
    have ih' := ih (Or.inl rfl)
    rw [frames_unfold buf, if_pos hf, ← e]
    exact ⟨by rw [← ih'.1], ih'.2.1, ih'.2.2⟩
end Txdbus.Proto
