import TxdbusModel.Proto.Fds
import TxdbusModel.Proofs.Proto.Handoff
/-
Lemmas for C20: the marshaller's index assignment, framing of a prefix of a concatenation of
well-formed messages, delivery of a batch of messages against a queue that starts with their
descriptors.
-/
namespace Txdbus.Proto

/-! ### Sender -/

mutual
theorem marshalBV_spec : ∀ (v : BV) (oob : List Nat),
    marshalBV v oob = (List.range' oob.length (fdLeaves v).length, oob ++ fdLeaves v)
  | .fd d, oob => by simp [marshalBV, fdLeaves]
  | .plain, oob => by simp [marshalBV, fdLeaves]
  | .seq items, oob => by
    simp only [marshalBV, fdLeaves]
    exact marshalBVs_spec items oob
theorem marshalBVs_spec : ∀ (vs : List BV) (oob : List Nat),
    marshalBVs vs oob = (List.range' oob.length (fdLeavesL vs).length, oob ++ fdLeavesL vs)
  | [], oob => by simp [marshalBVs, fdLeavesL]
  | v :: vs, oob => by
    simp only [marshalBVs, fdLeavesL]
    rw [marshalBV_spec v oob, marshalBVs_spec vs (oob ++ fdLeaves v)]
    simp only [List.length_append, List.append_assoc, Prod.mk.injEq, and_true]
    rw [List.range'_append_1]
end


/-! ### Framing a prefix of a concatenation of well-formed messages -/

theorem frames_nil : Spec.frames [] = ([], []) := by
  rw [frames_unfold, if_neg (by intro hf; exact absurd hf.1 (by decide))]

theorem frames_prefix (ms : List Bytes) (hwf : ∀ m ∈ ms, Spec.WellFormed m) (x : Bytes)
    (hx : x <+: ms.flatten) :
    ∃ j, j ≤ ms.length ∧ (Spec.frames x).1 = ms.take j ∧ x = (ms.take j).flatten ++ (Spec.frames x).2 := by
  induction ms generalizing x with
  | nil =>
    have : x = [] := by simpa using hx
    subst this
    exact ⟨0, by simp, by simp [frames_nil], by simp [frames_nil]⟩
  | cons m ms ih =>
    have hm : Spec.WellFormed m := hwf m (by simp)
    have hx' : x <+: m ++ ms.flatten := by simpa using hx
    by_cases hlen : m.length ≤ x.length
    · have hmx : m <+: x := List.prefix_of_prefix_length_le (List.prefix_append m ms.flatten) hx' hlen
      obtain ⟨x', rfl⟩ := hmx
      have hx'' : x' <+: ms.flatten := (List.prefix_append_right_inj m).1 hx'
      obtain ⟨j, hj, h1, h2⟩ := ih (fun a ha => hwf a (by simp [ha])) x' hx''
      have hfr := frames_flatten_wellFormed [m] (by intro a ha; simp at ha; subst ha; exact hm) x'
      simp only [List.flatten_cons, List.flatten_nil, List.append_nil] at hfr
      refine ⟨j + 1, by simp; omega, ?_, ?_⟩
      · rw [hfr]; simp [h1]
      · rw [hfr]; simp only [List.take_succ_cons, List.flatten_cons, List.append_assoc]
        rw [← h2]
    · have hxm : x <+: m :=
        List.prefix_of_prefix_length_le hx' (List.prefix_append m ms.flatten) (by omega)
      obtain ⟨t, rfl⟩ := hxm
      have nf : ¬ Spec.hasFrame x := by
        intro hf
        have h1 := msgLen_append x t hf.1
        have h2 := hm.2
        have h3 := hf.2
        simp only [List.length_append] at h2 hlen
        omega
      refine ⟨0, by simp, ?_, ?_⟩
      · rw [frames_unfold, if_neg nf]; simp
      · rw [frames_unfold, if_neg nf]; simp

/-! ### Delivering a batch of messages -/

/-- The `unix_fds` header of a message sent with `n` descriptors: the count, or absent when there
are none (`_marshal` only adds the field `if oobFDs:`). -/
def DeclOK (d : Option Nat) (n : Nat) : Prop := d = some n ∨ (d = none ∧ n = 0)

/-- The deliveries expected for the messages `ms`, the queue holding their descriptors followed by
`early` (descriptors of messages that are not complete yet). -/
def deliveriesFrom : List Msg → List Nat → List Delivery
  | [], _ => []
  | m :: t, early =>
    ⟨m.raw, m.idx.map (fun j => m.fds[j]?), m.fds ++ ((t.map Msg.fds).flatten ++ early),
      (t.map Msg.fds).flatten ++ early⟩ :: deliveriesFrom t early

/-- A message agrees with the abstract parser and only refers to its own descriptors. -/
def MsgOK (info : Bytes → MsgInfo) (m : Msg) : Prop :=
  (info m.raw).indices = m.idx ∧ DeclOK (info m.raw).declared m.fds.length ∧ ∀ j ∈ m.idx, j < m.fds.length

theorem deliverAll_ok (info : Bytes → MsgInfo) (ms : List Msg) (h : ∀ m ∈ ms, MsgOK info m)
    (early : List Nat) :
    deliverAll info ((ms.map Msg.fds).flatten ++ early) (ms.map Msg.raw) = (early, deliveriesFrom ms early) := by
  induction ms with
  | nil => simp [deliverAll, deliveriesFrom]
  | cons m t ih =>
    have hm := h m (by simp)
    have ih' := ih (fun a ha => h a (by simp [ha]))
    simp only [List.map_cons, List.flatten_cons, List.append_assoc, deliverAll, deliveriesFrom]
    have hq : (deliver info (m.fds ++ ((t.map Msg.fds).flatten ++ early)) m.raw).1 =
        (t.map Msg.fds).flatten ++ early := by
      simp only [deliver]
      cases hm.2.1 with
      | inl hd => rw [hd]; simp
      | inr hd =>
        rw [hd.1]
        have : m.fds = [] := List.eq_nil_of_length_eq_zero hd.2
        simp [this]
    have hd : (deliver info (m.fds ++ ((t.map Msg.fds).flatten ++ early)) m.raw).2 =
        ⟨m.raw, m.idx.map (fun j => m.fds[j]?), m.fds ++ ((t.map Msg.fds).flatten ++ early),
          (t.map Msg.fds).flatten ++ early⟩ := by
      have hq' := hq
      simp only [deliver] at hq' ⊢
      rw [hq', hm.1]
      congr 1
      apply List.map_congr_left
      intro j hj
      exact List.getElem?_append_left (hm.2.2 j hj)
    rw [hq, hd, ih']

end Txdbus.Proto
