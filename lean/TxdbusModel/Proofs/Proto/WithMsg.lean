import TxdbusModel.Proofs.Proto.Frames
import TxdbusModel.Proto.Receive
import TxdbusModel.Proofs.Msg.Main
import TxdbusModel.Proofs.Msg.WithWire
/-
C04 composed with C03 (the seam "the frames of constructed messages are well-formed for framing and parse back
to the messages sent").  Everything about the layout and the parse comes from C03's theorems
(`Msg.Main.marshal_wellformed`, `Msg.Main.parse_marshal`, `Msg.parse_marshal_c01_gen`,
`Msg.parse_marshal_no_body_gen` - Proofs/Msg, imported read-only); nothing of it is re-proved here.  The tables
are a parameter `T` with `T.OK`, as in C03's Proofs; Properties/C04.lean instantiates `Gen.Message.tables`.
-/
namespace Txdbus.Proto
namespace WithMsg
open Txdbus.Proto.Receive

open Txdbus.Msg (Tables BodyCodec Call construct parseMessage wireCodec)

variable {β : Type}

/-! ### 1. The bridge: C03's layout is C04's `Spec.WellFormed` -/

/-- For every message the C03 model constructs and serialises (the premises of C03 `marshal_wellformed`,
nothing more), the raw bytes are well-formed for framing: at least 16 bytes, and the two length fields of
the fixed header announce exactly the length of the message. -/
theorem wellFormed_of_constructed_gen (T : Tables) (hT : T.OK) (C : BodyCodec β) (na : Char → Bool) (maxLen : Nat)
    (hmax : maxLen ≤ Msg.Spec.maxMessage) (st st' : Msg.St) (c : Call β) (m : Msg.Msg β)
    (hs : 1 ≤ st.nextSerial) (hsig : Msg.Main.SigNoNul c)
    (h : construct T C na maxLen st c = (st', .ok m)) :
    Spec.WellFormed m.raw := by
  obtain ⟨sm, _, hraw, hhdr, hpad, hfix, hal, hpl, _, hfixed, _, hbl, hal32, _⟩ :=
    Msg.Main.marshal_wellformed T hT C na maxLen hmax st st' c m hs hsig h
  have hal' : (16 + (Msg.Spec.fieldArray sm).length + (Msg.Spec.headerPad sm).length) % 8 = 0 := by
    rw [hhdr, hpad] at hal
    simp only [List.length_append, hfix] at hal
    exact hal
  rw [hpad] at hpl
  rw [hraw, hfixed]
  exact wellFormed_of_layout _ _ m.serial (Msg.Spec.fieldArray sm) (Msg.Spec.headerPad sm) m.rawBody hpl hal' hbl hal32

/-! ### 2. What "sent" means, per message -/

/-- The premises of C03 `marshal_wellformed` and `parse_marshal` for one sent message `x`: some constructor
call `c`, made when the counter stood at some `st.nextSerial ≥ 1`, with a NUL-free `signature` argument,
returned `x.msg`; and the body codec round-trips this body (`hC` of `parse_marshal`, with the receiver's
descriptor list `x.fds` and the decoded value `x.decoded`). -/
def SentOK (T : Tables) (C : BodyCodec β) (na : Char → Bool) (maxLen : Nat) (x : Sent β) : Prop :=
  ∃ (st st' : Msg.St) (c : Call β), 1 ≤ st.nextSerial ∧ Msg.Main.SigNoNul c ∧
    construct T C na maxLen st c = (st', .ok x.msg) ∧
    (∀ sg, x.msg.attrs .signature = .str .plain sg → sg ≠ [] →
      ∃ bytes fds', C.marshal sg x.msg.body c.oob = .ok (bytes, fds') ∧
        C.unmarshal sg bytes true x.fds = .ok x.decoded)

/-- The premises of C03 `parse_marshal_c01` (body codec = C01's code model `wireCodec fuel`; any of the four
constructors, `oobFDs=None` or `[]`, non-empty signature `renderAll ts`, body in C01's domain, receiver's
descriptor list = the collected list `fdl`, decoded body = C01's normal form `Code.plainList items`) or of
`parse_marshal_no_body` (no signature or the empty one: nothing is asked of the codec; `x.fds`, `x.decoded`
are arbitrary) for one sent message.  No hypothesis about the codec is left. -/
def SentC01 (T : Tables) (na : Char → Bool) (maxLen : Nat) (fuel : Nat) (x : Sent PyVal) : Prop :=
  ∃ (st st' : Msg.St) (c : Call PyVal), 1 ≤ st.nextSerial ∧
    construct T (wireCodec fuel) na maxLen st c = (st', .ok x.msg) ∧
    ((c.signature = none ∨ c.signature = some []) ∨
     ∃ (ts : List Ty) (pv : PyVal) (items : List PyVal) (vs : List Val) (fdl : List PyVal) (bs : Bytes),
       x.fds = some fdl ∧ x.decoded = .list (Code.plainList items) ∧
       c.signature = some (renderAll ts) ∧ renderAll ts ≠ [] ∧ c.body = some pv ∧
       (c.oob = none ∨ c.oob = some []) ∧ allWF ts = true ∧ Code.topItems pv = .ok items ∧
       Code.RepFields fdl vs c.oob.isSome ts items 0 (if c.oob.isSome then fdl.length else 0) ∧
       Code.KeysOKList items ∧
       Txdbus.Spec.encodeAll Code.genAlign (Txdbus.endianOf true) ts vs 0 = some bs ∧ depthAll vs ≤ fuel)

/-- The receiver's `parseMessage` on the frame of `x` returns a message whose observable content is the
expected one. -/
def ParsesTo (T : Tables) (C : BodyCodec β) (x : Sent β) : Prop :=
  ∃ m' : Msg.Msg β, parseMessage T C x.msg.raw x.fds = .ok m' ∧ m'.view T = x.expected T

theorem plain_plain (v : PyVal) : Msg.plain (Msg.plain v) = Msg.plain v := by
  cases v <;> rfl

/-- The conclusion of C03's parse theorems, as an equality of views. -/
theorem view_eq_expected (T : Tables) (x : Sent β) (m' : Msg.Msg β)
    (h1 : m'.cls = x.msg.cls) (h2 : m'.serial = x.msg.serial) (h3 : m'.expectReply = x.msg.expectReply)
    (h4 : m'.autoStart = x.msg.autoStart) (h5 : ∀ a, m'.attrs a = Msg.plain (x.msg.attrs a))
    (h6 : m'.body = (if Msg.truthy (x.msg.attrs .signature) then some x.decoded else none)) :
    m'.view T = x.expected T := by
  simp only [Msg.Msg.view, Sent.expected, h1, h2, h3, h4, h6]
  congr 1
  funext a
  rw [h5 a, plain_plain]

theorem parsesTo_of_sentOK (T : Tables) (hT : T.OK) (C : BodyCodec β) (na : Char → Bool) (maxLen : Nat)
    (x : Sent β) (h : SentOK T C na maxLen x) : ParsesTo T C x := by
  obtain ⟨st, st', c, hs, hsig, hc, hC⟩ := h
  obtain ⟨m', p1, p2, p3, p4, p5, p6, p7, _⟩ :=
    Msg.Main.parse_marshal T hT C na maxLen st st' c x.msg hs hsig hc x.fds x.decoded hC
  exact ⟨m', p1, view_eq_expected T x m' p2 p3 p4 p5 p6 p7⟩

theorem sigNoNul_of_sentC01 {c : Call PyVal}
    (h : (c.signature = none ∨ c.signature = some []) ∨ ∃ ts : List Ty, c.signature = some (renderAll ts)) :
    Msg.Main.SigNoNul c := by
  intro sg hsg
  rcases h with (h0 | h0) | ⟨ts, h0⟩ <;> rw [h0] at hsg
  · cases hsg
  · simp only [Option.some.injEq] at hsg; subst hsg; rfl
  · simp only [Option.some.injEq] at hsg; subst hsg; exact Msg.render_noNul ts

theorem parsesTo_of_sentC01 (T : Tables) (hT : T.OK) (na : Char → Bool) (maxLen : Nat) (fuel : Nat)
    (x : Sent PyVal) (h : SentC01 T na maxLen fuel x) : ParsesTo T (wireCodec fuel) x := by
  obtain ⟨st, st', c, hs, hc, hcase⟩ := h
  obtain ⟨sm, hb⟩ := Msg.construct_ok T hT (wireCodec fuel) na maxLen st st' c x.msg hc
  have hsigattr : x.msg.attrs .signature = Msg.strAttr c.signature := by
    rw [hb.attrs .signature (by decide), Msg.Main.pre_signature]
  rcases hcase with hno | ⟨ts, pv, items, vs, fdl, bs, hfds, hdec, hsig, hne, hbody, hoob, hts, hitems, hrep, hkeys,
    henc, hfuel⟩
  · obtain ⟨m', p1, p2, p3, p4, p5, p6, p7, _⟩ :=
      Msg.parse_marshal_no_body_gen T hT na maxLen st st' c x.msg hs fuel x.fds hno hc
    have hfalsy : Msg.truthy (x.msg.attrs .signature) = false := by
      rw [hsigattr]; rcases hno with h0 | h0 <;> rw [h0] <;> rfl
    refine ⟨m', p1, view_eq_expected T x m' p2 p3 p4 p5 p6 ?_⟩
    rw [hfalsy, p7]; rfl
  · obtain ⟨m', p1, p2, p3, p4, p5, p6, p7, _⟩ :=
      Msg.parse_marshal_c01_gen T hT na maxLen st st' c x.msg hs ts pv items vs fdl bs fuel hsig hne hbody hoob hts
        hitems hrep hkeys henc hfuel hc
    have htr : Msg.truthy (x.msg.attrs .signature) = true := by
      rw [hsigattr, hsig]
      cases hr : renderAll ts with
      | nil => exact absurd hr hne
      | cons ch cs => simp [Msg.strAttr, Msg.truthy]
    refine ⟨m', by rw [hfds]; exact p1, view_eq_expected T x m' p2 p3 p4 p5 p6 ?_⟩
    rw [htr, if_pos rfl, p7, hdec]

theorem wellFormed_of_sentOK (T : Tables) (hT : T.OK) (C : BodyCodec β) (na : Char → Bool) (maxLen : Nat)
    (hmax : maxLen ≤ Msg.Spec.maxMessage) (x : Sent β) (h : SentOK T C na maxLen x) : Spec.WellFormed x.msg.raw := by
  obtain ⟨st, st', c, hs, hsig, hc, _⟩ := h
  exact wellFormed_of_constructed_gen T hT C na maxLen hmax st st' c x.msg hs hsig hc

theorem wellFormed_of_sentC01 (T : Tables) (hT : T.OK) (na : Char → Bool) (maxLen : Nat)
    (hmax : maxLen ≤ Msg.Spec.maxMessage) (fuel : Nat) (x : Sent PyVal) (h : SentC01 T na maxLen fuel x) :
    Spec.WellFormed x.msg.raw := by
  obtain ⟨st, st', c, hs, hc, hcase⟩ := h
  refine wellFormed_of_constructed_gen T hT (wireCodec fuel) na maxLen hmax st st' c x.msg hs ?_ hc
  apply sigNoNul_of_sentC01
  rcases hcase with hno | ⟨ts, _, _, _, _, _, _, _, hsig, _⟩
  · exact Or.inl hno
  · exact Or.inr ⟨ts, hsig⟩

/-! ### 3. From the delivered frames to the parsed messages -/

/-- The frames of the sent messages, each parsed with its descriptor list, are the expected contents, in order. -/
theorem parseFrames_sent (T : Tables) (C : BodyCodec β) (xs : List (Sent β)) (h : ∀ x ∈ xs, ParsesTo T C x) :
    (parseFrames T C (xs.map (·.msg.raw)) (xs.map (·.fds))).map (Except.map (Msg.Msg.view T))
      = xs.map (fun x => .ok (x.expected T)) := by
  induction xs with
  | nil => rfl
  | cons x t ih =>
    obtain ⟨m', hp, hv⟩ := h x (by simp)
    have iht := ih (fun y hy => h y (by simp [hy]))
    simp only [parseFrames] at iht
    simp only [parseFrames, List.map_cons, List.zipWith_cons_cons, hp, iht, Except.map, hv]

/-- The same with one descriptor list for all deliveries (`parseFramesConst`). -/
theorem parseFramesConst_sent (T : Tables) (C : BodyCodec β) (xs : List (Sent β)) (fds : Option (List PyVal))
    (hf : ∀ x ∈ xs, x.fds = fds) (h : ∀ x ∈ xs, ParsesTo T C x) :
    (parseFramesConst T C (xs.map (·.msg.raw)) fds).map (Except.map (Msg.Msg.view T))
      = xs.map (fun x => .ok (x.expected T)) := by
  induction xs with
  | nil => rfl
  | cons x t ih =>
    obtain ⟨m', hp, hv⟩ := h x (by simp)
    have hx := hf x (by simp)
    rw [hx] at hp
    have iht := ih (fun y hy => hf y (by simp [hy])) (fun y hy => h y (by simp [hy]))
    simp only [parseFramesConst] at iht
    simp only [parseFramesConst, List.map_cons, hp, iht, Except.map, hv]

theorem msgsOf_map_msg (ms : List Bytes) : msgsOf (ms.map Effect.msg) = ms := by
  induction ms with
  | nil => rfl
  | cons m t ih => simp only [List.map_cons, msgsOf, ih]

/-- A construction that evaluates to a message gives the `(st', .ok m)` shape the theorems ask for (used by the
concrete instances in Properties/C04.lean). -/
theorem construct_shape {T : Tables} {C : BodyCodec β} {na : Char → Bool} {maxLen : Nat} {st : Msg.St} {c : Call β}
    (hok : (construct T C na maxLen st c).2.toOption.isSome = true) :
    ∃ st' m, construct T C na maxLen st c = (st', .ok m) := by
  cases hr : construct T C na maxLen st c with
  | mk st' r =>
    cases r with
    | error e => rw [hr] at hok; cases hok
    | ok m => exact ⟨st', m, rfl⟩

/-! ## Additions after review 3: dispatch + descriptor list + raw parts (`recvRun`), constructor arguments -/

theorem msgsOf_append (a b : List Effect) : msgsOf (a ++ b) = msgsOf a ++ msgsOf b := by
  induction a with
  | nil => rfl
  | cons e t ih => cases e <;> simp [msgsOf, ih]

/-- One delivery as `recvRun` records it when `_receivedFDs = fds`. -/
def callOf (T : Tables) (C : BodyCodec β) (fds : List PyVal) (raw : Bytes) :
    Except PyErr (Option Hook × Msg.Msg β) :=
  (handleFrame T C fds raw).map (fun r => (r.1, r.2.1))

/-- `rawDBusMessageReceived` on this frame returns normally and leaves `_receivedFDs` as it was. -/
def Quiet (T : Tables) (C : BodyCodec β) (fds : List PyVal) (raw : Bytes) : Prop :=
  ∃ h m', handleFrame T C fds raw = .ok (h, m', fds)

/-- Over effects all of whose frames are handled quietly, the deliveries of one read are the effects themselves. -/
theorem deliverEffects_quiet (T : Tables) (C : BodyCodec β) (fds : List PyVal) (effs : List Effect)
    (h : ∀ raw ∈ msgsOf effs, Quiet T C fds raw) :
    deliverEffects T C fds effs = ⟨effs, (msgsOf effs).map (callOf T C fds), fds, none⟩ := by
  induction effs with
  | nil => rfl
  | cons e t ih =>
    cases e with
    | msg raw =>
      obtain ⟨hk, m', hq⟩ := h raw (by simp [msgsOf])
      have iht := ih (fun r hr => h r (by simp [msgsOf, hr]))
      simp only [deliverEffects, hq, iht, msgsOf, List.map_cons, callOf, Except.map]
    | line l =>
      have iht := ih (fun r hr => h r (by simpa [msgsOf] using hr))
      simp only [deliverEffects, iht, msgsOf]
    | lose =>
      have iht := ih (fun r hr => h r (by simpa [msgsOf] using hr))
      simp only [deliverEffects, iht, msgsOf]
    | crash =>
      have iht := ih (fun r hr => h r (by simpa [msgsOf] using hr))
      simp only [deliverEffects, iht, msgsOf]

/-- When every frame the framing delivers is handled quietly, `recvRun` is `run` followed by `callOf` on the
delivered frames (no exception, `_receivedFDs` unchanged). -/
theorem recvRun_quiet {α : Type} (T : Tables) (C : BodyCodec β) (A : Auth α) (fds : List PyVal) (reads : List Bytes) :
    ∀ (s : St α), (∀ raw ∈ msgsOf (run A s reads).2, Quiet T C fds raw) →
    recvRun T C A s fds reads = ((run A s reads).1, (run A s reads).2,
      (msgsOf (run A s reads).2).map (callOf T C fds), fds) := by
  induction reads with
  | nil => intro s _; rfl
  | cons d ds ih =>
    intro s h
    have hrun : run A s (d :: ds) =
        ((run A (step A s d).1 ds).1, (step A s d).2 ++ (run A (step A s d).1 ds).2) := rfl
    rw [hrun] at h ⊢
    simp only [msgsOf_append, List.mem_append] at h
    have h1 := deliverEffects_quiet T C fds (step A s d).2 (fun r hr => h r (Or.inl hr))
    have h2 := ih (step A s d).1 (fun r hr => h r (Or.inr hr))
    simp only [recvRun, h1, h2, msgsOf_append, List.map_append]

/-- `rawDBusMessageReceived` on the frame of `x`, with `_receivedFDs = fds`, calls the hook of the class of `x`
with a message whose complete observation is the expected one, and leaves `_receivedFDs` as it was. -/
def HandsOver (T : Tables) (C : BodyCodec β) (fds : List PyVal) (x : Sent β) : Prop :=
  ∃ m' : Msg.Msg β, handleFrame T C fds x.msg.raw = .ok (some (Hook.ofClass x.msg.cls), m', fds) ∧
    handedOf T (some (Hook.ofClass x.msg.cls), m') = x.handed T

theorem handsOver_of_parse (T : Tables) (hdisp : ∀ cls, hookOfType (T.messageType cls) = some (Hook.ofClass cls))
    (C : BodyCodec β) (fds : List PyVal) (x : Sent β) (m' : Msg.Msg β)
    (hnofd : x.msg.attrs .unixFds = .none)
    (hp : parseMessage T C x.msg.raw (some fds) = .ok m')
    (h1 : m'.cls = x.msg.cls) (h5 : ∀ a, m'.attrs a = Msg.plain (x.msg.attrs a))
    (hv : m'.view T = x.expected T) (hof : m'.otherFlags = 0)
    (hh : m'.rawHeader = x.msg.rawHeader) (hpd : m'.rawPadding = x.msg.rawPadding)
    (hb : m'.rawBody = x.msg.rawBody) : HandsOver T C fds x := by
  have hu : m'.attrs .unixFds = .none := by rw [h5, hnofd]; rfl
  refine ⟨m', ?_, ?_⟩
  · simp only [handleFrame, hp, hu, fdsAfter, h1, hdisp]
  · simp only [handedOf, Sent.handed, hv, hof, hh, hpd, hb]

theorem handsOver_of_sentOK (T : Tables) (hT : T.OK)
    (hdisp : ∀ cls, hookOfType (T.messageType cls) = some (Hook.ofClass cls))
    (C : BodyCodec β) (na : Char → Bool) (maxLen : Nat) (fds : List PyVal)
    (x : Sent β) (h : SentOK T C na maxLen x) (hfds : x.fds = some fds) (hnofd : x.msg.attrs .unixFds = .none) :
    HandsOver T C fds x := by
  obtain ⟨st, st', c, hs, hsig, hc, hC⟩ := h
  obtain ⟨m', p1, p2, p3, p4, p5, p6, p7, p8, p9, p10, p11, _⟩ :=
    Msg.Main.parse_marshal T hT C na maxLen st st' c x.msg hs hsig hc x.fds x.decoded hC
  rw [hfds] at p1
  exact handsOver_of_parse T hdisp C fds x m' hnofd p1 p2 p6 (view_eq_expected T x m' p2 p3 p4 p5 p6 p7) p11 p8 p9 p10

/-- The no-body case of `SentC01` is an instance of `SentOK` (the codec hypothesis is vacuous). -/
theorem sentOK_of_noBody (T : Tables) (hT : T.OK) (C : BodyCodec β) (na : Char → Bool) (maxLen : Nat) (x : Sent β)
    (st st' : Msg.St) (c : Call β) (hs : 1 ≤ st.nextSerial) (hc : construct T C na maxLen st c = (st', .ok x.msg))
    (hno : c.signature = none ∨ c.signature = some []) : SentOK T C na maxLen x := by
  obtain ⟨sm, hb⟩ := Msg.construct_ok T hT C na maxLen st st' c x.msg hc
  have hsigattr : x.msg.attrs .signature = Msg.strAttr c.signature := by
    rw [hb.attrs .signature (by decide), Msg.Main.pre_signature]
  refine ⟨st, st', c, hs, ?_, hc, ?_⟩
  · intro sg hsg
    rcases hno with h0 | h0 <;> rw [h0] at hsg
    · cases hsg
    · simp only [Option.some.injEq] at hsg; subst hsg; rfl
  · intro sg hsg hne
    rw [hsigattr] at hsg
    rcases hno with h0 | h0 <;> rw [h0] at hsg
    · cases hsg
    · simp only [Msg.strAttr, PyVal.str.injEq, true_and] at hsg; exact absurd hsg.symm hne

theorem handsOver_of_sentC01 (T : Tables) (hT : T.OK)
    (hdisp : ∀ cls, hookOfType (T.messageType cls) = some (Hook.ofClass cls))
    (na : Char → Bool) (maxLen : Nat) (fuel : Nat) (fds : List PyVal)
    (x : Sent PyVal) (h : SentC01 T na maxLen fuel x) (hfds : x.fds = some fds)
    (hnofd : x.msg.attrs .unixFds = .none) : HandsOver T (wireCodec fuel) fds x := by
  obtain ⟨st, st', c, hs, hc, hcase⟩ := h
  rcases hcase with hno | ⟨ts, pv, items, vs, fdl, bs, hfdl, hdec, hsig, hne, hbody, hoob, hts, hitems, hrep, hkeys,
    henc, hfuel⟩
  · exact handsOver_of_sentOK T hT hdisp (wireCodec fuel) na maxLen fds x
      (sentOK_of_noBody T hT (wireCodec fuel) na maxLen x st st' c hs hc hno) hfds hnofd
  · obtain ⟨sm, hb⟩ := Msg.construct_ok T hT (wireCodec fuel) na maxLen st st' c x.msg hc
    have hsigattr : x.msg.attrs .signature = Msg.strAttr c.signature := by
      rw [hb.attrs .signature (by decide), Msg.Main.pre_signature]
    obtain ⟨m', p1, p2, p3, p4, p5, p6, p7, p8, p9, _, p11, p12, p13, _⟩ :=
      Msg.parse_marshal_c01_gen T hT na maxLen st st' c x.msg hs ts pv items vs fdl bs fuel hsig hne hbody hoob hts
        hitems hrep hkeys henc hfuel hc
    have htr : Msg.truthy (x.msg.attrs .signature) = true := by
      rw [hsigattr, hsig]
      cases hr : renderAll ts with
      | nil => exact absurd hr hne
      | cons ch cs => simp [Msg.strAttr, Msg.truthy]
    have hfd : fdl = fds := by rw [hfdl] at hfds; exact Option.some.inj hfds
    rw [hfd] at p1
    refine handsOver_of_parse T hdisp (wireCodec fuel) fds x m' hnofd p1 p2 p6
      (view_eq_expected T x m' p2 p3 p4 p5 p6 ?_) p13 p11 p12 (by rw [p8, p9])
    rw [htr, if_pos rfl, p7, hdec]

/-- The frames of the sent messages, handled one after the other with `_receivedFDs = fds`: every one reaches the
hook of its class with the expected observation. -/
theorem calls_sent (T : Tables) (C : BodyCodec β) (fds : List PyVal) (xs : List (Sent β))
    (h : ∀ x ∈ xs, HandsOver T C fds x) :
    ((xs.map (·.msg.raw)).map (callOf T C fds)).map (Except.map (handedOf T))
      = xs.map (fun x => .ok (x.handed T)) := by
  induction xs with
  | nil => rfl
  | cons x t ih =>
    obtain ⟨m', hq, hv⟩ := h x (by simp)
    have iht := ih (fun y hy => h y (by simp [hy]))
    simp only [List.map_cons, callOf, hq, Except.map, hv, iht]

theorem quiet_of_handsOver (T : Tables) (C : BodyCodec β) (fds : List PyVal) (x : Sent β) (h : HandsOver T C fds x) :
    Quiet T C fds x.msg.raw := by
  obtain ⟨m', hq, _⟩ := h
  exact ⟨_, m', hq⟩

/-! ### The expected content, from the constructor arguments -/

theorem body_of_strAttr {γ : Type} (o : Option (List Char)) (d : γ) :
    (if Msg.truthy (Msg.strAttr o) then some d else none) =
      (match Msg.strAttr o with
       | .str _ (_ :: _) => some d
       | _ => none) := by
  cases o with
  | none => rfl
  | some s => cases s <;> rfl

/-- C03 `constructed_from_arguments` composed: the expected content of a sent message (view of the constructed
object) IS the content stated from the arguments of the constructor call that built it. -/
theorem expected_eq_expectedView (T : Tables) (hT : T.OK)
    (htypes : T.messageType .methodCall = 1 ∧ T.messageType .methodReturn = 2 ∧ T.messageType .error = 3 ∧
      T.messageType .signal = 4)
    (C : BodyCodec β) (na : Char → Bool) (maxLen : Nat) (y : SentCall β) (st' : Msg.St)
    (hc : construct T C na maxLen ⟨y.counter⟩ y.call = (st', .ok y.sent.msg)) :
    y.sent.expected T = y.expectedView := by
  obtain ⟨sm, hb⟩ := Msg.construct_ok T hT C na maxLen ⟨y.counter⟩ st' y.call y.sent.msg hc
  obtain ⟨f1, f2, f3, f4, _, _⟩ := Msg.Main.constructed_from_arguments T hT C na maxLen ⟨y.counter⟩ st' y.call y.sent.msg hc
  obtain ⟨t1, t2, t3, t4⟩ := htypes
  have hser : y.sent.msg.serial = y.counter := hb.serial
  cases hcall : y.call with
  | methodCall a =>
    obtain ⟨c1, c2, c3, c4, c5, c6, c7, c8, c9, c10, c11⟩ := f1 a hcall
    simp only [Sent.expected, SentCall.expectedView, Msg.Msg.view, hcall, callType, callFlags, c1, c2, c3, t1, hser, c8]
    congr 1
    · funext x; cases x <;> simp [callAttr, c4, c5, c6, c7, c8, c9, c10, c11, Msg.plain]
    · exact body_of_strAttr a.signature _
  | methodReturn a =>
    obtain ⟨c1, c2, c3, c4, c5, c6, c7, c8, c9, c10, c11⟩ := f2 a hcall
    simp only [Sent.expected, SentCall.expectedView, Msg.Msg.view, hcall, callType, callFlags, c1, c2, c3, t2, hser, c6]
    congr 1
    · funext x; cases x <;> simp [callAttr, c4, c5, c6, c7, c8, c9, c10, c11, Msg.plain]
    · exact body_of_strAttr a.signature _
  | error a =>
    obtain ⟨c1, c2, c3, c4, c5, c6, c7, c8, c9, c10, c11⟩ := f3 a hcall
    simp only [Sent.expected, SentCall.expectedView, Msg.Msg.view, hcall, callType, callFlags, c1, c2, c3, t3, hser, c7]
    congr 1
    · funext x; cases x <;> simp [callAttr, c4, c5, c6, c7, c8, c9, c10, c11, Msg.plain]
    · exact body_of_strAttr a.signature _
  | signal a =>
    obtain ⟨c1, c2, c3, c4, c5, c6, c7, c8, c9, c10, c11⟩ := f4 a hcall
    simp only [Sent.expected, SentCall.expectedView, Msg.Msg.view, hcall, callType, callFlags, c1, c2, c3, t4, hser, c8]
    congr 1
    · funext x; cases x <;> simp [callAttr, c4, c5, c6, c7, c8, c9, c10, c11, Msg.plain]
    · exact body_of_strAttr a.signature _

/-- The premises of `parse_marshal_c01` / `parse_marshal_no_body` for the constructor call `y.call` made when the
counter stood at `y.counter`: `SentC01` with the call and the counter exposed. -/
def SentCallC01 (T : Tables) (na : Char → Bool) (maxLen : Nat) (fuel : Nat) (y : SentCall PyVal) : Prop :=
  ∃ (st' : Msg.St), 1 ≤ y.counter ∧
    construct T (wireCodec fuel) na maxLen ⟨y.counter⟩ y.call = (st', .ok y.sent.msg) ∧
    ((y.call.signature = none ∨ y.call.signature = some []) ∨
     ∃ (ts : List Ty) (pv : PyVal) (items : List PyVal) (vs : List Val) (fdl : List PyVal) (bs : Bytes),
       y.sent.fds = some fdl ∧ y.sent.decoded = .list (Code.plainList items) ∧
       y.call.signature = some (renderAll ts) ∧ renderAll ts ≠ [] ∧ y.call.body = some pv ∧
       (y.call.oob = none ∨ y.call.oob = some []) ∧ allWF ts = true ∧ Code.topItems pv = .ok items ∧
       Code.RepFields fdl vs y.call.oob.isSome ts items 0 (if y.call.oob.isSome then fdl.length else 0) ∧
       Code.KeysOKList items ∧
       Txdbus.Spec.encodeAll Code.genAlign (Txdbus.endianOf true) ts vs 0 = some bs ∧ depthAll vs ≤ fuel)

theorem sentC01_of_sentCallC01 (T : Tables) (na : Char → Bool) (maxLen : Nat) (fuel : Nat) (y : SentCall PyVal)
    (h : SentCallC01 T na maxLen fuel y) : SentC01 T na maxLen fuel y.sent := by
  obtain ⟨st', hs, hc, hcase⟩ := h
  exact ⟨⟨y.counter⟩, st', y.call, hs, hc, hcase⟩

/-- ... and the complete expected observation (hook included) is the one stated from the call. -/
theorem handed_eq_of_call (T : Tables) (hT : T.OK)
    (htypes : T.messageType .methodCall = 1 ∧ T.messageType .methodReturn = 2 ∧ T.messageType .error = 3 ∧
      T.messageType .signal = 4)
    (C : BodyCodec β) (na : Char → Bool) (maxLen : Nat) (y : SentCall β) (st' : Msg.St)
    (hc : construct T C na maxLen ⟨y.counter⟩ y.call = (st', .ok y.sent.msg)) :
    y.sent.handed T = y.handed := by
  have hv := expected_eq_expectedView T hT htypes C na maxLen y st' hc
  obtain ⟨f1, f2, f3, f4, _, _⟩ := Msg.Main.constructed_from_arguments T hT C na maxLen ⟨y.counter⟩ st' y.call y.sent.msg hc
  have hk : Hook.ofClass y.sent.msg.cls = callHook y.call := by
    cases hcall : y.call with
    | methodCall a => rw [(f1 a hcall).1]; rfl
    | methodReturn a => rw [(f2 a hcall).1]; rfl
    | error a => rw [(f3 a hcall).1]; rfl
    | signal a => rw [(f4 a hcall).1]; rfl
  simp only [Sent.handed, SentCall.handed, hv, hk]

/-- `recvRun` over reads whose delivered frames are those of `xs`, each handed over quietly: state and effects
are those of `run`, `_receivedFDs` is unchanged, and the hook calls are the expected ones, in order. -/
theorem recvRun_sent {α : Type} (T : Tables) (C : BodyCodec β) (A : Auth α) (fds : List PyVal) (s : St α)
    (reads : List Bytes) (xs : List (Sent β)) (hm : msgsOf (run A s reads).2 = xs.map (·.msg.raw))
    (h : ∀ x ∈ xs, HandsOver T C fds x) :
    (recvRun T C A s fds reads).1 = (run A s reads).1 ∧
    (recvRun T C A s fds reads).2.1 = (run A s reads).2 ∧
    (recvRun T C A s fds reads).2.2.1.map (Except.map (handedOf T)) = xs.map (fun x => .ok (x.handed T)) ∧
    (recvRun T C A s fds reads).2.2.2 = fds := by
  have hq : ∀ raw ∈ msgsOf (run A s reads).2, Quiet T C fds raw := by
    intro raw hr
    rw [hm] at hr
    obtain ⟨x, hx, rfl⟩ := List.mem_map.1 hr
    exact quiet_of_handsOver T C fds x (h x hx)
  rw [recvRun_quiet T C A fds reads s hq]
  refine ⟨rfl, rfl, ?_, rfl⟩
  show ((msgsOf (run A s reads).2).map (callOf T C fds)).map _ = _
  rw [hm]
  exact calls_sent T C fds xs h

end WithMsg
end Txdbus.Proto