import TxdbusModel.Proofs.Proto.FdsLemmas
/-
The receiver against the environment: invariant over the event sequence.
-/
namespace Txdbus.Proto

variable {α : Type}

/-- A 16-byte message (little endian, no header fields, no body), for examples. -/
def tinyMsg16 : Bytes := [108, 2, 0, 1, 0, 0, 0, 0, 1, 0, 0, 0, 0, 0, 0, 0]

/-- `ds` are the deliveries of the first messages of `ms`, in order: each carries the bytes of its
message, every `h` argument resolved to the descriptor sent at that position with THIS message, the
queue at that moment was the message's own descriptors followed by early arrivals of later messages,
and exactly the message's own descriptors were removed. -/
def GoodFrom : List Msg → List Delivery → Prop
  | _, [] => True
  | [], _ :: _ => False
  | m :: t, d :: ds =>
    d.raw = m.raw ∧ d.args = m.idx.map (fun j => m.fds[j]?) ∧
    (∃ early, d.queueBefore = m.fds ++ early ∧ d.queueAfter = early ∧ early <+: (t.map Msg.fds).flatten) ∧
    GoodFrom t ds

theorem goodFrom_deliveriesFrom (ms1 ms2 : List Msg) (early : List Nat)
    (h : early <+: (ms2.map Msg.fds).flatten) : GoodFrom (ms1 ++ ms2) (deliveriesFrom ms1 early) := by
  induction ms1 with
  | nil => simp [deliveriesFrom, GoodFrom]
  | cons m t ih =>
    simp only [List.cons_append, deliveriesFrom, GoodFrom]
    refine ⟨trivial, trivial, ⟨_, rfl, rfl, ?_⟩, ih⟩
    simp only [List.map_append, List.flatten_append]
    exact (List.prefix_append_right_inj _).2 h

theorem goodFrom_append (ms : List Msg) (ds1 ds2 : List Delivery) (h1 : GoodFrom ms ds1)
    (h2 : GoodFrom (ms.drop ds1.length) ds2) : GoodFrom ms (ds1 ++ ds2) := by
  induction ds1 generalizing ms with
  | nil => simpa using h2
  | cons d t ih =>
    cases ms with
    | nil => simp [GoodFrom] at h1
    | cons m ms' =>
      simp only [GoodFrom, List.cons_append] at h1 ⊢
      refine ⟨h1.1, h1.2.1, h1.2.2.1, ih ms' h1.2.2.2 ?_⟩
      simpa using h2

theorem deliveriesFrom_length (ms : List Msg) (early : List Nat) : (deliveriesFrom ms early).length = ms.length := by
  induction ms with
  | nil => rfl
  | cons m t ih => simp [deliveriesFrom, ih]

theorem bytesOf_append (p q : List Ev) : bytesOf (p ++ q) = bytesOf p ++ bytesOf q := by
  induction p with
  | nil => rfl
  | cons e t ih => cases e <;> simp [bytesOf, ih]

theorem fdsOf_append (p q : List Ev) : fdsOf (p ++ q) = fdsOf p ++ fdsOf q := by
  induction p with
  | nil => rfl
  | cons e t ih => cases e <;> simp [fdsOf, ih]

theorem bytesUpTo_add (ms : List Msg) (k j : Nat) :
    bytesUpTo ms (k + j) = bytesUpTo ms k ++ (((ms.drop k).take j).map Msg.raw).flatten := by
  simp [bytesUpTo, List.take_add]

theorem fdsUpTo_add (ms : List Msg) (k j : Nat) :
    fdsUpTo ms (k + j) = fdsUpTo ms k ++ (((ms.drop k).take j).map Msg.fds).flatten := by
  simp [fdsUpTo, List.take_add]

theorem bytesUpTo_all (ms : List Msg) (k : Nat) :
    bytesUpTo ms ms.length = bytesUpTo ms k ++ ((ms.drop k).map Msg.raw).flatten := by
  simp only [bytesUpTo, List.take_length]
  rw [← List.flatten_append, ← List.map_append, List.take_append_drop]

theorem fdsUpTo_all (ms : List Msg) (k : Nat) :
    fdsUpTo ms ms.length = fdsUpTo ms k ++ ((ms.drop k).map Msg.fds).flatten := by
  simp only [fdsUpTo, List.take_length]
  rw [← List.flatten_append, ← List.map_append, List.take_append_drop]

theorem msgsOf_map_msg (l : List Bytes) : msgsOf (l.map Effect.msg) = l := by
  induction l with
  | nil => rfl
  | cons a t ih => simp [msgsOf, ih]

/-- The state of the receiver after the events `p`, `k` messages delivered. -/
structure Inv (ms : List Msg) (r : Recv α) (p : List Ev) (k : Nat) : Prop where
  hk : k ≤ ms.length
  hbytes : bytesOf p = bytesUpTo ms k ++ r.st.buffer
  hfds : fdsOf p = fdsUpTo ms k ++ r.queue
  hframed : Framed r.st
  hauth : r.st.authenticated = true

/-- One read. -/
theorem recv_read (A : Auth α) (info : Bytes → MsgInfo) (ms : List Msg)
    (hok : ∀ m ∈ ms, Spec.WellFormed m.raw ∧ MsgOK info m)
    (r : Recv α) (p : List Ev) (k : Nat) (d : Bytes) (inv : Inv ms r p k)
    (hB : bytesOf p ++ d <+: bytesUpTo ms ms.length)
    (hF : fdsOf p <+: fdsUpTo ms ms.length)
    (hT : ∀ k', k' ≤ ms.length → (bytesUpTo ms k').length ≤ (bytesOf p ++ d).length →
      (fdsUpTo ms k').length ≤ (fdsOf p).length) :
    ∃ j, Inv ms (recvEv A info r (.read d)).1 (p ++ [.read d]) (k + j) ∧
      (recvEv A info r (.read d)).2.length = j ∧
      GoodFrom (ms.drop k) (recvEv A info r (.read d)).2 := by
  -- framing
  have hb := binStep_frames r.st d inv.hframed
  have hstep : step A r.st d = binStep r.st d := step_auth A r.st d inv.hauth
  -- the new bytes are a prefix of the messages still to come
  have hpre : r.st.buffer ++ d <+: ((ms.drop k).map Msg.raw).flatten := by
    rw [inv.hbytes, List.append_assoc, bytesUpTo_all ms k] at hB
    exact (List.prefix_append_right_inj _).1 hB
  obtain ⟨j, hj, hfr1, hfr2⟩ := frames_prefix ((ms.drop k).map Msg.raw)
    (by
      intro m hm
      obtain ⟨m', hm', rfl⟩ := List.mem_map.1 hm
      exact (hok m' (List.mem_of_mem_drop hm')).1)
    (r.st.buffer ++ d) hpre
  have hjlen : k + j ≤ ms.length := by
    simp only [List.length_map, List.length_drop] at hj
    have := inv.hk
    omega
  rw [← List.map_take] at hfr1 hfr2
  generalize hfrdef : Spec.frames (r.st.buffer ++ d) = fr at hb hfr1 hfr2
  generalize hbatchdef : (ms.drop k).take j = batch at hfr1 hfr2
  have hsplit : ms.drop k = batch ++ ms.drop (k + j) := by
    rw [← hbatchdef, ← List.drop_drop, List.take_append_drop]
  have hbatchmem : ∀ m ∈ batch, m ∈ ms := by
    intro m hm
    apply List.mem_of_mem_drop (i := k)
    rw [hsplit]; exact List.mem_append_left _ hm
  -- bytes seen so far = the first k + j messages and the new buffer
  have hbytes' : bytesOf p ++ d = bytesUpTo ms (k + j) ++ fr.2 := by
    rw [inv.hbytes, List.append_assoc, hfr2, bytesUpTo_add, hbatchdef, List.append_assoc]
  -- timing: the descriptors of the batch have arrived
  have hcount : (fdsUpTo ms (k + j)).length ≤ (fdsOf p).length := by
    apply hT (k + j) hjlen
    rw [hbytes']; simp
  have hqpre : r.queue <+: ((ms.drop k).map Msg.fds).flatten := by
    rw [inv.hfds, fdsUpTo_all ms k] at hF
    exact (List.prefix_append_right_inj _).1 hF
  rw [hsplit, List.map_append, List.flatten_append] at hqpre
  have hlenq : ((batch.map Msg.fds).flatten).length ≤ r.queue.length := by
    rw [inv.hfds, fdsUpTo_add, hbatchdef] at hcount
    simp only [List.length_append] at hcount
    omega
  have hbq : (batch.map Msg.fds).flatten <+: r.queue :=
    List.prefix_of_prefix_length_le (List.prefix_append _ _) hqpre hlenq
  obtain ⟨early, hearly⟩ := hbq
  have hearlypre : early <+: ((ms.drop (k + j)).map Msg.fds).flatten := by
    rw [← hearly] at hqpre
    exact (List.prefix_append_right_inj _).1 hqpre
  -- the deliveries
  have hdel := deliverAll_ok info batch (fun m hm => (hok m (hbatchmem m hm)).2) early
  have hev : recvEv A info r (.read d) =
      (⟨(binStep r.st d).1, early⟩, deliveriesFrom batch early) := by
    simp only [recvEv, hstep]
    rw [hb.1, msgsOf_map_msg, hfr1, ← hearly, hdel]
  rw [hev]
  refine ⟨j, ⟨hjlen, ?_, ?_, hb.2.2, by rw [binStep_auth]; exact inv.hauth⟩, ?_, ?_⟩
  · show bytesOf (p ++ [.read d]) = bytesUpTo ms (k + j) ++ (binStep r.st d).1.buffer
    rw [bytesOf_append, hb.2.1]
    simpa [bytesOf] using hbytes'
  · show fdsOf (p ++ [.read d]) = fdsUpTo ms (k + j) ++ early
    rw [fdsOf_append, inv.hfds, fdsUpTo_add, hbatchdef, ← hearly]
    simp [fdsOf]
  · show (deliveriesFrom batch early).length = j
    rw [deliveriesFrom_length, ← hbatchdef, List.length_take, List.length_drop]
    have := inv.hk
    omega
  · show GoodFrom (ms.drop k) (deliveriesFrom batch early)
    rw [hsplit]
    exact goodFrom_deliveriesFrom batch _ early hearlypre


theorem consistent_prefix_bytes {ms : List Msg} {p q : List Ev} (h : Consistent ms (p ++ q)) :
    bytesOf p <+: bytesUpTo ms ms.length ∧ fdsOf p <+: fdsUpTo ms ms.length := by
  refine ⟨?_, ?_⟩
  · have := h.1
    rw [bytesOf_append] at this
    exact List.IsPrefix.trans (List.prefix_append _ _) this
  · have := h.2.1
    rw [fdsOf_append] at this
    exact List.IsPrefix.trans (List.prefix_append _ _) this

/-- The whole run, from any state reached after the events `p`. -/
theorem recv_run_inv (A : Auth α) (info : Bytes → MsgInfo) (ms : List Msg)
    (hok : ∀ m ∈ ms, Spec.WellFormed m.raw ∧ MsgOK info m)
    (evs p : List Ev) (r : Recv α) (k : Nat) (hc : Consistent ms (p ++ evs)) (inv : Inv ms r p k) :
    ∃ k', k ≤ k' ∧ Inv ms (recvRun A info r evs).1 (p ++ evs) k' ∧
      (recvRun A info r evs).2.length = k' - k ∧ GoodFrom (ms.drop k) (recvRun A info r evs).2 := by
  induction evs generalizing p r k with
  | nil =>
    refine ⟨k, Nat.le_refl k, ?_, ?_, ?_⟩
    · simpa [recvRun] using inv
    · simp [recvRun]
    · simp [recvRun, GoodFrom]
  | cons e rest ih =>
    have hassoc : p ++ e :: rest = (p ++ [e]) ++ rest := by simp
    cases e with
    | fd n =>
      have inv1 : Inv ms (recvEv A info r (.fd n)).1 (p ++ [.fd n]) k := by
        refine ⟨inv.hk, ?_, ?_, inv.hframed, inv.hauth⟩
        · show bytesOf (p ++ [.fd n]) = bytesUpTo ms k ++ r.st.buffer
          rw [bytesOf_append]; simpa [bytesOf] using inv.hbytes
        · show fdsOf (p ++ [.fd n]) = fdsUpTo ms k ++ (r.queue ++ [n])
          rw [fdsOf_append, inv.hfds]; simp [fdsOf]
      obtain ⟨k', hk', inv', hlen, hgood⟩ := ih (p ++ [.fd n]) (recvEv A info r (.fd n)).1 k (hassoc ▸ hc) inv1
      refine ⟨k', hk', ?_, ?_, ?_⟩
      · rw [hassoc]; exact inv'
      · simpa [recvRun, recvEv] using hlen
      · simpa [recvRun, recvEv] using hgood
    | read d =>
      have hcp := consistent_prefix_bytes (p := p ++ [.read d]) (q := rest) (hassoc ▸ hc)
      have hB : bytesOf p ++ d <+: bytesUpTo ms ms.length := by
        have := hcp.1
        rw [bytesOf_append] at this
        simpa [bytesOf] using this
      have hF : fdsOf p <+: fdsUpTo ms ms.length := by
        have := hcp.2
        rw [fdsOf_append] at this
        simpa [fdsOf] using this
      have hT : ∀ k', k' ≤ ms.length → (bytesUpTo ms k').length ≤ (bytesOf p ++ d).length →
          (fdsUpTo ms k').length ≤ (fdsOf p).length := by
        intro k' hk' hle
        have := hc.2.2 (p ++ [.read d]) (by rw [hassoc]; exact List.prefix_append _ _) k' hk'
          (by rw [bytesOf_append]; simpa [bytesOf] using hle)
        rw [fdsOf_append] at this
        simpa [fdsOf] using this
      obtain ⟨j, inv1, hlen1, hgood1⟩ := recv_read A info ms hok r p k d inv hB hF hT
      obtain ⟨k', hk', inv', hlen, hgood⟩ :=
        ih (p ++ [.read d]) (recvEv A info r (.read d)).1 (k + j) (hassoc ▸ hc) inv1
      refine ⟨k', by omega, ?_, ?_, ?_⟩
      · rw [hassoc]; exact inv'
      · show ((recvEv A info r (.read d)).2 ++ (recvRun A info (recvEv A info r (.read d)).1 rest).2).length = k' - k
        rw [List.length_append, hlen1, hlen]; omega
      · show GoodFrom (ms.drop k)
          ((recvEv A info r (.read d)).2 ++ (recvRun A info (recvEv A info r (.read d)).1 rest).2)
        apply goodFrom_append _ _ _ hgood1
        rw [hlen1, List.drop_drop]
        exact hgood

end Txdbus.Proto
