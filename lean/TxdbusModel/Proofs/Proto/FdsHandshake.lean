import TxdbusModel.Proofs.Proto.FdsRun
/-
C20 on a connection that starts in line mode: descriptors that arrive before or among the reads of
the authentication handshake.  Helper lemmas; the theorem is assembled in Properties/C20.lean.
-/
namespace Txdbus.Proto

variable {α : Type}

def readsOf : List Ev → List Bytes
  | [] => []
  | .read d :: t => d :: readsOf t
  | .fd _ :: t => readsOf t

theorem flatten_readsOf (evs : List Ev) : (readsOf evs).flatten = bytesOf evs := by
  induction evs with
  | nil => rfl
  | cons e t ih => cases e <;> simp [readsOf, bytesOf, ih]

theorem readsOf_append (a b : List Ev) : readsOf (a ++ b) = readsOf a ++ readsOf b := by
  induction a with
  | nil => rfl
  | cons e t ih => cases e <;> simp [readsOf, ih]

theorem msgsOf_append (a b : List Effect) : msgsOf (a ++ b) = msgsOf a ++ msgsOf b := by
  induction a with
  | nil => rfl
  | cons e t ih => cases e <;> simp [msgsOf, ih]

theorem deliverAll_append (info : Bytes → MsgInfo) (q : List Nat) (a b : List Bytes) :
    deliverAll info q (a ++ b) =
      ((deliverAll info (deliverAll info q a).1 b).1,
       (deliverAll info q a).2 ++ (deliverAll info (deliverAll info q a).1 b).2) := by
  induction a generalizing q with
  | nil => simp [deliverAll]
  | cons m t ih => simp [deliverAll, ih]

theorem recvRun_append (A : Auth α) (info : Bytes → MsgInfo) (r : Recv α) (a b : List Ev) :
    recvRun A info r (a ++ b) =
      ((recvRun A info (recvRun A info r a).1 b).1,
       (recvRun A info r a).2 ++ (recvRun A info (recvRun A info r a).1 b).2) := by
  induction a generalizing r with
  | nil => simp [recvRun]
  | cons e t ih => simp [recvRun, ih, List.append_assoc]

/-- While no message is framed (the handshake), the events only run the framing and queue the
descriptors. -/
theorem recvRun_quiet (A : Auth α) (info : Bytes → MsgInfo) (s : St α) (q : List Nat) (evs : List Ev)
    (h : msgsOf (run A s (readsOf evs)).2 = []) :
    recvRun A info ⟨s, q⟩ evs = (⟨(run A s (readsOf evs)).1, q ++ fdsOf evs⟩, []) := by
  induction evs generalizing s q with
  | nil => simp [recvRun, readsOf, run, fdsOf]
  | cons e t ih =>
    cases e with
    | fd n =>
      simp only [readsOf] at h
      simp only [recvRun, recvEv, readsOf, fdsOf]
      rw [ih s (q ++ [n]) h]
      simp
    | read d =>
      simp only [readsOf, run_cons, msgsOf_append] at h
      have h1 : msgsOf (step A s d).2 = [] := (List.append_eq_nil_iff.1 h).1
      have h2 := (List.append_eq_nil_iff.1 h).2
      simp only [recvRun, recvEv, readsOf, fdsOf, h1, deliverAll, run_cons]
      rw [ih (step A s d).1 q h2]
      simp

theorem recvRun_ready (A : Auth α) (info : Bytes → MsgInfo) (r : Recv α) (evs : List Ev) (h : Ready r.st) :
    Ready (recvRun A info r evs).1.st := by
  induction evs generalizing r with
  | nil => exact h
  | cons e t ih =>
    cases e with
    | fd n => exact ih _ h
    | read d => exact ih _ (step_ready A r.st d h)

/-- The read that holds the end of the handshake and the first message bytes behaves like two reads
cut at that point. -/
theorem recvRun_read_split (A : Auth α) (info : Bytes → MsgInfo) (r : Recv α) (d1 d2 : Bytes)
    (rest : List Ev) (h : Ready r.st) :
    recvRun A info r (.read (d1 ++ d2) :: rest) = recvRun A info r (.read d1 :: .read d2 :: rest) := by
  have hsa := step_append A r.st d1 d2 h
  have hm : msgsOf (step A r.st (d1 ++ d2)).2 =
      msgsOf (step A r.st d1).2 ++ msgsOf (step A (step A r.st d1).1 d2).2 := by
    rw [← msgsOf_noLose, ← hsa.2, msgsOf_noLose, msgsOf_append]
  have hst : (step A r.st (d1 ++ d2)).1 = (step A (step A r.st d1).1 d2).1 := hsa.1.symm
  simp only [recvRun, recvEv, hm, hst, deliverAll_append, List.append_assoc]

theorem prefix_append_cases {β : Type} (q a b : List β) (h : q <+: a ++ b) :
    q <+: a ∨ ∃ q2, q = a ++ q2 ∧ q2 <+: b := by
  by_cases hl : q.length ≤ a.length
  · exact Or.inl (List.prefix_of_prefix_length_le h (List.prefix_append a b) hl)
  · have : a <+: q := List.prefix_of_prefix_length_le (List.prefix_append a b) h (by omega)
    obtain ⟨q2, rfl⟩ := this
    exact Or.inr ⟨q2, rfl, (List.prefix_append_right_inj a).1 h⟩

theorem bytesOf_map_fd (l : List Nat) : bytesOf (l.map Ev.fd) = [] := by
  induction l with
  | nil => rfl
  | cons a t ih => simp [bytesOf, ih]

theorem fdsOf_map_fd (l : List Nat) : fdsOf (l.map Ev.fd) = l := by
  induction l with
  | nil => rfl
  | cons a t ih => simp [fdsOf, ih]

theorem bytesUpTo_pos (ms : List Msg) (h : ∀ m ∈ ms, 16 ≤ m.raw.length) (k : Nat) (hk : k ≤ ms.length)
    (hz : (bytesUpTo ms k).length = 0) : k = 0 := by
  cases k with
  | zero => rfl
  | succ k =>
    cases ms with
    | nil => simp at hk
    | cons m t =>
      have := h m (by simp)
      simp [bytesUpTo] at hz
      have hm : m.raw = [] := hz.1
      rw [hm] at this
      simp at this

/-- From the environment of a connection with a handshake to the environment of the binary part:
the descriptors that arrived during the handshake count as arrived before the first message byte. -/
theorem consistentAfter_binary (n : Nat) (ms : List Msg) (evsA evsB : List Ev) (d1 d2 : Bytes)
    (hn : (bytesOf evsA ++ d1).length = n) (hlen : ∀ m ∈ ms, 16 ≤ m.raw.length)
    (hc : ConsistentAfter n ms (evsA ++ .read (d1 ++ d2) :: evsB)) :
    Consistent ms ((fdsOf evsA).map Ev.fd ++ .read d2 :: evsB) := by
  obtain ⟨hb, hf, ht⟩ := hc
  have hbytes : bytesOf (evsA ++ .read (d1 ++ d2) :: evsB) = (bytesOf evsA ++ d1) ++ (d2 ++ bytesOf evsB) := by
    rw [bytesOf_append]; simp [bytesOf]
  refine ⟨?_, ?_, ?_⟩
  · rw [hbytes, List.drop_left' hn] at hb
    rw [bytesOf_append, bytesOf_map_fd]
    simpa [bytesOf] using hb
  · rw [fdsOf_append] at hf ⊢
    rw [fdsOf_map_fd]
    simpa [fdsOf] using hf
  · intro p hp k hk hle
    rcases prefix_append_cases p _ _ hp with h1 | ⟨q2, rfl, hq2⟩
    · -- only descriptor arrivals so far: no message can be complete
      obtain ⟨t, ht'⟩ := h1
      have hbp : bytesOf p = [] := by
        have := congrArg bytesOf ht'
        rw [bytesOf_append, bytesOf_map_fd] at this
        exact (List.append_eq_nil_iff.1 this).1
      rw [hbp] at hle
      have := bytesUpTo_pos ms hlen k hk (by simpa using hle)
      subst this
      simp [fdsUpTo]
    · cases q2 with
      | nil =>
        simp only [List.append_nil, bytesOf_map_fd] at hle
        have := bytesUpTo_pos ms hlen k hk (by simpa using hle)
        subst this
        simp [fdsUpTo]
      | cons e q3 =>
        have he : e = .read d2 ∧ q3 <+: evsB := by
          obtain ⟨t, ht'⟩ := hq2
          simp at ht'
          exact ⟨ht'.1, ⟨t, ht'.2⟩⟩
        obtain ⟨rfl, hq3⟩ := he
        have hpre : evsA ++ .read (d1 ++ d2) :: q3 <+: evsA ++ .read (d1 ++ d2) :: evsB := by
          apply (List.prefix_append_right_inj _).2
          obtain ⟨t, rfl⟩ := hq3
          exact ⟨t, by simp⟩
        have := ht _ hpre k hk (by
          rw [bytesOf_append] at hle ⊢
          rw [bytesOf_map_fd] at hle
          simp only [bytesOf, List.nil_append, List.length_append] at hle ⊢
          simp only [List.length_append] at hn
          omega)
        rw [fdsOf_append] at this ⊢
        rw [fdsOf_map_fd]
        simpa [fdsOf] using this

end Txdbus.Proto
