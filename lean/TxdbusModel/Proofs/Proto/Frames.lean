import TxdbusModel.Proofs.Proto.Binary
import TxdbusModel.Wire.Prim
/-
Lemmas about the spec `frames`: conservation, appending bytes, concatenations of well-formed messages.
-/
namespace Txdbus.Proto
open Txdbus.Gen.ProtoConst

/-! ### Facts about the spec `frames` -/

/-- Nothing is lost, duplicated or reordered: the messages cut off, followed by the rest, are the stream. -/
theorem frames_conserve (s : Bytes) : (Spec.frames s).1.flatten ++ (Spec.frames s).2 = s := by
  fun_induction Spec.frames s with
  | case1 s h r ih =>
    show (List.take (Spec.msgLen s) s :: r.1).flatten ++ r.2 = s
    simp only [List.flatten_cons, List.append_assoc]
    rw [show r.1.flatten ++ r.2 = List.drop (Spec.msgLen s) s from ih, List.take_append_drop]
  | case2 s h => simp

/-- Every message cut off has at least the 16 bytes of its fixed header. -/
theorem frames_len (s : Bytes) : ∀ m ∈ (Spec.frames s).1, 16 ≤ m.length := by
  fun_induction Spec.frames s with
  | case1 s h r ih =>
    intro m hm
    have hm' : m ∈ List.take (Spec.msgLen s) s :: r.1 := hm
    cases hm' with
    | head =>
      have := Spec.msgLen_ge s
      have := h.2
      simp only [List.length_take]; omega
    | tail _ h' => exact ih m h'
  | case2 s h => intro m hm; cases hm

/-- The rest holds no complete message. -/
theorem frames_rest (s : Bytes) : ¬ Spec.hasFrame (Spec.frames s).2 := by
  fun_induction Spec.frames s with
  | case1 s h r ih => exact ih
  | case2 s h => exact h

theorem hasFrame_append (s d : Bytes) (h : Spec.hasFrame s) : Spec.hasFrame (s ++ d) := by
  refine ⟨by simp; have := h.1; omega, ?_⟩
  rw [msgLen_append s d h.1]; simp; have := h.2; omega

/-- Cutting a longer stream: cut the stream, then cut what was left plus the new bytes. -/
theorem frames_append (s d : Bytes) :
    Spec.frames (s ++ d) =
      ((Spec.frames s).1 ++ (Spec.frames ((Spec.frames s).2 ++ d)).1, (Spec.frames ((Spec.frames s).2 ++ d)).2) := by
  fun_induction Spec.frames s with
  | case1 s h r ih =>
    show Spec.frames (s ++ d) = ((List.take (Spec.msgLen s) s :: r.1) ++ (Spec.frames (r.2 ++ d)).1,
      (Spec.frames (r.2 ++ d)).2)
    rw [frames_unfold (s ++ d), if_pos (hasFrame_append s d h), msgLen_append s d h.1,
      List.take_append_of_le_length h.2, List.drop_append_of_le_length h.2, ih]
    simp [r]
  | case2 s h => simp

/-- C04.2: the concatenation of well-formed messages is cut into exactly these messages. -/
theorem frames_flatten_wellFormed (ms : List Bytes) (h : ∀ m ∈ ms, Spec.WellFormed m) (tail : Bytes) :
    Spec.frames (ms.flatten ++ tail) = (ms ++ (Spec.frames tail).1, (Spec.frames tail).2) := by
  induction ms with
  | nil => simp
  | cons m ms ih =>
    have hm : Spec.WellFormed m := h m (by simp)
    have hf : Spec.hasFrame (m ++ (ms.flatten ++ tail)) := by
      refine ⟨by simp; have := hm.1; omega, ?_⟩
      rw [msgLen_append m _ hm.1, hm.2]; simp
    rw [List.flatten_cons, List.append_assoc, frames_unfold, if_pos hf, msgLen_append m _ hm.1, hm.2]
    simp only [List.take_left', List.drop_left']
    rw [ih (fun x hx => h x (by simp [hx]))]
    simp
/-- Bridge to C03: `Msg.marshal_wellformed` (Properties/C03.lean) states that every message
`_marshal` constructs is, byte for byte, `[108, type, flags, 1] ++ encUInt .little 4 |body| ++
encUInt .little 4 serial ++ encUInt .little 4 |fieldArray| ++ fieldArray ++ pad ++ body` with
`|pad| < 8`, `(16 + |fieldArray| + |pad|) % 8 = 0` and both lengths below 2^32.  Every byte string of
that shape is well-formed for framing. -/
theorem wellFormed_of_layout (t f : UInt8) (serial : Nat) (arr pad body : Bytes)
    (hpad : pad.length < 8) (hal : (16 + arr.length + pad.length) % 8 = 0)
    (hb : body.length < 4294967296) (ha : arr.length < 4294967296) :
    Spec.WellFormed ([108, t, f, 1] ++ encUInt .little 4 body.length ++ encUInt .little 4 serial
      ++ encUInt .little 4 arr.length ++ arr ++ pad ++ body) := by
  have hm : Spec.msgLen ([108, t, f, 1] ++ encUInt .little 4 body.length ++ encUInt .little 4 serial
      ++ encUInt .little 4 arr.length ++ arr ++ pad ++ body) = 16 + arr.length + pad.length + body.length := by
    simp [Spec.msgLen, Spec.u32At, Spec.byteAt, Spec.pad8, encUInt, leBytes]
    omega
  refine ⟨by simp [encUInt, leBytes], ?_⟩
  rw [hm]
  simp [encUInt, leBytes]
  omega

end Txdbus.Proto
