import TxdbusModel.Route.Daemon
import TxdbusModel.Proofs.Route.Match
import TxdbusModel.Proofs.Route.Client
import TxdbusModel.Proofs.Route.TextSpec
/-
C12 - the client connection together with a specification-conforming daemon: the rules the daemon holds
for the connection mirror `match_rules` (as multisets of texts) whenever no reply is outstanding.

Invariant (`DInv.count`), for every text `t`, at every moment of every history:

    #daemon rules t  +  #acknowledged-by-the-daemon, not yet delivered RemoveMatch of a registered id whose text is t
  = #match_rules entries with text t  +  #accepted-by-the-daemon, not yet delivered AddMatch(t)
-/
namespace Txdbus.Route

/-! ### sums over the pending calls and the daemon's replies, position by position -/

def sumZip (f : Option Pending → Bool → Nat) : List (Option Pending) → List Bool → Nat
  | c :: cs, b :: bs => f c b + sumZip f cs bs
  | _, _ => 0

theorem sumZip_snoc (f : Option Pending → Bool → Nat) (c : Option Pending) (b : Bool) :
    ∀ (cs : List (Option Pending)) (bs : List Bool), cs.length = bs.length →
      sumZip f (cs ++ [c]) (bs ++ [b]) = sumZip f cs bs + f c b := by
  intro cs
  induction cs with
  | nil =>
    intro bs h
    cases bs with
    | nil => simp [sumZip]
    | cons _ _ => simp at h
  | cons x t ih =>
    intro bs h
    cases bs with
    | nil => simp at h
    | cons y u =>
      simp only [List.length_cons, Nat.add_right_cancel_iff] at h
      simp only [List.cons_append, sumZip, ih u h]
      omega

theorem sumZip_setNone (f : Option Pending → Bool → Nat) (hf : ∀ b, f none b = 0) (x : Option Pending) (b : Bool) :
    ∀ (k : Nat) (cs : List (Option Pending)) (bs : List Bool), cs[k]? = some x → bs[k]? = some b →
      sumZip f (setNone k cs) bs + f x b = sumZip f cs bs := by
  intro k
  induction k with
  | zero =>
    intro cs bs hc hb
    cases cs with
    | nil => simp at hc
    | cons c t =>
      cases bs with
      | nil => simp at hb
      | cons b' u =>
        simp only [List.getElem?_cons_zero, Option.some.injEq] at hc hb
        subst hc; subst hb
        simp only [setNone, sumZip, hf]
        omega
  | succ k ih =>
    intro cs bs hc hb
    cases cs with
    | nil => simp at hc
    | cons c t =>
      cases bs with
      | nil => simp at hb
      | cons b' u =>
        simp only [List.getElem?_cons_succ] at hc hb
        have := ih t u hc hb
        simp only [setNone, sumZip]
        omega

theorem sumZip_congr (f g : Option Pending → Bool → Nat) :
    ∀ (cs : List (Option Pending)) (bs : List Bool),
      (∀ (k : Nat) x b, cs[k]? = some x → bs[k]? = some b → f x b = g x b) → sumZip f cs bs = sumZip g cs bs := by
  intro cs
  induction cs with
  | nil => intro bs _; simp [sumZip]
  | cons c t ih =>
    intro bs h
    cases bs with
    | nil => simp [sumZip]
    | cons b u =>
      simp only [sumZip]
      rw [h 0 c b rfl rfl, ih u (fun k x b' hx hb => h (k + 1) x b' (by simpa using hx) (by simpa using hb))]

/-! ### `match_rules` as an association list with distinct keys -/

theorem lookup_filter_ne (mr : List (Nat × Str)) (id id' : Nat) (h : id' ≠ id) :
    (mr.filter (fun p => p.1 ≠ id)).lookup id' = mr.lookup id' := by
  induction mr with
  | nil => rfl
  | cons p t ih =>
    obtain ⟨k, v⟩ := p
    by_cases hk : k = id
    · subst hk
      have hb : (id' == k) = false := by simpa using h
      simp only [List.filter_cons, ne_eq, not_true_eq_false, decide_false, Bool.false_eq_true, if_false, List.lookup, hb]
      exact ih
    · simp only [List.filter_cons, ne_eq, hk, not_false_eq_true, decide_true, if_true, List.lookup]
      cases (id' == k) with
      | true => rfl
      | false => exact ih

theorem lookup_append_fresh (mr : List (Nat × Str)) (i : Nat) (t : Str) (id' : Nat) (h : id' ≠ i) :
    (mr ++ [(i, t)]).lookup id' = mr.lookup id' := by
  induction mr with
  | nil =>
    have hb : (id' == i) = false := by simpa using h
    simp [List.lookup, hb]
  | cons p u ih =>
    obtain ⟨k, v⟩ := p
    simp only [List.cons_append, List.lookup]
    cases (id' == k) with
    | true => rfl
    | false => exact ih

theorem filter_fresh (mr : List (Nat × Str)) (i : Nat) (h : ∀ p ∈ mr, p.1 < i) :
    mr.filter (fun p => p.1 ≠ i) = mr := by
  rw [List.filter_eq_self]
  intro p hp
  have := h p hp
  have hne : p.1 ≠ i := by omega
  simp [hne]

theorem filter_absent (mr : List (Nat × Str)) (i : Nat) (h : i ∉ mr.map Prod.fst) :
    mr.filter (fun p => p.1 ≠ i) = mr := by
  rw [List.filter_eq_self]
  intro p hp
  have hne : p.1 ≠ i := by
    intro e
    exact h (List.mem_map.mpr ⟨p, hp, e⟩)
  simp [hne]

theorem lookup_mem (mr : List (Nat × Str)) (id : Nat) (t : Str) (h : mr.lookup id = some t) : (id, t) ∈ mr := by
  induction mr with
  | nil => simp [List.lookup] at h
  | cons p u ih =>
    obtain ⟨k, v⟩ := p
    simp only [List.lookup] at h
    cases hb : (id == k) with
    | true =>
      rw [hb] at h
      have hk : id = k := by simpa using hb
      simp only [Option.some.injEq] at h
      subst hk; subst h
      simp
    | false =>
      rw [hb] at h
      exact List.mem_cons_of_mem _ (ih h)

theorem count_filter_lookup (mr : List (Nat × Str)) (id : Nat) (t0 : Str) (hl : mr.lookup id = some t0)
    (hn : (mr.map Prod.fst).Nodup) (t : Str) :
    ((mr.filter (fun p => p.1 ≠ id)).map Prod.snd).count t + (if t0 = t then 1 else 0)
      = (mr.map Prod.snd).count t := by
  induction mr with
  | nil => simp [List.lookup] at hl
  | cons p u ih =>
    obtain ⟨k, v⟩ := p
    simp only [List.map_cons, List.nodup_cons] at hn
    simp only [List.lookup] at hl
    cases hb : (id == k) with
    | true =>
      rw [hb] at hl
      have hk : id = k := by simpa using hb
      simp only [Option.some.injEq] at hl
      subst hk; subst hl
      simp only [List.filter_cons, ne_eq, not_true_eq_false, decide_false, Bool.false_eq_true, if_false]
      rw [filter_absent u id hn.1]
      simp only [List.map_cons, List.count_cons, beq_iff_eq]
    | false =>
      rw [hb] at hl
      have hk : ¬ k = id := by
        intro e; subst e; simp at hb
      simp only [List.filter_cons, ne_eq, hk, not_false_eq_true, decide_true, if_true, List.map_cons, List.count_cons]
      have := ih hl hn.2
      simp only [ne_eq] at this
      omega

/-! ### small facts about the list of pending calls -/

theorem getElem?_snoc {α : Type} (l : List α) (y z : α) (j : Nat) (h : (l ++ [y])[j]? = some z) :
    l[j]? = some z ∨ (j = l.length ∧ y = z) := by
  by_cases hj : j < l.length
  · left; rwa [List.getElem?_append_left hj] at h
  · right
    rw [List.getElem?_append_right (by omega)] at h
    cases hjl : j - l.length with
    | zero =>
      simp only [hjl, List.getElem?_cons_zero, Option.some.injEq] at h
      exact ⟨by omega, h⟩
    | succ n => simp [hjl] at h

theorem length_setNone {α : Type} (k : Nat) (l : List (Option α)) : (setNone k l).length = l.length := by
  induction l generalizing k with
  | nil => cases k <;> rfl
  | cons x t ih => cases k <;> simp [setNone, ih]

theorem setNone_at {α : Type} (k : Nat) (l : List (Option α)) (x : α) : (setNone k l)[k]? ≠ some (some x) := by
  induction l generalizing k with
  | nil => cases k <;> simp [setNone]
  | cons y t ih =>
    cases k with
    | zero => simp [setNone]
    | succ k => simpa [setNone] using ih k

theorem removalPending_false (c : Client) (id : Nat) (h : c.removalPending id = false) (k : Nat) :
    c.calls[k]? ≠ some (some (.delOk id)) := by
  intro hk
  have hm : some (Pending.delOk id) ∈ c.calls := List.mem_of_getElem? hk
  have : c.removalPending id = true := by
    unfold Client.removalPending
    rw [List.any_eq_true]
    exact ⟨_, hm, by simp⟩
  rw [h] at this
  cases this

/-! ### the invariant -/

/-- weight of a pending call in the count of accepted, undelivered `AddMatch(t)` -/
def wA (t : Str) : Option Pending → Bool → Nat
  | some (.addOk _ _ t'), true => if t' = t then 1 else 0
  | _, _ => 0

/-- weight of a pending call in the count of honoured, undelivered `RemoveMatch` of a registered id with text `t` -/
def wD (mr : List (Nat × Str)) (t : Str) : Option Pending → Bool → Nat
  | some (.delOk id), true => if mr.lookup id = some t then 1 else 0
  | _, _ => 0

theorem wA_none (t : Str) (b : Bool) : wA t none b = 0 := by cases b <;> rfl
theorem wD_none (mr : List (Nat × Str)) (t : Str) (b : Bool) : wD mr t none b = 0 := by cases b <;> rfl
theorem wA_false (t : Str) (x : Option Pending) : wA t x false = 0 := by
  cases x with
  | none => rfl
  | some p => cases p <;> rfl
theorem wD_false (mr : List (Nat × Str)) (t : Str) (x : Option Pending) : wD mr t x false = 0 := by
  cases x with
  | none => rfl
  | some p => cases p <;> rfl

structure DInv (s : System) : Prop where
  len : s.client.calls.length = s.daemon.replies.length
  keysLt : ∀ p ∈ s.client.matchRules, p.1 < s.client.router.nextId
  keysNodup : (s.client.matchRules.map Prod.fst).Nodup
  delLt : ∀ (k id : Nat), s.client.calls[k]? = some (some (.delOk id)) → id < s.client.router.nextId
  delUniq : ∀ (k k' id : Nat), s.client.calls[k]? = some (some (.delOk id)) →
    s.client.calls[k']? = some (some (.delOk id)) → k = k'
  count : ∀ t : Str, s.daemon.rules.count t + sumZip (wD s.client.matchRules t) s.client.calls s.daemon.replies
    = s.client.localTexts.count t + sumZip (wA t) s.client.calls s.daemon.replies

theorem dinv_init : DInv {} where
  len := rfl
  keysLt := by intro p hp; cases hp
  keysNodup := List.nodup_nil
  delLt := by intro k id h; simp at h
  delUniq := by intro k k' id h; simp at h
  count := by intro t; rfl

theorem dinv_addMatch (accepts : Str → Bool) (raises : Nat → Cb → Bool) (s : System) (cb : Cb) (a : RuleArgs)
    (h : DInv s) : DInv (s.step Tables.cur accepts raises (.addMatch cb a)).1 := by
  simp only [System.step, Client.step, Daemon.receive, Daemon.addMatch]
  have hdel : ∀ (j id : Nat), (s.client.calls ++ [some (Pending.addOk cb a (renderRuleWith Tables.cur.clientEscapes a))])[j]?
      = some (some (.delOk id)) → s.client.calls[j]? = some (some (.delOk id)) := by
    intro j id hj
    rcases getElem?_snoc _ _ _ _ hj with h1 | ⟨_, h2⟩
    · exact h1
    · simp at h2
  by_cases hacc : accepts (renderRuleWith Tables.cur.clientEscapes a) = true
  · simp only [hacc, if_true]
    refine ⟨by simp [h.len], h.keysLt, h.keysNodup, fun k id hk => h.delLt k id (hdel k id hk),
      fun k k' id hk hk' => h.delUniq k k' id (hdel k id hk) (hdel k' id hk'), ?_⟩
    intro t
    simp only [Client.localTexts]
    rw [sumZip_snoc _ _ _ _ _ h.len, sumZip_snoc _ _ _ _ _ h.len]
    have := h.count t
    simp only [Client.localTexts] at this
    simp only [wD, wA, List.count_cons, beq_iff_eq]
    omega
  · simp only [hacc, Bool.false_eq_true, if_false]
    refine ⟨by simp [h.len], h.keysLt, h.keysNodup, fun k id hk => h.delLt k id (hdel k id hk),
      fun k k' id hk hk' => h.delUniq k k' id (hdel k id hk) (hdel k' id hk'), ?_⟩
    intro t
    simp only [Client.localTexts]
    rw [sumZip_snoc _ _ _ _ _ h.len, sumZip_snoc _ _ _ _ _ h.len]
    have := h.count t
    simp only [Client.localTexts] at this
    simp only [wD_false, wA_false]
    omega

theorem dinv_delMatch (accepts : Str → Bool) (raises : Nat → Cb → Bool) (s : System) (id : Nat)
    (h : DInv s) (hs : s.client.removalPending id = false) :
    DInv (s.step Tables.cur accepts raises (.delMatch id)).1 := by
  simp only [System.step, Client.step]
  cases hl : s.client.matchRules.lookup id with
  | none => simpa [Daemon.receive] using h
  | some text =>
    simp only [Daemon.receive, Daemon.removeMatch]
    have hnew : ∀ (j id' : Nat), (s.client.calls ++ [some (Pending.delOk id)])[j]? = some (some (.delOk id')) →
        s.client.calls[j]? = some (some (.delOk id')) ∨ (j = s.client.calls.length ∧ id' = id) := by
      intro j id' hj
      rcases getElem?_snoc _ _ _ _ hj with h1 | ⟨h2, h3⟩
      · exact Or.inl h1
      · right
        simp only [Option.some.injEq, Pending.delOk.injEq] at h3
        exact ⟨h2, h3.symm⟩
    have hidlt : id < s.client.router.nextId := h.keysLt _ (lookup_mem _ _ _ hl)
    have hdelLt : ∀ (k id' : Nat), (s.client.calls ++ [some (Pending.delOk id)])[k]? = some (some (.delOk id')) →
        id' < s.client.router.nextId := by
      intro k id' hk
      rcases hnew k id' hk with h1 | ⟨_, h2⟩
      · exact h.delLt k id' h1
      · rw [h2]; exact hidlt
    have hdelUniq : ∀ (k k' id' : Nat), (s.client.calls ++ [some (Pending.delOk id)])[k]? = some (some (.delOk id')) →
        (s.client.calls ++ [some (Pending.delOk id)])[k']? = some (some (.delOk id')) → k = k' := by
      intro k k' id' hk hk'
      rcases hnew k id' hk with h1 | ⟨h1, h2⟩
      · rcases hnew k' id' hk' with h3 | ⟨_, h4⟩
        · exact h.delUniq k k' id' h1 h3
        · subst h4
          exact absurd h1 (removalPending_false _ _ hs k)
      · rcases hnew k' id' hk' with h3 | ⟨h3, _⟩
        · subst h2
          exact absurd h3 (removalPending_false _ _ hs k')
        · omega
    by_cases hc : s.daemon.rules.contains text = true
    · simp only [hc, if_true]
      refine ⟨by simp [h.len], h.keysLt, h.keysNodup, hdelLt, hdelUniq, ?_⟩
      intro t
      simp only [Client.localTexts]
      rw [sumZip_snoc _ _ _ _ _ h.len, sumZip_snoc _ _ _ _ _ h.len]
      have := h.count t
      simp only [Client.localTexts] at this
      simp only [wD, wA, hl, Option.some.injEq]
      have hmem : text ∈ s.daemon.rules := by simpa using hc
      by_cases ht : text = t
      · subst ht
        have hpos : 0 < s.daemon.rules.count text := List.count_pos_iff.mpr hmem
        rw [List.count_erase_self]
        simp only [if_true]
        omega
      · rw [List.count_erase_of_ne (fun e => ht e.symm)]
        simp only [ht, if_false]
        omega
    · simp only [hc, Bool.false_eq_true, if_false]
      refine ⟨by simp [h.len], h.keysLt, h.keysNodup, hdelLt, hdelUniq, ?_⟩
      intro t
      simp only [Client.localTexts]
      rw [sumZip_snoc _ _ _ _ _ h.len, sumZip_snoc _ _ _ _ _ h.len]
      have := h.count t
      simp only [Client.localTexts] at this
      simp only [wD_false, wA_false]
      omega

/-- Facts about the pending `RemoveMatch` calls survive the answering of a call. -/
theorem del_setNone (calls : List (Option Pending)) (k : Nat) (n : Nat)
    (hLt : ∀ (j id : Nat), calls[j]? = some (some (.delOk id)) → id < n)
    (hUniq : ∀ (j j' id : Nat), calls[j]? = some (some (.delOk id)) → calls[j']? = some (some (.delOk id)) → j = j') :
    (∀ (j id : Nat), (setNone k calls)[j]? = some (some (.delOk id)) → id < n) ∧
    (∀ (j j' id : Nat), (setNone k calls)[j]? = some (some (.delOk id)) →
      (setNone k calls)[j']? = some (some (.delOk id)) → j = j') :=
  ⟨fun j id hj => hLt j id (getElem?_setNone _ _ _ _ hj),
   fun j j' id hj hj' => hUniq j j' id (getElem?_setNone _ _ _ _ hj) (getElem?_setNone _ _ _ _ hj')⟩

theorem dinv_replyErr (raises : Nat → Cb → Bool) (s : System) (k : Nat) (h : DInv s)
    (hr : s.daemon.replies[k]? = some false) :
    DInv { s with client := (s.client.step Tables.cur raises (.replyErr k)).1 } := by
  simp only [Client.step]
  cases hk : s.client.calls[k]? with
  | none => exact h
  | some x =>
    cases x with
    | none => exact h
    | some p =>
      obtain ⟨h1, h2⟩ := del_setNone s.client.calls k _ h.delLt h.delUniq
      refine ⟨by simp [length_setNone, h.len], h.keysLt, h.keysNodup, h1, h2, ?_⟩
      intro t
      have e1 := sumZip_setNone (wD s.client.matchRules t) (wD_none _ _) (some p) false k _ _ hk hr
      have e2 := sumZip_setNone (wA t) (wA_none _) (some p) false k _ _ hk hr
      have := h.count t
      simp only [Client.localTexts] at this ⊢
      simp only [wD_false, wA_false] at e1 e2
      omega

theorem dinv_replyOk (raises : Nat → Cb → Bool) (s : System) (k : Nat) (h : DInv s)
    (hr : s.daemon.replies[k]? = some true) :
    DInv { s with client := (s.client.step Tables.cur raises (.replyOk k)).1 } := by
  simp only [Client.step]
  cases hk : s.client.calls[k]? with
  | none => exact h
  | some x =>
    cases x with
    | none => exact h
    | some p =>
      obtain ⟨h1, h2⟩ := del_setNone s.client.calls k _ h.delLt h.delUniq
      cases p with
      | addOk cb a text =>
        simp only [Router.add, mkRule_cur]
        rw [filter_fresh _ _ h.keysLt]
        refine ⟨by simp [length_setNone, h.len], ?_, ?_, ?_, h2, ?_⟩
        · intro p hp
          simp only [List.mem_append, List.mem_singleton] at hp
          rcases hp with hp | hp
          · have := h.keysLt p hp
            simp only
            omega
          · subst hp
            simp only
            omega
        · simp only [List.map_append, List.map_cons, List.map_nil]
          rw [List.nodup_append]
          refine ⟨h.keysNodup, by simp, ?_⟩
          intro x hx y hy
          simp only [List.mem_singleton] at hy
          obtain ⟨q, hq, rfl⟩ := List.mem_map.mp hx
          have := h.keysLt q hq
          omega
        · intro j id hj
          have := h1 j id hj
          simp only
          omega
        · intro t
          simp only [Client.localTexts, List.map_append, List.map_cons, List.map_nil, List.count_append]
          have hcongr : sumZip (wD (s.client.matchRules ++ [(s.client.router.nextId, text)]) t) (setNone k s.client.calls)
              s.daemon.replies = sumZip (wD s.client.matchRules t) (setNone k s.client.calls) s.daemon.replies := by
            apply sumZip_congr
            intro j x b hx _
            cases x with
            | none => rw [wD_none, wD_none]
            | some q =>
              cases q with
              | addOk _ _ _ => cases b <;> rfl
              | delOk id' =>
                cases b with
                | false => rfl
                | true =>
                  have hlt := h1 j id' hx
                  have hne : id' ≠ s.client.router.nextId := by omega
                  simp only [wD, lookup_append_fresh _ _ _ _ hne]
          rw [hcongr]
          have e1 := sumZip_setNone (wD s.client.matchRules t) (wD_none _ _) _ true k _ _ hk hr
          have e2 := sumZip_setNone (wA t) (wA_none _) _ true k _ _ hk hr
          have := h.count t
          simp only [Client.localTexts] at this
          simp only [wD, wA] at e1 e2
          simp only [List.count_cons, List.count_nil, beq_iff_eq]
          omega
      | delOk id =>
        simp only
        cases hl : s.client.matchRules.lookup id with
        | none =>
          simp only [Option.isSome_none, Bool.false_eq_true, if_false]
          refine ⟨by simp [length_setNone, h.len], h.keysLt, h.keysNodup, h1, h2, ?_⟩
          intro t
          have e1 := sumZip_setNone (wD s.client.matchRules t) (wD_none _ _) _ true k _ _ hk hr
          have e2 := sumZip_setNone (wA t) (wA_none _) _ true k _ _ hk hr
          have := h.count t
          simp only [Client.localTexts] at this ⊢
          simp only [wD, wA, hl] at e1 e2
          simp only [reduceCtorEq, if_false] at e1
          omega
        | some t0 =>
          simp only [Option.isSome_some, if_true]
          have hkeys : ∀ p ∈ s.client.matchRules.filter (fun p => p.1 ≠ id), p.1 < s.client.router.nextId :=
            fun p hp => h.keysLt p (List.mem_filter.mp hp).1
          have hnodup : ((s.client.matchRules.filter (fun p => p.1 ≠ id)).map Prod.fst).Nodup :=
            List.Nodup.sublist (List.Sublist.map _ List.filter_sublist) h.keysNodup
          have hcount : ∀ t : Str,
              s.daemon.rules.count t + sumZip (wD (s.client.matchRules.filter (fun p => p.1 ≠ id)) t)
                (setNone k s.client.calls) s.daemon.replies
              = ((s.client.matchRules.filter (fun p => p.1 ≠ id)).map Prod.snd).count t
                + sumZip (wA t) (setNone k s.client.calls) s.daemon.replies := by
            intro t
            have hcongr : sumZip (wD (s.client.matchRules.filter (fun p => p.1 ≠ id)) t) (setNone k s.client.calls)
                s.daemon.replies = sumZip (wD s.client.matchRules t) (setNone k s.client.calls) s.daemon.replies := by
              apply sumZip_congr
              intro j x b hx _
              cases x with
              | none => rw [wD_none, wD_none]
              | some q =>
                cases q with
                | addOk _ _ _ => cases b <;> rfl
                | delOk id' =>
                  cases b with
                  | false => rfl
                  | true =>
                    have hne : id' ≠ id := by
                      intro e
                      subst e
                      have hj := getElem?_setNone _ _ _ _ hx
                      have hjk : j = k := h.delUniq j k id' hj hk
                      subst hjk
                      exact setNone_at _ _ _ hx
                    simp only [wD, lookup_filter_ne _ _ _ hne]
            rw [hcongr]
            have e1 := sumZip_setNone (wD s.client.matchRules t) (wD_none _ _) _ true k _ _ hk hr
            have e2 := sumZip_setNone (wA t) (wA_none _) _ true k _ _ hk hr
            have e3 := count_filter_lookup s.client.matchRules id t0 hl h.keysNodup t
            have := h.count t
            simp only [Client.localTexts] at this
            simp only [wD, wA, hl, Option.some.injEq] at e1 e2
            omega
          cases hd : s.client.router.del id with
          | none =>
            exact ⟨by simp [length_setNone, h.len], hkeys, hnodup, h1, h2, hcount⟩
          | some r' =>
            have hn : r'.nextId = s.client.router.nextId := by
              unfold Router.del at hd
              split at hd
              · simp only [Option.some.injEq] at hd
                rw [← hd]
              · cases hd
            refine ⟨by simp [length_setNone, h.len], ?_, hnodup, ?_, h2, hcount⟩
            · intro p hp
              simp only at hp ⊢
              rw [hn]
              exact hkeys p hp
            · intro j id' hj
              simp only at hj ⊢
              rw [hn]
              exact h1 j id' hj

theorem dinv_step (accepts : Str → Bool) (raises : Nat → Cb → Bool) (s : System) (op : SOp) (h : DInv s)
    (hs : op.Single s.client) : DInv (s.step Tables.cur accepts raises op).1 := by
  cases op with
  | addMatch cb a => exact dinv_addMatch accepts raises s cb a h
  | delMatch id => exact dinv_delMatch accepts raises s id h hs
  | deliver k =>
    simp only [System.step]
    cases hr : s.daemon.replies[k]? with
    | none => exact h
    | some b =>
      cases b with
      | true => exact dinv_replyOk raises s k h hr
      | false => exact dinv_replyErr raises s k h hr
  | signal m =>
    simp only [System.step]
    split
    · exact h
    · exact h

theorem dinv_run (accepts : Str → Bool) (raises : Nat → Cb → Bool) (h : List SOp) : ∀ s : System, DInv s →
    System.SingleRemoval Tables.cur accepts raises s h → DInv (System.run Tables.cur accepts raises s h).1 := by
  induction h with
  | nil => intro s hs _; exact hs
  | cons op ops ih =>
    intro s hs hsr
    simp only [System.run]
    exact ih _ (dinv_step accepts raises s op hs hsr.1) hsr.2

theorem sumZip_quiescent (f : Option Pending → Bool → Nat) (hf : ∀ b, f none b = 0) :
    ∀ (cs : List (Option Pending)) (bs : List Bool), cs.all (fun p => p.isNone) = true → sumZip f cs bs = 0 := by
  intro cs
  induction cs with
  | nil => intro bs _; simp [sumZip]
  | cons c t ih =>
    intro bs h
    simp only [List.all_cons, Bool.and_eq_true] at h
    cases bs with
    | nil => simp [sumZip]
    | cons b u =>
      cases c with
      | some p => simp at h
      | none => simp only [sumZip, hf, ih u h.2]

/-- When no reply is outstanding the daemon holds, as a multiset, exactly the texts of `match_rules`. -/
theorem dinv_mirror (s : System) (h : DInv s) (hq : s.client.quiescent = true) :
    s.daemon.rules.Perm s.client.localTexts := by
  rw [List.perm_iff_count]
  intro t
  have := h.count t
  rw [sumZip_quiescent _ (wD_none _ _) _ _ hq, sumZip_quiescent _ (wA_none _) _ _ hq] at this
  omega

/-! ### what the client sees of a history of the system -/

/-- The client-connection event a system event amounts to (the daemon decides which reply arrives and whether a
broadcast signal arrives at all). -/
def System.cop (s : System) : SOp → Option COp
  | .addMatch cb a => some (.addMatch cb a)
  | .delMatch id => some (.delMatch id)
  | .deliver k =>
    match s.daemon.replies[k]? with
    | some true => some (.replyOk k)
    | some false => some (.replyErr k)
    | none => none
  | .signal m => if s.daemon.forwards m then some (.signal m) else none

def System.clientOps (T : Tables) (accepts : Str → Bool) (raises : Nat → Cb → Bool) : System → List SOp → List COp
  | _, [] => []
  | s, op :: ops => (s.cop op).toList ++ System.clientOps T accepts raises (s.step T accepts raises op).1 ops

theorem step_client (T : Tables) (accepts : Str → Bool) (raises : Nat → Cb → Bool) (s : System) (op : SOp) :
    (s.step T accepts raises op).1.client = (Client.run T raises s.client (s.cop op).toList).1 := by
  cases op with
  | addMatch cb a => rfl
  | delMatch id => rfl
  | deliver k =>
    simp only [System.step, System.cop]
    cases s.daemon.replies[k]? with
    | none => rfl
    | some b => cases b <;> rfl
  | signal m =>
    simp only [System.step, System.cop]
    split <;> rfl

theorem client_run_append (T : Tables) (raises : Nat → Cb → Bool) (l1 l2 : List COp) : ∀ c : Client,
    (Client.run T raises c (l1 ++ l2)).1 = (Client.run T raises (Client.run T raises c l1).1 l2).1 := by
  induction l1 with
  | nil => intro c; rfl
  | cons op t ih => intro c; simp only [List.cons_append, Client.run]; exact ih _

/-- The client of the system, after a history, is the client after the events it saw. -/
theorem run_client (T : Tables) (accepts : Str → Bool) (raises : Nat → Cb → Bool) (h : List SOp) : ∀ s : System,
    (System.run T accepts raises s h).1.client
      = (Client.run T raises s.client (System.clientOps T accepts raises s h)).1 := by
  induction h with
  | nil => intro s; rfl
  | cons op ops ih =>
    intro s
    simp only [System.run, System.clientOps]
    rw [ih, client_run_append, step_client]

theorem clientOps_wf (T : Tables) (accepts : Str → Bool) (raises : Nat → Cb → Bool) (h : List SOp) : ∀ s : System,
    (∀ cb a, SOp.addMatch cb a ∈ h → a.WFAll) → ∀ op ∈ System.clientOps T accepts raises s h, op.WF := by
  induction h with
  | nil => intro s _ op hop; simp [System.clientOps] at hop
  | cons o ops ih =>
    intro s hwf op hop
    simp only [System.clientOps, List.mem_append] at hop
    rcases hop with hop | hop
    · cases o with
      | addMatch cb a =>
        simp only [System.cop, Option.toList_some, List.mem_singleton] at hop
        subst hop
        exact hwf cb a (by simp)
      | delMatch id =>
        simp only [System.cop, Option.toList_some, List.mem_singleton] at hop
        subst hop
        trivial
      | deliver k =>
        simp only [System.cop] at hop
        cases hr : s.daemon.replies[k]? with
        | none => simp [hr] at hop
        | some b =>
          cases b <;> (simp [hr] at hop; subst hop; trivial)
      | signal m =>
        simp only [System.cop] at hop
        split at hop
        · simp at hop; subst hop; trivial
        · simp at hop
    · exact ih _ (fun cb a hm => hwf cb a (List.mem_cons_of_mem _ hm)) op hop

/-! ### the daemon's reading of the client's text -/

open Spec in
theorem constraints_all_plain (a : RuleArgs) (m : Msg) (hs : a.sender = none) (hn : a.arg0ns = none) :
    (constraintsOf a).all (constraintHolds m) = specMatches a m := by
  obtain ⟨mtype, sender, iface, member, path, pathNs, dest, args, argPaths, arg0ns⟩ := a
  simp only at hs hn
  subst hs; subst hn
  simp only [constraintsOf, optC, specMatches, List.append_nil, List.all_append, List.all_map]
  have hargs : (args.getD []).all ((constraintHolds m) ∘ fun iv => Constraint.arg iv.1 iv.2) = (args.getD []).all (argIs m) := by
    congr 1
  have hpaths : (argPaths.getD []).all ((constraintHolds m) ∘ fun iv => Constraint.argPath iv.1 iv.2)
      = (argPaths.getD []).all (argPathIs m) := by
    congr 1
  rw [hargs, hpaths]
  cases mtype <;> cases iface <;> cases member <;> cases path <;> cases pathNs <;> cases dest <;>
    simp [optAll, constraintHolds, Bool.and_assoc, Bool.and_comm, Bool.and_left_comm]

open Spec in
/-- The daemon reading the client's text selects exactly the messages the specification's matching relation over ALL
keys (`specMatchesFull`, `arg0namespace` included) selects - for every rule without `sender`, the one constraint a
client-side relation cannot evaluate. -/
theorem textMatches_render_full (a : RuleArgs) (m : Msg) (hs : a.sender = none) :
    textMatches (renderRule a) m = specMatchesFull a m := by
  unfold textMatches
  rw [text_means_constraints a]
  have hsplit : constraintsOf a = constraintsOf { a with arg0ns := none } ++ optC .arg0ns a.arg0ns := by
    simp [constraintsOf, optC]
  have hplain := constraints_all_plain { a with arg0ns := none } m hs rfl
  have hsame : specMatches { a with arg0ns := none } m = specMatches a m := rfl
  simp only
  rw [hsplit, List.all_append, hplain, hsame]
  unfold specMatchesFull
  congr 1
  cases a.arg0ns <;> simp [optC, optAll, constraintHolds]

open Spec in
/-- ... and for a rule without `arg0namespace` that is the relation without the clause. -/
theorem textMatches_render (a : RuleArgs) (m : Msg) (hs : a.sender = none) (hn : a.arg0ns = none) :
    textMatches (renderRule a) m = specMatches a m := by
  rw [textMatches_render_full a m hs]
  simp [specMatchesFull, hn, optAll]

open Spec in
/-- The full relation implies the relation the tree's router is measured against, whichever it is. -/
theorem specMatchesGen_of_full (a : RuleArgs) (m : Msg) (h : specMatchesFull a m = true) : specMatchesGen a m = true := by
  unfold specMatchesGen specMatchesWith
  split
  · exact h
  · simp only [specMatchesFull, Bool.and_eq_true] at h; exact h.1

end Txdbus.Route
