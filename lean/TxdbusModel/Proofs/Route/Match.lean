import TxdbusModel.Route.Spec
import TxdbusModel.Route.Rule
/-
C12 - lemmas for `match_eq_spec`: the rule stored by `MessageRouter.addMatch` (current tables)
in explicit form, and `Rule.match` against `Spec.specMatches`, constraint by constraint.
-/
namespace Txdbus.Route

/-- Well-formed rule: no constraint value is the empty string (the router drops such a
constraint - `if interface:` - while a specification-level constraint `interface=''` would match
nothing).  Empty *argument* values (`arg0=''`) are fine. -/
structure RuleArgs.WF (a : RuleArgs) : Prop where
  mtype : a.mtype ≠ some []
  iface : a.iface ≠ some []
  member : a.member ≠ some []
  path : a.path ≠ some []
  dest : a.dest ≠ some []
  pathNs : a.pathNs ≠ some []

/-- `if c: r.add(k, v)`. -/
def Rule.addIf (T : Tables) (c : Bool) (r : Rule) (k : Str) (v : PyVal) : Rule :=
  if c then r.add T k v else r

theorem addStep_ok (T : Tables) (a : RuleArgs) (r : Rule) (pk : Str × Str) (p : Param)
    (h : Param.ofName pk.1 = some p) :
    addStep T a (.ok r) pk = .ok (r.addIf T (a.get p).truthy pk.2 (T.storedValue p (a.get p))) := by
  unfold addStep Rule.addIf
  rw [h]
  simp only
  split <;> rfl

/-- one optional entry -/
def optE (c : Bool) (k : Str) (v : PyVal) : List (Str × PyVal) := if c then [(k, v)] else []

theorem addIf_simple (T : Tables) (c : Bool) (r : Rule) (k : Str) (v : PyVal) :
    (r.addIf T c k v).simple = r.simple ++ optE (c && T.simpleKeys.contains k) k v := by
  unfold Rule.addIf Rule.add optE
  cases c <;> cases h : T.simpleKeys.contains k <;> simp

theorem addIf_attrs (T : Tables) (c : Bool) (r : Rule) (k : Str) (v : PyVal) :
    (r.addIf T c k v).attrs = optE (c && !T.simpleKeys.contains k) k v ++ r.attrs := by
  unfold Rule.addIf Rule.add optE
  cases c <;> cases h : T.simpleKeys.contains k <;> simp

/-- The value stored for the type constraint by the current router. -/
def mtypeStored (a : RuleArgs) : PyVal := Tables.cur.storedValue .mtype (optStr a.mtype)

/-- The rule `MessageRouter.addMatch` stores, in explicit form. -/
def explicitRule (a : RuleArgs) : Rule :=
  { simple :=
      optE (optStr a.mtype).truthy "_messageType".toList (mtypeStored a)
      ++ optE (optStr a.iface).truthy "interface".toList (optStr a.iface)
      ++ optE (optStr a.member).truthy "member".toList (optStr a.member)
      ++ optE (optStr a.path).truthy "path".toList (optStr a.path)
      ++ optE (optStr a.dest).truthy "destination".toList (optStr a.dest),
    attrs :=
      optE (optStr a.arg0ns).truthy "arg0namespace".toList (optStr a.arg0ns)
      ++ optE (optPairs a.argPaths).truthy "arg_paths".toList (optPairs a.argPaths)
      ++ optE (optPairs a.args).truthy "args".toList (optPairs a.args)
      ++ optE (optStr a.pathNs).truthy "path_namespace".toList (optStr a.pathNs)
      ++ optE (optStr a.sender).truthy "sender".toList (optStr a.sender) }

theorem ofName_mtype : Param.ofName "mtype".toList = some .mtype := by decide
theorem ofName_sender : Param.ofName "sender".toList = some .sender := by decide
theorem ofName_iface : Param.ofName "interface".toList = some .iface := by decide
theorem ofName_member : Param.ofName "member".toList = some .member := by decide
theorem ofName_path : Param.ofName "path".toList = some .path := by decide
theorem ofName_dest : Param.ofName "destination".toList = some .dest := by decide
theorem ofName_pathNs : Param.ofName "path_namespace".toList = some .pathNs := by decide
theorem ofName_args : Param.ofName "args".toList = some .args := by decide
theorem ofName_argPaths : Param.ofName "arg_paths".toList = some .argPaths := by decide
theorem ofName_arg0ns : Param.ofName "arg0namespace".toList = some .arg0ns := by decide

theorem storedValue_other (T : Tables) (p : Param) (v : PyVal) (h : p ≠ .mtype) : T.storedValue p v = v := by
  unfold Tables.storedValue
  cases p <;> simp_all

theorem cur_addKeys : Tables.cur.addKeys =
    [("mtype".toList, "_messageType".toList), ("sender".toList, "sender".toList),
     ("interface".toList, "interface".toList), ("member".toList, "member".toList),
     ("path".toList, "path".toList), ("destination".toList, "destination".toList),
     ("path_namespace".toList, "path_namespace".toList), ("args".toList, "args".toList),
     ("arg_paths".toList, "arg_paths".toList), ("arg0namespace".toList, "arg0namespace".toList)] := rfl

theorem cur_c_mtype : Tables.cur.simpleKeys.contains "_messageType".toList = true := by decide
theorem cur_c_sender : Tables.cur.simpleKeys.contains "sender".toList = false := by decide
theorem cur_c_iface : Tables.cur.simpleKeys.contains "interface".toList = true := by decide
theorem cur_c_member : Tables.cur.simpleKeys.contains "member".toList = true := by decide
theorem cur_c_path : Tables.cur.simpleKeys.contains "path".toList = true := by decide
theorem cur_c_dest : Tables.cur.simpleKeys.contains "destination".toList = true := by decide
theorem cur_c_pathNs : Tables.cur.simpleKeys.contains "path_namespace".toList = false := by decide
theorem cur_c_args : Tables.cur.simpleKeys.contains "args".toList = false := by decide
theorem cur_c_argPaths : Tables.cur.simpleKeys.contains "arg_paths".toList = false := by decide
theorem cur_c_arg0ns : Tables.cur.simpleKeys.contains "arg0namespace".toList = false := by decide

theorem Rule.ext' (r1 r2 : Rule) (h1 : r1.simple = r2.simple) (h2 : r1.attrs = r2.attrs) : r1 = r2 := by
  cases r1; cases r2; simp_all

theorem optE_false (k : Str) (v : PyVal) : optE false k v = [] := rfl

theorem mkRule_cur (a : RuleArgs) : mkRule Tables.cur a = .ok (explicitRule a) := by
  unfold mkRule
  rw [cur_addKeys]
  simp only [List.foldl]
  rw [addStep_ok _ a _ _ _ ofName_mtype, addStep_ok _ a _ _ _ ofName_sender, addStep_ok _ a _ _ _ ofName_iface,
    addStep_ok _ a _ _ _ ofName_member, addStep_ok _ a _ _ _ ofName_path, addStep_ok _ a _ _ _ ofName_dest,
    addStep_ok _ a _ _ _ ofName_pathNs, addStep_ok _ a _ _ _ ofName_args, addStep_ok _ a _ _ _ ofName_argPaths,
    addStep_ok _ a _ _ _ ofName_arg0ns]
  congr 1
  apply Rule.ext'
  · simp only [addIf_simple, cur_c_mtype, cur_c_sender, cur_c_iface, cur_c_member, cur_c_path, cur_c_dest,
      cur_c_pathNs, cur_c_args, cur_c_argPaths, cur_c_arg0ns, Bool.and_true, Bool.and_false, optE_false,
      List.append_nil, List.nil_append, explicitRule, RuleArgs.get, mtypeStored,
      storedValue_other _ _ _ (by decide : Param.iface ≠ .mtype), storedValue_other _ _ _ (by decide : Param.member ≠ .mtype),
      storedValue_other _ _ _ (by decide : Param.path ≠ .mtype), storedValue_other _ _ _ (by decide : Param.dest ≠ .mtype)]
  · simp only [addIf_attrs, cur_c_mtype, cur_c_sender, cur_c_iface, cur_c_member, cur_c_path, cur_c_dest,
      cur_c_pathNs, cur_c_args, cur_c_argPaths, cur_c_arg0ns, Bool.not_true, Bool.not_false, Bool.and_true, Bool.and_false, optE_false,
      List.append_nil, List.nil_append, explicitRule, RuleArgs.get,
      storedValue_other _ _ _ (by decide : Param.sender ≠ .mtype), storedValue_other _ _ _ (by decide : Param.pathNs ≠ .mtype),
      storedValue_other _ _ _ (by decide : Param.args ≠ .mtype), storedValue_other _ _ _ (by decide : Param.argPaths ≠ .mtype),
      storedValue_other _ _ _ (by decide : Param.arg0ns ≠ .mtype), List.append_assoc]

/-! ### `Rule.match` step by step -/

theorem matchSimple_ne_call (m : Msg) (l : List (Str × PyVal)) : matchSimple m l ≠ some .call := by
  induction l with
  | nil => simp [matchSimple]
  | cons kv t ih =>
    obtain ⟨k, v⟩ := kv
    unfold matchSimple
    split
    · simp
    · split
      · simp
      · exact ih

theorem matchSimple_append (m : Msg) (l1 l2 : List (Str × PyVal)) :
    matchSimple m (l1 ++ l2) = none ↔ matchSimple m l1 = none ∧ matchSimple m l2 = none := by
  induction l1 with
  | nil => simp [matchSimple]
  | cons kv t ih =>
    obtain ⟨k, v⟩ := kv
    simp only [List.cons_append, matchSimple]
    split
    · simp
    · split
      · simp
      · exact ih

theorem matchSimple_optE (m : Msg) (c : Bool) (k : Str) (v : PyVal) :
    matchSimple m (optE c k v) = none ↔ (c = true → m.getattr k = .ok v) := by
  cases c
  · simp [optE, matchSimple]
  · simp only [optE, if_true, matchSimple, forall_const]
    cases h : m.getattr k with
    | error e => simp
    | ok x =>
      by_cases hx : x = v
      · subst hx; simp [PyVal.ne]
      · simp [PyVal.ne, hx]

theorem matchNs_ne_call (r : Rule) (m : Msg) : matchNs r m ≠ some .call := by
  unfold matchNs
  repeat' split
  all_goals simp

theorem matchArgs_ne_call (b : List Arg) (l : List (Nat × Str)) : matchArgs b l ≠ some .call := by
  induction l with
  | nil => simp [matchArgs]
  | cons iv t ih =>
    obtain ⟨i, v⟩ := iv
    unfold matchArgs
    repeat' split
    all_goals first | exact ih | simp

theorem matchArgPaths_ne_call (b : List Arg) (l : List (Nat × Str)) : matchArgPaths b l ≠ some .call := by
  induction l with
  | nil => simp [matchArgPaths]
  | cons iv t ih =>
    obtain ⟨i, v⟩ := iv
    unfold matchArgPaths
    repeat' split
    all_goals first | exact ih | simp

theorem loopPairs_ne_call (f : List (Nat × Str) → Option Outcome) (hf : ∀ l, f l ≠ some .call) (o : Option PyVal) :
    loopPairs f o ≠ some .call := by
  unfold loopPairs
  split
  · simp
  · exact hf _
  · simp

theorem match_call_iff (r : Rule) (m : Msg) :
    r.match m = .call ↔
      matchSimple m r.simple = none ∧ matchNs r m = none
      ∧ loopPairs (matchArgs (m.body.getD [])) (r.attrs.lookup "args".toList) = none
      ∧ loopPairs (matchArgPaths (m.body.getD [])) (r.attrs.lookup "arg_paths".toList) = none := by
  unfold Rule.match
  have h1 := matchSimple_ne_call m r.simple
  have h2 := matchNs_ne_call r m
  have h3 := loopPairs_ne_call _ (matchArgs_ne_call (m.body.getD [])) (r.attrs.lookup "args".toList)
  have h4 := loopPairs_ne_call _ (matchArgPaths_ne_call (m.body.getD [])) (r.attrs.lookup "arg_paths".toList)
  cases ha : matchSimple m r.simple with
  | some o => simp_all
  | none =>
    cases hb : matchNs r m with
    | some o => simp_all
    | none =>
      simp only []
      cases hc : loopPairs (matchArgs (m.body.getD [])) (r.attrs.lookup "args".toList) with
      | some o => simp_all
      | none =>
        cases hd : loopPairs (matchArgPaths (m.body.getD [])) (r.attrs.lookup "arg_paths".toList) with
        | some o => simp_all
        | none => simp

/-! ### the stored attributes -/

theorem lookup_pathNs (a : RuleArgs) :
    (explicitRule a).attrs.lookup "path_namespace".toList
      = if (optStr a.pathNs).truthy then some (optStr a.pathNs) else none := by
  unfold explicitRule optE
  cases (optStr a.arg0ns).truthy <;> cases (optPairs a.argPaths).truthy <;> cases (optPairs a.args).truthy
    <;> cases (optStr a.pathNs).truthy <;> cases (optStr a.sender).truthy <;> rfl

theorem lookup_args (a : RuleArgs) :
    (explicitRule a).attrs.lookup "args".toList
      = if (optPairs a.args).truthy then some (optPairs a.args) else none := by
  unfold explicitRule optE
  cases (optStr a.arg0ns).truthy <;> cases (optPairs a.argPaths).truthy <;> cases (optPairs a.args).truthy
    <;> cases (optStr a.pathNs).truthy <;> cases (optStr a.sender).truthy <;> rfl

theorem lookup_argPaths (a : RuleArgs) :
    (explicitRule a).attrs.lookup "arg_paths".toList
      = if (optPairs a.argPaths).truthy then some (optPairs a.argPaths) else none := by
  unfold explicitRule optE
  cases (optStr a.arg0ns).truthy <;> cases (optPairs a.argPaths).truthy <;> cases (optPairs a.args).truthy
    <;> cases (optStr a.pathNs).truthy <;> cases (optStr a.sender).truthy <;> rfl

/-! ### each constraint against the spec -/

theorem getattr_mtype (m : Msg) : m.getattr "_messageType".toList = .ok (.int m.mtype) := rfl
theorem getattr_iface (m : Msg) : m.getattr "interface".toList = attrVal m.iface := rfl
theorem getattr_member (m : Msg) : m.getattr "member".toList = attrVal m.member := rfl
theorem getattr_path (m : Msg) : m.getattr "path".toList = attrVal m.path := rfl
theorem getattr_dest (m : Msg) : m.getattr "destination".toList = attrVal m.dest := rfl

/-- `_mtypes` is the inverse of the specification's table of type names. -/
theorem cur_mtypes_lookup (s : Str) (n : Nat) :
    Tables.cur.mtypes.lookup s = some n ↔ Spec.mtypeName n = some s := by
  constructor
  · intro h
    simp only [Tables.cur, List.lookup] at h
    split at h
    · rename_i he; simp at h; subst h; simp at he; subst he; rfl
    · split at h
      · rename_i he; simp at h; subst h; simp at he; subst he; rfl
      · split at h
        · rename_i he; simp at h; subst h; simp at he; subst he; rfl
        · split at h
          · rename_i he; simp at h; subst h; simp at he; subst he; rfl
          · simp at h
  · intro h
    unfold Spec.mtypeName at h
    split at h <;> simp at h <;> subst h <;> decide

theorem truthy_str (s : Str) (hs : s ≠ []) : (PyVal.str s).truthy = true := by
  simp [PyVal.truthy, hs]

theorem simple_attr_iff (c : Attr) (o : Option Str) (hwf : o ≠ some []) :
    ((optStr o).truthy = true → attrVal c = .ok (optStr o)) ↔ Spec.optAll o (fun v => c == .some v) = true := by
  cases o with
  | none => simp [optStr, PyVal.truthy, Spec.optAll]
  | some s =>
    have hs : s ≠ [] := fun h => hwf (by rw [h])
    simp only [optStr, truthy_str s hs, forall_const, Spec.optAll]
    cases c with
    | missing => simp [attrVal]
    | none => simp [attrVal]
    | some x =>
      simp only [attrVal, beq_iff_eq]
      constructor
      · intro h; simp at h; rw [h]
      · intro h; simp at h; rw [h]

theorem mtype_iff (m : Msg) (a : RuleArgs) (hwf : a.mtype ≠ some []) :
    ((optStr a.mtype).truthy = true → m.getattr "_messageType".toList = .ok (mtypeStored a))
      ↔ Spec.optAll a.mtype (fun t => Spec.mtypeName m.mtype == some t) = true := by
  rw [getattr_mtype]
  cases hm : a.mtype with
  | none => simp [optStr, PyVal.truthy, Spec.optAll]
  | some s =>
    have hs : s ≠ [] := fun h => hwf (by rw [hm, h])
    have hl : Tables.cur.mtypeLookup = true := rfl
    simp only [optStr, truthy_str s hs, forall_const, Spec.optAll, mtypeStored, hm, Tables.storedValue, hl, if_true,
      beq_iff_eq]
    cases hlk : Tables.cur.mtypes.lookup s with
    | none =>
      constructor
      · intro h; simp at h
      · intro h
        have := (cur_mtypes_lookup s m.mtype).mpr h
        rw [hlk] at this; simp at this
    | some n =>
      constructor
      · intro h
        simp at h
        subst h
        exact (cur_mtypes_lookup s _).mp hlk
      · intro h
        have := (cur_mtypes_lookup s m.mtype).mpr h
        rw [hlk] at this
        simp at this
        rw [this]

theorem inNamespace_eq (ns p : Str) : inNamespace p ns = Spec.inNamespace ns p := by
  unfold inNamespace Spec.inNamespace
  cases (p == ns) <;> cases (ns == ['/']) <;> rfl

theorem argPathMatches_eq (v a : Str) : argPathMatches a v = Spec.argPathMatches v a := rfl

theorem ns_iff (m : Msg) (a : RuleArgs) (hwf : a.pathNs ≠ some []) :
    matchNs (explicitRule a) m = none ↔ Spec.optAll a.pathNs (Spec.pathIn m) = true := by
  unfold matchNs
  rw [lookup_pathNs]
  cases hp : a.pathNs with
  | none => simp [optStr, PyVal.truthy, Spec.optAll]
  | some ns =>
    have hs : ns ≠ [] := fun h => hwf (by rw [hp, h])
    simp only [optStr, truthy_str ns hs, if_true, Spec.optAll, Spec.pathIn]
    cases m.path with
    | missing => simp
    | none => simp
    | some p =>
      simp only [inNamespace_eq]
      cases Spec.inNamespace ns p <;> simp

theorem args_loop_iff (m : Msg) (l : List (Nat × Str)) :
    matchArgs (m.body.getD []) l = none ↔ l.all (Spec.argIs m) = true := by
  induction l with
  | nil => simp [matchArgs]
  | cons iv t ih =>
    obtain ⟨i, v⟩ := iv
    simp only [matchArgs, List.all_cons, Bool.and_eq_true, Spec.argIs, Msg.arg?]
    cases hb : (m.body.getD [])[i]? with
    | none => simp
    | some x =>
      cases x with
      | other => simp
      | str s =>
        by_cases hsv : s = v
        · subst hsv; simp [ih, Spec.argIs, Msg.arg?]
        · simp [hsv]

theorem argPaths_loop_iff (m : Msg) (l : List (Nat × Str)) :
    matchArgPaths (m.body.getD []) l = none ↔ l.all (Spec.argPathIs m) = true := by
  induction l with
  | nil => simp [matchArgPaths]
  | cons iv t ih =>
    obtain ⟨i, v⟩ := iv
    simp only [matchArgPaths, List.all_cons, Bool.and_eq_true, Spec.argPathIs, Msg.arg?]
    cases hb : (m.body.getD [])[i]? with
    | none => simp
    | some x =>
      cases x with
      | other => simp
      | str s =>
        simp only [argPathMatches_eq]
        by_cases hap : Spec.argPathMatches v s = true
        · simp [hap, ih]
        · simp [hap]

theorem truthy_pairs (l : List (Nat × Str)) : (PyVal.pairs l).truthy = !l.isEmpty := rfl

theorem args_iff (m : Msg) (a : RuleArgs) :
    loopPairs (matchArgs (m.body.getD [])) ((explicitRule a).attrs.lookup "args".toList) = none
      ↔ (a.args.getD []).all (Spec.argIs m) = true := by
  rw [lookup_args]
  cases a.args with
  | none => simp [optPairs, PyVal.truthy, loopPairs]
  | some l =>
    cases l with
    | nil => simp [optPairs, PyVal.truthy, loopPairs]
    | cons x t =>
      simp only [optPairs, truthy_pairs, List.isEmpty_cons, Bool.not_false, if_true, loopPairs, Option.getD_some]
      exact args_loop_iff m (x :: t)

theorem argPaths_iff (m : Msg) (a : RuleArgs) :
    loopPairs (matchArgPaths (m.body.getD [])) ((explicitRule a).attrs.lookup "arg_paths".toList) = none
      ↔ (a.argPaths.getD []).all (Spec.argPathIs m) = true := by
  rw [lookup_argPaths]
  cases a.argPaths with
  | none => simp [optPairs, PyVal.truthy, loopPairs]
  | some l =>
    cases l with
    | nil => simp [optPairs, PyVal.truthy, loopPairs]
    | cons x t =>
      simp only [optPairs, truthy_pairs, List.isEmpty_cons, Bool.not_false, if_true, loopPairs, Option.getD_some]
      exact argPaths_loop_iff m (x :: t)

/-- `Rule.match` of the rule stored for `a` invokes the callback iff the message satisfies `a`. -/
theorem explicit_match_iff (a : RuleArgs) (m : Msg) (hwf : a.WF) :
    (explicitRule a).match m = .call ↔ Spec.specMatches a m = true := by
  rw [match_call_iff, ns_iff m a hwf.pathNs, args_iff, argPaths_iff]
  have hs : matchSimple m (explicitRule a).simple = none ↔
      (Spec.optAll a.mtype (fun t => Spec.mtypeName m.mtype == some t) = true
       ∧ Spec.optAll a.iface (fun v => m.iface == .some v) = true
       ∧ Spec.optAll a.member (fun v => m.member == .some v) = true
       ∧ Spec.optAll a.path (fun v => m.path == .some v) = true
       ∧ Spec.optAll a.dest (fun v => m.dest == .some v) = true) := by
    simp only [explicitRule, matchSimple_append, matchSimple_optE, getattr_iface, getattr_member, getattr_path,
      getattr_dest, mtype_iff m a hwf.mtype, simple_attr_iff _ _ hwf.iface, simple_attr_iff _ _ hwf.member,
      simple_attr_iff _ _ hwf.path, simple_attr_iff _ _ hwf.dest, and_assoc]
  rw [hs]
  unfold Spec.specMatches
  simp only [Bool.and_eq_true, and_assoc]

/-! ### the `arg0namespace` clause (fixes/C14-05) and the matcher of either tree -/

/-- Well-formed over ALL keys: `RuleArgs.WF`, and the `arg0namespace` value is not the empty string either (the
router drops it - `if arg0namespace:` - like every other falsy value). -/
structure RuleArgs.WFAll (a : RuleArgs) : Prop where
  base : a.WF
  arg0ns : a.arg0ns ≠ some []

theorem lookup_arg0ns (a : RuleArgs) :
    (explicitRule a).attrs.lookup "arg0namespace".toList
      = if (optStr a.arg0ns).truthy then some (optStr a.arg0ns) else none := by
  unfold explicitRule optE
  cases (optStr a.arg0ns).truthy <;> cases (optPairs a.argPaths).truthy <;> cases (optPairs a.args).truthy
    <;> cases (optStr a.pathNs).truthy <;> cases (optStr a.sender).truthy <;> rfl

theorem matchArg0ns_ne_call (r : Rule) (body : List Arg) : matchArg0ns r body ≠ some .call := by
  unfold matchArg0ns
  split
  · simp
  · split
    · split <;> simp
    · simp
  · simp

theorem ite_none_iff (b : Bool) : (if b = true then (none : Option Outcome) else some .skip) = none ↔ b = true := by
  cases b <;> simp

theorem arg0ns_iff (a : RuleArgs) (m : Msg) (h : a.arg0ns ≠ some []) :
    matchArg0ns (explicitRule a) (m.body.getD []) = none ↔ Spec.optAll a.arg0ns (Spec.arg0In m) = true := by
  unfold matchArg0ns
  rw [lookup_arg0ns]
  cases ha : a.arg0ns with
  | none => simp [optStr, PyVal.truthy, Spec.optAll]
  | some ns =>
    cases ns with
    | nil => exact absurd ha h
    | cons c t =>
      simp only [optStr, PyVal.truthy, List.isEmpty_cons, Bool.not_false, if_true, Spec.optAll, Spec.arg0In, Msg.arg?,
        List.head?_eq_getElem?]
      cases (m.body.getD [])[0]? with
      | none => simp
      | some x =>
        cases x with
        | other => simp
        | str s =>
          simp only [inBusNamespace, Spec.inBusNamespace]
          exact ite_none_iff _

theorem explicit_matchWith_iff (ev : Bool) (a : RuleArgs) (m : Msg) (hwf : a.WFAll) :
    (explicitRule a).matchWith ev m = .call ↔ Spec.specMatchesWith ev a m = true := by
  have hbase := explicit_match_iff a m hwf.base
  have h0 := arg0ns_iff a m hwf.arg0ns
  have hne := matchArg0ns_ne_call (explicitRule a) (m.body.getD [])
  unfold Rule.matchWith Spec.specMatchesWith Spec.specMatchesFull
  cases ev with
  | false =>
    simp only [Bool.false_eq_true, if_false]
    cases hm : (explicitRule a).match m <;> simp_all
  | true =>
    simp only [if_true, Bool.and_eq_true]
    cases hm : (explicitRule a).match m with
    | call =>
      simp only
      cases ha : matchArg0ns (explicitRule a) (m.body.getD []) with
      | none => simp_all
      | some o =>
        have hn : ¬ (matchArg0ns (explicitRule a) (m.body.getD []) = none) := by rw [ha]; simp
        have : ¬ (Spec.optAll a.arg0ns (Spec.arg0In m) = true) := fun e => hn (h0.mpr e)
        constructor
        · intro e; subst e; exact absurd ha hne
        · intro e; exact absurd e.2 this
    | skip =>
      have : ¬ (Spec.specMatches a m = true) := fun e => by rw [hbase.mpr e] at hm; cases hm
      simp [this]
    | err =>
      have : ¬ (Spec.specMatches a m = true) := fun e => by rw [hbase.mpr e] at hm; cases hm
      simp [this]

theorem explicit_matchGen_iff (a : RuleArgs) (m : Msg) (hwf : a.WFAll) :
    (explicitRule a).matchGen m = .call ↔ Spec.specMatchesGen a m = true :=
  explicit_matchWith_iff _ a m hwf

end Txdbus.Route
