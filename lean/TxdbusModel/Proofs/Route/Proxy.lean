import TxdbusModel.Route.Proxy
/-
C12 - the proxy's signature gate: `isSignatureValid` is equality of signatures where an absent
signature and the empty signature are the same.
-/
namespace Txdbus.Route

theorem isSignatureValid_iff (d r : Option Str) : isSignatureValid d r = true ↔ sigNorm d = sigNorm r := by
  cases d with
  | none =>
    cases r with
    | none => simp [isSignatureValid, strTruthy, sigNorm]
    | some y =>
      cases y with
      | nil => simp [isSignatureValid, strTruthy, sigNorm]
      | cons c t => simp [isSignatureValid, strTruthy, sigNorm]
  | some x =>
    cases x with
    | nil =>
      cases r with
      | none => simp [isSignatureValid, strTruthy, sigNorm]
      | some y =>
        cases y with
        | nil => simp [isSignatureValid, strTruthy, sigNorm]
        | cons c t => simp [isSignatureValid, strTruthy, sigNorm]
    | cons a s =>
      cases r with
      | none => simp [isSignatureValid, strTruthy, sigNorm]
      | some y =>
        cases y with
        | nil => simp [isSignatureValid, strTruthy, sigNorm]
        | cons c t => simp [isSignatureValid, strTruthy, sigNorm]

theorem proxyGate_args (d r : Option Str) (b : Option (List Arg)) :
    proxyGate d r b = if isSignatureValid d r then some (b.getD []) else none := by
  unfold proxyGate
  cases isSignatureValid d r
  · rfl
  · cases b with
    | none => rfl
    | some l => cases l <;> rfl

/-! ### interface selection of `notifyOnSignal` -/

/-- An interface passes the `interface=` filter. -/
def passes (req : Option Str) (i : IfaceDecl) : Prop := strTruthy req = true → req = some i.name

theorem passes_iff (req : Option Str) (i : IfaceDecl) :
    (strTruthy req && !(some i.name == req)) = false ↔ passes req i := by
  unfold passes
  cases strTruthy req
  · simp
  · simp only [Bool.true_and, Bool.not_eq_false', beq_iff_eq, forall_const]
    constructor <;> intro h <;> exact h.symm

/-- What `notifyOnSignal` selects is declared: an interface of the proxy that passes the filter and
declares the signal with that signature - and it is the first such interface. -/
theorem selectSignal_some (name : Str) (req : Option Str) (ifs : List IfaceDecl) (n sg : Str)
    (h : selectSignal name req ifs = some (n, sg)) :
    ∃ pre i post, ifs = pre ++ i :: post ∧ i.name = n ∧ i.signals.lookup name = some sg ∧ passes req i
      ∧ ∀ j ∈ pre, ¬ (passes req j ∧ (j.signals.lookup name).isSome) := by
  induction ifs with
  | nil => simp [selectSignal] at h
  | cons i rest ih =>
    unfold selectSignal at h
    cases hp : (strTruthy req && !(some i.name == req)) with
    | true =>
      rw [hp] at h
      simp only [if_true] at h
      obtain ⟨pre, x, post, h1, h2, h3, h4, h5⟩ := ih h
      refine ⟨i :: pre, x, post, by simp [h1], h2, h3, h4, ?_⟩
      intro j hj
      simp only [List.mem_cons] at hj
      cases hj with
      | inl e =>
        subst e
        intro hh
        have := (passes_iff req j).mpr hh.1
        rw [hp] at this; cases this
      | inr e => exact h5 j e
    | false =>
      rw [hp] at h
      simp only [Bool.false_eq_true, if_false] at h
      have hpass := (passes_iff req i).mp hp
      cases hl : i.signals.lookup name with
      | some s' =>
        rw [hl] at h
        simp only [Option.some.injEq, Prod.mk.injEq] at h
        refine ⟨[], i, rest, rfl, h.1, by rw [hl, h.2], hpass, by simp⟩
      | none =>
        rw [hl] at h
        obtain ⟨pre, x, post, h1, h2, h3, h4, h5⟩ := ih h
        refine ⟨i :: pre, x, post, by simp [h1], h2, h3, h4, ?_⟩
        intro j hj
        simp only [List.mem_cons] at hj
        cases hj with
        | inl e => subst e; intro hh; rw [hl] at hh; simp at hh
        | inr e => exact h5 j e

/-- `AttributeError` exactly when no interface that passes the filter declares the signal. -/
theorem selectSignal_none (name : Str) (req : Option Str) (ifs : List IfaceDecl) :
    selectSignal name req ifs = none ↔ ∀ i ∈ ifs, ¬ (passes req i ∧ (i.signals.lookup name).isSome) := by
  induction ifs with
  | nil => simp [selectSignal]
  | cons i rest ih =>
    unfold selectSignal
    cases hp : (strTruthy req && !(some i.name == req)) with
    | true =>
      simp only [if_true, ih, List.mem_cons, forall_eq_or_imp]
      constructor
      · intro h
        refine ⟨?_, h⟩
        intro hh
        have := (passes_iff req i).mpr hh.1
        rw [hp] at this; cases this
      · intro h; exact h.2
    | false =>
      have hpass := (passes_iff req i).mp hp
      simp only [Bool.false_eq_true, if_false, List.mem_cons, forall_eq_or_imp]
      cases hl : i.signals.lookup name with
      | some s' => simp [hpass]
      | none => simp [ih]

/-! ### `_signalRules` -/

theorem onOk_mem (p : ProxySubs) (id j : Nat) : j ∈ (p.onOk id).rules ↔ j = id ∨ j ∈ p.rules := by
  unfold ProxySubs.onOk
  by_cases h : p.rules.contains id = true
  · simp only [h, if_true]
    constructor
    · intro hj; exact Or.inr hj
    · intro hj
      cases hj with
      | inl e => subst e; exact List.contains_iff_mem.mp h
      | inr e => exact e
  · have hm : id ∉ p.rules := fun e => h (List.contains_iff_mem.mpr e)
    simp [hm]

/-- `cancelSignalNotification(id)` calls `delMatch(id)` iff `id` is a current subscription of this proxy;
afterwards `id` is no subscription any more and every other subscription is untouched. -/
theorem cancel_spec (p : ProxySubs) (id : Nat) :
    ((p.cancel id).2 = if id ∈ p.rules then some id else none)
    ∧ id ∉ (p.cancel id).1.rules
    ∧ ∀ j, j ≠ id → (j ∈ (p.cancel id).1.rules ↔ j ∈ p.rules) := by
  unfold ProxySubs.cancel
  by_cases h : p.rules.contains id = true
  · have hm : id ∈ p.rules := List.contains_iff_mem.mp h
    simp only [h, if_true, hm]
    refine ⟨trivial, ?_, ?_⟩
    · simp [List.mem_filter]
    · intro j hj; simp [List.mem_filter, hj]
  · have hm : id ∉ p.rules := fun e => h (List.contains_iff_mem.mpr e)
    simp only [h, hm, if_false]
    exact ⟨rfl, hm, fun j _ => Iff.rfl⟩

/-! ### several proxies: each has its own `_signalRules` -/

theorem ProxyTable.get_put (t : List ProxySubs) (p q : Nat) (v : ProxySubs) :
    ProxyTable.get (ProxyTable.put t p v) q = if q = p then v else ProxyTable.get t q := by
  unfold ProxyTable.get ProxyTable.put
  have hlen : p < (t ++ List.replicate (p + 1 - t.length) ({} : ProxySubs)).length := by
    simp only [List.length_append, List.length_replicate]; omega
  by_cases hq : q = p
  · subst hq
    simp only [if_true, List.getD_eq_getElem?_getD, List.getElem?_set_self hlen, Option.getD_some]
  · simp only [hq, if_false, List.getD_eq_getElem?_getD]
    rw [List.getElem?_set_ne (fun e => hq e.symm)]
    by_cases hql : q < t.length
    · rw [List.getElem?_append_left hql]
    · rw [List.getElem?_append_right (by omega)]
      have hnone : t[q]? = none := List.getElem?_eq_none (by omega)
      rw [hnone]
      by_cases hr : q - t.length < p + 1 - t.length
      · simp [hr]
      · simp [hr]

end Txdbus.Route
