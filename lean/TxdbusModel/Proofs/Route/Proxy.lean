import TxdbusModel.Route.Proxy
/-
C12 - the proxy's signature gate: `isSignatureValid` is equality of signatures where an absent
signature and the empty signature are the same.
-/
namespace Txdbus.Route

theorem isSignatureValid_iff (d r : Option Str) : isSignatureValid d r = true ↔ sigNorm d = sigNorm r := by
  cases d with
  | none =>
    cases r with
    | none => simp [isSignatureValid, strTruthy, sigNorm]
    | some y =>
      cases y with
      | nil => simp [isSignatureValid, strTruthy, sigNorm]
      | cons c t => simp [isSignatureValid, strTruthy, sigNorm]
  | some x =>
    cases x with
    | nil =>
      cases r with
      | none => simp [isSignatureValid, strTruthy, sigNorm]
      | some y =>
        cases y with
        | nil => simp [isSignatureValid, strTruthy, sigNorm]
        | cons c t => simp [isSignatureValid, strTruthy, sigNorm]
    | cons a s =>
      cases r with
      | none => simp [isSignatureValid, strTruthy, sigNorm]
      | some y =>
        cases y with
        | nil => simp [isSignatureValid, strTruthy, sigNorm]
        | cons c t => simp [isSignatureValid, strTruthy, sigNorm]

theorem proxyGate_args (d r : Option Str) (b : Option (List Arg)) :
    proxyGate d r b = if isSignatureValid d r then some (b.getD []) else none := by
  unfold proxyGate
  cases isSignatureValid d r
  · rfl
  · cases b with
    | none => rfl
    | some l => cases l <;> rfl

end Txdbus.Route
