import TxdbusModel.Route.Client
import TxdbusModel.Proofs.Route.Router
/-
C12 - the client connection: every step of `DBusClientConnection` either leaves its local router
alone or performs exactly one `MessageRouter` operation on it (refinement), and `match_rules`
always holds, for every live rule, the text rendered from that rule's constraints (so that
`RemoveMatch` carries the text `AddMatch` carried).
-/
namespace Txdbus.Route

open Spec

/-- The router operation a client step performs, if any. -/
def Client.routerOp (c : Client) : COp → Option Op
  | .replyOk k =>
    match c.calls[k]? with
    | some (some (.addOk cb a _)) => some (.add cb a)
    | some (some (.delOk id)) => if (c.matchRules.lookup id).isSome then some (.del id) else none
    | _ => none
  | .signal m => some (.route m)
  | _ => none

def Router.stepOpt (T : Tables) (raises : Nat → Cb → Bool) (s : Router) : Option Op → Router
  | none => s
  | some op => (s.step T raises op).1

def Spec.SpecRouter.stepOpt (g : SpecRouter) : Option Op → SpecRouter
  | none => g
  | some op => (g.step op).1

theorem client_step_router (T : Tables) (raises : Nat → Cb → Bool) (c : Client) (op : COp) :
    (c.step T raises op).1.router = c.router.stepOpt T raises (c.routerOp op) := by
  cases op with
  | addMatch cb a => rfl
  | delMatch id =>
    simp only [Client.step, Client.routerOp, Router.stepOpt]
    split <;> rfl
  | replyOk k =>
    simp only [Client.step, Client.routerOp]
    cases hk : c.calls[k]? with
    | none => rfl
    | some p =>
      cases p with
      | none => rfl
      | some pend =>
        cases pend with
        | addOk cb a text =>
          simp only [Router.stepOpt, Router.step]
          cases hadd : c.router.add T cb a with
          | error e => rfl
          | ok ri => rfl
        | delOk id =>
          simp only
          by_cases hl : (c.matchRules.lookup id).isSome = true
          · simp only [hl, if_true, Router.stepOpt, Router.step]
            cases hdel : c.router.del id with
            | none => rfl
            | some r' => rfl
          · simp only [hl, Router.stepOpt]
            rfl
  | replyErr k =>
    simp only [Client.step, Client.routerOp, Router.stepOpt]
    split <;> rfl
  | signal m => rfl

/-- The router history a client history amounts to. -/
def Client.routerTrace (T : Tables) (raises : Nat → Cb → Bool) : Client → List COp → List Op
  | _, [] => []
  | c, op :: ops => (c.routerOp op).toList ++ Client.routerTrace T raises (c.step T raises op).1 ops

theorem run_append (T : Tables) (raises : Nat → Cb → Bool) (l1 l2 : List Op) : ∀ s : Router,
    (Router.run T raises s (l1 ++ l2)).1 = (Router.run T raises (Router.run T raises s l1).1 l2).1 := by
  induction l1 with
  | nil => intro s; rfl
  | cons op t ih => intro s; simp only [List.cons_append, Router.run]; exact ih _

theorem client_run_router (T : Tables) (raises : Nat → Cb → Bool) (h : List COp) : ∀ c : Client,
    (Client.run T raises c h).1.router = (Router.run T raises c.router (Client.routerTrace T raises c h)).1 := by
  induction h with
  | nil => intro c; rfl
  | cons op ops ih =>
    intro c
    simp only [Client.run, Client.routerTrace]
    rw [ih, run_append, client_step_router]
    cases c.routerOp op with
    | none => rfl
    | some rop => rfl

/-! ### the invariant tying the client to the abstract registry -/

def COp.WF : COp → Prop
  | .addMatch _ a => a.WFAll
  | _ => True

def Reg.textEntry (g : Reg) : Nat × Str := (g.id, renderRule g.args)

structure CInv (c : Client) (g : SpecRouter) : Prop where
  sim : Sim c.router g
  texts : c.matchRules = g.live.map Reg.textEntry
  pending : ∀ (k : Nat) (cb : Cb) (a : RuleArgs) (text : Str), c.calls[k]? = some (some (Pending.addOk cb a text)) → text = renderRule a ∧ a.WFAll

theorem lookup_textEntry (l : List Reg) (id : Nat) :
    ((l.map Reg.textEntry).lookup id).isSome = l.any (fun g => g.id = id) := by
  induction l with
  | nil => rfl
  | cons g t ih =>
    simp only [List.map_cons, Reg.textEntry, List.lookup, List.any_cons]
    cases hb : (id == g.id) with
    | true =>
      have : g.id = id := (beq_iff_eq.mp hb).symm
      simp [this]
    | false =>
      have h1 : ¬ id = g.id := by simpa using hb
      have h2 : ¬ g.id = id := fun e => h1 e.symm
      simp only [h2, decide_false, Bool.false_or]
      exact ih

theorem lookup_textEntry_mem (l : List Reg) (id : Nat) (text : Str)
    (h : (l.map Reg.textEntry).lookup id = some text) : ∃ g ∈ l, g.id = id ∧ text = renderRule g.args := by
  induction l with
  | nil => simp at h
  | cons g t ih =>
    simp only [List.map_cons, Reg.textEntry, List.lookup] at h
    cases hb : (id == g.id) with
    | true =>
      rw [hb] at h
      simp only [Option.some.injEq] at h
      exact ⟨g, by simp, (beq_iff_eq.mp hb).symm, h.symm⟩
    | false =>
      rw [hb] at h
      obtain ⟨g', hg', h1, h2⟩ := ih h
      exact ⟨g', by simp [hg'], h1, h2⟩

theorem filter_textEntry (l : List Reg) (id : Nat) :
    (l.map Reg.textEntry).filter (fun p => p.1 ≠ id) = (l.filter (fun g => g.id ≠ id)).map Reg.textEntry := by
  rw [List.filter_map]
  rfl

theorem filter_all_ne (l : List Reg) (i : Nat) (h : ∀ r ∈ l, r.id < i) :
    (l.map Reg.textEntry).filter (fun p => p.1 ≠ i) = l.map Reg.textEntry := by
  rw [List.filter_eq_self]
  intro p hp
  obtain ⟨r, hr, rfl⟩ := List.mem_map.mp hp
  have hlt : r.id < i := h r hr
  have hne : r.id ≠ i := by omega
  simp [Reg.textEntry, hne]

theorem getElem?_setNone {α : Type} (l : List (Option α)) (k j : Nat) (x : α)
    (h : (setNone k l)[j]? = some (some x)) : l[j]? = some (some x) := by
  induction l generalizing k j with
  | nil => simp [setNone] at h
  | cons y t ih =>
    cases k with
    | zero =>
      cases j with
      | zero => simp [setNone] at h
      | succ j => simpa [setNone] using h
    | succ k =>
      cases j with
      | zero => simpa [setNone] using h
      | succ j =>
        simp only [setNone, List.getElem?_cons_succ] at h ⊢
        exact ih k j h

theorem getElem?_append_some {α : Type} (l : List (Option α)) (y : Option α) (j : Nat) (x : α)
    (h : (l ++ [y])[j]? = some (some x)) : l[j]? = some (some x) ∨ y = some x := by
  by_cases hj : j < l.length
  · left; rwa [List.getElem?_append_left hj] at h
  · right
    rw [List.getElem?_append_right (by omega)] at h
    cases hjl : j - l.length with
    | zero => simp [hjl] at h; exact h
    | succ n => simp [hjl] at h

theorem cinv_step (raises : Nat → Cb → Bool) (c : Client) (g : SpecRouter) (op : COp)
    (hc : CInv c g) (hop : op.WF) :
    CInv (c.step Tables.cur raises op).1 (g.stepOpt (c.routerOp op)) := by
  cases op with
  | addMatch cb a =>
    simp only [Client.step, Client.routerOp, SpecRouter.stepOpt]
    refine ⟨hc.sim, hc.texts, ?_⟩
    intro k cb' a' text' hk
    rcases getElem?_append_some _ _ _ _ hk with h | h
    · exact hc.pending k cb' a' text' h
    · simp only [Option.some.injEq, Pending.addOk.injEq] at h
      obtain ⟨_, rfl, rfl⟩ := h
      exact ⟨rfl, hop⟩
  | delMatch id =>
    simp only [Client.step, Client.routerOp, SpecRouter.stepOpt]
    split
    · exact hc
    · refine ⟨hc.sim, hc.texts, ?_⟩
      intro k cb' a' text' hk
      rcases getElem?_append_some _ _ _ _ hk with h | h
      · exact hc.pending k cb' a' text' h
      · simp at h
  | replyOk k =>
    simp only [Client.step, Client.routerOp]
    cases hk : c.calls[k]? with
    | none => exact hc
    | some p =>
      cases p with
      | none => exact hc
      | some pend =>
        have hpend : ∀ j cb' a' text', (setNone k c.calls)[j]? = some (some (Pending.addOk cb' a' text')) →
            text' = renderRule a' ∧ a'.WFAll :=
          fun j cb' a' text' hj => hc.pending j cb' a' text' (getElem?_setNone _ _ _ _ hj)
        cases pend with
        | addOk cb a text =>
          obtain ⟨htext, hwf⟩ := hc.pending k cb a text hk
          have hstep := sim_step raises c.router g (.add cb a) hc.sim hwf
          simp only [Router.step, Router.add, mkRule_cur] at hstep
          simp only [SpecRouter.stepOpt, Router.add, mkRule_cur]
          refine ⟨hstep.1, ?_, hpend⟩
          simp only [SpecRouter.step, List.map_append, List.map_cons, List.map_nil]
          rw [hc.texts, hc.sim.next, filter_all_ne _ _ hc.sim.lt]
          simp [Reg.textEntry, htext]
        | delOk id =>
          simp only
          by_cases hl : (c.matchRules.lookup id).isSome = true
          · simp only [hl, if_true, SpecRouter.stepOpt]
            have hany : g.live.any (fun r => r.id = id) = true := by
              rw [← lookup_textEntry, ← hc.texts]; exact hl
            have hstep := sim_step raises c.router g (.del id) hc.sim trivial
            simp only [Router.step, Router.del, SpecRouter.step, hany, if_true] at hstep
            have hany' : c.router.rules.any (fun e => e.id = id) = true := by
              rw [hc.sim.rules, any_entry]; exact hany
            simp only [hany', if_true] at hstep
            simp only [Router.del, hany', if_true, SpecRouter.step, hany]
            refine ⟨hstep.1, ?_, hpend⟩
            simp only
            rw [hc.texts, filter_textEntry]
          · simp only [hl, SpecRouter.stepOpt]
            exact ⟨hc.sim, hc.texts, hpend⟩
  | replyErr k =>
    simp only [Client.step, Client.routerOp, SpecRouter.stepOpt]
    split
    · refine ⟨hc.sim, hc.texts, ?_⟩
      intro j cb' a' text' hj
      exact hc.pending j cb' a' text' (getElem?_setNone _ _ _ _ hj)
    · exact hc
  | signal m => exact hc

theorem cinv_init : CInv {} {} :=
  ⟨sim_init, rfl, by intro k cb a text h; simp at h⟩

/-- The abstract registry after a client history. -/
def Client.specAfter (raises : Nat → Cb → Bool) : Client → SpecRouter → List COp → SpecRouter
  | _, g, [] => g
  | c, g, op :: ops => Client.specAfter raises (c.step Tables.cur raises op).1 (g.stepOpt (c.routerOp op)) ops

theorem cinv_run (raises : Nat → Cb → Bool) (h : List COp) : ∀ (c : Client) (g : SpecRouter),
    CInv c g → (∀ op ∈ h, op.WF) →
    CInv (Client.run Tables.cur raises c h).1 (Client.specAfter raises c g h) := by
  induction h with
  | nil => intro c g hc _; exact hc
  | cons op ops ih =>
    intro c g hc hwf
    simp only [Client.run, Client.specAfter]
    exact ih _ _ (cinv_step raises c g op hc (hwf op (by simp))) (fun o ho => hwf o (by simp [ho]))

/-! ### the client against the history-only registry `Spec.ClientSpec` -/

def Pending.request : Pending → Request
  | .addOk cb a _ => .add cb a
  | .delOk id => .del id

structure Link (c : Client) (s : ClientSpec) : Prop where
  inv : CInv c s.reg
  reqs : c.calls.map (Option.map Pending.request) = s.requests

theorem map_setNone (k : Nat) (l : List (Option Pending)) :
    (setNone k l).map (Option.map Pending.request) = answered k (l.map (Option.map Pending.request)) := by
  induction l generalizing k with
  | nil => cases k <;> rfl
  | cons x t ih =>
    cases k with
    | zero => rfl
    | succ k => simp [setNone, answered, ih]

theorem requests_getElem (c : Client) (s : ClientSpec) (h : Link c s) (k : Nat) :
    s.requests[k]? = (c.calls[k]?).map (Option.map Pending.request) := by
  rw [← h.reqs]; simp

theorem del_absent (g : SpecRouter) (id : Nat) (h : ¬ g.live.any (fun r => r.id = id) = true) :
    (g.step (.del id)).1 = g := by
  simp only [SpecRouter.step, h]
  rfl

theorem link_step (raises : Nat → Cb → Bool) (c : Client) (s : ClientSpec) (op : COp)
    (h : Link c s) (hop : op.WF) : Link (c.step Tables.cur raises op).1 (s.step op) := by
  have hinv := cinv_step raises c s.reg op h.inv hop
  have hany : ∀ id, (c.matchRules.lookup id).isSome = s.reg.live.any (fun r => r.id = id) := by
    intro id; rw [h.inv.texts, lookup_textEntry]
  cases op with
  | addMatch cb a =>
    refine ⟨?_, ?_⟩
    · simpa [ClientSpec.step, Client.routerOp, SpecRouter.stepOpt] using hinv
    · simp [Client.step, ClientSpec.step, ← h.reqs, Pending.request]
  | delMatch id =>
    have ha := hany id
    cases hl : c.matchRules.lookup id with
    | none =>
      have hf : s.reg.live.any (fun r => r.id = id) = false := by rw [← ha, hl]; rfl
      refine ⟨?_, ?_⟩
      · simpa [ClientSpec.step, hf, Client.routerOp, SpecRouter.stepOpt] using hinv
      · simp [Client.step, ClientSpec.step, hl, hf, h.reqs]
    | some text =>
      have ht : s.reg.live.any (fun r => r.id = id) = true := by rw [← ha, hl]; rfl
      refine ⟨?_, ?_⟩
      · simpa [ClientSpec.step, ht, Client.routerOp, SpecRouter.stepOpt] using hinv
      · simp [Client.step, ClientSpec.step, hl, ht, ← h.reqs, Pending.request]
  | replyOk k =>
    have hk := requests_getElem c s h k
    cases hc : c.calls[k]? with
    | none =>
      rw [hc] at hk
      refine ⟨?_, ?_⟩
      · simpa [ClientSpec.step, hk, Client.routerOp, hc, SpecRouter.stepOpt] using hinv
      · simp [Client.step, ClientSpec.step, hc, hk, h.reqs]
    | some p =>
      cases p with
      | none =>
        rw [hc] at hk
        refine ⟨?_, ?_⟩
        · simpa [ClientSpec.step, hk, Client.routerOp, hc, SpecRouter.stepOpt] using hinv
        · simp [Client.step, ClientSpec.step, hc, hk, h.reqs]
      | some pend =>
        rw [hc] at hk
        cases pend with
        | addOk cb a text =>
          simp only [Option.map_some, Pending.request] at hk
          refine ⟨?_, ?_⟩
          · simpa [ClientSpec.step, hk, Client.routerOp, hc, SpecRouter.stepOpt] using hinv
          · simp only [Client.step, hc, ClientSpec.step, hk, Router.add, mkRule_cur]
            rw [← h.reqs, map_setNone]
          | delOk id =>
          simp only [Option.map_some, Pending.request] at hk
          have ha := hany id
          by_cases hl : (c.matchRules.lookup id).isSome = true
          · have ht : s.reg.live.any (fun r => r.id = id) = true := by rw [← ha]; exact hl
            refine ⟨?_, ?_⟩
            · simpa [ClientSpec.step, hk, Client.routerOp, hc, hl, SpecRouter.stepOpt] using hinv
            · simp only [Client.step, hc, hl, if_true, ClientSpec.step, hk]
              have hany' : c.router.rules.any (fun e => e.id = id) = true := by
                rw [h.inv.sim.rules, any_entry]; exact ht
              simp only [Router.del, hany', if_true]
              rw [← h.reqs, map_setNone]
          · have hf : ¬ s.reg.live.any (fun r => r.id = id) = true := by rw [← ha]; exact hl
            refine ⟨?_, ?_⟩
            · have : (s.step (.replyOk k)).reg = s.reg := by
                simp only [ClientSpec.step, hk]; exact del_absent _ _ hf
              rw [this]
              simpa [Client.routerOp, hc, hl, SpecRouter.stepOpt] using hinv
            · simp only [Client.step, hc, hl, ClientSpec.step, hk, Bool.false_eq_true, if_false]
              rw [← h.reqs, map_setNone]
  | replyErr k =>
    have hk := requests_getElem c s h k
    cases hc : c.calls[k]? with
    | none =>
      rw [hc] at hk
      refine ⟨?_, ?_⟩
      · simpa [ClientSpec.step, hk, Client.routerOp, SpecRouter.stepOpt] using hinv
      · simp [Client.step, ClientSpec.step, hc, hk, h.reqs]
    | some p =>
      cases p with
      | none =>
        rw [hc] at hk
        refine ⟨?_, ?_⟩
        · simpa [ClientSpec.step, hk, Client.routerOp, SpecRouter.stepOpt] using hinv
        · simp [Client.step, ClientSpec.step, hc, hk, h.reqs]
      | some pend =>
        rw [hc] at hk
        refine ⟨?_, ?_⟩
        · simpa [ClientSpec.step, hk, Client.routerOp, SpecRouter.stepOpt] using hinv
        · simp only [Client.step, hc, ClientSpec.step, hk, Option.map_some]
          rw [← h.reqs, map_setNone]
  | signal m =>
    exact ⟨by simpa [ClientSpec.step, Client.routerOp, SpecRouter.stepOpt, SpecRouter.step] using hinv, h.reqs⟩

theorem link_init : Link {} {} := ⟨cinv_init, rfl⟩

theorem link_run (raises : Nat → Cb → Bool) (h : List COp) : ∀ (c : Client) (s : ClientSpec),
    Link c s → (∀ op ∈ h, op.WF) → Link (Client.run Tables.cur raises c h).1 (s.run h) := by
  induction h with
  | nil => intro c s hl _; exact hl
  | cons op ops ih =>
    intro c s hl hwf
    simp only [Client.run, ClientSpec.run]
    exact ih _ _ (link_step raises c s op hl (hwf op (by simp))) (fun o ho => hwf o (by simp [ho]))

end Txdbus.Route
