import TxdbusModel.Route.Spec
import TxdbusModel.Proofs.Route.Text
/-
C12 - the text written by `DBusClientConnection.addMatch`, read with the specification's grammar
(`Spec.ruleTextMeaning`), means exactly the constraints of the rule - for values that need no
escaping (no apostrophe, no backslash); commas and equals signs inside values are fine.
-/
namespace Txdbus.Route

open Spec

/-- (key, value) pairs in the order the client writes them. -/
def optPair (k : Str) : Option Str → List (Str × Str)
  | none => []
  | some v => [(k, v)]

def renderPairs (a : RuleArgs) : List (Str × Str) :=
  optPair "type".toList a.mtype ++ optPair "sender".toList a.sender ++ optPair "interface".toList a.iface
  ++ optPair "member".toList a.member ++ optPair "path".toList a.path
  ++ optPair "path_namespace".toList a.pathNs ++ optPair "destination".toList a.dest
  ++ (a.args.getD []).map (fun iv => (argKey iv.1, iv.2))
  ++ (a.argPaths.getD []).map (fun iv => (argPathKey iv.1, iv.2))
  ++ optPair "arg0namespace".toList a.arg0ns

theorem optItem_eq (k : Str) (o : Option Str) :
    optItem k o = (optPair k o).map (fun p => renderItem p.1 p.2) := by
  cases o <;> rfl

theorem renderItems_eq (a : RuleArgs) : renderItems a = (renderPairs a).map (fun p => renderItem p.1 p.2) := by
  unfold renderItems renderPairs
  simp only [optItem_eq, List.map_append, List.map_map]
  rfl

/-- a key the scanner accepts: no `=`, `,`, `'` -/
def keyOk (k : Str) : Prop := '=' ∉ k ∧ ',' ∉ k ∧ '\'' ∉ k
/-- a value that needs no escaping -/
def valOk (v : Str) : Prop := '\'' ∉ v ∧ '\\' ∉ v

theorem scanKey_item (k rest : Str) (hk : keyOk k) : scanKey (k ++ '=' :: rest) = some (k, rest) := by
  induction k with
  | nil => simp [scanKey]
  | cons c t ih =>
    have h1 : c ≠ '=' := fun e => hk.1 (by simp [e])
    have h2 : c ≠ ',' := fun e => hk.2.1 (by simp [e])
    have h3 : c ≠ '\'' := fun e => hk.2.2 (by simp [e])
    have ht : keyOk t := ⟨fun e => hk.1 (by simp [e]), fun e => hk.2.1 (by simp [e]), fun e => hk.2.2 (by simp [e])⟩
    simp [scanKey, h1, h2, h3, ih ht]

theorem scanValue_quoted (v tail : Str) (hv : '\'' ∉ v) :
    scanValue .quoted (v ++ '\'' :: tail) = (scanValue .plain tail).map (fun vr => (v ++ vr.1, vr.2)) := by
  induction v with
  | nil =>
    simp only [List.nil_append, scanValue, if_true]
    cases scanValue .plain tail <;> rfl
  | cons c t ih =>
    have h1 : c ≠ '\'' := fun e => hv (by simp [e])
    have ht : '\'' ∉ t := fun e => hv (by simp [e])
    simp only [List.cons_append, scanValue, h1, if_false, ih ht]
    cases scanValue .plain tail <;> rfl

/-- the value part of an item, followed by the end of the text -/
theorem scanValue_last (v : Str) (hv : '\'' ∉ v) :
    scanValue .plain ('\'' :: (v ++ ['\''])) = some (v, none) := by
  simp only [scanValue, if_true]
  rw [scanValue_quoted v [] hv]
  simp [scanValue]

/-- the value part of an item, followed by a comma and more text -/
theorem scanValue_more (v more : Str) (hv : '\'' ∉ v) :
    scanValue .plain ('\'' :: (v ++ '\'' :: ',' :: more)) = some (v, some more) := by
  simp only [scanValue, if_true]
  rw [scanValue_quoted v (',' :: more) hv]
  simp [scanValue]

theorem renderItem_append (k v rest : Str) :
    renderItem k v ++ rest = k ++ '=' :: '\'' :: (v ++ '\'' :: rest) := by
  simp [renderItem]

theorem parseItemsText_join (ps : List (Str × Str)) (hne : ps ≠ [])
    (hk : ∀ p ∈ ps, keyOk p.1) (hv : ∀ p ∈ ps, '\'' ∉ p.2) :
    ∀ fuel, ps.length ≤ fuel →
      parseItemsText fuel (joinWith ',' (ps.map (fun p => renderItem p.1 p.2))) = some ps := by
  induction ps with
  | nil => exact absurd rfl hne
  | cons p t ih =>
    intro fuel hf
    cases fuel with
    | zero => simp at hf
    | succ f =>
      cases t with
      | nil =>
        simp only [List.map_cons, List.map_nil, joinWith, parseItemsText]
        have : renderItem p.1 p.2 = p.1 ++ '=' :: ('\'' :: (p.2 ++ ['\''])) := rfl
        rw [this, scanKey_item _ _ (hk p (by simp))]
        simp only
        rw [scanValue_last _ (hv p (by simp))]
      | cons q u =>
        have ih' := ih (by simp) (fun x hx => hk x (by simp [hx])) (fun x hx => hv x (by simp [hx])) f
          (by simp at hf ⊢; omega)
        simp only [List.map_cons, joinWith, parseItemsText]
        simp only [List.map_cons] at ih'
        rw [renderItem_append, scanKey_item _ _ (hk p (by simp))]
        simp only
        rw [scanValue_more _ _ (hv p (by simp))]
        simp only
        rw [ih']
        rfl

theorem renderItem_length (k v : Str) : 1 ≤ (renderItem k v).length := by
  simp [renderItem]; omega

theorem joinWith_length (c : Char) (xs : List Str) (h : ∀ x ∈ xs, 1 ≤ x.length) :
    xs.length ≤ (joinWith c xs).length + (if xs = [] then 0 else 0) ∧ (xs ≠ [] → xs.length ≤ (joinWith c xs).length) := by
  induction xs with
  | nil => simp [joinWith]
  | cons x t ih =>
    cases t with
    | nil =>
      have := h x (by simp)
      simp [joinWith]; omega
    | cons y u =>
      have hx := h x (by simp)
      have ih' := (ih (fun z hz => h z (by simp [hz]))).2 (by simp)
      simp only [joinWith, List.length_append, List.length_cons] at ih' ⊢
      constructor
      · simp; omega
      · intro _; omega

/-! ### from pairs to constraints -/

theorem mapM_append_some {α β : Type} (f : α → Option β) (l1 l2 : List α) (r1 r2 : List β)
    (h1 : l1.mapM f = some r1) (h2 : l2.mapM f = some r2) : (l1 ++ l2).mapM f = some (r1 ++ r2) := by
  rw [List.mapM_append, h1, h2]
  rfl

theorem mapM_map_some {α β γ : Type} (f : β → Option γ) (g : α → β) (h : α → γ) (l : List α)
    (hf : ∀ x ∈ l, f (g x) = some (h x)) : (l.map g).mapM f = some (l.map h) := by
  induction l with
  | nil => rfl
  | cons x t ih =>
    simp only [List.map_cons, List.mapM_cons, hf x (by simp), ih (fun y hy => hf y (by simp [hy]))]
    rfl

def F (kv : Str × Str) : Option Constraint := constraintOfItem kv.1 kv.2

theorem seg_closed (k : Str) (c : Str → Constraint) (o : Option Str)
    (h : ∀ v, constraintOfItem k v = some (c v)) : (optPair k o).mapM F = some (optC c o) := by
  cases o with
  | none => rfl
  | some v => simp [optPair, optC, F, h v]

theorem decimal_natDigits (n : Nat) : decimal? (natDigits n) = some n := by
  unfold decimal?
  have h1 : (natDigits n).isEmpty = false := by
    cases h : natDigits n with
    | nil => exact absurd h (natDigits_ne_nil n)
    | cons _ _ => rfl
  have h2 : (natDigits n).all (fun c => '0' ≤ c && c ≤ '9') = true := natDigits_all n
  have h3 := natDigits_val n
  unfold decVal at h3
  have h48 : '0'.toNat = 48 := by decide
  simp only [h1, h2, Bool.not_true, Bool.or_self, Bool.false_eq_true, if_false, h48, h3]

theorem digits_not_suffix_path (n : Nat) : "path".toList.isSuffixOf (natDigits n) = false := by
  obtain ⟨init, c, hic, hc⟩ := natDigits_getLast n
  cases h : "path".toList.isSuffixOf (natDigits n) with
  | false => rfl
  | true =>
    rw [List.isSuffixOf_iff_suffix, path_lit, hic] at h
    obtain ⟨t, ht⟩ := h
    have h1 : (t ++ ['p','a','t','h']).getLast? = some 'h' := by simp
    have h2 : (init ++ [c]).getLast? = some c := by simp
    rw [ht, h2] at h1
    simp at h1
    rw [h1] at hc
    revert hc; decide

theorem ne_of_contains_false (l : List Str) (k x : Str) (h : l.contains k = false) (hx : x ∈ l) : k ≠ x := by
  intro e
  subst e
  have : l.contains k = true := List.contains_iff_mem.mpr hx
  rw [h] at this
  cases this

theorem argKey_closed_ne (ds rest : Str) (hne : ds ≠ []) (hd : ds.all isAsciiDigit = true)
    (hrest : rest = [] ∨ rest = ['p','a','t','h']) :
    let k := 'a' :: 'r' :: 'g' :: (ds ++ rest)
    k ≠ "type".toList ∧ k ≠ "sender".toList ∧ k ≠ "interface".toList ∧ k ≠ "member".toList ∧ k ≠ "path".toList
    ∧ k ≠ "path_namespace".toList ∧ k ≠ "destination".toList ∧ k ≠ "arg0namespace".toList := by
  intro k
  have hc := arg_not_kw ds rest hne hd hrest
  have hm : ∀ x ∈ curBusKeys, k ≠ x := fun x hx => ne_of_contains_false _ _ _ hc hx
  refine ⟨?_, hm _ (by decide), hm _ (by decide), hm _ (by decide), hm _ (by decide), hm _ (by decide),
    hm _ (by decide), hm _ (by decide)⟩
  show 'a' :: 'r' :: 'g' :: (ds ++ rest) ≠ "type".toList
  rw [type_lit]; simp

theorem constraintOfItem_arg (i : Nat) (v : Str) : constraintOfItem (argKey i) v = some (.arg i v) := by
  obtain ⟨h1, h2, h3, h4, h5, h6, h7, h8⟩ := argKey_closed_ne (natDigits i) [] (natDigits_ne_nil i) (natDigits_all i) (Or.inl rfl)
  rw [← argKey_eq] at h1 h2 h3 h4 h5 h6 h7 h8
  have hpre : "arg".toList.isPrefixOf (argKey i) = true := by
    rw [argKey_eq, arg_lit]; simp [List.isPrefixOf]
  have hdrop : (argKey i).drop 3 = natDigits i := by
    rw [argKey_eq]; simp
  unfold constraintOfItem
  simp only [h1, h2, h3, h4, h5, h6, h7, h8, if_false, hpre, if_true, hdrop, digits_not_suffix_path,
    Bool.false_eq_true, decimal_natDigits, Option.map_some]

theorem constraintOfItem_argPath (i : Nat) (v : Str) : constraintOfItem (argPathKey i) v = some (.argPath i v) := by
  obtain ⟨h1, h2, h3, h4, h5, h6, h7, h8⟩ :=
    argKey_closed_ne (natDigits i) ['p','a','t','h'] (natDigits_ne_nil i) (natDigits_all i) (Or.inr rfl)
  rw [← argPathKey_eq] at h1 h2 h3 h4 h5 h6 h7 h8
  have hpre : "arg".toList.isPrefixOf (argPathKey i) = true := by
    rw [argPathKey_eq, arg_lit]; simp [List.isPrefixOf]
  have hdrop : (argPathKey i).drop 3 = natDigits i ++ "path".toList := by
    rw [argPathKey_eq, path_lit]; simp
  have hsuf : "path".toList.isSuffixOf (natDigits i ++ "path".toList) = true := by
    rw [List.isSuffixOf_iff_suffix]; exact ⟨natDigits i, rfl⟩
  have htake : (natDigits i ++ "path".toList).take ((natDigits i ++ "path".toList).length - 4) = natDigits i := by
    have : (natDigits i ++ "path".toList).length - 4 = (natDigits i).length := by
      rw [path_lit]; simp
    rw [this, List.take_left' rfl]
  unfold constraintOfItem
  simp only [h1, h2, h3, h4, h5, h6, h7, h8, if_false, hpre, if_true, hdrop, hsuf, htake,
    decimal_natDigits, Option.map_some]

theorem pairs_mean_constraints (a : RuleArgs) : (renderPairs a).mapM F = some (constraintsOf a) := by
  unfold renderPairs constraintsOf
  refine mapM_append_some _ _ _ _ _ (mapM_append_some _ _ _ _ _ (mapM_append_some _ _ _ _ _ (mapM_append_some _ _ _ _ _
    (mapM_append_some _ _ _ _ _ (mapM_append_some _ _ _ _ _ (mapM_append_some _ _ _ _ _ (mapM_append_some _ _ _ _ _
    (mapM_append_some _ _ _ _ _ ?_ ?_) ?_) ?_) ?_) ?_) ?_) ?_) ?_) ?_
  · exact seg_closed _ _ _ (fun v => rfl)
  · exact seg_closed _ _ _ (fun v => rfl)
  · exact seg_closed _ _ _ (fun v => rfl)
  · exact seg_closed _ _ _ (fun v => rfl)
  · exact seg_closed _ _ _ (fun v => rfl)
  · exact seg_closed _ _ _ (fun v => rfl)
  · exact seg_closed _ _ _ (fun v => rfl)
  · exact mapM_map_some F (fun iv : Nat × Str => (argKey iv.1, iv.2)) (fun iv => Constraint.arg iv.1 iv.2) _
      (fun iv _ => constraintOfItem_arg iv.1 iv.2)
  · exact mapM_map_some F (fun iv : Nat × Str => (argPathKey iv.1, iv.2)) (fun iv => Constraint.argPath iv.1 iv.2) _
      (fun iv _ => constraintOfItem_argPath iv.1 iv.2)
  · exact seg_closed _ _ _ (fun v => rfl)

/-! ### the theorem -/

/-- No value of the rule contains an apostrophe (values with a backslash are fine inside quotes). -/
structure RuleArgs.QuoteFree (a : RuleArgs) : Prop where
  mtype : ∀ v, a.mtype = some v → '\'' ∉ v
  sender : ∀ v, a.sender = some v → '\'' ∉ v
  iface : ∀ v, a.iface = some v → '\'' ∉ v
  member : ∀ v, a.member = some v → '\'' ∉ v
  path : ∀ v, a.path = some v → '\'' ∉ v
  pathNs : ∀ v, a.pathNs = some v → '\'' ∉ v
  dest : ∀ v, a.dest = some v → '\'' ∉ v
  arg0ns : ∀ v, a.arg0ns = some v → '\'' ∉ v
  args : ∀ iv ∈ a.args.getD [], '\'' ∉ iv.2
  argPaths : ∀ iv ∈ a.argPaths.getD [], '\'' ∉ iv.2

theorem closed_keyOk :
    keyOk "type".toList ∧ keyOk "sender".toList ∧ keyOk "interface".toList ∧ keyOk "member".toList
    ∧ keyOk "path".toList ∧ keyOk "path_namespace".toList ∧ keyOk "destination".toList ∧ keyOk "arg0namespace".toList := by
  exact ⟨⟨by decide, by decide, by decide⟩, ⟨by decide, by decide, by decide⟩, ⟨by decide, by decide, by decide⟩,
    ⟨by decide, by decide, by decide⟩, ⟨by decide, by decide, by decide⟩, ⟨by decide, by decide, by decide⟩,
    ⟨by decide, by decide, by decide⟩, ⟨by decide, by decide, by decide⟩⟩

theorem digit_ne_quote (c : Char) (h : isAsciiDigit c = true) : c ≠ '\'' := by
  intro hc; subst hc; revert h; decide

theorem natDigits_noQuote (n : Nat) : '\'' ∉ natDigits n := by
  have h := natDigits_all n
  rw [List.all_eq_true] at h
  intro hm; exact digit_ne_quote _ (h _ hm) rfl

theorem argKey_keyOk (i : Nat) : keyOk (argKey i) := by
  refine ⟨?_, argKey_noComma i, ?_⟩
  · rw [argKey_eq]; intro hm
    simp only [List.mem_cons, List.append_nil] at hm
    rcases hm with h | h | h | h
    · revert h; decide
    · revert h; decide
    · revert h; decide
    · exact (natDigits_noSep i).2 h
  · rw [argKey_eq]; intro hm
    simp only [List.mem_cons, List.append_nil] at hm
    rcases hm with h | h | h | h
    · revert h; decide
    · revert h; decide
    · revert h; decide
    · exact natDigits_noQuote i h

theorem argPathKey_keyOk (i : Nat) : keyOk (argPathKey i) := by
  refine ⟨?_, argPathKey_noComma i, ?_⟩
  · rw [argPathKey_eq]; intro hm
    simp only [List.mem_cons, List.mem_append] at hm
    rcases hm with h | h | h | h | h
    · revert h; decide
    · revert h; decide
    · revert h; decide
    · exact (natDigits_noSep i).2 h
    · revert h; simp
  · rw [argPathKey_eq]; intro hm
    simp only [List.mem_cons, List.mem_append] at hm
    rcases hm with h | h | h | h | h
    · revert h; decide
    · revert h; decide
    · revert h; decide
    · exact natDigits_noQuote i h
    · revert h; simp

theorem optPair_ok (k : Str) (o : Option Str) (hk : keyOk k) (ho : ∀ v, o = some v → '\'' ∉ v) :
    ∀ p ∈ optPair k o, keyOk p.1 ∧ '\'' ∉ p.2 := by
  intro p hp
  cases o with
  | none => simp [optPair] at hp
  | some v =>
    simp only [optPair, List.mem_singleton] at hp
    subst hp
    exact ⟨hk, ho v rfl⟩

theorem renderPairs_ok (a : RuleArgs) (hq : a.QuoteFree) : ∀ p ∈ renderPairs a, keyOk p.1 ∧ '\'' ∉ p.2 := by
  obtain ⟨k1, k2, k3, k4, k5, k6, k7, k8⟩ := closed_keyOk
  intro p hp
  unfold renderPairs at hp
  simp only [List.mem_append, List.mem_map] at hp
  rcases hp with (((((((((h | h) | h) | h) | h) | h) | h) | h) | h) | h)
  · exact optPair_ok _ _ k1 hq.mtype p h
  · exact optPair_ok _ _ k2 hq.sender p h
  · exact optPair_ok _ _ k3 hq.iface p h
  · exact optPair_ok _ _ k4 hq.member p h
  · exact optPair_ok _ _ k5 hq.path p h
  · exact optPair_ok _ _ k6 hq.pathNs p h
  · exact optPair_ok _ _ k7 hq.dest p h
  · obtain ⟨iv, hiv, rfl⟩ := h
    exact ⟨argKey_keyOk iv.1, hq.args iv hiv⟩
  · obtain ⟨iv, hiv, rfl⟩ := h
    exact ⟨argPathKey_keyOk iv.1, hq.argPaths iv hiv⟩
  · exact optPair_ok _ _ k8 hq.arg0ns p h

/-- The text the client sends, read with the specification's grammar, means the rule's constraints. -/
theorem text_means_constraints (a : RuleArgs) (hq : a.QuoteFree) :
    ruleTextMeaning (renderRule a) = some (constraintsOf a) := by
  unfold ruleTextMeaning parseRuleText renderRule
  rw [renderItems_eq]
  have hok := renderPairs_ok a hq
  cases hps : renderPairs a with
  | nil =>
    have hc := pairs_mean_constraints a
    rw [hps] at hc
    simp only [List.map_nil, joinWith, List.isEmpty_nil, if_true, Option.bind_some]
    exact hc
  | cons p t =>
    have hne : (p :: t) ≠ [] := by simp
    have hlen : (p :: t).length ≤ (joinWith ',' ((p :: t).map (fun p => renderItem p.1 p.2))).length := by
      have := (joinWith_length ',' ((p :: t).map (fun p => renderItem p.1 p.2))
        (by intro x hx; obtain ⟨q, _, rfl⟩ := List.mem_map.mp hx; exact renderItem_length _ _)).2 (by simp)
      simpa using this
    have hnonempty : (joinWith ',' ((p :: t).map (fun p => renderItem p.1 p.2))).isEmpty = false := by
      cases hj : joinWith ',' ((p :: t).map (fun p => renderItem p.1 p.2)) with
      | nil => rw [hj] at hlen; simp at hlen
      | cons _ _ => rfl
    rw [hps] at hok
    have hparse := parseItemsText_join (p :: t) hne (fun x hx => (hok x hx).1) (fun x hx => (hok x hx).2)
      ((joinWith ',' ((p :: t).map (fun p => renderItem p.1 p.2))).length + 1) (by omega)
    simp only [hnonempty, Bool.false_eq_true, if_false, hparse, Option.bind_some]
    have hc := pairs_mean_constraints a
    rw [hps] at hc
    exact hc

end Txdbus.Route
