import TxdbusModel.Route.Spec
import TxdbusModel.Proofs.Route.Text
/-
C12 - the text written by `DBusClientConnection.addMatch` (apostrophes escaped as '\''), read with the
specification's grammar (`Spec.ruleTextMeaning`), means exactly the constraints of the rule - for every
rule; and `Bus.dbus_AddMatch`'s scanner reads it the same way.
-/
namespace Txdbus.Route

open Spec

theorem optItem_eq (k : Str) (o : Option Str) :
    optItem true k o = (optPair k o).map (fun p => renderItem p.1 p.2) := by
  cases o <;> rfl

theorem renderItems_eq (a : RuleArgs) : renderItems a = (renderPairs a).map (fun p => renderItem p.1 p.2) := by
  unfold renderItems renderItemsWith renderPairs
  simp only [optItem_eq, List.map_append, List.map_map]
  rfl

/-- a key the scanner accepts: no `=`, `,`, `'` -/
def keyOk (k : Str) : Prop := '=' ∉ k ∧ ',' ∉ k ∧ '\'' ∉ k

theorem scanKey_item (k rest : Str) (hk : keyOk k) : scanKey (k ++ '=' :: rest) = some (k, rest) := by
  induction k with
  | nil => simp [scanKey]
  | cons c t ih =>
    have h1 : c ≠ '=' := fun e => hk.1 (by simp [e])
    have h2 : c ≠ ',' := fun e => hk.2.1 (by simp [e])
    have h3 : c ≠ '\'' := fun e => hk.2.2 (by simp [e])
    have ht : keyOk t := ⟨fun e => hk.1 (by simp [e]), fun e => hk.2.1 (by simp [e]), fun e => hk.2.2 (by simp [e])⟩
    simp [scanKey, h1, h2, h3, ih ht]

/-- Inside quotes the escaped value reads back as the value, whatever it contains. -/
theorem scanValue_quoted (v tail : Str) :
    scanValue .quoted (escapeQuotes v ++ '\'' :: tail) = (scanValue .plain tail).map (fun vr => (v ++ vr.1, vr.2)) := by
  induction v with
  | nil =>
    simp only [escapeQuotes, List.nil_append, scanValue, if_true]
    cases scanValue .plain tail <;> rfl
  | cons c t ih =>
    by_cases hc : c = '\''
    · subst hc
      have hbs : ('\\' : Char) ≠ '\'' := by decide
      have hbc : ('\\' : Char) ≠ ',' := by decide
      simp only [escapeQuotes, if_true, List.cons_append, scanValue, hbs, hbc, if_false, ih]
      cases scanValue .plain tail <;> rfl
    · simp only [escapeQuotes, hc, if_false, List.cons_append, scanValue, ih]
      cases scanValue .plain tail <;> rfl

theorem renderItem_def (k v : Str) : renderItem k v = k ++ ('=' :: '\'' :: (escapeQuotes v ++ ['\''])) := rfl

/-- the value part of an item, followed by the end of the text -/
theorem scanValue_last (v : Str) :
    scanValue .plain ('\'' :: (escapeQuotes v ++ ['\''])) = some (v, none) := by
  simp only [scanValue, if_true]
  rw [scanValue_quoted v []]
  simp [scanValue]

/-- the value part of an item, followed by a comma and more text -/
theorem scanValue_more (v more : Str) :
    scanValue .plain ('\'' :: (escapeQuotes v ++ '\'' :: ',' :: more)) = some (v, some more) := by
  simp only [scanValue, if_true]
  rw [scanValue_quoted v (',' :: more)]
  simp [scanValue]

theorem renderItem_append (k v rest : Str) :
    renderItem k v ++ rest = k ++ '=' :: '\'' :: (escapeQuotes v ++ '\'' :: rest) := by
  simp [renderItem_def]

theorem parseItemsText_join (ps : List (Str × Str)) (hne : ps ≠ [])
    (hk : ∀ p ∈ ps, keyOk p.1) :
    ∀ fuel, ps.length ≤ fuel →
      parseItemsText fuel (joinWith ',' (ps.map (fun p => renderItem p.1 p.2))) = some ps := by
  induction ps with
  | nil => exact absurd rfl hne
  | cons p t ih =>
    intro fuel hf
    cases fuel with
    | zero => simp at hf
    | succ f =>
      cases t with
      | nil =>
        simp only [List.map_cons, List.map_nil, joinWith, parseItemsText]
        rw [renderItem_def, scanKey_item _ _ (hk p (by simp))]
        simp only
        rw [scanValue_last]
      | cons q u =>
        have ih' := ih (by simp) (fun x hx => hk x (by simp [hx])) f (by simp at hf ⊢; omega)
        simp only [List.map_cons, joinWith, parseItemsText]
        simp only [List.map_cons] at ih'
        rw [renderItem_append, scanKey_item _ _ (hk p (by simp))]
        simp only
        rw [scanValue_more]
        simp only
        rw [ih']
        rfl

theorem renderItem_length (k v : Str) : 1 ≤ (renderItem k v).length := by
  simp [renderItem_def]; omega

theorem joinWith_length (c : Char) (xs : List Str) (h : ∀ x ∈ xs, 1 ≤ x.length) :
    xs ≠ [] → xs.length ≤ (joinWith c xs).length := by
  induction xs with
  | nil => intro h'; exact absurd rfl h'
  | cons x t ih =>
    intro _
    cases t with
    | nil =>
      have := h x (by simp)
      simp [joinWith]; omega
    | cons y u =>
      have hx := h x (by simp)
      have ih' := ih (fun z hz => h z (by simp [hz])) (by simp)
      simp only [joinWith, List.length_append, List.length_cons] at ih' ⊢
      omega

/-! ### the bus's scanner reads what the specification's scanner reads -/

def BQ.toQ : BQ → Q
  | .plain => .plain | .quoted => .quoted | .bs => .bs

def restOf (vr : Str × Option Str) : Str × Str := (vr.1, vr.2.getD [])

theorem busScanValue_eq (q : BQ) (s : Str) : busScanValue q s = (scanValue q.toQ s).map restOf := by
  induction s generalizing q with
  | nil => cases q <;> rfl
  | cons c t ih =>
    cases q with
    | quoted =>
      simp only [busScanValue, scanValue, BQ.toQ]
      split
      · exact ih .plain
      · rw [ih .quoted]; simp only [BQ.toQ]; cases scanValue .quoted t <;> rfl
    | plain =>
      simp only [busScanValue, scanValue, BQ.toQ]
      split
      · exact ih .quoted
      · split
        · rfl
        · split
          · exact ih .bs
          · rw [ih .plain]; simp only [BQ.toQ]; cases scanValue .plain t <;> rfl
    | bs =>
      simp only [busScanValue, scanValue, BQ.toQ]
      split
      · rw [ih .plain]; simp only [BQ.toQ]; cases scanValue .plain t <;> rfl
      · split
        · rfl
        · split
          · rw [ih .bs]; simp only [BQ.toQ]; cases scanValue .bs t <;> rfl
          · rw [ih .plain]; simp only [BQ.toQ]; cases scanValue .plain t <;> rfl

theorem busScanKey_of_spec (s k rest : Str) (h : scanKey s = some (k, rest)) : busScanKey s = some (k, rest) := by
  induction s generalizing k rest with
  | nil => simp [scanKey] at h
  | cons c t ih =>
    unfold scanKey at h
    unfold busScanKey
    by_cases hc : c = '='
    · simp only [hc, if_true] at h ⊢; exact h
    · simp only [hc, if_false] at h ⊢
      split at h
      · cases h
      · cases hk : scanKey t with
        | none => rw [hk] at h; cases h
        | some kr =>
          rw [hk] at h
          obtain ⟨k', r'⟩ := kr
          simp only [Option.map_some, Option.some.injEq, Prod.mk.injEq] at h
          rw [ih k' r' hk]
          simp [h]

/-- Whenever the specification reads a text as a list of pairs, `_parseMatchRule` returns that list. -/
theorem busItems_of_spec (fuel : Nat) : ∀ (text : Str) (ps : List (Str × Str)),
    parseItemsText fuel text = some ps → busItems fuel text = .ok ps := by
  induction fuel with
  | zero => intro text ps h; simp [parseItemsText] at h
  | succ f ih =>
    intro text ps h
    unfold parseItemsText at h
    cases hk : scanKey text with
    | none => rw [hk] at h; cases h
    | some kr =>
      obtain ⟨k, rest⟩ := kr
      rw [hk] at h
      simp only at h
      have hbk := busScanKey_of_spec text k rest hk
      cases text with
      | nil => simp [scanKey] at hk
      | cons c t =>
        unfold busItems
        rw [hbk]
        simp only
        rw [busScanValue_eq]
        simp only [BQ.toQ]
        cases hv : scanValue .plain rest with
        | none => rw [hv] at h; cases h
        | some vr =>
          obtain ⟨v, r⟩ := vr
          rw [hv] at h
          cases r with
          | none =>
            simp only [Option.some.injEq] at h
            subst h
            simp [restOf, busItems]
          | some more =>
            simp only at h
            cases hm : parseItemsText f more with
            | none => rw [hm] at h; cases h
            | some l =>
              rw [hm] at h
              simp only [Option.map_some, Option.some.injEq] at h
              subst h
              simp [restOf, ih more l hm]

/-! ### from pairs to constraints -/

theorem mapM_append_some {α β : Type} (f : α → Option β) (l1 l2 : List α) (r1 r2 : List β)
    (h1 : l1.mapM f = some r1) (h2 : l2.mapM f = some r2) : (l1 ++ l2).mapM f = some (r1 ++ r2) := by
  rw [List.mapM_append, h1, h2]
  rfl

theorem mapM_map_some {α β γ : Type} (f : β → Option γ) (g : α → β) (h : α → γ) (l : List α)
    (hf : ∀ x ∈ l, f (g x) = some (h x)) : (l.map g).mapM f = some (l.map h) := by
  induction l with
  | nil => rfl
  | cons x t ih =>
    simp only [List.map_cons, List.mapM_cons, hf x (by simp), ih (fun y hy => hf y (by simp [hy]))]
    rfl

def F (kv : Str × Str) : Option Constraint := constraintOfItem kv.1 kv.2

theorem seg_closed (k : Str) (c : Str → Constraint) (o : Option Str)
    (h : ∀ v, constraintOfItem k v = some (c v)) : (optPair k o).mapM F = some (optC c o) := by
  cases o with
  | none => rfl
  | some v => simp [optPair, optC, F, h v]

theorem decimal_natDigits (n : Nat) : decimal? (natDigits n) = some n := by
  unfold decimal?
  have h1 : (natDigits n).isEmpty = false := by
    cases h : natDigits n with
    | nil => exact absurd h (natDigits_ne_nil n)
    | cons _ _ => rfl
  have h2 : (natDigits n).all (fun c => '0' ≤ c && c ≤ '9') = true := natDigits_all n
  have h3 := natDigits_val n
  unfold decVal at h3
  have h48 : '0'.toNat = 48 := by decide
  simp only [h1, h2, Bool.not_true, Bool.or_self, Bool.false_eq_true, if_false, h48, h3]

theorem digits_not_suffix_path (n : Nat) : "path".toList.isSuffixOf (natDigits n) = false := by
  obtain ⟨init, c, hic, hc⟩ := natDigits_getLast n
  cases h : "path".toList.isSuffixOf (natDigits n) with
  | false => rfl
  | true =>
    rw [List.isSuffixOf_iff_suffix, path_lit, hic] at h
    obtain ⟨t, ht⟩ := h
    have h1 : (t ++ ['p','a','t','h']).getLast? = some 'h' := by simp
    have h2 : (init ++ [c]).getLast? = some c := by simp
    rw [ht, h2] at h1
    simp at h1
    rw [h1] at hc
    revert hc; decide

theorem ne_of_contains_false (l : List Str) (k x : Str) (h : l.contains k = false) (hx : x ∈ l) : k ≠ x := by
  intro e
  subst e
  have : l.contains k = true := List.contains_iff_mem.mpr hx
  rw [h] at this
  cases this

theorem argKey_closed_ne (ds rest : Str) (hne : ds ≠ []) (hd : ds.all isAsciiDigit = true)
    (hrest : rest = [] ∨ rest = ['p','a','t','h']) :
    let k := 'a' :: 'r' :: 'g' :: (ds ++ rest)
    k ≠ "type".toList ∧ k ≠ "sender".toList ∧ k ≠ "interface".toList ∧ k ≠ "member".toList ∧ k ≠ "path".toList
    ∧ k ≠ "path_namespace".toList ∧ k ≠ "destination".toList ∧ k ≠ "arg0namespace".toList := by
  intro k
  have hc := arg_not_kw ds rest hne hd hrest
  have hm : ∀ x ∈ curBusKeys, k ≠ x := fun x hx => ne_of_contains_false _ _ _ hc hx
  refine ⟨?_, hm _ (by decide), hm _ (by decide), hm _ (by decide), hm _ (by decide), hm _ (by decide),
    hm _ (by decide), hm _ (by decide)⟩
  show 'a' :: 'r' :: 'g' :: (ds ++ rest) ≠ "type".toList
  rw [type_lit]; simp

theorem constraintOfItem_arg (i : Nat) (v : Str) : constraintOfItem (argKey i) v = some (.arg i v) := by
  obtain ⟨h1, h2, h3, h4, h5, h6, h7, h8⟩ := argKey_closed_ne (natDigits i) [] (natDigits_ne_nil i) (natDigits_all i) (Or.inl rfl)
  rw [← argKey_eq] at h1 h2 h3 h4 h5 h6 h7 h8
  have hpre : "arg".toList.isPrefixOf (argKey i) = true := by
    rw [argKey_eq, arg_lit]; simp [List.isPrefixOf]
  have hdrop : (argKey i).drop 3 = natDigits i := by
    rw [argKey_eq]; simp
  unfold constraintOfItem
  simp only [h1, h2, h3, h4, h5, h6, h7, h8, if_false, hpre, if_true, hdrop, digits_not_suffix_path,
    Bool.false_eq_true, decimal_natDigits, Option.map_some]

theorem constraintOfItem_argPath (i : Nat) (v : Str) : constraintOfItem (argPathKey i) v = some (.argPath i v) := by
  obtain ⟨h1, h2, h3, h4, h5, h6, h7, h8⟩ :=
    argKey_closed_ne (natDigits i) ['p','a','t','h'] (natDigits_ne_nil i) (natDigits_all i) (Or.inr rfl)
  rw [← argPathKey_eq] at h1 h2 h3 h4 h5 h6 h7 h8
  have hpre : "arg".toList.isPrefixOf (argPathKey i) = true := by
    rw [argPathKey_eq, arg_lit]; simp [List.isPrefixOf]
  have hdrop : (argPathKey i).drop 3 = natDigits i ++ "path".toList := by
    rw [argPathKey_eq, path_lit]; simp
  have hsuf : "path".toList.isSuffixOf (natDigits i ++ "path".toList) = true := by
    rw [List.isSuffixOf_iff_suffix]; exact ⟨natDigits i, rfl⟩
  have htake : (natDigits i ++ "path".toList).take ((natDigits i ++ "path".toList).length - 4) = natDigits i := by
    have : (natDigits i ++ "path".toList).length - 4 = (natDigits i).length := by
      rw [path_lit]; simp
    rw [this, List.take_left' rfl]
  unfold constraintOfItem
  simp only [h1, h2, h3, h4, h5, h6, h7, h8, if_false, hpre, if_true, hdrop, hsuf, htake,
    decimal_natDigits, Option.map_some]

theorem pairs_mean_constraints (a : RuleArgs) : (renderPairs a).mapM F = some (constraintsOf a) := by
  unfold renderPairs constraintsOf
  refine mapM_append_some _ _ _ _ _ (mapM_append_some _ _ _ _ _ (mapM_append_some _ _ _ _ _ (mapM_append_some _ _ _ _ _
    (mapM_append_some _ _ _ _ _ (mapM_append_some _ _ _ _ _ (mapM_append_some _ _ _ _ _ (mapM_append_some _ _ _ _ _
    (mapM_append_some _ _ _ _ _ ?_ ?_) ?_) ?_) ?_) ?_) ?_) ?_) ?_) ?_
  · exact seg_closed _ _ _ (fun v => rfl)
  · exact seg_closed _ _ _ (fun v => rfl)
  · exact seg_closed _ _ _ (fun v => rfl)
  · exact seg_closed _ _ _ (fun v => rfl)
  · exact seg_closed _ _ _ (fun v => rfl)
  · exact seg_closed _ _ _ (fun v => rfl)
  · exact seg_closed _ _ _ (fun v => rfl)
  · exact mapM_map_some F (fun iv : Nat × Str => (argKey iv.1, iv.2)) (fun iv => Constraint.arg iv.1 iv.2) _
      (fun iv _ => constraintOfItem_arg iv.1 iv.2)
  · exact mapM_map_some F (fun iv : Nat × Str => (argPathKey iv.1, iv.2)) (fun iv => Constraint.argPath iv.1 iv.2) _
      (fun iv _ => constraintOfItem_argPath iv.1 iv.2)
  · exact seg_closed _ _ _ (fun v => rfl)

/-! ### the theorems -/

theorem closed_keyOk :
    keyOk "type".toList ∧ keyOk "sender".toList ∧ keyOk "interface".toList ∧ keyOk "member".toList
    ∧ keyOk "path".toList ∧ keyOk "path_namespace".toList ∧ keyOk "destination".toList ∧ keyOk "arg0namespace".toList := by
  exact ⟨⟨by decide, by decide, by decide⟩, ⟨by decide, by decide, by decide⟩, ⟨by decide, by decide, by decide⟩,
    ⟨by decide, by decide, by decide⟩, ⟨by decide, by decide, by decide⟩, ⟨by decide, by decide, by decide⟩,
    ⟨by decide, by decide, by decide⟩, ⟨by decide, by decide, by decide⟩⟩

theorem digit_ne_quote (c : Char) (h : isAsciiDigit c = true) : c ≠ '\'' := by
  intro hc; subst hc; revert h; decide

theorem natDigits_noQuote (n : Nat) : '\'' ∉ natDigits n := by
  have h := natDigits_all n
  rw [List.all_eq_true] at h
  intro hm; exact digit_ne_quote _ (h _ hm) rfl

theorem argKey_keyOk (i : Nat) : keyOk (argKey i) := by
  refine ⟨?_, argKey_noComma i, ?_⟩
  · rw [argKey_eq]; intro hm
    simp only [List.mem_cons, List.append_nil] at hm
    rcases hm with h | h | h | h
    · revert h; decide
    · revert h; decide
    · revert h; decide
    · exact (natDigits_noSep i).2 h
  · rw [argKey_eq]; intro hm
    simp only [List.mem_cons, List.append_nil] at hm
    rcases hm with h | h | h | h
    · revert h; decide
    · revert h; decide
    · revert h; decide
    · exact natDigits_noQuote i h

theorem argPathKey_keyOk (i : Nat) : keyOk (argPathKey i) := by
  refine ⟨?_, argPathKey_noComma i, ?_⟩
  · rw [argPathKey_eq]; intro hm
    simp only [List.mem_cons, List.mem_append] at hm
    rcases hm with h | h | h | h | h
    · revert h; decide
    · revert h; decide
    · revert h; decide
    · exact (natDigits_noSep i).2 h
    · revert h; simp
  · rw [argPathKey_eq]; intro hm
    simp only [List.mem_cons, List.mem_append] at hm
    rcases hm with h | h | h | h | h
    · revert h; decide
    · revert h; decide
    · revert h; decide
    · exact natDigits_noQuote i h
    · revert h; simp

theorem optPair_ok (k : Str) (o : Option Str) (hk : keyOk k) : ∀ p ∈ optPair k o, keyOk p.1 := by
  intro p hp
  cases o with
  | none => simp [optPair] at hp
  | some v =>
    simp only [optPair, List.mem_singleton] at hp
    subst hp
    exact hk

theorem renderPairs_ok (a : RuleArgs) : ∀ p ∈ renderPairs a, keyOk p.1 := by
  obtain ⟨k1, k2, k3, k4, k5, k6, k7, k8⟩ := closed_keyOk
  intro p hp
  unfold renderPairs at hp
  simp only [List.mem_append, List.mem_map] at hp
  rcases hp with (((((((((h | h) | h) | h) | h) | h) | h) | h) | h) | h)
  · exact optPair_ok _ _ k1 p h
  · exact optPair_ok _ _ k2 p h
  · exact optPair_ok _ _ k3 p h
  · exact optPair_ok _ _ k4 p h
  · exact optPair_ok _ _ k5 p h
  · exact optPair_ok _ _ k6 p h
  · exact optPair_ok _ _ k7 p h
  · obtain ⟨iv, _, rfl⟩ := h
    exact argKey_keyOk iv.1
  · obtain ⟨iv, _, rfl⟩ := h
    exact argPathKey_keyOk iv.1
  · exact optPair_ok _ _ k8 p h

/-- The specification's reading of the client's text: the (key, value) pairs of the rule. -/
theorem parseRuleText_render (a : RuleArgs) : parseRuleText (renderRule a) = some (renderPairs a) := by
  have hrr : renderRule a = joinWith ',' ((renderPairs a).map (fun p => renderItem p.1 p.2)) := by
    show joinWith ',' (renderItems a) = _
    rw [renderItems_eq]
  unfold parseRuleText
  rw [hrr]
  have hok := renderPairs_ok a
  cases hps : renderPairs a with
  | nil => simp [joinWith]
  | cons p t =>
    have hne : (p :: t) ≠ [] := by simp
    have hlen : (p :: t).length ≤ (joinWith ',' ((p :: t).map (fun p => renderItem p.1 p.2))).length := by
      have := joinWith_length ',' ((p :: t).map (fun p => renderItem p.1 p.2))
        (by intro x hx; obtain ⟨q, _, rfl⟩ := List.mem_map.mp hx; exact renderItem_length _ _) (by simp)
      simpa using this
    have hnonempty : (joinWith ',' ((p :: t).map (fun p => renderItem p.1 p.2))).isEmpty = false := by
      cases hj : joinWith ',' ((p :: t).map (fun p => renderItem p.1 p.2)) with
      | nil => rw [hj] at hlen; simp at hlen
      | cons _ _ => rfl
    rw [hps] at hok
    have hparse := parseItemsText_join (p :: t) hne hok
      ((joinWith ',' ((p :: t).map (fun p => renderItem p.1 p.2))).length + 1) (by omega)
    simp only [hnonempty, Bool.false_eq_true, if_false, hparse]

/-- The text the client sends, read with the specification's grammar, means the rule's constraints. -/
theorem text_means_constraints (a : RuleArgs) : ruleTextMeaning (renderRule a) = some (constraintsOf a) := by
  unfold ruleTextMeaning
  rw [parseRuleText_render, Option.bind_some]
  exact pairs_mean_constraints a

/-- `_parseMatchRule` on the client's text returns the pairs of the rule. -/
theorem parseMatchRule_render (a : RuleArgs) : parseMatchRule (renderRule a) = .ok (renderPairs a) := by
  have h := parseRuleText_render a
  unfold parseRuleText at h
  unfold parseMatchRule
  cases ht : renderRule a with
  | nil =>
    rw [ht] at h
    simp at h
    simp [busItems, ← h]
  | cons c t =>
    rw [ht] at h
    simp only [List.isEmpty_cons, Bool.false_eq_true, if_false] at h
    exact busItems_of_spec _ _ _ h

/-- `Bus.dbus_AddMatch` recovers from the client's text the constraints the client was given - for every rule. -/
theorem parse_render (a : RuleArgs) : parseRule curBusKeys (renderRule a) = .ok a.normalize := by
  unfold parseRule
  rw [parseMatchRule_render]
  exact parseItems_renderPairs a

end Txdbus.Route
