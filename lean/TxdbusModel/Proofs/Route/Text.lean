import TxdbusModel.Route.Text
/-
C12 - lemmas for `rule_text_roundtrip`: decimal rendering/parsing, `split`/`join`, one item,
and the fold over all items.
-/
namespace Txdbus.Route

/-! ### decimal digits -/

theorem digitChar_toNat : ∀ d : Fin 10, (digitChar d.val).toNat = 48 + d.val := by decide
theorem digitChar_isDigit : ∀ d : Fin 10, isAsciiDigit (digitChar d.val) = true := by decide
theorem digitChar_ne_comma : ∀ d : Fin 10, digitChar d.val ≠ ',' := by decide
theorem digitChar_ne_eq : ∀ d : Fin 10, digitChar d.val ≠ '=' := by decide

def decVal (s : Str) : Nat := s.foldl (fun acc c => acc * 10 + (c.toNat - 48)) 0

theorem decVal_snoc (s : Str) (c : Char) : decVal (s ++ [c]) = decVal s * 10 + (c.toNat - 48) := by
  simp [decVal, List.foldl_append]

theorem natDigitsFuel_spec : ∀ (fuel n : Nat), n < fuel →
    natDigitsFuel fuel n ≠ [] ∧ (natDigitsFuel fuel n).all isAsciiDigit = true ∧ decVal (natDigitsFuel fuel n) = n := by
  intro fuel
  induction fuel with
  | zero => intro n h; omega
  | succ f ih =>
    intro n hn
    unfold natDigitsFuel
    by_cases h10 : n < 10
    · simp only [h10, if_true]
      have h1 := digitChar_toNat ⟨n, h10⟩
      have h2 := digitChar_isDigit ⟨n, h10⟩
      simp only at h1 h2
      refine ⟨by simp, by simp [h2], ?_⟩
      simp [decVal, h1]
    · simp only [h10, if_false]
      have hlt : n / 10 < f := by omega
      obtain ⟨_, ha, hv⟩ := ih (n / 10) hlt
      have hm : n % 10 < 10 := Nat.mod_lt _ (by omega)
      have h1 := digitChar_toNat ⟨n % 10, hm⟩
      have h2 := digitChar_isDigit ⟨n % 10, hm⟩
      simp only at h1 h2
      refine ⟨by simp, ?_, ?_⟩
      · simp [List.all_append, ha, h2]
      · rw [decVal_snoc, hv, h1]; omega

theorem natDigits_ne_nil (n : Nat) : natDigits n ≠ [] := (natDigitsFuel_spec (n + 1) n (by omega)).1
theorem natDigits_all (n : Nat) : (natDigits n).all isAsciiDigit = true := (natDigitsFuel_spec (n + 1) n (by omega)).2.1
theorem natDigits_val (n : Nat) : decVal (natDigits n) = n := (natDigitsFuel_spec (n + 1) n (by omega)).2.2

theorem parseNat_natDigits (n : Nat) : parseNat (natDigits n) = some n := by
  unfold parseNat
  have h1 : (natDigits n).isEmpty = false := by
    cases h : natDigits n with
    | nil => exact absurd h (natDigits_ne_nil n)
    | cons _ _ => rfl
  simp only [h1, natDigits_all, Bool.not_true, Bool.or_self, Bool.false_eq_true, if_false]
  have := natDigits_val n
  unfold decVal at this
  rw [this]

theorem digit_ne_sep (c : Char) (h : isAsciiDigit c = true) : c ≠ ',' ∧ c ≠ '=' := by
  constructor
  · intro hc; subst hc; revert h; decide
  · intro hc; subst hc; revert h; decide

theorem natDigits_noSep (n : Nat) : ',' ∉ natDigits n ∧ '=' ∉ natDigits n := by
  have h := natDigits_all n
  rw [List.all_eq_true] at h
  constructor
  · intro hm; exact (digit_ne_sep _ (h _ hm)).1 rfl
  · intro hm; exact (digit_ne_sep _ (h _ hm)).2 rfl

/-! ### split and join -/

theorem splitOn_ne_nil (c : Char) (s : Str) : splitOn c s ≠ [] := by
  induction s with
  | nil => simp [splitOn]
  | cons x t ih =>
    unfold splitOn
    split
    · simp
    · split <;> simp

theorem splitOn_noSep (c : Char) (s : Str) (h : c ∉ s) : splitOn c s = [s] := by
  induction s with
  | nil => rfl
  | cons x t ih =>
    have hx : x ≠ c := fun e => h (by simp [e])
    have ht : c ∉ t := fun e => h (by simp [e])
    simp [splitOn, hx, ih ht]

theorem splitOn_append_sep (c : Char) (s t : Str) (h : c ∉ s) : splitOn c (s ++ c :: t) = s :: splitOn c t := by
  induction s with
  | nil => simp [splitOn]
  | cons x u ih =>
    have hx : x ≠ c := fun e => h (by simp [e])
    have hu : c ∉ u := fun e => h (by simp [e])
    simp [splitOn, hx, ih hu]

theorem splitOn_join (c : Char) (xs : List Str) (hne : xs ≠ []) (h : ∀ x ∈ xs, c ∉ x) :
    splitOn c (joinWith c xs) = xs := by
  induction xs with
  | nil => exact absurd rfl hne
  | cons x t ih =>
    cases t with
    | nil => simp [joinWith, splitOn_noSep c x (h x (by simp))]
    | cons y u =>
      simp only [joinWith]
      rw [splitOn_append_sep c x _ (h x (by simp))]
      rw [ih (by simp) (fun z hz => h z (by simp [hz]))]

/-! ### one item -/

theorem sliceInner_quoted (v : Str) : sliceInner ('\'' :: (v ++ ['\''])) = v := by
  simp [sliceInner]

theorem splitOn_item (k v : Str) (hk : '=' ∉ k) (hv : '=' ∉ v) :
    splitOn '=' (renderItem k v) = [k, '\'' :: (v ++ ['\''])] := by
  unfold renderItem
  rw [splitOn_append_sep '=' k _ hk]
  rw [splitOn_noSep]
  intro hm
  simp only [List.mem_cons, List.mem_append] at hm
  rcases hm with h | h | h
  · revert h; decide
  · exact hv h
  · revert h; simp

theorem renderItem_noComma (k v : Str) (hk : ',' ∉ k) (hv : ',' ∉ v) : ',' ∉ renderItem k v := by
  unfold renderItem
  intro hm
  simp only [List.mem_append, List.mem_cons] at hm
  rcases hm with h | h | h | h | h
  · exact hk h
  · revert h; decide
  · revert h; decide
  · exact hv h
  · revert h; simp

end Txdbus.Route
