import TxdbusModel.Route.Text
/-
C12 - lemmas for `rule_text_roundtrip`: decimal rendering/parsing, `split`/`join`, one item,
and the fold over all items.
-/
namespace Txdbus.Route

/-! ### decimal digits -/

theorem digitChar_toNat : ∀ d : Fin 10, (digitChar d.val).toNat = 48 + d.val := by decide
theorem digitChar_isDigit : ∀ d : Fin 10, isAsciiDigit (digitChar d.val) = true := by decide
theorem digitChar_ne_comma : ∀ d : Fin 10, digitChar d.val ≠ ',' := by decide
theorem digitChar_ne_eq : ∀ d : Fin 10, digitChar d.val ≠ '=' := by decide

def decVal (s : Str) : Nat := s.foldl (fun acc c => acc * 10 + (c.toNat - 48)) 0

theorem decVal_snoc (s : Str) (c : Char) : decVal (s ++ [c]) = decVal s * 10 + (c.toNat - 48) := by
  simp [decVal, List.foldl_append]

theorem natDigitsFuel_spec : ∀ (fuel n : Nat), n < fuel →
    natDigitsFuel fuel n ≠ [] ∧ (natDigitsFuel fuel n).all isAsciiDigit = true ∧ decVal (natDigitsFuel fuel n) = n := by
  intro fuel
  induction fuel with
  | zero => intro n h; omega
  | succ f ih =>
    intro n hn
    unfold natDigitsFuel
    by_cases h10 : n < 10
    · simp only [h10, if_true]
      have h1 := digitChar_toNat ⟨n, h10⟩
      have h2 := digitChar_isDigit ⟨n, h10⟩
      simp only at h1 h2
      refine ⟨by simp, by simp [h2], ?_⟩
      simp [decVal, h1]
    · simp only [h10, if_false]
      have hlt : n / 10 < f := by omega
      obtain ⟨_, ha, hv⟩ := ih (n / 10) hlt
      have hm : n % 10 < 10 := Nat.mod_lt _ (by omega)
      have h1 := digitChar_toNat ⟨n % 10, hm⟩
      have h2 := digitChar_isDigit ⟨n % 10, hm⟩
      simp only at h1 h2
      refine ⟨by simp, ?_, ?_⟩
      · simp [List.all_append, ha, h2]
      · rw [decVal_snoc, hv, h1]; omega

theorem natDigits_ne_nil (n : Nat) : natDigits n ≠ [] := (natDigitsFuel_spec (n + 1) n (by omega)).1
theorem natDigits_all (n : Nat) : (natDigits n).all isAsciiDigit = true := (natDigitsFuel_spec (n + 1) n (by omega)).2.1
theorem natDigits_val (n : Nat) : decVal (natDigits n) = n := (natDigitsFuel_spec (n + 1) n (by omega)).2.2

theorem parseNat_natDigits (n : Nat) : parseNat (natDigits n) = .ok n := by
  unfold parseNat
  have h1 : (natDigits n).isEmpty = false := by
    cases h : natDigits n with
    | nil => exact absurd h (natDigits_ne_nil n)
    | cons _ _ => rfl
  simp only [h1, natDigits_all, Bool.false_eq_true, if_false, if_true]
  have := natDigits_val n
  unfold decVal at this
  rw [this]

theorem digit_ne_sep (c : Char) (h : isAsciiDigit c = true) : c ≠ ',' ∧ c ≠ '=' := by
  constructor
  · intro hc; subst hc; revert h; decide
  · intro hc; subst hc; revert h; decide

theorem natDigits_noSep (n : Nat) : ',' ∉ natDigits n ∧ '=' ∉ natDigits n := by
  have h := natDigits_all n
  rw [List.all_eq_true] at h
  constructor
  · intro hm; exact (digit_ne_sep _ (h _ hm)).1 rfl
  · intro hm; exact (digit_ne_sep _ (h _ hm)).2 rfl

/-! ### split and join -/

theorem splitOn_ne_nil (c : Char) (s : Str) : splitOn c s ≠ [] := by
  induction s with
  | nil => simp [splitOn]
  | cons x t ih =>
    unfold splitOn
    split
    · simp
    · split <;> simp

theorem splitOn_noSep (c : Char) (s : Str) (h : c ∉ s) : splitOn c s = [s] := by
  induction s with
  | nil => rfl
  | cons x t ih =>
    have hx : x ≠ c := fun e => h (by simp [e])
    have ht : c ∉ t := fun e => h (by simp [e])
    simp [splitOn, hx, ih ht]

theorem splitOn_append_sep (c : Char) (s t : Str) (h : c ∉ s) : splitOn c (s ++ c :: t) = s :: splitOn c t := by
  induction s with
  | nil => simp [splitOn]
  | cons x u ih =>
    have hx : x ≠ c := fun e => h (by simp [e])
    have hu : c ∉ u := fun e => h (by simp [e])
    simp [splitOn, hx, ih hu]

theorem splitOn_join (c : Char) (xs : List Str) (hne : xs ≠ []) (h : ∀ x ∈ xs, c ∉ x) :
    splitOn c (joinWith c xs) = xs := by
  induction xs with
  | nil => exact absurd rfl hne
  | cons x t ih =>
    cases t with
    | nil => simp [joinWith, splitOn_noSep c x (h x (by simp))]
    | cons y u =>
      simp only [joinWith]
      rw [splitOn_append_sep c x _ (h x (by simp))]
      rw [ih (by simp) (fun z hz => h z (by simp [hz]))]

/-! ### one item -/

theorem sliceInner_quoted (v : Str) : sliceInner ('\'' :: (v ++ ['\''])) = v := by
  simp [sliceInner]

theorem splitOn_item (k v : Str) (hk : '=' ∉ k) (hv : '=' ∉ v) :
    splitOn '=' (renderItem k v) = [k, '\'' :: (v ++ ['\''])] := by
  unfold renderItem
  rw [splitOn_append_sep '=' k _ hk]
  rw [splitOn_noSep]
  intro hm
  simp only [List.mem_cons, List.mem_append] at hm
  rcases hm with h | h | h
  · revert h; decide
  · exact hv h
  · revert h; simp

theorem renderItem_noComma (k v : Str) (hk : ',' ∉ k) (hv : ',' ∉ v) : ',' ∉ renderItem k v := by
  unfold renderItem
  intro hm
  simp only [List.mem_append, List.mem_cons] at hm
  rcases hm with h | h | h | h | h
  · exact hk h
  · revert h; decide
  · revert h; decide
  · exact hv h
  · revert h; simp

/-! ### `parseItem` on what the client renders -/

theorem parseItem_kw (a a' : RuleArgs) (k0 v : Str) (p : Param)
    (hk : '=' ∉ k0) (hv : '=' ∉ v)
    (hkey : curBusKeys.contains (if k0 = "type".toList then "mtype".toList else k0) = true)
    (hp : Param.ofName (if k0 = "type".toList then "mtype".toList else k0) = some p)
    (hset : setParam a p v = some a') :
    parseItem curBusKeys a (renderItem k0 v) = .ok a' := by
  unfold parseItem
  rw [splitOn_item k0 v hk hv]
  simp only [sliceInner_quoted, hkey, if_true, hp, hset]

theorem curBusKeys_lit : curBusKeys =
    [['m','t','y','p','e'], ['s','e','n','d','e','r'], ['i','n','t','e','r','f','a','c','e'], ['m','e','m','b','e','r'],
     ['p','a','t','h'], ['p','a','t','h','_','n','a','m','e','s','p','a','c','e'],
     ['d','e','s','t','i','n','a','t','i','o','n'], ['a','r','g','s'], ['a','r','g','_','p','a','t','h','s'],
     ['a','r','g','0','n','a','m','e','s','p','a','c','e']] := by decide

theorem arg_lit : "arg".toList = ['a','r','g'] := by decide
theorem path_lit : "path".toList = ['p','a','t','h'] := by decide
theorem type_lit : "type".toList = ['t','y','p','e'] := by decide

theorem not_digit_s : isAsciiDigit 's' = false := by decide
theorem not_digit_us : isAsciiDigit '_' = false := by decide
theorem not_digit_n : isAsciiDigit 'n' = false := by decide

/-- No key of the `kwargs` literal is `arg<digits>` or `arg<digits>path`. -/
theorem arg_not_kw (ds rest : Str) (hne : ds ≠ []) (hd : ds.all isAsciiDigit = true)
    (hrest : rest = [] ∨ rest = ['p','a','t','h']) :
    curBusKeys.contains ('a' :: 'r' :: 'g' :: (ds ++ rest)) = false := by
  rw [curBusKeys_lit]
  cases ds with
  | nil => exact absurd rfl hne
  | cons d ds' =>
    simp only [List.all_cons, Bool.and_eq_true] at hd
    obtain ⟨hd1, hd2⟩ := hd
    have h1 : d ≠ 's' := fun e => by rw [e, not_digit_s] at hd1; cases hd1
    have h2 : d ≠ '_' := fun e => by rw [e, not_digit_us] at hd1; cases hd1
    have h3 : ¬ (ds' ++ rest = ['n','a','m','e','s','p','a','c','e']) := by
      intro e
      cases ds' with
      | nil =>
        rcases hrest with h | h <;> rw [h] at e <;> simp at e
      | cons d' ds'' =>
        simp only [List.all_cons, Bool.and_eq_true] at hd2
        simp only [List.cons_append, List.cons.injEq] at e
        rw [e.1, not_digit_n] at hd2
        cases hd2.1
    have b1 : (d == 's') = false := by simp [h1]
    have b2 : (d == '_') = false := by simp [h2]
    have b3 : (ds' ++ rest == ['n','a','m','e','s','p','a','c','e']) = false := by simp [h3]
    simp [List.contains, List.elem, b1, b2, b3]

theorem argKey_eq (i : Nat) : argKey i = 'a' :: 'r' :: 'g' :: (natDigits i ++ []) := by
  simp [argKey, arg_lit]

theorem argPathKey_eq (i : Nat) : argPathKey i = 'a' :: 'r' :: 'g' :: (natDigits i ++ ['p','a','t','h']) := by
  simp [argPathKey, arg_lit, path_lit]

theorem natDigits_getLast (n : Nat) : ∃ init c, natDigits n = init ++ [c] ∧ isAsciiDigit c = true := by
  have hne := natDigits_ne_nil n
  refine ⟨(natDigits n).dropLast, (natDigits n).getLast hne, (List.dropLast_concat_getLast hne).symm, ?_⟩
  have := natDigits_all n
  rw [List.all_eq_true] at this
  exact this _ (List.getLast_mem hne)

theorem not_suffix_path (init : Str) (c : Char) (hc : isAsciiDigit c = true) :
    ['p','a','t','h'].isSuffixOf ('a' :: 'r' :: 'g' :: (init ++ [c])) = false := by
  cases h : ['p','a','t','h'].isSuffixOf ('a' :: 'r' :: 'g' :: (init ++ [c])) with
  | false => rfl
  | true =>
    rw [List.isSuffixOf_iff_suffix] at h
    obtain ⟨t, ht⟩ := h
    have h1 : (t ++ ['p','a','t','h']).getLast? = some 'h' := by simp
    have h2 : ('a' :: 'r' :: 'g' :: (init ++ [c])).getLast? = some c := by
      have : 'a' :: 'r' :: 'g' :: (init ++ [c]) = ('a' :: 'r' :: 'g' :: init) ++ [c] := by simp
      rw [this, List.getLast?_append]; simp
    rw [ht, h2] at h1
    simp at h1
    rw [h1] at hc
    revert hc; decide

theorem parseItem_arg (a : RuleArgs) (i : Nat) (v : Str) (hv : '=' ∉ v) :
    parseItem curBusKeys a (renderItem (argKey i) v)
      = .ok { a with args := some (a.args.getD [] ++ [(i, v)]) } := by
  have hk : '=' ∉ argKey i := by
    rw [argKey_eq]
    intro hm
    simp only [List.mem_cons, List.append_nil] at hm
    rcases hm with h | h | h | h
    · revert h; decide
    · revert h; decide
    · revert h; decide
    · exact (natDigits_noSep i).2 h
  unfold parseItem
  rw [splitOn_item _ v hk hv]
  obtain ⟨init, c, hic, hc⟩ := natDigits_getLast i
  have hnt : ¬ (argKey i = "type".toList) := by
    rw [argKey_eq, type_lit]; simp
  have hkw : curBusKeys.contains (argKey i) = false := by
    rw [argKey_eq]; exact arg_not_kw _ [] (natDigits_ne_nil i) (natDigits_all i) (Or.inl rfl)
  have hpre : "arg".toList.isPrefixOf (argKey i) = true := by
    rw [argKey_eq, arg_lit]; simp [List.isPrefixOf]
  have hsuf : "path".toList.isSuffixOf (argKey i) = false := by
    rw [argKey_eq, path_lit, List.append_nil, hic]; exact not_suffix_path init c hc
  have hdrop : (argKey i).drop 3 = natDigits i := by
    rw [argKey_eq]; simp
  simp only [sliceInner_quoted, hnt, if_false, hkw, hpre, hsuf, hdrop, parseNat_natDigits, Bool.false_eq_true, if_true]

theorem parseItem_argPath (a : RuleArgs) (i : Nat) (v : Str) (hv : '=' ∉ v) :
    parseItem curBusKeys a (renderItem (argPathKey i) v)
      = .ok { a with argPaths := some (a.argPaths.getD [] ++ [(i, v)]) } := by
  have hk : '=' ∉ argPathKey i := by
    rw [argPathKey_eq]
    intro hm
    simp only [List.mem_cons, List.mem_append] at hm
    rcases hm with h | h | h | h | h
    · revert h; decide
    · revert h; decide
    · revert h; decide
    · exact (natDigits_noSep i).2 h
    · revert h; simp
  unfold parseItem
  rw [splitOn_item _ v hk hv]
  have hnt : ¬ (argPathKey i = "type".toList) := by
    rw [argPathKey_eq, type_lit]; simp
  have hkw : curBusKeys.contains (argPathKey i) = false := by
    rw [argPathKey_eq]; exact arg_not_kw _ _ (natDigits_ne_nil i) (natDigits_all i) (Or.inr rfl)
  have hpre : "arg".toList.isPrefixOf (argPathKey i) = true := by
    rw [argPathKey_eq, arg_lit]; simp [List.isPrefixOf]
  have hsuf : "path".toList.isSuffixOf (argPathKey i) = true := by
    rw [List.isSuffixOf_iff_suffix, argPathKey_eq, path_lit]
    exact ⟨'a' :: 'r' :: 'g' :: natDigits i, by simp⟩
  have hslice : slice3m4 (argPathKey i) = natDigits i := by
    rw [argPathKey_eq]
    unfold slice3m4
    have hlen : ('a' :: 'r' :: 'g' :: (natDigits i ++ ['p','a','t','h'])).length - 4 = 3 + (natDigits i).length := by
      simp; omega
    rw [hlen]
    have : 'a' :: 'r' :: 'g' :: (natDigits i ++ ['p','a','t','h']) = ('a' :: 'r' :: 'g' :: natDigits i) ++ ['p','a','t','h'] := by simp
    rw [this, List.take_left']
    · simp
    · simp; omega
  simp only [sliceInner_quoted, hnt, if_false, hkw, hpre, hsuf, hslice, parseNat_natDigits, Bool.false_eq_true, if_true]

/-! ### the whole text -/

theorem parseItems_append (kw : List Str) (l1 l2 : List Str) : ∀ a : RuleArgs,
    parseItems kw a (l1 ++ l2) =
      match parseItems kw a l1 with
      | .error e => .error e
      | .ok a' => parseItems kw a' l2 := by
  induction l1 with
  | nil => intro a; rfl
  | cons x t ih =>
    intro a
    simp only [List.cons_append, parseItems]
    cases parseItem kw a x with
    | error e => rfl
    | ok a' => exact ih a'

/-- A value that can travel in a rule text without escaping: no comma, no equals sign. -/
def strOk (s : Str) : Prop := ',' ∉ s ∧ '=' ∉ s
def optOk (o : Option Str) : Prop := ∀ s, o = some s → strOk s
def pairsOk (o : Option (List (Nat × Str))) : Prop := ∀ iv ∈ o.getD [], strOk iv.2

structure RuleArgs.TextOk (a : RuleArgs) : Prop where
  mtype : optOk a.mtype
  sender : optOk a.sender
  iface : optOk a.iface
  member : optOk a.member
  path : optOk a.path
  pathNs : optOk a.pathNs
  dest : optOk a.dest
  arg0ns : optOk a.arg0ns
  args : pairsOk a.args
  argPaths : pairsOk a.argPaths

/-- `arg=[]` and `arg=None` are the same rule. -/
def normPairs : Option (List (Nat × Str)) → Option (List (Nat × Str))
  | some [] => none
  | x => x

def RuleArgs.normalize (a : RuleArgs) : RuleArgs :=
  { a with args := normPairs a.args, argPaths := normPairs a.argPaths }

theorem seg_opt (a : RuleArgs) (k0 : Str) (o : Option Str) (f : RuleArgs → Option Str → RuleArgs)
    (hnone : f a none = a)
    (h : ∀ v, o = some v → parseItem curBusKeys a (renderItem k0 v) = .ok (f a (some v))) :
    parseItems curBusKeys a (optItem k0 o) = .ok (f a o) := by
  cases o with
  | none => simp [optItem, parseItems, hnone]
  | some v => simp [optItem, parseItems, h v rfl]

theorem seg_args (l : List (Nat × Str)) (hl : ∀ iv ∈ l, '=' ∉ iv.2) : ∀ a : RuleArgs,
    parseItems curBusKeys a (l.map (fun iv => renderItem (argKey iv.1) iv.2))
      = .ok (if l = [] then a else { a with args := some (a.args.getD [] ++ l) }) := by
  induction l with
  | nil => intro a; rfl
  | cons iv t ih =>
    intro a
    simp only [List.map_cons, parseItems]
    rw [parseItem_arg a iv.1 iv.2 (hl iv (by simp))]
    simp only
    rw [ih (fun x hx => hl x (by simp [hx]))]
    by_cases ht : t = []
    · subst ht; simp
    · simp [ht]

theorem seg_argPaths (l : List (Nat × Str)) (hl : ∀ iv ∈ l, '=' ∉ iv.2) : ∀ a : RuleArgs,
    parseItems curBusKeys a (l.map (fun iv => renderItem (argPathKey iv.1) iv.2))
      = .ok (if l = [] then a else { a with argPaths := some (a.argPaths.getD [] ++ l) }) := by
  induction l with
  | nil => intro a; rfl
  | cons iv t ih =>
    intro a
    simp only [List.map_cons, parseItems]
    rw [parseItem_argPath a iv.1 iv.2 (hl iv (by simp))]
    simp only
    rw [ih (fun x hx => hl x (by simp [hx]))]
    by_cases ht : t = []
    · subst ht; simp
    · simp [ht]

theorem closed_keys_noSep :
    (',' ∉ "type".toList ∧ '=' ∉ "type".toList) ∧ (',' ∉ "sender".toList ∧ '=' ∉ "sender".toList)
    ∧ (',' ∉ "interface".toList ∧ '=' ∉ "interface".toList) ∧ (',' ∉ "member".toList ∧ '=' ∉ "member".toList)
    ∧ (',' ∉ "path".toList ∧ '=' ∉ "path".toList) ∧ (',' ∉ "path_namespace".toList ∧ '=' ∉ "path_namespace".toList)
    ∧ (',' ∉ "destination".toList ∧ '=' ∉ "destination".toList)
    ∧ (',' ∉ "arg0namespace".toList ∧ '=' ∉ "arg0namespace".toList) := by decide

theorem argKey_noComma (i : Nat) : ',' ∉ argKey i := by
  rw [argKey_eq]
  intro hm
  simp only [List.mem_cons, List.append_nil] at hm
  rcases hm with h | h | h | h
  · revert h; decide
  · revert h; decide
  · revert h; decide
  · exact (natDigits_noSep i).1 h

theorem argPathKey_noComma (i : Nat) : ',' ∉ argPathKey i := by
  rw [argPathKey_eq]
  intro hm
  simp only [List.mem_cons, List.mem_append] at hm
  rcases hm with h | h | h | h | h
  · revert h; decide
  · revert h; decide
  · revert h; decide
  · exact (natDigits_noSep i).1 h
  · revert h; simp

theorem optItem_noComma (k : Str) (o : Option Str) (hk : ',' ∉ k) (ho : optOk o) :
    ∀ x ∈ optItem k o, ',' ∉ x := by
  intro x hx
  cases o with
  | none => simp [optItem] at hx
  | some v =>
    simp only [optItem, List.mem_singleton] at hx
    subst hx
    exact renderItem_noComma k v hk (ho v rfl).1

theorem renderItems_noComma (a : RuleArgs) (hok : a.TextOk) : ∀ x ∈ renderItems a, ',' ∉ x := by
  obtain ⟨k1, k2, k3, k4, k5, k6, k7, k8⟩ := closed_keys_noSep
  intro x hx
  unfold renderItems at hx
  simp only [List.mem_append, List.mem_map] at hx
  rcases hx with (((((((((h | h) | h) | h) | h) | h) | h) | h) | h) | h)
  · exact optItem_noComma _ _ k1.1 hok.mtype x h
  · exact optItem_noComma _ _ k2.1 hok.sender x h
  · exact optItem_noComma _ _ k3.1 hok.iface x h
  · exact optItem_noComma _ _ k4.1 hok.member x h
  · exact optItem_noComma _ _ k5.1 hok.path x h
  · exact optItem_noComma _ _ k6.1 hok.pathNs x h
  · exact optItem_noComma _ _ k7.1 hok.dest x h
  · obtain ⟨iv, hiv, rfl⟩ := h
    exact renderItem_noComma _ _ (argKey_noComma iv.1) (hok.args iv hiv).1
  · obtain ⟨iv, hiv, rfl⟩ := h
    exact renderItem_noComma _ _ (argPathKey_noComma iv.1) (hok.argPaths iv hiv).1
  · exact optItem_noComma _ _ k8.1 hok.arg0ns x h

theorem or_none' {α : Type} (o : Option α) : (o <|> none) = o := by cases o <;> rfl

theorem parseItems_renderItems (a : RuleArgs) (hok : a.TextOk) :
    parseItems curBusKeys {} (renderItems a) = .ok a.normalize := by
  obtain ⟨k1, k2, k3, k4, k5, k6, k7, k8⟩ := closed_keys_noSep
  unfold renderItems
  -- type
  simp only [List.append_assoc]
  rw [parseItems_append, seg_opt _ _ a.mtype (fun r o => { r with mtype := o <|> r.mtype }) rfl
    (fun v hv => parseItem_kw _ _ _ v .mtype k1.2 (hok.mtype v hv).2 (by decide) (by decide) rfl)]
  simp only
  rw [parseItems_append, seg_opt _ _ a.sender (fun r o => { r with sender := o <|> r.sender }) rfl
    (fun v hv => parseItem_kw _ _ _ v .sender k2.2 (hok.sender v hv).2 (by decide) (by decide) rfl)]
  simp only
  rw [parseItems_append, seg_opt _ _ a.iface (fun r o => { r with iface := o <|> r.iface }) rfl
    (fun v hv => parseItem_kw _ _ _ v .iface k3.2 (hok.iface v hv).2 (by decide) (by decide) rfl)]
  simp only
  rw [parseItems_append, seg_opt _ _ a.member (fun r o => { r with member := o <|> r.member }) rfl
    (fun v hv => parseItem_kw _ _ _ v .member k4.2 (hok.member v hv).2 (by decide) (by decide) rfl)]
  simp only
  rw [parseItems_append, seg_opt _ _ a.path (fun r o => { r with path := o <|> r.path }) rfl
    (fun v hv => parseItem_kw _ _ _ v .path k5.2 (hok.path v hv).2 (by decide) (by decide) rfl)]
  simp only
  rw [parseItems_append, seg_opt _ _ a.pathNs (fun r o => { r with pathNs := o <|> r.pathNs }) rfl
    (fun v hv => parseItem_kw _ _ _ v .pathNs k6.2 (hok.pathNs v hv).2 (by decide) (by decide) rfl)]
  simp only
  rw [parseItems_append, seg_opt _ _ a.dest (fun r o => { r with dest := o <|> r.dest }) rfl
    (fun v hv => parseItem_kw _ _ _ v .dest k7.2 (hok.dest v hv).2 (by decide) (by decide) rfl)]
  simp only
  rw [parseItems_append, seg_args _ (fun iv hiv => (hok.args iv hiv).2)]
  simp only
  rw [parseItems_append, seg_argPaths _ (fun iv hiv => (hok.argPaths iv hiv).2)]
  simp only
  rw [seg_opt _ _ a.arg0ns (fun r o => { r with arg0ns := o <|> r.arg0ns }) rfl
    (fun v hv => parseItem_kw _ _ _ v .arg0ns k8.2 (hok.arg0ns v hv).2 (by decide) (by decide) rfl)]
  obtain ⟨mtype, sender, iface, member, path, pathNs, dest, args, argPaths, arg0ns⟩ := a
  simp only [RuleArgs.normalize, or_none']
  congr 1
  cases args with
  | none =>
    cases argPaths with
    | none => simp [normPairs]
    | some l => cases l <;> simp [normPairs]
  | some l =>
    cases l with
    | nil =>
      cases argPaths with
      | none => simp [normPairs]
      | some l' => cases l' <;> simp [normPairs]
    | cons x t =>
      cases argPaths with
      | none => simp [normPairs]
      | some l' => cases l' <;> simp [normPairs]

/-- `Bus.dbus_AddMatch` recovers from the client's text the constraints the client was given. -/
theorem parse_render (a : RuleArgs) (hok : a.TextOk) (hne : renderItems a ≠ []) :
    parseRule curBusKeys (renderRule a) = .ok a.normalize := by
  unfold parseRule renderRule
  rw [splitOn_join ',' _ hne (renderItems_noComma a hok)]
  exact parseItems_renderItems a hok

theorem normPairs_if {β : Type} (x : Option (List (Nat × Str))) (f : PyVal → β) (r : β) :
    (if (optPairs (normPairs x)).truthy = true then f (optPairs (normPairs x)) else r)
      = (if (optPairs x).truthy = true then f (optPairs x) else r) := by
  cases x with
  | none => rfl
  | some l => cases l <;> rfl

end Txdbus.Route
