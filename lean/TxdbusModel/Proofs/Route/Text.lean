import TxdbusModel.Route.Text
/-
C12 - lemmas for `rule_text_roundtrip`: decimal rendering/parsing, `split`/`join`, one item,
and the fold over all items.
-/
namespace Txdbus.Route

/-! ### decimal digits -/

theorem digitChar_toNat : ∀ d : Fin 10, (digitChar d.val).toNat = 48 + d.val := by decide
theorem digitChar_isDigit : ∀ d : Fin 10, isAsciiDigit (digitChar d.val) = true := by decide
theorem digitChar_ne_comma : ∀ d : Fin 10, digitChar d.val ≠ ',' := by decide
theorem digitChar_ne_eq : ∀ d : Fin 10, digitChar d.val ≠ '=' := by decide

def decVal (s : Str) : Nat := s.foldl (fun acc c => acc * 10 + (c.toNat - 48)) 0

theorem decVal_snoc (s : Str) (c : Char) : decVal (s ++ [c]) = decVal s * 10 + (c.toNat - 48) := by
  simp [decVal, List.foldl_append]

theorem natDigitsFuel_spec : ∀ (fuel n : Nat), n < fuel →
    natDigitsFuel fuel n ≠ [] ∧ (natDigitsFuel fuel n).all isAsciiDigit = true ∧ decVal (natDigitsFuel fuel n) = n := by
  intro fuel
  induction fuel with
  | zero => intro n h; omega
  | succ f ih =>
    intro n hn
    unfold natDigitsFuel
    by_cases h10 : n < 10
    · simp only [h10, if_true]
      have h1 := digitChar_toNat ⟨n, h10⟩
      have h2 := digitChar_isDigit ⟨n, h10⟩
      simp only at h1 h2
      refine ⟨by simp, by simp [h2], ?_⟩
      simp [decVal, h1]
    · simp only [h10, if_false]
      have hlt : n / 10 < f := by omega
      obtain ⟨_, ha, hv⟩ := ih (n / 10) hlt
      have hm : n % 10 < 10 := Nat.mod_lt _ (by omega)
      have h1 := digitChar_toNat ⟨n % 10, hm⟩
      have h2 := digitChar_isDigit ⟨n % 10, hm⟩
      simp only at h1 h2
      refine ⟨by simp, ?_, ?_⟩
      · simp [List.all_append, ha, h2]
      · rw [decVal_snoc, hv, h1]; omega

theorem natDigits_ne_nil (n : Nat) : natDigits n ≠ [] := (natDigitsFuel_spec (n + 1) n (by omega)).1
theorem natDigits_all (n : Nat) : (natDigits n).all isAsciiDigit = true := (natDigitsFuel_spec (n + 1) n (by omega)).2.1
theorem natDigits_val (n : Nat) : decVal (natDigits n) = n := (natDigitsFuel_spec (n + 1) n (by omega)).2.2

theorem parseNat_natDigits (n : Nat) : parseNat (natDigits n) = .ok n := by
  unfold parseNat
  have h1 : (natDigits n).isEmpty = false := by
    cases h : natDigits n with
    | nil => exact absurd h (natDigits_ne_nil n)
    | cons _ _ => rfl
  simp only [h1, natDigits_all, Bool.false_eq_true, if_false, if_true]
  have := natDigits_val n
  unfold decVal at this
  rw [this]

theorem digit_ne_sep (c : Char) (h : isAsciiDigit c = true) : c ≠ ',' ∧ c ≠ '=' := by
  constructor
  · intro hc; subst hc; revert h; decide
  · intro hc; subst hc; revert h; decide

theorem natDigits_noSep (n : Nat) : ',' ∉ natDigits n ∧ '=' ∉ natDigits n := by
  have h := natDigits_all n
  rw [List.all_eq_true] at h
  constructor
  · intro hm; exact (digit_ne_sep _ (h _ hm)).1 rfl
  · intro hm; exact (digit_ne_sep _ (h _ hm)).2 rfl

/-! ### `parseItem` on the (key, value) pairs the client writes -/

theorem parseItem_kw (a a' : RuleArgs) (k0 v : Str) (p : Param)
    (hkey : curBusKeys.contains (if k0 = "type".toList then "mtype".toList else k0) = true)
    (hp : Param.ofName (if k0 = "type".toList then "mtype".toList else k0) = some p)
    (hset : setParam a p v = some a') :
    parseItem curBusKeys a (k0, v) = .ok a' := by
  unfold parseItem
  simp only [hkey, if_true, hp, hset]

theorem curBusKeys_lit : curBusKeys =
    [['m','t','y','p','e'], ['s','e','n','d','e','r'], ['i','n','t','e','r','f','a','c','e'], ['m','e','m','b','e','r'],
     ['p','a','t','h'], ['p','a','t','h','_','n','a','m','e','s','p','a','c','e'],
     ['d','e','s','t','i','n','a','t','i','o','n'], ['a','r','g','s'], ['a','r','g','_','p','a','t','h','s'],
     ['a','r','g','0','n','a','m','e','s','p','a','c','e']] := by decide

theorem arg_lit : "arg".toList = ['a','r','g'] := by decide
theorem path_lit : "path".toList = ['p','a','t','h'] := by decide
theorem type_lit : "type".toList = ['t','y','p','e'] := by decide

theorem not_digit_s : isAsciiDigit 's' = false := by decide
theorem not_digit_us : isAsciiDigit '_' = false := by decide
theorem not_digit_n : isAsciiDigit 'n' = false := by decide

/-- No key of the `kwargs` literal is `arg<digits>` or `arg<digits>path`. -/
theorem arg_not_kw (ds rest : Str) (hne : ds ≠ []) (hd : ds.all isAsciiDigit = true)
    (hrest : rest = [] ∨ rest = ['p','a','t','h']) :
    curBusKeys.contains ('a' :: 'r' :: 'g' :: (ds ++ rest)) = false := by
  rw [curBusKeys_lit]
  cases ds with
  | nil => exact absurd rfl hne
  | cons d ds' =>
    simp only [List.all_cons, Bool.and_eq_true] at hd
    obtain ⟨hd1, hd2⟩ := hd
    have h1 : d ≠ 's' := fun e => by rw [e, not_digit_s] at hd1; cases hd1
    have h2 : d ≠ '_' := fun e => by rw [e, not_digit_us] at hd1; cases hd1
    have h3 : ¬ (ds' ++ rest = ['n','a','m','e','s','p','a','c','e']) := by
      intro e
      cases ds' with
      | nil =>
        rcases hrest with h | h <;> rw [h] at e <;> simp at e
      | cons d' ds'' =>
        simp only [List.all_cons, Bool.and_eq_true] at hd2
        simp only [List.cons_append, List.cons.injEq] at e
        rw [e.1, not_digit_n] at hd2
        cases hd2.1
    have b1 : (d == 's') = false := by simp [h1]
    have b2 : (d == '_') = false := by simp [h2]
    have b3 : (ds' ++ rest == ['n','a','m','e','s','p','a','c','e']) = false := by simp [h3]
    simp [List.contains, List.elem, b1, b2, b3]

theorem argKey_eq (i : Nat) : argKey i = 'a' :: 'r' :: 'g' :: (natDigits i ++ []) := by
  simp [argKey, arg_lit]

theorem argPathKey_eq (i : Nat) : argPathKey i = 'a' :: 'r' :: 'g' :: (natDigits i ++ ['p','a','t','h']) := by
  simp [argPathKey, arg_lit, path_lit]

theorem natDigits_getLast (n : Nat) : ∃ init c, natDigits n = init ++ [c] ∧ isAsciiDigit c = true := by
  have hne := natDigits_ne_nil n
  refine ⟨(natDigits n).dropLast, (natDigits n).getLast hne, (List.dropLast_concat_getLast hne).symm, ?_⟩
  have := natDigits_all n
  rw [List.all_eq_true] at this
  exact this _ (List.getLast_mem hne)

theorem not_suffix_path (init : Str) (c : Char) (hc : isAsciiDigit c = true) :
    ['p','a','t','h'].isSuffixOf ('a' :: 'r' :: 'g' :: (init ++ [c])) = false := by
  cases h : ['p','a','t','h'].isSuffixOf ('a' :: 'r' :: 'g' :: (init ++ [c])) with
  | false => rfl
  | true =>
    rw [List.isSuffixOf_iff_suffix] at h
    obtain ⟨t, ht⟩ := h
    have h1 : (t ++ ['p','a','t','h']).getLast? = some 'h' := by simp
    have h2 : ('a' :: 'r' :: 'g' :: (init ++ [c])).getLast? = some c := by
      have : 'a' :: 'r' :: 'g' :: (init ++ [c]) = ('a' :: 'r' :: 'g' :: init) ++ [c] := by simp
      rw [this, List.getLast?_append]; simp
    rw [ht, h2] at h1
    simp at h1
    rw [h1] at hc
    revert hc; decide

theorem parseItem_arg (a : RuleArgs) (i : Nat) (v : Str) :
    parseItem curBusKeys a (argKey i, v)
      = .ok { a with args := some (a.args.getD [] ++ [(i, v)]) } := by
  unfold parseItem
  obtain ⟨init, c, hic, hc⟩ := natDigits_getLast i
  have hnt : ¬ (argKey i = "type".toList) := by
    rw [argKey_eq, type_lit]; simp
  have hkw : curBusKeys.contains (argKey i) = false := by
    rw [argKey_eq]; exact arg_not_kw _ [] (natDigits_ne_nil i) (natDigits_all i) (Or.inl rfl)
  have hpre : "arg".toList.isPrefixOf (argKey i) = true := by
    rw [argKey_eq, arg_lit]; simp [List.isPrefixOf]
  have hsuf : "path".toList.isSuffixOf (argKey i) = false := by
    rw [argKey_eq, path_lit, List.append_nil, hic]; exact not_suffix_path init c hc
  have hdrop : (argKey i).drop 3 = natDigits i := by
    rw [argKey_eq]; simp
  simp only [hnt, if_false, hkw, hpre, hsuf, hdrop, parseNat_natDigits, Bool.false_eq_true, if_true]

theorem parseItem_argPath (a : RuleArgs) (i : Nat) (v : Str) :
    parseItem curBusKeys a (argPathKey i, v)
      = .ok { a with argPaths := some (a.argPaths.getD [] ++ [(i, v)]) } := by
  unfold parseItem
  have hnt : ¬ (argPathKey i = "type".toList) := by
    rw [argPathKey_eq, type_lit]; simp
  have hkw : curBusKeys.contains (argPathKey i) = false := by
    rw [argPathKey_eq]; exact arg_not_kw _ _ (natDigits_ne_nil i) (natDigits_all i) (Or.inr rfl)
  have hpre : "arg".toList.isPrefixOf (argPathKey i) = true := by
    rw [argPathKey_eq, arg_lit]; simp [List.isPrefixOf]
  have hsuf : "path".toList.isSuffixOf (argPathKey i) = true := by
    rw [List.isSuffixOf_iff_suffix, argPathKey_eq, path_lit]
    exact ⟨'a' :: 'r' :: 'g' :: natDigits i, by simp⟩
  have hslice : slice3m4 (argPathKey i) = natDigits i := by
    rw [argPathKey_eq]
    unfold slice3m4
    have hlen : ('a' :: 'r' :: 'g' :: (natDigits i ++ ['p','a','t','h'])).length - 4 = 3 + (natDigits i).length := by
      simp; omega
    rw [hlen]
    have : 'a' :: 'r' :: 'g' :: (natDigits i ++ ['p','a','t','h']) = ('a' :: 'r' :: 'g' :: natDigits i) ++ ['p','a','t','h'] := by simp
    rw [this, List.take_left']
    · simp
    · simp; omega
  simp only [hnt, if_false, hkw, hpre, hsuf, hslice, parseNat_natDigits, if_true, Bool.false_eq_true]

/-! ### the pairs of a rule -/

/-- (key, value) pairs in the order the client writes them. -/
def optPair (k : Str) : Option Str → List (Str × Str)
  | none => []
  | some v => [(k, v)]

def renderPairs (a : RuleArgs) : List (Str × Str) :=
  optPair "type".toList a.mtype ++ optPair "sender".toList a.sender ++ optPair "interface".toList a.iface
  ++ optPair "member".toList a.member ++ optPair "path".toList a.path
  ++ optPair "path_namespace".toList a.pathNs ++ optPair "destination".toList a.dest
  ++ (a.args.getD []).map (fun iv => (argKey iv.1, iv.2))
  ++ (a.argPaths.getD []).map (fun iv => (argPathKey iv.1, iv.2))
  ++ optPair "arg0namespace".toList a.arg0ns

theorem parseItems_append (kw : List Str) (l1 l2 : List (Str × Str)) : ∀ a : RuleArgs,
    parseItems kw a (l1 ++ l2) =
      match parseItems kw a l1 with
      | .error e => .error e
      | .ok a' => parseItems kw a' l2 := by
  induction l1 with
  | nil => intro a; rfl
  | cons x t ih =>
    intro a
    simp only [List.cons_append, parseItems]
    cases parseItem kw a x with
    | error e => rfl
    | ok a' => exact ih a'

/-- `arg=[]` and `arg=None` are the same rule. -/
def normPairs : Option (List (Nat × Str)) → Option (List (Nat × Str))
  | some [] => none
  | x => x

def RuleArgs.normalize (a : RuleArgs) : RuleArgs :=
  { a with args := normPairs a.args, argPaths := normPairs a.argPaths }

theorem seg_opt (a : RuleArgs) (k0 : Str) (o : Option Str) (f : RuleArgs → Option Str → RuleArgs)
    (hnone : f a none = a)
    (h : ∀ v, o = some v → parseItem curBusKeys a (k0, v) = .ok (f a (some v))) :
    parseItems curBusKeys a (optPair k0 o) = .ok (f a o) := by
  cases o with
  | none => simp [optPair, parseItems, hnone]
  | some v => simp [optPair, parseItems, h v rfl]

theorem seg_args (l : List (Nat × Str)) : ∀ a : RuleArgs,
    parseItems curBusKeys a (l.map (fun iv => (argKey iv.1, iv.2)))
      = .ok (if l = [] then a else { a with args := some (a.args.getD [] ++ l) }) := by
  induction l with
  | nil => intro a; rfl
  | cons iv t ih =>
    intro a
    simp only [List.map_cons, parseItems]
    rw [parseItem_arg a iv.1 iv.2]
    simp only
    rw [ih]
    by_cases ht : t = []
    · subst ht; simp
    · simp [ht]

theorem seg_argPaths (l : List (Nat × Str)) : ∀ a : RuleArgs,
    parseItems curBusKeys a (l.map (fun iv => (argPathKey iv.1, iv.2)))
      = .ok (if l = [] then a else { a with argPaths := some (a.argPaths.getD [] ++ l) }) := by
  induction l with
  | nil => intro a; rfl
  | cons iv t ih =>
    intro a
    simp only [List.map_cons, parseItems]
    rw [parseItem_argPath a iv.1 iv.2]
    simp only
    rw [ih]
    by_cases ht : t = []
    · subst ht; simp
    · simp [ht]

theorem argKey_noComma (i : Nat) : ',' ∉ argKey i := by
  rw [argKey_eq]
  intro hm
  simp only [List.mem_cons, List.append_nil] at hm
  rcases hm with h | h | h | h
  · revert h; decide
  · revert h; decide
  · revert h; decide
  · exact (natDigits_noSep i).1 h

theorem argPathKey_noComma (i : Nat) : ',' ∉ argPathKey i := by
  rw [argPathKey_eq]
  intro hm
  simp only [List.mem_cons, List.mem_append] at hm
  rcases hm with h | h | h | h | h
  · revert h; decide
  · revert h; decide
  · revert h; decide
  · exact (natDigits_noSep i).1 h
  · revert h; simp

theorem or_none' {α : Type} (o : Option α) : (o <|> none) = o := by cases o <;> rfl

/-- `dbus_AddMatch`'s loop over the pairs of a rule yields the rule (`arg=[]` ~ `arg=None`). -/
theorem parseItems_renderPairs (a : RuleArgs) :
    parseItems curBusKeys {} (renderPairs a) = .ok a.normalize := by
  unfold renderPairs
  simp only [List.append_assoc]
  rw [parseItems_append, seg_opt _ _ a.mtype (fun r o => { r with mtype := o <|> r.mtype }) rfl
    (fun v _ => parseItem_kw _ _ _ v .mtype (by decide) (by decide) rfl)]
  simp only
  rw [parseItems_append, seg_opt _ _ a.sender (fun r o => { r with sender := o <|> r.sender }) rfl
    (fun v _ => parseItem_kw _ _ _ v .sender (by decide) (by decide) rfl)]
  simp only
  rw [parseItems_append, seg_opt _ _ a.iface (fun r o => { r with iface := o <|> r.iface }) rfl
    (fun v _ => parseItem_kw _ _ _ v .iface (by decide) (by decide) rfl)]
  simp only
  rw [parseItems_append, seg_opt _ _ a.member (fun r o => { r with member := o <|> r.member }) rfl
    (fun v _ => parseItem_kw _ _ _ v .member (by decide) (by decide) rfl)]
  simp only
  rw [parseItems_append, seg_opt _ _ a.path (fun r o => { r with path := o <|> r.path }) rfl
    (fun v _ => parseItem_kw _ _ _ v .path (by decide) (by decide) rfl)]
  simp only
  rw [parseItems_append, seg_opt _ _ a.pathNs (fun r o => { r with pathNs := o <|> r.pathNs }) rfl
    (fun v _ => parseItem_kw _ _ _ v .pathNs (by decide) (by decide) rfl)]
  simp only
  rw [parseItems_append, seg_opt _ _ a.dest (fun r o => { r with dest := o <|> r.dest }) rfl
    (fun v _ => parseItem_kw _ _ _ v .dest (by decide) (by decide) rfl)]
  simp only
  rw [parseItems_append, seg_args]
  simp only
  rw [parseItems_append, seg_argPaths]
  simp only
  rw [seg_opt _ _ a.arg0ns (fun r o => { r with arg0ns := o <|> r.arg0ns }) rfl
    (fun v _ => parseItem_kw _ _ _ v .arg0ns (by decide) (by decide) rfl)]
  obtain ⟨mtype, sender, iface, member, path, pathNs, dest, args, argPaths, arg0ns⟩ := a
  simp only [RuleArgs.normalize, or_none']
  congr 1
  cases args with
  | none =>
    cases argPaths with
    | none => simp [normPairs]
    | some l => cases l <;> simp [normPairs]
  | some l =>
    cases l with
    | nil =>
      cases argPaths with
      | none => simp [normPairs]
      | some l' => cases l' <;> simp [normPairs]
    | cons x t =>
      cases argPaths with
      | none => simp [normPairs]
      | some l' => cases l' <;> simp [normPairs]

theorem normPairs_if {β : Type} (x : Option (List (Nat × Str))) (f : PyVal → β) (r : β) :
    (if (optPairs (normPairs x)).truthy = true then f (optPairs (normPairs x)) else r)
      = (if (optPairs x).truthy = true then f (optPairs x) else r) := by
  cases x with
  | none => rfl
  | some l => cases l <;> rfl

end Txdbus.Route
