import TxdbusModel.Route.Spec
import TxdbusModel.Route.Text
/-
C12 - "that path or a descendant of it": the character-level test used by the spec (`p = ns`, or `p`
starts with `ns ++ "/"`) is the component-level statement (the components of `ns` are an initial
stretch of the components of `p`), for all strings.
-/
namespace Txdbus.Route

open Spec

theorem components_ne_nil (s : Str) : components s ≠ [] := by
  induction s with
  | nil => simp [components]
  | cons c t ih =>
    unfold components
    split
    · simp
    · split <;> simp

theorem components_append_sep (s t : Str) : components (s ++ '/' :: t) = components s ++ components t := by
  induction s with
  | nil => simp [components]
  | cons x u ih =>
    by_cases hx : x = '/'
    · simp [components, hx, ih]
    · simp only [List.cons_append, components, hx, if_false, ih]
      cases hcu : components u with
      | nil => exact absurd hcu (components_ne_nil u)
      | cons p ps => simp

theorem joinWith_components (s : Str) : joinWith '/' (components s) = s := by
  induction s with
  | nil => rfl
  | cons x u ih =>
    by_cases hx : x = '/'
    · subst hx
      simp only [components, if_true]
      cases hcu : components u with
      | nil => exact absurd hcu (components_ne_nil u)
      | cons p ps =>
        rw [hcu] at ih
        simp [joinWith, ih]
    · simp only [components, hx, if_false]
      cases hcu : components u with
      | nil => exact absurd hcu (components_ne_nil u)
      | cons p ps =>
        rw [hcu] at ih
        cases ps with
        | nil => simp only [joinWith] at ih ⊢; rw [ih]
        | cons q qs => simp only [joinWith, List.cons_append] at ih ⊢; rw [ih]

theorem joinWith_append (c : Char) (xs ys : List Str) (hx : xs ≠ []) (hy : ys ≠ []) :
    joinWith c (xs ++ ys) = joinWith c xs ++ c :: joinWith c ys := by
  induction xs with
  | nil => exact absurd rfl hx
  | cons x t ih =>
    cases t with
    | nil =>
      cases ys with
      | nil => exact absurd rfl hy
      | cons y u => simp [joinWith]
    | cons z w =>
      have := ih (by simp)
      simp only [List.cons_append, joinWith] at this ⊢
      rw [this]
      simp

/-- Components of `ns` are an initial stretch of the components of `p` iff `p` is `ns` or starts with
`ns` followed by a slash. -/
theorem components_prefix_iff (ns p : Str) :
    components ns <+: components p ↔ (p = ns ∨ (ns ++ ['/']) <+: p) := by
  constructor
  · rintro ⟨more, hm⟩
    have hp := joinWith_components p
    rw [← hm] at hp
    cases more with
    | nil =>
      left
      rw [List.append_nil, joinWith_components] at hp
      exact hp.symm
    | cons y ys =>
      right
      rw [joinWith_append '/' _ _ (components_ne_nil ns) (by simp), joinWith_components] at hp
      exact ⟨joinWith '/' (y :: ys), by rw [← hp]; simp⟩
  · intro h
    cases h with
    | inl e => subst e; exact List.prefix_refl _
    | inr h =>
      obtain ⟨r, hr⟩ := h
      have : p = ns ++ '/' :: r := by rw [← hr]; simp
      rw [this, components_append_sep]
      exact List.prefix_append _ _

/-- The spec's `inNamespace` says exactly `descendantOrSelf`. -/
theorem inNamespace_iff_components (ns p : Str) : Spec.inNamespace ns p = true ↔ descendantOrSelf ns p := by
  unfold Spec.inNamespace descendantOrSelf
  rw [components_prefix_iff]
  simp only [Bool.or_eq_true, beq_iff_eq, List.isPrefixOf_iff_prefix, or_assoc]

end Txdbus.Route
