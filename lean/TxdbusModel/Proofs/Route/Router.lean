import TxdbusModel.Route.Router
import TxdbusModel.Proofs.Route.Match
/-
C12 - lemmas for `route_exact`: the code model of `MessageRouter` (current tables) simulates the
abstract registry `Spec.SpecRouter` step by step, for every history, whatever callbacks raise.
-/
namespace Txdbus.Route

open Spec

/-- The router entry that corresponds to a registration. -/
def Reg.entry (g : Reg) : Entry := { id := g.id, cb := g.cb, rule := explicitRule g.args }

/-- What the specification can see of an observation (`logged` is not part of the property). -/
def Obs.view : Obs → Option SpecObs
  | .added i => some (.added i)
  | .addFailed => none
  | .deleted => some .deleted
  | .keyError => some .keyError
  | .routed r => some (.routed r.invoked)

def Op.WF : Op → Prop
  | .add _ a => a.WFAll
  | _ => True

/-- Simulation relation. -/
structure Sim (s : Router) (g : SpecRouter) : Prop where
  next : s.nextId = g.count
  rules : s.rules = g.live.map Reg.entry
  wf : ∀ r ∈ g.live, r.args.WFAll
  lt : ∀ r ∈ g.live, r.id < g.count

theorem dictSet_fresh (k : Nat) (e : Entry) (l : List Entry) (h : ∀ x ∈ l, x.id ≠ k) :
    dictSet k e l = l ++ [e] := by
  induction l with
  | nil => rfl
  | cons x t ih =>
    have hx : x.id ≠ k := h x (by simp)
    simp only [dictSet, hx, if_false, List.cons_append]
    rw [ih (fun y hy => h y (by simp [hy]))]

theorem routeList_invoked (raises : Nat → Cb → Bool) (m : Msg) (l : List Reg) (hwf : ∀ r ∈ l, r.args.WFAll) :
    (routeList raises m (l.map Reg.entry)).invoked
      = (l.filter (fun g => specMatchesGen g.args m)).map (fun g => (g.id, g.cb)) := by
  induction l with
  | nil => rfl
  | cons g t ih =>
    have ih' := ih (fun r hr => hwf r (by simp [hr]))
    have hg : g.args.WFAll := hwf g (by simp)
    simp only [List.map_cons, routeList, List.filter_cons]
    have hiff := explicit_matchGen_iff g.args m hg
    cases hm : (Reg.entry g).rule.matchGen m with
    | call =>
      have : specMatchesGen g.args m = true := hiff.mp hm
      simp [this, ih', Reg.entry]
    | skip =>
      have : specMatchesGen g.args m = false := by
        cases hs : specMatchesGen g.args m
        · rfl
        · have := hiff.mpr hs; simp [Reg.entry] at hm; rw [hm] at this; cases this
      simp [this, ih']
    | err =>
      have : specMatchesGen g.args m = false := by
        cases hs : specMatchesGen g.args m
        · rfl
        · have := hiff.mpr hs; simp [Reg.entry] at hm; rw [hm] at this; cases this
      simp [this, ih']

theorem any_entry (l : List Reg) (id : Nat) :
    (l.map Reg.entry).any (fun e => e.id = id) = l.any (fun g => g.id = id) := by
  induction l with
  | nil => rfl
  | cons g t ih => simp [Reg.entry, ih]

theorem filter_entry (l : List Reg) (id : Nat) :
    (l.map Reg.entry).filter (fun e => e.id ≠ id) = (l.filter (fun g => g.id ≠ id)).map Reg.entry := by
  rw [List.filter_map]
  rfl

theorem sim_step (raises : Nat → Cb → Bool) (s : Router) (g : SpecRouter) (op : Op) (hs : Sim s g) (hop : op.WF) :
    Sim (s.step Tables.cur raises op).1 (g.step op).1
      ∧ (s.step Tables.cur raises op).2.view = some (g.step op).2 := by
  cases op with
  | add cb a =>
    have hfresh : ∀ x ∈ s.rules, x.id ≠ s.nextId := by
      intro x hx
      rw [hs.rules] at hx
      obtain ⟨r, hr, rfl⟩ := List.mem_map.mp hx
      have := hs.lt r hr
      simp only [Reg.entry]
      rw [hs.next]
      omega
    simp only [Router.step, Router.add, mkRule_cur, SpecRouter.step]
    rw [dictSet_fresh _ _ _ hfresh]
    refine ⟨⟨?_, ?_, ?_, ?_⟩, ?_⟩
    · simp [hs.next]
    · simp [hs.rules, Reg.entry, hs.next]
    · intro r hr
      simp only [List.mem_append, List.mem_singleton] at hr
      cases hr with
      | inl h => exact hs.wf r h
      | inr h => subst h; exact hop
    · intro r hr
      simp only [List.mem_append, List.mem_singleton] at hr
      cases hr with
      | inl h => have := hs.lt r h; show r.id < g.count + 1; omega
      | inr h => subst h; simp
    · simp [Obs.view, hs.next]
  | del id =>
    simp only [Router.step, Router.del, SpecRouter.step]
    rw [hs.rules, any_entry]
    by_cases h : g.live.any (fun r => r.id = id) = true
    · simp only [h, if_true]
      refine ⟨⟨hs.next, ?_, ?_, ?_⟩, rfl⟩
      · exact filter_entry _ _
      · intro r hr
        exact hs.wf r (List.mem_filter.mp hr).1
      · intro r hr
        exact hs.lt r (List.mem_filter.mp hr).1
    · simp only [h]
      exact ⟨hs, rfl⟩
  | route m =>
    simp only [Router.step, SpecRouter.step]
    refine ⟨hs, ?_⟩
    simp only [Obs.view, Router.route]
    rw [hs.rules, routeList_invoked raises m g.live hs.wf]

theorem sim_run (raises : Nat → Cb → Bool) (h : List Op) :
    ∀ (s : Router) (g : SpecRouter), Sim s g → (∀ op ∈ h, op.WF) →
      Sim (Router.run Tables.cur raises s h).1 (SpecRouter.run g h).1
      ∧ (Router.run Tables.cur raises s h).2.map Obs.view = (SpecRouter.run g h).2.map some := by
  induction h with
  | nil => intro s g hs _; exact ⟨hs, rfl⟩
  | cons op ops ih =>
    intro s g hs hwf
    have h1 := sim_step raises s g op hs (hwf op (by simp))
    have h2 := ih (s.step Tables.cur raises op).1 (g.step op).1 h1.1 (fun o ho => hwf o (by simp [ho]))
    simp only [Router.run, SpecRouter.run, List.map_cons]
    exact ⟨h2.1, by rw [h1.2, h2.2]⟩

theorem sim_init : Sim {} {} :=
  ⟨rfl, rfl, fun _ hr => (List.not_mem_nil hr).elim, fun _ hr => (List.not_mem_nil hr).elim⟩

/-! ### facts about the abstract registry -/

/-- Invariant of the abstract registry: live ids are below the counter and strictly increasing. -/
structure SpecInv (g : SpecRouter) : Prop where
  lt : ∀ r ∈ g.live, r.id < g.count
  sorted : (g.live.map (·.id)).Pairwise (· < ·)

theorem specInv_init : SpecInv {} := ⟨fun _ hr => (List.not_mem_nil hr).elim, List.Pairwise.nil⟩

theorem specInv_step (g : SpecRouter) (op : Op) (h : SpecInv g) : SpecInv (g.step op).1 := by
  cases op with
  | add cb a =>
    simp only [SpecRouter.step]
    refine ⟨?_, ?_⟩
    · intro r hr
      simp only [List.mem_append, List.mem_singleton] at hr
      cases hr with
      | inl h' => have := h.lt r h'; show r.id < g.count + 1; omega
      | inr h' => subst h'; simp
    · simp only [List.map_append, List.map_cons, List.map_nil]
      rw [List.pairwise_append]
      refine ⟨h.sorted, by simp, ?_⟩
      intro x hx y hy
      simp only [List.mem_singleton] at hy
      subst hy
      obtain ⟨r, hr, rfl⟩ := List.mem_map.mp hx
      exact h.lt r hr
  | del id =>
    simp only [SpecRouter.step]
    split
    · refine ⟨fun r hr => h.lt r (List.mem_filter.mp hr).1, ?_⟩
      exact List.Pairwise.sublist (List.Sublist.map _ List.filter_sublist) h.sorted
    · exact h
  | route m => exact h

theorem specInv_run (ops : List Op) : ∀ g, SpecInv g → SpecInv (SpecRouter.run g ops).1 := by
  induction ops with
  | nil => intro g h; exact h
  | cons op t ih => intro g h; exact ih _ (specInv_step g op h)

/-- The counter never decreases. -/
theorem count_mono_run (ops : List Op) : ∀ g : SpecRouter, g.count ≤ (SpecRouter.run g ops).1.count := by
  induction ops with
  | nil => intro g; exact Nat.le_refl _
  | cons op t ih =>
    intro g
    have h1 : g.count ≤ (g.step op).1.count := by
      cases op with
      | add cb a => simp [SpecRouter.step]
      | del id => simp only [SpecRouter.step]; split <;> simp
      | route m => simp [SpecRouter.step]
    exact Nat.le_trans h1 (ih _)

/-- An id below the counter that is not live never becomes live again. -/
theorem dead_stays_dead (ops : List Op) : ∀ (g : SpecRouter) (id : Nat), id < g.count → (∀ r ∈ g.live, r.id ≠ id) →
    ∀ r ∈ (SpecRouter.run g ops).1.live, r.id ≠ id := by
  induction ops with
  | nil => intro g id _ h; exact h
  | cons op t ih =>
    intro g id hlt hdead
    apply ih (g.step op).1 id
    · cases op with
      | add cb a => simp only [SpecRouter.step]; omega
      | del i => simp only [SpecRouter.step]; split <;> exact hlt
      | route m => exact hlt
    · cases op with
      | add cb a =>
        simp only [SpecRouter.step]
        intro r hr
        simp only [List.mem_append, List.mem_singleton] at hr
        cases hr with
        | inl h' => exact hdead r h'
        | inr h' => subst h'; simp only; omega
      | del i =>
        simp only [SpecRouter.step]
        split
        · intro r hr; exact hdead r (List.mem_filter.mp hr).1
        · exact hdead
      | route m => exact hdead

/-- The ids returned by the successful registrations of an observation list. -/
def addedIds : List SpecObs → List Nat
  | [] => []
  | .added i :: t => i :: addedIds t
  | _ :: t => addedIds t

theorem addedIds_run (ops : List Op) : ∀ g : SpecRouter,
    (addedIds (SpecRouter.run g ops).2).Pairwise (· < ·) ∧ ∀ i ∈ addedIds (SpecRouter.run g ops).2, g.count ≤ i := by
  induction ops with
  | nil => intro g; simp [SpecRouter.run, addedIds]
  | cons op t ih =>
    intro g
    cases op with
    | add cb a =>
      have := ih (g.step (.add cb a)).1
      simp only [SpecRouter.run, SpecRouter.step, addedIds] at this ⊢
      refine ⟨?_, ?_⟩
      · rw [List.pairwise_cons]
        refine ⟨?_, this.1⟩
        intro i hi
        have := this.2 i hi
        omega
      · intro i hi
        simp only [List.mem_cons] at hi
        cases hi with
        | inl h => omega
        | inr h => have := this.2 i h; omega
    | del id =>
      have := ih (g.step (.del id)).1
      simp only [SpecRouter.run, SpecRouter.step] at this ⊢
      split
      · rename_i hc
        simp only [hc, if_true] at this
        simpa [addedIds] using this
      · rename_i hc
        simp only [hc] at this
        simpa [addedIds] using this
    | route m =>
      have := ih (g.step (.route m)).1
      simp only [SpecRouter.run, SpecRouter.step, addedIds] at this ⊢
      exact this

/-- The ids returned by successful registrations. -/
def returnedIds : List Obs → List Nat
  | [] => []
  | .added i :: t => i :: returnedIds t
  | _ :: t => returnedIds t

theorem returnedIds_eq : ∀ (obs : List Obs) (sobs : List SpecObs), obs.map Obs.view = sobs.map some →
    returnedIds obs = addedIds sobs := by
  intro obs
  induction obs with
  | nil =>
    intro sobs h
    cases sobs with
    | nil => rfl
    | cons _ _ => simp at h
  | cons o t ih =>
    intro sobs h
    cases sobs with
    | nil => simp at h
    | cons so st =>
      simp only [List.map_cons, List.cons.injEq] at h
      obtain ⟨h1, h2⟩ := h
      have iht := ih st h2
      cases o with
      | added i =>
        simp only [Obs.view, Option.some.injEq] at h1
        subst h1
        simp [returnedIds, addedIds, iht]
      | addFailed => simp [Obs.view] at h1
      | deleted =>
        simp only [Obs.view, Option.some.injEq] at h1
        subst h1
        simp [returnedIds, addedIds, iht]
      | keyError =>
        simp only [Obs.view, Option.some.injEq] at h1
        subst h1
        simp [returnedIds, addedIds, iht]
      | routed r =>
        simp only [Obs.view, Option.some.injEq] at h1
        subst h1
        simp [returnedIds, addedIds, iht]

end Txdbus.Route
