/-
C18 lemmas, part 3: each validator of the code model accepts exactly the strings of the
corresponding grammar of the spec.
-/
import TxdbusModel.Proofs.Valid.Split
import TxdbusModel.Proofs.Valid.Classes

namespace Txdbus.Valid
open Grammar

/-- ASCII digit as a predicate on characters. -/
def dig (c : Char) : Bool := isDigit c.toNat

/-! ### the control-flow combinators -/

theorem check_eq_ok (c : Except PyErr Bool) (k : Except PyErr Unit) :
    check c k = .ok () ↔ c = .ok false ∧ k = .ok () := by
  unfold check
  cases c with
  | error e => simp
  | ok b => cases b <;> simp

theorem exceptAsMarshalling_accept (b : Except PyErr Unit) :
    exceptAsMarshalling b = .accept ↔ b = .ok () := by
  unfold exceptAsMarshalling
  cases b with
  | error e => simp
  | ok u => simp

theorem exceptAsMarshalling_cases (b : Except PyErr Unit) :
    exceptAsMarshalling b = .accept ∨ exceptAsMarshalling b = .raised .marshallingError := by
  unfold exceptAsMarshalling
  cases b with
  | error e => simp
  | ok u => simp

theorem idx0_map_ok_false (f : Char → Bool) (n : Str) :
    (idx0 n).map f = .ok false ↔ n ≠ [] ∧ headSat f n = false := by
  cases n with
  | nil => simp [idx0, Except.map]
  | cons c t => simp [idx0, Except.map, headSat]

theorem idxLast_map_ok_false (x : Char) (n : Str) :
    (idxLast n).map (· == x) = .ok false ↔ n ≠ [] ∧ (n.getLast? == some x) = false := by
  unfold idxLast
  cases h : n.getLast? with
  | none =>
    have : n = [] := by simpa using h
    simp [this, Except.map]
  | some c =>
    have : n ≠ [] := by intro h'; rw [h'] at h; simp at h
    simp [Except.map, this]

/-! ### scanning lemmas -/

theorem searchOutside_eq_false (rs : List (Nat × Nat)) (s : Str) :
    searchOutside rs s = false ↔ ∀ c ∈ s, inClass rs c = true := by
  unfold searchOutside
  rw [Bool.eq_false_iff]
  simp

theorem headSat_congr {q q' : Char → Bool} {s : Str} (h : ∀ c ∈ s, q c = q' c) :
    headSat q s = headSat q' s := by
  cases s with
  | nil => rfl
  | cons c t => exact h c (List.mem_cons_self ..)

theorem containsPair_congr {p p' q q' : Char → Bool} {s : Str}
    (hp : ∀ c ∈ s, p c = p' c) (hq : ∀ c ∈ s, q c = q' c) :
    containsPair p q s = containsPair p' q' s := by
  induction s with
  | nil => rfl
  | cons a t ih =>
    cases t with
    | nil => rfl
    | cons b t' =>
      have iht := ih (fun c hc => hp c (List.mem_cons_of_mem _ hc)) (fun c hc => hq c (List.mem_cons_of_mem _ hc))
      simp only [containsPair]
      rw [iht, hp a (List.mem_cons_self ..), hq b (List.mem_cons_of_mem _ (List.mem_cons_self ..))]

theorem searchDotDigit_ascii {s : Str} (h : ∀ c ∈ s, c.toNat < 128) :
    searchDotDigit s = containsPair (· == '.') dig s := by
  unfold searchDotDigit
  exact containsPair_congr (fun c hc => dotDigitFirst_ascii (h c hc))
    (fun c hc => dotDigitSecond_ascii (h c hc))

theorem headSat_pyIsDigit_ascii (na : Char → Bool) {s : Str} (h : ∀ c ∈ s, c.toNat < 128) :
    headSat (pyIsDigit na) s = headSat dig s :=
  headSat_congr (fun c hc => pyIsDigit_ascii na (h c hc))

theorem dig_dot : dig '.' = false := by decide

theorem headSat_of_contains_false {x : Char} {s : Str} (h : s.contains x = false) :
    headSat (· == x) s = false := by
  cases s with
  | nil => rfl
  | cons c t =>
    simp only [headSat]
    simp at h
    exact beq_false (fun e => h.1 e.symm)

/-! ### dotted names in scanning form -/

/-- The "no empty element" condition on a scanned string. -/
def noEmptyElem (sep : Char) (s : Str) : Bool :=
  !s.isEmpty && !headSat (· == sep) s && !(s.getLast? == some sep) && !containsDouble sep s

/-- `>= 2` non-empty elements over `p`, none beginning with a digit. -/
theorem dotted_noDigit (p : Char → Bool) (s : Str) :
    (decide (2 ≤ (splitOn '.' s).length)
        && (splitOn '.' s).all (fun e => !e.isEmpty && e.all p && !startsWithDigit e))
      = (s.contains '.' && noEmptyElem '.' s && s.all (fun c => c == '.' || p c)
          && (!headSat dig s && !containsPair (· == '.') dig s)) := by
  rw [two_le_length_splitOn, all_and, all_and, splitOn_all_nonempty, splitOn_all_chars]
  have : (fun e => !startsWithDigit e) = (fun e => !headSat dig e) := by
    funext e; rw [startsWithDigit_eq]; rfl
  rw [this, splitOn_all_not_headSat '.' dig dig_dot]
  simp only [noEmptyElem, Bool.and_assoc]

/-- `>= 2` non-empty elements over `p`. -/
theorem dotted_anyStart (p : Char → Bool) (s : Str) :
    (decide (2 ≤ (splitOn '.' s).length) && (splitOn '.' s).all (fun e => !e.isEmpty && e.all p))
      = (s.contains '.' && noEmptyElem '.' s && s.all (fun c => c == '.' || p c)) := by
  rw [two_le_length_splitOn, all_and, splitOn_all_nonempty, splitOn_all_chars]
  simp only [noEmptyElem, Bool.and_assoc]

theorem ne_nil_of_contains {x : Char} {n : Str} (h : n.contains x = true) : n ≠ [] := by
  intro h'; rw [h'] at h; simp at h

theorem isEmpty_false_of_contains {x : Char} {n : Str} (h : n.contains x = true) : n.isEmpty = false := by
  cases n with
  | nil => simp at h
  | cons c t => rfl

/-! ### validateInterfaceName -/

theorem interfaceNameChecks_ok_iff (na : Char → Bool) (n : Str) :
    interfaceNameChecks na n = .ok () ↔
      n.contains '.' = true ∧ containsDouble '.' n = false ∧ n.length ≤ 255 ∧
      headSat (· == '.') n = false ∧ (n.getLast? == some '.') = false ∧
      headSat (pyIsDigit na) n = false ∧ searchOutside Gen.Validators.ifaceAllowed n = false ∧
      searchDotDigit n = false := by
  unfold interfaceNameChecks
  simp only [check_eq_ok, idx0_map_ok_false, idxLast_map_ok_false, Except.ok.injEq,
    Bool.not_eq_false', decide_eq_false_iff_not, Nat.not_lt, and_true, gt_iff_lt]
  constructor
  · rintro ⟨h1, h2, h3, ⟨_, h4⟩, ⟨_, h5⟩, ⟨_, h6⟩, h7, h8⟩
    exact ⟨h1, h2, h3, h4, h5, h6, h7, h8⟩
  · rintro ⟨h1, h2, h3, h4, h5, h6, h7, h8⟩
    have hn := ne_nil_of_contains h1
    exact ⟨h1, h2, h3, ⟨hn, h4⟩, ⟨hn, h5⟩, ⟨hn, h6⟩, h7, h8⟩

theorem interfaceName_iff_scan (s : Str) : Grammar.interfaceName s = true ↔
    s.contains '.' = true ∧ s.isEmpty = false ∧ headSat (· == '.') s = false ∧
    (s.getLast? == some '.') = false ∧ containsDouble '.' s = false ∧
    (∀ c ∈ s, (c == '.' || elemChar c) = true) ∧ headSat dig s = false ∧
    containsPair (· == '.') dig s = false ∧ utf8Len s ≤ 255 := by
  unfold Grammar.interfaceName
  show (decide (2 ≤ (splitOn '.' s).length)
        && (splitOn '.' s).all (fun e => !e.isEmpty && e.all elemChar && !startsWithDigit e)
        && decide (utf8Len s ≤ maxNameLen)) = true ↔ _
  rw [dotted_noDigit]
  simp only [noEmptyElem, Bool.and_eq_true, Bool.not_eq_true', and_assoc,
    decide_eq_true_eq, List.all_eq_true]

theorem validateInterfaceName_accept_iff (na : Char → Bool) (s : Str) :
    validateInterfaceName na s = .accept ↔ Grammar.interfaceName s = true := by
  unfold validateInterfaceName
  rw [exceptAsMarshalling_accept, interfaceNameChecks_ok_iff, interfaceName_iff_scan,
    searchOutside_eq_false]
  constructor
  · rintro ⟨h1, h2, h3, h4, h5, h6, h7, h8⟩
    have hascii : ∀ c ∈ s, c.toNat < 128 := fun c hc => inClass_ascii ifaceAllowed_bound (h7 c hc)
    rw [headSat_pyIsDigit_ascii na hascii] at h6
    rw [searchDotDigit_ascii hascii] at h8
    refine ⟨h1, isEmpty_false_of_contains h1, h4, h5, h2, ?_, h6, h8, ?_⟩
    · intro c hc; rw [← ifaceAllowed_spec]; exact h7 c hc
    · rw [utf8Len_ascii s hascii]; exact h3
  · rintro ⟨h1, _, h4, h5, h2, h7, h6, h8, h3⟩
    have h7' : ∀ c ∈ s, inClass Gen.Validators.ifaceAllowed c = true := by
      intro c hc; rw [ifaceAllowed_spec]; exact h7 c hc
    have hascii : ∀ c ∈ s, c.toNat < 128 := fun c hc => inClass_ascii ifaceAllowed_bound (h7' c hc)
    rw [← headSat_pyIsDigit_ascii na hascii] at h6
    rw [← searchDotDigit_ascii hascii] at h8
    rw [utf8Len_ascii s hascii] at h3
    exact ⟨h1, h2, h3, h4, h5, h6, h7', h8⟩

theorem validateInterfaceName_cases (na : Char → Bool) (s : Str) :
    validateInterfaceName na s = .accept ∨ validateInterfaceName na s = .raised .marshallingError :=
  exceptAsMarshalling_cases _

/-! ### validateErrorName -/

theorem validateErrorName_eq (na : Char → Bool) (s : Str) :
    validateErrorName na s = validateInterfaceName na s := by
  unfold validateErrorName
  rcases validateInterfaceName_cases na s with h | h <;> rw [h]

/-! ### validateMemberName -/

theorem memberNameChecks_ok_iff (na : Char → Bool) (n : Str) :
    memberNameChecks na n = .ok () ↔
      n ≠ [] ∧ n.length ≤ 255 ∧ headSat (pyIsDigit na) n = false ∧
      searchOutside Gen.Validators.memberAllowed n = false := by
  unfold memberNameChecks
  simp only [check_eq_ok, idx0_map_ok_false, Except.ok.injEq,
    decide_eq_false_iff_not, Nat.not_lt, and_true, gt_iff_lt]
  constructor
  · rintro ⟨h1, h2, ⟨hn, h3⟩, h4⟩
    exact ⟨hn, h2, h3, h4⟩
  · rintro ⟨hn, h2, h3, h4⟩
    refine ⟨?_, h2, ⟨hn, h3⟩, h4⟩
    cases n with
    | nil => exact absurd rfl hn
    | cons c t => simp

theorem validateMemberName_accept_iff (na : Char → Bool) (s : Str) :
    validateMemberName na s = .accept ↔ Grammar.memberName s = true := by
  unfold validateMemberName
  rw [exceptAsMarshalling_accept, memberNameChecks_ok_iff, searchOutside_eq_false]
  unfold Grammar.memberName nameElement
  rw [startsWithDigit_eq]
  have hd : (fun c : Char => isDigit c.toNat) = dig := rfl
  rw [hd]
  simp only [Bool.and_eq_true, Bool.not_eq_true', and_assoc,
    decide_eq_true_eq, List.all_eq_true]
  constructor
  · rintro ⟨h1, h2, h3, h4⟩
    have hascii : ∀ c ∈ s, c.toNat < 128 := fun c hc => inClass_ascii memberAllowed_bound (h4 c hc)
    have hel : ∀ c ∈ s, elemChar c = true := by
      intro c hc; rw [← memberAllowed_spec]; exact h4 c hc
    rw [headSat_pyIsDigit_ascii na hascii] at h3
    refine ⟨?_, hel, h3, ?_, ?_⟩
    · cases s with
      | nil => exact absurd rfl h1
      | cons c t => rfl
    · rw [Bool.eq_false_iff]; intro hc
      have := hel '.' (by simpa using hc)
      exact absurd this (by decide)
    · rw [utf8Len_ascii s hascii]; exact h2
  · rintro ⟨h1, hel, h3, _, h2⟩
    have h4 : ∀ c ∈ s, inClass Gen.Validators.memberAllowed c = true := by
      intro c hc; rw [memberAllowed_spec]; exact hel c hc
    have hascii : ∀ c ∈ s, c.toNat < 128 := fun c hc => inClass_ascii memberAllowed_bound (h4 c hc)
    rw [← headSat_pyIsDigit_ascii na hascii] at h3
    rw [utf8Len_ascii s hascii] at h2
    refine ⟨?_, h2, h3, h4⟩
    intro h; rw [h] at h1; simp at h1


/-! ### validateObjectPath -/

theorem containsPair_cons_of_false {p q : Char → Bool} {a : Char} (h : p a = false) (t : Str) :
    containsPair p q (a :: t) = containsPair p q t := by
  cases t with
  | nil => rfl
  | cons b t' => simp [containsPair, h]

theorem path_elements (rest : Str) :
    (splitOn '/' rest).all pathElement
      = (noEmptyElem '/' rest && rest.all (fun c => c == '/' || elemChar c)) := by
  show (splitOn '/' rest).all (fun e => !e.isEmpty && e.all elemChar) = _
  rw [all_and, splitOn_all_nonempty, splitOn_all_chars]
  rfl

theorem validateObjectPath_accept_iff' (p : Str) :
    validateObjectPath p = .accept ↔
      (['/'].isPrefixOf p = true ∧ (decide (p.length > 1) && (p.getLast? == some '/')) = false ∧
       containsDouble '/' p = false ∧ searchOutside Gen.Validators.objPathAllowed p = false) := by
  unfold validateObjectPath
  cases h1 : (['/'].isPrefixOf p) <;>
  cases h2 : (decide (p.length > 1) && (p.getLast? == some '/')) <;>
  cases h3 : containsDouble '/' p <;>
  cases h4 : searchOutside Gen.Validators.objPathAllowed p <;> simp

theorem objectPath_of_not_slash {c : Char} (h : c ≠ '/') (t : Str) : Grammar.objectPath (c :: t) = false := by
  unfold Grammar.objectPath
  split
  · rename_i heq; injection heq with h1 _; exact absurd h1 h
  · rfl

theorem slash_allowed : inClass Gen.Validators.objPathAllowed '/' = true := by decide

theorem getLast?_cons_of_ne_nil {a : Char} {t : Str} (h : t ≠ []) : (a :: t).getLast? = t.getLast? := by
  cases t with
  | nil => exact absurd rfl h
  | cons b t' => simp [List.getLast?_cons_cons]

theorem containsDouble_cons_self (x : Char) (t : Str) :
    containsDouble x (x :: t) = (headSat (· == x) t || containsDouble x t) := by
  cases t with
  | nil => rfl
  | cons b t' => simp [containsDouble, containsPair, headSat]

theorem isEmpty_false_of_ne_nil {t : Str} (h : t ≠ []) : t.isEmpty = false := by
  cases t with
  | nil => exact absurd rfl h
  | cons b t' => rfl

theorem validateObjectPath_accept_iff (p : Str) :
    validateObjectPath p = .accept ↔ Grammar.objectPath p = true := by
  rw [validateObjectPath_accept_iff']
  cases p with
  | nil => simp [Grammar.objectPath]
  | cons c rest =>
    by_cases hc : c = '/'
    · subst hc
      by_cases hr : rest = []
      · subst hr
        simp [Grammar.objectPath, containsDouble, containsPair, searchOutside, slash_allowed]
      · have hg : Grammar.objectPath ('/' :: rest) = (rest.isEmpty || (splitOn '/' rest).all pathElement) := rfl
        have hlen : decide (('/' :: rest).length > 1) = true := by
          cases rest with
          | nil => exact absurd rfl hr
          | cons b t' => simp
        have hpre : ['/'].isPrefixOf ('/' :: rest) = true := by simp
        rw [hg, isEmpty_false_of_ne_nil hr, Bool.false_or, path_elements, searchOutside_eq_false,
          getLast?_cons_of_ne_nil hr, containsDouble_cons_self, hlen, hpre, Bool.true_and]
        simp only [noEmptyElem, Bool.and_eq_true, Bool.not_eq_true', and_assoc, List.all_eq_true,
          Bool.or_eq_false_iff, true_and, isEmpty_false_of_ne_nil hr]
        constructor
        · rintro ⟨h2, h3, h4, h5⟩
          refine ⟨h3, h2, h4, ?_⟩
          intro x hx; rw [← objPathAllowed_spec]; exact h5 x (List.mem_cons_of_mem _ hx)
        · rintro ⟨h3, h2, h4, h5⟩
          refine ⟨h2, h3, h4, ?_⟩
          intro x hx
          rcases List.mem_cons.mp hx with rfl | hx
          · exact slash_allowed
          · rw [objPathAllowed_spec]; exact h5 x hx
    · rw [objectPath_of_not_slash hc]
      have : ['/'].isPrefixOf (c :: rest) = false := by
        show ('/' == c && List.isPrefixOf [] rest) = false
        rw [beq_false (Ne.symm hc)]; rfl
      simp [this]

/-! ### validateBusName -/

theorem busNameChecks_ok_iff (na : Char → Bool) (n : Str) :
    busNameChecks na n = .ok () ↔
      n.contains '.' = true ∧ containsDouble '.' n = false ∧ n.length ≤ 255 ∧
      headSat (· == '.') n = false ∧ (n.getLast? == some '.') = false ∧
      headSat (pyIsDigit na) n = false ∧ searchOutside Gen.Validators.busAllowed n = false ∧
      (n.drop 1).contains ':' = false ∧ [':', '.'].isPrefixOf n = false ∧
      headSat (fun c0 => !(c0 == ':') && searchDotDigit n) n = false := by
  unfold busNameChecks
  simp only [check_eq_ok, idx0_map_ok_false, idxLast_map_ok_false, Except.ok.injEq,
    Bool.not_eq_false', decide_eq_false_iff_not, Nat.not_lt, and_true, gt_iff_lt]
  constructor
  · rintro ⟨h1, h2, h3, ⟨_, h4⟩, ⟨_, h5⟩, ⟨_, h6⟩, h7, h8, h9, ⟨_, h10⟩⟩
    exact ⟨h1, h2, h3, h4, h5, h6, h7, h8, h9, h10⟩
  · rintro ⟨h1, h2, h3, h4, h5, h6, h7, h8, h9, h10⟩
    have hn := ne_nil_of_contains h1
    exact ⟨h1, h2, h3, ⟨hn, h4⟩, ⟨hn, h5⟩, ⟨hn, h6⟩, h7, h8, h9, ⟨hn, h10⟩⟩

theorem busName_unique (t : Str) :
    Grammar.busName (':' :: t) = (decide (utf8Len (':' :: t) ≤ maxNameLen) &&
      (decide (2 ≤ (splitOn '.' t).length) && (splitOn '.' t).all (fun e => !e.isEmpty && e.all busElemChar))) := rfl

theorem busName_wellKnown {c : Char} (h : c ≠ ':') (t : Str) :
    Grammar.busName (c :: t) = (decide (utf8Len (c :: t) ≤ maxNameLen) &&
      (decide (2 ≤ (splitOn '.' (c :: t)).length)
        && (splitOn '.' (c :: t)).all (fun e => !e.isEmpty && e.all busElemChar && !startsWithDigit e))) := by
  unfold Grammar.busName
  split
  · rename_i heq; injection heq with h1 _; exact absurd h1 h
  · rfl

theorem busName_nil : Grammar.busName [] = false := by decide

theorem colon_allowed : inClass Gen.Validators.busAllowed ':' = true := by decide
theorem busElemChar_colon : busElemChar ':' = false := by decide

/-- all characters allowed and no colon  <->  every character is '.' or an element character -/
theorem bus_chars (t : Str) :
    ((∀ c ∈ t, inClass Gen.Validators.busAllowed c = true) ∧ t.contains ':' = false)
      ↔ ∀ c ∈ t, (c == '.' || busElemChar c) = true := by
  constructor
  · rintro ⟨h1, h2⟩ c hc
    have := h1 c hc
    rw [busAllowed_spec] at this
    have hne : (c == ':') = false := by
      apply beq_false; intro e; subst e
      have : t.contains ':' = true := by simpa using hc
      rw [h2] at this; exact Bool.noConfusion this
    rw [hne] at this
    simpa using this
  · intro h
    constructor
    · intro c hc
      rw [busAllowed_spec]
      have := h c hc
      cases h1 : (c == '.') <;> cases h2 : busElemChar c <;> simp_all
    · rw [Bool.eq_false_iff]; intro hc
      have := h ':' (by simpa using hc)
      rw [busElemChar_colon] at this
      exact absurd this (by decide)

theorem isPrefixOf_colon_dot (t : Str) : [':', '.'].isPrefixOf (':' :: t) = headSat (· == '.') t := by
  cases t with
  | nil => rfl
  | cons d r =>
    show (':' == ':' && ('.' == d && List.isPrefixOf [] r)) = (d == '.')
    have : List.isPrefixOf ([] : List Char) r = true := by cases r <;> rfl
    rw [this]
    by_cases h : d = '.'
    · subst h; rfl
    · rw [beq_false h, beq_false (Ne.symm h)]; rfl

theorem getLast?_colon (t : Str) : ((':' :: t).getLast? == some '.') = (t.getLast? == some '.') := by
  cases t with
  | nil => rfl
  | cons b t' => rw [getLast?_cons_of_ne_nil (by simp)]

theorem validateBusName_accept_iff (na : Char → Bool) (s : Str) :
    validateBusName na s = .accept ↔ Grammar.busName s = true := by
  unfold validateBusName
  rw [exceptAsMarshalling_accept, busNameChecks_ok_iff, searchOutside_eq_false]
  cases s with
  | nil => simp [busName_nil]
  | cons c t =>
    by_cases hc : c = ':'
    · -- unique connection name
      subst hc
      rw [busName_unique, dotted_anyStart, isPrefixOf_colon_dot, getLast?_colon]
      have hcd : containsDouble '.' (':' :: t) = containsDouble '.' t :=
        containsPair_cons_of_false (by decide) t
      have hcont : (':' :: t).contains '.' = t.contains '.' := by simp
      have hdrop : ((':' :: t).drop 1).contains ':' = t.contains ':' := rfl
      rw [hcd, hcont, hdrop]
      simp only [noEmptyElem, Bool.and_eq_true, Bool.not_eq_true', and_assoc, List.all_eq_true,
        decide_eq_true_eq]
      rw [← bus_chars]
      constructor
      · rintro ⟨h1, h2, h3, _, h5, _, h7, h8, h9, _⟩
        have hascii : ∀ x ∈ (':' :: t), x.toNat < 128 := fun x hx => inClass_ascii busAllowed_bound (h7 x hx)
        refine ⟨?_, h1, isEmpty_false_of_contains h1, h9, h5, h2, ?_, h8⟩
        · rw [utf8Len_ascii _ hascii]; exact h3
        · intro x hx; exact h7 x (List.mem_cons_of_mem _ hx)
      · rintro ⟨h3, h1, _, h9, h5, h2, h7, h8⟩
        have h7' : ∀ x ∈ (':' :: t), inClass Gen.Validators.busAllowed x = true := by
          intro x hx
          rcases List.mem_cons.mp hx with rfl | hx
          · exact colon_allowed
          · exact h7 x hx
        have hascii : ∀ x ∈ (':' :: t), x.toNat < 128 := fun x hx => inClass_ascii busAllowed_bound (h7' x hx)
        rw [utf8Len_ascii _ hascii] at h3
        refine ⟨h1, h2, h3, rfl, h5, ?_, h7', h8, h9, ?_⟩
        · show pyIsDigit na ':' = false
          rw [pyIsDigit_ascii na (by decide)]; decide
        · show (!(':' == ':') && searchDotDigit (':' :: t)) = false
          simp
    · -- well-known name
      rw [busName_wellKnown hc, dotted_noDigit]
      have hdrop : ((c :: t).drop 1).contains ':' = t.contains ':' := rfl
      have hpre : [':', '.'].isPrefixOf (c :: t) = false := by
        show (':' == c && List.isPrefixOf ['.'] t) = false
        rw [beq_false (Ne.symm hc)]; rfl
      have hlast : headSat (fun c0 => !(c0 == ':') && searchDotDigit (c :: t)) (c :: t)
          = searchDotDigit (c :: t) := by
        show (!(c == ':') && searchDotDigit (c :: t)) = _
        rw [beq_false hc]; rfl
      have hcolon : (c :: t).contains ':' = t.contains ':' := by
        rw [List.contains_cons, beq_false (Ne.symm hc), Bool.false_or]
      rw [hdrop, hpre, hlast, ← hcolon]
      simp only [noEmptyElem, Bool.and_eq_true, Bool.not_eq_true', and_assoc, List.all_eq_true,
        decide_eq_true_eq]
      rw [← bus_chars]
      constructor
      · rintro ⟨h1, h2, h3, h4, h5, h6, h7, h8, _, h10⟩
        have hascii : ∀ x ∈ (c :: t), x.toNat < 128 := fun x hx => inClass_ascii busAllowed_bound (h7 x hx)
        rw [headSat_pyIsDigit_ascii na hascii] at h6
        rw [searchDotDigit_ascii hascii] at h10
        refine ⟨?_, h1, rfl, h4, h5, h2, ⟨h7, h8⟩, h6, h10⟩
        rw [utf8Len_ascii _ hascii]; exact h3
      · rintro ⟨h3, h1, _, h4, h5, h2, ⟨h7, h8⟩, h6, h10⟩
        have hascii : ∀ x ∈ (c :: t), x.toNat < 128 := fun x hx => inClass_ascii busAllowed_bound (h7 x hx)
        rw [← headSat_pyIsDigit_ascii na hascii] at h6
        rw [← searchDotDigit_ascii hascii] at h10
        rw [utf8Len_ascii _ hascii] at h3
        exact ⟨h1, h2, h3, h4, h5, h6, h7, h8, trivial, h10⟩

theorem validateBusName_cases (na : Char → Bool) (s : Str) :
    validateBusName na s = .accept ∨ validateBusName na s = .raised .marshallingError :=
  exceptAsMarshalling_cases _

theorem validateMemberName_cases (na : Char → Bool) (s : Str) :
    validateMemberName na s = .accept ∨ validateMemberName na s = .raised .marshallingError :=
  exceptAsMarshalling_cases _

theorem validateObjectPath_cases (p : Str) :
    validateObjectPath p = .accept ∨ validateObjectPath p = .raised .marshallingError := by
  unfold validateObjectPath
  split
  · exact Or.inr rfl
  · split
    · exact Or.inr rfl
    · split
      · exact Or.inr rfl
      · split
        · exact Or.inr rfl
        · exact Or.inl rfl


end Txdbus.Valid
