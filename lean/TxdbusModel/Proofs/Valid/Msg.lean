/-
C18 lemmas, part 4: the message constructors run the validators; a constructed message only
carries names its validators accepted.
-/
import TxdbusModel.Valid.MsgNames
import TxdbusModel.Proofs.Valid.Validators

namespace Txdbus.Valid

/-- accept or MarshallingError, nothing else -/
def Outcome.Clean (o : Outcome) : Prop := o = .accept ∨ o = .raised .marshallingError

theorem andThen_accept (a k : Outcome) : a.andThen k = .accept ↔ a = .accept ∧ k = .accept := by
  unfold Outcome.andThen
  cases a with
  | accept => simp
  | raised e => simp

theorem andThen_clean {a k : Outcome} (ha : a.Clean) (hk : k.Clean) : (a.andThen k).Clean := by
  unfold Outcome.andThen
  rcases ha with h | h
  · rw [h]; exact hk
  · rw [h]; exact Or.inr rfl

theorem ifNotNone_accept (v : Str → Outcome) (o : Option Str) :
    ifNotNone v o = .accept ↔ ∀ s, o = some s → v s = .accept := by
  cases o with
  | none => simp [ifNotNone]
  | some s => simp [ifNotNone]

theorem ifNotNone_clean {v : Str → Outcome} (hv : ∀ s, (v s).Clean) (o : Option Str) :
    (ifNotNone v o).Clean := by
  cases o with
  | none => exact Or.inl rfl
  | some s => exact hv s

theorem reservedCheck_clean (path : Str) :
    (if path = reservedLocalPath then Outcome.reject else Outcome.accept).Clean := by
  split
  · exact Or.inr rfl
  · exact Or.inl rfl

end Txdbus.Valid
