/-
C18 lemmas, part 2: facts about the generated character-class tables (Gen/Validators.lean),
proved by evaluation (`decide`) on the ASCII range plus a bound on the table above it.  If a
regular expression in txdbus/marshal.py changes, the table changes and these lemmas are
re-checked (or fail) against the spec's classes.
-/
import TxdbusModel.Valid.Grammar
import TxdbusModel.Valid.Names

namespace Txdbus.Valid
open Grammar

/-- `[A-Za-z0-9_]` on code points. -/
def elemCode (n : Nat) : Bool := isUpper n || isLower n || isDigit n || n == 95

theorem char_beq_toNat (c d : Char) : (c == d) = (c.toNat == d.toNat) := by
  by_cases h : c = d
  · subst h; simp
  · have : c.toNat ≠ d.toNat := by
      intro h'
      apply h
      apply Char.ext
      exact UInt32.toNat_inj.mp h'
    rw [beq_false_of_ne h, beq_false_of_ne this]

theorem elemChar_eq (c : Char) : elemChar c = elemCode c.toNat := by
  unfold elemChar elemCode
  rw [char_beq_toNat c '_']
  rfl

/-- Above every upper bound of the table nothing is listed. -/
theorem inRanges_eq_false_of_bound (rs : List (Nat × Nat)) (b : Nat)
    (h : rs.all (fun r => decide (r.2 < b)) = true) (n : Nat) (hn : b ≤ n) :
    inRanges rs n = false := by
  unfold inRanges
  induction rs with
  | nil => rfl
  | cons r t ih =>
    simp only [List.all_cons, Bool.and_eq_true, decide_eq_true_eq] at h
    simp only [List.any_cons, ih h.2, Bool.or_false]
    have : ¬ n ≤ r.2 := by omega
    simp [this]

theorem elemCode_eq_false_of_ge {n : Nat} (hn : 128 ≤ n) : elemCode n = false := by
  have h1 : 'Z'.toNat = 90 := by decide
  have h2 : 'z'.toNat = 122 := by decide
  have h3 : '9'.toNat = 57 := by decide
  simp only [elemCode, isUpper, isLower, isDigit, h1, h2, h3]
  have a : ¬ n ≤ 90 := by omega
  have b : ¬ n ≤ 122 := by omega
  have c : ¬ n ≤ 57 := by omega
  have d : ¬ n = 95 := by omega
  simp [a, b, c, d]

/-! ### the four negated classes -/

theorem objPathAllowed_lt : ∀ n, n < 128 →
    inRanges Gen.Validators.objPathAllowed n = (n == 47 || elemCode n) := by decide

theorem ifaceAllowed_lt : ∀ n, n < 128 →
    inRanges Gen.Validators.ifaceAllowed n = (n == 46 || elemCode n) := by decide

theorem busAllowed_lt : ∀ n, n < 128 →
    inRanges Gen.Validators.busAllowed n = (n == 46 || n == 58 || (elemCode n || n == 45)) := by decide

theorem memberAllowed_lt : ∀ n, n < 128 →
    inRanges Gen.Validators.memberAllowed n = elemCode n := by decide

theorem objPathAllowed_bound :
    Gen.Validators.objPathAllowed.all (fun r => decide (r.2 < 128)) = true := by decide
theorem ifaceAllowed_bound :
    Gen.Validators.ifaceAllowed.all (fun r => decide (r.2 < 128)) = true := by decide
theorem busAllowed_bound :
    Gen.Validators.busAllowed.all (fun r => decide (r.2 < 128)) = true := by decide
theorem memberAllowed_bound :
    Gen.Validators.memberAllowed.all (fun r => decide (r.2 < 128)) = true := by decide

/-- Every listed character of each class is ASCII. -/
theorem inClass_ascii {rs : List (Nat × Nat)}
    (hb : rs.all (fun r => decide (r.2 < 128)) = true) {c : Char} (h : inClass rs c = true) :
    c.toNat < 128 := by
  apply Decidable.byContradiction
  intro hn
  have := inRanges_eq_false_of_bound rs 128 hb c.toNat (by omega)
  unfold inClass at h
  rw [this] at h
  exact Bool.noConfusion h

theorem objPathAllowed_spec (c : Char) :
    inClass Gen.Validators.objPathAllowed c = (c == '/' || elemChar c) := by
  rw [elemChar_eq, char_beq_toNat c '/']
  unfold inClass
  by_cases h : c.toNat < 128
  · exact objPathAllowed_lt _ h
  · have hge : 128 ≤ c.toNat := by omega
    rw [inRanges_eq_false_of_bound _ 128 objPathAllowed_bound _ hge, elemCode_eq_false_of_ge hge]
    simp; omega

theorem ifaceAllowed_spec (c : Char) :
    inClass Gen.Validators.ifaceAllowed c = (c == '.' || elemChar c) := by
  rw [elemChar_eq, char_beq_toNat c '.']
  unfold inClass
  by_cases h : c.toNat < 128
  · exact ifaceAllowed_lt _ h
  · have hge : 128 ≤ c.toNat := by omega
    rw [inRanges_eq_false_of_bound _ 128 ifaceAllowed_bound _ hge, elemCode_eq_false_of_ge hge]
    simp; omega

theorem busAllowed_spec (c : Char) :
    inClass Gen.Validators.busAllowed c = (c == '.' || c == ':' || busElemChar c) := by
  unfold busElemChar
  rw [elemChar_eq, char_beq_toNat c '.', char_beq_toNat c ':', char_beq_toNat c '-']
  unfold inClass
  by_cases h : c.toNat < 128
  · exact busAllowed_lt _ h
  · have hge : 128 ≤ c.toNat := by omega
    rw [inRanges_eq_false_of_bound _ 128 busAllowed_bound _ hge, elemCode_eq_false_of_ge hge]
    simp; omega

theorem memberAllowed_spec (c : Char) :
    inClass Gen.Validators.memberAllowed c = elemChar c := by
  rw [elemChar_eq]
  unfold inClass
  by_cases h : c.toNat < 128
  · exact memberAllowed_lt _ h
  · have hge : 128 ≤ c.toNat := by omega
    rw [inRanges_eq_false_of_bound _ 128 memberAllowed_bound _ hge, elemCode_eq_false_of_ge hge]

/-! ### `dot_digit_re` and `str.isdigit` on ASCII -/

theorem dotDigitFirst_lt : ∀ n, n < 128 →
    inRanges Gen.Validators.dotDigitFirst n = (n == 46) := by decide

theorem dotDigitSecond_lt : ∀ n, n < 128 →
    inRanges Gen.Validators.dotDigitSecond n = isDigit n := by decide +kernel

theorem dotDigitFirst_ascii {c : Char} (h : c.toNat < 128) :
    inClass Gen.Validators.dotDigitFirst c = (c == '.') := by
  rw [char_beq_toNat c '.']; exact dotDigitFirst_lt _ h

theorem dotDigitSecond_ascii {c : Char} (h : c.toNat < 128) :
    inClass Gen.Validators.dotDigitSecond c = isDigit c.toNat := dotDigitSecond_lt _ h

theorem pyIsDigit_ascii (na : Char → Bool) {c : Char} (h : c.toNat < 128) :
    pyIsDigit na c = isDigit c.toNat := by
  have h0 : '0'.toNat = 48 := by decide
  have h9 : '9'.toNat = 57 := by decide
  simp [pyIsDigit, h, isDigit, h0, h9]

/-! ### bytes versus characters -/

theorem utf8Len_ascii (s : Str) (h : ∀ c ∈ s, c.toNat < 128) : utf8Len s = s.length := by
  unfold utf8Len
  induction s with
  | nil => rfl
  | cons c t ih =>
    have hc : c.toNat < 128 := h c (List.mem_cons_self ..)
    have ht := ih (fun d hd => h d (List.mem_cons_of_mem _ hd))
    simp only [List.map_cons, List.sum_cons, List.length_cons, ht]
    have : utf8Size c.toNat = 1 := by simp [utf8Size, hc]
    omega

theorem length_le_utf8Len (s : Str) : s.length ≤ utf8Len s := by
  unfold utf8Len
  induction s with
  | nil => simp
  | cons c t ih =>
    simp only [List.map_cons, List.sum_cons, List.length_cons]
    have : 1 ≤ utf8Size c.toNat := by unfold utf8Size; split <;> (try split) <;> (try split) <;> omega
    omega

end Txdbus.Valid
