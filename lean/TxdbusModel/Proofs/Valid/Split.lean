/-
C18 lemmas, part 1: splitting a string at a separator versus scanning it.
  * number of elements            <->  the separator occurs
  * no element is empty           <->  not empty, no leading / trailing separator, no doubled separator
  * every element over a class    <->  every character is the separator or in the class
  * no element begins with a `q`  <->  first character not `q`, no separator directly followed by a `q`
-/
import TxdbusModel.Valid.Grammar
import TxdbusModel.Valid.Names

namespace Txdbus.Valid
open Grammar

/-- First character satisfies `q` (`false` on the empty string). -/
def headSat (q : Char → Bool) : Str → Bool
  | [] => false
  | c :: _ => q c

theorem startsWithDigit_eq (e : Str) : startsWithDigit e = headSat (fun c => isDigit c.toNat) e := by
  cases e <;> rfl

theorem beq_false {a b : Char} (h : a ≠ b) : (a == b) = false := by simp [h]

theorem all_and {α} (l : List α) (p q : α → Bool) :
    l.all (fun x => p x && q x) = (l.all p && l.all q) := by
  induction l with
  | nil => rfl
  | cons a t ih => simp only [List.all_cons, ih]; cases p a <;> cases q a <;> simp

theorem splitAux_sep (sep : Char) (t : Str) :
    splitAux sep (sep :: t) = ([], (splitAux sep t).1 :: (splitAux sep t).2) := by
  simp [splitAux]

theorem splitAux_ne {sep c : Char} (h : c ≠ sep) (t : Str) :
    splitAux sep (c :: t) = (c :: (splitAux sep t).1, (splitAux sep t).2) := by
  simp [splitAux, h]

/-- The separator occurs iff there is more than one element. -/
theorem rest_eq_nil_iff (sep : Char) (s : Str) : (splitAux sep s).2 = [] ↔ sep ∉ s := by
  induction s with
  | nil => simp [splitAux]
  | cons c t ih =>
    by_cases h : c = sep
    · subst h; simp [splitAux_sep]
    · rw [splitAux_ne h]
      show (splitAux sep t).2 = [] ↔ sep ∉ c :: t
      rw [ih, List.mem_cons]
      constructor
      · intro hn hm
        rcases hm with rfl | hm
        · exact h rfl
        · exact hn hm
      · intro hn hm; exact hn (Or.inr hm)

theorem two_le_length_splitOn (sep : Char) (s : Str) :
    decide (2 ≤ (splitOn sep s).length) = s.contains sep := by
  have h := rest_eq_nil_iff sep s
  unfold splitOn
  cases hr : (splitAux sep s).2 with
  | nil => rw [hr] at h; simp at h; simp [h]
  | cons e es =>
    rw [hr] at h; simp at h; simp [h]

/-- Is the first element empty? -/
theorem first_isEmpty (sep : Char) (s : Str) :
    (splitAux sep s).1.isEmpty = (s.isEmpty || headSat (· == sep) s) := by
  cases s with
  | nil => rfl
  | cons c t =>
    by_cases h : c = sep
    · subst h; simp [splitAux_sep, headSat]
    · rw [splitAux_ne h]; simp [headSat, h]

/-- No element after the first is empty iff no trailing and no doubled separator. -/
theorem rest_all_nonempty (sep : Char) (s : Str) :
    (splitAux sep s).2.all (fun e => !e.isEmpty)
      = (!(s.getLast? == some sep) && !containsDouble sep s) := by
  induction s with
  | nil => simp [splitAux, containsDouble, containsPair]
  | cons c t ih =>
    cases t with
    | nil =>
      by_cases h : c = sep
      · subst h; simp [splitAux, containsDouble, containsPair]
      · rw [splitAux_ne h]; simp [splitAux, containsDouble, containsPair, h]
    | cons d t' =>
      have hl : (c :: d :: t').getLast? = (d :: t').getLast? := by simp [List.getLast?_cons_cons]
      have hp : containsDouble sep (c :: d :: t')
          = ((c == sep && d == sep) || containsDouble sep (d :: t')) := by
        simp [containsDouble, containsPair]
      rw [hl, hp]
      by_cases h : c = sep
      · subst h
        rw [splitAux_sep, List.all_cons, ih]
        by_cases h2 : d = c
        · subst h2; simp [splitAux_sep]
        · rw [splitAux_ne h2]; simp [beq_false h2]
      · rw [splitAux_ne h]
        show ((splitAux sep (d :: t')).2.all fun e => !e.isEmpty) = _
        rw [ih]; simp [beq_false h]

theorem splitOn_all_nonempty (sep : Char) (s : Str) :
    (splitOn sep s).all (fun e => !e.isEmpty)
      = (!s.isEmpty && !headSat (· == sep) s && !(s.getLast? == some sep) && !containsDouble sep s) := by
  unfold splitOn
  rw [List.all_cons, first_isEmpty, rest_all_nonempty]
  cases s.isEmpty <;> cases headSat (· == sep) s <;> simp

/-- Every element is over `p` iff every character is the separator or satisfies `p`. -/
theorem splitAux_all_chars (sep : Char) (p : Char → Bool) (s : Str) :
    ((splitAux sep s).1.all p && (splitAux sep s).2.all (fun e => e.all p))
      = s.all (fun c => c == sep || p c) := by
  induction s with
  | nil => simp [splitAux]
  | cons c t ih =>
    by_cases h : c = sep
    · subst h; rw [splitAux_sep]; simp [← ih]
    · have hb : (c == sep) = false := by simp [h]
      rw [splitAux_ne h]; simp [← ih, hb, Bool.and_assoc]

theorem splitOn_all_chars (sep : Char) (p : Char → Bool) (s : Str) :
    (splitOn sep s).all (fun e => e.all p) = s.all (fun c => c == sep || p c) := by
  unfold splitOn; rw [List.all_cons, splitAux_all_chars]

/-- The first element begins with a `q` iff the string does (`q` excludes the separator). -/
theorem first_headSat (sep : Char) (q : Char → Bool) (hq : q sep = false) (s : Str) :
    headSat q (splitAux sep s).1 = headSat q s := by
  cases s with
  | nil => rfl
  | cons c t =>
    by_cases h : c = sep
    · subst h; simp [splitAux_sep, headSat, hq]
    · rw [splitAux_ne h]; simp [headSat]

/-- No later element begins with a `q` iff no separator is directly followed by a `q`. -/
theorem rest_all_not_headSat (sep : Char) (q : Char → Bool) (hq : q sep = false) (s : Str) :
    (splitAux sep s).2.all (fun e => !headSat q e) = !containsPair (· == sep) q s := by
  induction s with
  | nil => simp [splitAux, containsPair]
  | cons c t ih =>
    cases t with
    | nil =>
      by_cases h : c = sep
      · subst h; simp [splitAux, containsPair, headSat]
      · rw [splitAux_ne h]; simp [splitAux, containsPair]
    | cons d t' =>
      have hp : containsPair (· == sep) q (c :: d :: t')
          = ((c == sep && q d) || containsPair (· == sep) q (d :: t')) := by
        simp [containsPair]
      rw [hp]
      by_cases h : c = sep
      · subst h
        rw [splitAux_sep, List.all_cons, ih, first_headSat c q hq]
        simp [headSat]
      · rw [splitAux_ne h, ih]; simp [beq_false h]

theorem splitOn_all_not_headSat (sep : Char) (q : Char → Bool) (hq : q sep = false) (s : Str) :
    (splitOn sep s).all (fun e => !headSat q e)
      = (!headSat q s && !containsPair (· == sep) q s) := by
  unfold splitOn
  rw [List.all_cons, first_headSat sep q hq, rest_all_not_headSat sep q hq]

end Txdbus.Valid
