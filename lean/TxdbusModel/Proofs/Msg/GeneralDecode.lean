import TxdbusModel.Msg.General
import TxdbusModel.Proofs.Wire.UnmarshalSpec
import TxdbusModel.Proofs.Msg.Tables
/-
C03 extension 2026-09-30, part 1: the header DECODER of Msg/HeaderCode.lean is the general decoder of Wire/Code.lean
(C01/C02's code model of `marshal.unmarshal`) applied to the signature `yyyyuua(yv)` at offset 0 - for EVERY byte
string, errors included, as long as the specialised decoder does not answer `PyErr.other` (= a header field whose
variant signature is not exactly one basic type code: outside the fragment HeaderCode models).

Method: direct unfolding.  The fragment reads parser style (`Rd`: absolute offset and `data[offset:]`); the general
model reads `data` at an offset.  `rdAt data off` is the reader that stands at `off`; every reader the fragment builds
is one of these (`rdAt_adv`).
-/
set_option linter.unusedSimpArgs false

namespace Txdbus.Msg
open Gen.Wire (Fn)
open Code (unmarshalOne unmarshalTop unmarshalSeq unmarshalElems uFixed uLenWord uSignature unpackFrom pySlice padLenOf
  fmtOf frameOf fmtLE URes)

/-- The fragment's reader standing at offset `off` of `data`. -/
def rdAt (data : Bytes) (off : Nat) : Rd := ⟨off, data.drop off⟩

theorem rdAt_adv (data : Bytes) (off n : Nat) : (rdAt data off).adv n = rdAt data (off + n) := by
  simp [rdAt, Rd.adv, List.drop_drop]

theorem rdAt_skipPad (A : Char → Nat) (c : Char) (data : Bytes) (off : Nat) :
    (rdAt data off).skipPad A c = rdAt data (off + padLen (A c) off) := by
  simp only [Rd.skipPad, rdAt_adv]
  rfl

@[simp] theorem rdAt_off (data : Bytes) (off : Nat) : (rdAt data off).off = off := rfl

theorem rdAt_zero (data : Bytes) : (⟨0, data⟩ : Rd) = rdAt data 0 := by simp [rdAt]

/-- What the header codec needs of `pad[...]`, for ANY character (variant signatures come from the data): the
fragment's alignment function `A` answers 0 exactly for the characters that are no key of `pad` (KeyError), and
otherwise gives the alignment `pad[c]` implements. -/
structure PadAgree (A : Char → Nat) : Prop where
  ok : ∀ ch x, A ch ≠ 0 → padLenOf ch x = .ok (padLen (A ch) x)
  key : ∀ ch x, A ch = 0 → padLenOf ch x = .error .key

theorem lookup_mem {α β : Type} [BEq α] [LawfulBEq α] : ∀ (l : List (α × β)) (k : α) (v : β), l.lookup k = some v → (k, v) ∈ l
  | [], _, _, h => by simp [List.lookup] at h
  | (a, b) :: t, k, v, h => by
    simp only [List.lookup] at h
    by_cases hk : k == a
    · simp only [hk] at h
      have : k = a := by simpa using hk
      subst this
      simp at h
      subst h
      exact List.mem_cons_self
    · have hk' : (k == a) = false := by simpa using hk
      simp only [hk'] at h
      exact List.mem_cons_of_mem _ (lookup_mem t k v h)

/-- One row of `List.lookup` read as the `if` of `Gen.Message.align`. -/
theorem lookup_getD_cons (k a : Char) (b : Nat) (es : List (Char × Nat)) :
    (List.lookup k ((a, b) :: es)).getD 0 = if k = a then b else (List.lookup k es).getD 0 := by
  rw [List.lookup_cons]
  by_cases h : k = a
  · subst h; simp
  · have h' : (k == a) = false := beq_false_of_ne h
    simp [h', h]

/-- The alignment column the C03 translator extracts (Gen/Message.lean, probed from `marshal.pad`) is the column the
C01 translator extracts (Gen/Wire.lean, `dbus_types`), with 0 for a character that has no row. -/
theorem genAlign_eq_lookup (ch : Char) : Gen.Message.align ch = (Gen.Wire.alignTable.lookup ch).getD 0 := by
  unfold Gen.Message.align Gen.Wire.alignTable
  simp only [lookup_getD_cons, List.lookup_nil, Option.getD_none]

theorem gen_padAgree : PadAgree Gen.Message.align := by
  have hrows : ∀ p ∈ Gen.Wire.alignTable, 0 < p.2 ∧ p.2 ≤ 8 := by decide
  have hmax : 7 ≤ Gen.Wire.maxPad := by decide
  constructor
  · intro ch x h
    rw [genAlign_eq_lookup] at h ⊢
    cases hl : Gen.Wire.alignTable.lookup ch with
    | none => rw [hl] at h; simp at h
    | some a =>
      obtain ⟨h2, h3⟩ := hrows (ch, a) (lookup_mem _ _ _ hl)
      simp only at h2 h3
      unfold padLenOf
      simp only [hl, Option.getD_some, padLen]
      have ha : ¬ (a = 0) := by omega
      simp only [ha, if_false]
      have hm := Nat.mod_lt x h2
      by_cases h0 : x % a = 0
      · simp [h0]
      · have h4 : a - x % a ≤ Gen.Wire.maxPad := by omega
        have h5 : (a - x % a) % a = a - x % a := Nat.mod_eq_of_lt (by omega)
        simp [h0, h4, h5]
  · intro ch x h
    rw [genAlign_eq_lookup] at h
    cases hl : Gen.Wire.alignTable.lookup ch with
    | none => unfold padLenOf; simp [hl]
    | some a =>
      obtain ⟨h2, _⟩ := hrows (ch, a) (lookup_mem _ _ _ hl)
      rw [hl] at h
      simp at h
      simp only at h2
      omega

/-! ### primitives: `struct.unpack_from` at an offset = the reader's `unpackU` / `unpackS` -/

theorem endianOf_eq (le : Bool) : _root_.Txdbus.endianOf le = endianOf le := rfl

theorem take_drop_slice (data : Bytes) (off k : Nat) : (data.drop off).take k = pySlice data off (off + k) := by
  unfold pySlice
  rw [List.take_drop]

theorem drop_rest_slice (data : Bytes) (off a k : Nat) :
    (((rdAt data off).rest).drop a).take k = pySlice data (off + a) (off + a + k) := by
  simp only [rdAt, List.drop_drop]
  exact take_drop_slice data (off + a) k

theorem unpackU_rdAt (e : Endian) (k : Nat) (hk : 0 < k) (data : Bytes) (off : Nat) :
    unpackU e k (rdAt data off) =
      if off + k ≤ data.length then .ok (decUInt e (pySlice data off (off + k))) else .error .struct := by
  unfold unpackU
  simp only [rdAt, List.length_drop, take_drop_slice]
  by_cases h : off + k ≤ data.length
  · rw [if_pos h, if_pos (by omega)]
  · rw [if_neg h, if_neg (by omega)]

theorem unpackS_rdAt (e : Endian) (k : Nat) (hk : 0 < k) (data : Bytes) (off : Nat) :
    unpackS e k (rdAt data off) =
      if off + k ≤ data.length then .ok (decSInt e (pySlice data off (off + k))) else .error .struct := by
  unfold unpackS
  simp only [rdAt, List.length_drop, take_drop_slice]
  by_cases h : off + k ≤ data.length
  · rw [if_pos h, if_pos (by omega)]
  · rw [if_neg h, if_neg (by omega)]

theorem unpackFrom_fmtLE (letter : Char) (le : Bool) (kind : Code.FmtKind) (hk : Code.fmtKind? letter = some kind)
    (data : Bytes) (off : Nat) :
    unpackFrom (fmtLE letter le) data off =
      if off + kind.size ≤ data.length then
        (match kind with
         | .uint _ => .ok (.int .plain (decUInt (endianOf le) (pySlice data off (off + kind.size))))
         | .sint _ => .ok (.int .plain (decSInt (endianOf le) (pySlice data off (off + kind.size))))
         | .double => .ok (.float (UInt64.ofNat (decUInt (endianOf le) (pySlice data off (off + kind.size))))))
      else .error .struct := by
  unfold unpackFrom
  rw [Code.fmtEndian_fmtLE]
  cases kind <;> simp only [fmtLE, hk, endianOf_eq]

theorem uFixed_uint_rdAt (le : Bool) (f : Fn) (letter : Char) (k : Nat) (hpos : 0 < k)
    (hf : fmtOf f 0 le = .ok (fmtLE letter le)) (hs : Code.sizeOf f = .ok k) (hk : Code.fmtKind? letter = some (.uint k))
    (data : Bytes) (off : Nat) :
    uFixed le data f off = retU (unpackU (endianOf le) k (rdAt data off)) k fun n => .int .plain (Int.ofNat n) := by
  unfold uFixed
  simp only [hf, hs]
  rw [unpackFrom_fmtLE letter le _ hk, unpackU_rdAt _ _ hpos]
  simp only [Code.FmtKind.size]
  by_cases h : off + k ≤ data.length <;> simp [h, retU]

theorem uFixed_sint_rdAt (le : Bool) (f : Fn) (letter : Char) (k : Nat) (hpos : 0 < k)
    (hf : fmtOf f 0 le = .ok (fmtLE letter le)) (hs : Code.sizeOf f = .ok k) (hk : Code.fmtKind? letter = some (.sint k))
    (data : Bytes) (off : Nat) :
    uFixed le data f off = retS (unpackS (endianOf le) k (rdAt data off)) k fun n => .int .plain n := by
  unfold uFixed
  simp only [hf, hs]
  rw [unpackFrom_fmtLE letter le _ hk, unpackS_rdAt _ _ hpos]
  simp only [Code.FmtKind.size]
  by_cases h : off + k ≤ data.length <;> simp [h, retS]

theorem uLenWord_rdAt (le : Bool) (f : Fn) (letter : Char) (k : Nat) (hpos : 0 < k)
    (hf : fmtOf f 0 le = .ok (fmtLE letter le)) (hk : Code.fmtKind? letter = some (.uint k))
    (data : Bytes) (off : Nat) :
    uLenWord le data f off = unpackU (endianOf le) k (rdAt data off) := by
  unfold uLenWord
  simp only [hf]
  rw [unpackFrom_fmtLE letter le _ hk, unpackU_rdAt _ _ hpos]
  simp only [Code.FmtKind.size]
  by_cases h : off + k ≤ data.length <;> simp [h]

/-! ### the 13 basic unmarshallers -/

open Code in
/-- `unmarshallers[c](ct, data, offset, lendian, oobFDs)` of the general model = the fragment's `unmarshalBasic` at
the reader standing at `offset`, for every byte string and each of the 13 basic types (results and errors). -/
theorem unmarshalOne_basic_rdAt (le : Bool) (fds : Option (List PyVal)) (fuel : Nat) (c : Basic) (tl : List Char)
    (data : Bytes) (off : Nat) :
    unmarshalOne le data fds (fuel + 1) (c.code :: tl) off = unmarshalBasic le c (rdAt data off) fds := by
  cases c
  case y =>
    simp only [unmarshalOne, Basic.code, List.head?_cons, udisp_y, unmarshalBasic]
    exact uFixed_uint_rdAt le _ 'B' 1 (by omega) (ufmt_byte le) usize_byte rfl data off
  case q =>
    simp only [unmarshalOne, Basic.code, List.head?_cons, udisp_q, unmarshalBasic]
    exact uFixed_uint_rdAt le _ 'H' 2 (by omega) (ufmt_uint16 le) usize_uint16 rfl data off
  case u =>
    simp only [unmarshalOne, Basic.code, List.head?_cons, udisp_u, unmarshalBasic]
    exact uFixed_uint_rdAt le _ 'I' 4 (by omega) (ufmt_uint32 le) usize_uint32 rfl data off
  case t =>
    simp only [unmarshalOne, Basic.code, List.head?_cons, udisp_t, unmarshalBasic]
    exact uFixed_uint_rdAt le _ 'Q' 8 (by omega) (ufmt_uint64 le) usize_uint64 rfl data off
  case n =>
    simp only [unmarshalOne, Basic.code, List.head?_cons, udisp_n, unmarshalBasic]
    exact uFixed_sint_rdAt le _ 'h' 2 (by omega) (ufmt_int16 le) usize_int16 rfl data off
  case i =>
    simp only [unmarshalOne, Basic.code, List.head?_cons, udisp_i, unmarshalBasic]
    exact uFixed_sint_rdAt le _ 'i' 4 (by omega) (ufmt_int32 le) usize_int32 rfl data off
  case x =>
    simp only [unmarshalOne, Basic.code, List.head?_cons, udisp_x, unmarshalBasic]
    exact uFixed_sint_rdAt le _ 'q' 8 (by omega) (ufmt_int64 le) usize_int64 rfl data off
  case b =>
    simp only [unmarshalOne, Basic.code, List.head?_cons, udisp_b, unmarshalBasic]
    rw [uFixed_uint_rdAt le _ 'I' 4 (by omega) (ufmt_boolean le) usize_boolean rfl data off]
    cases unpackU (endianOf le) 4 (rdAt data off) with
    | error e => rfl
    | ok n =>
      cases n with
      | zero => simp [retU]
      | succ k => simp [retU]; omega
  case d =>
    simp only [unmarshalOne, Basic.code, List.head?_cons, udisp_d, unmarshalBasic, uFixed, ufmt_double, usize_double]
    rw [unpackFrom_fmtLE 'd' le .double rfl, unpackU_rdAt _ _ (by omega)]
    simp only [Code.FmtKind.size]
    by_cases h : off + 8 ≤ data.length <;> simp [h, retU]
  case h =>
    simp only [unmarshalOne, Basic.code, List.head?_cons, udisp_h, unmarshalBasic, usize_unix_fd]
    rw [uLenWord_rdAt le _ 'I' 4 (by omega) (ufmt_unix_fd le) rfl]
    cases unpackU (endianOf le) 4 (rdAt data off) with
    | error e => rfl
    | ok idx =>
      cases fds with
      | none => rfl
      | some l => cases hl : l[idx]? <;> simp [hl]
  case s =>
    simp only [unmarshalOne, Basic.code, List.head?_cons, udisp_s, unmarshalBasic, uframe_string]
    rw [uLenWord_rdAt le _ 'I' 4 (by omega) (ufmt_string le) rfl]
    cases unpackU (endianOf le) 4 (rdAt data off) with
    | error e => rfl
    | ok slen =>
      simp only [drop_rest_slice]
      cases utf8Decode (pySlice data (off + 4) (off + 4 + slen)) with
      | none => rfl
      | some cs => simp; omega
  case o =>
    simp only [unmarshalOne, Basic.code, List.head?_cons, udisp_o, unmarshalBasic, uframe_string]
    rw [uLenWord_rdAt le _ 'I' 4 (by omega) (ufmt_string le) rfl]
    cases unpackU (endianOf le) 4 (rdAt data off) with
    | error e => rfl
    | ok slen =>
      simp only [drop_rest_slice]
      cases utf8Decode (pySlice data (off + 4) (off + 4 + slen)) with
      | none => rfl
      | some cs => simp; omega
  case g =>
    simp only [unmarshalOne, Basic.code, List.head?_cons, udisp_g, unmarshalBasic, uSignature, uframe_signature]
    rw [uLenWord_rdAt le _ 'B' 1 (by omega) (ufmt_signature le) rfl]
    cases unpackU (endianOf le) 1 (rdAt data off) with
    | error e => rfl
    | ok slen =>
      simp only [drop_rest_slice]
      cases asciiDecode (pySlice data (off + 1) (off + 1 + slen)) with
      | none => rfl
      | some cs => simp; omega

/-! ### the variant -/

open Code in
theorem uSignature_rdAt (le : Bool) (data : Bytes) (off : Nat) :
    uSignature le data off = unmarshalSignature le (rdAt data off) := by
  unfold uSignature unmarshalSignature
  rw [uLenWord_rdAt le _ 'B' 1 (by omega) (ufmt_signature le) rfl]
  cases unpackU (endianOf le) 1 (rdAt data off) with
  | error e => rfl
  | ok slen =>
    simp only [drop_rest_slice, uframe_signature]
    cases asciiDecode (pySlice data (off + 1) (off + 1 + slen)) with
    | none => rfl
    | some cs => simp; omega

theorem ofCode_some {ch : Char} {c : Basic} (h : Basic.ofCode? ch = some c) : c.code = ch := by
  unfold Basic.ofCode? at h
  have := List.find?_some h
  simpa using this

theorem lazyPieces_basic (c : Basic) : lazyPieces [c.code] = ([[c.code]], none) :=
  Code.lazyPieces_render (.basic c)

/-- `unmarshal(vsig, data, offset, …)` of the general model for a signature that is one basic type code. -/
theorem unmarshalTop_basic (A : Char → Nat) (hA : PadAgree A) (le : Bool) (fds : Option (List PyVal)) (fuel : Nat)
    (c : Basic) (hz : A c.code ≠ 0) (data : Bytes) (off : Nat) :
    unmarshalTop (unmarshalOne le data fds (fuel + 1)) [c.code] off =
      match unmarshalBasic le c (rdAt data (off + padLen (A c.code) off)) fds with
      | .error e => .error e
      | .ok (n, v) => .ok (padLen (A c.code) off + n, [v]) := by
  unfold unmarshalTop
  simp only [lazyPieces_basic, unmarshalSeq, List.head?_cons, hA.ok _ _ hz, unmarshalOne_basic_rdAt]
  cases unmarshalBasic le c (rdAt data (off + padLen (A c.code) off)) fds with
  | error e => rfl
  | ok r =>
    obtain ⟨n, v⟩ := r
    simp only [Except.ok.injEq, Prod.mk.injEq, and_true]
    omega

open Code in
/-- One unfolding of the general `unmarshal_variant` (the recursive calls stay folded). -/
theorem unmarshalOne_v (le : Bool) (fds : Option (List PyVal)) (fuel : Nat) (tl : List Char) (data : Bytes) (off : Nat) :
    unmarshalOne le data fds (fuel + 1) ('v' :: tl) off =
      match uSignature le data off with
      | .error e => .error e
      | .ok (nsig, vsig) =>
        match vsig.head? with
        | none => .error .index
        | some vc =>
          match padLenOf vc (off + nsig) with
          | .error e => .error e
          | .ok p =>
            match unmarshalTop (unmarshalOne le data fds fuel) vsig (off + nsig + p) with
            | .error e => .error e
            | .ok (nvar, vs) =>
              match vs with
              | v :: _ => .ok (nsig + p + nvar, v)
              | [] => .error .index := by
  simp only [unmarshalOne, List.head?_cons, udisp_v]
  rfl

open Code in
/-- `unmarshal_variant` of the general model = the fragment's, unless the fragment says "outside" (`PyErr.other`). -/
theorem unmarshalOne_variant_rdAt (A : Char → Nat) (hA : PadAgree A) (le : Bool) (fds : Option (List PyVal)) (fuel : Nat)
    (tl : List Char) (data : Bytes) (off : Nat)
    (hne : unmarshalVariant A le (rdAt data off) fds ≠ .error .other) :
    unmarshalOne le data fds (fuel + 2) ('v' :: tl) off = unmarshalVariant A le (rdAt data off) fds := by
  rw [unmarshalOne_v, uSignature_rdAt]
  unfold unmarshalVariant at hne ⊢
  cases hs : unmarshalSignature le (rdAt data off) with
  | error e => rfl
  | ok r =>
    obtain ⟨nsig, vsig⟩ := r
    rw [hs] at hne
    cases vsig with
    | nil => rfl
    | cons ch more =>
      simp only [List.head?_cons] at hne ⊢
      by_cases hz : A ch = 0
      · simp only [hA.key _ _ hz, hz, if_true]
      · simp only [hz, if_false] at hne ⊢
        simp only [hA.ok _ _ hz]
        cases more with
        | cons c2 m2 => exact absurd rfl hne
        | nil =>
          cases hc : Basic.ofCode? ch with
          | none => rw [hc] at hne; exact absurd rfl hne
          | some c =>
            have hcode := ofCode_some hc
            subst hcode
            simp only [unmarshalTop_basic A hA le fds fuel c hz, rdAt_adv, rdAt_skipPad, rdAt_off]
            cases unmarshalBasic le c
                (rdAt data (off + nsig + padLen (A c.code) (off + nsig) +
                  padLen (A c.code) (off + nsig + padLen (A c.code) (off + nsig)))) fds with
            | error e => rfl
            | ok r2 =>
              obtain ⟨n, v⟩ := r2
              simp only [Except.ok.injEq, Prod.mk.injEq, and_true]
              omega

/-! ### the struct `(yv)`, the array loop, the array -/

/-- One header field as the Python value `unmarshal` returns for a `(yv)` struct. -/
def fieldToPy (f : Nat × PyVal) : PyVal := .list [.int .plain (f.1 : Nat), f.2]

open Code in
theorem unmarshalOne_struct (le : Bool) (fds : Option (List PyVal)) (fuel : Nat) (tl : List Char) (data : Bytes) (off : Nat) :
    unmarshalOne le data fds (fuel + 1) ('(' :: tl) off =
      match unmarshalTop (unmarshalOne le data fds fuel) tl.dropLast off with
      | .error e => .error e
      | .ok (n, vs) => .ok (n, .list vs) := by
  simp only [unmarshalOne, List.head?_cons, udisp_struct]
  rfl

theorem lazyPieces_yv : lazyPieces ['y', 'v'] = ([['y'], ['v']], none) := by decide

theorem unmarshalOne_y (le : Bool) (fds : Option (List PyVal)) (fuel : Nat) (data : Bytes) (off : Nat) :
    unmarshalOne le data fds (fuel + 1) ['y'] off =
      retU (unpackU (endianOf le) 1 (rdAt data off)) 1 fun n => .int .plain (Int.ofNat n) :=
  unmarshalOne_basic_rdAt le fds fuel .y [] data off

theorem unmarshalOne_u (le : Bool) (fds : Option (List PyVal)) (fuel : Nat) (data : Bytes) (off : Nat) :
    unmarshalOne le data fds (fuel + 1) ['u'] off =
      retU (unpackU (endianOf le) 4 (rdAt data off)) 4 fun n => .int .plain (Int.ofNat n) :=
  unmarshalOne_basic_rdAt le fds fuel .u [] data off

theorem alignOK_ne (A : Char → Nat) (hO : AlignOK A) :
    A 'y' ≠ 0 ∧ A 'u' ≠ 0 ∧ A 'a' ≠ 0 ∧ A '(' ≠ 0 ∧ A 'v' ≠ 0 := by
  rw [hO.y, hO.u, hO.a, hO.struct, hO.v]; decide

theorem unmarshalOne_structYV_rdAt (A : Char → Nat) (hA : PadAgree A) (hO : AlignOK A) (le : Bool)
    (fds : Option (List PyVal)) (fuel : Nat) (data : Bytes) (off : Nat)
    (hne : unmarshalStructYV A le (rdAt data off) fds ≠ .error .other) :
    unmarshalOne le data fds (fuel + 3) ['(', 'y', 'v', ')'] off =
      match unmarshalStructYV A le (rdAt data off) fds with
      | .error e => .error e
      | .ok (n, f) => .ok (n, fieldToPy f) := by
  obtain ⟨hy, _, _, _, hv⟩ := alignOK_ne A hO
  rw [unmarshalOne_struct]
  have hdl : (['y', 'v', ')'] : List Char).dropLast = ['y', 'v'] := rfl
  rw [hdl]
  unfold unmarshalTop
  unfold unmarshalStructYV at hne ⊢
  simp only [lazyPieces_yv, unmarshalSeq, List.head?_cons, hA.ok _ _ hy, hA.ok _ _ hv, unmarshalOne_y,
    rdAt_skipPad, rdAt_adv, rdAt_off] at hne ⊢
  cases hc : unpackU (endianOf le) 1 (rdAt data (off + padLen (A 'y') off)) with
  | error e => simp [retU]
  | ok code =>
    rw [hc] at hne
    simp only [retU] at hne ⊢
    have hnv : unmarshalVariant A le (rdAt data (off + padLen (A 'y') off + 1 +
        padLen (A 'v') (off + padLen (A 'y') off + 1))) fds ≠ .error .other := by
      intro h; rw [h] at hne; exact hne rfl
    rw [unmarshalOne_variant_rdAt A hA le fds fuel [] data _ hnv]
    cases unmarshalVariant A le (rdAt data (off + padLen (A 'y') off + 1 +
        padLen (A 'v') (off + padLen (A 'y') off + 1))) fds with
    | error e => rfl
    | ok r =>
      obtain ⟨nv, v⟩ := r
      simp only [fieldToPy, Except.ok.injEq, Prod.mk.injEq, and_true, Int.ofNat_eq_natCast]
      try omega

/-- A `(yv)` struct that decodes has read its code byte: at least one byte was left. -/
theorem unmarshalStructYV_progress (A : Char → Nat) (hO : AlignOK A) (le : Bool) (fds : Option (List PyVal))
    (data : Bytes) (off nb : Nat) (item : Nat × PyVal)
    (h : unmarshalStructYV A le (rdAt data off) fds = .ok (nb, item)) : off + 1 ≤ data.length := by
  unfold unmarshalStructYV at h
  simp only [rdAt_skipPad, hO.y, padLen, Nat.mod_one, Nat.sub_zero, Nat.add_zero] at h
  rw [unpackU_rdAt _ _ (by omega)] at h
  by_cases hl : off + 1 ≤ data.length
  · exact hl
  · rw [if_neg hl] at h; cases h

theorem unmarshalElems_items_rdAt (A : Char → Nat) (hA : PadAgree A) (hO : AlignOK A) (le : Bool)
    (fds : Option (List PyVal)) (fuel : Nat) (data : Bytes) (stop : Nat) :
    ∀ (k n off : Nat), data.length - off < k → stop - off ≤ n →
      unmarshalItems A le fds k (rdAt data off) stop ≠ .error .other →
      unmarshalElems (unmarshalOne le data fds (fuel + 3) ['(', 'y', 'v', ')']) '(' stop n off =
        match unmarshalItems A le fds k (rdAt data off) stop with
        | .error e => .error e
        | .ok (items, r) => .ok (r.off, items.map fieldToPy)
  | 0, _, _, hk, _, _ => by omega
  | k + 1, n, off, hk, hn, hne => by
    obtain ⟨_, _, _, hs, _⟩ := alignOK_ne A hO
    unfold unmarshalElems
    unfold unmarshalItems at hne ⊢
    simp only [rdAt_off, rdAt_skipPad, rdAt_adv] at hne ⊢
    by_cases hlt : off < stop
    · simp only [hlt, if_true] at hne ⊢
      obtain ⟨m, rfl⟩ : ∃ m, n = m + 1 := ⟨n - 1, by omega⟩
      simp only [hA.ok _ _ hs]
      have hns : unmarshalStructYV A le (rdAt data (off + padLen (A '(') off)) fds ≠ .error .other := by
        intro h; rw [h] at hne; exact hne rfl
      rw [unmarshalOne_structYV_rdAt A hA hO le fds fuel data _ hns]
      cases hst : unmarshalStructYV A le (rdAt data (off + padLen (A '(') off)) fds with
      | error e => rfl
      | ok r =>
        obtain ⟨nb, item⟩ := r
        rw [hst] at hne
        simp only at hne ⊢
        by_cases hz : nb = 0
        · simp only [hz, if_true]
        · simp only [hz, if_false] at hne ⊢
          have hprog := unmarshalStructYV_progress A hO le fds data _ nb item hst
          have hne' : unmarshalItems A le fds k (rdAt data (off + padLen (A '(') off + nb)) stop ≠ .error .other := by
            intro h; rw [h] at hne; exact hne rfl
          rw [unmarshalElems_items_rdAt A hA hO le fds fuel data stop k m (off + padLen (A '(') off + nb)
            (by omega) (by omega) hne']
          cases unmarshalItems A le fds k (rdAt data (off + padLen (A '(') off + nb)) stop with
          | error e => rfl
          | ok r2 =>
            obtain ⟨items, r3⟩ := r2
            simp
    · simp only [hlt, if_false]
      simp

open Code in
theorem unmarshalOne_array (le : Bool) (fds : Option (List PyVal)) (fuel : Nat) (tl : List Char) (data : Bytes) (off : Nat) :
    unmarshalOne le data fds (fuel + 1) ('a' :: tl) off =
      match uLenWord le data .unmarshal_array off with
      | .error e => .error e
      | .ok dataLen =>
        match tl.head? with
        | none => .error .index
        | some ec =>
          match padLenOf ec (off + 4) with
          | .error e => .error e
          | .ok p0 =>
            match unmarshalElems (unmarshalOne le data fds fuel tl) ec (off + 4 + p0 + dataLen) dataLen (off + 4 + p0) with
            | .error e => .error e
            | .ok (off', values) =>
              if off' ≠ off + 4 + p0 + dataLen then .error .marshalling
              else if ec = '{' then
                match buildDict values [] with
                | .error e => .error e
                | .ok d => .ok (off' - off, .dict (d.map fun x => (x.2.1, x.2.2)))
              else .ok (off' - off, .list values) := by
  simp only [unmarshalOne, List.head?_cons, udisp_a]
  rfl

open Code in
theorem unmarshalOne_arrayYV_rdAt (A : Char → Nat) (hA : PadAgree A) (hO : AlignOK A) (le : Bool)
    (fds : Option (List PyVal)) (fuel : Nat) (data : Bytes) (off : Nat)
    (hne : unmarshalArrayYV A le (rdAt data off) fds ≠ .error .other) :
    unmarshalOne le data fds (fuel + 4) ['a', '(', 'y', 'v', ')'] off =
      match unmarshalArrayYV A le (rdAt data off) fds with
      | .error e => .error e
      | .ok (n, items) => .ok (n, .list (items.map fieldToPy)) := by
  obtain ⟨_, _, _, hs, _⟩ := alignOK_ne A hO
  rw [unmarshalOne_array, uLenWord_rdAt le _ 'I' 4 (by omega) (ufmt_array le) rfl]
  unfold unmarshalArrayYV at hne ⊢
  cases hl : unpackU (endianOf le) 4 (rdAt data off) with
  | error e => rfl
  | ok dataLen =>
    rw [hl] at hne
    simp only [List.head?_cons, hA.ok _ _ hs, rdAt_adv, rdAt_skipPad, rdAt_off] at hne ⊢
    have hrest : (rdAt data (off + 4 + padLen (A '(') (off + 4))).rest.length =
        data.length - (off + 4 + padLen (A '(') (off + 4)) := by simp [rdAt]
    rw [hrest] at hne ⊢
    have hni : unmarshalItems A le fds (data.length - (off + 4 + padLen (A '(') (off + 4)) + 1)
        (rdAt data (off + 4 + padLen (A '(') (off + 4))) (off + 4 + padLen (A '(') (off + 4) + dataLen) ≠ .error .other := by
      intro h; rw [h] at hne; exact hne rfl
    rw [unmarshalElems_items_rdAt A hA hO le fds fuel data _ _ dataLen _ (by omega) (by omega) hni]
    cases unmarshalItems A le fds (data.length - (off + 4 + padLen (A '(') (off + 4)) + 1)
        (rdAt data (off + 4 + padLen (A '(') (off + 4))) (off + 4 + padLen (A '(') (off + 4) + dataLen) with
    | error e => rfl
    | ok r =>
      obtain ⟨items, r2⟩ := r
      simp only
      by_cases he : r2.off = off + 4 + padLen (A '(') (off + 4) + dataLen
      · simp [he]
      · simp [he]

/-! ### the header -/

theorem lazyPieces_header :
    lazyPieces headerFormatStr = ([['y'], ['y'], ['y'], ['y'], ['u'], ['u'], ['a', '(', 'y', 'v', ')']], none) := by decide

theorem toPy_fields (fields : List (Nat × PyVal)) :
    (fields.map fun f => PyVal.list [.int .plain (f.1 : Nat), f.2]) = fields.map fieldToPy := rfl

/-- **Decoder.**  For every byte string, byte order, descriptor list and step budget `fuel + 4`: when the specialised
header decoder answers a header or an exception other than "outside the fragment", the general decoder applied to
`yyyyuua(yv)` at offset 0 answers the same (the header as the Python values `HeaderVals.toPy`, the same byte count; the
same exception). -/
theorem unmarshalHeader_eq_general (A : Char → Nat) (hA : PadAgree A) (hO : AlignOK A) (le : Bool)
    (fds : Option (List PyVal)) (fuel : Nat) (data : Bytes)
    (hne : unmarshalHeader A le data fds ≠ .error .other) :
    Code.unmarshal (fuel + 4) headerFormatStr data 0 le fds =
      match unmarshalHeader A le data fds with
      | .error e => .error e
      | .ok h => .ok (h.nheader, h.toPy) := by
  obtain ⟨hy, hu, ha, _, _⟩ := alignOK_ne A hO
  unfold Code.unmarshal unmarshalTop
  unfold unmarshalHeader at hne ⊢
  simp only [lazyPieces_header, unmarshalSeq, List.head?_cons, hA.ok _ _ hy, hA.ok _ _ hu, hA.ok _ _ ha,
    unmarshalOne_y, unmarshalOne_u, rdAt_zero, rdAt_skipPad, rdAt_adv, rdAt_off, Nat.zero_add] at hne ⊢
  generalize hp0 : padLen (A 'y') 0 = p0 at hne ⊢
  cases h0 : unpackU (endianOf le) 1 (rdAt data p0) with
  | error e => simp [retU]
  | ok v0 =>
    rw [h0] at hne
    simp only [retU] at hne ⊢
    generalize hp1 : p0 + 1 + padLen (A 'y') (p0 + 1) = p1 at hne ⊢
    cases h1 : unpackU (endianOf le) 1 (rdAt data p1) with
    | error e => simp
    | ok v1 =>
      rw [h1] at hne
      simp only at hne ⊢
      generalize hp2 : p1 + 1 + padLen (A 'y') (p1 + 1) = p2 at hne ⊢
      cases h2 : unpackU (endianOf le) 1 (rdAt data p2) with
      | error e => simp
      | ok v2 =>
        rw [h2] at hne
        simp only at hne ⊢
        generalize hp3 : p2 + 1 + padLen (A 'y') (p2 + 1) = p3 at hne ⊢
        cases h3 : unpackU (endianOf le) 1 (rdAt data p3) with
        | error e => simp
        | ok v3 =>
          rw [h3] at hne
          simp only at hne ⊢
          generalize hp4 : p3 + 1 + padLen (A 'u') (p3 + 1) = p4 at hne ⊢
          cases h4 : unpackU (endianOf le) 4 (rdAt data p4) with
          | error e => simp
          | ok v4 =>
            rw [h4] at hne
            simp only at hne ⊢
            generalize hp5 : p4 + 4 + padLen (A 'u') (p4 + 4) = p5 at hne ⊢
            cases h5 : unpackU (endianOf le) 4 (rdAt data p5) with
            | error e => simp
            | ok v5 =>
              rw [h5] at hne
              simp only at hne ⊢
              generalize hp6 : p5 + 4 + padLen (A 'a') (p5 + 4) = p6 at hne ⊢
              have hna : unmarshalArrayYV A le (rdAt data p6) fds ≠ .error .other := by
                intro h; rw [h] at hne; exact hne rfl
              rw [unmarshalOne_arrayYV_rdAt A hA hO le fds fuel data p6 hna]
              cases unmarshalArrayYV A le (rdAt data p6) fds with
              | error e => rfl
              | ok r =>
                obtain ⟨na, items⟩ := r
                simp [HeaderVals.toPy, toPy_fields]

end Txdbus.Msg
