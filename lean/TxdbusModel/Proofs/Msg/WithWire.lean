import TxdbusModel.Proofs.Msg.Main
import TxdbusModel.Proofs.Wire.TopLevel
import TxdbusModel.Proofs.Wire.Normal
/-
C03 composed with C01: the message model instantiated with the code model of txdbus's own wire codec
(Wire/Code.lean) as the body codec, and the lemmas behind `C01_roundtrip` / `C02_decode` (Proofs/Wire/TopLevel.lean,
Normal.lean: `Code.marshal_eq_spec`, `Code.unmarshal_eq_spec`, `Code.fromSpecFields_of_rep`) discharging the codec
hypotheses of `parse_marshal` and `parse_foreign`.
-/
namespace Txdbus.Msg

/-- The body codec of txdbus itself: the code model of `marshal.marshal` / `marshal.unmarshal` (Wire/Code.lean,
C01/C02) with step budget `fuel`; a body is the Python `variableList`, a decoded body the list of values. -/
def wireCodec (fuel : Nat) : BodyCodec PyVal where
  marshal := fun sg body fds =>
    match Code.marshal fuel sg (body.getD .none) 0 true fds with
    | .ok (_, bs, fds') => .ok (bs, fds')
    | .error e => .error e
  unmarshal := fun sg raw le fds =>
    match Code.unmarshal fuel sg raw 0 le fds with
    | .ok (_, vals) => .ok (.list vals)
    | .error e => .error e

theorem render_noNul (ts : List Ty) : (renderAll ts).contains nul = false := by
  have h := renderAll_ascii ts
  cases hc : (renderAll ts).contains nul with
  | false => rfl
  | true =>
    rw [List.contains_iff_mem] at hc
    have := h nul hc
    revert this
    unfold sigCharOk
    decide


/-- `parse_marshal` with the body codec of txdbus itself and C01's theorem in place of the hypothesis on the
codec: a method call with `oobFDs=[]` whose signature is the rendering of WF types `ts` and whose body conforms
to it (C01's premises) parses back with the normalised body `Code.plainList items`. -/
theorem parse_marshal_wire (T : Tables) (hT : T.OK) (na : Char → Bool) (maxLen : Nat) (st st' : St)
    (a : CallArgs PyVal) (m : Msg PyVal) (hs : 1 ≤ st.nextSerial)
    (ts : List Ty) (pv : PyVal) (items : List PyVal) (vs : List Val) (fdl : List PyVal) (bs : Bytes) (fuel : Nat)
    (hsig : a.signature = some (renderAll ts)) (hne : renderAll ts ≠ []) (hbody : a.body = some pv)
    (hoob : a.oobFDs = some [])
    (hts : allWF ts = true) (hitems : Code.topItems pv = .ok items)
    (hrep : Code.RepFields fdl vs true ts items 0 fdl.length) (hkeys : Code.KeysOKList items)
    (henc : Spec.encodeAll Code.genAlign (endianOf true) ts vs 0 = some bs) (hfuel : depthAll vs ≤ fuel)
    (h : construct T (wireCodec fuel) na maxLen st (.methodCall a) = (st', .ok m)) :
    ∃ m' : Msg PyVal, parseMessage T (wireCodec fuel) m.raw (some fdl) = .ok m' ∧
      m'.cls = m.cls ∧ m'.serial = m.serial ∧ m'.expectReply = m.expectReply ∧ m'.autoStart = m.autoStart ∧
      (∀ x, m'.attrs x = plain (m.attrs x)) ∧
      m'.body = some (.list (Code.plainList items)) ∧ m'.rawBody = bs ∧ m.rawBody = bs := by
  -- the two halves of `C01_roundtrip` (Properties/C01.lean), taken from the lemma files it is assembled from
  have hm : Code.marshal fuel (renderAll ts) pv 0 true (some []) = .ok (bs.length, bs, some fdl) := by
    have h := Code.marshal_eq_spec Code.genAlign Code.padOK_gen Code.genAlign_pos true ts pv items vs fdl fdl.length
      0 bs fuel hitems hrep henc hfuel
    simpa using h
  have hu := Code.unmarshal_eq_spec Code.genAlign Code.padOK_gen Code.genAlign_pos true (some fdl) ts vs 0 bs [] []
    (Code.plainList items) fuel hts henc rfl (Code.fromSpecFields_of_rep fdl vs true ts items 0 fdl.length hrep hkeys) hfuel
  simp only [List.nil_append, List.append_nil] at hu
  have hnonul : Main.SigNoNul (Call.methodCall a) := by
    intro sg hsg
    simp only [Call.signature, hsig, Option.some.injEq] at hsg
    subst hsg
    exact render_noNul ts
  obtain ⟨sm, hb⟩ := construct_ok T hT (wireCodec fuel) na maxLen st st' (.methodCall a) m h
  have hsigattr : m.attrs .signature = .str .plain (renderAll ts) := by
    rw [hb.attrs .signature (by decide), Main.pre_signature]
    simp [Call.signature, hsig, strAttr]
  have hmbody : m.body = some pv := by rw [hb.body]; simp [Call.pre, hbody]
  have hC : ∀ sg, m.attrs .signature = .str .plain sg → sg ≠ [] →
      ∃ bytes fds', (wireCodec fuel).marshal sg m.body (Call.methodCall a).oob = .ok (bytes, fds') ∧
        (wireCodec fuel).unmarshal sg bytes true (some fdl) = .ok (.list (Code.plainList items)) := by
    intro sg hsg _
    rw [hsigattr] at hsg
    simp only [PyVal.str.injEq, true_and] at hsg
    subst hsg
    refine ⟨bs, some fdl, ?_, ?_⟩
    · simp only [wireCodec, hmbody, Option.getD_some, Call.oob, hoob, hm]
    · simp only [wireCodec, hu]
  obtain ⟨m', p1, p2, p3, p4, p5, p6, p7, p8, p9, p10, _⟩ :=
    Main.parse_marshal T hT (wireCodec fuel) na maxLen st st' (.methodCall a) m hs hnonul h (some fdl)
      (.list (Code.plainList items)) hC
  have htr : truthy (m.attrs .signature) = true := by
    rw [hsigattr]
    cases hr : renderAll ts with
    | nil => exact absurd hr hne
    | cons c cs => simp [truthy]
  rw [htr, if_pos rfl] at p7
  -- the body bytes
  have hraw : m.rawBody = bs := by
    rcases hb.bodyCase with ⟨ht, _, _⟩ | ⟨sg', fds', hs1, _, hs3, _⟩
    · rw [← hb.attrs .signature (by decide), htr] at ht; cases ht
    · rw [← hb.attrs .signature (by decide), hsigattr] at hs1
      simp only [PyVal.str.injEq, true_and] at hs1
      subst hs1
      simp only [wireCodec, Call.pre, hbody, Option.getD_some, Call.oob, hoob, hm, Except.ok.injEq, Prod.mk.injEq] at hs3
      exact hs3.1.symm
  exact ⟨m', p1, p2, p3, p4, p5, p6, p7, by rw [p10, hraw], hraw⟩


/-- C01's marshalling theorem for `oobFDs=None` (what `MethodReturnMessage`, `ErrorMessage`, `SignalMessage` and a
default `MethodCallMessage` pass): a body without descriptors (`RepFields … false …`) encodes to the specification
bytes and the descriptor argument stays None.  Same proof as `Code.marshal_eq_spec`, with `fd = false`. -/
theorem marshal_eq_spec_none (le : Bool) (ts : List Ty) (pv : PyVal) (items : List PyVal) (vs : List Val)
    (lall : List PyVal) (k k' off : Nat) (bs : Bytes) (fuel : Nat)
    (hitems : Code.topItems pv = .ok items) (hrep : Code.RepFields lall vs false ts items k k')
    (henc : Spec.encodeAll Code.genAlign (Txdbus.endianOf le) ts vs off = some bs) (hfuel : depthAll vs ≤ fuel) :
    Code.marshal fuel (renderAll ts) pv off le none = .ok (bs.length, bs, none) := by
  unfold Code.marshal Code.marshalTop
  unfold Spec.encodeAll at henc
  have h := Code.marshalSeq_spec Code.genAlign Code.padOK_gen Code.genAlign_pos lall le vs false ts items k k' off bs fuel
    hrep henc hfuel
  simp only [Code.fdsArg, Bool.false_eq_true, if_false] at h
  simp only [hitems, lazyPieces_renderAll, h]
  simp

/-- `parse_marshal` for ANY of the four constructors called without a descriptor list (`oobFDs=None`), with txdbus's
own codec model and C01's theorems in place of the codec hypothesis: signature = rendering of WF types `ts`, body
conforming to it without descriptors.  `parseMessage(m.rawMessage, lall)` - whatever list `lall` of received
descriptors the protocol hands over - returns the message with the normalised body. -/
theorem parse_marshal_wire_none (T : Tables) (hT : T.OK) (na : Char → Bool) (maxLen : Nat) (st st' : St)
    (c : Call PyVal) (m : Msg PyVal) (hs : 1 ≤ st.nextSerial)
    (ts : List Ty) (pv : PyVal) (items : List PyVal) (vs : List Val) (lall : List PyVal) (bs : Bytes) (fuel : Nat)
    (hsig : c.signature = some (renderAll ts)) (hne : renderAll ts ≠ []) (hbody : c.body = some pv)
    (hoob : c.oob = none)
    (hts : allWF ts = true) (hitems : Code.topItems pv = .ok items)
    (hrep : Code.RepFields lall vs false ts items 0 0) (hkeys : Code.KeysOKList items)
    (henc : Spec.encodeAll Code.genAlign (Txdbus.endianOf true) ts vs 0 = some bs) (hfuel : depthAll vs ≤ fuel)
    (h : construct T (wireCodec fuel) na maxLen st c = (st', .ok m)) :
    ∃ m' : Msg PyVal, parseMessage T (wireCodec fuel) m.raw (some lall) = .ok m' ∧
      m'.cls = m.cls ∧ m'.serial = m.serial ∧ m'.expectReply = m.expectReply ∧ m'.autoStart = m.autoStart ∧
      (∀ x, m'.attrs x = plain (m.attrs x)) ∧
      m'.body = some (.list (Code.plainList items)) ∧ m'.rawBody = bs ∧ m.rawBody = bs := by
  have hm := marshal_eq_spec_none true ts pv items vs lall 0 0 0 bs fuel hitems hrep henc hfuel
  have hu := Code.unmarshal_eq_spec Code.genAlign Code.padOK_gen Code.genAlign_pos true (some lall) ts vs 0 bs [] []
    (Code.plainList items) fuel hts henc rfl (Code.fromSpecFields_of_rep lall vs false ts items 0 0 hrep hkeys) hfuel
  simp only [List.nil_append, List.append_nil] at hu
  have hnonul : Main.SigNoNul c := by
    intro sg hsg
    rw [hsig] at hsg
    simp only [Option.some.injEq] at hsg
    subst hsg
    exact render_noNul ts
  obtain ⟨sm, hb⟩ := construct_ok T hT (wireCodec fuel) na maxLen st st' c m h
  have hsigattr : m.attrs .signature = .str .plain (renderAll ts) := by
    rw [hb.attrs .signature (by decide), Main.pre_signature, hsig]; rfl
  have hpb : c.pre.body = c.body := by cases c <;> rfl
  have hmbody : m.body = some pv := by rw [hb.body, hpb, hbody]
  have hC : ∀ sg, m.attrs .signature = .str .plain sg → sg ≠ [] →
      ∃ bytes fds', (wireCodec fuel).marshal sg m.body c.oob = .ok (bytes, fds') ∧
        (wireCodec fuel).unmarshal sg bytes true (some lall) = .ok (.list (Code.plainList items)) := by
    intro sg hsg _
    rw [hsigattr] at hsg
    simp only [PyVal.str.injEq, true_and] at hsg
    subst hsg
    refine ⟨bs, none, ?_, ?_⟩
    · simp only [wireCodec, hmbody, Option.getD_some, hoob, hm]
    · simp only [wireCodec, hu]
  obtain ⟨m', p1, p2, p3, p4, p5, p6, p7, p8, p9, p10, _⟩ :=
    Main.parse_marshal T hT (wireCodec fuel) na maxLen st st' c m hs hnonul h (some lall)
      (.list (Code.plainList items)) hC
  have htr : truthy (m.attrs .signature) = true := by
    rw [hsigattr]
    cases hr : renderAll ts with
    | nil => exact absurd hr hne
    | cons ch cs => simp [truthy]
  rw [htr, if_pos rfl] at p7
  have hraw : m.rawBody = bs := by
    rcases hb.bodyCase with ⟨ht, _, _⟩ | ⟨sg', fds', hs1, _, hs3, _⟩
    · rw [← hb.attrs .signature (by decide), htr] at ht; cases ht
    · rw [← hb.attrs .signature (by decide), hsigattr] at hs1
      simp only [PyVal.str.injEq, true_and] at hs1
      subst hs1
      rw [hpb, hbody, hoob] at hs3
      simp only [wireCodec, Option.getD_some, hm, Except.ok.injEq, Prod.mk.injEq] at hs3
      exact hs3.1.symm
  exact ⟨m', p1, p2, p3, p4, p5, p6, p7, by rw [p10, hraw], hraw⟩

/-- `parse_foreign` with txdbus's own codec model and C02's decoder theorem in place of the codec hypothesis: the body
of the foreign message is the specification encoding, in the message's byte order, of values `vs` of WF types `ts`,
and the SIGNATURE field says `ts`.  The parsed body is the decoding `values` of `vs` (`Code.fromSpecFields`). -/
theorem parse_foreign_wire (T : Tables) (hT : T.OK) (w : SpecMsg) (hw : w.valid = true)
    (cls : MsgClass) (hcls : w.mtype = T.messageType cls)
    (known extra : List Field) (hperm : w.fields.Perm (known ++ extra))
    (hextra : ∀ f ∈ extra, lookupAttr T f.1 = none)
    (hknown : (known.map (fun f => lookupAttr T f.1)).Nodup)
    (fds : Option (List PyVal)) (hfd : ∀ f ∈ w.fields, f.2.ty = .h → fds ≠ none)
    (ts : List Ty) (vs : List Val) (values : List PyVal) (fuel : Nat)
    (hsigf : Main.fieldFor T known .signature = some (.text .g (renderAll ts))) (hne : renderAll ts ≠ [])
    (hts : allWF ts = true)
    (henc : Spec.encodeAll Code.genAlign w.endian ts vs 0 = some w.body)
    (hval : Code.fromSpecFields fds vs ts = some values) (hfuel : depthAll vs ≤ fuel) :
    ∃ m' : Msg PyVal, parseMessage T (wireCodec fuel) (Spec.encodeMsg w) fds = .ok m' ∧
      m'.cls = cls ∧ m'.serial = w.serial ∧
      m'.expectReply = decide (w.flags % 2 = 0) ∧ m'.autoStart = decide (w.flags / 2 % 2 = 0) ∧
      (∀ a, m'.attrs a = match Main.fieldFor T known a with
                         | some hv => pyOf fds hv
                         | none => .none) ∧
      m'.body = some (.list values) ∧ m'.rawBody = w.body := by
  have hend : Txdbus.endianOf (decide (w.endian = .little)) = w.endian := by
    cases w.endian <;> rfl
  have hu := Code.unmarshal_eq_spec Code.genAlign Code.padOK_gen Code.genAlign_pos (decide (w.endian = .little)) fds ts vs 0
    w.body [] [] values fuel hts (by rw [hend]; exact henc) rfl hval hfuel
  simp only [List.nil_append, List.append_nil] at hu
  have hC : ∀ sg, Main.fieldFor T known .signature = some (.text .g sg) → sg ≠ [] →
      (wireCodec fuel).unmarshal sg w.body (decide (w.endian = .little)) fds = .ok (.list values) := by
    intro sg hsg _
    rw [hsigf] at hsg
    simp only [Option.some.injEq, HVal.text.injEq, true_and] at hsg
    subst hsg
    simp only [wireCodec, hu]
  obtain ⟨m', p1, p2, p3, p4, p5, p6, p7, p8, _⟩ :=
    Main.parse_foreign T hT (wireCodec fuel) w hw cls hcls known extra hperm hextra hknown fds hfd (.list values) hC
  refine ⟨m', p1, p2, p3, p4, p5, p6, ?_, p8⟩
  rw [p7, hsigf]
  cases hr : renderAll ts with
  | nil => exact absurd hr hne
  | cons ch cs => rfl

end Txdbus.Msg
