import TxdbusModel.Proofs.Msg.Main
import TxdbusModel.Properties.C01
/-
C03 composed with C01: the message model instantiated with the code model of txdbus's own wire codec
(Wire/Code.lean) as the body codec, and `C01_roundtrip` discharging the codec hypothesis of `parse_marshal`.
-/
namespace Txdbus.Msg

/-- The body codec of txdbus itself: the code model of `marshal.marshal` / `marshal.unmarshal` (Wire/Code.lean,
C01/C02) with step budget `fuel`; a body is the Python `variableList`, a decoded body the list of values. -/
def wireCodec (fuel : Nat) : BodyCodec PyVal where
  marshal := fun sg body fds =>
    match Code.marshal fuel sg (body.getD .none) 0 true fds with
    | .ok (_, bs, fds') => .ok (bs, fds')
    | .error e => .error e
  unmarshal := fun sg raw le fds =>
    match Code.unmarshal fuel sg raw 0 le fds with
    | .ok (_, vals) => .ok (.list vals)
    | .error e => .error e

theorem render_noNul (ts : List Ty) : (renderAll ts).contains nul = false := by
  have h := renderAll_ascii ts
  cases hc : (renderAll ts).contains nul with
  | false => rfl
  | true =>
    rw [List.contains_iff_mem] at hc
    have := h nul hc
    revert this
    unfold sigCharOk
    decide


/-- `parse_marshal` with the body codec of txdbus itself and C01's theorem in place of the hypothesis on the
codec: a method call with `oobFDs=[]` whose signature is the rendering of WF types `ts` and whose body conforms
to it (C01's premises) parses back with the normalised body `Code.plainList items`. -/
theorem parse_marshal_wire (T : Tables) (hT : T.OK) (na : Char → Bool) (maxLen : Nat) (st st' : St)
    (a : CallArgs PyVal) (m : Msg PyVal) (hs : 1 ≤ st.nextSerial)
    (ts : List Ty) (pv : PyVal) (items : List PyVal) (vs : List Val) (fdl : List PyVal) (bs : Bytes) (fuel : Nat)
    (hsig : a.signature = some (renderAll ts)) (hne : renderAll ts ≠ []) (hbody : a.body = some pv)
    (hoob : a.oobFDs = some [])
    (hts : allWF ts = true) (hitems : Code.topItems pv = .ok items)
    (hrep : Code.RepFields fdl vs true ts items 0 fdl.length) (hkeys : Code.KeysOKList items)
    (henc : Spec.encodeAll Code.genAlign (endianOf true) ts vs 0 = some bs) (hfuel : depthAll vs ≤ fuel)
    (h : construct T (wireCodec fuel) na maxLen st (.methodCall a) = (st', .ok m)) :
    ∃ m' : Msg PyVal, parseMessage T (wireCodec fuel) m.raw (some fdl) = .ok m' ∧
      m'.cls = m.cls ∧ m'.serial = m.serial ∧ m'.expectReply = m.expectReply ∧ m'.autoStart = m.autoStart ∧
      (∀ x, m'.attrs x = plain (m.attrs x)) ∧
      m'.body = some (.list (Code.plainList items)) ∧ m'.rawBody = bs ∧ m.rawBody = bs := by
  obtain ⟨hm, hu⟩ := C01_roundtrip true ts pv items vs fdl 0 bs [] [] fuel hts hitems hrep hkeys henc rfl hfuel
  simp only [List.nil_append, List.append_nil] at hu
  have hnonul : Main.SigNoNul (Call.methodCall a) := by
    intro sg hsg
    simp only [Call.signature, hsig, Option.some.injEq] at hsg
    subst hsg
    exact render_noNul ts
  obtain ⟨sm, hb⟩ := construct_ok T hT (wireCodec fuel) na maxLen st st' (.methodCall a) m h
  have hsigattr : m.attrs .signature = .str .plain (renderAll ts) := by
    rw [hb.attrs .signature (by decide), Main.pre_signature]
    simp [Call.signature, hsig, strAttr]
  have hmbody : m.body = some pv := by rw [hb.body]; simp [Call.pre, hbody]
  have hC : ∀ sg, m.attrs .signature = .str .plain sg → sg ≠ [] →
      ∃ bytes, (wireCodec fuel).marshal sg m.body (Call.methodCall a).oob = .ok (bytes, some fdl) ∧
        (wireCodec fuel).unmarshal sg bytes true (some fdl) = .ok (.list (Code.plainList items)) := by
    intro sg hsg _
    rw [hsigattr] at hsg
    simp only [PyVal.str.injEq, true_and] at hsg
    subst hsg
    refine ⟨bs, ?_, ?_⟩
    · simp only [wireCodec, hmbody, Option.getD_some, Call.oob, hoob, hm]
    · simp only [wireCodec, hu]
  obtain ⟨m', p1, p2, p3, p4, p5, p6, p7, p8, p9, p10⟩ :=
    Main.parse_marshal T hT (wireCodec fuel) na maxLen st st' (.methodCall a) m hs hnonul h (some fdl)
      (.list (Code.plainList items)) hC
  have htr : truthy (m.attrs .signature) = true := by
    rw [hsigattr]
    cases hr : renderAll ts with
    | nil => exact absurd hr hne
    | cons c cs => simp [truthy]
  rw [htr, if_pos rfl] at p7
  -- the body bytes
  have hraw : m.rawBody = bs := by
    rcases hb.bodyCase with ⟨ht, _, _⟩ | ⟨sg', fds', hs1, _, hs3, _⟩
    · rw [← hb.attrs .signature (by decide), htr] at ht; cases ht
    · rw [← hb.attrs .signature (by decide), hsigattr] at hs1
      simp only [PyVal.str.injEq, true_and] at hs1
      subst hs1
      simp only [wireCodec, Call.pre, hbody, Option.getD_some, Call.oob, hoob, hm, Except.ok.injEq, Prod.mk.injEq] at hs3
      exact hs3.1.symm
  exact ⟨m', p1, p2, p3, p4, p5, p6, p7, by rw [p10, hraw], hraw⟩

end Txdbus.Msg

