import TxdbusModel.Proofs.Msg.Main
import TxdbusModel.Msg.WireCodec
import TxdbusModel.Proofs.Wire.TopLevel
import TxdbusModel.Proofs.Wire.Normal
import TxdbusModel.Proofs.Wire.ConfTop
import TxdbusModel.Proofs.Msg.BodyShift
/-
C03 composed with C01: the message model instantiated with the code model of txdbus's own wire codec
(Wire/Code.lean) as the body codec, and the lemmas behind `C01_roundtrip` / `C02_decode` (Proofs/Wire/TopLevel.lean,
Normal.lean: `Code.marshal_eq_spec`, `Code.unmarshal_eq_spec`, `Code.fromSpecFields_of_rep`) discharging the codec
hypotheses of `parse_marshal` and `parse_foreign`.
-/
namespace Txdbus.Msg

theorem render_noNul (ts : List Ty) : (renderAll ts).contains nul = false := by
  have h := renderAll_ascii ts
  cases hc : (renderAll ts).contains nul with
  | false => rfl
  | true =>
    rw [List.contains_iff_mem] at hc
    have := h nul hc
    revert this
    unfold sigCharOk
    decide


/-- `parse_marshal` with the body codec of txdbus itself and C01's theorem in place of the hypothesis on the
codec: a method call with `oobFDs=[]` whose signature is the rendering of WF types `ts` and whose body conforms
to it (C01's premises) parses back with the normalised body `Code.plainList items`. -/
theorem parse_marshal_wire (T : Tables) (hT : T.OK) (na : Char → Bool) (maxLen : Nat) (st st' : St)
    (a : CallArgs PyVal) (m : Msg PyVal) (hs : 1 ≤ st.nextSerial)
    (ts : List Ty) (pv : PyVal) (items : List PyVal) (vs : List Val) (fdl : List PyVal) (bs : Bytes) (fuel : Nat)
    (hsig : a.signature = some (renderAll ts)) (hne : renderAll ts ≠ []) (hbody : a.body = some pv)
    (hoob : a.oobFDs = some [])
    (hts : allWF ts = true) (hitems : Code.topItems pv = .ok items)
    (hrep : Code.RepFields fdl vs true ts items 0 fdl.length) (hkeys : Code.KeysOKList items)
    (henc : Spec.encodeAll Code.genAlign (endianOf true) ts vs 0 = some bs) (hfuel : depthAll vs ≤ fuel)
    (h : construct T (wireCodec fuel) na maxLen st (.methodCall a) = (st', .ok m)) :
    ∃ m' : Msg PyVal, parseMessage T (wireCodec fuel) m.raw (some fdl) = .ok m' ∧
      m'.cls = m.cls ∧ m'.serial = m.serial ∧ m'.expectReply = m.expectReply ∧ m'.autoStart = m.autoStart ∧
      (∀ x, m'.attrs x = plain (m.attrs x)) ∧
      m'.body = some (.list (Code.plainList items)) ∧ m'.rawBody = bs ∧ m.rawBody = bs := by
  -- the two halves of `C01_roundtrip` (Properties/C01.lean), taken from the lemma files it is assembled from
  have hm : Code.marshal fuel (renderAll ts) pv 0 true (some []) = .ok (bs.length, bs, some fdl) := by
    have h := Code.marshal_eq_spec Code.genAlign Code.padOK_gen Code.genAlign_pos true ts pv items vs fdl fdl.length
      0 bs fuel hitems hrep henc hfuel
    simpa using h
  have hu := Code.unmarshal_eq_spec Code.genAlign Code.padOK_gen Code.genAlign_pos true (some fdl) ts vs 0 bs [] []
    (Code.plainList items) fuel hts henc rfl (Code.fromSpecFields_of_rep fdl vs true ts items 0 fdl.length hrep hkeys) hfuel
  simp only [List.nil_append, List.append_nil] at hu
  have hnonul : Main.SigNoNul (Call.methodCall a) := by
    intro sg hsg
    simp only [Call.signature, hsig, Option.some.injEq] at hsg
    subst hsg
    exact render_noNul ts
  obtain ⟨sm, hb⟩ := construct_ok T hT (wireCodec fuel) na maxLen st st' (.methodCall a) m h
  have hsigattr : m.attrs .signature = .str .plain (renderAll ts) := by
    rw [hb.attrs .signature (by decide), Main.pre_signature]
    simp [Call.signature, hsig, strAttr]
  have hmbody : m.body = some pv := by rw [hb.body]; simp [Call.pre, hbody]
  have hC : ∀ sg, m.attrs .signature = .str .plain sg → sg ≠ [] →
      ∃ bytes fds', (wireCodec fuel).marshal sg m.body (Call.methodCall a).oob = .ok (bytes, fds') ∧
        (wireCodec fuel).unmarshal sg bytes true (some fdl) = .ok (.list (Code.plainList items)) := by
    intro sg hsg _
    rw [hsigattr] at hsg
    simp only [PyVal.str.injEq, true_and] at hsg
    subst hsg
    refine ⟨bs, some fdl, ?_, ?_⟩
    · simp only [wireCodec, hmbody, Option.getD_some, Call.oob, hoob, hm]
    · simp only [wireCodec, hu]
  obtain ⟨m', p1, p2, p3, p4, p5, p6, p7, p8, p9, p10, _⟩ :=
    Main.parse_marshal T hT (wireCodec fuel) na maxLen st st' (.methodCall a) m hs hnonul h (some fdl)
      (.list (Code.plainList items)) hC
  have htr : truthy (m.attrs .signature) = true := by
    rw [hsigattr]
    cases hr : renderAll ts with
    | nil => exact absurd hr hne
    | cons c cs => simp [truthy]
  rw [htr, if_pos rfl] at p7
  -- the body bytes
  have hraw : m.rawBody = bs := by
    rcases hb.bodyCase with ⟨ht, _, _⟩ | ⟨sg', fds', hs1, _, hs3, _⟩
    · rw [← hb.attrs .signature (by decide), htr] at ht; cases ht
    · rw [← hb.attrs .signature (by decide), hsigattr] at hs1
      simp only [PyVal.str.injEq, true_and] at hs1
      subst hs1
      simp only [wireCodec, Call.pre, hbody, Option.getD_some, Call.oob, hoob, hm, Except.ok.injEq, Prod.mk.injEq] at hs3
      exact hs3.1.symm
  exact ⟨m', p1, p2, p3, p4, p5, p6, p7, by rw [p10, hraw], hraw⟩


/-- C01's marshalling theorem for `oobFDs=None` (what `MethodReturnMessage`, `ErrorMessage`, `SignalMessage` and a
default `MethodCallMessage` pass): a body without descriptors (`RepFields … false …`) encodes to the specification
bytes and the descriptor argument stays None.  Same proof as `Code.marshal_eq_spec`, with `fd = false`. -/
theorem marshal_eq_spec_none (le : Bool) (ts : List Ty) (pv : PyVal) (items : List PyVal) (vs : List Val)
    (lall : List PyVal) (k k' off : Nat) (bs : Bytes) (fuel : Nat)
    (hitems : Code.topItems pv = .ok items) (hrep : Code.RepFields lall vs false ts items k k')
    (henc : Spec.encodeAll Code.genAlign (Txdbus.endianOf le) ts vs off = some bs) (hfuel : depthAll vs ≤ fuel) :
    Code.marshal fuel (renderAll ts) pv off le none = .ok (bs.length, bs, none) := by
  unfold Code.marshal Code.marshalTop
  unfold Spec.encodeAll at henc
  have h := Code.marshalSeq_spec Code.genAlign Code.padOK_gen Code.genAlign_pos lall le vs false ts items k k' off bs fuel
    hrep henc hfuel
  simp only [Code.fdsArg, Bool.false_eq_true, if_false] at h
  simp only [hitems, lazyPieces_renderAll, h]
  simp

/-- `parse_marshal` for ANY of the four constructors called without a descriptor list (`oobFDs=None`), with txdbus's
own codec model and C01's theorems in place of the codec hypothesis: signature = rendering of WF types `ts`, body
conforming to it without descriptors.  `parseMessage(m.rawMessage, lall)` - whatever list `lall` of received
descriptors the protocol hands over - returns the message with the normalised body. -/
theorem parse_marshal_wire_none (T : Tables) (hT : T.OK) (na : Char → Bool) (maxLen : Nat) (st st' : St)
    (c : Call PyVal) (m : Msg PyVal) (hs : 1 ≤ st.nextSerial)
    (ts : List Ty) (pv : PyVal) (items : List PyVal) (vs : List Val) (lall : List PyVal) (bs : Bytes) (fuel : Nat)
    (hsig : c.signature = some (renderAll ts)) (hne : renderAll ts ≠ []) (hbody : c.body = some pv)
    (hoob : c.oob = none)
    (hts : allWF ts = true) (hitems : Code.topItems pv = .ok items)
    (hrep : Code.RepFields lall vs false ts items 0 0) (hkeys : Code.KeysOKList items)
    (henc : Spec.encodeAll Code.genAlign (Txdbus.endianOf true) ts vs 0 = some bs) (hfuel : depthAll vs ≤ fuel)
    (h : construct T (wireCodec fuel) na maxLen st c = (st', .ok m)) :
    ∃ m' : Msg PyVal, parseMessage T (wireCodec fuel) m.raw (some lall) = .ok m' ∧
      m'.cls = m.cls ∧ m'.serial = m.serial ∧ m'.expectReply = m.expectReply ∧ m'.autoStart = m.autoStart ∧
      (∀ x, m'.attrs x = plain (m.attrs x)) ∧
      m'.body = some (.list (Code.plainList items)) ∧ m'.rawBody = bs ∧ m.rawBody = bs := by
  have hm := marshal_eq_spec_none true ts pv items vs lall 0 0 0 bs fuel hitems hrep henc hfuel
  have hu := Code.unmarshal_eq_spec Code.genAlign Code.padOK_gen Code.genAlign_pos true (some lall) ts vs 0 bs [] []
    (Code.plainList items) fuel hts henc rfl (Code.fromSpecFields_of_rep lall vs false ts items 0 0 hrep hkeys) hfuel
  simp only [List.nil_append, List.append_nil] at hu
  have hnonul : Main.SigNoNul c := by
    intro sg hsg
    rw [hsig] at hsg
    simp only [Option.some.injEq] at hsg
    subst hsg
    exact render_noNul ts
  obtain ⟨sm, hb⟩ := construct_ok T hT (wireCodec fuel) na maxLen st st' c m h
  have hsigattr : m.attrs .signature = .str .plain (renderAll ts) := by
    rw [hb.attrs .signature (by decide), Main.pre_signature, hsig]; rfl
  have hpb : c.pre.body = c.body := by cases c <;> rfl
  have hmbody : m.body = some pv := by rw [hb.body, hpb, hbody]
  have hC : ∀ sg, m.attrs .signature = .str .plain sg → sg ≠ [] →
      ∃ bytes fds', (wireCodec fuel).marshal sg m.body c.oob = .ok (bytes, fds') ∧
        (wireCodec fuel).unmarshal sg bytes true (some lall) = .ok (.list (Code.plainList items)) := by
    intro sg hsg _
    rw [hsigattr] at hsg
    simp only [PyVal.str.injEq, true_and] at hsg
    subst hsg
    refine ⟨bs, none, ?_, ?_⟩
    · simp only [wireCodec, hmbody, Option.getD_some, hoob, hm]
    · simp only [wireCodec, hu]
  obtain ⟨m', p1, p2, p3, p4, p5, p6, p7, p8, p9, p10, _⟩ :=
    Main.parse_marshal T hT (wireCodec fuel) na maxLen st st' c m hs hnonul h (some lall)
      (.list (Code.plainList items)) hC
  have htr : truthy (m.attrs .signature) = true := by
    rw [hsigattr]
    cases hr : renderAll ts with
    | nil => exact absurd hr hne
    | cons ch cs => simp [truthy]
  rw [htr, if_pos rfl] at p7
  have hraw : m.rawBody = bs := by
    rcases hb.bodyCase with ⟨ht, _, _⟩ | ⟨sg', fds', hs1, _, hs3, _⟩
    · rw [← hb.attrs .signature (by decide), htr] at ht; cases ht
    · rw [← hb.attrs .signature (by decide), hsigattr] at hs1
      simp only [PyVal.str.injEq, true_and] at hs1
      subst hs1
      rw [hpb, hbody, hoob] at hs3
      simp only [wireCodec, Option.getD_some, hm, Except.ok.injEq, Prod.mk.injEq] at hs3
      exact hs3.1.symm
  exact ⟨m', p1, p2, p3, p4, p5, p6, p7, by rw [p10, hraw], hraw⟩

/-- `parse_foreign` with txdbus's own codec model and C02's decoder theorem in place of the codec hypothesis: the body
of the foreign message is the specification encoding, in the message's byte order, of values `vs` of WF types `ts`,
and the SIGNATURE field says `ts`.  The parsed body is the decoding `values` of `vs` (`Code.fromSpecFields`). -/
theorem parse_foreign_wire (T : Tables) (hT : T.OK) (w : SpecMsg) (hw : w.valid = true)
    (cls : MsgClass) (hcls : w.mtype = T.messageType cls)
    (known extra : List Field) (hperm : w.fields.Perm (known ++ extra))
    (hextra : ∀ f ∈ extra, lookupAttr T f.1 = none)
    (hknown : (known.map (fun f => lookupAttr T f.1)).Nodup)
    (fds : Option (List PyVal)) (hfd : ∀ f ∈ w.fields, f.2.ty = .h → fds ≠ none)
    (ts : List Ty) (vs : List Val) (values : List PyVal) (fuel : Nat)
    (hsigf : Main.fieldFor T known .signature = some (.text .g (renderAll ts))) (hne : renderAll ts ≠ [])
    (hts : allWF ts = true)
    (henc : Spec.encodeAll Code.genAlign w.endian ts vs 0 = some w.body)
    (hval : Code.fromSpecFields fds vs ts = some values) (hfuel : depthAll vs ≤ fuel) :
    ∃ m' : Msg PyVal, parseMessage T (wireCodec fuel) (Spec.encodeMsg w) fds = .ok m' ∧
      m'.cls = cls ∧ m'.serial = w.serial ∧
      m'.expectReply = decide (w.flags % 2 = 0) ∧ m'.autoStart = decide (w.flags / 2 % 2 = 0) ∧
      (∀ a, m'.attrs a = match Main.fieldFor T known a with
                         | some hv => pyOf fds hv
                         | none => .none) ∧
      m'.body = some (.list values) ∧ m'.rawBody = w.body := by
  have hend : Txdbus.endianOf (decide (w.endian = .little)) = w.endian := by
    cases w.endian <;> rfl
  have hu := Code.unmarshal_eq_spec Code.genAlign Code.padOK_gen Code.genAlign_pos (decide (w.endian = .little)) fds ts vs 0
    w.body [] [] values fuel hts (by rw [hend]; exact henc) rfl hval hfuel
  simp only [List.nil_append, List.append_nil] at hu
  have hC : ∀ sg, Main.fieldFor T known .signature = some (.text .g sg) → sg ≠ [] →
      (wireCodec fuel).unmarshal sg w.body (decide (w.endian = .little)) fds = .ok (.list values) := by
    intro sg hsg _
    rw [hsigf] at hsg
    simp only [Option.some.injEq, HVal.text.injEq, true_and] at hsg
    subst hsg
    simp only [wireCodec, hu]
  obtain ⟨m', p1, p2, p3, p4, p5, p6, p7, p8, _⟩ :=
    Main.parse_foreign T hT (wireCodec fuel) w hw cls hcls known extra hperm hextra hknown fds hfd (.list values) hC
  refine ⟨m', p1, p2, p3, p4, p5, p6, ?_, p8⟩
  rw [p7, hsigf]
  cases hr : renderAll ts with
  | nil => exact absurd hr hne
  | cons ch cs => rfl


/-! ## The composition in one piece: `hC` discharged for `wireCodec`, every constructor, with or without a descriptor list -/

/-- The codec hypothesis `hC` of `parse_marshal`, for `wireCodec`, from the two facts C01 proves about a body in its
domain: what `marshal` returns for it, and that `unmarshal` of those bytes returns `values`. -/
theorem wireCodec_hC (fuel : Nat) (sg : List Char) (pv : PyVal) (oob fdsOut fdsArg : Option (List PyVal))
    (bs : Bytes) (values : List PyVal)
    (hm : Code.marshal fuel sg pv 0 true oob = .ok (bs.length, bs, fdsOut))
    (hu : Code.unmarshal fuel sg bs 0 true fdsArg = .ok (bs.length, values)) :
    (wireCodec fuel).marshal sg (some pv) oob = .ok (bs, fdsOut) ∧
      (wireCodec fuel).unmarshal sg bs true fdsArg = .ok (.list values) := by
  simp only [wireCodec, Option.getD_some, hm, hu, and_self]

/-- `parse_marshal` for `wireCodec`, given C01's two facts about the body (`hm`, `hu`): no hypothesis about the codec is
left.  The three theorems below supply `hm` / `hu` from C01's theorems. -/
theorem parse_marshal_wire_core (T : Tables) (hT : T.OK) (na : Char → Bool) (maxLen : Nat) (st st' : St)
    (c : Call PyVal) (m : Msg PyVal) (hs : 1 ≤ st.nextSerial)
    (sg : List Char) (pv : PyVal) (bs : Bytes) (fdsOut fdsArg : Option (List PyVal)) (values : List PyVal) (fuel : Nat)
    (hsig : c.signature = some sg) (hne : sg ≠ []) (hnul : sg.contains nul = false) (hbody : c.body = some pv)
    (hm : Code.marshal fuel sg pv 0 true c.oob = .ok (bs.length, bs, fdsOut))
    (hu : Code.unmarshal fuel sg bs 0 true fdsArg = .ok (bs.length, values))
    (h : construct T (wireCodec fuel) na maxLen st c = (st', .ok m)) :
    ∃ m' : Msg PyVal, parseMessage T (wireCodec fuel) m.raw fdsArg = .ok m' ∧
      m'.cls = m.cls ∧ m'.serial = m.serial ∧ m'.expectReply = m.expectReply ∧ m'.autoStart = m.autoStart ∧
      (∀ x, m'.attrs x = plain (m.attrs x)) ∧
      m'.body = some (.list values) ∧ m'.rawBody = bs ∧ m.rawBody = bs ∧ m.body = some pv ∧
      m'.rawHeader = m.rawHeader ∧ m'.rawPadding = m.rawPadding ∧ m'.otherFlags = 0 ∧ m.otherFlags = 0 := by
  obtain ⟨hcm, hcu⟩ := wireCodec_hC fuel sg pv c.oob fdsOut fdsArg bs values hm hu
  have hnonul : Main.SigNoNul c := by
    intro sg' hsg'
    rw [hsig] at hsg'
    simp only [Option.some.injEq] at hsg'
    subst hsg'
    exact hnul
  obtain ⟨sm, hb⟩ := construct_ok T hT (wireCodec fuel) na maxLen st st' c m h
  have hsigattr : m.attrs .signature = .str .plain sg := by
    rw [hb.attrs .signature (by decide), Main.pre_signature, hsig]; rfl
  have hpb : c.pre.body = c.body := by cases c <;> rfl
  have hmbody : m.body = some pv := by rw [hb.body, hpb, hbody]
  have hC : ∀ sg', m.attrs .signature = .str .plain sg' → sg' ≠ [] →
      ∃ bytes fds', (wireCodec fuel).marshal sg' m.body c.oob = .ok (bytes, fds') ∧
        (wireCodec fuel).unmarshal sg' bytes true fdsArg = .ok (.list values) := by
    intro sg' hsg' _
    rw [hsigattr] at hsg'
    simp only [PyVal.str.injEq, true_and] at hsg'
    subst hsg'
    exact ⟨bs, fdsOut, by rw [hmbody]; exact hcm, hcu⟩
  obtain ⟨m', p1, p2, p3, p4, p5, p6, p7, p8, p9, p10, p11, p12⟩ :=
    Main.parse_marshal T hT (wireCodec fuel) na maxLen st st' c m hs hnonul h fdsArg (.list values) hC
  have htr : truthy (m.attrs .signature) = true := by
    rw [hsigattr]
    cases sg with
    | nil => exact absurd rfl hne
    | cons ch cs => simp [truthy]
  rw [htr, if_pos rfl] at p7
  have hraw : m.rawBody = bs := by
    rcases hb.bodyCase with ⟨ht, _, _⟩ | ⟨sg', fds', hs1, _, hs3, _⟩
    · rw [← hb.attrs .signature (by decide), htr] at ht; cases ht
    · rw [← hb.attrs .signature (by decide), hsigattr] at hs1
      simp only [PyVal.str.injEq, true_and] at hs1
      subst hs1
      rw [hpb, hbody, hcm] at hs3
      simp only [Except.ok.injEq, Prod.mk.injEq] at hs3
      exact hs3.1.symm
  exact ⟨m', p1, p2, p3, p4, p5, p6, p7, by rw [p10, hraw], hraw, hmbody, p8, p9, p11, p12⟩

/-- **C03 ∘ C01.**  Any of the four constructors, called without a descriptor list (`oobFDs=None`) or with an empty one
(`oobFDs=[]`, method calls), with a non-empty signature `renderAll ts` and a body in C01's domain: `ts` without empty
structs, the `variableList` `pv` with items `items` conforming to `ts` and denoting the spec values `vs` (`Code.RepFields`;
with `oobFDs=None` the relation is taken with `fd = false`: no descriptors), dict keys hashable and distinct, the values
within the wire limits (`Spec.encodeAll … = some bs`).  Then `parseMessage(m.rawMessage, fdl)` returns the same class,
serial, flags, header attributes and the body `Code.plainList items` (C01's normal form of the values). -/
theorem parse_marshal_c01_gen (T : Tables) (hT : T.OK) (na : Char → Bool) (maxLen : Nat) (st st' : St)
    (c : Call PyVal) (m : Msg PyVal) (hs : 1 ≤ st.nextSerial)
    (ts : List Ty) (pv : PyVal) (items : List PyVal) (vs : List Val) (fdl : List PyVal) (bs : Bytes) (fuel : Nat)
    (hsig : c.signature = some (renderAll ts)) (hne : renderAll ts ≠ []) (hbody : c.body = some pv)
    (hoob : c.oob = none ∨ c.oob = some [])
    (hts : allWF ts = true) (hitems : Code.topItems pv = .ok items)
    (hrep : Code.RepFields fdl vs c.oob.isSome ts items 0 (if c.oob.isSome then fdl.length else 0))
    (hkeys : Code.KeysOKList items)
    (henc : Spec.encodeAll Code.genAlign (Txdbus.endianOf true) ts vs 0 = some bs) (hfuel : depthAll vs ≤ fuel)
    (h : construct T (wireCodec fuel) na maxLen st c = (st', .ok m)) :
    ∃ m' : Msg PyVal, parseMessage T (wireCodec fuel) m.raw (some fdl) = .ok m' ∧
      m'.cls = m.cls ∧ m'.serial = m.serial ∧ m'.expectReply = m.expectReply ∧ m'.autoStart = m.autoStart ∧
      (∀ x, m'.attrs x = plain (m.attrs x)) ∧
      m'.body = some (.list (Code.plainList items)) ∧ m'.rawBody = bs ∧ m.rawBody = bs ∧ m.body = some pv ∧
      m'.rawHeader = m.rawHeader ∧ m'.rawPadding = m.rawPadding ∧ m'.otherFlags = 0 ∧ m.otherFlags = 0 := by
  rcases hoob with ho | ho
  · rw [ho] at hrep
    simp only [Option.isSome_none, Bool.false_eq_true, if_false] at hrep
    have hm := marshal_eq_spec_none true ts pv items vs fdl 0 0 0 bs fuel hitems hrep henc hfuel
    have hu := Code.unmarshal_eq_spec Code.genAlign Code.padOK_gen Code.genAlign_pos true (some fdl) ts vs 0 bs [] []
      (Code.plainList items) fuel hts henc rfl (Code.fromSpecFields_of_rep fdl vs false ts items 0 0 hrep hkeys) hfuel
    simp only [List.nil_append, List.append_nil] at hu
    exact parse_marshal_wire_core T hT na maxLen st st' c m hs (renderAll ts) pv bs none (some fdl)
      (Code.plainList items) fuel hsig hne (render_noNul ts) hbody (by rw [ho]; exact hm) hu h
  · rw [ho] at hrep
    simp only [Option.isSome_some, if_true] at hrep
    have hm : Code.marshal fuel (renderAll ts) pv 0 true (some []) = .ok (bs.length, bs, some fdl) := by
      have h' := Code.marshal_eq_spec Code.genAlign Code.padOK_gen Code.genAlign_pos true ts pv items vs fdl fdl.length
        0 bs fuel hitems hrep henc hfuel
      simpa using h'
    have hu := Code.unmarshal_eq_spec Code.genAlign Code.padOK_gen Code.genAlign_pos true (some fdl) ts vs 0 bs [] []
      (Code.plainList items) fuel hts henc rfl (Code.fromSpecFields_of_rep fdl vs true ts items 0 fdl.length hrep hkeys) hfuel
    simp only [List.nil_append, List.append_nil] at hu
    exact parse_marshal_wire_core T hT na maxLen st st' c m hs (renderAll ts) pv bs (some fdl) (some fdl)
      (Code.plainList items) fuel hsig hne (render_noNul ts) hbody (by rw [ho]; exact hm) hu h

/-- The same with C01's EXECUTABLE hypotheses (`C01_roundtrip_checked`: `Code.toSpecTop` computes the spec values and
the descriptors of the body, `Code.keysOKCheck` checks the dict keys - what C01's harness certifies for every generated
case), for a call with `oobFDs=[]`.  The decoded body is `Code.plainBList items` (a `Boolean` wrapper decodes to its bool). -/
theorem parse_marshal_c01_checked_gen (T : Tables) (hT : T.OK) (na : Char → Bool) (maxLen : Nat) (st st' : St)
    (c : Call PyVal) (m : Msg PyVal) (hs : 1 ≤ st.nextSerial)
    (n : Nat) (ts : List Ty) (pv : PyVal) (vs : List Val) (fdl : List PyVal) (bs : Bytes) (fuel : Nat)
    (hsig : c.signature = some (renderAll ts)) (hne : renderAll ts ≠ []) (hbody : c.body = some pv)
    (hoob : c.oob = some [])
    (hts : allWF ts = true) (hchk : Code.toSpecTop n ts pv = some (vs, fdl)) (hkeys : Code.keysOKCheck pv = true)
    (henc : Spec.encodeAll Code.genAlign (Txdbus.endianOf true) ts vs 0 = some bs) (hfuel : depthAll vs ≤ fuel)
    (h : construct T (wireCodec fuel) na maxLen st c = (st', .ok m)) :
    ∃ items, Code.structFields pv = some items ∧
    ∃ m' : Msg PyVal, parseMessage T (wireCodec fuel) m.raw (some fdl) = .ok m' ∧
      m'.cls = m.cls ∧ m'.serial = m.serial ∧ m'.expectReply = m.expectReply ∧ m'.autoStart = m.autoStart ∧
      (∀ x, m'.attrs x = plain (m.attrs x)) ∧
      m'.body = some (.list (Code.plainBList items)) ∧ m'.rawBody = bs ∧ m.rawBody = bs ∧ m.body = some pv ∧
      m'.rawHeader = m.rawHeader ∧ m'.rawPadding = m.rawPadding ∧ m'.otherFlags = 0 ∧ m.otherFlags = 0 := by
  obtain ⟨items, hitems, hrep⟩ := Code.toSpecTop_sound n ts pv vs fdl hchk
  have hk := Code.keysOKB_fields pv items hitems (Code.keysOKCheck_sound pv hkeys)
  have hm : Code.marshal fuel (renderAll ts) pv 0 true (some []) = .ok (bs.length, bs, some fdl) := by
    have h' := Code.marshal_eq_spec_conf Code.genAlign Code.padOK_gen Code.genAlign_pos true ts pv items vs fdl
      fdl.length 0 bs fuel hitems hrep henc hfuel
    simpa using h'
  have hu := Code.unmarshal_eq_spec Code.genAlign Code.padOK_gen Code.genAlign_pos true (some fdl) ts vs 0 bs [] []
    (Code.plainBList items) fuel hts henc rfl (Code.fromSpecFields_of_conf fdl vs true ts items 0 fdl.length hrep hk) hfuel
  simp only [List.nil_append, List.append_nil] at hu
  exact ⟨items, hitems, parse_marshal_wire_core T hT na maxLen st st' c m hs (renderAll ts) pv bs (some fdl) (some fdl)
    (Code.plainBList items) fuel hsig hne (render_noNul ts) hbody (by rw [hoob]; exact hm) hu h⟩

/-- What `toSpecTopNoFd` answers is a witness of conformance without descriptors, whatever list is received later. -/
theorem toSpecTopNoFd_sound (n : Nat) (ts : List Ty) (pv : PyVal) (vs : List Val)
    (h : toSpecTopNoFd n ts pv = some vs) :
    ∃ items, Code.structFields pv = some items ∧ ∀ lall, Code.ConfFields lall vs false ts items 0 0 := by
  unfold toSpecTopNoFd at h
  split at h <;> try (simp at h; done)
  rename_i items hitems
  rw [Code.toSpecStructFields_eq] at hitems
  cases hf : Code.toSpecFields n false ts items [] with
  | none => rw [hf] at h; simp at h
  | some r =>
    obtain ⟨vs', fds'⟩ := r
    rw [hf] at h
    simp only [Option.map_some, Option.some.injEq] at h
    subst h
    have hnil := Code.toSpecFields_nofd n ts items [] vs' fds' hf
    subst hnil
    have hs := Code.toSpecFields_sound n false ts items [] vs' [] hf
    exact ⟨items, hitems, fun lall => by simpa using hs.2 lall (List.nil_prefix)⟩

/-- `Code.marshal_eq_spec_conf` for `oobFDs=None` (same proof with `fd = false`). -/
theorem marshal_eq_spec_conf_none (le : Bool) (ts : List Ty) (pv : PyVal) (items : List PyVal) (vs : List Val)
    (lall : List PyVal) (off : Nat) (bs : Bytes) (fuel : Nat)
    (hitems : Code.structFields pv = some items) (hrep : Code.ConfFields lall vs false ts items 0 0)
    (henc : Spec.encodeAll Code.genAlign (Txdbus.endianOf le) ts vs off = some bs) (hfuel : depthAll vs ≤ fuel) :
    Code.marshal fuel (renderAll ts) pv off le none = .ok (bs.length, bs, none) := by
  unfold Code.marshal Code.marshalTop
  unfold Spec.encodeAll at henc
  have h := Code.marshalSeq_conf Code.genAlign Code.padOK_gen Code.genAlign_pos lall le vs false ts items 0 0 off bs fuel
    hrep henc hfuel
  simp only [Code.fdsArg, Bool.false_eq_true, if_false] at h
  simp only [Code.topItems_of_fields pv items hitems, lazyPieces_renderAll, h]
  simp

/-- `parse_marshal_c01_checked_gen` for `oobFDs=None` - any of the four constructors: the executable premise is
`toSpecTopNoFd` (`Code.toSpecTop` read with `fd = false`); `fdl` is whatever descriptor list `parseMessage` is given. -/
theorem parse_marshal_c01_checked_none_gen (T : Tables) (hT : T.OK) (na : Char → Bool) (maxLen : Nat) (st st' : St)
    (c : Call PyVal) (m : Msg PyVal) (hs : 1 ≤ st.nextSerial)
    (n : Nat) (ts : List Ty) (pv : PyVal) (vs : List Val) (fdl : List PyVal) (bs : Bytes) (fuel : Nat)
    (hsig : c.signature = some (renderAll ts)) (hne : renderAll ts ≠ []) (hbody : c.body = some pv)
    (hoob : c.oob = none)
    (hts : allWF ts = true) (hchk : toSpecTopNoFd n ts pv = some vs) (hkeys : Code.keysOKCheck pv = true)
    (henc : Spec.encodeAll Code.genAlign (Txdbus.endianOf true) ts vs 0 = some bs) (hfuel : depthAll vs ≤ fuel)
    (h : construct T (wireCodec fuel) na maxLen st c = (st', .ok m)) :
    ∃ items, Code.structFields pv = some items ∧
    ∃ m' : Msg PyVal, parseMessage T (wireCodec fuel) m.raw (some fdl) = .ok m' ∧
      m'.cls = m.cls ∧ m'.serial = m.serial ∧ m'.expectReply = m.expectReply ∧ m'.autoStart = m.autoStart ∧
      (∀ x, m'.attrs x = plain (m.attrs x)) ∧
      m'.body = some (.list (Code.plainBList items)) ∧ m'.rawBody = bs ∧ m.rawBody = bs ∧ m.body = some pv ∧
      m'.rawHeader = m.rawHeader ∧ m'.rawPadding = m.rawPadding ∧ m'.otherFlags = 0 ∧ m.otherFlags = 0 := by
  obtain ⟨items, hitems, hrep⟩ := toSpecTopNoFd_sound n ts pv vs hchk
  have hk := Code.keysOKB_fields pv items hitems (Code.keysOKCheck_sound pv hkeys)
  have hm := marshal_eq_spec_conf_none true ts pv items vs fdl 0 bs fuel hitems (hrep fdl) henc hfuel
  have hu := Code.unmarshal_eq_spec Code.genAlign Code.padOK_gen Code.genAlign_pos true (some fdl) ts vs 0 bs [] []
    (Code.plainBList items) fuel hts henc rfl (Code.fromSpecFields_of_conf fdl vs false ts items 0 0 (hrep fdl) hk) hfuel
  simp only [List.nil_append, List.append_nil] at hu
  exact ⟨items, hitems, parse_marshal_wire_core T hT na maxLen st st' c m hs (renderAll ts) pv bs none (some fdl)
    (Code.plainBList items) fuel hsig hne (render_noNul ts) hbody (by rw [hoob]; exact hm) hu h⟩

/-- **The body in its place** (review 2, 1.3).  The theorems above say `m.rawBody = bs` with `bs` the specification
encoding of the body AT OFFSET 0 (what `marshal.marshal(signature, body)` computes).  In the message the body starts
behind `rawHeader ++ rawPadding`, at a multiple of 8, and the specification counts alignment from the start of the
message: `bs` is also the encoding at that offset (`Spec.encodeAll_shift`: every alignment of `dbus_types` divides 8,
`Code.genAlign_dvd8`), and `rawMessage` is `rawHeader ++ rawPadding ++ bs`. -/
theorem body_in_place_gen {β : Type} (T : Tables) (hT : T.OK) (C : BodyCodec β) (na : Char → Bool) (maxLen : Nat)
    (hmax : maxLen ≤ Spec.maxMessage) (st st' : St) (c : Call β) (m : Msg β) (hs : 1 ≤ st.nextSerial)
    (hsig : Main.SigNoNul c) (h : construct T C na maxLen st c = (st', .ok m))
    (e : Endian) (ts : List Ty) (vs : List Val) (bs : Bytes)
    (henc : Spec.encodeAll Code.genAlign e ts vs 0 = some bs) (hraw : m.rawBody = bs) :
    m.raw = m.rawHeader ++ m.rawPadding ++ bs ∧ (m.rawHeader ++ m.rawPadding).length % 8 = 0 ∧
      Spec.encodeAll Code.genAlign e ts vs (m.rawHeader ++ m.rawPadding).length = some bs := by
  obtain ⟨sm, _, q2, q3, q4, _, q6, _⟩ := Main.marshal_wellformed T hT C na maxLen hmax st st' c m hs hsig h
  refine ⟨by rw [q2, q3, q4, hraw], q6, ?_⟩
  rw [Spec.encodeAll_shift Code.genAlign e Code.genAlign_dvd8 ts vs _ q6]
  exact henc

/-- **"... or the spec-conformant bytes another implementation would produce for the same message, in either byte
order" - with the body, and no hypothesis about the codec** (review 2, 1.2).  `m` constructed as in `parse_marshal_c01`
(`wireCodec`, signature `renderAll ts`, body items `items` denoting the spec values `vs`).  Let `w` be any valid message
of the same type carrying `m`'s header fields in any order plus fields of unknown codes, in EITHER byte order, whose body
is the specification encoding of the same values `vs` in `w`'s byte order.  Then `parseMessage (Spec.encodeMsg w) fdl`
returns `m`'s class, every header attribute and the same body values `Code.plainList items`.
Not derived here: that the values encode in the other byte order whenever they encode little-endian (true - the limits
do not depend on the byte order - but no lemma `encodeAll little = some _ → encodeAll big = some _` exists yet in
Proofs/Wire); `henc` asks for `w.body` to BE that encoding, which is what "the bytes another implementation would
produce" means. -/
theorem parse_foreign_of_constructed_c01_gen (T : Tables) (hT : T.OK) (na : Char → Bool) (maxLen : Nat) (st st' : St)
    (c : Call PyVal) (m : Msg PyVal)
    (ts : List Ty) (items : List PyVal) (vs : List Val) (fdl : List PyVal) (fd : Bool) (k k' : Nat) (fuel : Nat)
    (hsig : c.signature = some (renderAll ts)) (hne : renderAll ts ≠ [])
    (hts : allWF ts = true) (hrep : Code.RepFields fdl vs fd ts items k k') (hkeys : Code.KeysOKList items)
    (hfuel : depthAll vs ≤ fuel)
    (h : construct T (wireCodec fuel) na maxLen st c = (st', .ok m)) :
    ∃ sm : SpecMsg, m.toSpec T = some sm ∧
      ∀ (w : SpecMsg) (extra : List Field), w.valid = true → w.mtype = sm.mtype →
        w.fields.Perm (sm.fields ++ extra) → (∀ f ∈ extra, lookupAttr T f.1 = none) →
        Spec.encodeAll Code.genAlign w.endian ts vs 0 = some w.body →
        ∃ m' : Msg PyVal, parseMessage T (wireCodec fuel) (Spec.encodeMsg w) (some fdl) = .ok m' ∧
          m'.cls = m.cls ∧ m'.serial = w.serial ∧
          m'.expectReply = decide (w.flags % 2 = 0) ∧ m'.autoStart = decide (w.flags / 2 % 2 = 0) ∧
          (∀ a, m'.attrs a = plain (m.attrs a)) ∧
          m'.body = some (.list (Code.plainList items)) ∧ m'.rawBody = w.body ∧
          m'.otherFlags = w.flags / 4 * 4 := by
  obtain ⟨sm, hb⟩ := construct_ok T hT (wireCodec fuel) na maxLen st st' c m h
  obtain ⟨sm', hsp, hall⟩ := Main.parse_foreign_of_constructed T hT (wireCodec fuel) na maxLen st st' c m h
  have hsm : sm' = sm := by
    have := hb.spec
    rw [hsp] at this
    exact Option.some.inj this
  subst hsm
  refine ⟨sm', hsp, ?_⟩
  intro w extra hw hmt hperm hextra henc
  have hsigattr : m.attrs .signature = .str .plain (renderAll ts) := by
    rw [hb.attrs .signature (by decide), Main.pre_signature, hsig]; rfl
  have hend : Txdbus.endianOf (decide (w.endian = .little)) = w.endian := by
    cases w.endian <;> rfl
  have hu := Code.unmarshal_eq_spec Code.genAlign Code.padOK_gen Code.genAlign_pos (decide (w.endian = .little)) (some fdl)
    ts vs 0 w.body [] [] (Code.plainList items) fuel hts (by rw [hend]; exact henc) rfl
    (Code.fromSpecFields_of_rep fdl vs fd ts items k k' hrep hkeys) hfuel
  simp only [List.nil_append, List.append_nil] at hu
  have hC : ∀ sg, Main.fieldFor T sm'.fields .signature = some (.text .g sg) → sg ≠ [] →
      (wireCodec fuel).unmarshal sg w.body (decide (w.endian = .little)) (some fdl) = .ok (.list (Code.plainList items)) := by
    intro sg hsg _
    have hv := Main.built_view hT hb (some fdl) .signature
    rw [hsg, hsigattr] at hv
    simp only [pyOf, plain, PyVal.str.injEq, true_and] at hv
    subst hv
    simp only [wireCodec, hu]
  obtain ⟨m', p1, p2, p3, p4, p5, p6, p7, p8, p9⟩ :=
    hall w extra hw hmt hperm hextra (some fdl) (fun _ _ _ hc => by cases hc) (.list (Code.plainList items)) hC
  have htr : truthy (m.attrs .signature) = true := by
    rw [hsigattr]
    cases hr : renderAll ts with
    | nil => exact absurd hr hne
    | cons ch cs => simp [truthy]
  rw [htr, if_pos rfl] at p7
  exact ⟨m', p1, p2, p3, p4, p5, p6, p7, p8, p9⟩

/-- Without a body (no signature, or the empty one) nothing is asked of the codec: `parse_marshal`'s premise is vacuous. -/
theorem parse_marshal_no_body_gen (T : Tables) (hT : T.OK) (na : Char → Bool) (maxLen : Nat) (st st' : St)
    (c : Call PyVal) (m : Msg PyVal) (hs : 1 ≤ st.nextSerial) (fuel : Nat) (fdsArg : Option (List PyVal))
    (hsig : c.signature = none ∨ c.signature = some [])
    (h : construct T (wireCodec fuel) na maxLen st c = (st', .ok m)) :
    ∃ m' : Msg PyVal, parseMessage T (wireCodec fuel) m.raw fdsArg = .ok m' ∧
      m'.cls = m.cls ∧ m'.serial = m.serial ∧ m'.expectReply = m.expectReply ∧ m'.autoStart = m.autoStart ∧
      (∀ x, m'.attrs x = plain (m.attrs x)) ∧ m'.body = none ∧ m'.rawBody = [] ∧ m.rawBody = [] := by
  have hnonul : Main.SigNoNul c := by
    intro sg hsg
    rcases hsig with h0 | h0 <;> rw [h0] at hsg
    · cases hsg
    · simp only [Option.some.injEq] at hsg; subst hsg; rfl
  obtain ⟨sm, hb⟩ := construct_ok T hT (wireCodec fuel) na maxLen st st' c m h
  have hsigattr : m.attrs .signature = strAttr c.signature := by
    rw [hb.attrs .signature (by decide), Main.pre_signature]
  have hfalsy : truthy (m.attrs .signature) = false := by
    rw [hsigattr]; rcases hsig with h0 | h0 <;> rw [h0] <;> rfl
  have hC : ∀ sg, m.attrs .signature = .str .plain sg → sg ≠ [] →
      ∃ bytes fds', (wireCodec fuel).marshal sg m.body c.oob = .ok (bytes, fds') ∧
        (wireCodec fuel).unmarshal sg bytes true fdsArg = .ok PyVal.none := by
    intro sg hsg hne
    rw [hsigattr] at hsg
    rcases hsig with h0 | h0 <;> rw [h0] at hsg
    · cases hsg
    · simp only [strAttr, PyVal.str.injEq, true_and] at hsg; exact absurd hsg.symm hne
  obtain ⟨m', p1, p2, p3, p4, p5, p6, p7, p8, p9, p10, _⟩ :=
    Main.parse_marshal T hT (wireCodec fuel) na maxLen st st' c m hs hnonul h fdsArg PyVal.none hC
  rw [hfalsy] at p7
  have hraw : m.rawBody = [] := by
    rcases hb.bodyCase with ⟨_, hr, _⟩ | ⟨sg', fds', hs1, hne', _, _⟩
    · exact hr
    · rw [Main.pre_signature] at hs1
      rcases hsig with h0 | h0 <;> rw [h0] at hs1
      · cases hs1
      · simp only [strAttr, PyVal.str.injEq, true_and] at hs1; exact absurd hs1.symm hne'
  exact ⟨m', p1, p2, p3, p4, p5, p6, by simpa using p7, by rw [p10, hraw], hraw⟩

end Txdbus.Msg
