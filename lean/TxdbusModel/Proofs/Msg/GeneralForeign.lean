import TxdbusModel.Proofs.Msg.GeneralMsg
import TxdbusModel.Proofs.Msg.Props
import TxdbusModel.Proofs.Wire.TopLevel
/-
C03 extension 2026-09-30, part 5 (gap (b)): header fields whose variant holds ANY type - containers included.

The specification side is C01/C02's wire specification itself (`Spec.encode`, Wire/Spec.lean), applied to the header as
the value of type `yyyyuua(yv)` it is: `gHeaderVals`, whose field array holds `(code, VARIANT t v)` for arbitrary
well-formed `t` (arrays, structs, dicts, nested variants) - not the basic-typed `HVal` of Msg/HeaderWire.lean.
`parseMessageG` (the message model with the GENERAL header decoder, Msg/General.lean) on `header ++ pad ++ body`:
C02's decoder theorem `Code.unmarshal_eq_spec` gives the decoded header; the rest of `parseMessage` is shared with
the specialised model.
-/
set_option linter.unusedSimpArgs false

namespace Txdbus.Msg

/-- A header field at the level of the wire specification: code, type of the variant's content, content. -/
abbrev GField := Nat × Ty × Val

/-- The types of `yyyyuua(yv)`. -/
def gHeaderTys : List Ty :=
  [.basic .y, .basic .y, .basic .y, .basic .y, .basic .u, .basic .u, .array (.struct [.basic .y, .variant])]

theorem gHeaderTys_render : renderAll gHeaderTys = headerFormatStr := by decide

theorem gHeaderTys_wf : allWF gHeaderTys = true := by decide

def gFieldVal (f : GField) : Val := .struct [.int (f.1 : Nat), .variant f.2.1 f.2.2]

/-- The header of a message as a value list of the wire specification. -/
def gHeaderVals (eb mt fl bl se : Nat) (fields : List GField) : List Val :=
  [.int (eb : Nat), .int (mt : Nat), .int (fl : Nat), .int ((1 : Nat) : Nat), .int (bl : Nat), .int (se : Nat),
   .array (fields.map gFieldVal)]

/-- The step budget the general decoder needs for such a header: array, struct, variant, then the content. -/
def gDepth (fields : List GField) : Nat := depthAll (fields.map fun f => f.2.2) + 3

theorem depthAll_gFields (fields : List GField) : depthAll (fields.map gFieldVal) ≤ depthAll (fields.map fun f => f.2.2) + 2 := by
  induction fields with
  | nil => simp [depthAll]
  | cons f t ih =>
    simp only [List.map_cons, depthAll, gFieldVal, Val.depth]
    omega

theorem depth_gHeaderVals (eb mt fl bl se : Nat) (fields : List GField) :
    depthAll (gHeaderVals eb mt fl bl se fields) ≤ gDepth fields := by
  have := depthAll_gFields fields
  simp only [gHeaderVals, depthAll, Val.depth, gDepth]
  omega

/-- What `unmarshal` returns for the field array: a list of `[code, value]` lists. -/
theorem fromSpecList_gFields (fds : Code.Fds) (py : GField → PyVal) :
    ∀ (fields : List GField), (∀ f ∈ fields, Code.fromSpec fds f.2.2 f.2.1 = some (py f)) →
      Code.fromSpecList fds (fields.map gFieldVal) (.struct [.basic .y, .variant]) =
        some (fields.map fun f => fieldToPy (f.1, py f))
  | [], _ => rfl
  | f :: t, h => by
    have hf := h f List.mem_cons_self
    have ht := fromSpecList_gFields fds py t (fun g hg => h g (List.mem_cons_of_mem _ hg))
    simp only [List.map_cons, Code.fromSpecList, ht, gFieldVal, Code.fromSpec, Code.fromSpecFields, hf, fieldToPy]
    rfl

theorem fromSpecFields_gHeader (fds : Code.Fds) (py : GField → PyVal) (eb mt fl bl se : Nat) (fields : List GField)
    (h : ∀ f ∈ fields, Code.fromSpec fds f.2.2 f.2.1 = some (py f)) :
    Code.fromSpecFields fds (gHeaderVals eb mt fl bl se fields) gHeaderTys =
      some (HeaderVals.toPy ⟨0, eb, mt, fl, 1, bl, se, fields.map fun f => (f.1, py f)⟩) := by
  simp only [gHeaderVals, gHeaderTys, Code.fromSpecFields, Code.fromSpec, fromSpecList_gFields fds py fields h,
    HeaderVals.toPy, toPy_fields, List.map_map]
  rfl

/-- `setattr` through `_hcode` on any permutation of `known ++ extra` (generic in the values: `applyFields_perm` of
Proofs/Msg/Main.lean is the instance for basic-typed specification values). -/
theorem applyFields_perm_py (T : Tables) (l known extra : List (Nat × PyVal)) (hperm : l.Perm (known ++ extra))
    (hextra : ∀ f ∈ extra, lookupAttr T f.1 = none)
    (hknown : (known.map (fun f => lookupAttr T f.1)).Nodup) (a : Attr) :
    applyFields T noAttrs l a =
      match known.find? (fun f => lookupAttr T f.1 == some a) with
      | some f => f.2
      | none => .none := by
  cases hfind : known.find? (fun f => lookupAttr T f.1 == some a) with
  | none =>
    rw [applyFields_none]
    · rfl
    · intro x hx hl
      have hf' := (hperm.mem_iff).mp hx
      rw [List.mem_append] at hf'
      rcases hf' with hk | he
      · have := List.find?_eq_none.mp hfind x hk
        simp [hl] at this
      · have := hextra x he
        rw [this] at hl; cases hl
  | some f0 =>
    have hf0 := List.mem_of_find?_eq_some hfind
    have hp0 := List.find?_some hfind
    simp only [beq_iff_eq] at hp0
    apply applyFields_unique T _ _ a f0.1 f0.2
    · exact (hperm.mem_iff).mpr (List.mem_append_left _ hf0)
    · exact hp0
    · intro x hx hl
      have hf' := (hperm.mem_iff).mp hx
      rw [List.mem_append] at hf'
      rcases hf' with hk | he
      · exact nodup_map_inj (fun f => lookupAttr T f.1) known hknown x hk f0 hf0 (by rw [hl, hp0])
      · have := hextra x he
        rw [this] at hl; cases hl

/-- The header stage: the general decoder on the wire-specification encoding of a header, followed by anything. -/
theorem unmarshalHeaderG_spec (le : Bool) (fds : Code.Fds) (py : GField → PyVal) (eb mt fl bl se : Nat)
    (fields : List GField) (hdr suf : Bytes) (fuel : Nat)
    (henc : Spec.encodeAll Code.genAlign (Txdbus.endianOf le) gHeaderTys (gHeaderVals eb mt fl bl se fields) 0 = some hdr)
    (hpy : ∀ f ∈ fields, Code.fromSpec fds f.2.2 f.2.1 = some (py f)) (hfuel : gDepth fields ≤ fuel) :
    unmarshalHeaderG fuel headerFormatStr le (hdr ++ suf) fds =
      .ok ⟨hdr.length, eb, mt, fl, 1, bl, se, fields.map fun f => (f.1, py f)⟩ := by
  have hu := Code.unmarshal_eq_spec Code.genAlign Code.padOK_gen Code.genAlign_pos le fds gHeaderTys
    (gHeaderVals eb mt fl bl se fields) 0 hdr [] suf _ fuel gHeaderTys_wf henc rfl
    (fromSpecFields_gHeader fds py eb mt fl bl se fields hpy)
    (Nat.le_trans (depth_gHeaderVals eb mt fl bl se fields) hfuel)
  rw [gHeaderTys_render] at hu
  simp only [List.nil_append] at hu
  unfold unmarshalHeaderG
  rw [hu]
  exact headerOfPy_toPy ⟨hdr.length, eb, mt, fl, 1, bl, se, fields.map fun f => (f.1, py f)⟩

/-- The first byte of an encoding that starts with a BYTE at offset 0. -/
theorem encodeFields_first_byte (A : AlignTable) (hy : A 'y' = 1) (e : Endian) (n : Nat) (ts : List Ty) (vs : List Val)
    (bs : Bytes) (h : Spec.encodeFields A e (.basic .y :: ts) (.int (n : Nat) :: vs) 0 = some bs) :
    ∃ rest, bs = UInt8.ofNat n :: rest := by
  simp only [Spec.encodeFields, Ty.code, Basic.code, hy, padLen, Nat.mod_one, Nat.sub_zero, Spec.encode, Spec.encBasic,
    Basic.shape] at h
  split at h <;> try (cases h; done)
  rename_i b hb
  split at hb <;> try (cases hb; done)
  simp only [Option.some.injEq] at hb
  subst hb
  split at h <;> try (cases h; done)
  rename_i r hr
  simp only [Option.some.injEq] at h
  subst h
  rw [encUInt_one]
  exact ⟨r, by simp [zeros]⟩

/-- The first byte of the encoded header is the byte-order mark. -/
theorem gHeader_first (A : AlignTable) (hy : A 'y' = 1) (e : Endian) (eb mt fl bl se : Nat) (fields : List GField) (hdr : Bytes)
    (henc : Spec.encodeAll A e gHeaderTys (gHeaderVals eb mt fl bl se fields) 0 = some hdr) :
    ∃ rest, hdr = UInt8.ofNat eb :: rest :=
  encodeFields_first_byte A hy e eb _ _ hdr henc

/-- **Foreign messages whose header fields hold variants of ANY type** (gap (b)).  Let the header be the wire
specification's encoding (C01/C02's `Spec.encodeAll`, the generated alignment table, either byte order) of
`[mark, type, flags, 1, len(body), serial, [(code, VARIANT t v), …]]` with arbitrary well-formed `t` - arrays, structs,
dicts, variants included - followed by the padding to 8 and the body.  Then `parseMessageG` - `parseMessage` with the
header decoded by the GENERAL code model, which is what txdbus calls - returns: the class of the type code, the
serial, both flags, `otherFlags`, and every attribute = the decoded value (`Code.fromSpec`, C02's meaning of a wire
value) of the known field that addresses it, None if there is none - whatever the other fields hold; the body bytes; the
body decoded by the codec when the signature attribute is a non-empty str of at most 255 characters. -/
theorem parse_foreign_containers_gen {β : Type} (T : Tables) (hT : T.OK) (C : BodyCodec β) (e : Endian)
    (cls : MsgClass) (fl se : Nat) (fields : List GField) (hdr body : Bytes) (fds : Code.Fds)
    (py : GField → PyVal) (fuel : Nat)
    (henc : Spec.encodeAll Code.genAlign e gHeaderTys
      (gHeaderVals (Spec.endianByte e).toNat (T.messageType cls) fl body.length se fields) 0 = some hdr)
    (hpy : ∀ f ∈ fields, Code.fromSpec fds f.2.2 f.2.1 = some (py f)) (hfuel : gDepth fields ≤ fuel)
    (known extra : List (Nat × PyVal))
    (hperm : (fields.map fun f => (f.1, py f)).Perm (known ++ extra))
    (hextra : ∀ f ∈ extra, lookupAttr T f.1 = none)
    (hknown : (known.map (fun f => lookupAttr T f.1)).Nodup)
    (decoded : β)
    (hsig : (known.find? (fun f => lookupAttr T f.1 == some Attr.signature)) = none ∨
      ∃ f sg, known.find? (fun f => lookupAttr T f.1 == some Attr.signature) = some f ∧ f.2 = .str .plain sg ∧
        sg.length ≤ 255 ∧ (sg ≠ [] → C.unmarshal sg body (decide (e = .little)) fds = .ok decoded)) :
    ∃ m' : Msg β, parseMessageG T C fuel (hdr ++ zeros (padLen 8 hdr.length) ++ body) fds = .ok m' ∧
      m'.cls = cls ∧ m'.serial = se ∧
      m'.expectReply = decide (fl % 2 = 0) ∧ m'.autoStart = decide (fl / 2 % 2 = 0) ∧ m'.otherFlags = fl / 4 * 4 ∧
      (∀ a, m'.attrs a = match known.find? (fun f => lookupAttr T f.1 == some a) with
                         | some f => f.2
                         | none => .none) ∧
      m'.rawHeader = hdr ∧ m'.rawPadding = zeros (padLen 8 hdr.length) ∧ m'.rawBody = body ∧
      m'.body = (match known.find? (fun f => lookupAttr T f.1 == some Attr.signature) with
                 | some (_, .str _ (_ :: _)) => some decoded
                 | _ => none) := by
  have hend : Txdbus.endianOf (decide (e = .little)) = e := by cases e <;> rfl
  have hy : Code.genAlign 'y' = 1 := by decide
  obtain ⟨rest, hfirst⟩ := gHeader_first Code.genAlign hy e _ _ _ _ _ fields hdr henc
  have hb0 : UInt8.ofNat (Spec.endianByte e).toNat = Spec.endianByte e := by cases e <;> rfl
  rw [hb0] at hfirst
  have hle : (Spec.endianByte e == 108) = decide (e = .little) := lendian_of e
  have hhead := unmarshalHeaderG_spec (decide (e = .little)) fds py (Spec.endianByte e).toNat (T.messageType cls) fl
    body.length se fields hdr (zeros (padLen 8 hdr.length) ++ body) fuel (by rw [hend]; exact henc) hpy hfuel
  have hraw : hdr ++ zeros (padLen 8 hdr.length) ++ body = Spec.endianByte e :: (rest ++ zeros (padLen 8 hdr.length) ++ body) := by
    rw [hfirst]; simp
  unfold parseMessageG
  rw [hraw]
  dsimp only
  rw [← hraw, hle, hT.format, List.append_assoc, hhead]
  dsimp only
  unfold parseAfterHeader
  dsimp only
  rw [(hT.mtype cls).2.2]
  dsimp only
  have hattrs : ∀ a, applyFields T noAttrs (fields.map fun f => (f.1, py f)) a =
      match known.find? (fun f => lookupAttr T f.1 == some a) with
      | some f => f.2
      | none => .none := fun a => applyFields_perm_py T _ known extra hperm hextra hknown a
  have htake : (hdr ++ (zeros (padLen 8 hdr.length) ++ body)).take hdr.length = hdr := List.take_left' rfl
  have hdrop : (hdr ++ (zeros (padLen 8 hdr.length) ++ body)).drop hdr.length = zeros (padLen 8 hdr.length) ++ body :=
    List.drop_left' rfl
  have htake2 : (zeros (padLen 8 hdr.length) ++ body).take (padLen 8 hdr.length) = zeros (padLen 8 hdr.length) :=
    List.take_left' (by simp [zeros])
  have hdrop2 : (hdr ++ (zeros (padLen 8 hdr.length) ++ body)).drop (hdr.length + padLen 8 hdr.length) = body := by
    rw [← List.drop_drop, hdrop]
    exact List.drop_left' (by simp [zeros])
  rw [htake, hdrop, htake2, hdrop2, hattrs .signature]
  rcases hsig with hnone | ⟨f, sg, hf, hf2, hlen, hdec⟩
  · rw [hnone]
    simp only [truthy, Bool.false_eq_true, if_false]
    exact ⟨_, rfl, rfl, rfl, rfl, rfl, rfl, hattrs, rfl, rfl, rfl, rfl⟩
  · rw [hf]
    obtain ⟨fc, fv⟩ := f
    simp only at hf2
    subst hf2
    dsimp only
    cases sg with
    | nil =>
      simp only [truthy, List.isEmpty_nil, Bool.not_true, Bool.false_eq_true, if_false]
      exact ⟨_, rfl, rfl, rfl, rfl, rfl, rfl, hattrs, rfl, rfl, rfl, rfl⟩
    | cons ch cs =>
      simp only [truthy, List.isEmpty_cons, Bool.not_false, if_true]
      rw [if_neg (by omega), hdec (by simp)]
      exact ⟨_, rfl, rfl, rfl, rfl, rfl, rfl, hattrs, rfl, rfl, rfl, rfl⟩

end Txdbus.Msg
