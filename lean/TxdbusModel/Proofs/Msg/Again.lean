import TxdbusModel.Msg.Again
import TxdbusModel.Proofs.Msg.Construct
/-
C03, lemmas for the second use of one message object (Msg/Again.lean): re-marshalling an object that a constructor
built, with the `oobFDs` argument the constructor was given,
  * `newSerial=False`: gives back the object itself, the counter untouched (`marshalAgain_same`);
  * `newSerial=True` : is the constructor call run again at the counter's current value (`marshalAgain_new`).
-/
namespace Txdbus.Msg

/-- `finishMarshal` reads `cls`, the two flags and `body` of what the constructor assigned, nothing else. -/
theorem finishMarshal_congr {β : Type} (T : Tables) (maxLen : Nat) (st : St) (p q : Pre β) (b : Bytes)
    (a : Attr → PyVal) (t : List (Attr × Nat × Bool))
    (h1 : p.cls = q.cls) (h2 : p.expectReply = q.expectReply) (h3 : p.autoStart = q.autoStart) (h4 : p.body = q.body) :
    finishMarshal T maxLen st p b a t = finishMarshal T maxLen st q b a t := by
  unfold finishMarshal
  rw [h1, h2, h3, h4]

/-- With a new serial the second `_marshal` is the first one (on an object without extra flag bits). -/
theorem finishAgain_new {β : Type} (T : Tables) (maxLen : Nat) (st : St) (m : Msg β) (b : Bytes)
    (a : Attr → PyVal) (t : List (Attr × Nat × Bool)) (h0 : m.otherFlags = 0) :
    finishAgain T maxLen st true m b a t = finishMarshal T maxLen st m.asPre b a t := by
  unfold finishAgain finishMarshal
  simp only [Msg.asPre, h0, if_true]
  cases buildHeaders a t with
  | error x => rfl
  | ok headers =>
    simp only
    by_cases hf : T.headerFormat ≠ ['y', 'y', 'y', 'y', 'u', 'u', 'a', '(', 'y', 'v', ')']
    · rw [if_pos hf, if_pos hf]
    · rw [if_neg hf, if_neg hf]
      generalize marshalHeader T.align (T.endian == 108) (.int .plain (T.endian : Nat))
        (.int .plain (T.messageType m.cls : Nat)) (.int .plain (flagsWith 0 m.expectReply m.autoStart : Nat))
        (.int .plain (T.protocolVersion : Nat)) (.int .plain (b.length : Nat)) (.int .plain (st.nextSerial : Nat))
        headers = r
      cases r with
      | error x => rfl
      | ok binHeader =>
        simp only

/-- Without a new serial the second `_marshal` recomputes what the first one computed at the object's serial. -/
theorem finishAgain_keep {β : Type} (T : Tables) (maxLen : Nat) (st st0 st0' : St) (m m' : Msg β) (b : Bytes)
    (a : Attr → PyVal) (t : List (Attr × Nat × Bool)) (h0 : m.otherFlags = 0) (hs : m.serial = st0.nextSerial)
    (h : finishMarshal T maxLen st0 m.asPre b a t = (st0', .ok m')) :
    finishAgain T maxLen st false m b a t = (st, .ok m') := by
  unfold finishAgain
  unfold finishMarshal at h
  simp only [Msg.asPre] at h
  cases hb : buildHeaders a t with
  | error x => rw [hb] at h; cases h
  | ok headers =>
    rw [hb] at h
    simp only [h0, hs, Bool.false_eq_true, if_false] at h ⊢
    split at h
    · cases h
    · rename_i hf
      rw [if_neg hf]
      split at h
      · cases h
      · rename_i binHeader hm
        rw [hm]
        simp only
        split at h
        · cases h
        · rename_i hl
          rw [if_neg hl]
          cases h
          rfl

theorem attrs_ext_fds {f g : Attr → PyVal} (h : ∀ a, a ≠ .unixFds → f a = g a) (hu : f .unixFds = g .unixFds) : f = g := by
  funext a
  by_cases ha : a = .unixFds
  · subst ha; exact hu
  · exact h a ha

theorem setFds_ext {f g : Attr → PyVal} (h : ∀ a, a ≠ .unixFds → f a = g a) (v : PyVal) :
    setAttr f .unixFds v = setAttr g .unixFds v := by
  funext a
  by_cases ha : a = .unixFds
  · subst ha; simp [setAttr]
  · simp [setAttr, ha, h a ha]

/-- The first part of `_marshal` on the constructed object (which now carries `unix_fds` when descriptors were
collected) gives what it gave inside the constructor. -/
theorem marshalBody_again {β : Type} (T : Tables) (hT : T.OK) (C : BodyCodec β) (na : Char → Bool) (maxLen : Nat)
    (st st' : St) (c : Call β) (m : Msg β) (h : construct T C na maxLen st c = (st', .ok m)) :
    marshalBody T C m.asPre c.oob = marshalBody T C c.pre c.oob := by
  obtain ⟨sm, B⟩ := construct_ok T hT C na maxLen st st' c m h
  have hsig : m.attrs .signature = c.pre.attrs .signature := B.attrs _ (by decide)
  unfold marshalBody
  simp only [Msg.asPre, hsig, B.cls, B.body]
  rcases B.bodyCase with ⟨ht, _, hu⟩ | ⟨sg, fds', hsg, hne, hm, hcase⟩
  · have he : m.attrs = c.pre.attrs := attrs_ext_fds B.attrs (by rw [hu, (Call.preOK c).noFds])
    rw [he]
  · rw [hsg]
    have htr : truthy (.str .plain sg) = true := by
      cases sg with
      | nil => exact absurd rfl hne
      | cons x xs => simp [truthy]
    simp only [htr, if_true, hm]
    rcases hcase with ⟨fd, l, hf, _⟩ | ⟨hf, hu⟩
    · subst hf
      simp only
      rw [setFds_ext B.attrs]
    · have he : m.attrs = c.pre.attrs := attrs_ext_fds B.attrs (by rw [hu, (Call.preOK c).noFds])
      rw [he]

/-- `m._marshal(True, oobFDs=<what the constructor was given>)` on a constructed object is the constructor call again. -/
theorem marshalAgain_new {β : Type} (T : Tables) (hT : T.OK) (C : BodyCodec β) (na : Char → Bool) (maxLen : Nat)
    (st st' : St) (c : Call β) (m : Msg β) (h : construct T C na maxLen st c = (st', .ok m)) (st2 : St) :
    marshalAgain T C maxLen st2 m true c.oob = construct T C na maxLen st2 c := by
  obtain ⟨sm, B⟩ := construct_ok T hT C na maxLen st st' c m h
  rw [construct_eq, B.checks]
  simp only [marshalAgain, marshalMsg, marshalBody_again T hT C na maxLen st st' c m h]
  cases marshalBody T C c.pre c.oob with
  | error x => rfl
  | ok r =>
    obtain ⟨b, a, t⟩ := r
    simp only
    rw [finishAgain_new T maxLen st2 m b a t B.other]
    exact finishMarshal_congr T maxLen st2 m.asPre c.pre b a t B.cls B.er B.as_ B.body

/-- `m._marshal(False, oobFDs=<what the constructor was given>)` on a constructed object leaves it as it is: the same
bytes, the same serial, no header field twice, the counter untouched. -/
theorem marshalAgain_same {β : Type} (T : Tables) (hT : T.OK) (C : BodyCodec β) (na : Char → Bool) (maxLen : Nat)
    (st st' : St) (c : Call β) (m : Msg β) (h : construct T C na maxLen st c = (st', .ok m)) (st2 : St) :
    marshalAgain T C maxLen st2 m false c.oob = (st2, .ok m) := by
  obtain ⟨sm, B⟩ := construct_ok T hT C na maxLen st st' c m h
  have h' := h
  rw [construct_eq, B.checks] at h'
  simp only [marshalMsg] at h'
  simp only [marshalAgain, marshalBody_again T hT C na maxLen st st' c m h]
  cases hb : marshalBody T C c.pre c.oob with
  | error x => rw [hb] at h'; cases h'
  | ok r =>
    obtain ⟨b, a, t⟩ := r
    rw [hb] at h'
    simp only at h' ⊢
    rw [← finishMarshal_congr T maxLen st m.asPre c.pre b a t B.cls B.er B.as_ B.body] at h'
    exact finishAgain_keep T maxLen st2 st st' m m b a t B.other B.serial h'

end Txdbus.Msg
