import TxdbusModel.Proofs.Msg.HeaderCode
import TxdbusModel.Proofs.Msg.Tables
/-
C03, the constructors and `_marshal` (Msg/Message.lean) against the specification: a successful
constructor call is its validation followed by `_marshal`, and what `_marshal` produced is the
specification encoding (`Spec.encodeMsg`) of the message the object stands for (`Built`).
-/
namespace Txdbus.Msg

theorem isNone_iff (v : PyVal) : isNone v = true ↔ v = .none := by
  cases v <;> simp [isNone]

theorem wrapAttr_ok (a : Attr) (v : PyVal) (hok : AttrOK a v) (hn : v ≠ .none) :
    ∃ w hv, wrapAttr a v = .ok w ∧ hvalOf w = some hv ∧ plain w = plain v := by
  rcases hok with h | h
  · exact absurd h hn
  · cases a <;> simp only at h <;> obtain ⟨x, rfl⟩ := h
    all_goals first
      | exact ⟨_, _, rfl, rfl, rfl⟩

/-- The non-None entries of a table: what `_marshal`'s header loop emits. -/
def liveEntries (attrs : Attr → PyVal) (tbl : List (Attr × Nat × Bool)) : List (Attr × Nat × Bool) :=
  tbl.filter (fun ent => !isNone (attrs ent.1))

theorem buildHeaders_spec (attrs : Attr → PyVal) (hok : ∀ a, AttrOK a (attrs a)) :
    ∀ tbl : List (Attr × Nat × Bool), ∃ hs fs, buildHeaders attrs tbl = .ok hs ∧ specFieldsOf attrs tbl = some fs ∧
      AllIs hs fs ∧ hs.map (fun h => plain h.2) = (liveEntries attrs tbl).map (fun ent => plain (attrs ent.1)) ∧
      fs.map (·.1) = (liveEntries attrs tbl).map (·.2.1) ∧
      (∀ s, attrs .path = .str .plain s → (∃ ent ∈ tbl, ent.1 = .path) → ∃ h ∈ hs, h.2 = .str .objectPath s)
  | [] => ⟨[], [], rfl, rfl, .nil, rfl, rfl, fun _ _ h => by obtain ⟨_, hm, _⟩ := h; cases hm⟩
  | (a, code, req) :: rest => by
    obtain ⟨hs, fs, h1, h2, h3, h4, h5, h6⟩ := buildHeaders_spec attrs hok rest
    by_cases hn : isNone (attrs a) = true
    · refine ⟨hs, fs, ?_, ?_, h3, ?_, ?_, ?_⟩
      · simp only [buildHeaders, hn, if_true, h1]
      · simp only [specFieldsOf, hn, if_true, h2]
      · simp only [liveEntries, List.filter_cons, hn, Bool.not_true, Bool.false_eq_true, if_false] at h4 ⊢
        exact h4
      · simp only [liveEntries, List.filter_cons, hn, Bool.not_true, Bool.false_eq_true, if_false] at h5 ⊢
        exact h5
      · intro s hs hex
        obtain ⟨ent, hm, he⟩ := hex
        cases hm with
        | head =>
          simp only at he
          subst he
          rw [hs] at hn
          simp [isNone] at hn
        | tail _ hm => exact h6 s hs ⟨ent, hm, he⟩
    · have hne : attrs a ≠ .none := fun h => hn ((isNone_iff _).mpr h)
      obtain ⟨w, hv, hw, hh, hp⟩ := wrapAttr_ok a (attrs a) (hok a) hne
      have hn' : isNone (attrs a) = false := by simpa using hn
      refine ⟨(.int .plain (code : Nat), w) :: hs, (code, hv) :: fs, ?_, ?_, .cons ⟨rfl, hh⟩ h3, ?_, ?_, ?_⟩
      · simp only [buildHeaders, hn', Bool.false_eq_true, if_false, hw, h1]
      · simp only [specFieldsOf, hn', Bool.false_eq_true, if_false, hw, hh, h2]
      · simp only [liveEntries, List.filter_cons, hn', Bool.not_false, if_true, List.map_cons, hp] at h4 ⊢
        rw [h4]
      · simp only [liveEntries, List.filter_cons, hn', Bool.not_false, if_true, List.map_cons] at h5 ⊢
        rw [h5]
      · intro s hs hex
        obtain ⟨ent, hm, he⟩ := hex
        cases hm with
        | head =>
          simp only at he
          subst he
          rw [hs] at hw
          simp only [wrapAttr, toStrCls, Except.ok.injEq] at hw
          exact ⟨_, List.mem_cons_self, by rw [← hw]⟩
        | tail _ hm =>
          obtain ⟨h, hh1, hh2⟩ := h6 s hs ⟨ent, hm, he⟩
          exact ⟨h, List.mem_cons_of_mem _ hh1, hh2⟩


/-- The specification-level message a constructed message stands for. -/
def specOf {β : Type} (T : Tables) (p : Pre β) (serial : Nat) (fs : List Field) (body : Bytes) : SpecMsg :=
  { endian := .little, mtype := T.messageType p.cls, flags := flagsByte p.expectReply p.autoStart,
    serial := serial, fields := fs, body := body }

theorem flagsByte_lt (er as_ : Bool) : flagsByte er as_ < 4 := by
  cases er <;> cases as_ <;> decide

theorem map_pair_zip {α β γ : Type} (l : List α) (f : α → β) (g : α → γ) :
    l.map (fun x => (f x, g x)) = List.zip (l.map f) (l.map g) := by
  induction l with
  | nil => rfl
  | cons x t ih => simp [ih]

/-- What a successful `finishMarshal` produced. -/
theorem finishMarshal_ok {β : Type} (T : Tables) (hT : T.OK) (maxLen : Nat) (st st' : St) (p : Pre β)
    (binBody : Bytes) (attrs : Attr → PyVal) (table : List (Attr × Nat × Bool)) (m : Msg β)
    (hok : ∀ a, AttrOK a (attrs a))
    (h : finishMarshal T maxLen st p binBody attrs table = (st', .ok m)) :
    ∃ fs, specFieldsOf attrs table = some fs ∧
      st'.nextSerial = st.nextSerial + 1 ∧ m.serial = st.nextSerial ∧ m.cls = p.cls ∧
      m.expectReply = p.expectReply ∧ m.autoStart = p.autoStart ∧ m.attrs = attrs ∧ m.body = p.body ∧
      m.rawBody = binBody ∧
      m.rawHeader = Spec.fixedPart (specOf T p st.nextSerial fs binBody) (Spec.fieldArray (specOf T p st.nextSerial fs binBody)).length
                      ++ Spec.fieldArray (specOf T p st.nextSerial fs binBody) ∧
      m.rawPadding = Spec.headerPad (specOf T p st.nextSerial fs binBody) ∧
      m.raw = Spec.encodeMsg (specOf T p st.nextSerial fs binBody) ∧
      m.raw.length ≤ maxLen ∧
      st.nextSerial < 4294967296 ∧ binBody.length < 4294967296 ∧
      (Spec.fieldArray (specOf T p st.nextSerial fs binBody)).length < 4294967296 ∧
      (∀ f ∈ fs, f.1 < 256) ∧ ((∀ f ∈ fs, NoNulSig f.2) → fs.all Field.wf = true) ∧
      (∀ fds, fs.map (fun f => (f.1, pyOf fds f.2)) =
         (liveEntries attrs table).map (fun ent => (ent.2.1, plain (attrs ent.1)))) ∧
      (∀ s, attrs .path = .str .plain s → (∃ ent ∈ table, ent.1 = .path) → Valid.validateObjectPath s = .accept) ∧
      m.otherFlags = 0 := by
  obtain ⟨hs, fs, h1, h2, h3, h4, h5, h6⟩ := buildHeaders_spec attrs hok table
  refine ⟨fs, h2, ?_⟩
  unfold finishMarshal at h
  rw [h1] at h
  dsimp only at h
  rw [hT.format] at h
  rw [if_neg (by simp [headerFormatStr])] at h
  rw [hT.endian, hT.version] at h
  have hfw : flagsWith 0 p.expectReply p.autoStart = flagsByte p.expectReply p.autoStart := by simp [flagsWith]
  rw [hfw] at h
  cases hm : marshalHeader T.align (108 == 108) (.int .plain ((108 : Nat) : Nat)) (.int .plain (T.messageType p.cls : Nat))
      (.int .plain (flagsByte p.expectReply p.autoStart : Nat)) (.int .plain ((1 : Nat) : Nat))
      (.int .plain (binBody.length : Nat)) (.int .plain (st.nextSerial : Nat)) hs with
  | error x => rw [hm] at h; cases h
  | ok binHeader =>
    rw [hm] at h
    dsimp only at h
    have hle : ((108 : Nat) == 108) = true := by decide
    rw [hle] at hm
    obtain ⟨b1, b2, b3, b4, b5, b6, b7, b8, b9, b10, b11⟩ :=
      marshalHeader_spec T.align hT.align true 108 (T.messageType p.cls) (flagsByte p.expectReply p.autoStart) 1
        binBody.length st.nextSerial hs fs h3 binHeader hm
    by_cases hlen : (binHeader ++ headerPadding T binHeader.length ++ binBody).length > maxLen
    · rw [if_pos hlen] at h; cases h
    · rw [if_neg hlen] at h
      cases h
      have hhdr : binHeader = Spec.fixedPart (specOf T p st.nextSerial fs binBody)
            (Spec.fieldArray (specOf T p st.nextSerial fs binBody)).length
              ++ Spec.fieldArray (specOf T p st.nextSerial fs binBody) := by
        rw [b8]
        simp [Spec.fixedPart, Spec.fieldArray, specOf, Spec.endianByte, Spec.version, endianOf]
      have hblen : binHeader.length = 16 + (Spec.fieldArray (specOf T p st.nextSerial fs binBody)).length := by
        rw [hhdr]; simp [Spec.fixedPart_length]
      have hpad : headerPadding T binHeader.length = Spec.headerPad (specOf T p st.nextSerial fs binBody) := by
        simp [headerPadding, Spec.headerPad, hblen, hT.headerAlign]
      have hpath := marshalHeader_path T.align hT.align true _ _ _ _ _ _ hs binHeader hm
      refine ⟨rfl, rfl, rfl, rfl, rfl, rfl, rfl, rfl, hhdr, hpad, ?_, by simpa [Msg.raw] using Nat.le_of_not_gt hlen,
        b6, b5, ?_, b9, b10, ?_, ?_, rfl⟩
      · simp only [Msg.raw, hpad]
        rw [hhdr]
        simp [Spec.encodeMsg, specOf]
      · simpa [Spec.fieldArray, specOf, endianOf] using b7
      · intro fds
        have e1 := b11 fds
        rw [map_pair_zip fs (·.1) (fun f => pyOf fds f.2), e1, h4, h5, ← map_pair_zip]
      · intro s hs' hex
        obtain ⟨h, hh1, hh2⟩ := h6 s hs' hex
        exact hpath h hh1 s hh2


theorem attrOK_setFds {attrs : Attr → PyVal} (hok : ∀ a, AttrOK a (attrs a)) (k : Nat) :
    ∀ a, AttrOK a (setAttr attrs .unixFds (.int .plain (k : Nat)) a) := by
  intro a
  by_cases h : a = .unixFds
  · subst h
    simp only [setAttr, if_true]
    exact Or.inr ⟨k, rfl⟩
  · simp only [setAttr, h, if_false]
    exact hok a

theorem truthy_sig {v : PyVal} (hok : AttrOK .signature v) (ht : truthy v = true) :
    ∃ sg, v = .str .plain sg ∧ sg ≠ [] := by
  rcases hok with h | ⟨s, h⟩
  · subst h; simp [truthy] at ht
  · subst h
    refine ⟨s, rfl, ?_⟩
    intro hs; subst hs; simp [truthy] at ht

/-- What a successful first part of `_marshal` produced. -/
theorem marshalBody_ok {β : Type} (T : Tables) (C : BodyCodec β) (p : Pre β) (hp : PreOK p)
    (oob : Option (List PyVal)) (binBody : Bytes) (attrs : Attr → PyVal) (table : List (Attr × Nat × Bool))
    (h : marshalBody T C p oob = .ok (binBody, attrs, table)) :
    (∀ a, AttrOK a (attrs a)) ∧ (∀ a, a ≠ .unixFds → attrs a = p.attrs a) ∧
    table = T.entries p.cls (!isNone (attrs .unixFds)) ∧
    ((truthy (p.attrs .signature) = false ∧ binBody = [] ∧ attrs .unixFds = .none) ∨
     (∃ sg fds', p.attrs .signature = .str .plain sg ∧ sg ≠ [] ∧ C.marshal sg p.body oob = .ok (binBody, fds') ∧
        ((∃ fd l, fds' = some (fd :: l) ∧ attrs .unixFds = .int .plain (((fd :: l).length : Nat) : Nat)) ∨
         ((fds' = none ∨ fds' = some []) ∧ attrs .unixFds = .none)))) := by
  unfold marshalBody at h
  dsimp only at h
  by_cases ht : truthy (p.attrs .signature) = true
  · rw [if_pos ht] at h
    obtain ⟨sg, hsg, hne⟩ := truthy_sig (hp.shape .signature) ht
    rw [hsg] at h
    dsimp only at h
    cases hm : C.marshal sg p.body oob with
    | error x => rw [hm] at h; cases h
    | ok r =>
      obtain ⟨bb, fds'⟩ := r
      rw [hm] at h
      dsimp only at h
      cases fds' with
      | none =>
        cases h
        refine ⟨hp.shape, fun _ _ => rfl, by simp [Tables.entries, hp.noFds, isNone], Or.inr ⟨sg, none, hsg, hne, hm, Or.inr ⟨Or.inl rfl, hp.noFds⟩⟩⟩
      | some l =>
        cases l with
        | nil =>
          cases h
          refine ⟨hp.shape, fun _ _ => rfl, by simp [Tables.entries, hp.noFds, isNone], Or.inr ⟨sg, some [], hsg, hne, hm, Or.inr ⟨Or.inr rfl, hp.noFds⟩⟩⟩
        | cons fd l =>
          cases h
          refine ⟨attrOK_setFds hp.shape _, ?_, by simp [Tables.entries, setAttr, isNone],
            Or.inr ⟨sg, some (fd :: l), hsg, hne, hm, Or.inl ⟨fd, l, rfl, by simp [setAttr]⟩⟩⟩
          intro a ha
          simp [setAttr, ha]
  · have ht' : truthy (p.attrs .signature) = false := by simpa using ht
    rw [if_neg ht] at h
    cases h
    exact ⟨hp.shape, fun _ _ => rfl, by simp [Tables.entries, hp.noFds, isNone], Or.inl ⟨ht', rfl, hp.noFds⟩⟩


/-- A constructor is its validation followed by `_marshal` on what it assigned. -/
theorem construct_eq {β : Type} (T : Tables) (C : BodyCodec β) (na : Char → Bool) (maxLen : Nat) (st : St)
    (c : Call β) :
    construct T C na maxLen st c =
      match c.checks T na with
      | .error x => (st, .error x)
      | .ok () => marshalMsg T C maxLen st c.pre c.oob := by
  cases c with
  | methodCall a =>
    simp only [construct, mkMethodCall, Call.checks, Call.pre, Call.oob]
    cases runValidator (Valid.validateMemberName na) a.member with
    | error x => rfl
    | ok u =>
      cases u
      dsimp only
      cases validateOpt (Valid.validateInterfaceName na) a.interface with
      | error x => rfl
      | ok u =>
        cases u
        dsimp only
        cases validateOpt (Valid.validateBusName na) a.destination with
        | error x => rfl
        | ok u =>
          cases u
          dsimp only
          by_cases hp : a.path = some T.reservedPath
          · simp [hp]
          · simp [hp]
  | methodReturn a =>
    simp only [construct, mkMethodReturn, Call.checks, Call.pre, Call.oob]
    cases validateOpt (Valid.validateBusName na) a.destination with
    | error x => rfl
    | ok u => cases u; rfl
  | error a =>
    simp only [construct, mkError, Call.checks, Call.pre, Call.oob]
    cases validateOpt (Valid.validateBusName na) a.destination with
    | error x => rfl
    | ok u =>
      cases u
      dsimp only
      cases runValidator (Valid.validateInterfaceName na) a.errorName with
      | error x => rfl
      | ok u => cases u; rfl
  | signal a =>
    simp only [construct, mkSignal, Call.checks, Call.pre, Call.oob]
    cases runValidator (Valid.validateMemberName na) a.member with
    | error x => rfl
    | ok u =>
      cases u
      dsimp only
      cases runValidator (Valid.validateInterfaceName na) a.interface with
      | error x => rfl
      | ok u =>
        cases u
        dsimp only
        cases validateOpt (Valid.validateBusName na) a.destination with
        | error x => rfl
        | ok u => cases u; rfl

theorem strAttr_ok (a : Attr) (h1 : a ≠ .replySerial) (h2 : a ≠ .unixFds) (o : Option (List Char)) :
    AttrOK a (strAttr o) := by
  cases o with
  | none => exact Or.inl rfl
  | some s => cases a <;> first | exact absurd rfl h1 | exact absurd rfl h2 | exact Or.inr ⟨s, rfl⟩

theorem Call.preOK {β : Type} (c : Call β) : PreOK c.pre := by
  cases c with
  | methodCall a =>
    refine ⟨?_, rfl, ?_⟩
    · intro x; cases x <;> simp only [Call.pre, setAttr, noAttrs] <;>
        first | exact Or.inl rfl | exact strAttr_ok _ (by decide) (by decide) _
    · intro x hx; cases x <;> simp [Call.pre, setAttr, noAttrs] at hx <;> simp [ctorAttrs, Call.pre]
  | methodReturn a =>
    refine ⟨?_, rfl, ?_⟩
    · intro x; cases x <;> simp only [Call.pre, setAttr, noAttrs] <;>
        first | exact Or.inl rfl | exact strAttr_ok _ (by decide) (by decide) _ | exact Or.inr ⟨_, rfl⟩
    · intro x hx; cases x <;> simp [Call.pre, setAttr, noAttrs] at hx <;> simp [ctorAttrs, Call.pre]
  | error a =>
    refine ⟨?_, rfl, ?_⟩
    · intro x; cases x <;> simp only [Call.pre, setAttr, noAttrs] <;>
        first | exact Or.inl rfl | exact strAttr_ok _ (by decide) (by decide) _ | exact Or.inr ⟨_, rfl⟩
    · intro x hx; cases x <;> simp [Call.pre, setAttr, noAttrs] at hx <;> simp [ctorAttrs, Call.pre]
  | signal a =>
    refine ⟨?_, rfl, ?_⟩
    · intro x; cases x <;> simp only [Call.pre, setAttr, noAttrs] <;>
        first | exact Or.inl rfl | exact strAttr_ok _ (by decide) (by decide) _
    · intro x hx; cases x <;> simp [Call.pre, setAttr, noAttrs] at hx <;> simp [ctorAttrs, Call.pre]


/-- Everything a successful constructor call established (collected from the two parts of `_marshal`). -/
structure Built {β : Type} (T : Tables) (C : BodyCodec β) (na : Char → Bool) (maxLen : Nat) (st st' : St)
    (c : Call β) (m : Msg β) (sm : SpecMsg) : Prop where
  checks : c.checks T na = .ok ()
  next : st'.nextSerial = st.nextSerial + 1
  serial : m.serial = st.nextSerial
  cls : m.cls = c.pre.cls
  er : m.expectReply = c.pre.expectReply
  as_ : m.autoStart = c.pre.autoStart
  body : m.body = c.pre.body
  attrs : ∀ a, a ≠ .unixFds → m.attrs a = c.pre.attrs a
  shape : ∀ a, AttrOK a (m.attrs a)
  spec : m.toSpec T = some sm
  smEq : sm = specOf T c.pre st.nextSerial sm.fields m.rawBody
  hdr : m.rawHeader = Spec.fixedPart sm (Spec.fieldArray sm).length ++ Spec.fieldArray sm
  pad : m.rawPadding = Spec.headerPad sm
  raw : m.raw = Spec.encodeMsg sm
  len : m.raw.length ≤ maxLen
  serialLt : st.nextSerial < 4294967296
  bodyLt : m.rawBody.length < 4294967296
  arrayLt : (Spec.fieldArray sm).length < 4294967296
  codes : ∀ f ∈ sm.fields, f.1 < 256
  wf : (∀ f ∈ sm.fields, NoNulSig f.2) → sm.fields.all Field.wf = true
  fieldsPy : ∀ fds, sm.fields.map (fun f => (f.1, pyOf fds f.2)) =
      (liveEntries m.attrs (T.entries m.cls (hasFds m))).map (fun ent => (ent.2.1, plain (m.attrs ent.1)))
  pathOK : ∀ s, m.attrs .path = .str .plain s → Valid.validateObjectPath s = .accept
  other : m.otherFlags = 0
  bodyCase : (truthy (c.pre.attrs .signature) = false ∧ m.rawBody = [] ∧ m.attrs .unixFds = .none) ∨
     (∃ sg fds', c.pre.attrs .signature = .str .plain sg ∧ sg ≠ [] ∧
        C.marshal sg c.pre.body c.oob = .ok (m.rawBody, fds') ∧
        ((∃ fd l, fds' = some (fd :: l) ∧ m.attrs .unixFds = .int .plain (((fd :: l).length : Nat) : Nat)) ∨
         ((fds' = none ∨ fds' = some []) ∧ m.attrs .unixFds = .none)))

theorem construct_ok {β : Type} (T : Tables) (hT : T.OK) (C : BodyCodec β) (na : Char → Bool) (maxLen : Nat)
    (st st' : St) (c : Call β) (m : Msg β) (h : construct T C na maxLen st c = (st', .ok m)) :
    ∃ sm, Built T C na maxLen st st' c m sm := by
  rw [construct_eq] at h
  cases hc : c.checks T na with
  | error x => rw [hc] at h; cases h
  | ok u =>
    cases u
    rw [hc] at h
    dsimp only at h
    unfold marshalMsg at h
    cases hb : marshalBody T C c.pre c.oob with
    | error x => rw [hb] at h; cases h
    | ok r =>
      obtain ⟨binBody, attrs, table⟩ := r
      rw [hb] at h
      dsimp only at h
      obtain ⟨b1, b2, b3, b4⟩ := marshalBody_ok T C c.pre (Call.preOK c) c.oob binBody attrs table hb
      obtain ⟨fs, f0, f1, f2, f3, f4, f5, f6, f7, f8, f9, f10, f11, f12, f13, f14, f15, f16, f17, f18, f19, f20⟩ :=
        finishMarshal_ok T hT maxLen st st' c.pre binBody attrs table m b1 h
      refine ⟨specOf T c.pre st.nextSerial fs binBody, ?_⟩
      have hfds : hasFds m = !isNone (attrs .unixFds) := by simp [hasFds, f6]
      refine { checks := hc, next := f1, serial := f2, cls := f3, er := f4, as_ := f5, body := f7,
               attrs := by intro a ha; rw [f6]; exact b2 a ha,
               shape := by rw [f6]; exact b1,
               spec := ?_, smEq := by simp [specOf, f8], hdr := f9, pad := f10, raw := f11, len := f12,
               serialLt := f13, bodyLt := by rw [f8]; exact f14, arrayLt := f15, codes := f16, wf := f17,
               fieldsPy := ?_, pathOK := ?_, other := f20, bodyCase := ?_ }
      · simp only [Msg.toSpec, f6, f3, hfds, ← b3, f0, Option.map_some, f4, f5, f2, f8, specOf]
      · intro fds
        rw [f6, f3, hfds, ← b3]
        exact f18 fds
      · intro s hs
        rw [f6] at hs
        apply f19 s hs
        have hne : c.pre.attrs .path ≠ .none := by
          rw [← b2 .path (by decide), hs]; intro h; cases h
        have hin := (Call.preOK c).inTable .path hne
        have hcov := hT.covers c.pre.cls .path hin
        rw [List.mem_map] at hcov
        obtain ⟨ent, he1, he2⟩ := hcov
        refine ⟨ent, ?_, he2⟩
        rw [b3]
        simp only [Tables.entries]
        split
        · exact List.mem_append_left _ he1
        · exact he1
      · rw [f6, f8]; exact b4

end Txdbus.Msg

