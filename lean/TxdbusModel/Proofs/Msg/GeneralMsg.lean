import TxdbusModel.Proofs.Msg.GeneralEncode
import TxdbusModel.Proofs.Msg.Construct
/-
C03 extension 2026-09-30, part 3: the message functions with the GENERAL header codec (Msg/General.lean:
`parseMessageG`, `constructG`, `remarshalG`) against the ones with the specialised codec (Msg/Message.lean).

  * `parseMessageG = parseMessage` on every byte string whose header the specialised decoder does not call "outside the
    fragment"; in particular whenever `parseMessage` returns a message;
  * `constructG = construct` for EVERY constructor call (a constructor only ever stores None / str / UInt32 / a plain
    count in the header attributes, so the encoder never leaves the fragment);
  * `remarshalG = remarshal` unless the specialised encoder says "outside" (a parsed message can hold any value).
-/
set_option linter.unusedSimpArgs false

namespace Txdbus.Msg

/-! ### reading the Python result back -/

theorem fieldsOfPy_map (fields : List (Nat × PyVal)) : fieldsOfPy (fields.map fieldToPy) = some fields := by
  induction fields with
  | nil => rfl
  | cons f t ih =>
    simp only [List.map_cons, fieldsOfPy, ih]
    simp [fieldToPy, fieldOfPy]

theorem headerOfPy_toPy (h : HeaderVals) : headerOfPy h.nheader h.toPy = .ok h := by
  simp only [HeaderVals.toPy, headerOfPy, toPy_fields, fieldsOfPy_map]
  simp

/-- The specialised decoder and the general one, read as `parseMessage` reads the result. -/
theorem unmarshalHeaderG_eq (A : Char → Nat) (hA : PadAgree A) (hO : AlignOK A) (le : Bool)
    (fds : Option (List PyVal)) (fuel : Nat) (data : Bytes)
    (hne : unmarshalHeader A le data fds ≠ .error .other) :
    unmarshalHeaderG (fuel + 4) headerFormatStr le data fds = unmarshalHeader A le data fds := by
  unfold unmarshalHeaderG
  rw [unmarshalHeader_eq_general A hA hO le fds fuel data hne]
  cases unmarshalHeader A le data fds with
  | error e => rfl
  | ok h => exact headerOfPy_toPy h

/-! ### parseMessage -/

theorem parseMessageG_eq {β : Type} (T : Tables) (hT : T.OK) (hA : PadAgree T.align) (C : BodyCodec β) (fuel : Nat)
    (raw : Bytes) (fds : Option (List PyVal))
    (hne : ∀ b0 rest, raw = b0 :: rest → unmarshalHeader T.align (b0 == 108) raw fds ≠ .error .other) :
    parseMessageG T C (fuel + 4) raw fds = parseMessage T C raw fds := by
  unfold parseMessageG parseMessage
  cases raw with
  | nil => rfl
  | cons b0 rest =>
    dsimp only
    rw [hT.format, if_neg (by simp [headerFormatStr])]
    rw [unmarshalHeaderG_eq T.align hA hT.align _ fds fuel _ (hne b0 rest rfl)]
    rfl

/-- Whenever the model with the specialised header decoder returns a message, the model with the general decoder
returns the same message. -/
theorem parseMessageG_of_ok {β : Type} (T : Tables) (hT : T.OK) (hA : PadAgree T.align) (C : BodyCodec β) (fuel : Nat)
    (raw : Bytes) (fds : Option (List PyVal)) (m : Msg β) (h : parseMessage T C raw fds = .ok m) :
    parseMessageG T C (fuel + 4) raw fds = .ok m := by
  rw [parseMessageG_eq T hT hA C fuel raw fds, h]
  intro b0 rest hr hu
  subst hr
  unfold parseMessage at h
  dsimp only at h
  rw [hT.format, if_neg (by simp [headerFormatStr]), hu] at h
  cases h

/-! ### the encoder never leaves the fragment on what a constructor stores -/

theorem map_ne_other {α β : Type} (r : Except PyErr α) (g : Except PyErr α → Except PyErr β)
    (hok : ∀ x, g (.ok x) ≠ .error .other) (herr : ∀ e, g (.error e) = .error e) (h : r ≠ .error .other) :
    g r ≠ .error .other := by
  cases r with
  | ok x => exact hok x
  | error e =>
    rw [herr]
    intro hx
    cases hx
    exact h rfl

theorem packB_ne_other (n : Int) : packB n ≠ .error .other := by
  unfold packB; split <;> simp

theorem packI_ne_other (le : Bool) (n : Int) : packI le n ≠ .error .other := by
  unfold packI; split <;> simp

theorem marshalByte_ne_other (v : PyVal) : marshalByte v ≠ .error .other := by
  unfold marshalByte
  cases v.asInt? with
  | none => simp
  | some n =>
    dsimp only
    cases hp : packB n with
    | ok l => simp
    | error x =>
      have := packB_ne_other n
      rw [hp] at this
      simpa using this

theorem marshalUInt32_ne_other (le : Bool) (v : PyVal) : marshalUInt32 le v ≠ .error .other := by
  unfold marshalUInt32
  cases v.asInt? with
  | none => simp
  | some n =>
    dsimp only
    cases hp : packI le n with
    | ok l => simp
    | error x =>
      have := packI_ne_other le n
      rw [hp] at this
      simpa using this

theorem marshalString_ne_other (le : Bool) (v : PyVal) : marshalString le v ≠ .error .other := by
  unfold marshalString
  cases v <;> simp
  rename_i cls s
  split
  · simp
  · cases hp : packI le ((utf8Encode s).length : Nat) with
    | ok l => simp
    | error x =>
      have := packI_ne_other le ((utf8Encode s).length : Nat)
      rw [hp] at this
      simpa using this

theorem marshalSignature_ne_other (v : PyVal) : marshalSignature v ≠ .error .other := by
  unfold marshalSignature
  cases v <;> simp
  rename_i cls s
  cases asciiEncode s with
  | none => simp
  | some b =>
    dsimp only
    cases hp : packB (b.length : Nat) with
    | ok l => simp
    | error x =>
      have := packB_ne_other (b.length : Nat)
      rw [hp] at this
      simpa using this

theorem marshalObjectPath_ne_other (le : Bool) (v : PyVal) : marshalObjectPath le v ≠ .error .other := by
  unfold marshalObjectPath validatePathVal
  cases v <;> simp
  rename_i cls s
  cases Valid.validateObjectPath s with
  | accept => exact marshalString_ne_other le _
  | raised _ => simp

theorem marshalBasic5_ne_other (le : Bool) (c : Basic) (v : PyVal)
    (hc : c = .y ∨ c = .u ∨ c = .s ∨ c = .o ∨ c = .g) : marshalBasic le c.code v ≠ .error .other := by
  rcases hc with rfl | rfl | rfl | rfl | rfl
  · rw [show Basic.code .y = 'y' from rfl, marshalBasic_y]; exact marshalByte_ne_other v
  · rw [show Basic.code .u = 'u' from rfl, marshalBasic_u]; exact marshalUInt32_ne_other le v
  · rw [show Basic.code .s = 's' from rfl, marshalBasic_s]; exact marshalString_ne_other le v
  · rw [show Basic.code .o = 'o' from rfl, marshalBasic_o]; exact marshalObjectPath_ne_other le v
  · rw [show Basic.code .g = 'g' from rfl, marshalBasic_g]; exact marshalSignature_ne_other v

/-- A typed header value (`hvalOf v = some _`: str / ObjectPath / Signature / Byte / UInt32) keeps `marshal_variant`
inside the fragment. -/
theorem marshalVariant_ne_other (A : Char → Nat) (hO : AlignOK A) (le : Bool) (v : PyVal) (hv : HVal)
    (hh : hvalOf v = some hv) (sb : Nat) : marshalVariant A le v sb ≠ .error .other := by
  have key : ∀ c : Basic, (c = .y ∨ c = .u ∨ c = .s ∨ c = .o ∨ c = .g) → sigFromPy v = .ok [c.code] →
      marshalVariant A le v sb ≠ .error .other := by
    intro c hc hs
    rw [marshalVariant_basic A hO le v c hs sb]
    have := marshalBasic5_ne_other le c v hc
    cases hb : marshalBasic le c.code v with
    | ok r => simp
    | error x => rw [hb] at this; simpa using this
  cases v <;> simp only [hvalOf] at hh <;> try (cases hh; done)
  · rename_i cls k
    cases cls <;> simp only [] at hh <;> try (cases hh; done)
    · exact key .y (Or.inl rfl) rfl
    · exact key .u (Or.inr (Or.inl rfl)) rfl
  · rename_i cls s
    cases cls
    · exact key .s (Or.inr (Or.inr (Or.inl rfl))) rfl
    · exact key .g (Or.inr (Or.inr (Or.inr (Or.inr rfl)))) rfl
    · exact key .o (Or.inr (Or.inr (Or.inr (Or.inl rfl)))) rfl

theorem marshalItems_ne_other (A : Char → Nat) (hO : AlignOK A) (le : Bool) :
    ∀ (hs : List (PyVal × PyVal)) (fs : List Field), AllIs hs fs → ∀ sb, marshalItems A le hs sb ≠ .error .other
  | [], _, _, sb => by simp [marshalItems]
  | (code, hval) :: rest, [], hall, _ => by cases hall
  | (code, hval) :: rest, f :: fs, hall, sb => by
    cases hall with
    | cons hf hrest =>
      obtain ⟨h1, h2⟩ := hf
      simp only at h1 h2
      unfold marshalItems
      dsimp only
      unfold marshalStructYV
      subst h1
      simp only [marshalByte, PyVal.asInt?]
      cases hb : packB (f.1 : Nat) with
      | error x =>
        simp only
        intro hx
        cases hx
        unfold packB at hb
        split at hb <;> cases hb
      | ok bb =>
        simp only
        have hv := marshalVariant_ne_other A hO le hval f.2 h2
          (sb + padLen (A '(') sb + padLen (A 'y') (sb + padLen (A '(') sb) + 1 +
            padLen (A 'v') (sb + padLen (A '(') sb + padLen (A 'y') (sb + padLen (A '(') sb) + 1))
        cases hmv : marshalVariant A le hval
            (sb + padLen (A '(') sb + padLen (A 'y') (sb + padLen (A '(') sb) + 1 +
              padLen (A 'v') (sb + padLen (A '(') sb + padLen (A 'y') (sb + padLen (A '(') sb) + 1)) with
        | error x =>
          simp only
          intro hx; cases hx; exact hv hmv
        | ok r =>
          obtain ⟨n2, b2⟩ := r
          simp only
          have ih := marshalItems_ne_other A hO le rest fs hrest
            (sb + padLen (A '(') sb + (sb + padLen (A '(') sb + padLen (A 'y') (sb + padLen (A '(') sb) + 1 +
              padLen (A 'v') (sb + padLen (A '(') sb + padLen (A 'y') (sb + padLen (A '(') sb) + 1) + n2 -
              (sb + padLen (A '(') sb)))
          cases hmi : marshalItems A le rest
              (sb + padLen (A '(') sb + (sb + padLen (A '(') sb + padLen (A 'y') (sb + padLen (A '(') sb) + 1 +
                padLen (A 'v') (sb + padLen (A '(') sb + padLen (A 'y') (sb + padLen (A '(') sb) + 1) + n2 -
                (sb + padLen (A '(') sb))) with
          | error x => simp only; intro hx; cases hx; exact ih hmi
          | ok r2 => simp

theorem marshalArrayYV_ne_other (A : Char → Nat) (hO : AlignOK A) (le : Bool) (hs : List (PyVal × PyVal))
    (fs : List Field) (hall : AllIs hs fs) (sb : Nat) : marshalArrayYV A le hs sb ≠ .error .other := by
  unfold marshalArrayYV
  dsimp only
  have hi := marshalItems_ne_other A hO le hs fs hall (sb + 4 + padLen (A '(') (sb + 4))
  cases hm : marshalItems A le hs (sb + 4 + padLen (A '(') (sb + 4)) with
  | error x => rw [hm] at hi; simpa using hi
  | ok r =>
    obtain ⟨dl, bs⟩ := r
    dsimp only
    cases hp : packI le (dl : Nat) with
    | ok l => simp
    | error x =>
      have := packI_ne_other le (dl : Nat)
      rw [hp] at this
      simpa using this

theorem mstep_ne_other (A : Char → Nat) (tcode : Char) (f : Nat → MRes) (st : Nat × Bytes)
    (h : ∀ sb, f sb ≠ .error .other) : mstep A tcode f st ≠ .error .other := by
  unfold mstep
  dsimp only
  have := h (st.1 + padLen (A tcode) st.1)
  cases hf : f (st.1 + padLen (A tcode) st.1) with
  | ok r => simp
  | error x => rw [hf] at this; simpa using this

/-- The header encoder stays inside the fragment whenever the header list holds typed header values. -/
theorem marshalHeader_ne_other (A : Char → Nat) (hO : AlignOK A) (le : Bool) (v0 v1 v2 v3 v4 v5 : PyVal)
    (hs : List (PyVal × PyVal)) (fs : List Field) (hall : AllIs hs fs) :
    marshalHeader A le v0 v1 v2 v3 v4 v5 hs ≠ .error .other := by
  unfold marshalHeader
  have hb : ∀ (v : PyVal) st, mstep A 'y' (fun _ => marshalByte v) st ≠ .error .other :=
    fun v st => mstep_ne_other A 'y' _ st (fun _ => marshalByte_ne_other v)
  have hu : ∀ (v : PyVal) st, mstep A 'u' (fun _ => marshalUInt32 le v) st ≠ .error .other :=
    fun v st => mstep_ne_other A 'u' _ st (fun _ => marshalUInt32_ne_other le v)
  have ha : ∀ st, mstep A 'a' (marshalArrayYV A le hs) st ≠ .error .other :=
    fun st => mstep_ne_other A 'a' _ st (fun sb => marshalArrayYV_ne_other A hO le hs fs hall sb)
  cases h1 : mstep A 'y' (fun _ => marshalByte v0) (0, []) with
  | error x => have := hb v0 (0, []); rw [h1] at this; simpa using this
  | ok s1 =>
    dsimp only
    cases h2 : mstep A 'y' (fun _ => marshalByte v1) s1 with
    | error x => have := hb v1 s1; rw [h2] at this; simpa using this
    | ok s2 =>
      dsimp only
      cases h3 : mstep A 'y' (fun _ => marshalByte v2) s2 with
      | error x => have := hb v2 s2; rw [h3] at this; simpa using this
      | ok s3 =>
        dsimp only
        cases h4 : mstep A 'y' (fun _ => marshalByte v3) s3 with
        | error x => have := hb v3 s3; rw [h4] at this; simpa using this
        | ok s4 =>
          dsimp only
          cases h5 : mstep A 'u' (fun _ => marshalUInt32 le v4) s4 with
          | error x => have := hu v4 s4; rw [h5] at this; simpa using this
          | ok s5 =>
            dsimp only
            cases h6 : mstep A 'u' (fun _ => marshalUInt32 le v5) s5 with
            | error x => have := hu v5 s5; rw [h6] at this; simpa using this
            | ok s6 =>
              dsimp only
              cases h7 : mstep A 'a' (marshalArrayYV A le hs) s6 with
              | error x => have := ha s6; rw [h7] at this; simpa using this
              | ok s7 => simp

/-! ### `_marshal` and the constructors -/

/-- `buildHeaders` yields typed header values whenever the attributes hold what a constructor stores. -/
theorem buildHeaders_typed (attrs : Attr → PyVal) (hok : ∀ a, AttrOK a (attrs a)) (tbl : List (Attr × Nat × Bool))
    (hs : List (PyVal × PyVal)) (h : buildHeaders attrs tbl = .ok hs) : ∃ fs, AllIs hs fs := by
  obtain ⟨hs', fs, h1, _, h3, _⟩ := buildHeaders_spec attrs hok tbl
  rw [h1] at h
  cases h
  exact ⟨fs, h3⟩

theorem finishMarshalG_eq {β : Type} (T : Tables) (hT : T.OK) (hA : PadAgree T.align) (fuel : Nat) (maxLen : Nat)
    (st : St) (p : Pre β) (binBody : Bytes) (attrs : Attr → PyVal) (table : List (Attr × Nat × Bool))
    (hok : ∀ a, AttrOK a (attrs a)) :
    finishMarshalG T (fuel + 4) maxLen st p binBody attrs table = finishMarshal T maxLen st p binBody attrs table := by
  unfold finishMarshalG finishMarshal
  cases hb : buildHeaders attrs table with
  | error x => rfl
  | ok hs =>
    obtain ⟨fs, hall⟩ := buildHeaders_typed attrs hok table hs hb
    dsimp only
    rw [hT.format, if_neg (by simp [headerFormatStr])]
    rw [marshalHeader_eq_general T.align hA hT.align _ fuel _ _ _ _ _ _ hs
      (marshalHeader_ne_other T.align hT.align _ _ _ _ _ _ _ hs fs hall)]
    generalize marshalHeader _ _ _ _ _ _ _ _ _ = r
    cases r <;> rfl

/-- **Every constructor call**: the model with the general header encoder and the model with the specialised one return
the same message / the same exception and leave the same counter. -/
theorem constructG_eq {β : Type} (T : Tables) (hT : T.OK) (hA : PadAgree T.align) (C : BodyCodec β) (fuel : Nat)
    (na : Char → Bool) (maxLen : Nat) (st : St) (c : Call β) :
    constructG T C (fuel + 4) na maxLen st c = construct T C na maxLen st c := by
  rw [construct_eq]
  unfold constructG
  cases hc : c.checks T na with
  | error x => rfl
  | ok u =>
    cases u
    dsimp only
    unfold marshalMsgG marshalMsg
    cases hb : marshalBody T C c.pre c.oob with
    | error x => rfl
    | ok r =>
      obtain ⟨binBody, attrs, table⟩ := r
      dsimp only
      obtain ⟨b1, _, _, _⟩ := marshalBody_ok T C c.pre (Call.preOK c) c.oob binBody attrs table hb
      exact finishMarshalG_eq T hT hA fuel maxLen st c.pre binBody attrs table b1

/-- The forwarding call: general = specialised unless the specialised encoder says "outside the fragment" (a parsed
message can hold any value in a known attribute, e.g. a list where a foreign peer sent INTERFACE as an array). -/
theorem remarshalG_eq {β : Type} (T : Tables) (hT : T.OK) (hA : PadAgree T.align) (fuel : Nat) (maxLen : Nat)
    (m : Msg β) (endian : Nat) (rawBody : Bytes) (hne : remarshal T maxLen m endian rawBody ≠ .error .other) :
    remarshalG T (fuel + 4) maxLen m endian rawBody = remarshal T maxLen m endian rawBody := by
  unfold remarshalG
  unfold remarshal at hne ⊢
  cases hb : buildHeaders m.attrs (T.headerAttrs m.cls) with
  | error x => rfl
  | ok hs =>
    rw [hb] at hne
    dsimp only at hne ⊢
    rw [hT.format, if_neg (by simp [headerFormatStr])] at hne ⊢
    have hmh : marshalHeader T.align (endian == 108) (.int .plain (endian : Nat)) (.int .plain (T.messageType m.cls : Nat))
        (.int .plain (flagsWith m.otherFlags m.expectReply m.autoStart : Nat)) (.int .plain (T.protocolVersion : Nat))
        (.int .plain (rawBody.length : Nat)) (.int .plain (m.serial : Nat)) hs ≠ .error .other := by
      intro h; rw [h] at hne; exact hne rfl
    rw [marshalHeader_eq_general T.align hA hT.align _ fuel _ _ _ _ _ _ hs hmh]
    generalize marshalHeader _ _ _ _ _ _ _ _ _ = r
    cases r <;> rfl

/-! ### what the general-codec functions call, made explicit -/

/-- A message built by `constructG` has as `rawHeader` the bytes the GENERAL encoder returns for the header signature and
the list `[endian, type, flags, version, len(body), serial, headers]`, `headers` being `_marshal`'s header list of `m`. -/
theorem constructG_header {β : Type} (T : Tables) (C : BodyCodec β) (fuel : Nat) (na : Char → Bool) (maxLen : Nat)
    (st st' : St) (c : Call β) (m : Msg β) (h : constructG T C fuel na maxLen st c = (st', .ok m)) :
    ∃ headers n f, buildHeaders m.attrs (T.entries m.cls (hasFds m)) = .ok headers ∧
      Code.marshal fuel T.headerFormat
        (headerArgs (.int .plain (T.endian : Nat)) (.int .plain (T.messageType m.cls : Nat))
          (.int .plain (flagsByte m.expectReply m.autoStart : Nat)) (.int .plain (T.protocolVersion : Nat))
          (.int .plain (m.rawBody.length : Nat)) (.int .plain (m.serial : Nat)) headers)
        0 (T.endian == 108) none = .ok (n, m.rawHeader, f) := by
  unfold constructG at h
  cases hc : c.checks T na with
  | error x => rw [hc] at h; cases h
  | ok u =>
    cases u
    rw [hc] at h
    dsimp only at h
    unfold marshalMsgG at h
    cases hb : marshalBody T C c.pre c.oob with
    | error x => rw [hb] at h; cases h
    | ok r =>
      obtain ⟨binBody, attrs, table⟩ := r
      rw [hb] at h
      dsimp only at h
      obtain ⟨_, _, b3, _⟩ := marshalBody_ok T C c.pre (Call.preOK c) c.oob binBody attrs table hb
      unfold finishMarshalG at h
      cases hh : buildHeaders attrs table with
      | error x => rw [hh] at h; cases h
      | ok headers =>
        rw [hh] at h
        dsimp only at h
        unfold marshalHeaderG at h
        have hfw : flagsWith 0 c.pre.expectReply c.pre.autoStart = flagsByte c.pre.expectReply c.pre.autoStart := by
          simp [flagsWith]
        rw [hfw] at h
        cases hm : Code.marshal fuel T.headerFormat
            (headerArgs (.int .plain (T.endian : Nat)) (.int .plain (T.messageType c.pre.cls : Nat))
              (.int .plain (flagsByte c.pre.expectReply c.pre.autoStart : Nat)) (.int .plain (T.protocolVersion : Nat))
              (.int .plain (binBody.length : Nat)) (.int .plain (st.nextSerial : Nat)) headers)
            0 (T.endian == 108) none with
        | error x => rw [hm] at h; cases h
        | ok r2 =>
          obtain ⟨n, bs, f⟩ := r2
          rw [hm] at h
          dsimp only at h
          split at h
          · cases h
          · cases h
            refine ⟨headers, n, f, ?_, hm⟩
            simp only [hasFds]
            rw [← b3]
            exact hh

/-- What `parseMessageG` calls: the GENERAL decoder on the header signature at offset 0 in the byte order of the first
byte, then `parseMessage`'s reading of the result. -/
theorem parseMessageG_calls {β : Type} (T : Tables) (C : BodyCodec β) (fuel : Nat) (raw : Bytes)
    (fds : Option (List PyVal)) (m : Msg β) (h : parseMessageG T C fuel raw fds = .ok m) :
    ∃ b0 rest n vs hv, raw = b0 :: rest ∧
      Code.unmarshal fuel T.headerFormat raw 0 (b0 == 108) fds = .ok (n, vs) ∧ headerOfPy n vs = .ok hv ∧
      parseAfterHeader T C raw (b0 == 108) fds hv = .ok m := by
  unfold parseMessageG at h
  cases raw with
  | nil => cases h
  | cons b0 rest =>
    dsimp only at h
    unfold unmarshalHeaderG at h
    cases hu : Code.unmarshal fuel T.headerFormat (b0 :: rest) 0 (b0 == 108) fds with
    | error e => rw [hu] at h; cases h
    | ok r =>
      obtain ⟨n, vs⟩ := r
      rw [hu] at h
      dsimp only at h
      cases hh : headerOfPy n vs with
      | error e => rw [hh] at h; cases h
      | ok hv =>
        rw [hh] at h
        exact ⟨b0, rest, n, vs, hv, rfl, hu, hh, h⟩

end Txdbus.Msg
