import TxdbusModel.Proofs.Msg.Props
/-
C03, proofs of the five property theorems (restated in Properties/C03.lean for the generated tables).
-/
namespace Txdbus.Msg
namespace Main

/-- The `signature` argument of a constructor call has no NUL character (a valid DBus signature never
has one; `marshal_signature` carries an "XXX validate signature" note and would pass it on). -/
def SigNoNul {β : Type} (c : Call β) : Prop := ∀ sg, c.signature = some sg → sg.contains nul = false

theorem pre_signature {β : Type} (c : Call β) : c.pre.attrs .signature = strAttr c.signature := by
  cases c <;> simp [Call.pre, Call.signature, setAttr]

theorem fields_noNul {β : Type} {T : Tables} {C : BodyCodec β} {na : Char → Bool} {maxLen : Nat} {st st' : St}
    {c : Call β} {m : Msg β} {sm : SpecMsg} (hb : Built T C na maxLen st st' c m sm) (hsig : SigNoNul c) :
    ∀ f ∈ sm.fields, NoNulSig f.2 := by
  intro f hf s hs
  have hspec := hb.spec
  simp only [Msg.toSpec] at hspec
  cases hfs : specFieldsOf m.attrs (T.entries m.cls (hasFds m)) with
  | none => rw [hfs] at hspec; cases hspec
  | some fs =>
    rw [hfs] at hspec
    simp only [Option.map_some, Option.some.injEq] at hspec
    have hfields : sm.fields = fs := by rw [← hspec]
    rw [hfields] at hf
    have h1 := specFieldsOf_sig m.attrs hb.shape _ fs hfs f hf s hs
    rw [hb.attrs .signature (by decide), pre_signature] at h1
    cases hc : c.signature with
    | none => rw [hc] at h1; cases h1
    | some sg =>
      rw [hc] at h1
      simp only [strAttr, PyVal.str.injEq, true_and] at h1
      subst h1
      exact hsig sg hc

theorem runValidator_ok {v : Valid.Str → Valid.Outcome} {o : Option Valid.Str} (h : runValidator v o = .ok ()) :
    ∃ s, o = some s ∧ v s = .accept := by
  cases o with
  | none => simp [runValidator] at h
  | some s =>
    refine ⟨s, rfl, ?_⟩
    simp only [runValidator] at h
    cases hv : v s with
    | accept => rfl
    | raised e => rw [hv] at h; cases h

theorem validateOpt_ok {v : Valid.Str → Valid.Outcome} {o : Option Valid.Str} (h : validateOpt v o = .ok ()) :
    ∀ s, o = some s → v s = .accept := by
  intro s hs
  subst hs
  obtain ⟨s', h1, h2⟩ := runValidator_ok (v := v) (o := some s) h
  cases h1
  exact h2

theorem strAttr_eq {o : Option (List Char)} {s : List Char} (h : strAttr o = .str .plain s) : o = some s := by
  cases o with
  | none => cases h
  | some t => simp only [strAttr, PyVal.str.injEq, true_and] at h; rw [h]

/-- T5. -/
theorem cannot_construct {β : Type} (T : Tables) (hT : T.OK) (C : BodyCodec β) (na : Char → Bool) (maxLen : Nat)
    (st st' : St) (c : Call β) (m : Msg β) (h : construct T C na maxLen st c = (st', .ok m)) :
    m.raw.length ≤ maxLen ∧
    (∀ s, m.attrs .path = .str .plain s → Valid.GrammarObjectPath s ∧ (m.cls = .methodCall → s ≠ T.reservedPath)) ∧
    (∀ s, m.attrs .interface = .str .plain s → Valid.GrammarInterfaceName s) ∧
    (∀ s, m.attrs .member = .str .plain s → Valid.GrammarMemberName s) ∧
    (∀ s, m.attrs .destination = .str .plain s → Valid.GrammarBusName s) ∧
    (∀ s, m.attrs .errorName = .str .plain s → Valid.GrammarErrorName s) ∧
    -- the required name attributes are present
    (m.cls = .methodCall ∨ m.cls = .signal → ∃ s, m.attrs .member = .str .plain s) ∧
    (m.cls = .signal → ∃ s, m.attrs .interface = .str .plain s) ∧
    (m.cls = .error → ∃ s, m.attrs .errorName = .str .plain s) := by
  obtain ⟨sm, hb⟩ := construct_ok T hT C na maxLen st st' c m h
  have hchecks := hb.checks
  have hattr : ∀ a, a ≠ .unixFds → m.attrs a = c.pre.attrs a := hb.attrs
  refine ⟨hb.len, ?_, ?_, ?_, ?_, ?_, ?_, ?_, ?_⟩
  · intro s hs
    refine ⟨(Valid.validateObjectPath_accept_iff s).mp (hb.pathOK s hs), ?_⟩
    intro hcls
    rw [hb.cls] at hcls
    cases c with
    | methodCall a =>
      rw [hattr .path (by decide)] at hs
      simp only [Call.pre, setAttr] at hs
      have hp := strAttr_eq hs
      simp only [Call.checks] at hchecks
      cases h1 : runValidator (Valid.validateMemberName na) a.member with
      | error x => rw [h1] at hchecks; cases hchecks
      | ok u =>
        cases u
        rw [h1] at hchecks
        dsimp only at hchecks
        cases h2 : validateOpt (Valid.validateInterfaceName na) a.interface with
        | error x => rw [h2] at hchecks; cases hchecks
        | ok u =>
          cases u
          rw [h2] at hchecks
          dsimp only at hchecks
          cases h3 : validateOpt (Valid.validateBusName na) a.destination with
          | error x => rw [h3] at hchecks; cases hchecks
          | ok u =>
            cases u
            rw [h3] at hchecks
            dsimp only at hchecks
            by_cases hr : a.path = some T.reservedPath
            · rw [if_pos hr] at hchecks; cases hchecks
            · intro hsr
              subst hsr
              exact hr hp
    | methodReturn a => cases hcls
    | error a => cases hcls
    | signal a => cases hcls
  · intro s hs
    rw [hattr .interface (by decide)] at hs
    apply (Valid.validateInterfaceName_accept_iff na s).mp
    cases c with
    | methodCall a =>
      simp only [Call.pre, setAttr] at hs
      have hp := strAttr_eq hs
      simp only [Call.checks] at hchecks
      cases h1 : runValidator (Valid.validateMemberName na) a.member with
      | error x => rw [h1] at hchecks; cases hchecks
      | ok u =>
        cases u
        rw [h1] at hchecks
        dsimp only at hchecks
        cases h2 : validateOpt (Valid.validateInterfaceName na) a.interface with
        | error x => rw [h2] at hchecks; cases hchecks
        | ok u => cases u; exact validateOpt_ok h2 s hp
    | methodReturn a => simp [Call.pre, setAttr, noAttrs] at hs
    | error a => simp [Call.pre, setAttr, noAttrs] at hs
    | signal a =>
      simp only [Call.pre, setAttr] at hs
      have hp := strAttr_eq hs
      simp only [Call.checks] at hchecks
      cases h1 : runValidator (Valid.validateMemberName na) a.member with
      | error x => rw [h1] at hchecks; cases hchecks
      | ok u =>
        cases u
        rw [h1] at hchecks
        dsimp only at hchecks
        cases h2 : runValidator (Valid.validateInterfaceName na) a.interface with
        | error x => rw [h2] at hchecks; cases hchecks
        | ok u =>
          cases u
          obtain ⟨s', e1, e2⟩ := runValidator_ok h2
          rw [hp] at e1; cases e1; exact e2
  · intro s hs
    rw [hattr .member (by decide)] at hs
    apply (Valid.validateMemberName_accept_iff na s).mp
    cases c with
    | methodCall a =>
      simp only [Call.pre, setAttr] at hs
      have hp := strAttr_eq hs
      simp only [Call.checks] at hchecks
      cases h1 : runValidator (Valid.validateMemberName na) a.member with
      | error x => rw [h1] at hchecks; cases hchecks
      | ok u =>
        cases u
        obtain ⟨s', e1, e2⟩ := runValidator_ok h1
        rw [hp] at e1; cases e1; exact e2
    | methodReturn a => simp [Call.pre, setAttr, noAttrs] at hs
    | error a => simp [Call.pre, setAttr, noAttrs] at hs
    | signal a =>
      simp only [Call.pre, setAttr] at hs
      have hp := strAttr_eq hs
      simp only [Call.checks] at hchecks
      cases h1 : runValidator (Valid.validateMemberName na) a.member with
      | error x => rw [h1] at hchecks; cases hchecks
      | ok u =>
        cases u
        obtain ⟨s', e1, e2⟩ := runValidator_ok h1
        rw [hp] at e1; cases e1; exact e2
  · intro s hs
    rw [hattr .destination (by decide)] at hs
    apply (Valid.validateBusName_accept_iff na s).mp
    cases c with
    | methodCall a =>
      simp only [Call.pre, setAttr] at hs
      have hp := strAttr_eq hs
      simp only [Call.checks] at hchecks
      cases h1 : runValidator (Valid.validateMemberName na) a.member with
      | error x => rw [h1] at hchecks; cases hchecks
      | ok u =>
        cases u
        rw [h1] at hchecks
        dsimp only at hchecks
        cases h2 : validateOpt (Valid.validateInterfaceName na) a.interface with
        | error x => rw [h2] at hchecks; cases hchecks
        | ok u =>
          cases u
          rw [h2] at hchecks
          dsimp only at hchecks
          cases h3 : validateOpt (Valid.validateBusName na) a.destination with
          | error x => rw [h3] at hchecks; cases hchecks
          | ok u => cases u; exact validateOpt_ok h3 s hp
    | methodReturn a =>
      simp only [Call.pre, setAttr] at hs
      have hp := strAttr_eq hs
      simp only [Call.checks] at hchecks
      exact validateOpt_ok hchecks s hp
    | error a =>
      simp only [Call.pre, setAttr] at hs
      have hp := strAttr_eq hs
      simp only [Call.checks] at hchecks
      cases h1 : validateOpt (Valid.validateBusName na) a.destination with
      | error x => rw [h1] at hchecks; cases hchecks
      | ok u => cases u; exact validateOpt_ok h1 s hp
    | signal a =>
      simp only [Call.pre, setAttr] at hs
      have hp := strAttr_eq hs
      simp only [Call.checks] at hchecks
      cases h1 : runValidator (Valid.validateMemberName na) a.member with
      | error x => rw [h1] at hchecks; cases hchecks
      | ok u =>
        cases u
        rw [h1] at hchecks
        dsimp only at hchecks
        cases h2 : runValidator (Valid.validateInterfaceName na) a.interface with
        | error x => rw [h2] at hchecks; cases hchecks
        | ok u =>
          cases u
          rw [h2] at hchecks
          dsimp only at hchecks
          exact validateOpt_ok hchecks s hp
  · intro s hs
    rw [hattr .errorName (by decide)] at hs
    show Valid.GrammarInterfaceName s
    apply (Valid.validateInterfaceName_accept_iff na s).mp
    cases c with
    | methodCall a => simp [Call.pre, setAttr, noAttrs] at hs
    | methodReturn a => simp [Call.pre, setAttr, noAttrs] at hs
    | signal a => simp [Call.pre, setAttr, noAttrs] at hs
    | error a =>
      simp only [Call.pre, setAttr] at hs
      have hp := strAttr_eq hs
      simp only [Call.checks] at hchecks
      cases h1 : validateOpt (Valid.validateBusName na) a.destination with
      | error x => rw [h1] at hchecks; cases hchecks
      | ok u =>
        cases u
        rw [h1] at hchecks
        dsimp only at hchecks
        obtain ⟨s', e1, e2⟩ := runValidator_ok hchecks
        rw [hp] at e1; cases e1; exact e2
  · intro hcls
    rw [hb.cls] at hcls
    rw [hattr .member (by decide)]
    cases c with
    | methodCall a =>
      simp only [Call.checks] at hchecks
      cases h1 : runValidator (Valid.validateMemberName na) a.member with
      | error x => rw [h1] at hchecks; cases hchecks
      | ok u =>
        cases u
        obtain ⟨s', e1, _⟩ := runValidator_ok h1
        exact ⟨s', by simp [Call.pre, setAttr, e1, strAttr]⟩
    | signal a =>
      simp only [Call.checks] at hchecks
      cases h1 : runValidator (Valid.validateMemberName na) a.member with
      | error x => rw [h1] at hchecks; cases hchecks
      | ok u =>
        cases u
        obtain ⟨s', e1, _⟩ := runValidator_ok h1
        exact ⟨s', by simp [Call.pre, setAttr, e1, strAttr]⟩
    | methodReturn a => simp [Call.pre] at hcls
    | error a => simp [Call.pre] at hcls
  · intro hcls
    rw [hb.cls] at hcls
    rw [hattr .interface (by decide)]
    cases c with
    | signal a =>
      simp only [Call.checks] at hchecks
      cases h1 : runValidator (Valid.validateMemberName na) a.member with
      | error x => rw [h1] at hchecks; cases hchecks
      | ok u =>
        cases u
        rw [h1] at hchecks
        dsimp only at hchecks
        cases h2 : runValidator (Valid.validateInterfaceName na) a.interface with
        | error x => rw [h2] at hchecks; cases hchecks
        | ok u =>
          cases u
          obtain ⟨s', e1, _⟩ := runValidator_ok h2
          exact ⟨s', by simp [Call.pre, setAttr, e1, strAttr]⟩
    | methodCall a => simp [Call.pre] at hcls
    | methodReturn a => simp [Call.pre] at hcls
    | error a => simp [Call.pre] at hcls
  · intro hcls
    rw [hb.cls] at hcls
    rw [hattr .errorName (by decide)]
    cases c with
    | error a =>
      simp only [Call.checks] at hchecks
      cases h1 : validateOpt (Valid.validateBusName na) a.destination with
      | error x => rw [h1] at hchecks; cases hchecks
      | ok u =>
        cases u
        rw [h1] at hchecks
        dsimp only at hchecks
        obtain ⟨s', e1, _⟩ := runValidator_ok hchecks
        exact ⟨s', by simp [Call.pre, setAttr, e1, strAttr]⟩
    | methodCall a => simp [Call.pre] at hcls
    | methodReturn a => simp [Call.pre] at hcls
    | signal a => simp [Call.pre] at hcls

/-- The header fields of a constructed message address every attribute that is set, through the table. -/
theorem built_inTable {β : Type} {T : Tables} (hT : T.OK) {C : BodyCodec β} {na : Char → Bool} {maxLen : Nat}
    {st st' : St} {c : Call β} {m : Msg β} {sm : SpecMsg} (hb : Built T C na maxLen st st' c m sm) :
    ∀ a, m.attrs a ≠ .none → ∃ ent ∈ T.entries m.cls (hasFds m), ent.1 = a := by
  intro a hne
  by_cases ha : a = .unixFds
  · subst ha
    have hf : hasFds m = true := by
      simp only [hasFds, Bool.not_eq_true']
      cases h : isNone (m.attrs .unixFds) with
      | false => rfl
      | true => exact absurd ((isNone_iff _).mp h) hne
    rw [hf]
    exact ⟨T.unixFdsEntry, by simp [Tables.entries], hT.fdsEntry.1⟩
  · rw [hb.attrs a ha] at hne
    have hin := (Call.preOK c).inTable a hne
    have hcov := hT.covers c.pre.cls a hin
    rw [List.mem_map] at hcov
    obtain ⟨ent, he1, he2⟩ := hcov
    refine ⟨ent, ?_, he2⟩
    rw [hb.cls]
    simp only [Tables.entries]
    split
    · exact List.mem_append_left _ he1
    · exact he1

/-- The signature of a constructed message was marshalled as a SIGNATURE: at most 255 characters. -/
theorem built_sigLen {β : Type} {T : Tables} (hT : T.OK) {C : BodyCodec β} {na : Char → Bool} {maxLen : Nat}
    {st st' : St} {c : Call β} {m : Msg β} {sm : SpecMsg} (hb : Built T C na maxLen st st' c m sm)
    (sg : List Char) (hsg : m.attrs .signature = .str .plain sg) (hwf : sm.fields.all Field.wf = true) :
    sg.length < 256 := by
  have hne : m.attrs .signature ≠ .none := by rw [hsg]; intro h; cases h
  obtain ⟨ent, he1, he2⟩ := built_inTable hT hb .signature hne
  have hspec := hb.spec
  simp only [Msg.toSpec] at hspec
  cases hfs : specFieldsOf m.attrs (T.entries m.cls (hasFds m)) with
  | none => rw [hfs] at hspec; cases hspec
  | some fs =>
    rw [hfs] at hspec
    simp only [Option.map_some, Option.some.injEq] at hspec
    have hfields : sm.fields = fs := by rw [← hspec]
    obtain ⟨f, hf, w, _, hw, hh⟩ := specFieldsOf_has m.attrs _ fs hfs ent he1 (by rw [he2]; exact hne)
    rw [he2, hsg] at hw
    simp only [wrapAttr, toStrCls, Except.ok.injEq] at hw
    subst hw
    simp only [hvalOf, Option.some.injEq] at hh
    rw [hfields] at hwf
    have := List.all_eq_true.mp hwf f hf
    simp only [Field.wf, Bool.and_eq_true, decide_eq_true_eq] at this
    rw [← hh] at this
    simp only [HVal.wf, if_true, Bool.and_eq_true, decide_eq_true_eq] at this
    exact this.2.2.2

theorem built_fields {β : Type} {T : Tables} {C : BodyCodec β} {na : Char → Bool} {maxLen : Nat} {st st' : St}
    {c : Call β} {m : Msg β} {sm : SpecMsg} (hb : Built T C na maxLen st st' c m sm) :
    specFieldsOf m.attrs (T.entries m.cls (hasFds m)) = some sm.fields := by
  have hspec := hb.spec
  simp only [Msg.toSpec] at hspec
  cases hfs : specFieldsOf m.attrs (T.entries m.cls (hasFds m)) with
  | none => rw [hfs] at hspec; cases hspec
  | some fs =>
    rw [hfs] at hspec
    simp only [Option.map_some, Option.some.injEq] at hspec
    rw [← hspec]

/-- Every header field of a constructed message has the type the specification's table gives its code. -/
theorem built_typed {β : Type} {T : Tables} (hT : T.OK) {C : BodyCodec β} {na : Char → Bool} {maxLen : Nat}
    {st st' : St} {c : Call β} {m : Msg β} {sm : SpecMsg} (hb : Built T C na maxLen st st' c m sm) :
    (∀ f ∈ sm.fields, Spec.fieldType f.1 = some f.2.ty) ∧ sm.typed = true := by
  have h := specFieldsOf_typed T hT m.cls (hasFds m) m.attrs hb.shape sm.fields (built_fields hb)
  refine ⟨h, ?_⟩
  simp only [SpecMsg.typed, List.all_eq_true]
  intro f hf
  rw [h f hf]
  simp

/-- The attributes whose fields the specification requires are set on a constructed message (the path: when given). -/
theorem required_present {β : Type} (T : Tables) (hT : T.OK) (C : BodyCodec β) (na : Char → Bool) (maxLen : Nat)
    (st st' : St) (c : Call β) (m : Msg β) (h : construct T C na maxLen st c = (st', .ok m)) (hp : c.pathGiven) :
    ∀ a ∈ requiredAttrs m.cls, m.attrs a ≠ .none := by
  obtain ⟨sm, hb⟩ := construct_ok T hT C na maxLen st st' c m h
  obtain ⟨_, _, _, _, _, _, hmem, hifc, herr⟩ := cannot_construct T hT C na maxLen st st' c m h
  have hattr := hb.attrs
  have hcls := hb.cls
  intro a ha
  cases c with
  | methodCall args =>
    simp only [Call.pre] at hcls
    rw [hcls] at ha hmem
    simp only [requiredAttrs, List.mem_cons, List.not_mem_nil, or_false] at ha
    rcases ha with rfl | rfl
    · rw [hattr .path (by decide)]
      simp only [Call.pathGiven] at hp
      cases hpa : args.path with
      | none => exact absurd hpa hp
      | some pth => simp [Call.pre, setAttr, hpa, strAttr]
    · obtain ⟨s, hs⟩ := hmem (Or.inl rfl)
      rw [hs]; intro hc; cases hc
  | methodReturn args =>
    simp only [Call.pre] at hcls
    rw [hcls] at ha
    simp only [requiredAttrs, List.mem_cons, List.not_mem_nil, or_false] at ha
    subst ha
    rw [hattr .replySerial (by decide)]
    simp [Call.pre, setAttr]
  | error args =>
    simp only [Call.pre] at hcls
    rw [hcls] at ha herr
    simp only [requiredAttrs, List.mem_cons, List.not_mem_nil, or_false] at ha
    rcases ha with rfl | rfl
    · obtain ⟨s, hs⟩ := herr rfl
      rw [hs]; intro hc; cases hc
    · rw [hattr .replySerial (by decide)]
      simp [Call.pre, setAttr]
  | signal args =>
    simp only [Call.pre] at hcls
    rw [hcls] at ha hmem hifc
    simp only [requiredAttrs, List.mem_cons, List.not_mem_nil, or_false] at ha
    rcases ha with rfl | rfl | rfl
    · rw [hattr .path (by decide)]
      simp only [Call.pathGiven] at hp
      cases hpa : args.path with
      | none => exact absurd hpa hp
      | some pth => simp [Call.pre, setAttr, hpa, strAttr]
    · obtain ⟨s, hs⟩ := hifc rfl
      rw [hs]; intro hc; cases hc
    · obtain ⟨s, hs⟩ := hmem (Or.inr rfl)
      rw [hs]; intro hc; cases hc

/-- ... hence the header fields the specification requires for the message type are in the field array. -/
theorem built_required {β : Type} (T : Tables) (hT : T.OK) (C : BodyCodec β) (na : Char → Bool) (maxLen : Nat)
    (st st' : St) (c : Call β) (m : Msg β) (sm : SpecMsg) (h : construct T C na maxLen st c = (st', .ok m))
    (hb : Built T C na maxLen st st' c m sm) (hp : c.pathGiven) : sm.hasRequired = true := by
  have hpres := required_present T hT C na maxLen st st' c m h hp
  have hmt : sm.mtype = T.messageType m.cls := by rw [hb.smEq, hb.cls]; rfl
  simp only [SpecMsg.hasRequired, List.all_eq_true, hmt]
  intro code hcode
  obtain ⟨ent, he1, he2, he3⟩ := hT.required m.cls code hcode
  have hent : ent ∈ T.entries m.cls (hasFds m) := by
    simp only [Tables.entries]
    split
    · exact List.mem_append_left _ he1
    · exact he1
  obtain ⟨f, hf, w, hf1, _, _⟩ := specFieldsOf_has m.attrs _ sm.fields (built_fields hb) ent hent (hpres ent.1 he3)
  rw [List.contains_iff_mem, List.mem_map]
  exact ⟨f, hf, by rw [hf1, he2]⟩

theorem built_valid {β : Type} {T : Tables} (hT : T.OK) {C : BodyCodec β} {na : Char → Bool} {maxLen : Nat}
    {st st' : St} {c : Call β} {m : Msg β} {sm : SpecMsg} (hb : Built T C na maxLen st st' c m sm)
    (hsig : SigNoNul c) (hs : 1 ≤ st.nextSerial) :
    sm.encodable = true ∧
      (maxLen ≤ Spec.maxMessage → (Spec.fieldArray sm).length ≤ Spec.maxArray → sm.sized = true) := by
  have hwf := hb.wf (fields_noNul hb hsig)
  have heq := hb.smEq
  have hmt : sm.mtype = T.messageType c.pre.cls := by rw [heq]; rfl
  have hfl : sm.flags = flagsByte c.pre.expectReply c.pre.autoStart := by rw [heq]; rfl
  have hse : sm.serial = st.nextSerial := by rw [heq]; rfl
  have hbo : sm.body = m.rawBody := by rw [heq]; rfl
  have h4 := flagsByte_lt c.pre.expectReply c.pre.autoStart
  obtain ⟨m1, m2, _⟩ := hT.mtype c.pre.cls
  refine ⟨?_, ?_⟩
  · simp only [SpecMsg.encodable, Bool.and_eq_true, decide_eq_true_eq]
    refine ⟨⟨⟨⟨⟨by omega, by omega⟩, by rw [hse]; exact hb.serialLt⟩, by rw [hbo]; exact hb.bodyLt⟩, hb.arrayLt⟩, hwf⟩
  · intro hmax harr
    simp only [SpecMsg.sized, Bool.and_eq_true, decide_eq_true_eq]
    refine ⟨⟨⟨⟨⟨⟨by omega, by omega⟩, by omega⟩, ⟨by omega, by rw [hse]; exact hb.serialLt⟩⟩, hwf⟩, harr⟩, ?_⟩
    rw [← hb.raw]
    exact Nat.le_trans hb.len hmax

/-- T1. -/
theorem marshal_wellformed {β : Type} (T : Tables) (hT : T.OK) (C : BodyCodec β) (na : Char → Bool) (maxLen : Nat)
    (hmax : maxLen ≤ Spec.maxMessage) (st st' : St) (c : Call β) (m : Msg β)
    (hs : 1 ≤ st.nextSerial) (hsig : SigNoNul c)
    (h : construct T C na maxLen st c = (st', .ok m)) :
    ∃ sm : SpecMsg, m.toSpec T = some sm ∧
      m.raw = Spec.fixedPart sm (Spec.fieldArray sm).length ++ Spec.fieldArray sm ++ Spec.headerPad sm ++ m.rawBody ∧
      m.rawHeader = Spec.fixedPart sm (Spec.fieldArray sm).length ++ Spec.fieldArray sm ∧
      m.rawPadding = Spec.headerPad sm ∧
      (Spec.fixedPart sm (Spec.fieldArray sm).length).length = 16 ∧
      (m.rawHeader ++ m.rawPadding).length % 8 = 0 ∧
      m.rawPadding.length < 8 ∧ (∀ b ∈ m.rawPadding, b = 0) ∧
      Spec.fixedPart sm (Spec.fieldArray sm).length =
        [108, UInt8.ofNat (T.messageType m.cls), UInt8.ofNat (flagsByte m.expectReply m.autoStart), 1]
          ++ encUInt .little 4 m.rawBody.length ++ encUInt .little 4 m.serial
          ++ encUInt .little 4 (Spec.fieldArray sm).length ∧
      T.messageType m.cls < 256 ∧ m.rawBody.length < 4294967296 ∧ (Spec.fieldArray sm).length < 4294967296 ∧
      m.serial = st.nextSerial ∧ m.serial ≠ 0 ∧ m.serial < 4294967296 ∧ st'.nextSerial = st.nextSerial + 1 ∧
      sm.fields.map (·.1) = (liveEntries m.attrs (T.entries m.cls (hasFds m))).map (·.2.1) ∧
      (sm.fields.map (·.1)).Nodup ∧ sm.fields.all Field.wf = true ∧
      (∀ f ∈ sm.fields, Spec.fieldType f.1 = some f.2.ty) ∧
      (c.pathGiven → ∀ code ∈ Spec.requiredCodes (T.messageType m.cls), code ∈ sm.fields.map (·.1)) ∧
      m.raw.length ≤ maxLen ∧
      (c.pathGiven → (Spec.fieldArray sm).length ≤ Spec.maxArray → Spec.decodeMsg m.raw = some sm) := by
  obtain ⟨sm, hb⟩ := construct_ok T hT C na maxLen st st' c m h
  obtain ⟨henc, hval⟩ := built_valid hT hb hsig hs
  have heq := hb.smEq
  have hbo : sm.body = m.rawBody := by rw [heq]; rfl
  have hpadlen : (Spec.headerPad sm).length = padLen 8 (16 + (Spec.fieldArray sm).length) := Spec.headerPad_length sm
  have hfix := Spec.fixedPart_length sm (Spec.fieldArray sm).length
  obtain ⟨m1, m2, _⟩ := hT.mtype m.cls
  have hcodes : sm.fields.map (·.1) = (liveEntries m.attrs (T.entries m.cls (hasFds m))).map (·.2.1) := by
    have := congrArg (List.map Prod.fst) (hb.fieldsPy none)
    simpa [List.map_map, Function.comp_def] using this
  refine ⟨sm, hb.spec, ?_, hb.hdr, hb.pad, hfix, ?_, ?_, ?_, ?_, by omega, hb.bodyLt, hb.arrayLt, hb.serial, ?_, ?_, hb.next,
    hcodes, ?_, hb.wf (fields_noNul hb hsig), (built_typed hT hb).1, ?_, hb.len, ?_⟩
  · rw [hb.raw, ← hbo]; simp [Spec.encodeMsg]
  · rw [hb.hdr, hb.pad]
    simp only [List.length_append, hfix, hpadlen]
    exact padLen_aligned 8 _ (by omega)
  · rw [hb.pad, hpadlen]; exact padLen_lt 8 _ (by omega)
  · intro b hbm
    rw [hb.pad] at hbm
    simp only [Spec.headerPad, zeros, List.mem_replicate] at hbm
    exact hbm.2
  · rw [heq]
    simp [Spec.fixedPart, specOf, Spec.endianByte, Spec.version, hb.cls, hb.er, hb.as_, hb.serial]
  · rw [hb.serial]; omega
  · rw [hb.serial]; exact hb.serialLt
  · rw [hcodes]
    have hnd := hT.nodupCodes m.cls
    have hsub : List.Sublist ((liveEntries m.attrs (T.entries m.cls (hasFds m))).map (·.2.1))
        ((T.entries m.cls true).map (·.2.1)) := by
      apply List.Sublist.map
      apply List.Sublist.trans (List.filter_sublist)
      cases hasFds m with
      | true => exact List.Sublist.refl _
      | false => simp only [Tables.entries]; exact List.sublist_append_left _ _
    exact hsub.nodup hnd
  · intro hp code hcode
    have hreq := built_required T hT C na maxLen st st' c m sm h hb hp
    have hmt : sm.mtype = T.messageType m.cls := by rw [hb.smEq, hb.cls]; rfl
    simp only [SpecMsg.hasRequired, List.all_eq_true, hmt] at hreq
    have := hreq code hcode
    rwa [List.contains_iff_mem] at this
  · intro hp harr
    rw [hb.raw]
    apply Spec.decodeMsg_encodeMsg sm
    simp only [SpecMsg.valid, Bool.and_eq_true]
    exact ⟨⟨hval hmax harr, (built_typed hT hb).2⟩, built_required T hT C na maxLen st st' c m sm h hb hp⟩


/-- T3. -/
theorem parse_marshal {β : Type} (T : Tables) (hT : T.OK) (C : BodyCodec β) (na : Char → Bool) (maxLen : Nat)
    (st st' : St) (c : Call β) (m : Msg β) (hs : 1 ≤ st.nextSerial) (hsig : SigNoNul c)
    (h : construct T C na maxLen st c = (st', .ok m))
    (fdsAfter : Option (List PyVal)) (decoded : β)
    (hC : ∀ sg, m.attrs .signature = .str .plain sg → sg ≠ [] →
        ∃ bytes fds', C.marshal sg m.body c.oob = .ok (bytes, fds') ∧ C.unmarshal sg bytes true fdsAfter = .ok decoded) :
    ∃ m' : Msg β, parseMessage T C m.raw fdsAfter = .ok m' ∧
      m'.cls = m.cls ∧ m'.serial = m.serial ∧ m'.expectReply = m.expectReply ∧ m'.autoStart = m.autoStart ∧
      (∀ a, m'.attrs a = plain (m.attrs a)) ∧
      m'.body = (if truthy (m.attrs .signature) then some decoded else none) ∧
      m'.rawHeader = m.rawHeader ∧ m'.rawPadding = m.rawPadding ∧ m'.rawBody = m.rawBody ∧
      m'.otherFlags = 0 ∧ m.otherFlags = 0 := by
  obtain ⟨sm, hb⟩ := construct_ok T hT C na maxLen st st' c m h
  obtain ⟨henc, _⟩ := built_valid hT hb hsig hs
  have hof : sm.flags / 4 * 4 = 0 := by
    have h4 := flagsByte_lt c.pre.expectReply c.pre.autoStart
    have : sm.flags = flagsByte c.pre.expectReply c.pre.autoStart := by rw [hb.smEq]; rfl
    rw [this]; omega
  have heq := hb.smEq
  have hmt : sm.mtype = T.messageType m.cls := by rw [heq, hb.cls]; rfl
  have hfl : sm.flags = flagsByte m.expectReply m.autoStart := by rw [heq, hb.er, hb.as_]; rfl
  have hse : sm.serial = m.serial := by rw [heq, hb.serial]; rfl
  have hbo : sm.body = m.rawBody := by rw [heq]; rfl
  have hen : sm.endian = .little := by rw [heq]; rfl
  have hcls : lookupClass T sm.mtype = some m.cls := by rw [hmt]; exact (hT.mtype m.cls).2.2
  -- no field of an own message is of type `h`
  have hnoh : ∀ f ∈ sm.fields, f.2.ty = .h → fdsAfter ≠ none := by
    intro f hf hty
    exfalso
    have hwf := hb.wf (fields_noNul hb hsig)
    have hspec := hb.spec
    simp only [Msg.toSpec] at hspec
    cases hfs : specFieldsOf m.attrs (T.entries m.cls (hasFds m)) with
    | none => rw [hfs] at hspec; cases hspec
    | some fs =>
      rw [hfs] at hspec
      simp only [Option.map_some, Option.some.injEq] at hspec
      have hfields : sm.fields = fs := by rw [← hspec]
      rw [hfields] at hf
      exact specFieldsOf_noH m.attrs _ fs hfs f hf hty
  rw [hb.raw, parse_spec T hT C sm henc m.cls hcls fdsAfter hnoh]
  have hattrs : ∀ a, (parsedBase (β := β) T m.cls sm fdsAfter).attrs a = plain (m.attrs a) := by
    intro a
    simp only [parsedBase]
    rw [hb.fieldsPy fdsAfter]
    exact own_attrs T hT m.cls (hasFds m) m.attrs (built_inTable hT hb) a
  dsimp only
  rw [hattrs .signature]
  have hshape := hb.shape .signature
  rcases hshape with hnone | ⟨sg, hsg⟩
  · -- signature None
    rw [hnone]
    simp only [plain, truthy, Bool.false_eq_true, if_false]
    refine ⟨_, rfl, rfl, hse, ?_, ?_, hattrs, rfl, hb.hdr.symm, hb.pad.symm, hbo, hof, hb.other⟩
    · simp only [parsedBase, hfl, flags_er]; cases m.expectReply <;> simp
    · simp only [parsedBase, hfl, flags_as]; cases m.autoStart <;> simp
  · rw [hsg]
    simp only [plain]
    cases sg with
    | nil =>
      simp only [truthy, List.isEmpty_nil, Bool.not_true, Bool.false_eq_true, if_false]
      refine ⟨_, rfl, rfl, hse, ?_, ?_, hattrs, rfl, hb.hdr.symm, hb.pad.symm, hbo, hof, hb.other⟩
      · simp only [parsedBase, hfl, flags_er]; cases m.expectReply <;> simp
      · simp only [parsedBase, hfl, flags_as]; cases m.autoStart <;> simp
    | cons ch cs =>
      obtain ⟨bytes, fdsOut, hm1, hm2⟩ := hC (ch :: cs) hsg (by simp)
      -- the bytes are the body of the message
      have hbody : bytes = m.rawBody := by
        rcases hb.bodyCase with ⟨ht, _, _⟩ | ⟨sg', fds', hs1, _, hs3, _⟩
        · rw [← hb.attrs .signature (by decide), hsg] at ht
          simp [truthy] at ht
        · rw [← hb.attrs .signature (by decide), hsg] at hs1
          simp only [PyVal.str.injEq, true_and] at hs1
          subst hs1
          rw [← hb.body, hm1] at hs3
          simp only [Except.ok.injEq, Prod.mk.injEq] at hs3
          exact hs3.1
      -- its length fits one byte (it was marshalled as a SIGNATURE)
      have hlen : ¬ (ch :: cs).length > 255 := by
        have hwf := hb.wf (fields_noNul hb hsig)
        have := built_sigLen hT hb (ch :: cs) hsg hwf
        omega
      simp only [truthy, List.isEmpty_cons, Bool.not_false, if_true]
      rw [if_neg hlen, hbo, ← hbody, hen]
      simp only [decide_true, hm2]
      refine ⟨_, rfl, rfl, hse, ?_, ?_, hattrs, rfl, hb.hdr.symm, hb.pad.symm, by rw [hbody]; exact hbo, hof, hb.other⟩
      · simp only [parsedBase, hfl, flags_er]; cases m.expectReply <;> simp
      · simp only [parsedBase, hfl, flags_as]; cases m.autoStart <;> simp


/-- The value of attribute `a` in a list of known header fields: the field whose code `_hcode` maps to `a`. -/
def fieldFor (T : Tables) (known : List Field) (a : Attr) : Option HVal :=
  (known.find? (fun f => lookupAttr T f.1 == some a)).map (·.2)

/-- The `setattr` loop on any permutation of `known ++ extra` (no attribute addressed twice among `known`, codes of
`extra` unknown to `_hcode`): every attribute ends up with the value of the known field that addresses it. -/
theorem applyFields_perm (T : Tables) (fields known extra : List Field) (hperm : fields.Perm (known ++ extra))
    (hextra : ∀ f ∈ extra, lookupAttr T f.1 = none)
    (hknown : (known.map (fun f => lookupAttr T f.1)).Nodup) (fds : Option (List PyVal)) (a : Attr) :
    applyFields T noAttrs (fields.map fun f => (f.1, pyOf fds f.2)) a =
      match fieldFor T known a with
      | some hv => pyOf fds hv
      | none => .none := by
  simp only [fieldFor]
  cases hfind : known.find? (fun f => lookupAttr T f.1 == some a) with
  | none =>
    simp only [Option.map_none]
    rw [applyFields_none]
    · rfl
    · intro x hx hl
      rw [List.mem_map] at hx
      obtain ⟨f, hf, rfl⟩ := hx
      have hf' := (hperm.mem_iff).mp hf
      rw [List.mem_append] at hf'
      rcases hf' with hk | he
      · have := List.find?_eq_none.mp hfind f hk
        simp only at hl
        simp [hl] at this
      · have := hextra f he
        simp only at hl
        rw [this] at hl; cases hl
  | some f0 =>
    simp only [Option.map_some]
    have hf0 := List.mem_of_find?_eq_some hfind
    have hp0 := List.find?_some hfind
    simp only [beq_iff_eq] at hp0
    apply applyFields_unique T _ _ a f0.1 (pyOf fds f0.2)
    · rw [List.mem_map]
      exact ⟨f0, (hperm.mem_iff).mpr (List.mem_append_left _ hf0), rfl⟩
    · exact hp0
    · intro x hx hl
      rw [List.mem_map] at hx
      obtain ⟨f, hf, rfl⟩ := hx
      have hf' := (hperm.mem_iff).mp hf
      rw [List.mem_append] at hf'
      rcases hf' with hk | he
      · simp only at hl
        have := nodup_map_inj (fun f => lookupAttr T f.1) known hknown f hk f0 hf0 (by rw [hl, hp0])
        rw [this]
      · have := hextra f he
        simp only at hl
        rw [this] at hl; cases hl

/-- T4. -/
theorem parse_foreign {β : Type} (T : Tables) (hT : T.OK) (C : BodyCodec β) (w : SpecMsg) (hw : w.valid = true)
    (cls : MsgClass) (hcls : w.mtype = T.messageType cls)
    (known extra : List Field) (hperm : w.fields.Perm (known ++ extra))
    (hextra : ∀ f ∈ extra, lookupAttr T f.1 = none)
    (hknown : (known.map (fun f => lookupAttr T f.1)).Nodup)
    (fds : Option (List PyVal)) (hfd : ∀ f ∈ w.fields, f.2.ty = .h → fds ≠ none)
    (decoded : β)
    (hC : ∀ sg, fieldFor T known .signature = some (.text .g sg) → sg ≠ [] →
        C.unmarshal sg w.body (decide (w.endian = .little)) fds = .ok decoded) :
    ∃ m' : Msg β, parseMessage T C (Spec.encodeMsg w) fds = .ok m' ∧
      m'.cls = cls ∧ m'.serial = w.serial ∧
      m'.expectReply = decide (w.flags % 2 = 0) ∧ m'.autoStart = decide (w.flags / 2 % 2 = 0) ∧
      (∀ a, m'.attrs a = match fieldFor T known a with
                         | some hv => pyOf fds hv
                         | none => .none) ∧
      m'.body = (match fieldFor T known .signature with
                 | some (.text _ (_ :: _)) => some decoded
                 | _ => none) ∧
      m'.rawBody = w.body ∧ (m'.rawHeader ++ m'.rawPadding ++ m'.rawBody) = Spec.encodeMsg w ∧
      m'.otherFlags = w.flags / 4 * 4 := by
  have henc := SpecMsg.encodable_of_valid w hw
  have hlc : lookupClass T w.mtype = some cls := by rw [hcls]; exact (hT.mtype cls).2.2
  rw [parse_spec T hT C w henc cls hlc fds hfd]
  -- the attributes after the setattr loop
  have hattrs : ∀ a, (parsedBase (β := β) T cls w fds).attrs a =
      match fieldFor T known a with
      | some hv => pyOf fds hv
      | none => .none := fun a => applyFields_perm T w.fields known extra hperm hextra hknown fds a
  have hraw : (parsedBase (β := β) T cls w fds).rawHeader ++ (parsedBase (β := β) T cls w fds).rawPadding ++
      (parsedBase (β := β) T cls w fds).rawBody = Spec.encodeMsg w := by
    simp [parsedBase, Spec.encodeMsg]
  dsimp only
  have hsigattr := hattrs .signature
  have hwfall : w.fields.all Field.wf = true := by
    have hsz := SpecMsg.sized_of_valid w hw
    simp only [SpecMsg.sized, Bool.and_eq_true] at hsz
    exact hsz.1.1.2
  -- the signature field of a valid message has the type the specification's table demands: SIGNATURE
  have hsigty : ∀ hv, fieldFor T known .signature = some hv → hv.ty = .g := by
    intro hv hfv
    simp only [fieldFor] at hfv
    cases hfind : known.find? (fun f => lookupAttr T f.1 == some Attr.signature) with
    | none => rw [hfind] at hfv; cases hfv
    | some f0 =>
      rw [hfind] at hfv
      simp only [Option.map_some, Option.some.injEq] at hfv
      have hf0 := List.mem_of_find?_eq_some hfind
      have hp0 := List.find?_some hfind
      simp only [beq_iff_eq] at hp0
      have hmem : f0 ∈ w.fields := (hperm.mem_iff).mpr (List.mem_append_left _ hf0)
      have hty : w.typed = true := by
        simp only [SpecMsg.valid, Bool.and_eq_true] at hw; exact hw.1.2
      have h1 := List.all_eq_true.mp hty f0 hmem
      have h2 := hT.hcodeTypes _ (lookupAttr_mem T _ _ hp0)
      simp only [attrType] at h2
      rw [h2] at h1
      simp only [beq_iff_eq] at h1
      rw [← hfv]; exact h1
  cases hsf : fieldFor T known .signature with
  | none =>
    rw [hsf] at hsigattr
    rw [hsigattr]
    simp only [truthy, Bool.false_eq_true, if_false]
    exact ⟨_, rfl, rfl, rfl, rfl, rfl, hattrs, rfl, rfl, hraw, rfl⟩
  | some hv =>
    rw [hsf] at hsigattr
    have hty := hsigty hv hsf
    cases hv with
    | num c raw =>
      -- a well-formed `num` value has a fixed-size type, never `g`
      exfalso
      simp only [fieldFor] at hsf
      cases hfind : known.find? (fun f => lookupAttr T f.1 == some Attr.signature) with
      | none => rw [hfind] at hsf; cases hsf
      | some f0 =>
        rw [hfind] at hsf
        simp only [Option.map_some, Option.some.injEq] at hsf
        have hf0 := List.mem_of_find?_eq_some hfind
        have hmem : f0 ∈ w.fields := (hperm.mem_iff).mpr (List.mem_append_left _ hf0)
        have hwf0 := List.all_eq_true.mp hwfall f0 hmem
        simp only [Field.wf, Bool.and_eq_true] at hwf0
        rw [hsf] at hwf0
        simp only [HVal.ty] at hty
        subst hty
        simp [HVal.wf, isText] at hwf0
    | text c sg =>
      simp only [HVal.ty] at hty
      subst hty
      rw [hsigattr]
      simp only [pyOf]
      cases sg with
      | nil =>
        simp only [truthy, List.isEmpty_nil, Bool.not_true, Bool.false_eq_true, if_false]
        exact ⟨_, rfl, rfl, rfl, rfl, rfl, hattrs, rfl, rfl, hraw, rfl⟩
      | cons ch cs =>
        have hlen : ¬ (ch :: cs).length > 255 := by
          simp only [fieldFor] at hsf
          cases hfind : known.find? (fun f => lookupAttr T f.1 == some Attr.signature) with
          | none => rw [hfind] at hsf; cases hsf
          | some f0 =>
            rw [hfind] at hsf
            simp only [Option.map_some, Option.some.injEq] at hsf
            have hf0 := List.mem_of_find?_eq_some hfind
            have hmem : f0 ∈ w.fields := (hperm.mem_iff).mpr (List.mem_append_left _ hf0)
            have hwf0 := List.all_eq_true.mp hwfall f0 hmem
            simp only [Field.wf, Bool.and_eq_true] at hwf0
            rw [hsf] at hwf0
            simp only [HVal.wf, if_true, Bool.and_eq_true, decide_eq_true_eq] at hwf0
            omega
        have hdec := hC (ch :: cs) (by rw [hsf]) (by simp)
        simp only [truthy, List.isEmpty_cons, Bool.not_false, if_true]
        rw [if_neg hlen, hdec]
        exact ⟨_, rfl, rfl, rfl, rfl, rfl, hattrs, rfl, rfl, hraw, rfl⟩


theorem nodup_map_some {α : Type} : ∀ (l : List α), l.Nodup → (l.map some).Nodup
  | [], _ => by simp
  | x :: t, h => by
    simp only [List.nodup_cons] at h
    simp only [List.map_cons, List.nodup_cons, List.mem_map, not_exists, not_and]
    exact ⟨fun y hy hxy => h.1 (Option.some.inj hxy ▸ hy), nodup_map_some t h.2⟩

/-- No attribute is addressed twice by the fields of a constructed message. -/
theorem built_knownNodup {β : Type} {T : Tables} (hT : T.OK) {C : BodyCodec β} {na : Char → Bool} {maxLen : Nat}
    {st st' : St} {c : Call β} {m : Msg β} {sm : SpecMsg} (hb : Built T C na maxLen st st' c m sm) :
    (sm.fields.map (fun f => lookupAttr T f.1)).Nodup := by
  have hcodes : sm.fields.map (·.1) = (liveEntries m.attrs (T.entries m.cls (hasFds m))).map (·.2.1) := by
    have := congrArg (List.map Prod.fst) (hb.fieldsPy none)
    simpa [List.map_map, Function.comp_def] using this
  have h1 : sm.fields.map (fun f => lookupAttr T f.1) = (sm.fields.map (·.1)).map (lookupAttr T) := by
    simp [List.map_map, Function.comp_def]
  rw [h1, hcodes, List.map_map]
  have h2 : (liveEntries m.attrs (T.entries m.cls (hasFds m))).map (lookupAttr T ∘ fun ent => ent.2.1) =
      (liveEntries m.attrs (T.entries m.cls (hasFds m))).map (fun ent => some ent.1) := by
    apply List.map_congr_left
    intro ent he
    have he1 := (mem_liveEntries.mp he).1
    exact (hT.hcode m.cls ent (entries_sub T m.cls _ ent he1)).2
  rw [h2]
  have hnd := hT.nodup m.cls
  have hsub : List.Sublist ((liveEntries m.attrs (T.entries m.cls (hasFds m))).map (·.1))
      ((T.entries m.cls true).map (·.1)) := by
    apply List.Sublist.map
    apply List.Sublist.trans (List.filter_sublist)
    cases hasFds m with
    | true => exact List.Sublist.refl _
    | false => simp only [Tables.entries]; exact List.sublist_append_left _ _
  have hnd2 := hsub.nodup hnd
  have h3 : (liveEntries m.attrs (T.entries m.cls (hasFds m))).map (fun ent => some ent.1) =
      ((liveEntries m.attrs (T.entries m.cls (hasFds m))).map (·.1)).map some := by
    simp [List.map_map, Function.comp_def]
  rw [h3]
  exact nodup_map_some _ hnd2

/-- The known fields of the specification message of a constructed `m` say exactly what the attributes of `m` are. -/
theorem built_view {β : Type} {T : Tables} (hT : T.OK) {C : BodyCodec β} {na : Char → Bool} {maxLen : Nat} {st st' : St}
    {c : Call β} {m : Msg β} {sm : SpecMsg} (hb : Built T C na maxLen st st' c m sm) (fds : Option (List PyVal)) (a : Attr) :
    (match fieldFor T sm.fields a with
     | some hv => pyOf fds hv
     | none => PyVal.none) = plain (m.attrs a) := by
  have hknown := built_knownNodup hT hb
  have e1 := applyFields_perm T sm.fields sm.fields [] (by simp) (by intro f hf; cases hf) hknown fds a
  rw [← e1, hb.fieldsPy fds]
  exact own_attrs T hT m.cls (hasFds m) m.attrs (built_inTable hT hb) a

/-- **The bytes another implementation would produce for the same message.**  Let `m` be a constructed message and
`sm` the specification message it stands for.  For ANY valid message `w` of the same type whose field list is a
permutation of `sm`'s fields plus fields with unknown codes - any byte order, any serial, flags and body of its own -
`parseMessage (Spec.encodeMsg w)` returns the class of `m` and every attribute of `m` (as plain values). -/
theorem parse_foreign_of_constructed {β : Type} (T : Tables) (hT : T.OK) (C : BodyCodec β) (na : Char → Bool)
    (maxLen : Nat) (st st' : St) (c : Call β) (m : Msg β) (h : construct T C na maxLen st c = (st', .ok m)) :
    ∃ sm : SpecMsg, m.toSpec T = some sm ∧
      ∀ (w : SpecMsg) (extra : List Field), w.valid = true → w.mtype = sm.mtype →
        w.fields.Perm (sm.fields ++ extra) → (∀ f ∈ extra, lookupAttr T f.1 = none) →
        ∀ (fds : Option (List PyVal)), (∀ f ∈ w.fields, f.2.ty = .h → fds ≠ none) →
        ∀ (decoded : β), (∀ sg, fieldFor T sm.fields .signature = some (.text .g sg) → sg ≠ [] →
            C.unmarshal sg w.body (decide (w.endian = .little)) fds = .ok decoded) →
        ∃ m' : Msg β, parseMessage T C (Spec.encodeMsg w) fds = .ok m' ∧
          m'.cls = m.cls ∧ m'.serial = w.serial ∧
          m'.expectReply = decide (w.flags % 2 = 0) ∧ m'.autoStart = decide (w.flags / 2 % 2 = 0) ∧
          (∀ a, m'.attrs a = plain (m.attrs a)) ∧
          m'.body = (if truthy (m.attrs .signature) then some decoded else none) ∧ m'.rawBody = w.body ∧
          m'.otherFlags = w.flags / 4 * 4 := by
  obtain ⟨sm, hb⟩ := construct_ok T hT C na maxLen st st' c m h
  refine ⟨sm, hb.spec, ?_⟩
  intro w extra hw hmt hperm hextra fds hfd decoded hC
  have hmt' : w.mtype = T.messageType m.cls := by rw [hmt, hb.smEq, hb.cls]; rfl
  have hknown := built_knownNodup hT hb
  obtain ⟨m', p1, p2, p3, p4, p5, p6, p7, p8, _, p10⟩ :=
    parse_foreign T hT C w hw m.cls hmt' sm.fields extra hperm hextra hknown fds hfd decoded hC
  -- the known fields of `sm` say exactly what the attributes of `m` are
  have hview : ∀ a, (match fieldFor T sm.fields a with
                     | some hv => pyOf fds hv
                     | none => PyVal.none) = plain (m.attrs a) := by
    intro a
    have e1 := applyFields_perm T sm.fields sm.fields [] (by simp) (by intro f hf; cases hf) hknown fds a
    rw [← e1, hb.fieldsPy fds]
    exact own_attrs T hT m.cls (hasFds m) m.attrs (built_inTable hT hb) a
  refine ⟨m', p1, p2, p3, p4, p5, fun a => by rw [p6 a, hview a], ?_, p8, p10⟩
  -- the body: decided by the signature field, which is `m`'s signature attribute
  rw [p7]
  have hsigv := hview .signature
  -- the field that addresses `signature` is of type SIGNATURE
  have hsigty : ∀ hv, fieldFor T sm.fields .signature = some hv → hv.ty = .g := by
    intro hv hfv
    simp only [fieldFor] at hfv
    cases hfind : sm.fields.find? (fun f => lookupAttr T f.1 == some Attr.signature) with
    | none => rw [hfind] at hfv; cases hfv
    | some f0 =>
      rw [hfind] at hfv
      simp only [Option.map_some, Option.some.injEq] at hfv
      have hf0 := List.mem_of_find?_eq_some hfind
      have hp0 := List.find?_some hfind
      simp only [beq_iff_eq] at hp0
      have h1 := (built_typed hT hb).1 f0 hf0
      have h2 := hT.hcodeTypes _ (lookupAttr_mem T _ _ hp0)
      simp only [attrType] at h2
      rw [h2] at h1
      rw [← hfv]; exact (Option.some.inj h1).symm
  cases hf : fieldFor T sm.fields .signature with
  | none =>
    rw [hf] at hsigv
    rcases hb.shape .signature with hnone | ⟨sg, hsg⟩
    · rw [hnone]; simp [truthy]
    · rw [hsg] at hsigv; simp [plain] at hsigv
  | some hv =>
    have hty := hsigty hv hf
    rw [hf] at hsigv
    cases hv with
    | num cc raw =>
      simp only [HVal.ty] at hty
      subst hty
      simp only [pyOf] at hsigv
      rcases hb.shape .signature with hnone | ⟨sg, hsg⟩
      · rw [hnone]; simp [truthy]
      · rw [hsg] at hsigv; simp [plain] at hsigv
    | text cc s =>
      simp only [pyOf] at hsigv
      rcases hb.shape .signature with hnone | ⟨sg, hsg⟩
      · rw [hnone] at hsigv; simp [plain] at hsigv
      · rw [hsg] at hsigv ⊢
        simp only [plain, PyVal.str.injEq, true_and] at hsigv
        subst hsigv
        cases s <;> simp [truthy]

/-- The constructed object is the message the ARGUMENTS describe: the class of the constructor, the requested flags,
every argument under its own attribute (None stays None, nothing else is set), `reply_serial` as given, the body
argument; and `rawBody` is what the body codec returned for (signature, body, oobFDs) - empty without a non-empty
signature - with `unix_fds` = the number of descriptors the codec collected (absent when none). -/
theorem constructed_from_arguments {β : Type} (T : Tables) (hT : T.OK) (C : BodyCodec β) (na : Char → Bool)
    (maxLen : Nat) (st st' : St) (c : Call β) (m : Msg β) (h : construct T C na maxLen st c = (st', .ok m)) :
    (∀ a, c = .methodCall a →
       m.cls = .methodCall ∧ m.expectReply = a.expectReply ∧ m.autoStart = a.autoStart ∧
       m.attrs .path = strAttr a.path ∧ m.attrs .member = strAttr a.member ∧
       m.attrs .interface = strAttr a.interface ∧ m.attrs .destination = strAttr a.destination ∧
       m.attrs .signature = strAttr a.signature ∧
       m.attrs .errorName = .none ∧ m.attrs .replySerial = .none ∧ m.attrs .sender = .none) ∧
    (∀ a, c = .methodReturn a →
       m.cls = .methodReturn ∧ m.expectReply = true ∧ m.autoStart = true ∧
       m.attrs .replySerial = .int .uint32 a.replySerial ∧ m.attrs .destination = strAttr a.destination ∧
       m.attrs .signature = strAttr a.signature ∧
       m.attrs .path = .none ∧ m.attrs .member = .none ∧ m.attrs .interface = .none ∧
       m.attrs .errorName = .none ∧ m.attrs .sender = .none) ∧
    (∀ a, c = .error a →
       m.cls = .error ∧ m.expectReply = true ∧ m.autoStart = true ∧
       m.attrs .errorName = strAttr a.errorName ∧ m.attrs .replySerial = .int .uint32 a.replySerial ∧
       m.attrs .destination = strAttr a.destination ∧ m.attrs .signature = strAttr a.signature ∧
       m.attrs .sender = strAttr a.sender ∧
       m.attrs .path = .none ∧ m.attrs .member = .none ∧ m.attrs .interface = .none) ∧
    (∀ a, c = .signal a →
       m.cls = .signal ∧ m.expectReply = true ∧ m.autoStart = true ∧
       m.attrs .path = strAttr a.path ∧ m.attrs .member = strAttr a.member ∧
       m.attrs .interface = strAttr a.interface ∧ m.attrs .destination = strAttr a.destination ∧
       m.attrs .signature = strAttr a.signature ∧
       m.attrs .errorName = .none ∧ m.attrs .replySerial = .none ∧ m.attrs .sender = .none) ∧
    m.body = c.body ∧
    (match c.signature with
     | some (ch :: cs) =>
       ∃ fds', C.marshal (ch :: cs) c.body c.oob = .ok (m.rawBody, fds') ∧
         m.attrs .unixFds = (match fds' with
                             | some (fd :: l) => .int .plain (((fd :: l).length : Nat) : Nat)
                             | _ => .none)
     | _ => m.rawBody = [] ∧ m.attrs .unixFds = .none) := by
  obtain ⟨sm, hb⟩ := construct_ok T hT C na maxLen st st' c m h
  have hattr := hb.attrs
  have hbody : c.pre.body = c.body := by cases c <;> rfl
  have hall : ∀ a, a ≠ Attr.unixFds → m.attrs a = c.pre.attrs a := hattr
  refine ⟨?_, ?_, ?_, ?_, by rw [hb.body, hbody], ?_⟩
  · intro a hc; subst hc
    simp only [hb.cls, hb.er, hb.as_, hattr .path (by decide), hattr .member (by decide),
      hattr .interface (by decide), hattr .destination (by decide), hattr .signature (by decide),
      hattr .errorName (by decide), hattr .replySerial (by decide), hattr .sender (by decide)]
    simp [Call.pre, setAttr, noAttrs]
  · intro a hc; subst hc
    simp only [hb.cls, hb.er, hb.as_, hattr .path (by decide), hattr .member (by decide),
      hattr .interface (by decide), hattr .destination (by decide), hattr .signature (by decide),
      hattr .errorName (by decide), hattr .replySerial (by decide), hattr .sender (by decide)]
    simp [Call.pre, setAttr, noAttrs]
  · intro a hc; subst hc
    simp only [hb.cls, hb.er, hb.as_, hattr .path (by decide), hattr .member (by decide),
      hattr .interface (by decide), hattr .destination (by decide), hattr .signature (by decide),
      hattr .errorName (by decide), hattr .replySerial (by decide), hattr .sender (by decide)]
    simp [Call.pre, setAttr, noAttrs]
  · intro a hc; subst hc
    simp only [hb.cls, hb.er, hb.as_, hattr .path (by decide), hattr .member (by decide),
      hattr .interface (by decide), hattr .destination (by decide), hattr .signature (by decide),
      hattr .errorName (by decide), hattr .replySerial (by decide), hattr .sender (by decide)]
    simp [Call.pre, setAttr, noAttrs]
  · have hsig := pre_signature c
    rcases hb.bodyCase with ⟨ht, hr, hf⟩ | ⟨sg, fds', hs1, hne, hs3, hs4⟩
    · rw [hsig] at ht
      cases hc : c.signature with
      | none => exact ⟨hr, hf⟩
      | some sg =>
        cases sg with
        | nil => exact ⟨hr, hf⟩
        | cons ch cs => rw [hc] at ht; simp [strAttr, truthy] at ht
    · rw [hsig] at hs1
      cases hc : c.signature with
      | none => rw [hc] at hs1; cases hs1
      | some sg' =>
        rw [hc] at hs1
        simp only [strAttr, PyVal.str.injEq, true_and] at hs1
        subst hs1
        cases sg' with
        | nil => exact absurd rfl hne
        | cons ch cs =>
          rw [hbody] at hs3
          refine ⟨fds', hs3, ?_⟩
          rcases hs4 with ⟨fd, l, hfd, hu⟩ | ⟨hfd, hu⟩
          · subst hfd; exact hu
          · rcases hfd with rfl | rfl <;> exact hu

/-- T2. -/
theorem serial_fresh {β : Type} (T : Tables) (hT : T.OK) (C : BodyCodec β) (na : Char → Bool) (maxLen : Nat)
    (cs : List (Call β)) (st : St) (hs : 1 ≤ st.nextSerial) :
    (okSerials (constructAll T C na maxLen st cs).1).Pairwise (· < ·) ∧
    (∀ s ∈ okSerials (constructAll T C na maxLen st cs).1, 1 ≤ s ∧ st.nextSerial ≤ s ∧ s < 4294967296) := by
  obtain ⟨h1, h2⟩ := constructAll_serials T hT C na maxLen cs st
  exact ⟨h2, fun s hs' => ⟨by have := h1 s hs'; omega, (h1 s hs').1, (h1 s hs').2⟩⟩

end Main
end Txdbus.Msg
