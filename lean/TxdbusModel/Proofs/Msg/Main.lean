import TxdbusModel.Proofs.Msg.Props
/-
C03, proofs of the five property theorems (restated in Properties/C03.lean for the generated tables).
-/
namespace Txdbus.Msg
namespace Main

/-- The `signature` argument of a constructor call has no NUL character (a valid DBus signature never
has one; `marshal_signature` carries an "XXX validate signature" note and would pass it on). -/
def SigNoNul {β : Type} (c : Call β) : Prop := ∀ sg, c.signature = some sg → sg.contains nul = false

theorem pre_signature {β : Type} (c : Call β) : c.pre.attrs .signature = strAttr c.signature := by
  cases c <;> simp [Call.pre, Call.signature, setAttr]

theorem fields_noNul {β : Type} {T : Tables} {C : BodyCodec β} {na : Char → Bool} {maxLen : Nat} {st st' : St}
    {c : Call β} {m : Msg β} {sm : SpecMsg} (hb : Built T C na maxLen st st' c m sm) (hsig : SigNoNul c) :
    ∀ f ∈ sm.fields, NoNulSig f.2 := by
  intro f hf s hs
  have hspec := hb.spec
  simp only [Msg.toSpec] at hspec
  cases hfs : specFieldsOf m.attrs (T.entries m.cls (hasFds m)) with
  | none => rw [hfs] at hspec; cases hspec
  | some fs =>
    rw [hfs] at hspec
    simp only [Option.map_some, Option.some.injEq] at hspec
    have hfields : sm.fields = fs := by rw [← hspec]
    rw [hfields] at hf
    have h1 := specFieldsOf_sig m.attrs hb.shape _ fs hfs f hf s hs
    rw [hb.attrs .signature (by decide), pre_signature] at h1
    cases hc : c.signature with
    | none => rw [hc] at h1; cases h1
    | some sg =>
      rw [hc] at h1
      simp only [strAttr, PyVal.str.injEq, true_and] at h1
      subst h1
      exact hsig sg hc

theorem built_valid {β : Type} {T : Tables} (hT : T.OK) {C : BodyCodec β} {na : Char → Bool} {maxLen : Nat}
    {st st' : St} {c : Call β} {m : Msg β} {sm : SpecMsg} (hb : Built T C na maxLen st st' c m sm)
    (hsig : SigNoNul c) (hs : 1 ≤ st.nextSerial) :
    sm.encodable = true ∧
      (maxLen ≤ Spec.maxMessage → (Spec.fieldArray sm).length ≤ Spec.maxArray → sm.valid = true) := by
  have hwf := hb.wf (fields_noNul hb hsig)
  have heq := hb.smEq
  have hmt : sm.mtype = T.messageType c.pre.cls := by rw [heq]; rfl
  have hfl : sm.flags = flagsByte c.pre.expectReply c.pre.autoStart := by rw [heq]; rfl
  have hse : sm.serial = st.nextSerial := by rw [heq]; rfl
  have hbo : sm.body = m.rawBody := by rw [heq]; rfl
  have h4 := flagsByte_lt c.pre.expectReply c.pre.autoStart
  obtain ⟨m1, m2, _⟩ := hT.mtype c.pre.cls
  refine ⟨?_, ?_⟩
  · simp only [SpecMsg.encodable, Bool.and_eq_true, decide_eq_true_eq]
    refine ⟨⟨⟨⟨⟨by omega, by omega⟩, by rw [hse]; exact hb.serialLt⟩, by rw [hbo]; exact hb.bodyLt⟩, hb.arrayLt⟩, hwf⟩
  · intro hmax harr
    simp only [SpecMsg.valid, Bool.and_eq_true, decide_eq_true_eq]
    refine ⟨⟨⟨⟨⟨⟨by omega, by omega⟩, by omega⟩, ⟨by omega, by rw [hse]; exact hb.serialLt⟩⟩, hwf⟩, harr⟩, ?_⟩
    rw [← hb.raw]
    exact Nat.le_trans hb.len hmax

/-- T1. -/
theorem marshal_wellformed {β : Type} (T : Tables) (hT : T.OK) (C : BodyCodec β) (na : Char → Bool) (maxLen : Nat)
    (hmax : maxLen ≤ Spec.maxMessage) (st st' : St) (c : Call β) (m : Msg β)
    (hs : 1 ≤ st.nextSerial) (hsig : SigNoNul c)
    (h : construct T C na maxLen st c = (st', .ok m)) :
    ∃ sm : SpecMsg, m.toSpec T = some sm ∧
      m.raw = Spec.fixedPart sm (Spec.fieldArray sm).length ++ Spec.fieldArray sm ++ Spec.headerPad sm ++ m.rawBody ∧
      m.rawHeader = Spec.fixedPart sm (Spec.fieldArray sm).length ++ Spec.fieldArray sm ∧
      m.rawPadding = Spec.headerPad sm ∧
      (Spec.fixedPart sm (Spec.fieldArray sm).length).length = 16 ∧
      (m.rawHeader ++ m.rawPadding).length % 8 = 0 ∧
      m.rawPadding.length < 8 ∧ (∀ b ∈ m.rawPadding, b = 0) ∧
      Spec.fixedPart sm (Spec.fieldArray sm).length =
        [108, UInt8.ofNat (T.messageType m.cls), UInt8.ofNat (flagsByte m.expectReply m.autoStart), 1]
          ++ encUInt .little 4 m.rawBody.length ++ encUInt .little 4 m.serial
          ++ encUInt .little 4 (Spec.fieldArray sm).length ∧
      T.messageType m.cls < 256 ∧ m.rawBody.length < 4294967296 ∧ (Spec.fieldArray sm).length < 4294967296 ∧
      m.serial = st.nextSerial ∧ m.serial ≠ 0 ∧ m.serial < 4294967296 ∧ st'.nextSerial = st.nextSerial + 1 ∧
      sm.fields.map (·.1) = (liveEntries m.attrs (T.entries m.cls (hasFds m))).map (·.2.1) ∧
      (sm.fields.map (·.1)).Nodup ∧ sm.fields.all Field.wf = true ∧
      m.raw.length ≤ maxLen ∧
      ((Spec.fieldArray sm).length ≤ Spec.maxArray → Spec.decodeMsg m.raw = some sm) := by
  obtain ⟨sm, hb⟩ := construct_ok T hT C na maxLen st st' c m h
  obtain ⟨henc, hval⟩ := built_valid hT hb hsig hs
  have heq := hb.smEq
  have hbo : sm.body = m.rawBody := by rw [heq]; rfl
  have hpadlen : (Spec.headerPad sm).length = padLen 8 (16 + (Spec.fieldArray sm).length) := Spec.headerPad_length sm
  have hfix := Spec.fixedPart_length sm (Spec.fieldArray sm).length
  obtain ⟨m1, m2, _⟩ := hT.mtype m.cls
  have hcodes : sm.fields.map (·.1) = (liveEntries m.attrs (T.entries m.cls (hasFds m))).map (·.2.1) := by
    have := congrArg (List.map Prod.fst) (hb.fieldsPy none)
    simpa [List.map_map, Function.comp_def] using this
  refine ⟨sm, hb.spec, ?_, hb.hdr, hb.pad, hfix, ?_, ?_, ?_, ?_, by omega, hb.bodyLt, hb.arrayLt, hb.serial, ?_, ?_, hb.next,
    hcodes, ?_, hb.wf (fields_noNul hb hsig), hb.len, ?_⟩
  · rw [hb.raw, ← hbo]; simp [Spec.encodeMsg]
  · rw [hb.hdr, hb.pad]
    simp only [List.length_append, hfix, hpadlen]
    exact padLen_aligned 8 _ (by omega)
  · rw [hb.pad, hpadlen]; exact padLen_lt 8 _ (by omega)
  · intro b hbm
    rw [hb.pad] at hbm
    simp only [Spec.headerPad, zeros, List.mem_replicate] at hbm
    exact hbm.2
  · rw [heq]
    simp [Spec.fixedPart, specOf, Spec.endianByte, Spec.version, hb.cls, hb.er, hb.as_, hb.serial]
  · rw [hb.serial]; omega
  · rw [hb.serial]; exact hb.serialLt
  · rw [hcodes]
    have hnd := hT.nodupCodes m.cls
    have hsub : List.Sublist ((liveEntries m.attrs (T.entries m.cls (hasFds m))).map (·.2.1))
        ((T.entries m.cls true).map (·.2.1)) := by
      apply List.Sublist.map
      apply List.Sublist.trans (List.filter_sublist)
      cases hasFds m with
      | true => exact List.Sublist.refl _
      | false => simp only [Tables.entries]; exact List.sublist_append_left _ _
    exact hsub.nodup hnd
  · intro harr
    rw [hb.raw]
    exact Spec.decodeMsg_encodeMsg sm (hval hmax harr)


/-- The header fields of a constructed message address every attribute that is set, through the table. -/
theorem built_inTable {β : Type} {T : Tables} (hT : T.OK) {C : BodyCodec β} {na : Char → Bool} {maxLen : Nat}
    {st st' : St} {c : Call β} {m : Msg β} {sm : SpecMsg} (hb : Built T C na maxLen st st' c m sm) :
    ∀ a, m.attrs a ≠ .none → ∃ ent ∈ T.entries m.cls (hasFds m), ent.1 = a := by
  intro a hne
  by_cases ha : a = .unixFds
  · subst ha
    have hf : hasFds m = true := by
      simp only [hasFds, Bool.not_eq_true']
      cases h : isNone (m.attrs .unixFds) with
      | false => rfl
      | true => exact absurd ((isNone_iff _).mp h) hne
    rw [hf]
    exact ⟨T.unixFdsEntry, by simp [Tables.entries], hT.fdsEntry.1⟩
  · rw [hb.attrs a ha] at hne
    have hin := (Call.preOK c).inTable a hne
    have hcov := hT.covers c.pre.cls a hin
    rw [List.mem_map] at hcov
    obtain ⟨ent, he1, he2⟩ := hcov
    refine ⟨ent, ?_, he2⟩
    rw [hb.cls]
    simp only [Tables.entries]
    split
    · exact List.mem_append_left _ he1
    · exact he1

/-- The signature of a constructed message was marshalled as a SIGNATURE: at most 255 characters. -/
theorem built_sigLen {β : Type} {T : Tables} (hT : T.OK) {C : BodyCodec β} {na : Char → Bool} {maxLen : Nat}
    {st st' : St} {c : Call β} {m : Msg β} {sm : SpecMsg} (hb : Built T C na maxLen st st' c m sm)
    (sg : List Char) (hsg : m.attrs .signature = .str .plain sg) (hwf : sm.fields.all Field.wf = true) :
    sg.length < 256 := by
  have hne : m.attrs .signature ≠ .none := by rw [hsg]; intro h; cases h
  obtain ⟨ent, he1, he2⟩ := built_inTable hT hb .signature hne
  have hspec := hb.spec
  simp only [Msg.toSpec] at hspec
  cases hfs : specFieldsOf m.attrs (T.entries m.cls (hasFds m)) with
  | none => rw [hfs] at hspec; cases hspec
  | some fs =>
    rw [hfs] at hspec
    simp only [Option.map_some, Option.some.injEq] at hspec
    have hfields : sm.fields = fs := by rw [← hspec]
    obtain ⟨f, hf, w, _, hw, hh⟩ := specFieldsOf_has m.attrs _ fs hfs ent he1 (by rw [he2]; exact hne)
    rw [he2, hsg] at hw
    simp only [wrapAttr, toStrCls, Except.ok.injEq] at hw
    subst hw
    simp only [hvalOf, Option.some.injEq] at hh
    rw [hfields] at hwf
    have := List.all_eq_true.mp hwf f hf
    simp only [Field.wf, Bool.and_eq_true, decide_eq_true_eq] at this
    rw [← hh] at this
    simp only [HVal.wf, if_true, Bool.and_eq_true, decide_eq_true_eq] at this
    exact this.2.2.2

/-- T3. -/
theorem parse_marshal {β : Type} (T : Tables) (hT : T.OK) (C : BodyCodec β) (na : Char → Bool) (maxLen : Nat)
    (st st' : St) (c : Call β) (m : Msg β) (hs : 1 ≤ st.nextSerial) (hsig : SigNoNul c)
    (h : construct T C na maxLen st c = (st', .ok m))
    (fdsAfter : Option (List PyVal)) (decoded : β)
    (hC : ∀ sg, m.attrs .signature = .str .plain sg → sg ≠ [] →
        ∃ bytes, C.marshal sg m.body c.oob = .ok (bytes, fdsAfter) ∧ C.unmarshal sg bytes true fdsAfter = .ok decoded) :
    ∃ m' : Msg β, parseMessage T C m.raw fdsAfter = .ok m' ∧
      m'.cls = m.cls ∧ m'.serial = m.serial ∧ m'.expectReply = m.expectReply ∧ m'.autoStart = m.autoStart ∧
      (∀ a, m'.attrs a = plain (m.attrs a)) ∧
      m'.body = (if truthy (m.attrs .signature) then some decoded else none) ∧
      m'.rawHeader = m.rawHeader ∧ m'.rawPadding = m.rawPadding ∧ m'.rawBody = m.rawBody := by
  obtain ⟨sm, hb⟩ := construct_ok T hT C na maxLen st st' c m h
  obtain ⟨henc, _⟩ := built_valid hT hb hsig hs
  have heq := hb.smEq
  have hmt : sm.mtype = T.messageType m.cls := by rw [heq, hb.cls]; rfl
  have hfl : sm.flags = flagsByte m.expectReply m.autoStart := by rw [heq, hb.er, hb.as_]; rfl
  have hse : sm.serial = m.serial := by rw [heq, hb.serial]; rfl
  have hbo : sm.body = m.rawBody := by rw [heq]; rfl
  have hen : sm.endian = .little := by rw [heq]; rfl
  have hcls : lookupClass T sm.mtype = some m.cls := by rw [hmt]; exact (hT.mtype m.cls).2.2
  -- no field of an own message is of type `h`
  have hnoh : ∀ f ∈ sm.fields, f.2.ty = .h → fdsAfter ≠ none := by
    intro f hf hty
    exfalso
    have hwf := hb.wf (fields_noNul hb hsig)
    have hspec := hb.spec
    simp only [Msg.toSpec] at hspec
    cases hfs : specFieldsOf m.attrs (T.entries m.cls (hasFds m)) with
    | none => rw [hfs] at hspec; cases hspec
    | some fs =>
      rw [hfs] at hspec
      simp only [Option.map_some, Option.some.injEq] at hspec
      have hfields : sm.fields = fs := by rw [← hspec]
      rw [hfields] at hf
      exact specFieldsOf_noH m.attrs _ fs hfs f hf hty
  rw [hb.raw, parse_spec T hT C sm henc m.cls hcls fdsAfter hnoh]
  have hattrs : ∀ a, (parsedBase (β := β) T m.cls sm fdsAfter).attrs a = plain (m.attrs a) := by
    intro a
    simp only [parsedBase]
    rw [hb.fieldsPy fdsAfter]
    exact own_attrs T hT m.cls (hasFds m) m.attrs (built_inTable hT hb) a
  dsimp only
  rw [hattrs .signature]
  have hshape := hb.shape .signature
  rcases hshape with hnone | ⟨sg, hsg⟩
  · -- signature None
    rw [hnone]
    simp only [plain, truthy, Bool.false_eq_true, if_false]
    refine ⟨_, rfl, rfl, hse, ?_, ?_, hattrs, rfl, hb.hdr.symm, hb.pad.symm, hbo⟩
    · simp only [parsedBase, hfl, flags_er]; cases m.expectReply <;> simp
    · simp only [parsedBase, hfl, flags_as]; cases m.autoStart <;> simp
  · rw [hsg]
    simp only [plain]
    cases sg with
    | nil =>
      simp only [truthy, List.isEmpty_nil, Bool.not_true, Bool.false_eq_true, if_false]
      refine ⟨_, rfl, rfl, hse, ?_, ?_, hattrs, rfl, hb.hdr.symm, hb.pad.symm, hbo⟩
      · simp only [parsedBase, hfl, flags_er]; cases m.expectReply <;> simp
      · simp only [parsedBase, hfl, flags_as]; cases m.autoStart <;> simp
    | cons ch cs =>
      obtain ⟨bytes, hm1, hm2⟩ := hC (ch :: cs) hsg (by simp)
      -- the bytes are the body of the message
      have hbody : bytes = m.rawBody := by
        rcases hb.bodyCase with ⟨ht, _, _⟩ | ⟨sg', fds', hs1, _, hs3, _⟩
        · rw [← hb.attrs .signature (by decide), hsg] at ht
          simp [truthy] at ht
        · rw [← hb.attrs .signature (by decide), hsg] at hs1
          simp only [PyVal.str.injEq, true_and] at hs1
          subst hs1
          rw [← hb.body, hm1] at hs3
          simp only [Except.ok.injEq, Prod.mk.injEq] at hs3
          exact hs3.1
      -- its length fits one byte (it was marshalled as a SIGNATURE)
      have hlen : ¬ (ch :: cs).length > 255 := by
        have hwf := hb.wf (fields_noNul hb hsig)
        have := built_sigLen hT hb (ch :: cs) hsg hwf
        omega
      simp only [truthy, List.isEmpty_cons, Bool.not_false, if_true]
      rw [if_neg hlen, hbo, ← hbody, hen]
      simp only [decide_true, hm2]
      refine ⟨_, rfl, rfl, hse, ?_, ?_, hattrs, rfl, hb.hdr.symm, hb.pad.symm, by rw [hbody]; exact hbo⟩
      · simp only [parsedBase, hfl, flags_er]; cases m.expectReply <;> simp
      · simp only [parsedBase, hfl, flags_as]; cases m.autoStart <;> simp


/-- The value of attribute `a` in a list of known header fields: the field whose code `_hcode` maps to `a`. -/
def fieldFor (T : Tables) (known : List Field) (a : Attr) : Option HVal :=
  (known.find? (fun f => lookupAttr T f.1 == some a)).map (·.2)

/-- T4. -/
theorem parse_foreign {β : Type} (T : Tables) (hT : T.OK) (C : BodyCodec β) (w : SpecMsg) (hw : w.valid = true)
    (cls : MsgClass) (hcls : w.mtype = T.messageType cls)
    (known extra : List Field) (hperm : w.fields.Perm (known ++ extra))
    (hextra : ∀ f ∈ extra, lookupAttr T f.1 = none)
    (hknown : (known.map (fun f => lookupAttr T f.1)).Nodup)
    (hsigty : ∀ hv, fieldFor T known .signature = some hv → hv.ty = .g)
    (fds : Option (List PyVal)) (hfd : ∀ f ∈ w.fields, f.2.ty = .h → fds ≠ none)
    (decoded : β)
    (hC : ∀ sg, fieldFor T known .signature = some (.text .g sg) → sg ≠ [] →
        C.unmarshal sg w.body (decide (w.endian = .little)) fds = .ok decoded) :
    ∃ m' : Msg β, parseMessage T C (Spec.encodeMsg w) fds = .ok m' ∧
      m'.cls = cls ∧ m'.serial = w.serial ∧
      m'.expectReply = decide (w.flags % 2 = 0) ∧ m'.autoStart = decide (w.flags / 2 % 2 = 0) ∧
      (∀ a, m'.attrs a = match fieldFor T known a with
                         | some hv => pyOf fds hv
                         | none => .none) ∧
      m'.body = (match fieldFor T known .signature with
                 | some (.text _ (_ :: _)) => some decoded
                 | _ => none) ∧
      m'.rawBody = w.body ∧ (m'.rawHeader ++ m'.rawPadding ++ m'.rawBody) = Spec.encodeMsg w := by
  have henc := SpecMsg.encodable_of_valid w hw
  have hlc : lookupClass T w.mtype = some cls := by rw [hcls]; exact (hT.mtype cls).2.2
  rw [parse_spec T hT C w henc cls hlc fds hfd]
  -- the attributes after the setattr loop
  have hattrs : ∀ a, (parsedBase (β := β) T cls w fds).attrs a =
      match fieldFor T known a with
      | some hv => pyOf fds hv
      | none => .none := by
    intro a
    simp only [parsedBase, fieldFor]
    cases hfind : known.find? (fun f => lookupAttr T f.1 == some a) with
    | none =>
      simp only [Option.map_none]
      rw [applyFields_none]
      · rfl
      · intro x hx hl
        rw [List.mem_map] at hx
        obtain ⟨f, hf, rfl⟩ := hx
        have hf' := (hperm.mem_iff).mp hf
        rw [List.mem_append] at hf'
        rcases hf' with hk | he
        · have := List.find?_eq_none.mp hfind f hk
          simp only at hl
          simp [hl] at this
        · have := hextra f he
          simp only at hl
          rw [this] at hl; cases hl
    | some f0 =>
      simp only [Option.map_some]
      have hf0 := List.mem_of_find?_eq_some hfind
      have hp0 := List.find?_some hfind
      simp only [beq_iff_eq] at hp0
      apply applyFields_unique T _ _ a f0.1 (pyOf fds f0.2)
      · rw [List.mem_map]
        exact ⟨f0, (hperm.mem_iff).mpr (List.mem_append_left _ hf0), rfl⟩
      · exact hp0
      · intro x hx hl
        rw [List.mem_map] at hx
        obtain ⟨f, hf, rfl⟩ := hx
        have hf' := (hperm.mem_iff).mp hf
        rw [List.mem_append] at hf'
        rcases hf' with hk | he
        · simp only at hl
          have := nodup_map_inj (fun f => lookupAttr T f.1) known hknown f hk f0 hf0 (by rw [hl, hp0])
          rw [this]
        · have := hextra f he
          simp only at hl
          rw [this] at hl; cases hl
  have hraw : (parsedBase (β := β) T cls w fds).rawHeader ++ (parsedBase (β := β) T cls w fds).rawPadding ++
      (parsedBase (β := β) T cls w fds).rawBody = Spec.encodeMsg w := by
    simp [parsedBase, Spec.encodeMsg]
  dsimp only
  have hsigattr := hattrs .signature
  have hwfall : w.fields.all Field.wf = true := by
    simp only [SpecMsg.valid, Bool.and_eq_true] at hw
    exact hw.1.1.2
  cases hsf : fieldFor T known .signature with
  | none =>
    rw [hsf] at hsigattr
    rw [hsigattr]
    simp only [truthy, Bool.false_eq_true, if_false]
    exact ⟨_, rfl, rfl, rfl, rfl, rfl, hattrs, rfl, rfl, hraw⟩
  | some hv =>
    rw [hsf] at hsigattr
    have hty := hsigty hv hsf
    cases hv with
    | num c raw =>
      -- a well-formed `num` value has a fixed-size type, never `g`
      exfalso
      simp only [fieldFor] at hsf
      cases hfind : known.find? (fun f => lookupAttr T f.1 == some Attr.signature) with
      | none => rw [hfind] at hsf; cases hsf
      | some f0 =>
        rw [hfind] at hsf
        simp only [Option.map_some, Option.some.injEq] at hsf
        have hf0 := List.mem_of_find?_eq_some hfind
        have hmem : f0 ∈ w.fields := (hperm.mem_iff).mpr (List.mem_append_left _ hf0)
        have hwf0 := List.all_eq_true.mp hwfall f0 hmem
        simp only [Field.wf, Bool.and_eq_true] at hwf0
        rw [hsf] at hwf0
        simp only [HVal.ty] at hty
        subst hty
        simp [HVal.wf, isText] at hwf0
    | text c sg =>
      simp only [HVal.ty] at hty
      subst hty
      rw [hsigattr]
      simp only [pyOf]
      cases sg with
      | nil =>
        simp only [truthy, List.isEmpty_nil, Bool.not_true, Bool.false_eq_true, if_false]
        exact ⟨_, rfl, rfl, rfl, rfl, rfl, hattrs, rfl, rfl, hraw⟩
      | cons ch cs =>
        have hlen : ¬ (ch :: cs).length > 255 := by
          simp only [fieldFor] at hsf
          cases hfind : known.find? (fun f => lookupAttr T f.1 == some Attr.signature) with
          | none => rw [hfind] at hsf; cases hsf
          | some f0 =>
            rw [hfind] at hsf
            simp only [Option.map_some, Option.some.injEq] at hsf
            have hf0 := List.mem_of_find?_eq_some hfind
            have hmem : f0 ∈ w.fields := (hperm.mem_iff).mpr (List.mem_append_left _ hf0)
            have hwf0 := List.all_eq_true.mp hwfall f0 hmem
            simp only [Field.wf, Bool.and_eq_true] at hwf0
            rw [hsf] at hwf0
            simp only [HVal.wf, if_true, Bool.and_eq_true, decide_eq_true_eq] at hwf0
            omega
        have hdec := hC (ch :: cs) (by rw [hsf]) (by simp)
        simp only [truthy, List.isEmpty_cons, Bool.not_false, if_true]
        rw [if_neg hlen, hdec]
        exact ⟨_, rfl, rfl, rfl, rfl, rfl, hattrs, rfl, rfl, hraw⟩


theorem runValidator_ok {v : Valid.Str → Valid.Outcome} {o : Option Valid.Str} (h : runValidator v o = .ok ()) :
    ∃ s, o = some s ∧ v s = .accept := by
  cases o with
  | none => simp [runValidator] at h
  | some s =>
    refine ⟨s, rfl, ?_⟩
    simp only [runValidator] at h
    cases hv : v s with
    | accept => rfl
    | raised e => rw [hv] at h; cases h

theorem validateOpt_ok {v : Valid.Str → Valid.Outcome} {o : Option Valid.Str} (h : validateOpt v o = .ok ()) :
    ∀ s, o = some s → v s = .accept := by
  intro s hs
  subst hs
  obtain ⟨s', h1, h2⟩ := runValidator_ok (v := v) (o := some s) h
  cases h1
  exact h2

theorem strAttr_eq {o : Option (List Char)} {s : List Char} (h : strAttr o = .str .plain s) : o = some s := by
  cases o with
  | none => cases h
  | some t => simp only [strAttr, PyVal.str.injEq, true_and] at h; rw [h]

/-- T5. -/
theorem cannot_construct {β : Type} (T : Tables) (hT : T.OK) (C : BodyCodec β) (na : Char → Bool) (maxLen : Nat)
    (st st' : St) (c : Call β) (m : Msg β) (h : construct T C na maxLen st c = (st', .ok m)) :
    m.raw.length ≤ maxLen ∧
    (∀ s, m.attrs .path = .str .plain s → Valid.GrammarObjectPath s ∧ (m.cls = .methodCall → s ≠ T.reservedPath)) ∧
    (∀ s, m.attrs .interface = .str .plain s → Valid.GrammarInterfaceName s) ∧
    (∀ s, m.attrs .member = .str .plain s → Valid.GrammarMemberName s) ∧
    (∀ s, m.attrs .destination = .str .plain s → Valid.GrammarBusName s) ∧
    (∀ s, m.attrs .errorName = .str .plain s → Valid.GrammarErrorName s) ∧
    -- the required name attributes are present
    (m.cls = .methodCall ∨ m.cls = .signal → ∃ s, m.attrs .member = .str .plain s) ∧
    (m.cls = .signal → ∃ s, m.attrs .interface = .str .plain s) ∧
    (m.cls = .error → ∃ s, m.attrs .errorName = .str .plain s) := by
  obtain ⟨sm, hb⟩ := construct_ok T hT C na maxLen st st' c m h
  have hchecks := hb.checks
  have hattr : ∀ a, a ≠ .unixFds → m.attrs a = c.pre.attrs a := hb.attrs
  refine ⟨hb.len, ?_, ?_, ?_, ?_, ?_, ?_, ?_, ?_⟩
  · intro s hs
    refine ⟨(Valid.validateObjectPath_accept_iff s).mp (hb.pathOK s hs), ?_⟩
    intro hcls
    rw [hb.cls] at hcls
    cases c with
    | methodCall a =>
      rw [hattr .path (by decide)] at hs
      simp only [Call.pre, setAttr] at hs
      have hp := strAttr_eq hs
      simp only [Call.checks] at hchecks
      cases h1 : runValidator (Valid.validateMemberName na) a.member with
      | error x => rw [h1] at hchecks; cases hchecks
      | ok u =>
        cases u
        rw [h1] at hchecks
        dsimp only at hchecks
        cases h2 : validateOpt (Valid.validateInterfaceName na) a.interface with
        | error x => rw [h2] at hchecks; cases hchecks
        | ok u =>
          cases u
          rw [h2] at hchecks
          dsimp only at hchecks
          cases h3 : validateOpt (Valid.validateBusName na) a.destination with
          | error x => rw [h3] at hchecks; cases hchecks
          | ok u =>
            cases u
            rw [h3] at hchecks
            dsimp only at hchecks
            by_cases hr : a.path = some T.reservedPath
            · rw [if_pos hr] at hchecks; cases hchecks
            · intro hsr
              subst hsr
              exact hr hp
    | methodReturn a => cases hcls
    | error a => cases hcls
    | signal a => cases hcls
  · intro s hs
    rw [hattr .interface (by decide)] at hs
    apply (Valid.validateInterfaceName_accept_iff na s).mp
    cases c with
    | methodCall a =>
      simp only [Call.pre, setAttr] at hs
      have hp := strAttr_eq hs
      simp only [Call.checks] at hchecks
      cases h1 : runValidator (Valid.validateMemberName na) a.member with
      | error x => rw [h1] at hchecks; cases hchecks
      | ok u =>
        cases u
        rw [h1] at hchecks
        dsimp only at hchecks
        cases h2 : validateOpt (Valid.validateInterfaceName na) a.interface with
        | error x => rw [h2] at hchecks; cases hchecks
        | ok u => cases u; exact validateOpt_ok h2 s hp
    | methodReturn a => simp [Call.pre, setAttr, noAttrs] at hs
    | error a => simp [Call.pre, setAttr, noAttrs] at hs
    | signal a =>
      simp only [Call.pre, setAttr] at hs
      have hp := strAttr_eq hs
      simp only [Call.checks] at hchecks
      cases h1 : runValidator (Valid.validateMemberName na) a.member with
      | error x => rw [h1] at hchecks; cases hchecks
      | ok u =>
        cases u
        rw [h1] at hchecks
        dsimp only at hchecks
        cases h2 : runValidator (Valid.validateInterfaceName na) a.interface with
        | error x => rw [h2] at hchecks; cases hchecks
        | ok u =>
          cases u
          obtain ⟨s', e1, e2⟩ := runValidator_ok h2
          rw [hp] at e1; cases e1; exact e2
  · intro s hs
    rw [hattr .member (by decide)] at hs
    apply (Valid.validateMemberName_accept_iff na s).mp
    cases c with
    | methodCall a =>
      simp only [Call.pre, setAttr] at hs
      have hp := strAttr_eq hs
      simp only [Call.checks] at hchecks
      cases h1 : runValidator (Valid.validateMemberName na) a.member with
      | error x => rw [h1] at hchecks; cases hchecks
      | ok u =>
        cases u
        obtain ⟨s', e1, e2⟩ := runValidator_ok h1
        rw [hp] at e1; cases e1; exact e2
    | methodReturn a => simp [Call.pre, setAttr, noAttrs] at hs
    | error a => simp [Call.pre, setAttr, noAttrs] at hs
    | signal a =>
      simp only [Call.pre, setAttr] at hs
      have hp := strAttr_eq hs
      simp only [Call.checks] at hchecks
      cases h1 : runValidator (Valid.validateMemberName na) a.member with
      | error x => rw [h1] at hchecks; cases hchecks
      | ok u =>
        cases u
        obtain ⟨s', e1, e2⟩ := runValidator_ok h1
        rw [hp] at e1; cases e1; exact e2
  · intro s hs
    rw [hattr .destination (by decide)] at hs
    apply (Valid.validateBusName_accept_iff na s).mp
    cases c with
    | methodCall a =>
      simp only [Call.pre, setAttr] at hs
      have hp := strAttr_eq hs
      simp only [Call.checks] at hchecks
      cases h1 : runValidator (Valid.validateMemberName na) a.member with
      | error x => rw [h1] at hchecks; cases hchecks
      | ok u =>
        cases u
        rw [h1] at hchecks
        dsimp only at hchecks
        cases h2 : validateOpt (Valid.validateInterfaceName na) a.interface with
        | error x => rw [h2] at hchecks; cases hchecks
        | ok u =>
          cases u
          rw [h2] at hchecks
          dsimp only at hchecks
          cases h3 : validateOpt (Valid.validateBusName na) a.destination with
          | error x => rw [h3] at hchecks; cases hchecks
          | ok u => cases u; exact validateOpt_ok h3 s hp
    | methodReturn a =>
      simp only [Call.pre, setAttr] at hs
      have hp := strAttr_eq hs
      simp only [Call.checks] at hchecks
      exact validateOpt_ok hchecks s hp
    | error a =>
      simp only [Call.pre, setAttr] at hs
      have hp := strAttr_eq hs
      simp only [Call.checks] at hchecks
      cases h1 : validateOpt (Valid.validateBusName na) a.destination with
      | error x => rw [h1] at hchecks; cases hchecks
      | ok u => cases u; exact validateOpt_ok h1 s hp
    | signal a =>
      simp only [Call.pre, setAttr] at hs
      have hp := strAttr_eq hs
      simp only [Call.checks] at hchecks
      cases h1 : runValidator (Valid.validateMemberName na) a.member with
      | error x => rw [h1] at hchecks; cases hchecks
      | ok u =>
        cases u
        rw [h1] at hchecks
        dsimp only at hchecks
        cases h2 : runValidator (Valid.validateInterfaceName na) a.interface with
        | error x => rw [h2] at hchecks; cases hchecks
        | ok u =>
          cases u
          rw [h2] at hchecks
          dsimp only at hchecks
          exact validateOpt_ok hchecks s hp
  · intro s hs
    rw [hattr .errorName (by decide)] at hs
    show Valid.GrammarInterfaceName s
    apply (Valid.validateInterfaceName_accept_iff na s).mp
    cases c with
    | methodCall a => simp [Call.pre, setAttr, noAttrs] at hs
    | methodReturn a => simp [Call.pre, setAttr, noAttrs] at hs
    | signal a => simp [Call.pre, setAttr, noAttrs] at hs
    | error a =>
      simp only [Call.pre, setAttr] at hs
      have hp := strAttr_eq hs
      simp only [Call.checks] at hchecks
      cases h1 : validateOpt (Valid.validateBusName na) a.destination with
      | error x => rw [h1] at hchecks; cases hchecks
      | ok u =>
        cases u
        rw [h1] at hchecks
        dsimp only at hchecks
        obtain ⟨s', e1, e2⟩ := runValidator_ok hchecks
        rw [hp] at e1; cases e1; exact e2
  · intro hcls
    rw [hb.cls] at hcls
    rw [hattr .member (by decide)]
    cases c with
    | methodCall a =>
      simp only [Call.checks] at hchecks
      cases h1 : runValidator (Valid.validateMemberName na) a.member with
      | error x => rw [h1] at hchecks; cases hchecks
      | ok u =>
        cases u
        obtain ⟨s', e1, _⟩ := runValidator_ok h1
        exact ⟨s', by simp [Call.pre, setAttr, e1, strAttr]⟩
    | signal a =>
      simp only [Call.checks] at hchecks
      cases h1 : runValidator (Valid.validateMemberName na) a.member with
      | error x => rw [h1] at hchecks; cases hchecks
      | ok u =>
        cases u
        obtain ⟨s', e1, _⟩ := runValidator_ok h1
        exact ⟨s', by simp [Call.pre, setAttr, e1, strAttr]⟩
    | methodReturn a => simp [Call.pre] at hcls
    | error a => simp [Call.pre] at hcls
  · intro hcls
    rw [hb.cls] at hcls
    rw [hattr .interface (by decide)]
    cases c with
    | signal a =>
      simp only [Call.checks] at hchecks
      cases h1 : runValidator (Valid.validateMemberName na) a.member with
      | error x => rw [h1] at hchecks; cases hchecks
      | ok u =>
        cases u
        rw [h1] at hchecks
        dsimp only at hchecks
        cases h2 : runValidator (Valid.validateInterfaceName na) a.interface with
        | error x => rw [h2] at hchecks; cases hchecks
        | ok u =>
          cases u
          obtain ⟨s', e1, _⟩ := runValidator_ok h2
          exact ⟨s', by simp [Call.pre, setAttr, e1, strAttr]⟩
    | methodCall a => simp [Call.pre] at hcls
    | methodReturn a => simp [Call.pre] at hcls
    | error a => simp [Call.pre] at hcls
  · intro hcls
    rw [hb.cls] at hcls
    rw [hattr .errorName (by decide)]
    cases c with
    | error a =>
      simp only [Call.checks] at hchecks
      cases h1 : validateOpt (Valid.validateBusName na) a.destination with
      | error x => rw [h1] at hchecks; cases hchecks
      | ok u =>
        cases u
        rw [h1] at hchecks
        dsimp only at hchecks
        obtain ⟨s', e1, _⟩ := runValidator_ok hchecks
        exact ⟨s', by simp [Call.pre, setAttr, e1, strAttr]⟩
    | methodCall a => simp [Call.pre] at hcls
    | methodReturn a => simp [Call.pre] at hcls
    | signal a => simp [Call.pre] at hcls

/-- T2. -/
theorem serial_fresh {β : Type} (T : Tables) (hT : T.OK) (C : BodyCodec β) (na : Char → Bool) (maxLen : Nat)
    (cs : List (Call β)) (st : St) (hs : 1 ≤ st.nextSerial) :
    (okSerials (constructAll T C na maxLen st cs).1).Pairwise (· < ·) ∧
    (∀ s ∈ okSerials (constructAll T C na maxLen st cs).1, 1 ≤ s ∧ st.nextSerial ≤ s ∧ s < 4294967296) := by
  obtain ⟨h1, h2⟩ := constructAll_serials T hT C na maxLen cs st
  exact ⟨h2, fun s hs' => ⟨by have := h1 s hs'; omega, (h1 s hs').1, (h1 s hs').2⟩⟩

end Main
end Txdbus.Msg
