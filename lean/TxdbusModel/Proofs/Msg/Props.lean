import TxdbusModel.Proofs.Msg.Parse
import TxdbusModel.Proofs.Valid.Validators
/-
C03, lemmas behind the property theorems: the serial counter over a run of constructor calls, the
`setattr` loop on the fields of a constructed message, the signature field of `specFieldsOf`.
-/
namespace Txdbus.Msg

/-! ### The serial counter -/

theorem finishMarshal_next {β : Type} (T : Tables) (maxLen : Nat) (st : St) (p : Pre β) (b : Bytes)
    (attrs : Attr → PyVal) (table : List (Attr × Nat × Bool)) :
    st.nextSerial ≤ (finishMarshal T maxLen st p b attrs table).1.nextSerial := by
  unfold finishMarshal
  cases buildHeaders attrs table with
  | error x => exact Nat.le_refl _
  | ok hs =>
    dsimp only
    split
    · exact Nat.le_succ _
    · split
      · exact Nat.le_succ _
      · split <;> exact Nat.le_succ _

theorem construct_next_ge {β : Type} (T : Tables) (C : BodyCodec β) (na : Char → Bool) (maxLen : Nat) (st : St)
    (c : Call β) : st.nextSerial ≤ (construct T C na maxLen st c).1.nextSerial := by
  rw [construct_eq]
  cases c.checks T na with
  | error x => exact Nat.le_refl _
  | ok u =>
    cases u
    dsimp only
    unfold marshalMsg
    cases marshalBody T C c.pre c.oob with
    | error x => exact Nat.le_refl _
    | ok r =>
      obtain ⟨b, attrs, table⟩ := r
      exact finishMarshal_next T maxLen st c.pre b attrs table

/-- The serials of the successfully constructed messages of a run, in order. -/
def okSerials {β : Type} : List (Except PyErr (Msg β)) → List Nat
  | [] => []
  | .ok m :: rs => m.serial :: okSerials rs
  | .error _ :: rs => okSerials rs

theorem constructAll_serials {β : Type} (T : Tables) (hT : T.OK) (C : BodyCodec β) (na : Char → Bool) (maxLen : Nat) :
    ∀ (cs : List (Call β)) (st : St),
      (∀ s ∈ okSerials (constructAll T C na maxLen st cs).1, st.nextSerial ≤ s ∧ s < 4294967296) ∧
      (okSerials (constructAll T C na maxLen st cs).1).Pairwise (· < ·)
  | [], st => by simp [constructAll, okSerials]
  | c :: cs, st => by
    have ih := constructAll_serials T hT C na maxLen cs (construct T C na maxLen st c).1
    have hge := construct_next_ge T C na maxLen st c
    simp only [constructAll]
    cases hr : (construct T C na maxLen st c).2 with
    | error x =>
      simp only [okSerials]
      refine ⟨fun s hs => ?_, ih.2⟩
      have := ih.1 s hs
      exact ⟨by omega, this.2⟩
    | ok m =>
      have hc : construct T C na maxLen st c = ((construct T C na maxLen st c).1, .ok m) := by
        rw [← hr]
      obtain ⟨sm, hb⟩ := construct_ok T hT C na maxLen st _ c m hc
      simp only [okSerials]
      refine ⟨?_, ?_⟩
      · intro s hs
        cases hs with
        | head => exact ⟨by rw [hb.serial]; exact Nat.le_refl _, by rw [hb.serial]; exact hb.serialLt⟩
        | tail _ hs =>
          have := ih.1 s hs
          exact ⟨by omega, this.2⟩
      · rw [List.pairwise_cons]
        refine ⟨fun s hs => ?_, ih.2⟩
        have := ih.1 s hs
        rw [hb.serial]
        have := hb.next
        omega


/-! ### Own messages: the fields of a constructed message address each attribute once -/

theorem nodup_map_inj {α β : Type} (f : α → β) : ∀ (l : List α), (l.map f).Nodup → ∀ a ∈ l, ∀ b ∈ l, f a = f b → a = b
  | [], _, _, ha, _, _, _ => by cases ha
  | x :: t, hnd, a, ha, b, hb, hab => by
    simp only [List.map_cons, List.nodup_cons, List.mem_map, not_exists, not_and] at hnd
    obtain ⟨hx, ht⟩ := hnd
    cases ha with
    | head =>
      cases hb with
      | head => rfl
      | tail _ hb => exact absurd hab.symm (hx b hb)
    | tail _ ha =>
      cases hb with
      | head => exact absurd hab (hx a ha)
      | tail _ hb => exact nodup_map_inj f t ht a ha b hb hab

theorem entries_sub (T : Tables) (cls : MsgClass) (b : Bool) : ∀ ent ∈ T.entries cls b, ent ∈ T.entries cls true := by
  intro ent h
  cases b with
  | true => exact h
  | false => simp only [Tables.entries] at h ⊢; exact List.mem_append_left _ h

theorem mem_liveEntries {attrs : Attr → PyVal} {tbl : List (Attr × Nat × Bool)} {ent : Attr × Nat × Bool} :
    ent ∈ liveEntries attrs tbl ↔ ent ∈ tbl ∧ attrs ent.1 ≠ .none := by
  simp only [liveEntries, List.mem_filter, Bool.not_eq_true']
  constructor
  · rintro ⟨h1, h2⟩
    refine ⟨h1, fun h => ?_⟩
    rw [h] at h2; simp [isNone] at h2
  · rintro ⟨h1, h2⟩
    refine ⟨h1, ?_⟩
    cases h : isNone (attrs ent.1) with
    | false => rfl
    | true => exact absurd ((isNone_iff _).mp h) h2

/-- `setattr` over the fields of a constructed message restores every attribute (as a plain value). -/
theorem own_attrs (T : Tables) (hT : T.OK) (cls : MsgClass) (b : Bool) (attrs : Attr → PyVal)
    (hin : ∀ a, attrs a ≠ .none → ∃ ent ∈ T.entries cls b, ent.1 = a) (a : Attr) :
    applyFields T noAttrs ((liveEntries attrs (T.entries cls b)).map (fun ent => (ent.2.1, plain (attrs ent.1)))) a
      = plain (attrs a) := by
  have hcode := hT.hcode cls
  have hnd := hT.nodup cls
  by_cases hn : attrs a = .none
  · rw [applyFields_none]
    · simp [noAttrs, hn, plain]
    · intro x hx hl
      rw [List.mem_map] at hx
      obtain ⟨ent, he, rfl⟩ := hx
      obtain ⟨he1, he2⟩ := mem_liveEntries.mp he
      have := (hcode ent (entries_sub T cls b ent he1)).2
      simp only at hl
      rw [this] at hl
      have hl' := Option.some.inj hl
      exact he2 (hl' ▸ hn)
  · obtain ⟨ent, he1, he2⟩ := hin a hn
    subst he2
    have hlive : ent ∈ liveEntries attrs (T.entries cls b) := mem_liveEntries.mpr ⟨he1, hn⟩
    apply applyFields_unique T _ _ ent.1 ent.2.1 (plain (attrs ent.1))
    · rw [List.mem_map]; exact ⟨ent, hlive, rfl⟩
    · exact (hcode ent (entries_sub T cls b ent he1)).2
    · intro x hx hl
      rw [List.mem_map] at hx
      obtain ⟨ent', he', rfl⟩ := hx
      obtain ⟨he1', _⟩ := mem_liveEntries.mp he'
      have h1 := (hcode ent' (entries_sub T cls b ent' he1')).2
      simp only at hl
      rw [h1] at hl
      have hl' := Option.some.inj hl
      have := nodup_map_inj (·.1) _ hnd ent' (entries_sub T cls b ent' he1') ent (entries_sub T cls b ent he1) hl'
      rw [this]

/-- A signature-typed field of `specFieldsOf` is the signature attribute. -/
theorem specFieldsOf_sig (attrs : Attr → PyVal) (hok : ∀ a, AttrOK a (attrs a)) :
    ∀ (tbl : List (Attr × Nat × Bool)) (fs : List Field), specFieldsOf attrs tbl = some fs →
      ∀ f ∈ fs, ∀ s, f.2 = .text .g s → attrs .signature = .str .plain s
  | [], fs, h, f, hf, _, _ => by simp only [specFieldsOf, Option.some.injEq] at h; subst h; cases hf
  | (a, code, req) :: rest, fs, h, f, hf, s, hs => by
    simp only [specFieldsOf] at h
    by_cases hn : isNone (attrs a) = true
    · rw [if_pos hn] at h
      exact specFieldsOf_sig attrs hok rest fs h f hf s hs
    · rw [if_neg hn] at h
      have hne : attrs a ≠ .none := fun hh => hn ((isNone_iff _).mpr hh)
      cases hw : wrapAttr a (attrs a) with
      | error x => rw [hw] at h; cases h
      | ok w =>
        rw [hw] at h
        dsimp only at h
        cases hh : hvalOf w with
        | none => rw [hh] at h; cases h
        | some hv =>
          cases hr : specFieldsOf attrs rest with
          | none => rw [hh, hr] at h; cases h
          | some fs' =>
            rw [hh, hr] at h
            simp only [Option.some.injEq] at h
            subst h
            cases hf with
            | head =>
              simp only at hs
              subst hs
              -- hvalOf w = text g s, so w = .str .signature s, so a = signature
              rcases hok a with h0 | h0
              · exact absurd h0 hne
              · cases a <;> simp only at h0 <;> obtain ⟨x, hx⟩ := h0 <;> rw [hx] at hw <;>
                  simp only [wrapAttr, toStrCls, toUInt32, Except.ok.injEq] at hw <;> subst hw <;>
                  simp only [hvalOf, Option.some.injEq, HVal.text.injEq, HVal.num.injEq, reduceCtorEq, false_and, and_false] at hh
                · obtain ⟨_, rfl⟩ := hh
                  exact hx
            | tail _ hf => exact specFieldsOf_sig attrs hok rest fs' hr f hf s hs

/-- Where a field of `specFieldsOf` comes from. -/
theorem specFieldsOf_mem (attrs : Attr → PyVal) :
    ∀ (tbl : List (Attr × Nat × Bool)) (fs : List Field), specFieldsOf attrs tbl = some fs →
      ∀ f ∈ fs, ∃ ent ∈ tbl, ∃ w, f.1 = ent.2.1 ∧ attrs ent.1 ≠ .none ∧ wrapAttr ent.1 (attrs ent.1) = .ok w ∧ hvalOf w = some f.2
  | [], fs, h, f, hf => by simp only [specFieldsOf, Option.some.injEq] at h; subst h; cases hf
  | (a, code, req) :: rest, fs, h, f, hf => by
    simp only [specFieldsOf] at h
    by_cases hn : isNone (attrs a) = true
    · rw [if_pos hn] at h
      obtain ⟨ent, he, w, r⟩ := specFieldsOf_mem attrs rest fs h f hf
      exact ⟨ent, List.mem_cons_of_mem _ he, w, r⟩
    · rw [if_neg hn] at h
      have hne : attrs a ≠ .none := fun hh => hn ((isNone_iff _).mpr hh)
      cases hw : wrapAttr a (attrs a) with
      | error x => rw [hw] at h; cases h
      | ok w =>
        rw [hw] at h
        dsimp only at h
        cases hh : hvalOf w with
        | none => rw [hh] at h; cases h
        | some hv =>
          cases hr : specFieldsOf attrs rest with
          | none => rw [hh, hr] at h; cases h
          | some fs' =>
            rw [hh, hr] at h
            simp only [Option.some.injEq] at h
            subst h
            cases hf with
            | head => exact ⟨(a, code, req), List.mem_cons_self, w, rfl, hne, hw, hh⟩
            | tail _ hf =>
              obtain ⟨ent, he, w', r⟩ := specFieldsOf_mem attrs rest fs' hr f hf
              exact ⟨ent, List.mem_cons_of_mem _ he, w', r⟩

/-- Every non-None entry of the table has its field. -/
theorem specFieldsOf_has (attrs : Attr → PyVal) :
    ∀ (tbl : List (Attr × Nat × Bool)) (fs : List Field), specFieldsOf attrs tbl = some fs →
      ∀ ent ∈ tbl, attrs ent.1 ≠ .none → ∃ f ∈ fs, ∃ w, f.1 = ent.2.1 ∧ wrapAttr ent.1 (attrs ent.1) = .ok w ∧ hvalOf w = some f.2
  | [], _, _, ent, he, _ => by cases he
  | (a, code, req) :: rest, fs, h, ent, he, hne => by
    simp only [specFieldsOf] at h
    by_cases hn : isNone (attrs a) = true
    · rw [if_pos hn] at h
      cases he with
      | head => exact absurd ((isNone_iff _).mp hn) hne
      | tail _ he => exact specFieldsOf_has attrs rest fs h ent he hne
    · rw [if_neg hn] at h
      cases hw : wrapAttr a (attrs a) with
      | error x => rw [hw] at h; cases h
      | ok w =>
        rw [hw] at h
        dsimp only at h
        cases hh : hvalOf w with
        | none => rw [hh] at h; cases h
        | some hv =>
          cases hr : specFieldsOf attrs rest with
          | none => rw [hh, hr] at h; cases h
          | some fs' =>
            rw [hh, hr] at h
            simp only [Option.some.injEq] at h
            subst h
            cases he with
            | head => exact ⟨(code, hv), List.mem_cons_self, w, rfl, hw, hh⟩
            | tail _ he =>
              obtain ⟨f, hf, w', r⟩ := specFieldsOf_has attrs rest fs' hr ent he hne
              exact ⟨f, List.mem_cons_of_mem _ hf, w', r⟩

theorem hvalOf_ty_ne_h (w : PyVal) (hv : HVal) (h : hvalOf w = some hv) : hv.ty ≠ .h := by
  cases w <;> simp only [hvalOf] at h <;> try (cases h; done)
  · rename_i cls n
    cases cls <;> simp only [Option.some.injEq] at h <;> try (cases h; done)
    all_goals (subst h; simp [HVal.ty])
  · rename_i cls s
    cases cls <;> simp only [Option.some.injEq] at h <;> subst h <;> simp [HVal.ty]

theorem specFieldsOf_noH (attrs : Attr → PyVal) (tbl : List (Attr × Nat × Bool)) (fs : List Field)
    (h : specFieldsOf attrs tbl = some fs) (f : Field) (hf : f ∈ fs) (hty : f.2.ty = .h) : False := by
  obtain ⟨ent, _, w, _, _, _, hh⟩ := specFieldsOf_mem attrs tbl fs h f hf
  exact hvalOf_ty_ne_h w f.2 hh hty

theorem lookupAttr_mem (T : Tables) (code : Nat) (a : Attr) (h : lookupAttr T code = some a) : (code, a) ∈ T.hcode := by
  simp only [lookupAttr] at h
  cases hf : T.hcode.find? (fun p => p.1 == code) with
  | none => rw [hf] at h; cases h
  | some p =>
    rw [hf] at h
    simp only [Option.map_some, Option.some.injEq] at h
    have hm := List.mem_of_find?_eq_some hf
    have hp := List.find?_some hf
    simp only [beq_iff_eq] at hp
    obtain ⟨c, b⟩ := p
    simp only at hp h
    subst hp; subst h
    exact hm

/-- The wrapper typing of `_marshal` gives every attribute the type the specification's table demands. -/
theorem wrap_type (a : Attr) (v w : PyVal) (hv : HVal) (hok : AttrOK a v) (hn : v ≠ .none)
    (hw : wrapAttr a v = .ok w) (hh : hvalOf w = some hv) : hv.ty = attrType a := by
  rcases hok with h | h
  · exact absurd h hn
  · cases a <;> simp only at h <;> obtain ⟨x, rfl⟩ := h <;>
      simp only [wrapAttr, toStrCls, toUInt32, Except.ok.injEq] at hw <;> subst hw <;>
      simp only [hvalOf, Option.some.injEq] at hh <;> subst hh <;> rfl

theorem specFieldsOf_typed (T : Tables) (hT : T.OK) (cls : MsgClass) (b : Bool) (attrs : Attr → PyVal)
    (hok : ∀ a, AttrOK a (attrs a)) (fs : List Field) (h : specFieldsOf attrs (T.entries cls b) = some fs) :
    ∀ f ∈ fs, Spec.fieldType f.1 = some f.2.ty := by
  intro f hf
  obtain ⟨ent, he, w, h1, h2, h3, h4⟩ := specFieldsOf_mem attrs _ fs h f hf
  have hty := wrap_type ent.1 (attrs ent.1) w f.2 (hok ent.1) h2 h3 h4
  have hl := (hT.hcode cls ent (entries_sub T cls b ent he)).2
  have hm := lookupAttr_mem T _ _ hl
  have := hT.hcodeTypes _ hm
  simp only at this
  rw [h1, this, hty]

end Txdbus.Msg
