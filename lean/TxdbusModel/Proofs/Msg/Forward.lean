import TxdbusModel.Proofs.Msg.Main
import TxdbusModel.Proofs.Msg.GeneralMsg
/-
C03 extension 2026-09-30, part 4 (gap (c)): a theorem about `_marshal(False, rawBody=…)` - `remarshal`, what the bus
does when it forwards a received message (bus.py:82-89).

`remarshal_parse`: for a message object whose header attributes hold what `parseMessage` stores for fields of the
specification's types (None, a plain str, an int) and ALL of whose non-None attributes are in the `_headerAttrs` table
of its class, the re-marshalled bytes are the specification encoding of a message with the same type, serial, flag
bits (all eight), exactly those fields with the specification's field types, and the given body bytes, in the byte
order of `endian`; `parseMessage` of these bytes returns the same class, serial, flags, `otherFlags`, every attribute
(as a plain value) and the body.  `forward_parse` adds the `sender` assignment of the bus.
The known finding `forward-drops-unknown-header-fields` (C14) is the complement: an attribute outside the class table
is not emitted (`forward_drops_field_outside_table` in Properties/C03.lean is the witness).
-/
set_option linter.unusedSimpArgs false

namespace Txdbus.Msg

/-- The values `parseMessage` stores in a header attribute for a field of the specification's type (and what a
constructor stores): None; for `reply_serial` / `unix_fds` an int of any class; otherwise a plain str. -/
def AttrFwd (a : Attr) (v : PyVal) : Prop :=
  v = .none ∨
  match a with
  | .replySerial => ∃ cls n, v = .int cls n
  | .unixFds => ∃ cls n, v = .int cls n
  | _ => ∃ s, v = .str .plain s

theorem attrFwd_of_ok {a : Attr} {v : PyVal} (h : AttrOK a v) : AttrFwd a v := by
  rcases h with h | h
  · exact Or.inl h
  · refine Or.inr ?_
    cases a <;> simp only at h ⊢ <;> first | exact h | (obtain ⟨n, rfl⟩ := h; exact ⟨_, _, rfl⟩)

theorem wrapAttr_fwd (a : Attr) (v : PyVal) (hok : AttrFwd a v) (hn : v ≠ .none) :
    ∃ w hv, wrapAttr a v = .ok w ∧ hvalOf w = some hv ∧ plain w = plain v ∧ hv.ty = attrType a ∧
      (∀ s, hv = .text .g s → a = .signature ∧ v = .str .plain s) := by
  rcases hok with h | h
  · exact absurd h hn
  · cases a <;> simp only at h
    case replySerial => obtain ⟨c, n, rfl⟩ := h; exact ⟨_, _, rfl, rfl, rfl, rfl, fun s hs => by cases hs⟩
    case unixFds => obtain ⟨c, n, rfl⟩ := h; exact ⟨_, _, rfl, rfl, rfl, rfl, fun s hs => by cases hs⟩
    case signature =>
      obtain ⟨x, rfl⟩ := h
      exact ⟨_, _, rfl, rfl, rfl, rfl, fun s hs => by cases hs; exact ⟨rfl, rfl⟩⟩
    all_goals
      obtain ⟨x, rfl⟩ := h
      exact ⟨_, _, rfl, rfl, rfl, rfl, fun s hs => by cases hs⟩

/-- `buildHeaders_spec` (Proofs/Msg/Construct.lean) for the attribute values of a parsed message. -/
theorem buildHeaders_fwd (attrs : Attr → PyVal) (hok : ∀ a, AttrFwd a (attrs a)) :
    ∀ tbl : List (Attr × Nat × Bool), ∃ hs fs, buildHeaders attrs tbl = .ok hs ∧ specFieldsOf attrs tbl = some fs ∧
      AllIs hs fs ∧ hs.map (fun h => plain h.2) = (liveEntries attrs tbl).map (fun ent => plain (attrs ent.1)) ∧
      fs.map (·.1) = (liveEntries attrs tbl).map (·.2.1) ∧
      (∀ f ∈ fs, ∀ s, f.2 = .text .g s → attrs .signature = .str .plain s) ∧
      fs.map (fun f => f.2.ty) = (liveEntries attrs tbl).map (fun ent => attrType ent.1)
  | [] => ⟨[], [], rfl, rfl, .nil, rfl, rfl, fun _ h _ _ => (by cases h), rfl⟩
  | (a, code, req) :: rest => by
    obtain ⟨hs, fs, h1, h2, h3, h4, h5, h6, h7⟩ := buildHeaders_fwd attrs hok rest
    by_cases hn : isNone (attrs a) = true
    · refine ⟨hs, fs, ?_, ?_, h3, ?_, ?_, h6, ?_⟩
      · simp only [buildHeaders, hn, if_true, h1]
      · simp only [specFieldsOf, hn, if_true, h2]
      · simp only [liveEntries, List.filter_cons, hn, Bool.not_true, Bool.false_eq_true, if_false] at h4 ⊢
        exact h4
      · simp only [liveEntries, List.filter_cons, hn, Bool.not_true, Bool.false_eq_true, if_false] at h5 ⊢
        exact h5
      · simp only [liveEntries, List.filter_cons, hn, Bool.not_true, Bool.false_eq_true, if_false] at h7 ⊢
        exact h7
    · have hne : attrs a ≠ .none := fun h => hn ((isNone_iff _).mpr h)
      obtain ⟨w, hv, hw, hh, hp, hty, hsg⟩ := wrapAttr_fwd a (attrs a) (hok a) hne
      have hn' : isNone (attrs a) = false := by simpa using hn
      refine ⟨(.int .plain (code : Nat), w) :: hs, (code, hv) :: fs, ?_, ?_, .cons ⟨rfl, hh⟩ h3, ?_, ?_, ?_, ?_⟩
      · simp only [buildHeaders, hn', Bool.false_eq_true, if_false, hw, h1]
      · simp only [specFieldsOf, hn', Bool.false_eq_true, if_false, hw, hh, h2]
      · simp only [liveEntries, List.filter_cons, hn', Bool.not_false, if_true, List.map_cons, hp] at h4 ⊢
        rw [h4]
      · simp only [liveEntries, List.filter_cons, hn', Bool.not_false, if_true, List.map_cons] at h5 ⊢
        rw [h5]
      · intro f hf s hs'
        cases hf with
        | head =>
          obtain ⟨ha, hv'⟩ := hsg s hs'
          subst ha
          exact hv'
        | tail _ hf => exact h6 f hf s hs'
      · simp only [liveEntries, List.filter_cons, hn', Bool.not_false, if_true, List.map_cons, hty] at h7 ⊢
        rw [h7]

theorem flagsWith_lt (other : Nat) (er as_ : Bool) (_h : flagsWith other er as_ < 256) :
    flagsWith other er as_ % 2 = flagsByte er as_ % 2 ∧ flagsWith other er as_ / 2 % 2 = flagsByte er as_ / 2 % 2 ∧
      flagsWith other er as_ / 4 * 4 = other / 4 * 4 := by
  have := flagsByte_lt er as_
  unfold flagsWith
  omega

/-- The specification-level message a forwarded message stands for. -/
def fwdSpec {β : Type} (T : Tables) (m : Msg β) (endian : Nat) (fs : List Field) (rawBody : Bytes) : SpecMsg :=
  { endian := endianOf (endian == 108), mtype := T.messageType m.cls,
    flags := flagsWith m.otherFlags m.expectReply m.autoStart, serial := m.serial, fields := fs, body := rawBody }

/-- What a successful `remarshal` produced: the specification encoding of `fwdSpec`. -/
theorem remarshal_ok {β : Type} (T : Tables) (hT : T.OK) (maxLen : Nat) (m m2 : Msg β) (endian : Nat)
    (rawBody : Bytes) (hok : ∀ a, AttrFwd a (m.attrs a)) (hend : endian = 108 ∨ endian = 66)
    (hnul : ∀ s, m.attrs .signature = .str .plain s → s.contains nul = false)
    (h : remarshal T maxLen m endian rawBody = .ok m2) :
    ∃ fs, specFieldsOf m.attrs (T.headerAttrs m.cls) = some fs ∧
      m2 = { m with rawHeader := m2.rawHeader, rawPadding := m2.rawPadding, rawBody := rawBody } ∧
      m2.raw = Spec.encodeMsg (fwdSpec T m endian fs rawBody) ∧ m2.raw.length ≤ maxLen ∧
      (fwdSpec T m endian fs rawBody).encodable = true ∧
      (∀ fds, fs.map (fun f => (f.1, pyOf fds f.2)) =
         (liveEntries m.attrs (T.headerAttrs m.cls)).map (fun ent => (ent.2.1, plain (m.attrs ent.1)))) ∧
      fs.map (·.1) = (liveEntries m.attrs (T.headerAttrs m.cls)).map (·.2.1) ∧
      fs.map (fun f => f.2.ty) = (liveEntries m.attrs (T.headerAttrs m.cls)).map (fun ent => attrType ent.1) ∧
      (∀ f ∈ fs, f.2.ty ≠ .h) := by
  obtain ⟨hs, fs, h1, h2, h3, h4, h5, h6, h7⟩ := buildHeaders_fwd m.attrs hok (T.headerAttrs m.cls)
  refine ⟨fs, h2, ?_⟩
  unfold remarshal at h
  rw [h1] at h
  dsimp only at h
  rw [hT.format, if_neg (by simp [headerFormatStr]), hT.version] at h
  cases hm : marshalHeader T.align (endian == 108) (.int .plain (endian : Nat)) (.int .plain (T.messageType m.cls : Nat))
      (.int .plain (flagsWith m.otherFlags m.expectReply m.autoStart : Nat)) (.int .plain ((1 : Nat) : Nat))
      (.int .plain (rawBody.length : Nat)) (.int .plain (m.serial : Nat)) hs with
  | error x => rw [hm] at h; cases h
  | ok binHeader =>
    rw [hm] at h
    dsimp only at h
    obtain ⟨b1, b2, b3, b4, b5, b6, b7, b8, b9, b10, b11⟩ :=
      marshalHeader_spec T.align hT.align (endian == 108) endian (T.messageType m.cls)
        (flagsWith m.otherFlags m.expectReply m.autoStart) 1 rawBody.length m.serial hs fs h3 binHeader hm
    by_cases hlen : (binHeader ++ headerPadding T binHeader.length ++ rawBody).length > maxLen
    · rw [if_pos hlen] at h; cases h
    · rw [if_neg hlen] at h
      cases h
      have hebyte : UInt8.ofNat endian = Spec.endianByte (endianOf (endian == 108)) := by
        rcases hend with rfl | rfl <;> rfl
      have hhdr : binHeader = Spec.fixedPart (fwdSpec T m endian fs rawBody)
            (Spec.fieldArray (fwdSpec T m endian fs rawBody)).length
              ++ Spec.fieldArray (fwdSpec T m endian fs rawBody) := by
        rw [b8, hebyte]
        simp [Spec.fixedPart, Spec.fieldArray, fwdSpec, Spec.version]
      have hblen : binHeader.length = 16 + (Spec.fieldArray (fwdSpec T m endian fs rawBody)).length := by
        rw [hhdr]; simp [Spec.fixedPart_length]
      have hpad : headerPadding T binHeader.length = Spec.headerPad (fwdSpec T m endian fs rawBody) := by
        simp [headerPadding, Spec.headerPad, hblen, hT.headerAlign]
      have hwf : fs.all Field.wf = true := by
        apply b10
        intro f hf s hs'
        exact hnul s (h6 f hf s hs')
      refine ⟨rfl, ?_, by simpa [Msg.raw] using Nat.le_of_not_gt hlen, ?_, ?_, h5, h7, ?_⟩
      · simp only [Msg.raw, hpad]
        rw [hhdr]
        simp [Spec.encodeMsg, fwdSpec]
      · simp only [SpecMsg.encodable, Bool.and_eq_true, fwdSpec, Spec.fieldArray]
        exact ⟨⟨⟨⟨⟨decide_eq_true b2, decide_eq_true b3⟩, decide_eq_true b6⟩, decide_eq_true b5⟩, decide_eq_true b7⟩, hwf⟩
      · intro fds
        have e1 := b11 fds
        rw [map_pair_zip fs (·.1) (fun f => pyOf fds f.2), e1, h4, h5, ← map_pair_zip]
      · intro f hf hty
        have : ∀ (hs : List (PyVal × PyVal)) (fs : List Field), AllIs hs fs → ∀ f ∈ fs, f.2.ty ≠ .h := by
          intro hs fs hall
          induction hall with
          | nil => intro f hf; cases hf
          | cons he _ ih =>
            intro f hf
            cases hf with
            | head => exact hvalOf_ty_ne_h _ _ he.2
            | tail _ hf => exact ih f hf
        exact this hs fs h3 f hf hty

/-- **Re-marshal, then parse** (gap (c)).  See the module comment. -/
theorem remarshal_parse_gen {β : Type} (T : Tables) (hT : T.OK) (C : BodyCodec β) (maxLen : Nat) (m m2 : Msg β)
    (endian : Nat) (rawBody : Bytes)
    (hshape : ∀ a, AttrFwd a (m.attrs a))
    (hin : ∀ a, m.attrs a ≠ .none → ∃ ent ∈ T.headerAttrs m.cls, ent.1 = a)
    (hend : endian = 108 ∨ endian = 66)
    (hnul : ∀ s, m.attrs .signature = .str .plain s → s.contains nul = false)
    (h : remarshal T maxLen m endian rawBody = .ok m2)
    (fds : Option (List PyVal)) (decoded : β)
    (hC : ∀ sg, m.attrs .signature = .str .plain sg → sg ≠ [] →
        C.unmarshal sg rawBody (endian == 108) fds = .ok decoded) :
    ∃ fs, specFieldsOf m.attrs (T.headerAttrs m.cls) = some fs ∧
      m2.raw = Spec.encodeMsg (fwdSpec T m endian fs rawBody) ∧
      fs.map (·.1) = (liveEntries m.attrs (T.headerAttrs m.cls)).map (·.2.1) ∧
      (∀ f ∈ fs, Spec.fieldType f.1 = some f.2.ty) ∧
      m2.raw.length ≤ maxLen ∧ m2.rawBody = rawBody ∧ m2.attrs = m.attrs ∧ m2.serial = m.serial ∧ m2.cls = m.cls ∧
      ∃ m3 : Msg β, parseMessage T C m2.raw fds = .ok m3 ∧
        m3.cls = m.cls ∧ m3.serial = m.serial ∧ m3.expectReply = m.expectReply ∧ m3.autoStart = m.autoStart ∧
        m3.otherFlags = m.otherFlags / 4 * 4 ∧ (∀ a, m3.attrs a = plain (m.attrs a)) ∧
        m3.body = (if truthy (m.attrs .signature) then some decoded else none) ∧
        m3.rawHeader = m2.rawHeader ∧ m3.rawPadding = m2.rawPadding ∧ m3.rawBody = rawBody := by
  obtain ⟨fs, hfs, hm2, hraw, hlen, henc, hpy, hcodes, htys, hnoh⟩ :=
    remarshal_ok T hT maxLen m m2 endian rawBody hshape hend hnul h
  have hm2' : m2.rawBody = rawBody ∧ m2.attrs = m.attrs ∧ m2.serial = m.serial ∧ m2.cls = m.cls := by
    rw [hm2]; exact ⟨rfl, rfl, rfl, rfl⟩
  -- field types are the specification's
  have htyped : ∀ f ∈ fs, Spec.fieldType f.1 = some f.2.ty := by
    have hz : fs.map (fun f => (f.1, f.2.ty)) =
        (liveEntries m.attrs (T.headerAttrs m.cls)).map (fun ent => (ent.2.1, attrType ent.1)) := by
      rw [map_pair_zip fs (·.1) (fun f => f.2.ty), hcodes, htys, ← map_pair_zip]
    intro f hf
    have hmem : (f.1, f.2.ty) ∈ fs.map (fun f => (f.1, f.2.ty)) := List.mem_map.mpr ⟨f, hf, rfl⟩
    rw [hz, List.mem_map] at hmem
    obtain ⟨ent, he, heq⟩ := hmem
    obtain ⟨he1, _⟩ := mem_liveEntries.mp he
    have hc := (hT.hcode m.cls ent (entries_sub T m.cls false ent (by simpa [Tables.entries] using he1))).2
    have := hT.hcodeTypes _ (lookupAttr_mem T _ _ hc)
    simp only [Prod.mk.injEq] at heq
    rw [← heq.1, ← heq.2]
    exact this
  refine ⟨fs, hfs, hraw, hcodes, htyped, hlen, hm2'.1, hm2'.2.1, hm2'.2.2.1, hm2'.2.2.2, ?_⟩
  -- parse
  have hcls : lookupClass T (fwdSpec T m endian fs rawBody).mtype = some m.cls := (hT.mtype m.cls).2.2
  have hfd : ∀ f ∈ (fwdSpec T m endian fs rawBody).fields, f.2.ty = .h → fds ≠ none :=
    fun f hf hty => absurd hty (hnoh f hf)
  rw [hraw, parse_spec T hT C _ henc m.cls hcls fds hfd]
  have hattrs : ∀ a, (parsedBase (β := β) T m.cls (fwdSpec T m endian fs rawBody) fds).attrs a = plain (m.attrs a) := by
    intro a
    simp only [parsedBase, fwdSpec]
    rw [hpy fds]
    have := own_attrs T hT m.cls false m.attrs (by simpa [Tables.entries] using hin) a
    simpa [Tables.entries] using this
  have hfl : flagsWith m.otherFlags m.expectReply m.autoStart < 256 := by
    have henc' := henc
    simp only [SpecMsg.encodable, Bool.and_eq_true, decide_eq_true_eq] at henc'
    exact henc'.1.1.1.1.2
  obtain ⟨f1, f2, f3⟩ := flagsWith_lt _ _ _ hfl
  have her : (parsedBase (β := β) T m.cls (fwdSpec T m endian fs rawBody) fds).expectReply = m.expectReply := by
    simp only [parsedBase, fwdSpec, f1, flags_er]; cases m.expectReply <;> simp
  have has : (parsedBase (β := β) T m.cls (fwdSpec T m endian fs rawBody) fds).autoStart = m.autoStart := by
    simp only [parsedBase, fwdSpec, f2, flags_as]; cases m.autoStart <;> simp
  have hhdr : (parsedBase (β := β) T m.cls (fwdSpec T m endian fs rawBody) fds).rawHeader = m2.rawHeader ∧
      (parsedBase (β := β) T m.cls (fwdSpec T m endian fs rawBody) fds).rawPadding = m2.rawPadding := by
    -- m2's parts are what `remarshal` built: unfold it once more
    unfold remarshal at h
    obtain ⟨hs0, fs0, g1, g2, g3, _⟩ := buildHeaders_fwd m.attrs hshape (T.headerAttrs m.cls)
    rw [g1] at h
    dsimp only at h
    rw [hT.format, if_neg (by simp [headerFormatStr]), hT.version] at h
    cases hm : marshalHeader T.align (endian == 108) (.int .plain (endian : Nat)) (.int .plain (T.messageType m.cls : Nat))
        (.int .plain (flagsWith m.otherFlags m.expectReply m.autoStart : Nat)) (.int .plain ((1 : Nat) : Nat))
        (.int .plain (rawBody.length : Nat)) (.int .plain (m.serial : Nat)) hs0 with
    | error x => rw [hm] at h; cases h
    | ok binHeader =>
      rw [hm] at h
      dsimp only at h
      have hfs0 : fs0 = fs := by rw [hfs] at g2; exact (Option.some.inj g2).symm
      subst hfs0
      obtain ⟨_, _, _, _, _, _, _, b8, _, _, _⟩ :=
        marshalHeader_spec T.align hT.align (endian == 108) endian (T.messageType m.cls)
          (flagsWith m.otherFlags m.expectReply m.autoStart) 1 rawBody.length m.serial hs0 fs0 g3 binHeader hm
      split at h
      · cases h
      · cases h
        have hebyte : UInt8.ofNat endian = Spec.endianByte (endianOf (endian == 108)) := by
          rcases hend with rfl | rfl <;> rfl
        have hh : binHeader = Spec.fixedPart (fwdSpec T m endian fs0 rawBody)
              (Spec.fieldArray (fwdSpec T m endian fs0 rawBody)).length
                ++ Spec.fieldArray (fwdSpec T m endian fs0 rawBody) := by
          rw [b8, hebyte]
          simp [Spec.fixedPart, Spec.fieldArray, fwdSpec, Spec.version]
        have hblen : binHeader.length = 16 + (Spec.fieldArray (fwdSpec T m endian fs0 rawBody)).length := by
          rw [hh]; simp [Spec.fixedPart_length]
        refine ⟨by simp only [parsedBase]; exact hh.symm, ?_⟩
        simp only [parsedBase, headerPadding, Spec.headerPad, hblen, hT.headerAlign]
  dsimp only
  rw [hattrs .signature]
  have hshape_sig := hshape .signature
  rcases hshape_sig with hnone | ⟨sg, hsg⟩
  · rw [hnone]
    simp only [plain, truthy, Bool.false_eq_true, if_false]
    exact ⟨_, rfl, rfl, rfl, her, has, f3, hattrs, rfl, hhdr.1, hhdr.2, rfl⟩
  · rw [hsg]
    simp only [plain]
    cases sg with
    | nil =>
      simp only [truthy, List.isEmpty_nil, Bool.not_true, Bool.false_eq_true, if_false]
      exact ⟨_, rfl, rfl, rfl, her, has, f3, hattrs, rfl, hhdr.1, hhdr.2, rfl⟩
    | cons ch cs =>
      have hdec := hC (ch :: cs) hsg (by simp)
      -- the signature was marshalled as a SIGNATURE: its length fits one byte
      have hlen255 : ¬ (ch :: cs).length > 255 := by
        have hwf : (fwdSpec T m endian fs rawBody).fields.all Field.wf = true := by
          simp only [SpecMsg.encodable, Bool.and_eq_true] at henc
          exact henc.2
        -- the signature field is among `fs`
        obtain ⟨ent, he1, he2⟩ := hin .signature (by rw [hsg]; intro hx; cases hx)
        have hlive : ent ∈ liveEntries m.attrs (T.headerAttrs m.cls) :=
          mem_liveEntries.mpr ⟨he1, by rw [he2, hsg]; intro hx; cases hx⟩
        have hmem : (ent.2.1, plain (m.attrs ent.1)) ∈ fs.map (fun f => (f.1, pyOf none f.2)) := by
          rw [hpy none]; exact List.mem_map.mpr ⟨ent, hlive, rfl⟩
        rw [List.mem_map] at hmem
        obtain ⟨f, hf, hfeq⟩ := hmem
        have hfty : f.2.ty = .g := by
          have hz : fs.map (fun f => (f.1, f.2.ty)) =
              (liveEntries m.attrs (T.headerAttrs m.cls)).map (fun ent => (ent.2.1, attrType ent.1)) := by
            rw [map_pair_zip fs (·.1) (fun f => f.2.ty), hcodes, htys, ← map_pair_zip]
          have hmem2 : (f.1, f.2.ty) ∈ fs.map (fun f => (f.1, f.2.ty)) := List.mem_map.mpr ⟨f, hf, rfl⟩
          rw [hz, List.mem_map] at hmem2
          obtain ⟨ent', he', heq'⟩ := hmem2
          simp only [Prod.mk.injEq] at heq' hfeq
          obtain ⟨he1', _⟩ := mem_liveEntries.mp he'
          -- same code => same entry
          have hsame : ent' = ent := by
            apply nodup_map_inj (·.2.1) _ (hT.nodupCodes m.cls) ent'
              (entries_sub T m.cls false ent' (by simpa [Tables.entries] using he1')) ent
              (entries_sub T m.cls false ent (by simpa [Tables.entries] using he1))
            rw [heq'.1, hfeq.1]
          rw [← heq'.2, hsame, he2]; rfl
        have hwf0 := List.all_eq_true.mp hwf f hf
        simp only [Field.wf, Bool.and_eq_true] at hwf0
        simp only [Prod.mk.injEq] at hfeq
        rw [he2, hsg] at hfeq
        cases hf2 : f.2 with
        | num c raw =>
          rw [hf2] at hfty hwf0
          simp only [HVal.ty] at hfty
          subst hfty
          simp [HVal.wf, isText] at hwf0
        | text c s =>
          rw [hf2] at hfty hwf0 hfeq
          simp only [HVal.ty] at hfty
          subst hfty
          simp only [pyOf, plain, PyVal.str.injEq, true_and] at hfeq
          obtain ⟨_, hs⟩ := hfeq
          subst hs
          simp only [HVal.wf, if_true, Bool.and_eq_true, decide_eq_true_eq] at hwf0
          omega
      simp only [truthy, List.isEmpty_cons, Bool.not_false, if_true]
      rw [if_neg hlen255]
      have hle : decide ((fwdSpec T m endian fs rawBody).endian = Endian.little) = (endian == 108) := by
        rcases hend with rfl | rfl <;> rfl
      have hb : (fwdSpec T m endian fs rawBody).body = rawBody := rfl
      rw [hle, hb, hdec]
      exact ⟨_, rfl, rfl, rfl, her, has, f3, hattrs, rfl, hhdr.1, hhdr.2, rfl⟩

/-- On attribute values of the shapes `AttrFwd` the forwarding call stays inside the encoder's fragment (its header list
holds typed values only): `remarshalG = remarshal` applies (`remarshalG_eq`). -/
theorem remarshal_ne_other_of_fwd {β : Type} (T : Tables) (hT : T.OK) (maxLen : Nat) (m : Msg β) (endian : Nat)
    (rawBody : Bytes) (hok : ∀ a, AttrFwd a (m.attrs a)) : remarshal T maxLen m endian rawBody ≠ .error .other := by
  obtain ⟨hs, fs, h1, _, h3, _⟩ := buildHeaders_fwd m.attrs hok (T.headerAttrs m.cls)
  unfold remarshal
  rw [h1]
  dsimp only
  rw [hT.format, if_neg (by simp [headerFormatStr])]
  have hne := marshalHeader_ne_other T.align hT.align (endian == 108) (.int .plain (endian : Nat))
    (.int .plain (T.messageType m.cls : Nat)) (.int .plain (flagsWith m.otherFlags m.expectReply m.autoStart : Nat))
    (.int .plain (T.protocolVersion : Nat)) (.int .plain (rawBody.length : Nat)) (.int .plain (m.serial : Nat)) hs fs h3
  generalize marshalHeader _ _ _ _ _ _ _ _ _ = r at hne
  cases r with
  | error x => simpa using hne
  | ok b => dsimp only; split <;> simp

theorem remarshalG_eq_of_fwd {β : Type} (T : Tables) (hT : T.OK) (hA : PadAgree T.align) (fuel maxLen : Nat) (m : Msg β)
    (endian : Nat) (rawBody : Bytes) (hok : ∀ a, AttrFwd a (m.attrs a)) :
    remarshalG T (fuel + 4) maxLen m endian rawBody = remarshal T maxLen m endian rawBody :=
  remarshalG_eq T hT hA fuel maxLen m endian rawBody (remarshal_ne_other_of_fwd T hT maxLen m endian rawBody hok)

/-! ### executable form of the hypotheses (for the driver's certification and for closed examples) -/

theorem attrFwdB_sound (a : Attr) (v : PyVal) (h : attrFwdB a v = true) : AttrFwd a v := by
  cases v <;> simp only [attrFwdB] at h <;> try (cases h; done)
  · exact Or.inl rfl
  · rename_i c n
    cases a <;> simp at h <;> exact Or.inr ⟨c, n, rfl⟩
  · rename_i c s
    cases c <;> simp only [] at h <;> try (cases h; done)
    cases a <;> simp at h <;> exact Or.inr ⟨s, rfl⟩

theorem fwdOKB_sound {β : Type} (T : Tables) (m : Msg β) (h : fwdOKB T m = true) :
    (∀ a, AttrFwd a (m.attrs a)) ∧
    (∀ a, a ≠ .sender → m.attrs a ≠ .none → ∃ ent ∈ T.headerAttrs m.cls, ent.1 = a) ∧
    (∀ s, m.attrs .signature = .str .plain s → s.contains nul = false) := by
  simp only [fwdOKB, Bool.and_eq_true, List.all_eq_true] at h
  obtain ⟨h1, h2⟩ := h
  refine ⟨fun a => attrFwdB_sound a _ (h1 a (Attr.mem_all a)).1, ?_, ?_⟩
  · intro a ha hn
    have := (h1 a (Attr.mem_all a)).2
    simp only [Bool.or_eq_true, beq_iff_eq, List.any_eq_true] at this
    rcases this with (h3 | h3) | h3
    · exact absurd h3 ha
    · exact absurd ((isNone_iff _).mp h3) hn
    · obtain ⟨ent, he, heq⟩ := h3
      exact ⟨ent, he, heq⟩
  · intro s hs
    rw [hs] at h2
    simpa using h2

/-! ### the composition: a valid foreign message, received, forwarded, received again -/

/-- The attribute a valid foreign message's known field leaves in the parsed object has the shape `AttrFwd` asks for. -/
theorem pyOf_attrFwd (a : Attr) (hv : HVal) (hty : hv.ty = attrType a) (hwf : hv.wf = true) (fds : Option (List PyVal)) :
    AttrFwd a (pyOf fds hv) ∧ (∀ s, pyOf fds hv = .str .plain s → ∃ c, hv = .text c s ∧ s.contains nul = false) := by
  cases hv with
  | num c raw =>
    simp only [HVal.ty] at hty
    subst hty
    simp only [HVal.wf, Bool.and_eq_true, Bool.not_eq_true'] at hwf
    cases a <;> simp only [attrType, isText] at hwf <;> try (exact absurd hwf.1.1 (by decide))
    all_goals exact ⟨Or.inr ⟨_, _, rfl⟩, fun s h => by simp [pyOf, attrType] at h⟩
  | text c s =>
    simp only [HVal.ty] at hty
    subst hty
    simp only [HVal.wf, Bool.and_eq_true, Bool.not_eq_true'] at hwf
    have hn : s.contains nul = false := hwf.1.2
    cases a <;> simp only [attrType, isText] at hwf <;> try (exact absurd hwf.1.1 (by decide))
    all_goals exact ⟨Or.inr ⟨s, rfl⟩, fun s' h => by simp only [pyOf, PyVal.str.injEq, true_and] at h; subst h; exact ⟨_, rfl, hn⟩⟩

theorem plain_pyOf (a : Attr) (hv : HVal) (hty : hv.ty = attrType a) (hwf : hv.wf = true) (fds : Option (List PyVal)) :
    plain (pyOf fds hv) = pyOf fds hv := by
  cases hv with
  | num c raw =>
    simp only [HVal.ty] at hty
    subst hty
    simp only [HVal.wf, Bool.and_eq_true, Bool.not_eq_true'] at hwf
    cases a <;> simp only [attrType, isText] at hwf <;> try (exact absurd hwf.1.1 (by decide))
    all_goals rfl
  | text c s => rfl

/-- **Received, forwarded, received again.**  A valid message of the specification (`parse_foreign`'s premises) all of
whose known fields - SENDER aside - are in the `_headerAttrs` table of its class: when the bus parses its bytes, sets
`sender`, copies the byte-order mark and re-marshals with the raw body, the destination parses the same class, serial,
flags, `otherFlags`, body, and every attribute the original carried, with `sender` = the name the bus set. -/
theorem forward_foreign_gen {β : Type} (T : Tables) (hT : T.OK) (C : BodyCodec β) (maxLen : Nat)
    (w : SpecMsg) (hw : w.valid = true) (cls : MsgClass) (hcls : w.mtype = T.messageType cls)
    (known extra : List Field) (hperm : w.fields.Perm (known ++ extra))
    (hextra : ∀ f ∈ extra, lookupAttr T f.1 = none)
    (hknown : (known.map (fun f => lookupAttr T f.1)).Nodup)
    (fds : Option (List PyVal)) (hfd : ∀ f ∈ w.fields, f.2.ty = .h → fds ≠ none)
    (hinTab : ∀ f ∈ known, ∀ a, lookupAttr T f.1 = some a → a ≠ .sender → ∃ ent ∈ T.headerAttrs cls, ent.1 = a)
    (hsender : ∃ ent ∈ T.headerAttrs cls, ent.1 = Attr.sender)
    (decoded : β)
    (hC : ∀ sg, Main.fieldFor T known .signature = some (.text .g sg) → sg ≠ [] →
        C.unmarshal sg w.body (decide (w.endian = .little)) fds = .ok decoded)
    (sender : List Char) (m m2 : Msg β)
    (hp : parseMessage T C (Spec.encodeMsg w) fds = .ok m)
    (hf : forward T maxLen m (Spec.endianByte w.endian).toNat sender = .ok m2) :
    ∃ m3 : Msg β, parseMessage T C m2.raw fds = .ok m3 ∧
      m3.cls = cls ∧ m3.serial = w.serial ∧
      m3.expectReply = decide (w.flags % 2 = 0) ∧ m3.autoStart = decide (w.flags / 2 % 2 = 0) ∧
      m3.otherFlags = w.flags / 4 * 4 ∧
      (∀ a, m3.attrs a = if a = .sender then .str .plain sender else
                         match Main.fieldFor T known a with
                         | some hv => pyOf fds hv
                         | none => .none) ∧
      m3.body = m.body ∧ m3.rawBody = w.body ∧ m2.raw.length ≤ maxLen := by
  obtain ⟨m', p0, p1, p2, p3, p4, p5, p6, p7, _, p9⟩ :=
    Main.parse_foreign T hT C w hw cls hcls known extra hperm hextra hknown fds hfd decoded hC
  rw [hp] at p0
  cases p0
  -- facts about the known fields of a valid message
  have hwfall : w.fields.all Field.wf = true := by
    have hsz := SpecMsg.sized_of_valid w hw
    simp only [SpecMsg.sized, Bool.and_eq_true] at hsz
    exact hsz.1.1.2
  have hty : w.typed = true := by
    simp only [SpecMsg.valid, Bool.and_eq_true] at hw; exact hw.1.2
  have hfield : ∀ a hv, Main.fieldFor T known a = some hv →
      ∃ f0 ∈ known, lookupAttr T f0.1 = some a ∧ f0.2 = hv ∧ hv.ty = attrType a ∧ hv.wf = true := by
    intro a hv hfv
    simp only [Main.fieldFor] at hfv
    cases hfind : known.find? (fun f => lookupAttr T f.1 == some a) with
    | none => rw [hfind] at hfv; cases hfv
    | some f0 =>
      rw [hfind] at hfv
      simp only [Option.map_some, Option.some.injEq] at hfv
      have hf0 := List.mem_of_find?_eq_some hfind
      have hp0 := List.find?_some hfind
      simp only [beq_iff_eq] at hp0
      have hmem : f0 ∈ w.fields := (hperm.mem_iff).mpr (List.mem_append_left _ hf0)
      have h1 := List.all_eq_true.mp hty f0 hmem
      have h2 := hT.hcodeTypes _ (lookupAttr_mem T _ _ hp0)
      rw [h2] at h1
      simp only [beq_iff_eq] at h1
      have hwf0 := List.all_eq_true.mp hwfall f0 hmem
      simp only [Field.wf, Bool.and_eq_true] at hwf0
      exact ⟨f0, hf0, hp0, hfv, by rw [← hfv]; exact h1, by rw [← hfv]; exact hwf0.2⟩
  have hshape : ∀ a, AttrFwd a (m.attrs a) := by
    intro a
    rw [p5 a]
    cases hfa : Main.fieldFor T known a with
    | none => exact Or.inl rfl
    | some hv =>
      obtain ⟨_, _, _, _, h5, h6⟩ := hfield a hv hfa
      exact (pyOf_attrFwd a hv h5 h6 fds).1
  have hin : ∀ a, a ≠ .sender → m.attrs a ≠ .none → ∃ ent ∈ T.headerAttrs m.cls, ent.1 = a := by
    intro a ha hn
    rw [p5 a] at hn
    cases hfa : Main.fieldFor T known a with
    | none => rw [hfa] at hn; exact absurd rfl hn
    | some hv =>
      obtain ⟨f0, h1, h2, _⟩ := hfield a hv hfa
      rw [p1]
      exact hinTab f0 h1 a h2 ha
  have hsigOf : ∀ s, m.attrs .signature = .str .plain s →
      Main.fieldFor T known .signature = some (.text .g s) ∧ s.contains nul = false := by
    intro s hs
    rw [p5 .signature] at hs
    cases hfa : Main.fieldFor T known .signature with
    | none => rw [hfa] at hs; cases hs
    | some hv =>
      rw [hfa] at hs
      obtain ⟨_, _, _, _, h5, h6⟩ := hfield .signature hv hfa
      obtain ⟨c, hc, hn⟩ := (pyOf_attrFwd .signature hv h5 h6 fds).2 s hs
      subst hc
      simp only [HVal.ty, attrType] at h5
      subst h5
      exact ⟨rfl, hn⟩
  have hend : (Spec.endianByte w.endian).toNat = 108 ∨ (Spec.endianByte w.endian).toNat = 66 := by
    cases w.endian <;> simp [Spec.endianByte]
  have hle : ((Spec.endianByte w.endian).toNat == 108) = decide (w.endian = .little) := by
    cases w.endian <;> rfl
  -- the forwarding call is `remarshal` on the object with `sender` set
  unfold forward at hf
  have hshape' : ∀ a, AttrFwd a (({ m with attrs := setAttr m.attrs .sender (.str .plain sender) } : Msg β).attrs a) := by
    intro a
    by_cases ha : a = .sender
    · subst ha; simp only [setAttr, if_true]; exact Or.inr ⟨sender, rfl⟩
    · simp only [setAttr, ha, if_false]; exact hshape a
  have hin' : ∀ a, ({ m with attrs := setAttr m.attrs .sender (.str .plain sender) } : Msg β).attrs a ≠ .none →
      ∃ ent ∈ T.headerAttrs m.cls, ent.1 = a := by
    intro a
    by_cases ha : a = .sender
    · subst ha; intro _; rw [p1]; exact hsender
    · simp only [setAttr, ha, if_false]; exact hin a ha
  have hsigattr : ({ m with attrs := setAttr m.attrs .sender (.str .plain sender) } : Msg β).attrs .signature =
      m.attrs .signature := by simp [setAttr]
  obtain ⟨fs, _, _, _, _, q5, _, _, _, _, m3, r1, r2, r3, r4, r5, r6, r7, r8, _, _, r11⟩ :=
    remarshal_parse_gen T hT C maxLen _ m2 _ m.rawBody hshape' hin' hend
      (by rw [hsigattr]; exact fun s hs => (hsigOf s hs).2) hf fds decoded
      (by
        rw [hsigattr]
        intro sg hs hne
        rw [hle, p7]
        exact hC sg (hsigOf sg hs).1 hne)
  refine ⟨m3, r1, by rw [r2]; exact p1, by rw [r3]; exact p2, by rw [r4]; exact p3, by rw [r5]; exact p4,
    by rw [r6, p9]; omega, ?_, ?_, by rw [r11]; exact p7, q5⟩
  · intro a
    rw [r7 a]
    by_cases ha : a = .sender
    · subst ha; simp [setAttr, plain]
    · simp only [setAttr, ha, if_false]
      rw [p5 a]
      cases hfa : Main.fieldFor T known a with
      | none => rfl
      | some hv =>
        obtain ⟨_, _, _, _, h5, h6⟩ := hfield a hv hfa
        exact plain_pyOf a hv h5 h6 fds
  · rw [r8, hsigattr, p6]
    -- m.body as parse_foreign describes it = what the destination decodes
    cases hfa : Main.fieldFor T known .signature with
    | none =>
      have : m.attrs .signature = .none := by rw [p5 .signature, hfa]
      simp [this, truthy]
    | some hv =>
      obtain ⟨_, _, _, _, h5, h6⟩ := hfield .signature hv hfa
      cases hv with
      | num c raw =>
        exfalso
        simp only [HVal.ty, attrType] at h5
        subst h5
        simp [HVal.wf, isText] at h6
      | text c sg =>
        have : m.attrs .signature = .str .plain sg := by rw [p5 .signature, hfa]; rfl
        rw [this]
        cases sg <;> simp [truthy]

end Txdbus.Msg
