import TxdbusModel.Msg.HeaderWire
import TxdbusModel.Msg.SpecMsg
import TxdbusModel.Proofs.Wire.Prim
import TxdbusModel.Proofs.Wire.Utf8
/-
C03, round trip of the specification-level header codec (Msg/HeaderWire.lean, Msg/SpecMsg.lean):
the strict decoder returns exactly what the encoder was given, for either byte order, any offset,
any field list, any bytes after it.
-/
namespace Txdbus.Msg

theorem all_zero_zeros (p : Nat) : (zeros p).all (· == 0) = true := by
  simp [zeros]

theorem skipZeros_zeros (a off : Nat) (r : Bytes) :
    skipZeros a (zeros (padLen a off) ++ r) off = some (r, off + padLen a off) := by
  unfold skipZeros
  simp [all_zero_zeros]

theorem takeExact_append (k : Nat) (w r : Bytes) (h : w.length = k) : takeExact k (w ++ r) = some (w, r) := by
  unfold takeExact
  subst h
  simp

theorem fixedSize_pos (c : Basic) (h : isText c = false) : 0 < fixedSize c := by
  cases c <;> simp [isText] at h <;> simp [fixedSize]

theorem nul_eq : nul = Char.ofNat 0 := rfl

/-- Text without NUL encodes to bytes without the NUL byte. -/
theorem utf8_no_zero (s : List Char) (h : s.contains nul = false) : (0 : UInt8) ∉ utf8Encode s := by
  rw [utf8Encode_no_nul]
  intro hm
  have : s.contains nul = true := by
    rw [List.contains_iff_mem]; exact hm
  rw [this] at h; cases h

theorem encValue_length (e : Endian) (v : HVal) :
    (encValue e v).length =
      match v with
      | .num c _ => fixedSize c
      | .text c s => (if c = .g then 1 else 4) + (utf8Encode s).length + 1 := by
  cases v with
  | num c raw => simp [encValue]
  | text c s => simp [encValue]; omega

theorem utf8_ascii_length (s : List Char) (hall : ∀ ch ∈ s, ch.toNat < 128) : (utf8Encode s).length = s.length := by
  induction s with
  | nil => rfl
  | cons ch t ih =>
    have h1 : ch.toNat < 128 := hall ch (by simp)
    have : utf8EncodeChar ch = [UInt8.ofNat ch.toNat] := by
      simp only [utf8EncodeChar]
      rw [if_pos (by omega)]
    simp only [utf8Encode, this, List.length_append, List.length_cons, List.length_nil]
    rw [ih (fun c hc => hall c (by simp [hc]))]
    omega

theorem text_len_ok (c : Basic) (s : List Char) (hwf : (HVal.text c s).wf = true) :
    (utf8Encode s).length < 256 ^ (if c = Basic.g then 1 else 4) := by
  simp only [HVal.wf, Bool.and_eq_true, Bool.not_eq_true'] at hwf
  obtain ⟨⟨ht, hn⟩, hl⟩ := hwf
  by_cases hg : c = .g
  · simp only [hg, if_true, Bool.and_eq_true, decide_eq_true_eq] at hl ⊢
    obtain ⟨hasc, hl⟩ := hl
    have hall : ∀ ch ∈ s, ch.toNat < 128 := by
      intro ch hch
      have := List.all_eq_true.mp hasc ch hch
      simpa using this
    rw [utf8_ascii_length s hall]; omega
  · simp only [hg, if_false, decide_eq_true_eq] at hl ⊢
    omega

theorem decValue_text (e : Endian) (c : Basic) (s : List Char) (hwf : (HVal.text c s).wf = true) (rest : Bytes) :
    decValue e c (encValue e (.text c s) ++ rest) = some (.text c s, rest, (encValue e (.text c s)).length) := by
  have hlen := text_len_ok c s hwf
  have ht : isText c = true := by
    simp only [HVal.wf, Bool.and_eq_true] at hwf; exact hwf.1.1
  unfold decValue
  simp only [ht, encValue, if_true, List.append_assoc]
  generalize (if c = Basic.g then 1 else 4) = w at hlen ⊢
  rw [takeExact_append w _ _ (encUInt_length e _ _)]
  simp only [decUInt_encUInt e _ _ hlen]
  rw [takeExact_append _ _ _ rfl]
  simp only [List.cons_append, List.nil_append, utf8Decode_encode, hwf, if_true, encUInt_length,
    List.length_append, List.length_cons, List.length_nil]
  congr 3

theorem decValue_num (e : Endian) (c : Basic) (raw : Nat) (hwf : (HVal.num c raw).wf = true) (rest : Bytes) :
    decValue e c (encValue e (.num c raw) ++ rest) = some (.num c raw, rest, (encValue e (.num c raw)).length) := by
  have hv := hwf
  simp only [HVal.wf, Bool.and_eq_true, Bool.not_eq_true', decide_eq_true_eq] at hv
  obtain ⟨⟨ht, hr⟩, hb⟩ := hv
  unfold decValue
  simp only [ht, encValue, Bool.false_eq_true, if_false]
  rw [takeExact_append _ _ _ (encUInt_length e _ _)]
  simp only [decUInt_encUInt e _ _ hr, hwf, if_true, encUInt_length]

theorem decValue_encValue (e : Endian) (v : HVal) (hv : v.wf = true) (rest : Bytes) :
    decValue e v.ty (encValue e v ++ rest) = some (v, rest, (encValue e v).length) := by
  cases v with
  | num c raw => exact decValue_num e c raw hv rest
  | text c s => exact decValue_text e c s hv rest

theorem sigByte_code (c : Basic) : Basic.ofCode? (Char.ofNat (sigByte c).toNat) = some c := by
  cases c <;> decide

theorem specAlign_pos (c : Basic) : 0 < specAlign c := by cases c <;> simp [specAlign]

theorem encVariant_length (e : Endian) (off : Nat) (v : HVal) :
    (encVariant e off v).length = 3 + padLen (specAlign v.ty) (off + 3) + (encValue e v).length := by
  simp [encVariant]; omega

theorem decVariant_encVariant (e : Endian) (off : Nat) (v : HVal) (hv : v.wf = true) (rest : Bytes) :
    decVariant e (encVariant e off v ++ rest) off = some (v, rest, off + (encVariant e off v).length) := by
  simp only [encVariant, List.cons_append, List.nil_append, List.append_assoc, decVariant, sigByte_code,
    skipZeros_zeros, decValue_encValue e v hv]
  simp only [List.length_cons, List.length_append, zeros_length, List.length_nil]
  congr 3
  omega

theorem encField_length (e : Endian) (off : Nat) (f : Field) :
    (encField e off f).length = padLen 8 off + 1 + (encVariant e (off + padLen 8 off + 1) f.2).length := by
  simp [encField]; omega

theorem encField_pos (e : Endian) (off : Nat) (f : Field) : 0 < (encField e off f).length := by
  rw [encField_length]; omega

theorem decField_encField (e : Endian) (off : Nat) (f : Field) (hf : Field.wf f = true) (rest : Bytes) :
    decField e (encField e off f ++ rest) off = some (f, rest, off + (encField e off f).length) := by
  simp only [Field.wf, Bool.and_eq_true, decide_eq_true_eq] at hf
  obtain ⟨hc, hv⟩ := hf
  simp only [encField, List.append_assoc, List.cons_append, decField]
  rw [skipZeros_zeros]
  simp only []
  rw [decVariant_encVariant e _ f.2 hv]
  have : (UInt8.ofNat f.1).toNat = f.1 := by
    simp only [UInt8.toNat_ofNat']; omega
  simp only [this, List.length_append, zeros_length, List.length_cons]
  congr 3
  omega

theorem decFields_encFields (e : Endian) : ∀ (fs : List Field) (fuel off : Nat) (rest : Bytes),
    fs.all Field.wf = true → fs.length < fuel →
    decFields e fuel (encFields e off fs ++ rest) off (off + (encFields e off fs).length) = some (fs, rest)
  | [], fuel, off, rest, _, hfu => by
    cases fuel with
    | zero => omega
    | succ n => simp [encFields, decFields]
  | f :: fs, fuel, off, rest, hwf, hfu => by
    cases fuel with
    | zero => simp at hfu
    | succ n =>
      simp only [List.all_cons, Bool.and_eq_true] at hwf
      obtain ⟨hf, hfs⟩ := hwf
      have hpos := encField_pos e off f
      simp only [encFields, List.length_append, decFields, List.append_assoc]
      rw [if_neg (by omega), if_neg (by omega)]
      rw [decField_encField e off f hf]
      simp only []
      have ih := decFields_encFields e fs n (off + (encField e off f).length) rest hfs
        (by simp only [List.length_cons] at hfu; omega)
      rw [Nat.add_assoc] at ih
      rw [ih]

theorem encFields_length_ge (e : Endian) : ∀ (fs : List Field) (off : Nat), fs.length ≤ (encFields e off fs).length
  | [], _ => by simp [encFields]
  | f :: fs, off => by
    have := encFields_length_ge e fs (off + (encField e off f).length)
    have hp := encField_pos e off f
    simp only [encFields, List.length_append, List.length_cons]
    omega

/-! ### The whole message -/

namespace Spec

theorem fixedPart_length (m : SpecMsg) (n : Nat) : (fixedPart m n).length = 16 := by
  simp [fixedPart]

theorem headerPad_length (m : SpecMsg) : (headerPad m).length = padLen 8 (16 + (fieldArray m).length) := by
  simp [headerPad]

theorem encodeMsg_length (m : SpecMsg) :
    (encodeMsg m).length = 16 + (fieldArray m).length + padLen 8 (16 + (fieldArray m).length) + m.body.length := by
  simp [encodeMsg, fixedPart_length, headerPad_length]; omega

theorem endianByte_ne (e : Endian) : (endianByte e = 108 ↔ e = .little) ∧ (endianByte e = 66 ↔ e = .big) := by
  cases e <;> decide

/-- The strict decoder accepts the encoding of every valid message and returns the message. -/
theorem decodeMsg_encodeMsg (m : SpecMsg) (hm : m.valid = true) : decodeMsg (encodeMsg m) = some m := by
  have hm' := hm
  have hsz : m.sized = true := by
    simp only [SpecMsg.valid, Bool.and_eq_true] at hm; exact hm.1.1
  simp only [SpecMsg.sized, Bool.and_eq_true, decide_eq_true_eq] at hsz
  obtain ⟨⟨⟨⟨⟨hty, hfl⟩, hse⟩, hfs⟩, har⟩, hlen⟩ := hsz
  have hbl : m.body.length < 256 ^ 4 := by
    have := encodeMsg_length m
    simp only [maxMessage] at hlen
    omega
  have hal : (fieldArray m).length < 256 ^ 4 := by simp only [maxArray] at har; omega
  have hsl : m.serial < 256 ^ 4 := by omega
  obtain ⟨e, mt, fl, se, fs, body⟩ := m
  simp only at hty hfl hse hfs har hlen hbl hal hsl
  have hraw : encodeMsg ⟨e, mt, fl, se, fs, body⟩ =
      endianByte e :: UInt8.ofNat mt :: UInt8.ofNat fl :: UInt8.ofNat version ::
        (encUInt e 4 body.length ++ (encUInt e 4 se ++ (encUInt e 4 (fieldArray ⟨e, mt, fl, se, fs, body⟩).length ++
          (fieldArray ⟨e, mt, fl, se, fs, body⟩ ++ (headerPad ⟨e, mt, fl, se, fs, body⟩ ++ body))))) := by
    simp [encodeMsg, fixedPart]
  unfold decodeMsg
  rw [hraw]
  simp only []
  have he : (if endianByte e = 108 then some Endian.little else if endianByte e = 66 then some Endian.big else none)
      = some e := by cases e <;> decide
  rw [he]
  simp only []
  rw [takeExact_append _ _ _ (encUInt_length e _ _)]
  simp only []
  rw [takeExact_append _ _ _ (encUInt_length e _ _)]
  simp only []
  rw [takeExact_append _ _ _ (encUInt_length e _ _)]
  simp only [decUInt_encUInt e 4 _ hal, decUInt_encUInt e 4 _ hbl, decUInt_encUInt e 4 _ hsl]
  have hv : (UInt8.ofNat version).toNat = version := by decide
  rw [if_neg (by rw [hv]; omega)]
  have hfu : fs.length < (fieldArray ⟨e, mt, fl, se, fs, body⟩ ++ (headerPad ⟨e, mt, fl, se, fs, body⟩ ++ body)).length + 1 := by
    have := encFields_length_ge e fs 16
    simp only [fieldArray, List.length_append]
    omega
  have hdf := decFields_encFields e fs _ 16 (headerPad ⟨e, mt, fl, se, fs, body⟩ ++ body) hfs hfu
  simp only [fieldArray] at hdf ⊢
  rw [hdf]
  simp only [headerPad, fieldArray]
  rw [skipZeros_zeros]
  have h1 : (UInt8.ofNat mt).toNat = mt := by simp only [UInt8.toNat_ofNat']; omega
  have h2 : (UInt8.ofNat fl).toNat = fl := by simp only [UInt8.toNat_ofNat']; omega
  simp only [h1, h2, hm', true_and]
  rw [hraw] at hlen
  simp only [fieldArray, headerPad] at hlen
  simp only [hlen, if_true]

end Spec

theorem SpecMsg.sized_of_valid (m : SpecMsg) (hm : m.valid = true) : m.sized = true := by
  simp only [SpecMsg.valid, Bool.and_eq_true] at hm; exact hm.1.1

theorem SpecMsg.encodable_of_sized (m : SpecMsg) (hm : m.sized = true) : m.encodable = true := by
  simp only [SpecMsg.sized, Bool.and_eq_true, decide_eq_true_eq] at hm
  obtain ⟨⟨⟨⟨⟨hty, hfl⟩, hse⟩, hfs⟩, har⟩, hlen⟩ := hm
  have := Spec.encodeMsg_length m
  simp only [Spec.maxMessage] at hlen
  simp only [Spec.maxArray] at har
  simp only [SpecMsg.encodable, Bool.and_eq_true, decide_eq_true_eq]
  exact ⟨⟨⟨⟨⟨by omega, by omega⟩, by omega⟩, by omega⟩, by omega⟩, hfs⟩

theorem SpecMsg.encodable_of_valid (m : SpecMsg) (hm : m.valid = true) : m.encodable = true :=
  SpecMsg.encodable_of_sized m (SpecMsg.sized_of_valid m hm)

end Txdbus.Msg
