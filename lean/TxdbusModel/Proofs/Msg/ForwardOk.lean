import TxdbusModel.Proofs.Msg.Forward
/-
C03 extension 2026-09-30 / review 3, item 1.1: WHEN the forwarding call `_marshal(False, rawBody=…)` returns.

`remarshal_parse` / `forward_parse` / `forward_foreign` are conditional on the call returning.  `remarshal_succeeds` gives
sufficient conditions, the ones the reviewer named: every attribute holds a value its marshaller accepts (`AttrSendOK`: a
str without NUL that fits its length field; `path` passes `validateObjectPath`; `signature` ASCII of at most 255 characters;
`reply_serial` / `unix_fds` an int in 0 .. 2^32-1), the flag bits and the serial fit their fields, and the re-marshalled
message - the specification encoding of `fwdSpec`, WITH the sender field that was added - is within `_maxMsgLen`.
-/
set_option linter.unusedSimpArgs false

namespace Txdbus.Msg

/-- A typed header value the marshallers accept. -/
def HdrValOK : PyVal → Prop
  | .str .plain s => s.contains nul = false ∧ (utf8Encode s).length < 4294967296
  | .str .objectPath s =>
    Valid.validateObjectPath s = .accept ∧ s.contains nul = false ∧ (utf8Encode s).length < 4294967296
  | .str .signature s => (∀ ch ∈ s, ch.toNat < 128) ∧ s.length < 256
  | .int .uint32 n => 0 ≤ n ∧ n < 4294967296
  | _ => False

/-- What an attribute must hold for the forwarding call to go through (None, or a value its marshaller accepts). -/
def AttrSendOK (a : Attr) (v : PyVal) : Prop :=
  v = .none ∨
  match a with
  | .replySerial => ∃ cls n, v = .int cls n ∧ 0 ≤ n ∧ n < 4294967296
  | .unixFds => ∃ cls n, v = .int cls n ∧ 0 ≤ n ∧ n < 4294967296
  | .path => ∃ s, v = .str .plain s ∧ Valid.validateObjectPath s = .accept ∧ s.contains nul = false ∧
      (utf8Encode s).length < 4294967296
  | .signature => ∃ s, v = .str .plain s ∧ (∀ ch ∈ s, ch.toNat < 128) ∧ s.length < 256
  | _ => ∃ s, v = .str .plain s ∧ s.contains nul = false ∧ (utf8Encode s).length < 4294967296

theorem attrFwd_of_send {a : Attr} {v : PyVal} (h : AttrSendOK a v) : AttrFwd a v := by
  rcases h with h | h
  · exact Or.inl h
  · refine Or.inr ?_
    cases a <;> simp only at h ⊢
    case replySerial => obtain ⟨c, n, hv, _⟩ := h; exact ⟨c, n, hv⟩
    case unixFds => obtain ⟨c, n, hv, _⟩ := h; exact ⟨c, n, hv⟩
    all_goals (obtain ⟨s, hv, _⟩ := h; exact ⟨s, hv⟩)

theorem wrapAttr_send (a : Attr) (v : PyVal) (hok : AttrSendOK a v) (hn : v ≠ .none) :
    ∃ w, wrapAttr a v = .ok w ∧ HdrValOK w := by
  rcases hok with h | h
  · exact absurd h hn
  · cases a <;> simp only at h
    case replySerial => obtain ⟨c, n, rfl, h1, h2⟩ := h; exact ⟨_, rfl, h1, h2⟩
    case unixFds => obtain ⟨c, n, rfl, h1, h2⟩ := h; exact ⟨_, rfl, h1, h2⟩
    case path => obtain ⟨s, rfl, h1, h2, h3⟩ := h; exact ⟨_, rfl, h1, h2, h3⟩
    case signature => obtain ⟨s, rfl, h1, h2⟩ := h; exact ⟨_, rfl, h1, h2⟩
    all_goals (obtain ⟨s, rfl, h1, h2⟩ := h; exact ⟨_, rfl, h1, h2⟩)

/-- Every entry of the header list `_marshal` builds carries a code of the table and a value its marshaller accepts. -/
theorem buildHeaders_send (attrs : Attr → PyVal) (hok : ∀ a, AttrSendOK a (attrs a)) :
    ∀ (tbl : List (Attr × Nat × Bool)) (hs : List (PyVal × PyVal)), buildHeaders attrs tbl = .ok hs →
      ∀ h ∈ hs, (∃ ent ∈ tbl, h.1 = .int .plain (ent.2.1 : Nat)) ∧ HdrValOK h.2
  | [], hs, hb, h, hh => by simp only [buildHeaders, Except.ok.injEq] at hb; subst hb; cases hh
  | (a, code, req) :: rest, hs, hb, h, hh => by
    simp only [buildHeaders] at hb
    by_cases hn : isNone (attrs a) = true
    · simp only [hn, if_true] at hb
      obtain ⟨⟨ent, he, h1⟩, h2⟩ := buildHeaders_send attrs hok rest hs hb h hh
      exact ⟨⟨ent, List.mem_cons_of_mem _ he, h1⟩, h2⟩
    · have hn' : isNone (attrs a) = false := by simpa using hn
      have hne : attrs a ≠ .none := fun hx => hn ((isNone_iff _).mpr hx)
      obtain ⟨w, hw, hwok⟩ := wrapAttr_send a (attrs a) (hok a) hne
      simp only [hn', Bool.false_eq_true, if_false, hw] at hb
      cases hr : buildHeaders attrs rest with
      | error x => rw [hr] at hb; cases hb
      | ok hs' =>
        rw [hr] at hb
        simp only [Except.ok.injEq] at hb
        subst hb
        cases hh with
        | head => exact ⟨⟨(a, code, req), List.mem_cons_self, rfl⟩, hwok⟩
        | tail _ hh =>
          obtain ⟨⟨ent, he, h1⟩, h2⟩ := buildHeaders_send attrs hok rest hs' hr h hh
          exact ⟨⟨ent, List.mem_cons_of_mem _ he, h1⟩, h2⟩

/-! ### the marshallers succeed on such values -/

theorem marshalString_succeeds (le : Bool) (cls : StrCls) (s : List Char) (h1 : s.contains nul = false)
    (h2 : (utf8Encode s).length < 4294967296) : ∃ r, marshalString le (.str cls s) = .ok r := by
  unfold marshalString
  have hn : s.contains (Char.ofNat 0) = false := by simpa [nul] using h1
  simp only [hn, Bool.false_eq_true, if_false, packI_nat, h2, if_true]
  exact ⟨_, rfl⟩

theorem marshalVariant_succeeds (A : Char → Nat) (hA : AlignOK A) (le : Bool) (v : PyVal) (hv : HdrValOK v) (sb : Nat) :
    ∃ r, marshalVariant A le v sb = .ok r := by
  cases v <;> simp only [HdrValOK] at hv
  · -- int
    rename_i cls n
    cases cls <;> simp only [HdrValOK] at hv
    rw [marshalVariant_basic A hA le _ .u rfl]
    simp only [Basic.code, marshalBasic_u, marshalUInt32, PyVal.asInt?, packI]
    have : 0 ≤ n ∧ n.toNat < 4294967296 := ⟨hv.1, by omega⟩
    simp only [this, and_self, if_true]
    exact ⟨_, rfl⟩
  · -- str
    rename_i cls s
    cases cls <;> simp only [HdrValOK] at hv
    · rw [marshalVariant_basic A hA le _ .s rfl]
      simp only [Basic.code, marshalBasic_s]
      obtain ⟨r, hr⟩ := marshalString_succeeds le .plain s hv.1 hv.2
      rw [hr]; exact ⟨_, rfl⟩
    · rw [marshalVariant_basic A hA le _ .g rfl]
      simp only [Basic.code, marshalBasic_g, marshalSignature]
      have hsome : (asciiEncode s).isSome = true := (asciiEncode_isSome_iff s).mpr hv.1
      cases hb : asciiEncode s with
      | none => rw [hb] at hsome; cases hsome
      | some b =>
        have hlen := asciiEncode_length hb
        simp only [packB_nat]
        rw [if_pos (by omega)]
        exact ⟨_, rfl⟩
    · rw [marshalVariant_basic A hA le _ .o rfl]
      simp only [Basic.code, marshalBasic_o, marshalObjectPath, validatePathVal, hv.1]
      obtain ⟨r, hr⟩ := marshalString_succeeds le .objectPath s hv.2.1 hv.2.2
      rw [hr]; exact ⟨_, rfl⟩

theorem marshalItems_succeeds (A : Char → Nat) (hA : AlignOK A) (le : Bool) :
    ∀ (hs : List (PyVal × PyVal)), (∀ h ∈ hs, (∃ c : Nat, c < 256 ∧ h.1 = .int .plain (c : Nat)) ∧ HdrValOK h.2) →
      ∀ sb, ∃ r, marshalItems A le hs sb = .ok r
  | [], _, _ => ⟨_, rfl⟩
  | (code, hval) :: rest, hall, sb => by
    obtain ⟨⟨c, hc, hcode⟩, hv⟩ := hall (code, hval) List.mem_cons_self
    simp only at hcode hv
    subst hcode
    unfold marshalItems
    dsimp only
    unfold marshalStructYV
    simp only [marshalByte, PyVal.asInt?, packB_nat, hc, if_true]
    obtain ⟨r, hr⟩ := marshalVariant_succeeds A hA le hval hv
      (sb + padLen (A '(') sb + padLen (A 'y') (sb + padLen (A '(') sb) + 1 +
        padLen (A 'v') (sb + padLen (A '(') sb + padLen (A 'y') (sb + padLen (A '(') sb) + 1))
    rw [hr]
    obtain ⟨n2, b2⟩ := r
    dsimp only
    obtain ⟨r2, hr2⟩ := marshalItems_succeeds A hA le rest (fun h hh => hall h (List.mem_cons_of_mem _ hh))
      (sb + padLen (A '(') sb + (sb + padLen (A '(') sb + padLen (A 'y') (sb + padLen (A '(') sb) + 1 +
        padLen (A 'v') (sb + padLen (A '(') sb + padLen (A 'y') (sb + padLen (A '(') sb) + 1) + n2 -
        (sb + padLen (A '(') sb)))
    rw [hr2]
    exact ⟨_, rfl⟩

/-- The header encoder succeeds: fixed fields in range, every entry acceptable, the field array below 2^32 bytes. -/
theorem marshalHeader_succeeds (A : Char → Nat) (hA : AlignOK A) (le : Bool) (en mt fl ve bl se : Nat)
    (hs : List (PyVal × PyVal)) (fs : List Field) (hall : AllIs hs fs)
    (hok : ∀ h ∈ hs, (∃ c : Nat, c < 256 ∧ h.1 = .int .plain (c : Nat)) ∧ HdrValOK h.2)
    (h1 : en < 256) (h2 : mt < 256) (h3 : fl < 256) (h4 : ve < 256) (h5 : bl < 4294967296) (h6 : se < 4294967296)
    (h7 : (encFields (endianOf le) 16 fs).length < 4294967296) :
    ∃ b, marshalHeader A le (.int .plain (en : Nat)) (.int .plain (mt : Nat)) (.int .plain (fl : Nat))
            (.int .plain (ve : Nat)) (.int .plain (bl : Nat)) (.int .plain (se : Nat)) hs = .ok b := by
  unfold marshalHeader
  rw [mstep_byte A hA, if_pos h1]
  dsimp only
  rw [mstep_byte A hA, if_pos h2]
  dsimp only
  rw [mstep_byte A hA, if_pos h3]
  dsimp only
  rw [mstep_byte A hA, if_pos h4]
  dsimp only
  rw [mstep_u32 A hA le _ _ (by simp), if_pos h5]
  dsimp only
  rw [mstep_u32 A hA le _ _ (by simp), if_pos h6]
  simp only [mstep, hA.a]
  have hp : padLen 4 (0 + 1 + 1 + 1 + 1 + 4 + 4) = 0 := by decide
  rw [hp]
  simp only [Nat.add_zero]
  -- the array
  have hst : A '(' = 8 := hA.struct
  have hp8 : padLen 8 16 = 0 := by decide
  unfold marshalArrayYV
  rw [hst]
  simp only [hp8, zeros_zero, Nat.add_zero]
  obtain ⟨r, hr⟩ := marshalItems_succeeds A hA le hs hok 16
  obtain ⟨dl, bb⟩ := r
  obtain ⟨e1, e2, _⟩ := marshalItems_spec A hA le hs fs hall 16 dl bb hr
  rw [hr]
  dsimp only
  have hdl : dl < 4294967296 := by rw [e2, e1]; exact h7
  rw [packI_nat, if_pos hdl]
  exact ⟨_, rfl⟩

/-- **When the forwarding call returns** (sufficient conditions).  See the module comment. -/
theorem remarshal_succeeds {β : Type} (T : Tables) (hT : T.OK) (maxLen : Nat) (hmax : maxLen ≤ Spec.maxMessage)
    (m : Msg β) (endian : Nat) (rawBody : Bytes)
    (hsend : ∀ a, AttrSendOK a (m.attrs a)) (hend : endian = 108 ∨ endian = 66)
    (hof : m.otherFlags < 256) (hser : m.serial < 4294967296)
    (hlen : ∀ fs, specFieldsOf m.attrs (T.headerAttrs m.cls) = some fs →
      (Spec.encodeMsg (fwdSpec T m endian fs rawBody)).length ≤ maxLen) :
    ∃ m2, remarshal T maxLen m endian rawBody = .ok m2 := by
  have hfwd : ∀ a, AttrFwd a (m.attrs a) := fun a => attrFwd_of_send (hsend a)
  obtain ⟨hs, fs, b1, b2, b3, _⟩ := buildHeaders_fwd m.attrs hfwd (T.headerAttrs m.cls)
  have hsz := hlen fs b2
  have hmaxv : Spec.maxMessage = 134217728 := rfl
  -- lengths inside the encoded message
  have henc : (Spec.encodeMsg (fwdSpec T m endian fs rawBody)).length =
      16 + (encFields (endianOf (endian == 108)) 16 fs).length +
        (Spec.headerPad (fwdSpec T m endian fs rawBody)).length + rawBody.length := by
    simp [Spec.encodeMsg, Spec.fixedPart_length, Spec.fieldArray, fwdSpec, Nat.add_assoc]
  have hbl : rawBody.length < 4294967296 := by omega
  have harr : (encFields (endianOf (endian == 108)) 16 fs).length < 4294967296 := by omega
  have hokall : ∀ h ∈ hs, (∃ c : Nat, c < 256 ∧ h.1 = .int .plain (c : Nat)) ∧ HdrValOK h.2 := by
    intro h hh
    obtain ⟨⟨ent, he, h1⟩, h2⟩ := buildHeaders_send m.attrs hsend (T.headerAttrs m.cls) hs b1 h hh
    refine ⟨⟨ent.2.1, ?_, h1⟩, h2⟩
    exact (hT.hcode m.cls ent (entries_sub T m.cls false ent (by simpa [Tables.entries] using he))).1
  have hfl : flagsWith m.otherFlags m.expectReply m.autoStart < 256 := by
    have := flagsByte_lt m.expectReply m.autoStart
    unfold flagsWith
    omega
  have hmt : T.messageType m.cls < 256 := by have := (hT.mtype m.cls).2.1; omega
  have hen : endian < 256 := by rcases hend with rfl | rfl <;> decide
  obtain ⟨binHeader, hm⟩ := marshalHeader_succeeds T.align hT.align (endian == 108) endian (T.messageType m.cls)
    (flagsWith m.otherFlags m.expectReply m.autoStart) 1 rawBody.length m.serial hs fs b3 hokall hen hmt hfl (by decide)
    hbl hser harr
  obtain ⟨_, _, _, _, _, _, _, b8, _, _, _⟩ :=
    marshalHeader_spec T.align hT.align (endian == 108) endian (T.messageType m.cls)
      (flagsWith m.otherFlags m.expectReply m.autoStart) 1 rawBody.length m.serial hs fs b3 binHeader hm
  have hblen : binHeader.length = 16 + (encFields (endianOf (endian == 108)) 16 fs).length := by
    rw [b8]; simp [encUInt_length]; omega
  have hpadlen : (headerPadding T binHeader.length).length =
      (Spec.headerPad (fwdSpec T m endian fs rawBody)).length := by
    simp [headerPadding, Spec.headerPad, hblen, hT.headerAlign, Spec.fieldArray, fwdSpec, zeros]
  unfold remarshal
  rw [b1]
  dsimp only
  rw [hT.format, if_neg (by simp [headerFormatStr]), hT.version, hm]
  dsimp only
  rw [if_neg (by simp only [List.length_append]; rw [hpadlen]; omega)]
  exact ⟨_, rfl⟩

end Txdbus.Msg
