import TxdbusModel.Proofs.Msg.GeneralDecode
/-
C03 extension 2026-09-30, part 6: two facts that make the statements about the general header codec precise.

  * `headerOfPy_general`: whatever `Code.unmarshal` returns for `yyyyuua(yv)` - on ANY byte string, container-typed
    variants included - has the shape `parseMessage` reads (`hval[1]`, `hval[2]`, `hval[5]`, `for code, v in hval[6]`):
    six ints and a list of two-element lists whose first element is an int.  The `PyErr.other` branch of `headerOfPy`
    (Msg/General.lean) is dead code.
  * `unmarshalHeader_other`: the specialised decoder answers `PyErr.other` ONLY by reaching a header field whose variant
    signature starts with a type code of `dbus_types` but is not exactly one basic type code (`unmarshalVariant_other`):
    "the general decoder leaves the fragment" - never because its loop budget ran out.
-/
set_option linter.unusedSimpArgs false

namespace Txdbus.Msg
open Gen.Wire (Fn)
open Code (unmarshalOne unmarshalTop unmarshalSeq unmarshalElems uLenWord padLenOf)

/-! ### the shape of the general decoder's result -/

/-- A decoded `(yv)` item: `[code, value]` with an int code. -/
def IsField (v : PyVal) : Prop := ∃ c w, v = .list [.int .plain c, w]

theorem retU_ok {res : Except PyErr Nat} {k : Nat} {f : Nat → PyVal} {n : Nat} {v : PyVal}
    (h : retU res k f = .ok (n, v)) : ∃ x, res = .ok x ∧ n = k ∧ v = f x := by
  cases res with
  | error e => cases h
  | ok x => simp only [retU, Except.ok.injEq, Prod.mk.injEq] at h; exact ⟨x, rfl, h.1.symm, h.2.symm⟩

theorem structYV_shape (le : Bool) (fds : Option (List PyVal)) (data : Bytes) (fuel off n : Nat) (v : PyVal)
    (h : unmarshalOne le data fds fuel ['(', 'y', 'v', ')'] off = .ok (n, v)) : IsField v := by
  cases fuel with
  | zero => simp [unmarshalOne] at h
  | succ f =>
    rw [unmarshalOne_struct] at h
    have hdl : (['y', 'v', ')'] : List Char).dropLast = ['y', 'v'] := rfl
    rw [hdl] at h
    unfold unmarshalTop at h
    simp only [lazyPieces_yv, unmarshalSeq, List.head?_cons] at h
    cases hp : padLenOf 'y' off with
    | error e => rw [hp] at h; cases h
    | ok p =>
      rw [hp] at h
      dsimp only at h
      cases f with
      | zero => simp [unmarshalOne] at h
      | succ g =>
        rw [unmarshalOne_y] at h
        cases hy : retU (unpackU (endianOf le) 1 (rdAt data (off + p))) 1 (fun n => PyVal.int .plain (Int.ofNat n)) with
        | error e => rw [hy] at h; cases h
        | ok r =>
          obtain ⟨n1, v1⟩ := r
          obtain ⟨x, _, _, hv1⟩ := retU_ok hy
          rw [hy] at h
          dsimp only at h
          cases hp2 : padLenOf 'v' (off + p + n1) with
          | error e => rw [hp2] at h; cases h
          | ok p2 =>
            rw [hp2] at h
            dsimp only at h
            cases hv : unmarshalOne le data fds (g + 1) ['v'] (off + p + n1 + p2) with
            | error e => rw [hv] at h; cases h
            | ok r2 =>
              obtain ⟨n2, w⟩ := r2
              rw [hv] at h
              simp only [Except.ok.injEq, Prod.mk.injEq] at h
              exact ⟨_, w, by rw [← h.2, hv1]⟩

theorem unmarshalElems_all (elem : Nat → Code.URes) (tcode : Char) (stop : Nat) (P : PyVal → Prop)
    (hP : ∀ off n v, elem off = .ok (n, v) → P v) :
    ∀ (n off off' : Nat) (vs : List PyVal), unmarshalElems elem tcode stop n off = .ok (off', vs) → ∀ v ∈ vs, P v
  | n, off, off', vs, h => by
    unfold unmarshalElems at h
    by_cases hlt : off < stop
    · simp only [hlt, if_true] at h
      cases n with
      | zero => cases h
      | succ m =>
        dsimp only at h
        cases hp : padLenOf tcode off with
        | error e => rw [hp] at h; cases h
        | ok p =>
          rw [hp] at h
          dsimp only at h
          cases he : elem (off + p) with
          | error e => rw [he] at h; cases h
          | ok r =>
            obtain ⟨nb, v0⟩ := r
            rw [he] at h
            dsimp only at h
            by_cases hz : nb = 0
            · simp only [hz, if_true] at h; cases h
            · simp only [hz, if_false] at h
              cases hr : unmarshalElems elem tcode stop m (off + p + nb) with
              | error e => rw [hr] at h; cases h
              | ok r2 =>
                obtain ⟨o2, vs2⟩ := r2
                rw [hr] at h
                simp only [Except.ok.injEq, Prod.mk.injEq] at h
                intro v hv
                rw [← h.2] at hv
                cases hv with
                | head => exact hP _ _ _ he
                | tail _ hv => exact unmarshalElems_all elem tcode stop P hP m _ o2 vs2 hr v hv
    · simp only [hlt, if_false, Except.ok.injEq, Prod.mk.injEq] at h
      intro v hv
      rw [← h.2] at hv
      cases hv

theorem fieldsOfPy_of_all : ∀ (vs : List PyVal), (∀ v ∈ vs, IsField v) → ∃ fs, fieldsOfPy vs = some fs
  | [], _ => ⟨[], rfl⟩
  | v :: t, h => by
    obtain ⟨c, w, rfl⟩ := h v List.mem_cons_self
    obtain ⟨fs, hfs⟩ := fieldsOfPy_of_all t (fun x hx => h x (List.mem_cons_of_mem _ hx))
    exact ⟨(c.toNat, w) :: fs, by simp [fieldsOfPy, fieldOfPy, hfs]⟩

/-- The array `a(yv)` of the general decoder is a list of `[int, value]` lists. -/
theorem arrayYV_shape (le : Bool) (fds : Option (List PyVal)) (data : Bytes) (fuel off n : Nat) (v : PyVal)
    (h : unmarshalOne le data fds fuel ['a', '(', 'y', 'v', ')'] off = .ok (n, v)) :
    ∃ items, v = .list items ∧ ∀ x ∈ items, IsField x := by
  cases fuel with
  | zero => simp [unmarshalOne] at h
  | succ f =>
    rw [unmarshalOne_array] at h
    cases hl : uLenWord le data .unmarshal_array off with
    | error e => rw [hl] at h; cases h
    | ok dataLen =>
      rw [hl] at h
      simp only [List.head?_cons] at h
      cases hp : padLenOf '(' (off + 4) with
      | error e => rw [hp] at h; cases h
      | ok p0 =>
        rw [hp] at h
        dsimp only at h
        cases he : unmarshalElems (unmarshalOne le data fds f ['(', 'y', 'v', ')']) '(' (off + 4 + p0 + dataLen) dataLen
            (off + 4 + p0) with
        | error e => rw [he] at h; cases h
        | ok r =>
          obtain ⟨o2, values⟩ := r
          rw [he] at h
          dsimp only at h
          split at h
          · cases h
          · have hne : ¬ (('(' : Char) = '{') := by decide
            simp only [hne, if_false, Except.ok.injEq, Prod.mk.injEq] at h
            refine ⟨values, h.2.symm, ?_⟩
            exact unmarshalElems_all _ _ _ IsField (fun o n v hv => structYV_shape le fds data f o n v hv) _ _ _ _ he

/-- One step of `unmarshal()`'s loop that reads a BYTE or a UINT32: the value is a plain int. -/
theorem seq_int_step (le : Bool) (fds : Option (List PyVal)) (data : Bytes) (f : Nat) (c : Char) (hc : c = 'y' ∨ c = 'u')
    (off n : Nat) (v : PyVal) (h : unmarshalOne le data fds (f + 1) [c] off = .ok (n, v)) : ∃ k : Int, v = .int .plain k := by
  rcases hc with rfl | rfl
  · rw [unmarshalOne_y] at h
    obtain ⟨x, _, _, hv⟩ := retU_ok h
    exact ⟨_, hv⟩
  · rw [unmarshalOne_u] at h
    obtain ⟨x, _, _, hv⟩ := retU_ok h
    exact ⟨_, hv⟩

/-- **The general decoder's result on `yyyyuua(yv)` always has the shape `parseMessage` reads.** -/
theorem headerOfPy_general (fuel : Nat) (data : Bytes) (le : Bool) (fds : Option (List PyVal)) (n : Nat) (vs : List PyVal)
    (h : Code.unmarshal fuel headerFormatStr data 0 le fds = .ok (n, vs)) : ∃ hv, headerOfPy n vs = .ok hv := by
  cases fuel with
  | zero =>
    unfold Code.unmarshal unmarshalTop at h
    simp only [lazyPieces_header, unmarshalSeq, List.head?_cons, unmarshalOne] at h
    generalize padLenOf 'y' 0 = pp at h
    cases pp <;> cases h
  | succ f =>
    unfold Code.unmarshal unmarshalTop at h
    simp only [lazyPieces_header, unmarshalSeq, List.head?_cons] at h
    -- seven steps: peel them one by one
    cases hp0 : padLenOf 'y' 0 with
    | error e => rw [hp0] at h; cases h
    | ok p0 =>
    rw [hp0] at h; dsimp only at h
    cases h0 : unmarshalOne le data fds (f + 1) ['y'] (0 + p0) with
    | error e => rw [h0] at h; cases h
    | ok r0 =>
    obtain ⟨n0, v0⟩ := r0
    obtain ⟨k0, rfl⟩ := seq_int_step le fds data f 'y' (Or.inl rfl) _ _ _ h0
    rw [h0] at h; dsimp only at h
    cases hp1 : padLenOf 'y' (0 + p0 + n0) with
    | error e => rw [hp1] at h; cases h
    | ok p1 =>
    rw [hp1] at h; dsimp only at h
    cases h1 : unmarshalOne le data fds (f + 1) ['y'] (0 + p0 + n0 + p1) with
    | error e => rw [h1] at h; cases h
    | ok r1 =>
    obtain ⟨n1, v1⟩ := r1
    obtain ⟨k1, rfl⟩ := seq_int_step le fds data f 'y' (Or.inl rfl) _ _ _ h1
    rw [h1] at h; dsimp only at h
    cases hp2 : padLenOf 'y' (0 + p0 + n0 + p1 + n1) with
    | error e => rw [hp2] at h; cases h
    | ok p2 =>
    rw [hp2] at h; dsimp only at h
    cases h2 : unmarshalOne le data fds (f + 1) ['y'] (0 + p0 + n0 + p1 + n1 + p2) with
    | error e => rw [h2] at h; cases h
    | ok r2 =>
    obtain ⟨n2, v2⟩ := r2
    obtain ⟨k2, rfl⟩ := seq_int_step le fds data f 'y' (Or.inl rfl) _ _ _ h2
    rw [h2] at h; dsimp only at h
    cases hp3 : padLenOf 'y' (0 + p0 + n0 + p1 + n1 + p2 + n2) with
    | error e => rw [hp3] at h; cases h
    | ok p3 =>
    rw [hp3] at h; dsimp only at h
    cases h3 : unmarshalOne le data fds (f + 1) ['y'] (0 + p0 + n0 + p1 + n1 + p2 + n2 + p3) with
    | error e => rw [h3] at h; cases h
    | ok r3 =>
    obtain ⟨n3, v3⟩ := r3
    obtain ⟨k3, rfl⟩ := seq_int_step le fds data f 'y' (Or.inl rfl) _ _ _ h3
    rw [h3] at h; dsimp only at h
    cases hp4 : padLenOf 'u' (0 + p0 + n0 + p1 + n1 + p2 + n2 + p3 + n3) with
    | error e => rw [hp4] at h; cases h
    | ok p4 =>
    rw [hp4] at h; dsimp only at h
    cases h4 : unmarshalOne le data fds (f + 1) ['u'] (0 + p0 + n0 + p1 + n1 + p2 + n2 + p3 + n3 + p4) with
    | error e => rw [h4] at h; cases h
    | ok r4 =>
    obtain ⟨n4, v4⟩ := r4
    obtain ⟨k4, rfl⟩ := seq_int_step le fds data f 'u' (Or.inr rfl) _ _ _ h4
    rw [h4] at h; dsimp only at h
    cases hp5 : padLenOf 'u' (0 + p0 + n0 + p1 + n1 + p2 + n2 + p3 + n3 + p4 + n4) with
    | error e => rw [hp5] at h; cases h
    | ok p5 =>
    rw [hp5] at h; dsimp only at h
    cases h5 : unmarshalOne le data fds (f + 1) ['u'] (0 + p0 + n0 + p1 + n1 + p2 + n2 + p3 + n3 + p4 + n4 + p5) with
    | error e => rw [h5] at h; cases h
    | ok r5 =>
    obtain ⟨n5, v5⟩ := r5
    obtain ⟨k5, rfl⟩ := seq_int_step le fds data f 'u' (Or.inr rfl) _ _ _ h5
    rw [h5] at h; dsimp only at h
    cases hp6 : padLenOf 'a' (0 + p0 + n0 + p1 + n1 + p2 + n2 + p3 + n3 + p4 + n4 + p5 + n5) with
    | error e => rw [hp6] at h; cases h
    | ok p6 =>
    rw [hp6] at h; dsimp only at h
    cases h6 : unmarshalOne le data fds (f + 1) ['a', '(', 'y', 'v', ')']
        (0 + p0 + n0 + p1 + n1 + p2 + n2 + p3 + n3 + p4 + n4 + p5 + n5 + p6) with
    | error e => rw [h6] at h; cases h
    | ok r6 =>
    obtain ⟨n6, v6⟩ := r6
    obtain ⟨items, rfl, hall⟩ := arrayYV_shape le fds data (f + 1) _ _ _ h6
    rw [h6] at h
    simp only [Except.ok.injEq, Prod.mk.injEq] at h
    obtain ⟨fs, hfs⟩ := fieldsOfPy_of_all items hall
    rw [← h.2]
    simp only [headerOfPy, hfs]
    exact ⟨_, rfl⟩

/-! ### when the specialised decoder says "outside" -/

theorem unmarshalBasic_ne_other (le : Bool) (c : Basic) (r : Rd) (fds : Option (List PyVal)) :
    unmarshalBasic le c r fds ≠ .error .other := by
  have hU : ∀ k, unpackU (endianOf le) k r ≠ .error .other := by
    intro k; unfold unpackU; split <;> simp
  have hS : ∀ k, unpackS (endianOf le) k r ≠ .error .other := by
    intro k; unfold unpackS; split <;> simp
  have hRU : ∀ k f, retU (unpackU (endianOf le) k r) k f ≠ .error .other := by
    intro k f
    have := hU k
    cases hu : unpackU (endianOf le) k r with
    | ok x => simp [retU]
    | error e => rw [hu] at this; simpa [retU] using this
  have hRS : ∀ k f, retS (unpackS (endianOf le) k r) k f ≠ .error .other := by
    intro k f
    have := hS k
    cases hu : unpackS (endianOf le) k r with
    | ok x => simp [retS]
    | error e => rw [hu] at this; simpa [retS] using this
  cases c <;> simp only [unmarshalBasic] <;> first
    | exact hRU _ _
    | exact hRS _ _
    | skip
  case h =>
    have := hU 4
    cases hu : unpackU (endianOf le) 4 r with
    | error e => rw [hu] at this; simpa using this
    | ok idx =>
      dsimp only
      cases fds with
      | none => simp
      | some l => dsimp only; split <;> simp
  case s =>
    have := hU 4
    cases hu : unpackU (endianOf le) 4 r with
    | error e => rw [hu] at this; simpa using this
    | ok slen => dsimp only; split <;> simp
  case o =>
    have := hU 4
    cases hu : unpackU (endianOf le) 4 r with
    | error e => rw [hu] at this; simpa using this
    | ok slen => dsimp only; split <;> simp
  case g =>
    have := hU 1
    cases hu : unpackU (endianOf le) 1 r with
    | error e => rw [hu] at this; simpa using this
    | ok slen => dsimp only; split <;> simp

theorem unmarshalSignature_ne_other (le : Bool) (r : Rd) : unmarshalSignature le r ≠ .error .other := by
  unfold unmarshalSignature
  cases hu : unpackU (endianOf le) 1 r with
  | error e =>
    dsimp only
    unfold unpackU at hu
    split at hu
    · cases hu
    · cases hu; simp
  | ok slen => dsimp only; split <;> simp

/-- The ONLY way `unmarshal_variant` of the fragment answers "outside": the variant's signature starts with a type code
that `pad` knows and is not exactly one basic type code (several types, or a container / variant code). -/
theorem unmarshalVariant_other (A : Char → Nat) (le : Bool) (r : Rd) (fds : Option (List PyVal))
    (h : unmarshalVariant A le r fds = .error .other) :
    ∃ nsig ch more, unmarshalSignature le r = .ok (nsig, ch :: more) ∧ A ch ≠ 0 ∧
      (more ≠ [] ∨ Basic.ofCode? ch = none) := by
  unfold unmarshalVariant at h
  cases hs : unmarshalSignature le r with
  | error e =>
    rw [hs] at h
    simp only [Except.error.injEq] at h
    exact absurd (h ▸ hs) (unmarshalSignature_ne_other le r)
  | ok p =>
    obtain ⟨nsig, vsig⟩ := p
    rw [hs] at h
    dsimp only at h
    cases vsig with
    | nil => cases h
    | cons ch more =>
      dsimp only at h
      by_cases hz : A ch = 0
      · simp only [hz, if_true] at h; cases h
      · simp only [hz, if_false] at h
        refine ⟨nsig, ch, more, rfl, hz, ?_⟩
        cases more with
        | cons c2 m2 => exact Or.inl (by simp)
        | nil =>
          cases hc : Basic.ofCode? ch with
          | none => exact Or.inr rfl
          | some c =>
            exfalso
            rw [hc] at h
            dsimp only at h
            have := unmarshalBasic_ne_other le c (((r.adv nsig).skipPad A ch).skipPad A ch) fds
            cases hb : unmarshalBasic le c (((r.adv nsig).skipPad A ch).skipPad A ch) fds with
            | ok x => rw [hb] at h; cases h
            | error e => rw [hb] at h this; simp only [Except.error.injEq] at h; exact this (by rw [h])

theorem unpackU_ne_other (e : Endian) (k : Nat) (r : Rd) : unpackU e k r ≠ .error .other := by
  unfold unpackU; split <;> simp

theorem unmarshalStructYV_other (A : Char → Nat) (le : Bool) (r : Rd) (fds : Option (List PyVal))
    (h : unmarshalStructYV A le r fds = .error .other) :
    unmarshalVariant A le (((r.skipPad A 'y').adv 1).skipPad A 'v') fds = .error .other := by
  unfold unmarshalStructYV at h
  dsimp only at h
  cases hu : unpackU (endianOf le) 1 (r.skipPad A 'y') with
  | error e =>
    rw [hu] at h
    simp only [Except.error.injEq] at h
    exact absurd (h ▸ hu) (unpackU_ne_other _ _ _)
  | ok code =>
    rw [hu] at h
    dsimp only at h
    cases hv : unmarshalVariant A le (((r.skipPad A 'y').adv 1).skipPad A 'v') fds with
    | ok x => rw [hv] at h; cases h
    | error e => rw [hv] at h; simp only [Except.error.injEq] at h; rw [h]

theorem unmarshalItems_other (A : Char → Nat) (hO : AlignOK A) (le : Bool) (fds : Option (List PyVal)) (data : Bytes)
    (stop : Nat) :
    ∀ (k off : Nat), data.length - off < k →
      unmarshalItems A le fds k (rdAt data off) stop = .error .other →
      ∃ off', unmarshalVariant A le (rdAt data off') fds = .error .other
  | 0, _, hk, _ => by omega
  | k + 1, off, hk, h => by
    unfold unmarshalItems at h
    simp only [rdAt_off, rdAt_skipPad, rdAt_adv] at h
    by_cases hlt : off < stop
    · simp only [hlt, if_true] at h
      cases hst : unmarshalStructYV A le (rdAt data (off + padLen (A '(') off)) fds with
      | error e =>
        rw [hst] at h
        simp only [Except.error.injEq] at h
        subst h
        have := unmarshalStructYV_other A le _ fds hst
        simp only [rdAt_skipPad, rdAt_adv] at this
        exact ⟨_, this⟩
      | ok r =>
        obtain ⟨nb, item⟩ := r
        rw [hst] at h
        dsimp only at h
        by_cases hz : nb = 0
        · simp only [hz, if_true] at h; cases h
        · simp only [hz, if_false] at h
          have hprog := unmarshalStructYV_progress A hO le fds data _ nb item hst
          cases hr : unmarshalItems A le fds k (rdAt data (off + padLen (A '(') off + nb)) stop with
          | ok x => rw [hr] at h; cases h
          | error e =>
            rw [hr] at h
            simp only [Except.error.injEq] at h
            subst h
            exact unmarshalItems_other A hO le fds data stop k _ (by omega) hr
    · simp only [hlt, if_false] at h
      cases h

/-- **"Outside the fragment", anchored to the field walk**: when the specialised header decoder answers `PyErr.other`, its
own walk over the field array stands, at some offset `off`, before a variant on which the fragment's `unmarshal_variant`
answers `other` (the walk reached it: every field before decoded, the loop budget was not exhausted). -/
theorem unmarshalHeader_other_anchored (A : Char → Nat) (hO : AlignOK A) (le : Bool) (data : Bytes) (fds : Option (List PyVal))
    (h : unmarshalHeader A le data fds = .error .other) :
    ∃ off, unmarshalVariant A le (rdAt data off) fds = .error .other := by
  unfold unmarshalHeader at h
  simp only [rdAt_zero, rdAt_skipPad, rdAt_adv, rdAt_off] at h
  have step : ∀ {α : Type} (k : Nat) (r : Rd) (g : Nat → Except PyErr α),
      (match unpackU (endianOf le) k r with
       | .error x => Except.error x
       | .ok v => g v) = Except.error PyErr.other → ∃ v, unpackU (endianOf le) k r = .ok v ∧ g v = .error .other := by
    intro α k r g hh
    cases hu : unpackU (endianOf le) k r with
    | error e =>
      rw [hu] at hh
      simp only [Except.error.injEq] at hh
      exact absurd (hh ▸ hu) (unpackU_ne_other _ _ _)
    | ok v => rw [hu] at hh; exact ⟨v, rfl, hh⟩
  obtain ⟨v0, _, h⟩ := step _ _ _ h
  obtain ⟨v1, _, h⟩ := step _ _ _ h
  obtain ⟨v2, _, h⟩ := step _ _ _ h
  obtain ⟨v3, _, h⟩ := step _ _ _ h
  obtain ⟨v4, _, h⟩ := step _ _ _ h
  obtain ⟨v5, _, h⟩ := step _ _ _ h
  split at h
  · rename_i x ha
    simp only [Except.error.injEq] at h
    subst h
    unfold unmarshalArrayYV at ha
    obtain ⟨dl, _, ha⟩ := step _ _ _ ha
    simp only [rdAt_adv, rdAt_skipPad, rdAt_off] at ha
    cases hi : unmarshalItems A le fds ((rdAt data _).rest.length + 1) (rdAt data _) _ with
    | ok x =>
      rw [hi] at ha
      obtain ⟨items, r2⟩ := x
      dsimp only at ha
      split at ha <;> cases ha
    | error e =>
      rw [hi] at ha
      simp only [Except.error.injEq] at ha
      subst ha
      exact unmarshalItems_other A hO le fds data _ _ _ (by simp [rdAt]) hi
  · cases h

/-- The consequence in terms of the bytes (a NECESSARY condition, weaker than the anchored form): at that offset stands a
variant signature that starts with a known type code and is not exactly one basic type code. -/
theorem unmarshalHeader_other (A : Char → Nat) (hO : AlignOK A) (le : Bool) (data : Bytes) (fds : Option (List PyVal))
    (h : unmarshalHeader A le data fds = .error .other) :
    ∃ off nsig ch more, unmarshalSignature le (rdAt data off) = .ok (nsig, ch :: more) ∧ A ch ≠ 0 ∧
      (more ≠ [] ∨ Basic.ofCode? ch = none) := by
  obtain ⟨off, hv⟩ := unmarshalHeader_other_anchored A hO le data fds h
  obtain ⟨nsig, ch, more, h1, h2, h3⟩ := unmarshalVariant_other A le _ fds hv
  exact ⟨off, nsig, ch, more, h1, h2, h3⟩

end Txdbus.Msg
