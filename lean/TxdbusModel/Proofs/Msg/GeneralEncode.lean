import TxdbusModel.Proofs.Msg.GeneralDecode
import TxdbusModel.Proofs.Msg.HeaderCode
import TxdbusModel.Proofs.Wire.MarshalSpec
/-
C03 extension 2026-09-30, part 2: the header ENCODER of Msg/HeaderCode.lean is the general encoder of Wire/Code.lean
(C01/C02's code model of `marshal.marshal`) applied to `yyyyuua(yv)` and the list `[endian, type, flags, version,
bodyLength, serial, headers]` at startByte 0 - for ALL Python values in the seven positions and in the header list
(any `[code, hval]` pairs), errors included, as long as the specialised encoder does not answer `PyErr.other`
(= a header value whose inferred signature is not exactly one of `y u s o g`: outside the fragment).
Method: direct unfolding, level by level (basic marshaller, variant, `(yv)`, array loop, array, header).
-/
set_option linter.unusedSimpArgs false

namespace Txdbus.Msg
open Gen.Wire (Fn)
open Code (marshalTop marshalSeq marshalElems mFixed mString mSignature pack padLenOf fmtOf frameOf fmtLE
  topItems arrayItems pyIter)

/-- A fragment result `(nbytes, chunks)` as a result of the general model (which also threads the descriptor list). -/
def liftM (fds : Code.Fds) : MRes → Code.MRes
  | .ok (n, b) => .ok (n, b, fds)
  | .error e => .error e

/-! ### `struct.pack` -/

theorem pack_B (le : Bool) (var : PyVal) :
    pack (fmtLE 'B' le) var = match var.asInt? with
      | some n => packB n
      | none => .error .struct := by
  unfold pack
  rw [Code.fmtEndian_fmtLE]
  have hk : Code.fmtKind? 'B' = some (.uint 1) := rfl
  simp only [fmtLE, hk]
  cases var.asInt? with
  | none => rfl
  | some n =>
    simp only [packB, encUInt_one]
    by_cases h : 0 ≤ n ∧ n < 256
    · rw [if_pos h, if_pos (by simpa using h)]
    · rw [if_neg h, if_neg (by simpa using h)]

theorem pack_I (le : Bool) (var : PyVal) :
    pack (fmtLE 'I' le) var = match var.asInt? with
      | some n => packI le n
      | none => .error .struct := by
  unfold pack
  rw [Code.fmtEndian_fmtLE]
  have hk : Code.fmtKind? 'I' = some (.uint 4) := rfl
  simp only [fmtLE, hk]
  cases var.asInt? with
  | none => rfl
  | some n =>
    simp only [packI, endianOf_eq]
    have h4 : ((256 ^ 4 : Nat) : Int) = 4294967296 := by decide
    by_cases h : 0 ≤ n ∧ n.toNat < 4294967296
    · rw [if_pos h, if_pos (by rw [h4]; omega)]
    · rw [if_neg h, if_neg (by rw [h4]; omega)]

/-! ### the five basic marshallers of the fragment -/

open Code in
theorem marshalOne_y (le : Bool) (fuel : Nat) (tl : List Char) (var : PyVal) (start : Nat) (fds : Code.Fds) :
    Code.marshalOne le (fuel + 1) ('y' :: tl) var start fds = liftM fds (marshalByte var) := by
  simp only [Code.marshalOne, List.head?_cons, disp_y, mFixed, size_byte, fmt_byte, pack_B, marshalByte]
  cases var.asInt? with
  | none => rfl
  | some n =>
    dsimp only
    cases packB n <;> rfl

open Code in
theorem marshalOne_u (le : Bool) (fuel : Nat) (tl : List Char) (var : PyVal) (start : Nat) (fds : Code.Fds) :
    Code.marshalOne le (fuel + 1) ('u' :: tl) var start fds = liftM fds (marshalUInt32 le var) := by
  simp only [Code.marshalOne, List.head?_cons, disp_u, mFixed, size_uint32, fmt_uint32, pack_I, marshalUInt32]
  cases var.asInt? with
  | none => rfl
  | some n =>
    dsimp only
    cases packI le n <;> rfl

open Code in
theorem mString_eq (le : Bool) (var : PyVal) (fds : Code.Fds) : mString le var fds = liftM fds (marshalString le var) := by
  unfold mString marshalString
  cases var <;> try rfl
  rename_i cls s
  simp only
  by_cases hn : s.contains (Char.ofNat 0) = true
  · simp only [hn, if_true]; rfl
  · simp only [hn, Bool.false_eq_true, if_false, fmt_string, frame_string, pack_I, PyVal.asInt?]
    cases packI le ((utf8Encode s).length : Nat) with
    | error e => rfl
    | ok l => simp only [liftM]; congr 2; omega

open Code in
theorem marshalOne_s (le : Bool) (fuel : Nat) (tl : List Char) (var : PyVal) (start : Nat) (fds : Code.Fds) :
    Code.marshalOne le (fuel + 1) ('s' :: tl) var start fds = liftM fds (marshalString le var) := by
  simp only [Code.marshalOne, List.head?_cons, disp_s, mString_eq]

open Code in
theorem mSignature_eq (le : Bool) (s : List Char) (cls : StrCls) (fds : Code.Fds) :
    mSignature le s fds = liftM fds (marshalSignature (.str cls s)) := by
  unfold mSignature marshalSignature
  simp only
  cases asciiEncode s with
  | none => rfl
  | some b =>
    simp only [fmt_signature, frame_signature, pack_B, PyVal.asInt?]
    cases packB (b.length : Nat) <;> rfl

open Code in
theorem marshalOne_g (le : Bool) (fuel : Nat) (tl : List Char) (var : PyVal) (start : Nat) (fds : Code.Fds) :
    Code.marshalOne le (fuel + 1) ('g' :: tl) var start fds = liftM fds (marshalSignature var) := by
  simp only [Code.marshalOne, List.head?_cons, disp_g]
  cases var <;> try rfl
  exact mSignature_eq le _ _ fds

open Code in
/-- OBJECT_PATH: the two models differ only on `bytearray` / `bytes` arguments (TypeError of `startswith` in the general
model, folded into AttributeError by the fragment); neither is ever inferred to have signature `o`. -/
theorem marshalOne_o (le : Bool) (fuel : Nat) (tl : List Char) (var : PyVal) (start : Nat) (fds : Code.Fds)
    (hsig : sigFromPy var = .ok ['o']) :
    Code.marshalOne le (fuel + 1) ('o' :: tl) var start fds = liftM fds (marshalObjectPath le var) := by
  simp only [Code.marshalOne, List.head?_cons, disp_o, marshalObjectPath]
  cases var with
  | str cls s =>
    simp only [validateObjectPathPy, validatePathVal]
    cases Valid.validateObjectPath s with
    | accept => exact mString_eq le _ fds
    | raised _ => rfl
  | bytearray bs => simp [sigFromPy] at hsig
  | other c => simp [sigFromPy] at hsig
  | _ => rfl

/-! ### the variant -/

theorem liftM_ok {fds : Code.Fds} {r : MRes} {n : Nat} {b : Bytes} (h : r = .ok (n, b)) : liftM fds r = .ok (n, b, fds) := by
  rw [h]; rfl

theorem liftM_error {fds : Code.Fds} {r : MRes} {e : PyErr} (h : r = .error e) : liftM fds r = .error e := by
  rw [h]; rfl

open Code in
/-- One unfolding of the general `marshal_variant`. -/
theorem marshalOne_v (le : Bool) (fuel : Nat) (tl : List Char) (var : PyVal) (start : Nat) (fds : Code.Fds) :
    Code.marshalOne le (fuel + 1) ('v' :: tl) var start fds =
      match sigFromPy var with
      | .error e => .error e
      | .ok vsig =>
        match mSignature le vsig fds with
        | .error e => .error e
        | .ok (n, sg, _) =>
          match vsig.head? with
          | none => .error .index
          | some vc =>
            match padLenOf vc (start + n) with
            | .error e => .error e
            | .ok p =>
              match marshalTop (Code.marshalOne le fuel) vsig (.list [var]) (start + n + p) none with
              | .error e => .error e
              | .ok (rn, body, _) => .ok (n + p + rn, sg ++ zeros p ++ body, fds) := by
  simp only [Code.marshalOne, List.head?_cons, disp_v]
  rfl

theorem lazyPieces_one (c : Char) (h1 : c ≠ '(') (h2 : c ≠ '{') (h3 : c ≠ 'a') : lazyPieces [c] = ([[c]], none) := by
  simp [lazyPieces, lazyFuel, firstType, h1, h2, h3]

/-- `marshal(vsig, [var], startByte, lendian)` of the general model for a one-character signature `c0` that is no
bracket and not `a`, given what the marshaller of `c0` does. -/
theorem marshalTop_one (A : Char → Nat) (hA : PadAgree A) (one : List Char → PyVal → Nat → Code.Fds → Code.MRes)
    (c0 : Char) (h1 : c0 ≠ '(') (h2 : c0 ≠ '{') (h3 : c0 ≠ 'a') (hz : A c0 ≠ 0) (var : PyVal) (start : Nat) (fds : Code.Fds) :
    marshalTop one [c0] (.list [var]) start fds =
      match one [c0] var (start + padLen (A c0) start) fds with
      | .error e => .error e
      | .ok (n, bs, fds1) => .ok (padLen (A c0) start + n, zeros (padLen (A c0) start) ++ bs, fds1) := by
  unfold marshalTop
  simp only [topItems, pyIter, lazyPieces_one c0 h1 h2 h3, marshalSeq, List.head?_cons, hA.ok _ _ hz]
  cases one [c0] var (start + padLen (A c0) start) fds with
  | error e => rfl
  | ok r =>
    obtain ⟨n, bs, f1⟩ := r
    simp only [List.append_nil, Except.ok.injEq, Prod.mk.injEq, and_true]
    omega

/-- The general per-type marshaller on one of the five codes of the fragment = the fragment's `marshalBasic`. -/
theorem marshalOne_basic5 (le : Bool) (fuel : Nat) (c0 : Char) (var : PyVal) (start : Nat) (fds : Code.Fds)
    (hsig : sigFromPy var = .ok [c0]) (hne : marshalBasic le c0 var ≠ .error .other) :
    Code.marshalOne le (fuel + 1) [c0] var start fds = liftM fds (marshalBasic le c0 var) := by
  unfold marshalBasic at hne ⊢
  by_cases hy : c0 = 'y'
  · subst hy; simp only [if_true]; exact marshalOne_y le fuel [] var start fds
  · by_cases hu : c0 = 'u'
    · subst hu; simp only [hy, if_false, if_true]; exact marshalOne_u le fuel [] var start fds
    · by_cases hs : c0 = 's'
      · subst hs; simp only [hy, hu, if_false, if_true]; exact marshalOne_s le fuel [] var start fds
      · by_cases ho : c0 = 'o'
        · subst ho; simp only [hy, hu, hs, if_false, if_true]; exact marshalOne_o le fuel [] var start fds hsig
        · by_cases hg : c0 = 'g'
          · subst hg; simp only [hy, hu, hs, ho, if_false, if_true]; exact marshalOne_g le fuel [] var start fds
          · simp only [hy, hu, hs, ho, hg, if_false] at hne
            exact absurd rfl hne

theorem basic5_facts (A : Char → Nat) (hO : AlignOK A) (le : Bool) (c0 : Char) (var : PyVal)
    (hne : marshalBasic le c0 var ≠ .error .other) : c0 ≠ '(' ∧ c0 ≠ '{' ∧ c0 ≠ 'a' ∧ A c0 ≠ 0 := by
  unfold marshalBasic at hne
  by_cases hy : c0 = 'y'
  · subst hy; rw [hO.y]; decide
  · by_cases hu : c0 = 'u'
    · subst hu; rw [hO.u]; decide
    · by_cases hs : c0 = 's'
      · subst hs; rw [show ('s' : Char) = Basic.code .s from rfl, hO.basic]; decide
      · by_cases ho : c0 = 'o'
        · subst ho; rw [show ('o' : Char) = Basic.code .o from rfl, hO.basic]; decide
        · by_cases hg : c0 = 'g'
          · subst hg; rw [show ('g' : Char) = Basic.code .g from rfl, hO.basic]; decide
          · simp only [hy, hu, hs, ho, hg, if_false] at hne
            exact absurd rfl hne

/-- `marshal_variant` of the general model = the fragment's, unless the fragment says "outside" (`PyErr.other`). -/
theorem marshalOne_variant_eq (A : Char → Nat) (hA : PadAgree A) (hO : AlignOK A) (le : Bool) (fuel : Nat)
    (tl : List Char) (var : PyVal) (start : Nat) (fds : Code.Fds)
    (hne : marshalVariant A le var start ≠ .error .other) :
    Code.marshalOne le (fuel + 2) ('v' :: tl) var start fds = liftM fds (marshalVariant A le var start) := by
  rw [marshalOne_v]
  unfold marshalVariant at hne ⊢
  cases hsig : sigFromPy var with
  | error e => rfl
  | ok vsig =>
    rw [hsig] at hne
    simp only at hne ⊢
    rw [mSignature_eq le vsig .plain fds]
    cases hms : marshalSignature (.str .plain vsig) with
    | error e => rfl
    | ok r =>
      obtain ⟨nbytes, chunks⟩ := r
      rw [hms] at hne
      simp only [liftM] at hne ⊢
      cases vsig with
      | nil => rfl
      | cons c0 more =>
        cases more with
        | cons c1 m2 => exact absurd rfl hne
        | nil =>
          simp only [List.head?_cons] at hne ⊢
          unfold Msg.marshalOne at hne ⊢
          have hnb : marshalBasic le c0 var ≠ .error .other := by
            intro h; rw [h] at hne; exact hne rfl
          obtain ⟨h1, h2, h3, hz⟩ := basic5_facts A hO le c0 var hnb
          simp only [hA.ok _ _ hz, marshalTop_one A hA _ c0 h1 h2 h3 hz,
            marshalOne_basic5 le fuel c0 var _ none hsig hnb]
          cases marshalBasic le c0 var with
          | error e => rfl
          | ok r2 =>
            obtain ⟨n, b⟩ := r2
            simp only [liftM, Except.ok.injEq, Prod.mk.injEq, List.append_assoc, and_true]
            omega

/-! ### the struct `(yv)`, the array loop, the array, the header -/

/-- One entry of `self.headers` as the Python value: `[code, hval]`. -/
def pairToPy (h : PyVal × PyVal) : PyVal := .list [h.1, h.2]

open Code in
theorem marshalOne_struct (le : Bool) (fuel : Nat) (tl : List Char) (var : PyVal) (start : Nat) (fds : Code.Fds) :
    Code.marshalOne le (fuel + 1) ('(' :: tl) var start fds =
      marshalTop (Code.marshalOne le fuel) tl.dropLast var start fds := by
  simp only [Code.marshalOne, List.head?_cons, disp_struct]
  rfl

theorem marshalOne_structYV_eq (A : Char → Nat) (hA : PadAgree A) (hO : AlignOK A) (le : Bool) (fuel : Nat)
    (code hval : PyVal) (start : Nat) (fds : Code.Fds)
    (hne : marshalStructYV A le code hval start ≠ .error .other) :
    Code.marshalOne le (fuel + 3) ['(', 'y', 'v', ')'] (pairToPy (code, hval)) start fds =
      liftM fds (marshalStructYV A le code hval start) := by
  obtain ⟨hy, _, _, _, hv⟩ := alignOK_ne A hO
  rw [marshalOne_struct]
  have hdl : (['y', 'v', ')'] : List Char).dropLast = ['y', 'v'] := rfl
  rw [hdl]
  unfold marshalTop
  unfold marshalStructYV at hne ⊢
  simp only [pairToPy, topItems, pyIter, lazyPieces_yv, marshalSeq, List.head?_cons, hA.ok _ _ hy, hA.ok _ _ hv,
    marshalOne_y] at hne ⊢
  cases hb : marshalByte code with
  | error e => rfl
  | ok r =>
    obtain ⟨n1, b1⟩ := r
    rw [hb] at hne
    simp only [liftM] at hne ⊢
    have hnv : marshalVariant A le hval (start + padLen (A 'y') start + n1 +
        padLen (A 'v') (start + padLen (A 'y') start + n1)) ≠ .error .other := by
      intro h; rw [h] at hne; exact hne rfl
    rw [marshalOne_variant_eq A hA hO le fuel [] hval _ fds hnv]
    cases marshalVariant A le hval (start + padLen (A 'y') start + n1 +
        padLen (A 'v') (start + padLen (A 'y') start + n1)) with
    | error e => rfl
    | ok r2 =>
      obtain ⟨n2, b2⟩ := r2
      simp only [liftM, List.append_nil, List.append_assoc, Except.ok.injEq, Prod.mk.injEq, and_true]
      try omega

theorem marshalElems_items_eq (A : Char → Nat) (hA : PadAgree A) (hO : AlignOK A) (le : Bool) (fuel : Nat) :
    ∀ (hs : List (PyVal × PyVal)) (start d0 : Nat) (fds : Code.Fds),
      marshalItems A le hs start ≠ .error .other →
      marshalElems (Code.marshalOne le (fuel + 3) ['(', 'y', 'v', ')']) '(' (hs.map pairToPy) start d0 fds =
        match marshalItems A le hs start with
        | .error e => .error e
        | .ok (dl, bs) => .ok (start + dl, d0 + dl, bs, fds)
  | [], start, d0, fds, _ => by simp [marshalElems, marshalItems]
  | (code, hval) :: rest, start, d0, fds, hne => by
    obtain ⟨_, _, _, hs', _⟩ := alignOK_ne A hO
    unfold marshalItems at hne ⊢
    simp only [List.map_cons, marshalElems, hA.ok _ _ hs'] at hne ⊢
    have hns : marshalStructYV A le code hval (start + padLen (A '(') start) ≠ .error .other := by
      intro h; rw [h] at hne; exact hne rfl
    rw [marshalOne_structYV_eq A hA hO le fuel code hval _ fds hns]
    cases hst : marshalStructYV A le code hval (start + padLen (A '(') start) with
    | error e => rfl
    | ok r =>
      obtain ⟨n, b⟩ := r
      rw [hst] at hne
      simp only [liftM] at hne ⊢
      have hnr : marshalItems A le rest (start + padLen (A '(') start + n) ≠ .error .other := by
        intro h; rw [h] at hne; exact hne rfl
      rw [marshalElems_items_eq A hA hO le fuel rest _ _ fds hnr]
      cases marshalItems A le rest (start + padLen (A '(') start + n) with
      | error e => rfl
      | ok r2 =>
        obtain ⟨dl, bs⟩ := r2
        simp only [List.append_assoc, Except.ok.injEq, Prod.mk.injEq, and_true]
        omega

open Code in
theorem marshalOne_array (le : Bool) (fuel : Nat) (tl : List Char) (var : PyVal) (start : Nat) (fds : Code.Fds) :
    Code.marshalOne le (fuel + 1) ('a' :: tl) var start fds =
      match tl.head? with
      | none => .error .index
      | some ec =>
        match padLenOf ec (start + 4) with
        | .error e => .error e
        | .ok p0 =>
          match arrayItems var with
          | .error e => .error e
          | .ok items =>
            match marshalElems (Code.marshalOne le fuel tl) ec items (start + 4 + p0) 0 fds with
            | .error e => .error e
            | .ok (_, dataLen, body, fds') =>
              match fmtOf .marshal_array 0 le with
              | .error e => .error e
              | .ok fmt =>
                match pack fmt (.int .plain dataLen), frameOf .marshal_array with
                | .ok lenb, .ok fr => .ok (fr + p0 + dataLen, lenb ++ zeros p0 ++ body, fds')
                | .error e, _ => .error e
                | _, .error e => .error e := by
  simp only [Code.marshalOne, List.head?_cons, disp_a]
  rfl

open Code in
theorem marshalOne_arrayYV_eq (A : Char → Nat) (hA : PadAgree A) (hO : AlignOK A) (le : Bool) (fuel : Nat)
    (hs : List (PyVal × PyVal)) (start : Nat) (fds : Code.Fds)
    (hne : marshalArrayYV A le hs start ≠ .error .other) :
    Code.marshalOne le (fuel + 4) ['a', '(', 'y', 'v', ')'] (headersVal hs) start fds =
      liftM fds (marshalArrayYV A le hs start) := by
  obtain ⟨_, _, _, hs', _⟩ := alignOK_ne A hO
  rw [marshalOne_array]
  unfold marshalArrayYV at hne ⊢
  simp only [List.head?_cons, hA.ok _ _ hs', headersVal, arrayItems] at hne ⊢
  have hni : marshalItems A le hs (start + 4 + padLen (A '(') (start + 4)) ≠ .error .other := by
    intro h; rw [h] at hne; exact hne rfl
  have hmap : (hs.map fun h => PyVal.list [h.1, h.2]) = hs.map pairToPy := rfl
  rw [hmap, marshalElems_items_eq A hA hO le fuel hs _ 0 fds hni]
  cases marshalItems A le hs (start + 4 + padLen (A '(') (start + 4)) with
  | error e => rfl
  | ok r =>
    obtain ⟨dl, bs⟩ := r
    simp only [fmt_array, frame_array, pack_I, PyVal.asInt?, Nat.zero_add]
    cases packI le (dl : Nat) with
    | error e => rfl
    | ok l => rfl

/-- **Encoder.**  For all Python values in the seven positions, every header list, byte order and step budget
`fuel + 4`: when the specialised header encoder answers bytes or an exception other than "outside the fragment", the
general encoder applied to `yyyyuua(yv)` and `[endian, type, flags, version, bodyLength, serial, headers]` at startByte
0 (no descriptor list) answers the same bytes (with some byte count, which `_marshal` drops: `[1]`) / the same exception. -/
theorem marshalHeader_eq_general (A : Char → Nat) (hA : PadAgree A) (hO : AlignOK A) (le : Bool) (fuel : Nat)
    (v0 v1 v2 v3 v4 v5 : PyVal) (hs : List (PyVal × PyVal))
    (hne : marshalHeader A le v0 v1 v2 v3 v4 v5 hs ≠ .error .other) :
    marshalHeaderG (fuel + 4) headerFormatStr le v0 v1 v2 v3 v4 v5 hs = marshalHeader A le v0 v1 v2 v3 v4 v5 hs := by
  obtain ⟨hy, hu, ha, _, _⟩ := alignOK_ne A hO
  unfold marshalHeaderG Code.marshal marshalTop
  unfold marshalHeader at hne ⊢
  simp only [headerArgs, topItems, pyIter, lazyPieces_header, marshalSeq, List.head?_cons, hA.ok _ _ hy, hA.ok _ _ hu,
    hA.ok _ _ ha, marshalOne_y, marshalOne_u, mstep, Nat.zero_add, List.nil_append] at hne ⊢
  cases h0 : marshalByte v0 with
  | error e => rfl
  | ok r0 =>
    obtain ⟨n0, b0⟩ := r0
    rw [h0] at hne
    simp only [liftM] at hne ⊢
    cases h1 : marshalByte v1 with
    | error e => rfl
    | ok r1 =>
      obtain ⟨n1, b1⟩ := r1
      rw [h1] at hne
      simp only [liftM] at hne ⊢
      cases h2 : marshalByte v2 with
      | error e => rfl
      | ok r2 =>
        obtain ⟨n2, b2⟩ := r2
        rw [h2] at hne
        simp only [liftM] at hne ⊢
        cases h3 : marshalByte v3 with
        | error e => rfl
        | ok r3 =>
          obtain ⟨n3, b3⟩ := r3
          rw [h3] at hne
          simp only [liftM] at hne ⊢
          cases h4 : marshalUInt32 le v4 with
          | error e => rfl
          | ok r4 =>
            obtain ⟨n4, b4⟩ := r4
            rw [h4] at hne
            simp only [liftM] at hne ⊢
            cases h5 : marshalUInt32 le v5 with
            | error e => rfl
            | ok r5 =>
              obtain ⟨n5, b5⟩ := r5
              rw [h5] at hne
              simp only [liftM] at hne ⊢
              generalize hsb : padLen (A 'y') 0 + n0 + padLen (A 'y') (padLen (A 'y') 0 + n0) + n1 +
                padLen (A 'y') (padLen (A 'y') 0 + n0 + padLen (A 'y') (padLen (A 'y') 0 + n0) + n1) + n2 = q2 at hne ⊢
              generalize hsb3 : q2 + padLen (A 'y') q2 + n3 = q3 at hne ⊢
              generalize hsb4 : q3 + padLen (A 'u') q3 + n4 = q4 at hne ⊢
              generalize hsb5 : q4 + padLen (A 'u') q4 + n5 = q5 at hne ⊢
              have hna : marshalArrayYV A le hs (q5 + padLen (A 'a') q5) ≠ .error .other := by
                intro h; rw [h] at hne; exact hne rfl
              rw [marshalOne_arrayYV_eq A hA hO le fuel hs _ none hna]
              cases marshalArrayYV A le hs (q5 + padLen (A 'a') q5) with
              | error e => rfl
              | ok r6 =>
                obtain ⟨n6, b6⟩ := r6
                simp [liftM]

end Txdbus.Msg
