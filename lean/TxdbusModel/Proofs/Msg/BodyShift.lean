import TxdbusModel.Wire.Spec
import TxdbusModel.Proofs.Wire.CodePrim
/-
The body's place in the message (review 2, 1.3).  message.py marshals the body at offset 0
(`marshal.marshal(signature, body)`, startByte 0) and puts the bytes behind the header, which `_marshal` pads to a
multiple of 8.  The DBus specification counts alignment from the start of the MESSAGE.  Both agree because every
alignment divides 8: the specification encoding at offset `off + 8 * k` is the encoding at `off`.

`A t.code ∣ 8` for every type is a fact about the alignment table; for the table generated from `dbus_types`
(`Code.genAlign`, Gen/Wire.lean) it is checked by evaluation on the 17 type codes (`genAlign_dvd8`) - a table with an
alignment 3 or 5 (which C01's round trip tolerates) fails here, as it should: the body in its place would differ.
-/
namespace Txdbus

theorem padLen_shift (a off k : Nat) (h : a ∣ 8) : padLen a (off + 8 * k) = padLen a off := by
  obtain ⟨q, hq⟩ := h
  unfold padLen
  have : off + 8 * k = off + a * (q * k) := by rw [hq, Nat.mul_assoc]
  rw [this, Nat.add_mul_mod_self_left]

namespace Spec

mutual
theorem encode_shift (A : AlignTable) (e : Endian) (hd : ∀ t : Ty, A t.code ∣ 8) (k : Nat) :
    ∀ (v : Val) (t : Ty) (off : Nat), encode A e t v (off + 8 * k) = encode A e t v off
  | v, .basic c, off => by simp only [encode]
  | .variant t v, .variant, off => by
    simp only [encode]
    rw [show ∀ L, off + 8 * k + L = off + L + 8 * k from fun L => by omega, padLen_shift _ _ _ (hd t)]
    rw [show ∀ L p, off + L + 8 * k + p = off + L + p + 8 * k from fun L p => by omega, encode_shift A e hd k v t]
  | .array vs, .array el, off => by
    simp only [encode]
    rw [show off + 8 * k + 4 = off + 4 + 8 * k by omega, padLen_shift _ _ _ (hd el)]
    rw [show ∀ p, off + 4 + 8 * k + p = off + 4 + p + 8 * k from fun p => by omega, encodeElems_shift A e hd k vs el]
  | .struct vs, .struct fs, off => by
    simp only [encode]
    exact encodeFields_shift A e hd k vs fs off
  | .entry kv vv, .dict kt vt, off => by
    simp only [encode]
    rw [padLen_shift _ _ _ (hd kt)]
    rw [show ∀ p, off + 8 * k + p = off + p + 8 * k from fun p => by omega, encode_shift A e hd k kv kt]
    cases encode A e kt kv (off + padLen (A kt.code) off) with
    | none => rfl
    | some kb =>
      simp only
      rw [show ∀ p, off + p + 8 * k + kb.length = off + p + kb.length + 8 * k from fun p => by omega,
        padLen_shift _ _ _ (hd vt)]
      rw [show ∀ p q, off + p + kb.length + 8 * k + q = off + p + kb.length + q + 8 * k from fun p q => by omega,
        encode_shift A e hd k vv vt]
  | .int _, .variant, _ | .bool _, .variant, _ | .double _, .variant, _ | .str _, .variant, _
  | .array _, .variant, _ | .struct _, .variant, _ | .entry _ _, .variant, _ => by simp only [encode]
  | .int _, .array _, _ | .bool _, .array _, _ | .double _, .array _, _ | .str _, .array _, _
  | .variant _ _, .array _, _ | .struct _, .array _, _ | .entry _ _, .array _, _ => by simp only [encode]
  | .int _, .struct _, _ | .bool _, .struct _, _ | .double _, .struct _, _ | .str _, .struct _, _
  | .variant _ _, .struct _, _ | .array _, .struct _, _ | .entry _ _, .struct _, _ => by simp only [encode]
  | .int _, .dict _ _, _ | .bool _, .dict _ _, _ | .double _, .dict _ _, _ | .str _, .dict _ _, _
  | .variant _ _, .dict _ _, _ | .array _, .dict _ _, _ | .struct _, .dict _ _, _ => by simp only [encode]
theorem encodeElems_shift (A : AlignTable) (e : Endian) (hd : ∀ t : Ty, A t.code ∣ 8) (k : Nat) :
    ∀ (vs : List Val) (el : Ty) (off : Nat), encodeElems A e el vs (off + 8 * k) = encodeElems A e el vs off
  | [], _, _ => by simp only [encodeElems]
  | v :: vs, el, off => by
    simp only [encodeElems]
    rw [padLen_shift _ _ _ (hd el)]
    rw [show ∀ p, off + 8 * k + p = off + p + 8 * k from fun p => by omega, encode_shift A e hd k v el]
    cases encode A e el v (off + padLen (A el.code) off) with
    | none => rfl
    | some b =>
      simp only
      rw [show ∀ p, off + p + 8 * k + b.length = off + p + b.length + 8 * k from fun p => by omega,
        encodeElems_shift A e hd k vs el]
theorem encodeFields_shift (A : AlignTable) (e : Endian) (hd : ∀ t : Ty, A t.code ∣ 8) (k : Nat) :
    ∀ (vs : List Val) (ts : List Ty) (off : Nat), encodeFields A e ts vs (off + 8 * k) = encodeFields A e ts vs off
  | [], [], _ => by simp only [encodeFields]
  | [], _ :: _, _ => by simp only [encodeFields]
  | _ :: _, [], _ => by simp only [encodeFields]
  | v :: vs, t :: ts, off => by
    simp only [encodeFields]
    rw [padLen_shift _ _ _ (hd t)]
    rw [show ∀ p, off + 8 * k + p = off + p + 8 * k from fun p => by omega, encode_shift A e hd k v t]
    cases encode A e t v (off + padLen (A t.code) off) with
    | none => rfl
    | some b =>
      simp only
      rw [show ∀ p, off + p + 8 * k + b.length = off + p + b.length + 8 * k from fun p => by omega,
        encodeFields_shift A e hd k vs ts]
end

/-- **Shift lemma.**  When every alignment divides 8, the encoding of a body whose first byte sits at a multiple of 8 -
where `_marshal` puts it - is the encoding at offset 0 - what `marshal.marshal(signature, body)` computes. -/
theorem encodeAll_shift (A : AlignTable) (e : Endian) (hd : ∀ t : Ty, A t.code ∣ 8) (ts : List Ty) (vs : List Val)
    (off : Nat) (h8 : off % 8 = 0) : encodeAll A e ts vs off = encodeAll A e ts vs 0 := by
  unfold encodeAll
  have : off = 0 + 8 * (off / 8) := by omega
  rw [this, encodeFields_shift A e hd (off / 8) vs ts 0]

end Spec

namespace Code

/-- Every alignment of the generated table `dbus_types` divides 8 (checked on the 17 type codes of the table). -/
theorem genAlign_dvd8_codes : ∀ c ∈ typeCodes, ∃ a, Gen.Wire.alignTable.lookup c = some a ∧ 8 % a = 0 := by
  decide

theorem genAlign_dvd8 (t : Ty) : genAlign t.code ∣ 8 := by
  obtain ⟨a, h1, h2⟩ := genAlign_dvd8_codes t.code (code_mem_typeCodes t)
  simp only [genAlign, h1, Option.getD_some]
  exact Nat.dvd_of_mod_eq_zero h2

end Code
end Txdbus
