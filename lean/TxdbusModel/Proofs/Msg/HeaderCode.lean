import TxdbusModel.Msg.Bridge
import TxdbusModel.Proofs.Msg.HeaderWire
/-
C03, code model against specification, header codec: what `marshal.marshal` / `marshal.unmarshal` do on
the header signature `yyyyuua(yv)` (Msg/HeaderCode.lean) is the specification layout (Msg/HeaderWire.lean).

Part 1 (marshalling): whenever the code model succeeds on typed header values, the bytes are the
specification encoding, the byte counts it computes are the lengths, and the values are well-formed
(except that `marshal_signature` does not look for a NUL inside a signature - `NoNulSig`).
Part 2 (unmarshalling): on the specification encoding of well-formed fields the code model returns
exactly the fields (as the Python values `pyOf` describes) and consumes exactly the encoding.
-/
namespace Txdbus.Msg

theorem packB_ok {n : Int} {b : Bytes} (h : packB n = .ok b) : 0 ≤ n ∧ n < 256 ∧ b = [UInt8.ofNat n.toNat] := by
  unfold packB at h
  split at h
  · rename_i hc; cases h; exact ⟨hc.1, hc.2, rfl⟩
  · cases h

theorem packI_ok {le : Bool} {n : Int} {b : Bytes} (h : packI le n = .ok b) :
    0 ≤ n ∧ n.toNat < 4294967296 ∧ b = encUInt (endianOf le) 4 n.toNat := by
  unfold packI at h
  split at h
  · rename_i hc; cases h; exact ⟨hc.1, hc.2, rfl⟩
  · cases h

theorem marshalString_ok {le : Bool} {v : PyVal} {n : Nat} {b : Bytes} (h : marshalString le v = .ok (n, b)) :
    ∃ cls s, v = .str cls s ∧ s.contains nul = false ∧ (utf8Encode s).length < 4294967296 ∧
      b = encUInt (endianOf le) 4 (utf8Encode s).length ++ utf8Encode s ++ [0] ∧ n = b.length := by
  unfold marshalString at h
  cases v <;> try (simp at h; done)
  rename_i cls s
  refine ⟨cls, s, rfl, ?_⟩
  simp only at h
  split at h
  · cases h
  · rename_i hn
    split at h
    · rename_i l hl
      obtain ⟨h0, h1, h2⟩ := packI_ok hl
      cases h
      simp only [Int.toNat_natCast] at h2
      refine ⟨by simpa [nul] using hn, by omega, by rw [h2], ?_⟩
      subst h2
      simp; omega
    · cases h

theorem marshalSignature_ok {v : PyVal} {n : Nat} {b : Bytes} (h : marshalSignature v = .ok (n, b)) :
    ∃ cls s, v = .str cls s ∧ (∀ ch ∈ s, ch.toNat < 128) ∧ s.length < 256 ∧
      b = [UInt8.ofNat (utf8Encode s).length] ++ utf8Encode s ++ [0] ∧ n = b.length := by
  unfold marshalSignature at h
  cases v <;> try (simp at h; done)
  rename_i cls s
  refine ⟨cls, s, rfl, ?_⟩
  simp only at h
  split at h
  · rename_i bs hbs
    have hlen := asciiEncode_length hbs
    have hutf := asciiEncode_eq_utf8 hbs
    have hasc : ∀ ch ∈ s, ch.toNat < 128 := by
      have := (asciiEncode_isSome_iff s).mp (by rw [hbs]; rfl)
      exact this
    split at h
    · rename_i l hl
      obtain ⟨h0, h1, h2⟩ := packB_ok hl
      cases h
      simp only [Int.toNat_natCast] at h2
      subst h2
      refine ⟨hasc, by omega, by rw [hutf], ?_⟩
      simp; omega
    · cases h
  · cases h


theorem padLen_self (a off : Nat) (ha : 0 < a) : padLen a (off + padLen a off) = 0 :=
  (padLen_eq_zero_iff a _ ha).mpr (padLen_aligned a off ha)

theorem padLen_one (off : Nat) : padLen 1 off = 0 := by simp [padLen, Nat.mod_one]

theorem zeros_zero : zeros 0 = [] := rfl

theorem encUInt_one (e : Endian) (n : Nat) : encUInt e 1 n = [UInt8.ofNat n] := by
  have : UInt8.ofNat (n % 256) = UInt8.ofNat n := by
    apply UInt8.toNat_inj.mp; simp
  cases e <;> simp [encUInt, leBytes, this]

theorem text_wf_of (c : Basic) (s : List Char) (hc : c = .s ∨ c = .o) (hn : s.contains nul = false)
    (hl : (utf8Encode s).length < 4294967296) : (HVal.text c s).wf = true := by
  have hm : nul ∉ s := by
    intro hm
    have : s.contains nul = true := by rw [List.contains_iff_mem]; exact hm
    rw [this] at hn; cases hn
  rcases hc with rfl | rfl <;> simp [HVal.wf, isText, hm, hl]

theorem sigByte_eq (c : Basic) : UInt8.ofNat c.code.toNat = sigByte c := rfl

/-- The signature chunk of a variant whose inferred signature is the single basic code `c`. -/
theorem marshalSignature_code (c : Basic) :
    marshalSignature (.str .plain [c.code]) = .ok (3, [1, sigByte c, 0]) := by
  cases c <;> decide

theorem marshalBasic_s (le : Bool) (v : PyVal) : marshalBasic le 's' v = marshalString le v := by
  simp [marshalBasic]
theorem marshalBasic_o (le : Bool) (v : PyVal) : marshalBasic le 'o' v = marshalObjectPath le v := by
  simp [marshalBasic]
theorem marshalBasic_g (le : Bool) (v : PyVal) : marshalBasic le 'g' v = marshalSignature v := by
  simp [marshalBasic]
theorem marshalBasic_y (le : Bool) (v : PyVal) : marshalBasic le 'y' v = marshalByte v := by
  simp [marshalBasic]
theorem marshalBasic_u (le : Bool) (v : PyVal) : marshalBasic le 'u' v = marshalUInt32 le v := by
  simp [marshalBasic]

theorem marshalVariant_basic (A : Char → Nat) (hA : AlignOK A) (le : Bool) (v : PyVal) (c : Basic)
    (hs : sigFromPy v = .ok [c.code]) (sb : Nat) :
    marshalVariant A le v sb =
      match marshalBasic le c.code v with
      | .ok (n, b) => .ok (3 + padLen (specAlign c) (sb + 3) + n,
                          [1, sigByte c, 0] ++ zeros (padLen (specAlign c) (sb + 3)) ++ b)
      | .error x => .error x := by
  simp only [marshalVariant, hs, marshalSignature_code, marshalOne, hA.basic c]
  rw [padLen_self _ _ (specAlign_pos c)]
  cases marshalBasic le c.code v with
  | error x => rfl
  | ok r =>
    obtain ⟨n, b⟩ := r
    simp only [zeros_zero, List.nil_append, Except.ok.injEq, Prod.mk.injEq, and_true]
    omega

/-- `marshal_variant` on a typed header value: the bytes are the specification's variant; the value is
well-formed as soon as a signature value has no NUL (the one thing `marshal_signature` does not check). -/
theorem marshalVariant_spec (A : Char → Nat) (hA : AlignOK A) (le : Bool) (v : PyVal) (hv : HVal)
    (hh : hvalOf v = some hv) (sb n : Nat) (b : Bytes) (h : marshalVariant A le v sb = .ok (n, b)) :
    b = encVariant (endianOf le) sb hv ∧ n = b.length ∧
      ((∀ s, hv = .text .g s → s.contains nul = false) → hv.wf = true) ∧ (∀ fds, pyOf fds hv = plain v) := by
  cases v <;> simp only [hvalOf] at hh <;> try (cases hh; done)
  · -- int
    rename_i cls k
    cases cls <;> simp only [] at hh <;> try (cases hh; done)
    · -- byte
      cases hh
      rw [marshalVariant_basic A hA le _ .y rfl] at h
      simp only [Basic.code, marshalBasic_y, marshalByte, PyVal.asInt?] at h
      cases hb : packB k with
      | error x => rw [hb] at h; cases h
      | ok bb =>
        rw [hb] at h
        obtain ⟨h0, h1, h2⟩ := packB_ok hb
        cases h
        subst h2
        refine ⟨by simp [encVariant, HVal.ty, encValue, fixedSize, encUInt_one], by simp; omega, ?_,
          fun _ => by simp [pyOf, plain, Int.toNat_of_nonneg h0]⟩
        intro _
        simp [HVal.wf, isText, fixedSize]; omega
    · -- uint32
      cases hh
      rw [marshalVariant_basic A hA le _ .u rfl] at h
      simp only [Basic.code, marshalBasic_u, marshalUInt32, PyVal.asInt?] at h
      cases hb : packI le k with
      | error x => rw [hb] at h; cases h
      | ok bb =>
        rw [hb] at h
        obtain ⟨h0, h1, h2⟩ := packI_ok hb
        cases h
        subst h2
        refine ⟨by simp [encVariant, HVal.ty, encValue, fixedSize], by simp; omega, ?_,
          fun _ => by simp [pyOf, plain, Int.toNat_of_nonneg h0]⟩
        intro _
        simp [HVal.wf, isText, fixedSize]; omega
  · -- str
    rename_i cls s
    cases cls <;> simp only [] at hh <;> cases hh
    · -- plain: 's'
      rw [marshalVariant_basic A hA le _ .s rfl] at h
      simp only [Basic.code, marshalBasic_s] at h
      cases hb : marshalString le (.str .plain s) with
      | error x => rw [hb] at h; cases h
      | ok r =>
        obtain ⟨nb, bs⟩ := r
        rw [hb] at h
        obtain ⟨cls', s', hv', hn, hl, hb', hnn⟩ := marshalString_ok hb
        cases hv'
        subst hb'
        subst hnn
        cases h
        refine ⟨by simp [encVariant, HVal.ty, encValue], by simp; omega, ?_, fun _ => rfl⟩
        intro _
        exact text_wf_of _ _ (Or.inl rfl) hn hl
    · -- signature: 'g'
      rw [marshalVariant_basic A hA le _ .g rfl] at h
      simp only [Basic.code, marshalBasic_g] at h
      cases hb : marshalSignature (.str .signature s) with
      | error x => rw [hb] at h; cases h
      | ok r =>
        obtain ⟨nb, bs⟩ := r
        rw [hb] at h
        obtain ⟨cls', s', hv', hasc, hl, hb', hnn⟩ := marshalSignature_ok hb
        cases hv'
        subst hb'
        subst hnn
        cases h
        refine ⟨by simp [encVariant, HVal.ty, encValue, encUInt_one], by simp; omega, ?_, fun _ => rfl⟩
        intro hnul
        have := hnul s rfl
        simp only [HVal.wf, isText, this, if_true, Bool.true_and, Bool.not_false, Bool.and_eq_true,
          decide_eq_true_eq, List.all_eq_true]
        exact ⟨fun ch hch => hasc ch hch, hl⟩
    · -- objectPath: 'o'
      rw [marshalVariant_basic A hA le _ .o rfl] at h
      simp only [Basic.code, marshalBasic_o, marshalObjectPath] at h
      cases hp : validatePathVal (.str .objectPath s) with
      | error x => rw [hp] at h; cases h
      | ok u =>
        rw [hp] at h
        simp only at h
        cases hb : marshalString le (.str .objectPath s) with
        | error x => rw [hb] at h; cases h
        | ok r =>
          obtain ⟨nb, bs⟩ := r
          rw [hb] at h
          obtain ⟨cls', s', hv', hn, hl, hb', hnn⟩ := marshalString_ok hb
          cases hv'
          subst hb'
          subst hnn
          cases h
          refine ⟨by simp [encVariant, HVal.ty, encValue], by simp; omega, ?_, fun _ => rfl⟩
          intro _
          exact text_wf_of _ _ (Or.inr rfl) hn hl


/-- A header list entry `[code, typed value]` and the specification field it denotes. -/
def EntryIs (h : PyVal × PyVal) (f : Field) : Prop := h.1 = .int .plain (f.1 : Nat) ∧ hvalOf h.2 = some f.2

/-- Entry-wise correspondence of a header list and a field list. -/
inductive AllIs : List (PyVal × PyVal) → List Field → Prop
  | nil : AllIs [] []
  | cons {h f hs fs} : EntryIs h f → AllIs hs fs → AllIs (h :: hs) (f :: fs)

/-- The only thing `marshal_signature` leaves unchecked: a NUL inside a signature value. -/
def NoNulSig (hv : HVal) : Prop := ∀ s, hv = .text .g s → s.contains nul = false

theorem marshalStructYV_spec (A : Char → Nat) (hA : AlignOK A) (le : Bool) (h : PyVal × PyVal) (f : Field)
    (hf : EntryIs h f) (sb n : Nat) (b : Bytes) (hm : marshalStructYV A le h.1 h.2 sb = .ok (n, b)) :
    b = UInt8.ofNat f.1 :: encVariant (endianOf le) (sb + 1) f.2 ∧ n = b.length ∧ f.1 < 256 ∧
      (NoNulSig f.2 → f.2.wf = true) ∧ (∀ fds, pyOf fds f.2 = plain h.2) := by
  obtain ⟨h1, h2⟩ := hf
  simp only [marshalStructYV, h1, hA.y, hA.v, padLen_one, zeros_zero, Nat.add_zero, marshalByte, PyVal.asInt?] at hm
  cases hb : packB (f.1 : Nat) with
  | error x => rw [hb] at hm; cases hm
  | ok bb =>
    rw [hb] at hm
    obtain ⟨h0, h3, h4⟩ := packB_ok hb
    simp only at hm
    cases hv : marshalVariant A le h.2 (sb + 1) with
    | error x => rw [hv] at hm; cases hm
    | ok r =>
      obtain ⟨nv, bv⟩ := r
      rw [hv] at hm
      obtain ⟨hb1, hn1, hw, hpy⟩ := marshalVariant_spec A hA le h.2 f.2 h2 (sb + 1) nv bv hv
      cases hm
      subst h4
      subst hb1
      subst hn1
      refine ⟨by simp, by simp; omega, by omega, hw, hpy⟩

theorem marshalItems_spec (A : Char → Nat) (hA : AlignOK A) (le : Bool) :
    ∀ (hs : List (PyVal × PyVal)) (fs : List Field), AllIs hs fs →
    ∀ (sb dl : Nat) (b : Bytes), marshalItems A le hs sb = .ok (dl, b) →
      b = encFields (endianOf le) sb fs ∧ dl = b.length ∧ (∀ f ∈ fs, f.1 < 256) ∧
        ((∀ f ∈ fs, NoNulSig f.2) → fs.all Field.wf = true) ∧
        (∀ fds, fs.map (fun f => pyOf fds f.2) = hs.map (fun h => plain h.2))
  | [], [], _, sb, dl, b, hm => by
    simp only [marshalItems] at hm
    cases hm
    simp [encFields]
  | h :: hs, f :: fs, hall, sb, dl, b, hm => by
    cases hall with
    | cons hf hrest =>
      obtain ⟨code, hval⟩ := h
      simp only [marshalItems, hA.struct] at hm
      cases h1 : marshalStructYV A le code hval (sb + padLen 8 sb) with
      | error x => rw [h1] at hm; cases hm
      | ok r =>
        obtain ⟨n, bb⟩ := r
        rw [h1] at hm
        simp only at hm
        cases h2 : marshalItems A le hs (sb + padLen 8 sb + n) with
        | error x => rw [h2] at hm; cases hm
        | ok r2 =>
          obtain ⟨dl2, b2⟩ := r2
          rw [h2] at hm
          cases hm
          obtain ⟨e1, e2, e3, e4, e5⟩ := marshalStructYV_spec A hA le (code, hval) f hf _ n bb h1
          have hlen : (encField (endianOf le) sb f).length = padLen 8 sb + n := by
            rw [encField_length, e2, e1]; simp; omega
          have ih := marshalItems_spec A hA le hs fs hrest (sb + padLen 8 sb + n) dl2 b2 h2
          obtain ⟨i1, i2, i3, i4, i5⟩ := ih
          refine ⟨?_, ?_, ?_, ?_, ?_⟩
          · simp only [encFields]
            rw [hlen, i1, e1]
            simp [encField, Nat.add_assoc]
          · rw [i2, e2]; simp; omega
          · intro g hg
            cases hg with
            | head => exact e3
            | tail _ hg => exact i3 g hg
          · intro hn
            simp only [List.all_cons, Bool.and_eq_true]
            refine ⟨?_, i4 (fun g hg => hn g (List.mem_cons_of_mem _ hg))⟩
            simp only [Field.wf, Bool.and_eq_true, decide_eq_true_eq]
            exact ⟨e3, e4 (hn f (List.mem_cons_self))⟩
          · intro fds
            simp only [List.map_cons, e5 fds, i5 fds]
  | [], _ :: _, hall, _, _, _, _ => by cases hall
  | _ :: _, [], hall, _, _, _, _ => by cases hall


theorem packB_nat (n : Nat) : packB (n : Nat) = if n < 256 then .ok [UInt8.ofNat n] else .error .struct := by
  unfold packB
  by_cases h : n < 256
  · rw [if_pos h, if_pos (by omega)]; simp
  · rw [if_neg h, if_neg (by omega)]

theorem packI_nat (le : Bool) (n : Nat) :
    packI le (n : Nat) = if n < 4294967296 then .ok (encUInt (endianOf le) 4 n) else .error .struct := by
  unfold packI
  by_cases h : n < 4294967296
  · rw [if_pos h, if_pos (by simp; omega)]; simp
  · rw [if_neg h, if_neg (by simp; omega)]

theorem marshalByte_int (n : Int) : marshalByte (.int .plain n) =
    match packB n with
    | .ok b => .ok (1, b)
    | .error x => .error x := rfl

theorem marshalUInt32_int (le : Bool) (n : Int) : marshalUInt32 le (.int .plain n) =
    match packI le n with
    | .ok b => .ok (4, b)
    | .error x => .error x := rfl

theorem mstep_byte_int (A : Char → Nat) (hA : AlignOK A) (n : Int) (st : Nat × Bytes) :
    mstep A 'y' (fun _ => marshalByte (.int .plain n)) st =
      match packB n with
      | .ok b => .ok (st.1 + 1, st.2 ++ b)
      | .error x => .error x := by
  have h1 : A 'y' = 1 := hA.y
  unfold mstep
  rw [h1, padLen_one, marshalByte_int]
  cases packB n <;> simp [zeros_zero]

theorem mstep_u32_int (A : Char → Nat) (hA : AlignOK A) (le : Bool) (n : Int) (st : Nat × Bytes) (h4 : st.1 % 4 = 0) :
    mstep A 'u' (fun _ => marshalUInt32 le (.int .plain n)) st =
      match packI le n with
      | .ok b => .ok (st.1 + 4, st.2 ++ b)
      | .error x => .error x := by
  have hp : padLen 4 st.1 = 0 := (padLen_eq_zero_iff 4 _ (by omega)).mpr h4
  have h1 : A 'u' = 4 := hA.u
  unfold mstep
  rw [h1, hp, marshalUInt32_int]
  cases packI le n <;> simp [zeros_zero]

theorem mstep_byte (A : Char → Nat) (hA : AlignOK A) (n : Nat) (st : Nat × Bytes) :
    mstep A 'y' (fun _ => marshalByte (.int .plain (n : Nat))) st =
      if n < 256 then .ok (st.1 + 1, st.2 ++ [UInt8.ofNat n]) else .error .struct := by
  rw [mstep_byte_int A hA, packB_nat]
  by_cases h : n < 256
  · rw [if_pos h, if_pos h]
  · rw [if_neg h, if_neg h]

theorem mstep_u32 (A : Char → Nat) (hA : AlignOK A) (le : Bool) (n : Nat) (st : Nat × Bytes) (h4 : st.1 % 4 = 0) :
    mstep A 'u' (fun _ => marshalUInt32 le (.int .plain (n : Nat))) st =
      if n < 4294967296 then .ok (st.1 + 4, st.2 ++ encUInt (endianOf le) 4 n) else .error .struct := by
  rw [mstep_u32_int A hA le _ _ h4, packI_nat]
  by_cases h : n < 4294967296
  · rw [if_pos h, if_pos h]
  · rw [if_neg h, if_neg h]

theorem marshalArrayYV_spec (A : Char → Nat) (hA : AlignOK A) (le : Bool) (hs : List (PyVal × PyVal))
    (fs : List Field) (hall : AllIs hs fs) (n : Nat) (b : Bytes)
    (hm : marshalArrayYV A le hs 12 = .ok (n, b)) :
    (encFields (endianOf le) 16 fs).length < 4294967296 ∧
    b = encUInt (endianOf le) 4 (encFields (endianOf le) 16 fs).length ++ encFields (endianOf le) 16 fs ∧
    n = b.length ∧ (∀ f ∈ fs, f.1 < 256) ∧ ((∀ f ∈ fs, NoNulSig f.2) → fs.all Field.wf = true) ∧
    (∀ fds, fs.map (fun f => pyOf fds f.2) = hs.map (fun h => plain h.2)) := by
  have hp : padLen 8 16 = 0 := by decide
  have hst : A '(' = 8 := hA.struct
  unfold marshalArrayYV at hm
  rw [hst] at hm
  simp only [hp, zeros_zero, Nat.add_zero] at hm
  cases h1 : marshalItems A le hs 16 with
  | error x => rw [h1] at hm; cases hm
  | ok r =>
    obtain ⟨dl, bb⟩ := r
    rw [h1] at hm
    simp only at hm
    obtain ⟨e1, e2, e3, e4, e5⟩ := marshalItems_spec A hA le hs fs hall 16 dl bb h1
    rw [packI_nat] at hm
    by_cases hlt : dl < 4294967296
    · rw [if_pos hlt] at hm
      cases hm
      subst e2
      subst e1
      exact ⟨hlt, by simp, by simp, e3, e4, e5⟩
    · rw [if_neg hlt] at hm
      cases hm

theorem marshalHeader_spec (A : Char → Nat) (hA : AlignOK A) (le : Bool) (en mt fl ve bl se : Nat)
    (hs : List (PyVal × PyVal)) (fs : List Field) (hall : AllIs hs fs) (b : Bytes)
    (hm : marshalHeader A le (.int .plain (en : Nat)) (.int .plain (mt : Nat)) (.int .plain (fl : Nat))
            (.int .plain (ve : Nat)) (.int .plain (bl : Nat)) (.int .plain (se : Nat)) hs = .ok b) :
    en < 256 ∧ mt < 256 ∧ fl < 256 ∧ ve < 256 ∧ bl < 4294967296 ∧ se < 4294967296 ∧
    (encFields (endianOf le) 16 fs).length < 4294967296 ∧
    b = [UInt8.ofNat en, UInt8.ofNat mt, UInt8.ofNat fl, UInt8.ofNat ve] ++ encUInt (endianOf le) 4 bl ++
          encUInt (endianOf le) 4 se ++ encUInt (endianOf le) 4 (encFields (endianOf le) 16 fs).length ++
          encFields (endianOf le) 16 fs ∧
    (∀ f ∈ fs, f.1 < 256) ∧ ((∀ f ∈ fs, NoNulSig f.2) → fs.all Field.wf = true) ∧
    (∀ fds, fs.map (fun f => pyOf fds f.2) = hs.map (fun h => plain h.2)) := by
  unfold marshalHeader at hm
  rw [mstep_byte A hA] at hm
  by_cases h1 : en < 256
  · rw [if_pos h1] at hm
    simp only [] at hm
    rw [mstep_byte A hA] at hm
    by_cases h2 : mt < 256
    · rw [if_pos h2] at hm
      simp only [] at hm
      rw [mstep_byte A hA] at hm
      by_cases h3 : fl < 256
      · rw [if_pos h3] at hm
        simp only [] at hm
        rw [mstep_byte A hA] at hm
        by_cases h4 : ve < 256
        · rw [if_pos h4] at hm
          simp only [] at hm
          rw [mstep_u32 A hA le _ _ (by simp)] at hm
          by_cases h5 : bl < 4294967296
          · rw [if_pos h5] at hm
            simp only [] at hm
            rw [mstep_u32 A hA le _ _ (by simp)] at hm
            by_cases h6 : se < 4294967296
            · rw [if_pos h6] at hm
              simp only [mstep, hA.a] at hm
              have hp : padLen 4 (0 + 1 + 1 + 1 + 1 + 4 + 4) = 0 := by decide
              rw [hp] at hm
              cases h7 : marshalArrayYV A le hs 12 with
              | error x => simp only [Nat.add_zero] at hm; rw [h7] at hm; cases hm
              | ok r =>
                obtain ⟨n, ab⟩ := r
                simp only [Nat.add_zero] at hm
                rw [h7] at hm
                cases hm
                obtain ⟨a1, a2, a3, a4, a5, a6⟩ := marshalArrayYV_spec A hA le hs fs hall n ab h7
                subst a2
                exact ⟨h1, h2, h3, h4, h5, h6, a1, by simp [zeros_zero], a4, a5, a6⟩
            · rw [if_neg h6] at hm; cases hm
          · rw [if_neg h5] at hm; cases hm
        · rw [if_neg h4] at hm; cases hm
      · rw [if_neg h3] at hm; cases hm
    · rw [if_neg h2] at hm; cases hm
  · rw [if_neg h1] at hm; cases hm

/-! ## Part 2: unmarshalling -/


theorem Rd.adv_append (off : Nat) (a rest : Bytes) : (Rd.mk off (a ++ rest)).adv a.length = ⟨off + a.length, rest⟩ := by
  simp [Rd.adv]

theorem Rd.adv_append' (off n : Nat) (a rest : Bytes) (h : a.length = n) : (Rd.mk off (a ++ rest)).adv n = ⟨off + n, rest⟩ := by
  subst h; exact Rd.adv_append off a rest

theorem Rd.skipPad_zeros (A : Char → Nat) (c : Char) (a : Nat) (h : A c = a) (off : Nat) (rest : Bytes) :
    (Rd.mk off (zeros (padLen a off) ++ rest)).skipPad A c = ⟨off + padLen a off, rest⟩ := by
  unfold Rd.skipPad
  rw [h]
  exact Rd.adv_append' _ _ _ _ (zeros_length _)

theorem Rd.skipPad_aligned (A : Char → Nat) (c : Char) (a : Nat) (h : A c = a) (off : Nat) (rest : Bytes)
    (hz : padLen a off = 0) : (Rd.mk off rest).skipPad A c = ⟨off, rest⟩ := by
  unfold Rd.skipPad
  rw [h, hz]
  simp [Rd.adv]

theorem unpackU_enc (e : Endian) (k n : Nat) (hn : n < 256 ^ k) (off : Nat) (rest : Bytes) :
    unpackU e k ⟨off, encUInt e k n ++ rest⟩ = .ok n := by
  unfold unpackU
  simp [decUInt_encUInt e k n hn]

theorem unpackS_enc (e : Endian) (k n : Nat) (hn : n < 256 ^ k) (off : Nat) (rest : Bytes) :
    unpackS e k ⟨off, encUInt e k n ++ rest⟩ = .ok (signedOf k n) := by
  unfold unpackS
  simp [decSInt, decUInt_encUInt e k n hn, signedOf]

theorem pow256_4 : 256 ^ 4 = 4294967296 := by decide
theorem pow256_1 : 256 ^ 1 = 256 := by decide

/-- The unmarshallers of the 13 basic types on the specification encoding of a well-formed value. -/
theorem unmarshalBasic_enc (le : Bool) (hv : HVal) (hwf : hv.wf = true) (off : Nat) (rest : Bytes)
    (fds : Option (List PyVal)) (hfd : hv.ty = .h → fds ≠ none) :
    unmarshalBasic le hv.ty ⟨off, encValue (endianOf le) hv ++ rest⟩ fds =
      .ok ((encValue (endianOf le) hv).length, pyOf fds hv) := by
  cases hv with
  | num c raw =>
    simp only [HVal.wf, Bool.and_eq_true, Bool.not_eq_true', decide_eq_true_eq] at hwf
    obtain ⟨⟨ht, hr⟩, _⟩ := hwf
    cases c <;> simp only [isText] at ht <;> try (cases ht; done)
    all_goals simp only [HVal.ty, unmarshalBasic, encValue, fixedSize, pyOf, encUInt_length] at hr hfd ⊢
    · rw [unpackU_enc _ _ _ hr]; rfl
    · rw [unpackU_enc _ _ _ hr]; rfl
    · rw [unpackS_enc _ _ _ hr]; rfl
    · rw [unpackU_enc _ _ _ hr]; rfl
    · rw [unpackS_enc _ _ _ hr]; rfl
    · rw [unpackU_enc _ _ _ hr]; rfl
    · rw [unpackS_enc _ _ _ hr]; rfl
    · rw [unpackU_enc _ _ _ hr]; rfl
    · rw [unpackU_enc _ _ _ hr]; rfl
    · rw [unpackU_enc _ _ _ hr]
      cases fds with
      | none => exact absurd rfl (hfd trivial)
      | some l => cases hl : l[raw]? <;> simp [hl]
  | text c s =>
    have hlen := text_len_ok c s hwf
    have hw := hwf
    simp only [HVal.wf, Bool.and_eq_true, Bool.not_eq_true'] at hw
    obtain ⟨⟨ht, hn⟩, hl⟩ := hw
    cases c <;> simp only [isText] at ht <;> try (cases ht; done)
    · -- s
      simp only [if_neg (by decide : ¬ (Basic.s = Basic.g))] at hlen
      simp only [HVal.ty, unmarshalBasic, encValue, pyOf, if_neg (by decide : ¬ (Basic.s = Basic.g)), List.append_assoc]
      rw [unpackU_enc _ _ _ hlen]
      simp [utf8Decode_encode]; omega
    · -- o
      simp only [if_neg (by decide : ¬ (Basic.o = Basic.g))] at hlen
      simp only [HVal.ty, unmarshalBasic, encValue, pyOf, if_neg (by decide : ¬ (Basic.o = Basic.g)), List.append_assoc]
      rw [unpackU_enc _ _ _ hlen]
      simp [utf8Decode_encode]; omega
    · -- g
      simp only [if_true] at hlen hl
      simp only [Bool.and_eq_true, List.all_eq_true, decide_eq_true_eq] at hl
      have hasc : asciiEncode s = some (utf8Encode s) := by
        have h1 := (asciiEncode_isSome_iff s).mpr hl.1
        cases h2 : asciiEncode s with
        | none => rw [h2] at h1; cases h1
        | some bs => rw [asciiEncode_eq_utf8 h2]
      simp only [HVal.ty, unmarshalBasic, encValue, pyOf, if_true, List.append_assoc]
      rw [unpackU_enc _ _ _ hlen]
      simp [asciiDecode_encode s _ hasc]; omega


theorem unmarshalSignature_code (le : Bool) (c : Basic) (off : Nat) (rest : Bytes) :
    unmarshalSignature le ⟨off, 1 :: sigByte c :: 0 :: rest⟩ = .ok (3, [c.code]) := by
  have h1 : unpackU (endianOf le) 1 ⟨off, 1 :: sigByte c :: 0 :: rest⟩ = .ok 1 := by
    have := unpackU_enc (endianOf le) 1 1 (by decide) off (sigByte c :: 0 :: rest)
    rw [encUInt_one] at this
    exact this
  unfold unmarshalSignature
  rw [h1]
  cases c <;> rfl

theorem ofCode_code (c : Basic) : Basic.ofCode? c.code = some c := by cases c <;> decide

/-- `unmarshal_variant` on the specification encoding of a variant that holds a well-formed basic value. -/
theorem unmarshalVariant_enc (A : Char → Nat) (hA : AlignOK A) (le : Bool) (hv : HVal) (hwf : hv.wf = true)
    (off : Nat) (rest : Bytes) (fds : Option (List PyVal)) (hfd : hv.ty = .h → fds ≠ none) :
    unmarshalVariant A le ⟨off, encVariant (endianOf le) off hv ++ rest⟩ fds =
      .ok ((encVariant (endianOf le) off hv).length, pyOf fds hv) := by
  have hal := hA.basic hv.ty
  unfold unmarshalVariant
  simp only [encVariant, List.cons_append, List.nil_append, List.append_assoc]
  rw [unmarshalSignature_code]
  have hnz : ¬ (A hv.ty.code = 0) := by
    rw [hal]; have := specAlign_pos hv.ty; omega
  simp only [ofCode_code]
  rw [if_neg hnz]
  have h1 : (Rd.mk off (1 :: sigByte hv.ty :: 0 :: (zeros (padLen (specAlign hv.ty) (off + 3)) ++
      (encValue (endianOf le) hv ++ rest)))).adv 3 =
      ⟨off + 3, zeros (padLen (specAlign hv.ty) (off + 3)) ++ (encValue (endianOf le) hv ++ rest)⟩ := by
    simp [Rd.adv]
  rw [h1, Rd.skipPad_zeros A _ _ hal]
  rw [Rd.skipPad_aligned A _ _ hal _ _ (padLen_self _ _ (specAlign_pos _))]
  rw [unmarshalBasic_enc le hv hwf _ rest fds hfd]
  simp only [List.length_cons, List.length_append, zeros_length, List.length_nil, Except.ok.injEq, Prod.mk.injEq, and_true]
  omega

theorem unmarshalStructYV_enc (A : Char → Nat) (hA : AlignOK A) (le : Bool) (f : Field) (hwf : Field.wf f = true)
    (off : Nat) (rest : Bytes) (fds : Option (List PyVal)) (hfd : f.2.ty = .h → fds ≠ none) :
    unmarshalStructYV A le ⟨off, UInt8.ofNat f.1 :: encVariant (endianOf le) (off + 1) f.2 ++ rest⟩ fds =
      .ok (1 + (encVariant (endianOf le) (off + 1) f.2).length, (f.1, pyOf fds f.2)) := by
  simp only [Field.wf, Bool.and_eq_true, decide_eq_true_eq] at hwf
  obtain ⟨hc, hv⟩ := hwf
  have hy : A 'y' = 1 := hA.y
  have hvv : A 'v' = 1 := hA.v
  unfold unmarshalStructYV
  rw [Rd.skipPad_aligned A _ _ hy _ _ (padLen_one _)]
  have h1 : unpackU (endianOf le) 1 ⟨off, UInt8.ofNat f.1 :: encVariant (endianOf le) (off + 1) f.2 ++ rest⟩ = .ok f.1 := by
    have := unpackU_enc (endianOf le) 1 f.1 (by omega) off (encVariant (endianOf le) (off + 1) f.2 ++ rest)
    rw [encUInt_one] at this
    exact this
  dsimp only
  rw [h1]
  have h2 : (Rd.mk off (UInt8.ofNat f.1 :: encVariant (endianOf le) (off + 1) f.2 ++ rest)).adv 1 =
      ⟨off + 1, encVariant (endianOf le) (off + 1) f.2 ++ rest⟩ := by
    simp [Rd.adv]
  dsimp only
  rw [h2, Rd.skipPad_aligned A _ _ hvv _ _ (padLen_one _)]
  rw [unmarshalVariant_enc A hA le f.2 hv _ rest fds hfd]
  simp only [Except.ok.injEq, Prod.mk.injEq, and_true]
  omega


theorem unmarshalItems_enc (A : Char → Nat) (hA : AlignOK A) (le : Bool) (fds : Option (List PyVal)) :
    ∀ (fs : List Field) (fuel off : Nat) (rest : Bytes),
    fs.all Field.wf = true → (∀ f ∈ fs, f.2.ty = .h → fds ≠ none) → fs.length < fuel →
    unmarshalItems A le fds fuel ⟨off, encFields (endianOf le) off fs ++ rest⟩
        (off + (encFields (endianOf le) off fs).length) =
      .ok (fs.map (fun f => (f.1, pyOf fds f.2)), ⟨off + (encFields (endianOf le) off fs).length, rest⟩)
  | [], fuel, off, rest, _, _, hfu => by
    cases fuel with
    | zero => omega
    | succ n => simp [encFields, unmarshalItems]
  | f :: fs, fuel, off, rest, hwf, hfd, hfu => by
    cases fuel with
    | zero => simp at hfu
    | succ n =>
      simp only [List.all_cons, Bool.and_eq_true] at hwf
      obtain ⟨hf, hfs⟩ := hwf
      have hpos := encField_pos (endianOf le) off f
      have hst : A '(' = 8 := hA.struct
      have hlen := encField_length (endianOf le) off f
      simp only [encFields, List.length_append, List.append_assoc]
      unfold unmarshalItems
      rw [if_pos (by simp only []; omega)]
      dsimp only
      have hsk : (Rd.mk off (encField (endianOf le) off f ++ (encFields (endianOf le) (off + (encField (endianOf le) off f).length) fs ++ rest))).skipPad A '(' =
          ⟨off + padLen 8 off, UInt8.ofNat f.1 :: encVariant (endianOf le) (off + padLen 8 off + 1) f.2 ++
            (encFields (endianOf le) (off + (encField (endianOf le) off f).length) fs ++ rest)⟩ := by
        have := Rd.skipPad_zeros A '(' 8 hst off (UInt8.ofNat f.1 :: encVariant (endianOf le) (off + padLen 8 off + 1) f.2 ++
            (encFields (endianOf le) (off + (encField (endianOf le) off f).length) fs ++ rest))
        rw [← this]
        simp [encField]
      rw [hsk]
      rw [unmarshalStructYV_enc A hA le f hf _ _ fds (hfd f (by simp))]
      dsimp only
      rw [if_neg (by omega)]
      have hadv : (Rd.mk (off + padLen 8 off) (UInt8.ofNat f.1 :: encVariant (endianOf le) (off + padLen 8 off + 1) f.2 ++
            (encFields (endianOf le) (off + (encField (endianOf le) off f).length) fs ++ rest))).adv
              (1 + (encVariant (endianOf le) (off + padLen 8 off + 1) f.2).length) =
          ⟨off + (encField (endianOf le) off f).length,
            encFields (endianOf le) (off + (encField (endianOf le) off f).length) fs ++ rest⟩ := by
        have := Rd.adv_append' (off + padLen 8 off) (1 + (encVariant (endianOf le) (off + padLen 8 off + 1) f.2).length)
          (UInt8.ofNat f.1 :: encVariant (endianOf le) (off + padLen 8 off + 1) f.2)
          (encFields (endianOf le) (off + (encField (endianOf le) off f).length) fs ++ rest) (by simp; omega)
        rw [List.cons_append] at this
        rw [List.cons_append, this, hlen]
        congr 1
        omega
      rw [hadv]
      have ih := unmarshalItems_enc A hA le fds fs n (off + (encField (endianOf le) off f).length) rest hfs
        (fun g hg => hfd g (List.mem_cons_of_mem _ hg)) (by simp only [List.length_cons] at hfu; omega)
      rw [Nat.add_assoc] at ih
      rw [ih]
      simp


theorem unmarshalArrayYV_enc (A : Char → Nat) (hA : AlignOK A) (le : Bool) (fds : Option (List PyVal))
    (fs : List Field) (rest : Bytes) (hwf : fs.all Field.wf = true) (hfd : ∀ f ∈ fs, f.2.ty = .h → fds ≠ none)
    (hl : (encFields (endianOf le) 16 fs).length < 4294967296) :
    unmarshalArrayYV A le ⟨12, encUInt (endianOf le) 4 (encFields (endianOf le) 16 fs).length ++
        (encFields (endianOf le) 16 fs ++ rest)⟩ fds =
      .ok (4 + (encFields (endianOf le) 16 fs).length, fs.map (fun f => (f.1, pyOf fds f.2))) := by
  have hst : A '(' = 8 := hA.struct
  unfold unmarshalArrayYV
  rw [unpackU_enc _ 4 _ (by rw [pow256_4]; exact hl)]
  dsimp only
  rw [Rd.adv_append' 12 4 _ _ (encUInt_length _ _ _)]
  rw [Rd.skipPad_aligned A _ _ hst _ _ (by decide)]
  dsimp only
  have hfu : fs.length < (encFields (endianOf le) 16 fs ++ rest).length + 1 := by
    have := encFields_length_ge (endianOf le) fs 16
    simp only [List.length_append]; omega
  rw [unmarshalItems_enc A hA le fds fs _ 16 rest hwf hfd hfu]
  simp only [if_true]
  congr 2
  omega

/-- `unmarshal('yyyyuua(yv)', raw, 0, lendian, oobFDs)` on the specification encoding of an encodable message. -/
theorem unmarshalHeader_enc (A : Char → Nat) (hA : AlignOK A) (le : Bool) (fds : Option (List PyVal)) (m : SpecMsg)
    (he : m.endian = endianOf le) (hv : m.encodable = true) (hfd : ∀ f ∈ m.fields, f.2.ty = .h → fds ≠ none) :
    unmarshalHeader A le (Spec.encodeMsg m) fds =
      .ok ⟨16 + (Spec.fieldArray m).length, (Spec.endianByte m.endian).toNat, m.mtype, m.flags, Spec.version,
           m.body.length, m.serial, m.fields.map (fun f => (f.1, pyOf fds f.2))⟩ := by
  have hm := hv
  simp only [SpecMsg.encodable, Bool.and_eq_true, decide_eq_true_eq] at hm
  obtain ⟨⟨⟨⟨⟨hty, hfl⟩, hse⟩, hbl'⟩, hal⟩, hfs⟩ := hm
  have hbl : m.body.length < 256 ^ 4 := by rw [pow256_4]; exact hbl'
  have hsl : m.serial < 256 ^ 4 := by rw [pow256_4]; omega
  have hy : A 'y' = 1 := hA.y
  have hu : A 'u' = 4 := hA.u
  have ha : A 'a' = 4 := hA.a
  obtain ⟨e, mt, fl, se, fs, body⟩ := m
  simp only at he hty hfl hse hfs hbl hal hsl hfd
  subst he
  have hraw : Spec.encodeMsg ⟨endianOf le, mt, fl, se, fs, body⟩ =
      encUInt (endianOf le) 1 (Spec.endianByte (endianOf le)).toNat ++ (encUInt (endianOf le) 1 mt ++
        (encUInt (endianOf le) 1 fl ++ (encUInt (endianOf le) 1 Spec.version ++
        (encUInt (endianOf le) 4 body.length ++ (encUInt (endianOf le) 4 se ++
          (encUInt (endianOf le) 4 (encFields (endianOf le) 16 fs).length ++
          (encFields (endianOf le) 16 fs ++ (Spec.headerPad ⟨endianOf le, mt, fl, se, fs, body⟩ ++ body)))))))) := by
    simp [Spec.encodeMsg, Spec.fixedPart, Spec.fieldArray, encUInt_one]
  have hb0 : (Spec.endianByte (endianOf le)).toNat < 256 ^ 1 := by cases le <;> decide
  unfold unmarshalHeader
  rw [hraw]
  dsimp only
  rw [Rd.skipPad_aligned A _ _ hy _ _ (padLen_one _), unpackU_enc _ 1 _ hb0]
  dsimp only
  rw [Rd.adv_append' 0 1 _ _ (encUInt_length _ _ _), Rd.skipPad_aligned A _ _ hy _ _ (padLen_one _),
    unpackU_enc _ 1 _ (by rw [pow256_1]; omega)]
  dsimp only
  rw [Rd.adv_append' _ 1 _ _ (encUInt_length _ _ _), Rd.skipPad_aligned A _ _ hy _ _ (padLen_one _),
    unpackU_enc _ 1 _ (by rw [pow256_1]; omega)]
  dsimp only
  rw [Rd.adv_append' _ 1 _ _ (encUInt_length _ _ _), Rd.skipPad_aligned A _ _ hy _ _ (padLen_one _),
    unpackU_enc _ 1 _ (by decide)]
  dsimp only
  rw [Rd.adv_append' _ 1 _ _ (encUInt_length _ _ _), Rd.skipPad_aligned A _ _ hu _ _ (by decide),
    unpackU_enc _ 4 _ hbl]
  dsimp only
  rw [Rd.adv_append' _ 4 _ _ (encUInt_length _ _ _), Rd.skipPad_aligned A _ _ hu _ _ (by decide),
    unpackU_enc _ 4 _ hsl]
  dsimp only
  rw [Rd.adv_append' _ 4 _ _ (encUInt_length _ _ _), Rd.skipPad_aligned A _ _ ha _ _ (by decide)]
  simp only [Spec.fieldArray] at hal
  rw [unmarshalArrayYV_enc A hA le fds fs _ hfs hfd hal]
  simp [Spec.fieldArray]
  omega

/-! ## Part 3: a marshalled ObjectPath value passed `validateObjectPath` -/

theorem marshalVariant_path (A : Char → Nat) (hA : AlignOK A) (le : Bool) (cls : StrCls) (s : List Char) (sb n : Nat) (b : Bytes)
    (hc : cls = .objectPath) (h : marshalVariant A le (.str cls s) sb = .ok (n, b)) : Valid.validateObjectPath s = .accept := by
  subst hc
  rw [marshalVariant_basic A hA le _ .o rfl] at h
  simp only [Basic.code, marshalBasic_o, marshalObjectPath] at h
  cases hp : validatePathVal (.str .objectPath s) with
  | error x => rw [hp] at h; cases h
  | ok u =>
    simp only [validatePathVal] at hp
    cases hv : Valid.validateObjectPath s with
    | accept => rfl
    | raised e => rw [hv] at hp; cases hp

theorem marshalStructYV_inner (A : Char → Nat) (le : Bool) (code hval : PyVal) (sb : Nat) (r : Nat × Bytes)
    (h : marshalStructYV A le code hval sb = .ok r) : ∃ sb' r', marshalVariant A le hval sb' = .ok r' := by
  unfold marshalStructYV at h
  dsimp only at h
  cases h1 : marshalByte code with
  | error x => rw [h1] at h; cases h
  | ok r1 =>
    obtain ⟨n1, b1⟩ := r1
    rw [h1] at h
    dsimp only at h
    cases h2 : marshalVariant A le hval (sb + padLen (A 'y') sb + n1 + padLen (A 'v') (sb + padLen (A 'y') sb + n1)) with
    | error x => rw [h2] at h; cases h
    | ok r2 => exact ⟨_, r2, h2⟩

theorem marshalItems_path (A : Char → Nat) (hA : AlignOK A) (le : Bool) :
    ∀ (hs : List (PyVal × PyVal)) (sb : Nat) (r : Nat × Bytes), marshalItems A le hs sb = .ok r →
      ∀ h ∈ hs, ∀ s, h.2 = .str .objectPath s → Valid.validateObjectPath s = .accept
  | [], _, _, _, h, hm, _, _ => by cases hm
  | (code, hval) :: rest, sb, r, hm, h, hmem, s, hs => by
    simp only [marshalItems] at hm
    cases h1 : marshalStructYV A le code hval (sb + padLen (A '(') sb) with
    | error x => rw [h1] at hm; cases hm
    | ok r1 =>
      obtain ⟨n, b⟩ := r1
      rw [h1] at hm
      dsimp only at hm
      cases h2 : marshalItems A le rest (sb + padLen (A '(') sb + n) with
      | error x => rw [h2] at hm; cases hm
      | ok r2 =>
        cases hmem with
        | head =>
          simp only at hs
          subst hs
          obtain ⟨sb', r', hv⟩ := marshalStructYV_inner A le code _ _ _ h1
          exact marshalVariant_path A hA le _ s sb' r'.1 r'.2 rfl hv
        | tail _ hmem => exact marshalItems_path A hA le rest _ r2 h2 h hmem s hs

theorem marshalArrayYV_path (A : Char → Nat) (hA : AlignOK A) (le : Bool) (hs : List (PyVal × PyVal)) (sb : Nat)
    (r : Nat × Bytes) (hm : marshalArrayYV A le hs sb = .ok r) :
    ∀ h ∈ hs, ∀ s, h.2 = .str .objectPath s → Valid.validateObjectPath s = .accept := by
  unfold marshalArrayYV at hm
  dsimp only at hm
  cases h1 : marshalItems A le hs (sb + 4 + padLen (A '(') (sb + 4)) with
  | error x => rw [h1] at hm; cases hm
  | ok r1 => exact marshalItems_path A hA le hs _ r1 h1

theorem mstep_ok {A : Char → Nat} {tcode : Char} {f : Nat → MRes} {st st' : Nat × Bytes}
    (h : mstep A tcode f st = .ok st') : ∃ sb r, f sb = .ok r := by
  unfold mstep at h
  dsimp only at h
  cases h1 : f (st.1 + padLen (A tcode) st.1) with
  | error x => rw [h1] at h; cases h
  | ok r => exact ⟨_, r, h1⟩

theorem marshalHeader_path (A : Char → Nat) (hA : AlignOK A) (le : Bool) (v0 v1 v2 v3 v4 v5 : PyVal)
    (hs : List (PyVal × PyVal)) (b : Bytes) (hm : marshalHeader A le v0 v1 v2 v3 v4 v5 hs = .ok b) :
    ∀ h ∈ hs, ∀ s, h.2 = .str .objectPath s → Valid.validateObjectPath s = .accept := by
  unfold marshalHeader at hm
  cases h1 : mstep A 'y' (fun _ => marshalByte v0) (0, []) with
  | error x => rw [h1] at hm; cases hm
  | ok s1 =>
    rw [h1] at hm; dsimp only at hm
    cases h2 : mstep A 'y' (fun _ => marshalByte v1) s1 with
    | error x => rw [h2] at hm; cases hm
    | ok s2 =>
      rw [h2] at hm; dsimp only at hm
      cases h3 : mstep A 'y' (fun _ => marshalByte v2) s2 with
      | error x => rw [h3] at hm; cases hm
      | ok s3 =>
        rw [h3] at hm; dsimp only at hm
        cases h4 : mstep A 'y' (fun _ => marshalByte v3) s3 with
        | error x => rw [h4] at hm; cases hm
        | ok s4 =>
          rw [h4] at hm; dsimp only at hm
          cases h5 : mstep A 'u' (fun _ => marshalUInt32 le v4) s4 with
          | error x => rw [h5] at hm; cases hm
          | ok s5 =>
            rw [h5] at hm; dsimp only at hm
            cases h6 : mstep A 'u' (fun _ => marshalUInt32 le v5) s5 with
            | error x => rw [h6] at hm; cases hm
            | ok s6 =>
              rw [h6] at hm; dsimp only at hm
              cases h7 : mstep A 'a' (marshalArrayYV A le hs) s6 with
              | error x => rw [h7] at hm; cases hm
              | ok s7 =>
                obtain ⟨sb, r, hr⟩ := mstep_ok h7
                exact marshalArrayYV_path A hA le hs sb r hr

end Txdbus.Msg
