import TxdbusModel.Msg.Bridge
import TxdbusModel.Gen.Message
/-
C03, table lemmas: the tables extracted from txdbus/message.py (Gen/Message.lean, regenerated on every
run) have the properties the theorems rely on (`Tables.OK`).  Every clause is decided by evaluation,
so an edit of a table in the repository either keeps this file checking or breaks it.
-/
namespace Txdbus.Msg

theorem gen_alignOK : AlignOK Gen.Message.align where
  y := by decide
  u := by decide
  a := by decide
  struct := by decide
  v := by decide
  basic := by intro c; cases c <;> decide

theorem genTables_ok : Gen.Message.tables.OK where
  format := by decide
  endian := by decide
  version := by decide
  maxLen := by decide
  maxLenOf := by intro cls; cases cls <;> decide
  headerAlign := by decide
  serialInit := by decide
  align := gen_alignOK
  mtype := by intro cls; cases cls <;> decide
  hcode := by intro cls; cases cls <;> decide
  nodup := by intro cls; cases cls <;> decide
  nodupCodes := by intro cls; cases cls <;> decide
  fdsEntry := ⟨by decide, by intro cls; cases cls <;> decide⟩
  hcodeTypes := by decide
  required := by intro cls; cases cls <;> decide
  hcodeRange := by decide
  covers := by intro cls; cases cls <;> decide

end Txdbus.Msg
