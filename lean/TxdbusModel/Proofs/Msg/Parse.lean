import TxdbusModel.Proofs.Msg.Construct
/-
C03, `parseMessage` (Msg/Message.lean) on the specification encoding of a message: the `setattr` loop
through `_hcode` does not depend on the position of a field in the list, and the header stage of
`parseMessage` on `Spec.encodeMsg sm` yields exactly the content of `sm` (`parse_spec`).
-/
namespace Txdbus.Msg

/-! ### `setattr` through `_hcode` -/

theorem applyFields_none (T : Tables) : ∀ (l : List (Nat × PyVal)) (f : Attr → PyVal) (a : Attr),
    (∀ x ∈ l, lookupAttr T x.1 ≠ some a) → applyFields T f l a = f a
  | [], _, _, _ => rfl
  | (code, v) :: t, f, a, h => by
    have ht : ∀ x ∈ t, lookupAttr T x.1 ≠ some a := fun x hx => h x (List.mem_cons_of_mem _ hx)
    have hc := h (code, v) (List.mem_cons_self)
    simp only [applyFields]
    cases hl : lookupAttr T code with
    | none => exact applyFields_none T t f a ht
    | some b =>
      dsimp only
      rw [applyFields_none T t _ a ht]
      have : a ≠ b := by intro hab; subst hab; exact hc hl
      simp [setAttr, this]

/-- When exactly one (code, value) pair of the field list addresses attribute `a` (it may be repeated), the
attribute ends up holding that value - wherever in the list the pair stands. -/
theorem applyFields_unique (T : Tables) : ∀ (l : List (Nat × PyVal)) (f : Attr → PyVal) (a : Attr) (code : Nat) (v : PyVal),
    (code, v) ∈ l → lookupAttr T code = some a → (∀ x ∈ l, lookupAttr T x.1 = some a → x = (code, v)) →
    applyFields T f l a = v
  | [], _, _, _, _, hm, _, _ => by cases hm
  | x :: t, f, a, code, v, hm, hl, hu => by
    have hut : ∀ y ∈ t, lookupAttr T y.1 = some a → y = (code, v) := fun y hy => hu y (List.mem_cons_of_mem _ hy)
    by_cases hx : x = (code, v)
    · subst hx
      simp only [applyFields, hl]
      by_cases ht : ∃ y ∈ t, lookupAttr T y.1 = some a
      · obtain ⟨y, hy, hya⟩ := ht
        have := hut y hy hya
        subst this
        exact applyFields_unique T t _ a code v hy hl hut
      · rw [applyFields_none T t _ a (fun y hy hya => ht ⟨y, hy, hya⟩)]
        simp [setAttr]
    · have hmt : (code, v) ∈ t := by
        cases hm with
        | head => exact absurd rfl hx
        | tail _ h => exact h
      have hxa : lookupAttr T x.1 ≠ some a := fun h => hx (hu x (List.mem_cons_self) h)
      obtain ⟨xc, xv⟩ := x
      simp only [applyFields]
      cases hlx : lookupAttr T xc with
      | none => exact applyFields_unique T t f a code v hmt hl hut
      | some b => exact applyFields_unique T t _ a code v hmt hl hut

/-! ### `parseMessage` on the specification encoding of a message -/

theorem flags_er (er as_ : Bool) : (flagsByte er as_ % 2 = 0) = (er = true) := by
  cases er <;> cases as_ <;> decide
theorem flags_as (er as_ : Bool) : (flagsByte er as_ / 2 % 2 = 0) = (as_ = true) := by
  cases er <;> cases as_ <;> decide

theorem lendian_of (e : Endian) : (Spec.endianByte e == 108) = (decide (e = .little)) := by
  cases e <;> decide

theorem endianOf_decide (e : Endian) : endianOf (decide (e = .little)) = e := by
  cases e <;> rfl

/-- The header stage of `parseMessage` on `Spec.encodeMsg sm`: what the message object looks like when
the body decode is reached. -/
def parsedBase {β : Type} (T : Tables) (cls : MsgClass) (sm : SpecMsg) (fds : Option (List PyVal)) : Msg β :=
  { cls := cls, expectReply := sm.flags % 2 = 0, autoStart := sm.flags / 2 % 2 = 0,
    attrs := applyFields T noAttrs (sm.fields.map fun f => (f.1, pyOf fds f.2)),
    body := none, serial := sm.serial,
    rawHeader := Spec.fixedPart sm (Spec.fieldArray sm).length ++ Spec.fieldArray sm,
    rawPadding := Spec.headerPad sm, rawBody := sm.body, otherFlags := sm.flags / 4 * 4 }

theorem parse_spec {β : Type} (T : Tables) (hT : T.OK) (C : BodyCodec β) (sm : SpecMsg) (hv : sm.encodable = true)
    (cls : MsgClass) (hcls : lookupClass T sm.mtype = some cls) (fds : Option (List PyVal))
    (hfd : ∀ f ∈ sm.fields, f.2.ty = .h → fds ≠ none) :
    parseMessage T C (Spec.encodeMsg sm) fds =
      (let base : Msg β := parsedBase T cls sm fds
       let sigv := base.attrs .signature
       if truthy sigv then
         match sigv with
         | .str _ sg =>
           if sg.length > 255 then .error .marshalling
           else
             match C.unmarshal sg sm.body (decide (sm.endian = .little)) fds with
             | .error x => .error x
             | .ok b => .ok { base with body := some b }
         | _ => .error .marshalling
       else .ok base) := by
  have hraw : Spec.encodeMsg sm = Spec.endianByte sm.endian ::
      (Spec.fixedPart sm (Spec.fieldArray sm).length ++ Spec.fieldArray sm ++ Spec.headerPad sm ++ sm.body).tail := by
    simp [Spec.encodeMsg, Spec.fixedPart]
  have hlen : (Spec.fixedPart sm (Spec.fieldArray sm).length ++ Spec.fieldArray sm).length = 16 + (Spec.fieldArray sm).length := by
    simp [Spec.fixedPart_length]
  unfold parseMessage
  rw [hraw]
  dsimp only
  rw [← hraw, hT.format, if_neg (by simp [headerFormatStr]), lendian_of]
  rw [unmarshalHeader_enc T.align hT.align _ fds sm (endianOf_decide _).symm hv hfd]
  dsimp only
  unfold parseAfterHeader
  dsimp only
  rw [hcls]
  dsimp only
  have hsplit : Spec.encodeMsg sm =
      (Spec.fixedPart sm (Spec.fieldArray sm).length ++ Spec.fieldArray sm) ++ (Spec.headerPad sm ++ sm.body) := by
    simp [Spec.encodeMsg]
  have htake : (Spec.encodeMsg sm).take (16 + (Spec.fieldArray sm).length) =
      Spec.fixedPart sm (Spec.fieldArray sm).length ++ Spec.fieldArray sm := by
    rw [hsplit]; exact List.take_left' hlen
  have hdrop : (Spec.encodeMsg sm).drop (16 + (Spec.fieldArray sm).length) = Spec.headerPad sm ++ sm.body := by
    rw [hsplit]; exact List.drop_left' hlen
  have hpadlen : padLen 8 (16 + (Spec.fieldArray sm).length) = (Spec.headerPad sm).length := by
    simp [Spec.headerPad]
  have hdrop2 : (Spec.encodeMsg sm).drop (16 + (Spec.fieldArray sm).length + padLen 8 (16 + (Spec.fieldArray sm).length)) = sm.body := by
    rw [← List.drop_drop, hdrop, hpadlen]
    exact List.drop_left' rfl
  have htake2 : (Spec.headerPad sm ++ sm.body).take (padLen 8 (16 + (Spec.fieldArray sm).length)) = Spec.headerPad sm := by
    rw [hpadlen]; exact List.take_left' rfl
  rw [htake, hdrop, hdrop2, htake2]
  rfl

end Txdbus.Msg
