import TxdbusModel.Proofs.Net.Invariant
/-
C11 - the invariant is preserved when a client issues a call.
-/
namespace Txdbus.Net

variable {V : Type}

/-- The client after a successful `callRemote`. -/
def issuedClient (cl : Client V) (r : CallRec V) : Client V :=
  { cl with nextSerial := cl.nextSerial + 1,
            pending := pInsert cl.pending r.serial r.retSig,
            up := cl.up ++ [callMsg none r],
            issued := cl.issued ++ [r] }

theorem issue_cases (w : World V) (cl : Client V) (req : CallReq V) :
    (issue w cl req).1 = cl ∨
    ∃ r : CallRec V, r.serial = cl.nextSerial ∧ (issue w cl req).1 = issuedClient cl r := by
  unfold issue
  cases proxyResolve req with
  | error e => left; rfl
  | ok r0 =>
    dsimp only
    by_cases hf : (if r0.sig = "" then false else (w.encErr r0.sig r0.args).isSome) = true
    · left; simp [hf]
    · right
      refine ⟨{ r0 with serial := cl.nextSerial }, rfl, ?_⟩
      simp [hf, issuedClient]

/-- the same with the provenance of the record -/
theorem issue_cases' (w : World V) (cl : Client V) (req : CallReq V) :
    (issue w cl req).1 = cl ∨
    ∃ r0 : CallRec V, proxyResolve req = .ok r0 ∧
      (issue w cl req).1 = issuedClient cl { r0 with serial := cl.nextSerial } := by
  unfold issue
  cases hp : proxyResolve req with
  | error e => left; rfl
  | ok r0 =>
    dsimp only
    by_cases hf : (if r0.sig = "" then false else (w.encErr r0.sig r0.args).isSome) = true
    · left; simp [hf]
    · right
      refine ⟨r0, rfl, ?_⟩
      simp [hf, issuedClient]

section
variable {w : World V} {net : Net V} {c : Nat} {r : CallRec V}

/-! projections of the state after the call -/

theorem issued_up (net : Net V) (c : Nat) (r : CallRec V) (j : Nat) :
    ((net.upd c (fun cl => issuedClient cl r)).cl j).up =
      if j = c then (net.cl j).up ++ [callMsg none r] else (net.cl j).up := by
  by_cases hj : j = c <;> simp [Net.upd_cl, hj, issuedClient]

theorem issued_down (net : Net V) (c : Nat) (r : CallRec V) (j : Nat) :
    ((net.upd c (fun cl => issuedClient cl r)).cl j).down = (net.cl j).down := by
  by_cases hj : j = c <;> simp [Net.upd_cl, hj, issuedClient]

theorem issued_exec (net : Net V) (c : Nat) (r : CallRec V) (j : Nat) :
    ((net.upd c (fun cl => issuedClient cl r)).cl j).exec = (net.cl j).exec := by
  by_cases hj : j = c <;> simp [Net.upd_cl, hj, issuedClient]

theorem issued_completions (net : Net V) (c : Nat) (r : CallRec V) (j : Nat) :
    ((net.upd c (fun cl => issuedClient cl r)).cl j).completions = (net.cl j).completions := by
  by_cases hj : j = c <;> simp [Net.upd_cl, hj, issuedClient]

theorem issued_answers (net : Net V) (c : Nat) (r : CallRec V) (j : Nat) :
    ((net.upd c (fun cl => issuedClient cl r)).cl j).answers = (net.cl j).answers := by
  by_cases hj : j = c <;> simp [Net.upd_cl, hj, issuedClient]

theorem issued_invocations (net : Net V) (c : Nat) (r : CallRec V) (j : Nat) :
    ((net.upd c (fun cl => issuedClient cl r)).cl j).invocations = (net.cl j).invocations := by
  by_cases hj : j = c <;> simp [Net.upd_cl, hj, issuedClient]

theorem issued_late (net : Net V) (c : Nat) (r : CallRec V) (j : Nat) :
    ((net.upd c (fun cl => issuedClient cl r)).cl j).late = (net.cl j).late := by
  by_cases hj : j = c <;> simp [Net.upd_cl, hj, issuedClient]

theorem issued_pending (net : Net V) (c : Nat) (r : CallRec V) (j : Nat) :
    ((net.upd c (fun cl => issuedClient cl r)).cl j).pending =
      if j = c then pInsert (net.cl j).pending r.serial r.retSig else (net.cl j).pending := by
  by_cases hj : j = c <;> simp [Net.upd_cl, hj, issuedClient]

theorem issued_issued (net : Net V) (c : Nat) (r : CallRec V) (j : Nat) :
    ((net.upd c (fun cl => issuedClient cl r)).cl j).issued =
      if j = c then (net.cl j).issued ++ [r] else (net.cl j).issued := by
  by_cases hj : j = c <;> simp [Net.upd_cl, hj, issuedClient]

theorem le_issued (net : Net V) (c : Nat) (r : CallRec V) :
    Le net (net.upd c (fun cl => issuedClient cl r)) := by
  refine ⟨rfl, ?_, ?_⟩
  · intro j x hx
    rw [issued_issued]; split <;> simp [hx]
  · intro j x hx
    rw [issued_answers]; exact hx

theorem Inv.issued (inv : Inv w net) (hc : c < net.n) (hr : r.serial = (net.cl c).nextSerial) :
    Inv w (net.upd c (fun cl => issuedClient cl r)) := by
  have hle := le_issued net c r
  have fresh : ∀ r', r' ∈ (net.cl c).issued → r'.serial ≠ r.serial := by
    intro r' hr'
    have := inv.serial_lt c r' hr'
    omega
  -- the issued list of every client afterwards
  have iss : ∀ a r', r' ∈ ((net.upd c (fun cl => issuedClient cl r)).cl a).issued →
      r' ∈ (net.cl a).issued ∨ (a = c ∧ r' = r) := by
    intro a r' h
    rw [issued_issued] at h
    by_cases ha : a = c
    · simp only [ha, if_true, List.mem_append, List.mem_singleton] at h
      rcases h with h | h
      · exact Or.inl (ha ▸ h)
      · exact Or.inr ⟨ha, h⟩
    · simp only [ha, if_false] at h; exact Or.inl h
  -- the stage counts of any key: only the caller's `up` queue got a new element
  have stg : ∀ a r', stages (net.upd c (fun cl => issuedClient cl r)) a r' =
      { stages net a r' with callUp := (stages net a r').callUp +
          (if a = c ∧ isCall r'.serial (callMsg none r) = true then 1 else 0) } := by
    intro a r'
    simp only [stages, issued_up, issued_down, issued_exec, issued_completions, issued_late, Net.upd_dropped,
      countP_ite_snoc]
    congr 1
    simp [callMsg, isReplyTo]
  have stg_old : ∀ a r', r' ∈ (net.cl a).issued →
      stages (net.upd c (fun cl => issuedClient cl r)) a r' = stages net a r' := by
    intro a r' hr'
    rw [stg]
    have : ¬ (a = c ∧ isCall r'.serial (callMsg none r) = true) := by
      rintro ⟨ha, h⟩
      simp only [callMsg, isCall, beq_iff_eq] at h
      exact fresh r' (ha ▸ hr') h.symm
    simp [this]
  have ansf : ∀ a r', answersFor (net.upd c (fun cl => issuedClient cl r)) a r' = answersFor net a r' := by
    intro a r'; simp only [answersFor, issued_answers]
  have resf : ∀ a r', resultsFor (net.upd c (fun cl => issuedClient cl r)) a r' = resultsFor net a r' := by
    intro a r'; simp only [resultsFor, issued_answers]
  have invf : ∀ a r', invocationsFor (net.upd c (fun cl => issuedClient cl r)) a r' = invocationsFor net a r' := by
    intro a r'; simp only [invocationsFor, issued_invocations]
  constructor
  · -- up_ok
    intro j m hm
    rw [issued_up] at hm
    by_cases hj : j = c
    · simp only [hj, if_true, List.mem_append, List.mem_singleton] at hm
      rcases hm with hm | hm
      · exact (inv.up_ok j m (hj ▸ hm)).mono hle
      · rw [hm, hj]
        exact ⟨r, by simp [issuedClient], rfl⟩
    · simp only [hj, if_false] at hm
      exact (inv.up_ok j m hm).mono hle
  · intro j m hm
    rw [issued_down] at hm
    exact (inv.down_ok j m hm).mono hle
  · intro m hm
    exact (inv.drop_ok m hm).mono hle
  · intro j e he
    rw [issued_exec] at he
    exact (inv.exec_ok j e he).mono hle
  · intro j x hx
    rw [issued_answers] at hx
    exact (inv.ans_ok j x hx).mono hle
  · intro j iv hiv
    rw [issued_invocations] at hiv
    exact (inv.inv_ok j iv hiv).mono hle
  · intro a x hx
    rw [issued_completions] at hx
    exact (inv.compl_ok a x hx).mono hle
  · -- serial_lt
    intro a r' h
    have hn : (net.cl a).nextSerial ≤ ((net.upd c (fun cl => issuedClient cl r)).cl a).nextSerial := by
      by_cases ha : a = c
      · rw [ha]; simp [issuedClient]
      · rw [Net.upd_cl_ne _ _ _ ha]; exact Nat.le_refl _
    rcases iss a r' h with g | ⟨ha, hr'⟩
    · have := inv.serial_lt a r' g
      omega
    · rw [ha, hr']; simp only [Net.upd_cl_same, issuedClient]; omega
  · -- serial_uniq
    intro a r1 r2 h1 h2 e
    rcases iss a r1 h1 with g1 | ⟨ha1, hr1⟩ <;> rcases iss a r2 h2 with g2 | ⟨ha2, hr2⟩
    · exact inv.serial_uniq a r1 r2 g1 g2 e
    · rw [hr2] at e; rw [ha2] at g1; exact absurd e (fresh r1 g1)
    · rw [hr1] at e; rw [ha1] at g2; exact absurd e.symm (fresh r2 g2)
    · rw [hr1, hr2]
  · -- pend
    intro a r' h hz
    rw [issued_completions] at hz
    rcases iss a r' h with g | ⟨ha, hr'⟩
    · by_cases ha : a = c
      · rw [ha] at hz g ⊢
        simp only [Net.upd_cl_same, issuedClient]
        rw [pLookup_insert, if_neg (fresh r' g)]
        exact inv.pend _ r' g hz
      · rw [Net.upd_cl_ne _ _ _ ha]
        exact inv.pend a r' g hz
    · rw [ha, hr']
      simp only [Net.upd_cl_same, issuedClient]
      rw [pLookup_insert, if_pos rfl]
  · -- pend_inv
    intro a s v hp
    rw [issued_pending] at hp
    rw [issued_completions]
    by_cases ha : a = c
    · simp only [ha, if_true] at hp
      rw [pLookup_insert] at hp
      by_cases hs : s = r.serial
      · simp only [hs, if_true, Option.some.injEq] at hp
        refine ⟨r, ?_, hs.symm, hp.symm, ?_⟩
        · rw [issued_issued, ha]; simp
        · rw [ha, hs]; exact inv.no_compl fresh
      · simp only [hs, if_false] at hp
        obtain ⟨r0, hr0, h1, h2, h3⟩ := inv.pend_inv c s v hp
        refine ⟨r0, ?_, h1, h2, by rw [ha]; exact h3⟩
        rw [issued_issued, ha]; simp [hr0]
    · simp only [ha, if_false] at hp
      obtain ⟨r0, hr0, h1, h2, h3⟩ := inv.pend_inv a s v hp
      refine ⟨r0, ?_, h1, h2, h3⟩
      rw [issued_issued]; simp [ha, hr0]
  · intro a s
    rw [issued_completions]; exact inv.compl_le a s
  · intro a s hs
    rw [issued_late] at hs; rw [issued_completions]; exact inv.late_ok a s hs
  · -- tok
    intro a r' h
    rcases iss a r' h with g | ⟨ha, hr'⟩
    · unfold tokens
      rw [stg_old a r' g]
      exact inv.tok a r' g
    · unfold tokens
      rw [stg, ha, hr']
      have fr : ∀ x, x ∈ (net.cl c).issued → x.serial ≠ r.serial := fresh
      have z1 := inv.no_callUp fr
      have z2 := inv.no_callFrom_down r.dest fr
      have z3 := inv.no_callFrom_dropped fr
      have z4 := inv.no_exec r.dest fr
      have z5 := inv.no_replyTo r.dest fr
      have z6 := inv.no_reply fr
      have z7 := inv.no_complReply fr
      have z8 := inv.no_late fr
      simp only [Stages.total, stages, z1, z2, z3, z4, z5, z6, z7, z8, callMsg, isCall, beq_self_eq_true,
        and_self, if_true]
  · -- ans_cnt
    intro a r' h
    rw [ansf]
    rcases iss a r' h with g | ⟨ha, hr'⟩
    · rw [stg_old a r' g]
      exact inv.ans_cnt a r' g
    · rw [stg, ha, hr']
      have fr : ∀ x, x ∈ (net.cl c).issued → x.serial ≠ r.serial := fresh
      have z5 := inv.no_replyTo r.dest fr
      have z6 := inv.no_reply fr
      have z7 := inv.no_complReply fr
      have z8 := inv.no_ans r.dest fr
      have z9 := inv.no_late fr
      simp only [answersFor, stages, z5, z6, z7, z8, z9]
  · -- inv_cnt
    intro a r' h
    rw [invf, resf]
    rcases iss a r' h with g | ⟨ha, hr'⟩
    · rw [stg_old a r' g]
      exact inv.inv_cnt a r' g
    · rw [stg, ha, hr']
      have fr : ∀ x, x ∈ (net.cl c).issued → x.serial ≠ r.serial := fresh
      have z4 := inv.no_exec r.dest fr
      have z8 := inv.no_ans r.dest fr
      have z9 := inv.no_inv r.dest fr
      have z10 : (net.cl r.dest).answers.countP (ansResKey c r.serial) = 0 := by
        apply countP_eq_zero_of
        intro x hx
        have := (List.countP_eq_zero.mp z8) x hx
        simp only [ansResKey, Bool.and_eq_false_iff]
        left; simpa using this
      simp only [invocationsFor, resultsFor, stages, z4, z9, z10]

theorem Inv.step_call (inv : Inv w net) (c : Nat) (req : CallReq V) : Inv w (step w net (.call c req)) := by
  simp only [step]
  split
  · rename_i hc
    rcases issue_cases w (net.cl c) req with h | ⟨r, hr, h⟩
    · rw [Net.upd_same net c _ h]; exact inv
    · have : net.upd c (fun cl => (issue w cl req).1) = net.upd c (fun cl => issuedClient cl r) := by
        cases net with
        | mk n cl dropped =>
          simp only [Net.upd, Net.mk.injEq, true_and, and_true]
          funext j
          by_cases hj : j = c
          · subst hj; simpa using h
          · simp [hj]
      rw [this]
      exact inv.issued hc hr
  · exact inv

end

end Txdbus.Net
