import TxdbusModel.Net.GetProxy
import TxdbusModel.Proofs.Net.Agree
/-
C11 - the walk of `getRemoteObject` over its `interfaces` argument: the flag is the disjunction over the elements
("some requested NAME is unknown"), the list is the resolved elements in order.
-/
namespace Txdbus.Net

theorem scanIfaceArgs_spec (known : List (String × Iface)) :
    ∀ (l : List IfaceArg) (ifl : List Iface) (need : Bool),
      scanIfaceArgs known l (ifl, need) =
        (ifl ++ l.filterMap (IfaceArg.resolve known), need || l.any (fun a => (a.resolve known).isNone)) := by
  intro l
  induction l with
  | nil => intro ifl need; simp [scanIfaceArgs]
  | cons a t ih =>
    intro ifl need
    cases a with
    | inst i =>
      simp only [scanIfaceArgs, ih, IfaceArg.resolve, List.filterMap_cons, List.any_cons, Option.isNone_some,
        Bool.false_or, List.append_assoc, List.singleton_append]
    | name n =>
      simp only [scanIfaceArgs, IfaceArg.resolve]
      cases h : assocGet known n with
      | some i =>
        simp only [ih, List.filterMap_cons, IfaceArg.resolve, h, List.any_cons, Option.isNone_some, Bool.false_or,
          List.append_assoc, List.singleton_append]
      | none =>
        simp only [ih, List.filterMap_cons, IfaceArg.resolve, h, List.any_cons, Option.isNone_none, Bool.true_or,
          Bool.or_true]

theorem plan_of_list (known : List (String × Iface)) (dest : Nat) (path : String) (p : IfacesParam)
    (l : List IfaceArg) (hl : p.toList? = some l) :
    getRemoteObjectPlan known dest path p =
      if l.any (fun a => (a.resolve known).isNone) then .introspect (l.map IfaceArg.reqName)
      else .built { dest := dest, path := path, ifaces := l.filterMap (IfaceArg.resolve known) } := by
  simp only [getRemoteObjectPlan, hl, scanIfaceArgs_spec, List.nil_append, Bool.false_or]

end Txdbus.Net
