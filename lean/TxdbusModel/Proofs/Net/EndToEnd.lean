import TxdbusModel.Proofs.Net.StepClient
/-
C11 - from the invariant to the end-to-end statement: in a quiescent state every issued call to an
attached destination is completed exactly once, answered exactly once, and - when the exporter's
declaration accepts it - invoked exactly once with the arguments of the call.
-/
namespace Txdbus.Net

variable {V : Type}

theorem countP_and_filter {α : Type} (p q : α → Bool) (l : List α) :
    l.countP (fun x => p x && q x) = (l.filter p).countP q := by
  induction l with
  | nil => rfl
  | cons x t ih =>
    rw [List.countP_cons, List.filter_cons]
    cases hp : p x <;> simp [hp, ih, List.countP_cons]

theorem filter_eq_nil_of_countP {α : Type} (p : α → Bool) (l : List α) (h : l.countP p = 0) :
    l.filter p = [] := by
  rw [List.countP_eq_length_filter] at h
  exact List.eq_nil_of_length_eq_zero h

/-- What `C11_end_to_end` says about one call. -/
structure Completed (w : World V) (net : Net V) (a : Nat) (r : CallRec V) (o : Outcome V) (ans : Answer V) : Prop where
  /-- the caller's Deferred fired exactly once, with `o` -/
  once : (net.cl a).completions.filter (complKey r.serial) = [(r.serial, o)]
  /-- the exporter sent exactly one reply for it, for the reason `ans` -/
  answered : (net.cl r.dest).answers.filter (ansKey a r.serial) = [(some a, r.serial, ans)]
  /-- `ans` is the verdict of `handleMethodCallMessage` on this call -/
  fits : AnswerFits w r.dest r ans
  /-- the completion is `_cbCvtReply` of the reply sent for `ans` - unless the call's deadline passed first
  (then the reply was ignored when it came) -/
  outcome : o = .timedOut ∨ o = outcomeOf r.retSig (replyOf w ans)
  /-- the exported method ran exactly once, with the call's arguments, iff the call was accepted -/
  invoked : (net.cl r.dest).invocations.filter (invKey a r.serial) =
    match check w r.dest r.path r.iface r.member r.sig with
    | .run i _ f => [{ sender := some a, serial := r.serial, path := r.path, iface := i.name, member := r.member,
                       args := r.args, impl := f.id }]
    | _ => []

theorem Inv.completed {w : World V} {net : Net V} (inv : Inv w net) (hq : net.Quiescent)
    {a : Nat} (ha : a < net.n) {r : CallRec V} (hr : r ∈ (net.cl a).issued) (hd : r.dest < net.n) :
    ∃ o ans, Completed w net a r o ans := by
  obtain ⟨ua, da, _⟩ := hq a ha
  obtain ⟨ud, dd, ed⟩ := hq r.dest hd
  -- nothing of this call was dropped
  have hdrop : net.dropped.countP (isCallFrom a r.serial) = 0 := by
    apply countP_eq_zero_of
    intro m hm
    obtain ⟨a', _, r', hr', hnd, e⟩ := inv.drop_ok m hm
    subst e
    simp only [callMsg, isCallFrom, Bool.and_eq_false_iff, beq_eq_false_iff_ne, ne_eq]
    by_cases hn : r'.serial = r.serial
    · right
      intro hs
      have : a' = a := by injection hs
      subst this
      have := inv.serial_uniq a' r' r hr' hr hn
      subst this
      exact hnd hd
    · left; exact hn
  have htok := inv.tok a r hr
  have hans := inv.ans_cnt a r hr
  have hinv := inv.inv_cnt a r hr
  simp only [tokens, stages, Stages.total, answersFor, invocationsFor, resultsFor, ua, da, ud, dd, ed, hdrop,
    List.countP_nil, Nat.zero_add, Nat.add_zero] at htok hans hinv
  -- the exporter answered exactly once
  have hans1 : (net.cl r.dest).answers.countP (ansKey a r.serial) = 1 := by omega
  -- the caller's Deferred fired exactly once
  have hK : (net.cl a).completions.countP (complKey r.serial) = 1 := by
    have hle := inv.compl_le a r.serial
    have hge : 1 ≤ (net.cl a).completions.countP (complKey r.serial) := by
      by_cases hl : (net.cl a).late.countP (lateKey r.serial) = 0
      · have h1 : (net.cl a).completions.countP (complReplyKey r.serial) = 1 := by omega
        have hmono : (net.cl a).completions.countP (complReplyKey r.serial) ≤
            (net.cl a).completions.countP (complKey r.serial) := by
          apply List.countP_mono_left
          intro x _ hx
          simp only [complReplyKey, Bool.and_eq_true] at hx
          exact hx.1
        omega
      · have : 0 < (net.cl a).late.countP (lateKey r.serial) := by omega
        rw [List.countP_pos_iff] at this
        obtain ⟨x, hx, hk⟩ := this
        simp only [lateKey, beq_iff_eq] at hk
        rw [hk] at hx
        exact inv.late_ok a r.serial hx
    omega
  obtain ⟨x, hx, hxm, hxk⟩ := countP_one_filter _ _ hK
  obtain ⟨y, hy, hym, hyk⟩ := countP_one_filter _ _ hans1
  obtain ⟨r1, hr1, hs1, hcase⟩ := inv.compl_ok a x hxm
  simp only [complKey, beq_iff_eq] at hxk
  have e1 : r1 = r := inv.serial_uniq a r1 r hr1 hr (by rw [hs1, hxk])
  subst e1
  -- the answer the exporter logged
  obtain ⟨a', _, hsa, r2, hr2, hs2, hd2, hfit⟩ := inv.ans_ok r1.dest y hym
  simp only [ansKey, Bool.and_eq_true, beq_iff_eq] at hyk
  have ea : a' = a := by
    have := hsa.symm.trans hyk.1
    injection this
  subst ea
  have e2 : r2 = r1 := inv.serial_uniq a' r2 r1 hr2 hr (by rw [hs2, hyk.2])
  subst e2
  have hyeq : y = (some a', r2.serial, y.2.2) := by
    obtain ⟨y1, y2, y3⟩ := y
    simp only at hyk hsa
    rw [hyk.1, hyk.2]
  -- the completion is the deadline's, or comes from that very answer
  have ho : x.2 = .timedOut ∨ x.2 = outcomeOf r2.retSig (replyOf w y.2.2) := by
    rcases hcase with h | ⟨_, _, ans, hansm, ho⟩
    · exact Or.inl h
    · right
      have : (some a', x.1, ans) ∈ (net.cl r2.dest).answers.filter (ansKey a' r2.serial) := by
        rw [List.mem_filter]
        exact ⟨hansm, by simp [ansKey, hxk]⟩
      rw [hy, List.mem_singleton] at this
      rw [ho, ← this]
  have hy' : (net.cl r2.dest).answers.filter (ansKey a' r2.serial) = [(some a', r2.serial, y.2.2)] := by
    rw [hy]; exact congrArg (fun z => [z]) hyeq
  generalize hans_def : y.2.2 = ans at hfit ho hy'
  refine ⟨x.2, ans, ?_, hy', hfit, ho, ?_⟩
  · rw [hx]
    have : x = (r2.serial, x.2) := by rw [← hxk]
    rw [← this]
  · -- invocations
    have hres : (net.cl r2.dest).answers.countP (ansResKey a' r2.serial) = ans.isResult.toNat := by
      have := countP_and_filter (ansKey a' r2.serial) (fun z => z.2.2.isResult) (net.cl r2.dest).answers
      show (net.cl r2.dest).answers.countP (fun z => ansKey a' r2.serial z && z.2.2.isResult) = _
      rw [this, hy', countP_cons_toNat, List.countP_nil, Nat.zero_add]
    rw [hres] at hinv
    cases hck : check w r2.dest r2.path r2.iface r2.member r2.sig with
    | builtin sg b =>
      simp only [AnswerFits, hck] at hfit
      simp only
      apply filter_eq_nil_of_countP
      rw [hinv, hfit]; rfl
    | refused nm t =>
      simp only [AnswerFits, hck] at hfit
      simp only
      apply filter_eq_nil_of_countP
      rw [hinv, hfit]; rfl
    | run i m f =>
      simp only [AnswerFits, hck] at hfit
      obtain ⟨res, hres'⟩ := hfit
      simp only
      have h1 : (net.cl r2.dest).invocations.countP (invKey a' r2.serial) = 1 := by
        rw [hinv, hres']; rfl
      obtain ⟨iv, hiv, hivm, hivk⟩ := countP_one_filter _ _ h1
      obtain ⟨a3, _, r3, hr3, _, i3, m3, f3, hck3, eiv⟩ := inv.inv_ok r2.dest iv hivm
      subst eiv
      simp only [invKey, Bool.and_eq_true, beq_iff_eq, Option.some.injEq] at hivk
      obtain ⟨ea3, es3⟩ := hivk
      subst ea3
      have e3 : r3 = r2 := inv.serial_uniq a3 r3 r2 hr3 hr es3
      subst e3
      rw [hck] at hck3
      injection hck3 with hi hm hf
      rw [hiv, hi, hf]

end Txdbus.Net
