import TxdbusModel.Net.Bytes
import TxdbusModel.Proofs.Net.StepBus
import TxdbusModel.Proofs.Proto.Handoff
import TxdbusModel.Proofs.Proto.Frames
/-
C11 - every byte-level run is matched by a message-level run (simulation).

`WireCodec.Laws`: what C03 proves about `_marshal` / `parseMessage`, as far as the simulation needs it:
  * `wellformed` - the bytes of every message a peer writes are a well-formed frame in C04's sense (at least the 16
                   bytes of the fixed header, and the length fields announce exactly the length): C03
                   `marshal_wellformed` (for the bus's re-marshalled messages: the same function `_marshal`);
  * `roundtrip`  - parsing these bytes returns the message (values in wire-normal form): C03 `parse_marshal`
                   (`parse_marshal_with_C01_none` for txdbus's own body codec).
`Ok` is the domain of the codec: the messages `_marshal` accepts (C03's theorems are about messages whose construction
succeeds: within the size limits, names valid, bodies conforming to their signatures).  No lawful codec is total -
a frame's length fields are 32 bits wide - so the laws are relative to `Ok`, and the simulation is stated for runs all of
whose serialised messages (the `sent` log of the byte-level state) are in that domain.
`Sim C b net pu pd`: the message-level state `net` abstracts the byte-level state `b`: the clients agree except for
the `up`/`down` queues, and for every link the receiver's buffer followed by the bytes on the wire is the
serialisation of the link's message queue - after the messages `pu c` / `pd c` at its front, which the receiver has
already cut off but not yet handled (both empty between steps).
-/
namespace Txdbus.Net
open Txdbus.Proto

variable {V α : Type}

structure WireCodec.Laws (C : WireCodec V) (Ok : Msg V → Prop) : Prop where
  wellformed : ∀ m, Ok m → Spec.WellFormed (C.enc m)
  roundtrip : ∀ m, Ok m → C.dec (C.enc m) = some m

/-! ### framing a prefix of a stream of well-formed messages -/

theorem frames_nil : Spec.frames [] = ([], []) := by
  rw [frames_unfold, if_neg (by intro hf; exact absurd hf.1 (by decide))]

theorem frames_prefix (ms : List Bytes) (hwf : ∀ m ∈ ms, Spec.WellFormed m) (s t : Bytes)
    (h : s ++ t = ms.flatten) :
    ∃ k, (Spec.frames s).1 = ms.take k ∧ (Spec.frames s).2 ++ t = (ms.drop k).flatten := by
  have h1 := frames_append s t
  have h2 := frames_flatten_wellFormed ms hwf []
  rw [List.append_nil, frames_nil, List.append_nil] at h2
  rw [h, h2] at h1
  have hms : ms = (Spec.frames s).1 ++ (Spec.frames ((Spec.frames s).2 ++ t)).1 := congrArg Prod.fst h1
  have hrest : [] = (Spec.frames ((Spec.frames s).2 ++ t)).2 := congrArg Prod.snd h1
  have hc := frames_conserve ((Spec.frames s).2 ++ t)
  rw [← hrest, List.append_nil] at hc
  refine ⟨(Spec.frames s).1.length, ?_, ?_⟩
  · conv => rhs; rw [hms]
    simp
  · conv => rhs; rw [hms]
    simp [hc]

/-! ### the client functions do not look at the queues -/

def Client.withQ (cl : Client V) (u d : List (Msg V)) : Client V := { cl with up := u, down := d }

theorem issue_withQ (w : World V) (cl : Client V) (req : CallReq V) (u d : List (Msg V)) :
    (issue w (cl.withQ u d) req).1 =
      ((issue w (cl.withQ [] []) req).1).withQ (u ++ (issue w (cl.withQ [] []) req).1.up) d := by
  unfold issue
  cases proxyResolve req with
  | error e => simp [Client.withQ]
  | ok r0 =>
    simp only [Client.withQ]
    by_cases hf : (if r0.sig = "" then false else (w.encErr r0.sig r0.args).isSome) = true
    · simp [hf]
    · simp [hf]

theorem sendAnswer_withQ (w : World V) (cl : Client V) (sender : Option Nat) (serial : Nat) (a : Answer V)
    (u d : List (Msg V)) :
    sendAnswer w (cl.withQ u d) sender serial a =
      (sendAnswer w (cl.withQ [] []) sender serial a).withQ
        (u ++ (sendAnswer w (cl.withQ [] []) sender serial a).up) d := by
  simp [sendAnswer, Client.withQ]

theorem receive_withQ (w : World V) (j : Nat) (cl : Client V) (m : Msg V) (beh : Behaviour V)
    (u d : List (Msg V)) :
    receive w j (cl.withQ u d) m beh =
      (receive w j (cl.withQ [] []) m beh).withQ (u ++ (receive w j (cl.withQ [] []) m beh).up) d := by
  cases m with
  | call n sender dest p i mem g args =>
    simp only [receive, dispatch]
    cases check w j p i mem g with
    | builtin sg b => simp [sendAnswer, Client.withQ]
    | refused nm t => simp [sendAnswer, Client.withQ]
    | run ifc md fn =>
      cases beh with
      | now r => simp [sendAnswer, Client.withQ]
      | deferred => simp [Client.withQ]
  | reply sn rs sender dest content =>
    simp only [receive, complete, Client.withQ]
    cases pLookup cl.pending rs <;> simp

/-! ### the simulation relation -/

structure Sim (C : WireCodec V) (b : BNet V α) (net : Net V) (pu pd : Nat → List (Msg V)) : Prop where
  n_eq : net.n = b.n
  dropped : net.dropped = b.dropped
  cl : ∀ c, b.cl c = (net.cl c).withQ [] []
  upL : ∀ c, ∃ tail, (net.cl c).up = pu c ++ tail ∧ (b.busRx c).buffer ++ b.upWire c = encAll C tail
  downL : ∀ c, ∃ tail, (net.cl c).down = pd c ++ tail ∧ (b.cliRx c).buffer ++ b.downWire c = encAll C tail
  busOk : ∀ c, (b.busRx c).authenticated = true ∧ Framed (b.busRx c)
  cliOk : ∀ c, (b.cliRx c).authenticated = true ∧ Framed (b.cliRx c)
  /-- whatever is queued on a link was serialised onto it at some point -/
  sub : ∀ c m, (m ∈ (net.cl c).up ∨ m ∈ (net.cl c).down) → m ∈ b.sent

def noPre : Nat → List (Msg V) := fun _ => []

theorem encAll_append (C : WireCodec V) (a b : List (Msg V)) : encAll C (a ++ b) = encAll C a ++ encAll C b := by
  simp [encAll]

theorem withQ_eq (cl : Client V) : cl = cl.withQ cl.up cl.down := rfl

/-- a client operation that does not look at the queues, performed on both levels -/
theorem Sim.client_op {C : WireCodec V} {b : BNet V α} {net : Net V} {pu pd : Nat → List (Msg V)}
    (h : Sim C b net pu pd) (c : Nat) (op : Client V → Client V)
    (hop : ∀ cl u d, op (Client.withQ cl u d) = (op (cl.withQ [] [])).withQ (u ++ (op (cl.withQ [] [])).up) d) :
    Sim C (b.flush C c (op (b.cl c))) (net.upd c op) pu pd := by
  have hcl : op (net.cl c) = (op (b.cl c)).withQ ((net.cl c).up ++ (op (b.cl c)).up) (net.cl c).down := by
    conv => lhs; rw [withQ_eq (net.cl c)]
    rw [hop, h.cl c]
  have hd0 : (op (b.cl c)).down = [] := by
    have := hop (net.cl c) [] []
    rw [← h.cl c] at this
    have := congrArg Client.down this
    simpa [Client.withQ] using this
  refine ⟨h.n_eq, h.dropped, ?_, ?_, ?_, h.busOk, h.cliOk, ?_⟩
  rotate_left 3
  · intro j m hm
    simp only [BNet.flush, List.mem_append]
    by_cases hj : j = c
    · subst hj
      simp only [Net.upd_cl_same, hcl, Client.withQ, List.mem_append] at hm
      rcases hm with (hm | hm) | hm
      · exact Or.inl (h.sub j m (Or.inl hm))
      · exact Or.inr hm
      · exact Or.inl (h.sub j m (Or.inr hm))
    · rw [Net.upd_cl_ne _ _ _ hj] at hm
      exact Or.inl (h.sub j m hm)
  · intro j
    by_cases hj : j = c
    · subst hj
      simp only [BNet.flush, if_true, Net.upd_cl_same, hcl, Client.withQ, hd0]
    · simp only [BNet.flush, hj, if_false, Net.upd_cl_ne _ _ _ hj]
      exact h.cl j
  · intro j
    by_cases hj : j = c
    · subst hj
      obtain ⟨tail, h1, h2⟩ := h.upL j
      refine ⟨tail ++ (op (b.cl j)).up, ?_, ?_⟩
      · simp only [Net.upd_cl_same, hcl, Client.withQ, h1, List.append_assoc]
      · simp only [BNet.flush, if_true]
        rw [← List.append_assoc, h2, encAll_append]
    · simp only [BNet.flush, hj, if_false, Net.upd_cl_ne _ _ _ hj]
      exact h.upL j
  · intro j
    by_cases hj : j = c
    · subst hj
      obtain ⟨tail, h1, h2⟩ := h.downL j
      refine ⟨tail, ?_, h2⟩
      simp only [Net.upd_cl_same, hcl, Client.withQ, h1]
    · simp only [Net.upd_cl_ne _ _ _ hj]
      exact h.downL j


theorem Net.upd_upd (net : Net V) (c : Nat) (f g : Client V → Client V) :
    (net.upd c f).upd c g = net.upd c (fun cl => g (f cl)) := by
  cases net with
  | mk n cl dropped =>
    simp only [Net.upd, Net.mk.injEq, true_and, and_true]
    funext j
    by_cases hj : j = c <;> simp [hj]

theorem rawMsgs_map (l : List Bytes) : rawMsgs (l.map Effect.msg) = l := by
  induction l with
  | nil => rfl
  | cons x t ih => simp [rawMsgs, ih]

theorem withQ_fwd (net : Net V) (c d : Nat) (rest : List (Msg V)) (m : Msg V) (j : Nat) :
    ((pushDown (popUp net c rest) d m).cl j).withQ [] [] = (net.cl j).withQ [] [] := by
  simp only [pushDown, popUp, Net.upd_cl, Client.withQ]; repeat' split <;> simp_all

theorem withQ_drp (net : Net V) (c : Nat) (rest : List (Msg V)) (m : Msg V) (j : Nat) :
    ((addDropped (popUp net c rest) m).cl j).withQ [] [] = (net.cl j).withQ [] [] := by
  simp only [addDropped, popUp, Net.upd_cl, Client.withQ]; repeat' split <;> simp_all

section
variable {C : WireCodec V} {Ok : Msg V → Prop} {b : BNet V α} {net : Net V} {pu pd : Nat → List (Msg V)}

/-- the bus handles the message at the front of what it has cut off link `c` = one `toBus c` step -/
theorem Sim.bus_one (hC : C.Laws Ok) (w : World V) (h : Sim C b net pu pd) {c : Nat} (hc : c < b.n)
    {m : Msg V} {ms : List (Msg V)} (hpu : pu c = m :: ms) (hokm : Ok m) :
    Sim C (b.busHandle C c (C.enc m)) (step w net (.toBus c)) (fun j => if j = c then ms else pu j) pd := by
  have hcn : c < net.n := by rw [h.n_eq]; exact hc
  obtain ⟨tail, hup, hwire⟩ := h.upL c
  rw [hpu] at hup
  simp only [step, hcn, if_true]
  rw [busStep_eq, hup]
  simp only [List.cons_append, BNet.busHandle, hC.roundtrip m hokm]
  -- the up link of c after the pop, in all three cases
  have upAfter : ∀ (X : Net V), (∀ j, (X.cl j).up = if j = c then ms ++ tail else (net.cl j).up) →
      ∀ j, ∃ t, (X.cl j).up = (if j = c then ms else pu j) ++ t ∧ (b.busRx j).buffer ++ b.upWire j = encAll C t := by
    intro X hX j
    by_cases hj : j = c
    · rw [hj]; exact ⟨tail, by rw [hX c]; simp, hwire⟩
    · obtain ⟨t, h1, h2⟩ := h.upL j
      exact ⟨t, by rw [hX j]; simp only [hj, if_false]; exact h1, h2⟩
  have popped : ∀ j x, x ∈ (if j = c then ms ++ tail else (net.cl j).up) → x ∈ (net.cl j).up := by
    intro j x hx
    by_cases hj : j = c
    · simp only [hj, if_true] at hx; rw [hj, hup]; exact List.mem_cons_of_mem _ hx
    · simpa [hj] using hx
  cases hd : (m.withSender c).dest with
  | none =>
    simp only
    refine ⟨h.n_eq, by simp [addDropped, popUp, h.dropped], ?_, ?_, ?_, h.busOk, h.cliOk, ?_⟩
    · intro j; rw [withQ_drp]; exact h.cl j
    · exact upAfter _ (fun j => by rw [drp_up])
    · intro j; rw [drp_down]; exact h.downL j
    · intro j x hx
      rw [drp_up, drp_down] at hx
      exact h.sub j x (hx.imp (popped j x) id)
  | some d =>
    simp only
    by_cases hdn : d < net.n
    · have hdb : d < b.n := by rw [← h.n_eq]; exact hdn
      simp only [hdn, hdb, if_true]
      refine ⟨h.n_eq, h.dropped, ?_, ?_, ?_, h.busOk, h.cliOk, ?_⟩
      rotate_left 3
      · intro j x hx
        rw [fwd_up, fwd_down] at hx
        simp only [List.mem_append, List.mem_singleton]
        rcases hx with hx | hx
        · exact Or.inl (h.sub j x (Or.inl (popped j x hx)))
        · by_cases hj : j = d
          · simp only [hj, if_true, List.mem_append, List.mem_singleton] at hx
            rcases hx with hx | hx
            · exact Or.inl (h.sub d x (Or.inr hx))
            · exact Or.inr hx
          · simp only [hj, if_false] at hx
            exact Or.inl (h.sub j x (Or.inr hx))
      · intro j; rw [withQ_fwd]; exact h.cl j
      · exact upAfter _ (fun j => by rw [fwd_up])
      · intro j
        rw [fwd_down]
        obtain ⟨t, h1, h2⟩ := h.downL j
        by_cases hj : j = d
        · subst hj
          refine ⟨t ++ [m.withSender c], by simp [h1], ?_⟩
          simp only [if_true]
          rw [← List.append_assoc, h2, encAll_append]
          simp [encAll]
        · exact ⟨t, by simp [hj, h1], by simp only [hj, if_false]; exact h2⟩
    · have hdb : ¬ d < b.n := by rw [← h.n_eq]; exact hdn
      simp only [hdn, hdb, if_false]
      refine ⟨h.n_eq, by simp [addDropped, popUp, h.dropped], ?_, ?_, ?_, h.busOk, h.cliOk, ?_⟩
      · intro j; rw [withQ_drp]; exact h.cl j
      · exact upAfter _ (fun j => by rw [drp_up])
      · intro j; rw [drp_down]; exact h.downL j
      · intro j x hx
        rw [drp_up, drp_down] at hx
        exact h.sub j x (hx.imp (popped j x) id)

/-- all the messages the bus has cut off link `c`, in order = that many `toBus c` steps -/
theorem Sim.bus_many (hC : C.Laws Ok) (w : World V) {c : Nat} :
    ∀ (ms : List (Msg V)) (b : BNet V α) (net : Net V) (pu : Nat → List (Msg V)), Sim C b net pu pd → c < b.n →
      pu c = ms → (∀ m, m ∈ ms → Ok m) →
      Sim C ((ms.map C.enc).foldl (fun acc raw => acc.busHandle C c raw) b)
        (run w net (ms.map (fun _ => Step.toBus c))) (fun j => if j = c then [] else pu j) pd := by
  intro ms
  induction ms with
  | nil =>
    intro b net pu h _ hpu _
    have : (fun j => if j = c then [] else pu j) = pu := by
      funext j; by_cases hj : j = c <;> simp [hj, hpu]
    simp only [List.map_nil, List.foldl_nil, run, this]
    exact h
  | cons m ms ih =>
    intro b net pu h hc hpu hok
    have h1 := h.bus_one hC w hc hpu (hok m List.mem_cons_self)
    have hn : (b.busHandle C c (C.enc m)).n = b.n := by
      simp only [BNet.busHandle, hC.roundtrip m (hok m List.mem_cons_self)]
      split
      · rfl
      · split <;> rfl
    have h2 := ih _ _ _ h1 (by rw [hn]; exact hc) (by simp) (fun x hx => hok x (List.mem_cons_of_mem _ hx))
    have : (fun j => if j = c then [] else (fun j => if j = c then ms else pu j) j) =
        (fun j => if j = c then [] else pu j) := by
      funext j; by_cases hj : j = c <;> simp [hj]
    rw [this] at h2
    simpa [run] using h2

/-- client `c` handles the message at the front of what it has cut off its link = one `toClient c beh` step -/
theorem Sim.cli_one (hC : C.Laws Ok) (w : World V) (h : Sim C b net pu pd) {c : Nat} (hc : c < b.n)
    {m : Msg V} {ms : List (Msg V)} (hpd : pd c = m :: ms) (hokm : Ok m) (beh : Behaviour V) :
    Sim C (b.cliHandle C w c (C.enc m) beh) (step w net (.toClient c beh)) pu
      (fun j => if j = c then ms else pd j) := by
  have hcn : c < net.n := by rw [h.n_eq]; exact hc
  obtain ⟨tail, hdown, hwire⟩ := h.downL c
  rw [hpd] at hdown
  simp only [step, hcn, if_true, clientStep, hdown, List.cons_append, BNet.cliHandle, hC.roundtrip m hokm]
  -- first the pop of the message, then the handler
  have hpop : Sim C b (net.upd c (fun cl => { cl with down := ms ++ tail })) pu
      (fun j => if j = c then ms else pd j) := by
    refine ⟨h.n_eq, h.dropped, ?_, ?_, ?_, h.busOk, h.cliOk, ?_⟩
    rotate_left 3
    · intro j x hx
      by_cases hj : j = c
      · subst hj
        simp only [Net.upd_cl_same] at hx
        rcases hx with hx | hx
        · exact h.sub j x (Or.inl hx)
        · exact h.sub j x (Or.inr (by rw [hdown]; exact List.mem_cons_of_mem _ hx))
      · rw [Net.upd_cl_ne _ _ _ hj] at hx; exact h.sub j x hx
    · intro j
      by_cases hj : j = c
      · subst hj; simp only [Net.upd_cl_same]; exact h.cl j
      · rw [Net.upd_cl_ne _ _ _ hj]; exact h.cl j
    · intro j
      by_cases hj : j = c
      · subst hj; simp only [Net.upd_cl_same]; exact h.upL j
      · rw [Net.upd_cl_ne _ _ _ hj]; exact h.upL j
    · intro j
      by_cases hj : j = c
      · subst hj; simp only [Net.upd_cl_same, if_true]; exact ⟨tail, rfl, hwire⟩
      · rw [Net.upd_cl_ne _ _ _ hj]; simp only [hj, if_false]; exact h.downL j
  have := hpop.client_op c (fun cl => receive w c cl m beh) (fun cl u d => receive_withQ w c cl m beh u d)
  rw [Net.upd_upd] at this
  exact this

theorem cliHandle_n (hC : C.Laws Ok) (w : World V) (b : BNet V α) (c : Nat) (m : Msg V) (hokm : Ok m)
    (beh : Behaviour V) : (b.cliHandle C w c (C.enc m) beh).n = b.n := by
  simp [BNet.cliHandle, hC.roundtrip m hokm, BNet.flush]

/-- the behaviours the byte-level read assigns to the messages it completes -/
def behsFor : List (Msg V) → List (Behaviour V) → List (Behaviour V)
  | [], _ => []
  | _ :: ms, [] => .deferred :: behsFor ms []
  | _ :: ms, beh :: behs => beh :: behsFor ms behs

theorem Sim.cli_many (hC : C.Laws Ok) (w : World V) {c : Nat} :
    ∀ (ms : List (Msg V)) (behs : List (Behaviour V)) (b : BNet V α) (net : Net V) (pd : Nat → List (Msg V)),
      Sim C b net pu pd → c < b.n → pd c = ms → (∀ m, m ∈ ms → Ok m) →
      Sim C (b.cliHandleAll C w c (ms.map C.enc) behs)
        (run w net ((behsFor ms behs).map (fun beh => Step.toClient c beh))) pu
        (fun j => if j = c then [] else pd j) := by
  intro ms
  induction ms with
  | nil =>
    intro behs b net pd h _ hpd _
    have : (fun j => if j = c then [] else pd j) = pd := by
      funext j; by_cases hj : j = c <;> simp [hj, hpd]
    simp only [List.map_nil, BNet.cliHandleAll, behsFor, run, List.foldl_nil, this]
    exact h
  | cons m ms ih =>
    intro behs b net pd h hc hpd hok
    have hm0 := hok m List.mem_cons_self
    have hrest : ∀ x, x ∈ ms → Ok x := fun x hx => hok x (List.mem_cons_of_mem _ hx)
    have fix : ∀ (q : Nat → List (Msg V)), (fun j => if j = c then [] else (fun j => if j = c then ms else q j) j) =
        (fun j => if j = c then [] else q j) := by
      intro q; funext j; by_cases hj : j = c <;> simp [hj]
    cases behs with
    | nil =>
      have h1 := h.cli_one hC w hc hpd hm0 .deferred
      have h2 := ih [] _ _ _ h1 (by rw [cliHandle_n hC _ _ _ _ hm0]; exact hc) (by simp) hrest
      rw [fix] at h2
      simpa [BNet.cliHandleAll, behsFor, run] using h2
    | cons beh behs =>
      have h1 := h.cli_one hC w hc hpd hm0 beh
      have h2 := ih behs _ _ _ h1 (by rw [cliHandle_n hC _ _ _ _ hm0]; exact hc) (by simp) hrest
      rw [fix] at h2
      simpa [BNet.cliHandleAll, behsFor, run] using h2

end


section
variable {C : WireCodec V} {Ok : Msg V → Prop}

/-- One read, on either side: the receiver (in binary mode, `Framed`) is handed the first `k` bytes of the wire;
it cuts off exactly the serialisations of the first `j` messages of the link's queue, for some `j`, and what it
keeps buffered, followed by the rest of the wire, is the serialisation of the remaining queue. -/
theorem read_cuts (hC : C.Laws Ok) (A : Auth α) (rx : St α) (wire : Bytes) (k : Nat) (q : List (Msg V))
    (hok : ∀ m, m ∈ q → Ok m)
    (ha : rx.authenticated = true) (hf : Framed rx) (hq : rx.buffer ++ wire = encAll C q) :
    ∃ j, rawMsgs (Proto.step A rx (wire.take k)).2 = (q.take j).map C.enc ∧
      (Proto.step A rx (wire.take k)).1.buffer ++ wire.drop k = encAll C (q.drop j) ∧
      (Proto.step A rx (wire.take k)).1.authenticated = true ∧ Framed (Proto.step A rx (wire.take k)).1 := by
  rw [step_auth A rx _ ha]
  obtain ⟨h1, h2, h3⟩ := binStep_frames rx (wire.take k) hf
  have hwf : ∀ m ∈ q.map C.enc, Spec.WellFormed m := by
    intro m hm
    obtain ⟨x, hx, rfl⟩ := List.mem_map.mp hm
    exact hC.wellformed x (hok x hx)
  have hsplit : (rx.buffer ++ wire.take k) ++ wire.drop k = (q.map C.enc).flatten := by
    rw [List.append_assoc, List.take_append_drop]; exact hq
  obtain ⟨j, hj1, hj2⟩ := frames_prefix (q.map C.enc) hwf _ _ hsplit
  refine ⟨j, ?_, ?_, by rw [binStep_auth]; exact ha, h3⟩
  · rw [h1, rawMsgs_map, hj1, List.map_take]
  · rw [h2, hj2]; simp [encAll, List.map_drop]

/-- **Simulation, one step.**  Every byte-level step is matched by a finite sequence of message-level steps. -/
theorem bstep_simulated (hC : C.Laws Ok) (A : Auth α) (w : World V) {b : BNet V α} {net : Net V}
    (h : Sim C b net noPre noPre) (hok : ∀ m, m ∈ b.sent → Ok m) (st : BStep V) :
    ∃ sts, Sim C (bstep C A w b st) (run w net sts) noPre noPre := by
  cases st with
  | call c req =>
    refine ⟨[.call c req], ?_⟩
    simp only [bstep, run, List.foldl_cons, List.foldl_nil, step, h.n_eq]
    split
    · have := h.client_op c (fun cl => (issue w cl req).1) (fun cl u d => issue_withQ w cl req u d)
      exact this
    · exact h
  | readBus c k =>
    by_cases hc : c < b.n
    · simp only [bstep, hc, if_true]
      obtain ⟨tail, hup, hwire⟩ := h.upL c
      simp only [noPre, List.nil_append] at hup
      have hokq : ∀ m, m ∈ (net.cl c).up → Ok m := fun m hm => hok m (h.sub c m (Or.inl hm))
      obtain ⟨j, hj1, hj2, hj3, hj4⟩ := read_cuts hC A (b.busRx c) (b.upWire c) k (net.cl c).up hokq (h.busOk c).1
        (h.busOk c).2 (by rw [hup]; exact hwire)
      refine ⟨((net.cl c).up.take j).map (fun _ => Step.toBus c), ?_⟩
      rw [hj1]
      -- the state after the read, before the handlers: the first j messages are cut off
      have h1 : Sim C
          ({ b with upWire := fun i => if i = c then (b.upWire c).drop k else b.upWire i,
                    busRx := fun i => if i = c then (Proto.step A (b.busRx c) ((b.upWire c).take k)).1 else b.busRx i })
          net (fun i => if i = c then (net.cl c).up.take j else noPre i) noPre := by
        refine ⟨h.n_eq, h.dropped, h.cl, ?_, h.downL, ?_, h.cliOk, h.sub⟩
        · intro i
          by_cases hi : i = c
          · subst hi
            refine ⟨(net.cl i).up.drop j, by simp, ?_⟩
            simp only [if_true]; exact hj2
          · simp only [hi, if_false]; exact h.upL i
        · intro i
          by_cases hi : i = c
          · subst hi; simp only [if_true]; exact ⟨hj3, hj4⟩
          · simp only [hi, if_false]; exact h.busOk i
      have h2 := Sim.bus_many hC w (c := c) ((net.cl c).up.take j) _ _ _ h1 hc (by simp)
        (fun m hm => hokq m (List.mem_of_mem_take hm))
      have : (fun i => if i = c then [] else (fun i => if i = c then (net.cl c).up.take j else noPre i) i) =
          (noPre : Nat → List (Msg V)) := by
        funext i; by_cases hi : i = c <;> simp [hi, noPre]
      rw [this] at h2
      exact h2
    · exact ⟨[], by simpa [bstep, hc, run] using h⟩
  | readClient c k behs =>
    by_cases hc : c < b.n
    · simp only [bstep, hc, if_true]
      obtain ⟨tail, hdown, hwire⟩ := h.downL c
      simp only [noPre, List.nil_append] at hdown
      have hokq : ∀ m, m ∈ (net.cl c).down → Ok m := fun m hm => hok m (h.sub c m (Or.inr hm))
      obtain ⟨j, hj1, hj2, hj3, hj4⟩ := read_cuts hC A (b.cliRx c) (b.downWire c) k (net.cl c).down hokq (h.cliOk c).1
        (h.cliOk c).2 (by rw [hdown]; exact hwire)
      refine ⟨(behsFor ((net.cl c).down.take j) behs).map (fun beh => Step.toClient c beh), ?_⟩
      rw [hj1]
      have h1 : Sim C
          ({ b with downWire := fun i => if i = c then (b.downWire c).drop k else b.downWire i,
                    cliRx := fun i => if i = c then (Proto.step A (b.cliRx c) ((b.downWire c).take k)).1 else b.cliRx i })
          net noPre (fun i => if i = c then (net.cl c).down.take j else noPre i) := by
        refine ⟨h.n_eq, h.dropped, h.cl, h.upL, ?_, h.busOk, ?_, h.sub⟩
        · intro i
          by_cases hi : i = c
          · subst hi
            refine ⟨(net.cl i).down.drop j, by simp, ?_⟩
            simp only [if_true]; exact hj2
          · simp only [hi, if_false]; exact h.downL i
        · intro i
          by_cases hi : i = c
          · subst hi; simp only [if_true]; exact ⟨hj3, hj4⟩
          · simp only [hi, if_false]; exact h.cliOk i
      have h2 := Sim.cli_many hC w (c := c) ((net.cl c).down.take j) behs _ _ _ h1 hc (by simp)
        (fun m hm => hokq m (List.mem_of_mem_take hm))
      have : (fun i => if i = c then [] else (fun i => if i = c then (net.cl c).down.take j else noPre i) i) =
          (noPre : Nat → List (Msg V)) := by
        funext i; by_cases hi : i = c <;> simp [hi, noPre]
      rw [this] at h2
      exact h2
    · exact ⟨[], by simpa [bstep, hc, run] using h⟩
  | resolve c tok res =>
    refine ⟨[.resolve c tok res], ?_⟩
    simp only [bstep, run, List.foldl_cons, List.foldl_nil, step, h.n_eq, resolveStep]
    split
    · have hex : (net.cl c).exec = (b.cl c).exec := by rw [h.cl c]; rfl
      rw [hex]
      cases ht : takeExec tok (b.cl c).exec with
      | none => exact h
      | some pr =>
        obtain ⟨e, rest⟩ := pr
        simp only
        have := h.client_op c (fun cl => sendAnswer w { cl with exec := rest } e.sender e.serial
            (.result e.sigOut e.nret res)) (fun cl u d => by simp [sendAnswer, Client.withQ])
        exact this
    · exact h
  | expire c serial =>
    refine ⟨[.expire c serial], ?_⟩
    simp only [bstep, run, List.foldl_cons, List.foldl_nil, step, h.n_eq, expireStep]
    split
    · have hp : (net.cl c).pending = (b.cl c).pending := by rw [h.cl c]; rfl
      rw [hp]
      cases hl : pLookup (b.cl c).pending serial with
      | none => exact h
      | some v =>
        simp only
        refine ⟨h.n_eq, h.dropped, ?_, ?_, ?_, h.busOk, h.cliOk, ?_⟩
        rotate_left 3
        · intro i x hx
          by_cases hi : i = c
          · subst hi; simp only [Net.upd_cl_same] at hx; exact h.sub i x hx
          · rw [Net.upd_cl_ne _ _ _ hi] at hx; exact h.sub i x hx
        · intro i
          by_cases hi : i = c
          · subst hi
            simp only [if_true, Net.upd_cl_same, h.cl i, Client.withQ]
          · simp only [hi, if_false, Net.upd_cl_ne _ _ _ hi]; exact h.cl i
        · intro i
          by_cases hi : i = c
          · subst hi; simp only [Net.upd_cl_same]; exact h.upL i
          · rw [Net.upd_cl_ne _ _ _ hi]; exact h.upL i
        · intro i
          by_cases hi : i = c
          · subst hi; simp only [Net.upd_cl_same]; exact h.downL i
          · rw [Net.upd_cl_ne _ _ _ hi]; exact h.downL i
    · exact h

/-! ### the `sent` log only grows -/

theorem busHandle_sent (C : WireCodec V) (b : BNet V α) (c : Nat) (raw : Bytes) :
    ∀ m, m ∈ b.sent → m ∈ (b.busHandle C c raw).sent := by
  intro m hm
  unfold BNet.busHandle
  cases C.dec raw with
  | none => exact hm
  | some x =>
    simp only
    cases (x.withSender c).dest with
    | none => exact hm
    | some d =>
      simp only
      split
      · exact List.mem_append_left _ hm
      · exact hm

theorem busFold_sent (C : WireCodec V) (c : Nat) (raws : List Bytes) (b : BNet V α) :
    ∀ m, m ∈ b.sent → m ∈ (raws.foldl (fun acc raw => acc.busHandle C c raw) b).sent := by
  induction raws generalizing b with
  | nil => intro m hm; exact hm
  | cons r t ih => intro m hm; exact ih _ m (busHandle_sent C b c r m hm)

theorem cliHandle_sent (C : WireCodec V) (w : World V) (b : BNet V α) (c : Nat) (raw : Bytes) (beh : Behaviour V) :
    ∀ m, m ∈ b.sent → m ∈ (b.cliHandle C w c raw beh).sent := by
  intro m hm
  unfold BNet.cliHandle
  split
  · exact hm
  · exact List.mem_append_left _ hm

theorem cliHandleAll_sent (C : WireCodec V) (w : World V) (c : Nat) (raws : List Bytes) :
    ∀ (behs : List (Behaviour V)) (b : BNet V α) m, m ∈ b.sent → m ∈ (b.cliHandleAll C w c raws behs).sent := by
  induction raws with
  | nil => intro behs b m hm; cases behs <;> exact hm
  | cons r t ih =>
    intro behs b m hm
    cases behs with
    | nil => exact ih [] _ m (cliHandle_sent C w b c r _ m hm)
    | cons beh behs => exact ih behs _ m (cliHandle_sent C w b c r beh m hm)

theorem bstep_sent (C : WireCodec V) (A : Auth α) (w : World V) (b : BNet V α) (st : BStep V) :
    ∀ m, m ∈ b.sent → m ∈ (bstep C A w b st).sent := by
  intro m hm
  cases st with
  | call c req =>
    simp only [bstep]; split
    · exact List.mem_append_left _ hm
    · exact hm
  | readBus c k =>
    simp only [bstep]; split
    · exact busFold_sent C c _ _ m hm
    · exact hm
  | readClient c k behs =>
    simp only [bstep]; split
    · exact cliHandleAll_sent C w c _ behs _ m hm
    · exact hm
  | resolve c tok res =>
    simp only [bstep]; split
    · split
      · exact hm
      · exact List.mem_append_left _ hm
    · exact hm
  | expire c serial =>
    simp only [bstep]; split
    · split <;> exact hm
    · exact hm

theorem brun_sent (C : WireCodec V) (A : Auth α) (w : World V) (bsteps : List (BStep V)) (b : BNet V α) :
    ∀ m, m ∈ b.sent → m ∈ (brun C A w b bsteps).sent := by
  induction bsteps generalizing b with
  | nil => intro m hm; exact hm
  | cons st rest ih => intro m hm; exact ih _ m (bstep_sent C A w b st m hm)

/-- **Simulation.**  Every byte-level run all of whose serialised messages are in the codec's domain is matched by a
message-level run. -/
theorem brun_simulated (hC : C.Laws Ok) (A : Auth α) (w : World V) (bsteps : List (BStep V)) {b : BNet V α}
    {net : Net V} (h : Sim C b net noPre noPre) (hok : ∀ m, m ∈ (brun C A w b bsteps).sent → Ok m) :
    ∃ sts, Sim C (brun C A w b bsteps) (run w net sts) noPre noPre := by
  induction bsteps generalizing b net with
  | nil => exact ⟨[], h⟩
  | cons st rest ih =>
    have hok0 : ∀ m, m ∈ b.sent → Ok m := fun m hm => hok m (brun_sent C A w (st :: rest) b m hm)
    obtain ⟨s1, h1⟩ := bstep_simulated hC A w h hok0 st
    obtain ⟨s2, h2⟩ := ih h1 hok
    refine ⟨s1 ++ s2, ?_⟩
    have : run w net (s1 ++ s2) = run w (run w net s1) s2 := by simp [run, List.foldl_append]
    rw [this]
    exact h2

theorem sim_init (C : WireCodec V) (n : Nat) (first : Nat → Nat) (a : α) :
    Sim C (BNet.init n first a : BNet V α) (Net.init n first) noPre noPre := by
  refine ⟨rfl, rfl, fun c => rfl, fun c => ⟨[], rfl, rfl⟩, fun c => ⟨[], rfl, rfl⟩, ?_, ?_, ?_⟩
  · intro c; exact ⟨rfl, Or.inl ⟨rfl, by show (0 : Nat) < 16; omega⟩⟩
  · intro c; exact ⟨rfl, Or.inl ⟨rfl, by show (0 : Nat) < 16; omega⟩⟩
  · intro c m hm; simp [Net.init, Client.init] at hm

/-- byte-level quiescence is message-level quiescence: a non-empty queue would have a non-empty serialisation -/
theorem Sim.quiescent (hC : C.Laws Ok) {b : BNet V α} {net : Net V} (h : Sim C b net noPre noPre)
    (hok : ∀ m, m ∈ b.sent → Ok m) (hq : b.Quiescent) : net.Quiescent := by
  have nonempty : ∀ (q : List (Msg V)), (∀ m, m ∈ q → Ok m) → encAll C q = [] → q = [] := by
    intro q hokq hq
    cases q with
    | nil => rfl
    | cons m t =>
      exfalso
      have := (hC.wellformed m (hokq m List.mem_cons_self)).1
      have hl : (encAll C (m :: t)).length = 0 := by rw [hq]; rfl
      simp only [encAll, List.map_cons, List.flatten_cons, List.length_append] at hl
      omega
  intro j hj
  obtain ⟨u, d, bb, cb, e⟩ := hq j (by rw [← h.n_eq]; exact hj)
  obtain ⟨t1, h1, h2⟩ := h.upL j
  obtain ⟨t2, h3, h4⟩ := h.downL j
  rw [bb, u] at h2
  rw [cb, d] at h4
  simp only [noPre, List.nil_append] at h1 h3
  refine ⟨?_, ?_, ?_⟩
  · rw [h1]; exact nonempty t1 (fun m hm => hok m (h.sub j m (Or.inl (by rw [h1]; exact hm)))) h2.symm
  · rw [h3]; exact nonempty t2 (fun m hm => hok m (h.sub j m (Or.inr (by rw [h3]; exact hm)))) h4.symm
  · have : (net.cl j).exec = (b.cl j).exec := by rw [h.cl j]; rfl
    rw [this]; exact e


/-! ### nothing gets stuck in a receiver (the cheap half of byte-level progress) -/

/-- In every state related by `Sim` no receiver holds a complete frame: whatever was delivered completely has been
cut off and handled within the read that completed it (C04's invariant `Framed`). -/
theorem Sim.no_complete_frame_buffered {b : BNet V α} {net : Net V} {pu pd : Nat → List (Msg V)}
    (h : Sim C b net pu pd) (c : Nat) :
    ¬ Spec.hasFrame (b.busRx c).buffer ∧ ¬ Spec.hasFrame (b.cliRx c).buffer :=
  ⟨framed_noFrame _ (h.busOk c).2, framed_noFrame _ (h.cliOk c).2⟩

theorem busHandle_up (b : BNet V α) (c : Nat) (raw : Bytes) :
    (b.busHandle C c raw).upWire = b.upWire ∧ (b.busHandle C c raw).busRx = b.busRx := by
  unfold BNet.busHandle
  cases C.dec raw with
  | none => exact ⟨rfl, rfl⟩
  | some x =>
    simp only
    cases (x.withSender c).dest with
    | none => exact ⟨rfl, rfl⟩
    | some d => simp only; split <;> exact ⟨rfl, rfl⟩

theorem busFold_up (c : Nat) (raws : List Bytes) (b : BNet V α) :
    (raws.foldl (fun acc raw => acc.busHandle C c raw) b).upWire = b.upWire ∧
    (raws.foldl (fun acc raw => acc.busHandle C c raw) b).busRx = b.busRx := by
  induction raws generalizing b with
  | nil => exact ⟨rfl, rfl⟩
  | cons r t ih =>
    obtain ⟨h1, h2⟩ := ih (b.busHandle C c r)
    obtain ⟨g1, g2⟩ := busHandle_up (C := C) b c r
    exact ⟨h1.trans g1, h2.trans g2⟩

/-- A read that takes everything queued on client `c`'s link to the bus leaves that link EMPTY: nothing on the
wire, nothing in the bus's buffer - every message written so far has surfaced at the bus. -/
theorem Sim.read_all_empties_up (hC : C.Laws Ok) (A : Auth α) (w : World V) {b : BNet V α} {net : Net V}
    (h : Sim C b net noPre noPre) (hok : ∀ m, m ∈ b.sent → Ok m) {c : Nat} (hc : c < b.n) :
    (bstep C A w b (.readBus c (b.upWire c).length)).upWire c = [] ∧
    ((bstep C A w b (.readBus c (b.upWire c).length)).busRx c).buffer = [] := by
  simp only [bstep, hc, if_true]
  obtain ⟨h1, h2⟩ := busFold_up (C := C) c
    (rawMsgs (Proto.step A (b.busRx c) (List.take (b.upWire c).length (b.upWire c))).2)
    { b with upWire := fun i => if i = c then (b.upWire c).drop (b.upWire c).length else b.upWire i,
             busRx := fun i => if i = c then
               (Proto.step A (b.busRx c) ((b.upWire c).take (b.upWire c).length)).1 else b.busRx i }
  rw [h1, h2]
  simp only [if_true, List.drop_length, List.take_length, true_and]
  obtain ⟨tail, hup, hwire⟩ := h.upL c
  simp only [noPre, List.nil_append] at hup
  rw [step_auth A _ _ (h.busOk c).1]
  obtain ⟨_, g2, _⟩ := binStep_frames (b.busRx c) (b.upWire c) (h.busOk c).2
  rw [g2, hwire]
  have hwf : ∀ m ∈ tail.map C.enc, Spec.WellFormed m := by
    intro m hm
    obtain ⟨x, hx, rfl⟩ := List.mem_map.mp hm
    exact hC.wellformed x (hok x (h.sub c x (Or.inl (by rw [hup]; exact hx))))
  have := frames_flatten_wellFormed (tail.map C.enc) hwf []
  rw [List.append_nil, frames_nil] at this
  show (Spec.frames (tail.map C.enc).flatten).2 = []
  rw [this]

end

end Txdbus.Net
