import TxdbusModel.Proofs.Net.Invariant
/-
C11 - the two general transitions of a client and the invariant:

* `Inv.exporter_move`: client `c`, acting as an exporter, replaces its `down`, `exec` lists and appends
  to its `up` queue and to its `invocations` / `answers` logs, such that for every key the number of
  tokens it holds (stamped call in `down`, unfired Deferred, reply in `up`) is unchanged
  (dispatch of a call, firing of a Deferred);
* `Inv.caller_complete`: client `c`, acting as a caller, consumes a reply and records the completion.
-/
namespace Txdbus.Net

variable {V : Type}

theorem Net.upd_congr (net : Net V) (c : Nat) (f g : Client V → Client V) (h : f (net.cl c) = g (net.cl c)) :
    net.upd c f = net.upd c g := by
  cases net with
  | mk n cl dropped =>
    simp only [Net.upd, Net.mk.injEq, true_and, and_true]
    funext j
    by_cases hj : j = c
    · subst hj; simpa using h
    · simp [hj]

/-- The exporter-side change of a client. -/
def moved (cl : Client V) (D : List (Msg V)) (E : List Exec) (I : List (Invocation V))
    (A : List (Option Nat × Nat × Answer V)) (U : List (Msg V)) (ns nt : Nat) : Client V :=
  { cl with down := D, exec := E, invocations := cl.invocations ++ I, answers := cl.answers ++ A,
            up := cl.up ++ U, nextSerial := ns, nextTok := nt }

section proj
variable (net : Net V) (c : Nat) (D : List (Msg V)) (E : List Exec) (I : List (Invocation V))
  (A : List (Option Nat × Nat × Answer V)) (U : List (Msg V)) (ns nt : Nat) (j : Nat)

local notation "net'" => Net.upd net c (fun cl => moved cl D E I A U ns nt)

theorem mv_up : ((net').cl j).up = if j = c then (net.cl j).up ++ U else (net.cl j).up := by
  simp only [moved, Net.upd_cl]; repeat' split <;> simp_all
theorem mv_down : ((net').cl j).down = if j = c then D else (net.cl j).down := by
  simp only [moved, Net.upd_cl]; repeat' split <;> simp_all
theorem mv_exec : ((net').cl j).exec = if j = c then E else (net.cl j).exec := by
  simp only [moved, Net.upd_cl]; repeat' split <;> simp_all
theorem mv_invocations : ((net').cl j).invocations =
    if j = c then (net.cl j).invocations ++ I else (net.cl j).invocations := by
  simp only [moved, Net.upd_cl]; repeat' split <;> simp_all
theorem mv_answers : ((net').cl j).answers = if j = c then (net.cl j).answers ++ A else (net.cl j).answers := by
  simp only [moved, Net.upd_cl]; repeat' split <;> simp_all
theorem mv_completions : ((net').cl j).completions = (net.cl j).completions := by
  simp only [moved, Net.upd_cl]; repeat' split <;> simp_all
theorem mv_issued : ((net').cl j).issued = (net.cl j).issued := by
  simp only [moved, Net.upd_cl]; repeat' split <;> simp_all
theorem mv_pending : ((net').cl j).pending = (net.cl j).pending := by
  simp only [moved, Net.upd_cl]; repeat' split <;> simp_all
theorem mv_nextSerial : ((net').cl j).nextSerial = if j = c then ns else (net.cl j).nextSerial := by
  simp only [moved, Net.upd_cl]; repeat' split <;> simp_all

end proj

theorem countP_ite {α : Type} (p : α → Bool) (b : Prop) [Decidable b] (l l' : List α) :
    (if b then l else l').countP p = if b then l.countP p else l'.countP p := by
  split <;> rfl

section
variable {w : World V} {net : Net V} {c : Nat}

theorem Inv.exporter_move (inv : Inv w net)
    {D : List (Msg V)} {E : List Exec} {I : List (Invocation V)} {A : List (Option Nat × Nat × Answer V)}
    {U : List (Msg V)} {ns nt : Nat}
    (hD : ∀ x, x ∈ D → x ∈ (net.cl c).down)
    (hE : ∀ e, e ∈ E → e ∈ (net.cl c).exec ∨ ExecOK w net c e)
    (hI : ∀ iv, iv ∈ I → InvOK w net c iv)
    (hA : ∀ x, x ∈ A → AnsOK w net c x)
    (hU : ∀ m, m ∈ U → UpOK w (net.upd c (fun cl => moved cl D E I A U ns nt)) c m)
    (hns : (net.cl c).nextSerial ≤ ns)
    (hUc : ∀ s, U.countP (isCall s) = 0)
    (hDr : ∀ s, D.countP (isReply s) = (net.cl c).down.countP (isReply s))
    (hT : ∀ a s, D.countP (isCallFrom a s) + E.countP (execKey a s) + U.countP (isReplyTo a s) =
      (net.cl c).down.countP (isCallFrom a s) + (net.cl c).exec.countP (execKey a s))
    (hAU : ∀ a s, A.countP (ansKey a s) = U.countP (isReplyTo a s))
    (hIE : ∀ a s, I.countP (invKey a s) + (net.cl c).exec.countP (execKey a s) =
      E.countP (execKey a s) + A.countP (ansResKey a s)) :
    Inv w (net.upd c (fun cl => moved cl D E I A U ns nt)) := by
  have hle : Le net (net.upd c (fun cl => moved cl D E I A U ns nt)) := by
    refine ⟨rfl, fun j r h => by rw [mv_issued]; exact h, fun j x h => ?_⟩
    rw [mv_answers]; split <;> simp [h]
  constructor
  · intro j m hm
    rw [mv_up] at hm
    by_cases hj : j = c
    · simp only [hj, if_true, List.mem_append] at hm
      rcases hm with hm | hm
      · exact (inv.up_ok j m (hj ▸ hm)).mono hle
      · rw [hj]; exact hU m hm
    · simp only [hj, if_false] at hm
      exact (inv.up_ok j m hm).mono hle
  · intro j m hm
    rw [mv_down] at hm
    by_cases hj : j = c
    · simp only [hj, if_true] at hm
      rw [hj]; exact (inv.down_ok c m (hD m hm)).mono hle
    · simp only [hj, if_false] at hm
      exact (inv.down_ok j m hm).mono hle
  · intro m hm
    exact (inv.drop_ok m hm).mono hle
  · intro j e he
    rw [mv_exec] at he
    by_cases hj : j = c
    · simp only [hj, if_true] at he
      rw [hj]
      rcases hE e he with h | h
      · exact (inv.exec_ok c e h).mono hle
      · exact h.mono hle
    · simp only [hj, if_false] at he
      exact (inv.exec_ok j e he).mono hle
  · intro j x hx
    rw [mv_answers] at hx
    by_cases hj : j = c
    · simp only [hj, if_true, List.mem_append] at hx
      rw [hj]
      rcases hx with hx | hx
      · exact (inv.ans_ok c x hx).mono hle
      · exact (hA x hx).mono hle
    · simp only [hj, if_false] at hx
      exact (inv.ans_ok j x hx).mono hle
  · intro j iv hiv
    rw [mv_invocations] at hiv
    by_cases hj : j = c
    · simp only [hj, if_true, List.mem_append] at hiv
      rw [hj]
      rcases hiv with h | h
      · exact (inv.inv_ok c iv h).mono hle
      · exact (hI iv h).mono hle
    · simp only [hj, if_false] at hiv
      exact (inv.inv_ok j iv hiv).mono hle
  · intro a x hx
    rw [mv_completions] at hx
    exact (inv.compl_ok a x hx).mono hle
  · intro a r h
    rw [mv_issued] at h; rw [mv_nextSerial]
    have := inv.serial_lt a r h
    split
    · rename_i ha; rw [ha] at this; omega
    · exact this
  · intro a r r' h h'
    rw [mv_issued] at h h'
    exact inv.serial_uniq a r r' h h'
  · intro a r h hz
    rw [mv_issued] at h; rw [mv_completions] at hz; rw [mv_pending]
    exact inv.pend a r h hz
  · intro a r h
    rw [mv_issued] at h
    have := inv.tok a r h
    have t := hT a r.serial
    have u := hUc r.serial
    have dr := hDr r.serial
    simp only [tokens, stages, Stages.total, mv_up, mv_down, mv_exec, mv_completions, Net.upd_dropped,
      countP_ite, List.countP_append] at this ⊢
    by_cases ha : a = c <;> by_cases hd : r.dest = c
    · simp only [ha, hd, if_true] at this t ⊢; omega
    · simp only [ha, hd, if_true, if_false] at this t ⊢; omega
    · simp only [ha, hd, if_true, if_false] at this t ⊢; omega
    · simp only [ha, hd, if_false] at this t ⊢; omega
  · intro a r h
    rw [mv_issued] at h
    have := inv.ans_cnt a r h
    have au := hAU a r.serial
    have dr := hDr r.serial
    simp only [answersFor, stages, mv_up, mv_down, mv_exec, mv_completions, mv_answers, Net.upd_dropped,
      countP_ite, List.countP_append] at this ⊢
    by_cases ha : a = c <;> by_cases hd : r.dest = c
    · simp only [ha, hd, if_true] at this au ⊢; omega
    · simp only [ha, hd, if_true, if_false] at this au ⊢; omega
    · simp only [ha, hd, if_true, if_false] at this au ⊢; omega
    · simp only [ha, hd, if_false] at this au ⊢; omega
  · intro a r h
    rw [mv_issued] at h
    have := inv.inv_cnt a r h
    have ie := hIE a r.serial
    simp only [invocationsFor, resultsFor, stages, mv_exec, mv_answers, mv_invocations, countP_ite,
      List.countP_append] at this ⊢
    by_cases hd : r.dest = c
    · simp only [hd, if_true] at this ⊢; omega
    · simp only [hd, if_false] at this ⊢; omega

/-- The caller-side change: a reply is consumed, its completion recorded. -/
def completed (cl : Client V) (rest : List (Msg V)) (rs : Nat) (o : Outcome V) : Client V :=
  { cl with down := rest, pending := pErase cl.pending rs, completions := cl.completions ++ [(rs, o)] }

section projc
variable (net : Net V) (c : Nat) (rest : List (Msg V)) (rs : Nat) (o : Outcome V) (j : Nat)

local notation "net'" => Net.upd net c (fun cl => completed cl rest rs o)

theorem cp_up : ((net').cl j).up = (net.cl j).up := by
  simp only [completed, Net.upd_cl]; repeat' split <;> simp_all
theorem cp_down : ((net').cl j).down = if j = c then rest else (net.cl j).down := by
  simp only [completed, Net.upd_cl]; repeat' split <;> simp_all
theorem cp_exec : ((net').cl j).exec = (net.cl j).exec := by
  simp only [completed, Net.upd_cl]; repeat' split <;> simp_all
theorem cp_invocations : ((net').cl j).invocations = (net.cl j).invocations := by
  simp only [completed, Net.upd_cl]; repeat' split <;> simp_all
theorem cp_answers : ((net').cl j).answers = (net.cl j).answers := by
  simp only [completed, Net.upd_cl]; repeat' split <;> simp_all
theorem cp_completions : ((net').cl j).completions =
    if j = c then (net.cl j).completions ++ [(rs, o)] else (net.cl j).completions := by
  simp only [completed, Net.upd_cl]; repeat' split <;> simp_all
theorem cp_issued : ((net').cl j).issued = (net.cl j).issued := by
  simp only [completed, Net.upd_cl]; repeat' split <;> simp_all
theorem cp_pending : ((net').cl j).pending = if j = c then pErase (net.cl j).pending rs else (net.cl j).pending := by
  simp only [completed, Net.upd_cl]; repeat' split <;> simp_all
theorem cp_nextSerial : ((net').cl j).nextSerial = (net.cl j).nextSerial := by
  simp only [completed, Net.upd_cl]; repeat' split <;> simp_all

end projc

theorem Inv.caller_complete (inv : Inv w net) {sn rs : Nat} {sender dest : Option Nat} {content : Reply V}
    {rest : List (Msg V)} {o : Outcome V}
    (hdown : (net.cl c).down = .reply sn rs sender dest content :: rest)
    (hnew : ComplOK w net c (rs, o)) :
    Inv w (net.upd c (fun cl => completed cl rest rs o)) := by
  have hle : Le net (net.upd c (fun cl => completed cl rest rs o)) :=
    ⟨rfl, fun j r h => by rw [cp_issued]; exact h, fun j x h => by rw [cp_answers]; exact h⟩
  have hd : ∀ j, j = c → (net.cl j).down = .reply sn rs sender dest content :: rest := fun j h => h ▸ hdown
  have memd : ∀ j x, x ∈ (if j = c then rest else (net.cl j).down) → x ∈ (net.cl j).down := by
    intro j x hx
    by_cases hj : j = c
    · simp only [hj, if_true] at hx; rw [hd j hj]; exact List.mem_cons_of_mem _ hx
    · simpa [hj] using hx
  constructor
  · intro j m hm
    rw [cp_up] at hm
    exact (inv.up_ok j m hm).mono hle
  · intro j m hm
    rw [cp_down] at hm
    exact (inv.down_ok j m (memd j m hm)).mono hle
  · intro m hm
    exact (inv.drop_ok m hm).mono hle
  · intro j e he
    rw [cp_exec] at he
    exact (inv.exec_ok j e he).mono hle
  · intro j x hx
    rw [cp_answers] at hx
    exact (inv.ans_ok j x hx).mono hle
  · intro j iv hiv
    rw [cp_invocations] at hiv
    exact (inv.inv_ok j iv hiv).mono hle
  · intro a x hx
    rw [cp_completions] at hx
    by_cases ha : a = c
    · simp only [ha, if_true, List.mem_append, List.mem_singleton] at hx
      rw [ha]
      rcases hx with hx | hx
      · exact (inv.compl_ok c x hx).mono hle
      · rw [hx]; exact hnew.mono hle
    · simp only [ha, if_false] at hx
      exact (inv.compl_ok a x hx).mono hle
  · intro a r h
    rw [cp_issued] at h; rw [cp_nextSerial]
    exact inv.serial_lt a r h
  · intro a r r' h h'
    rw [cp_issued] at h h'
    exact inv.serial_uniq a r r' h h'
  · intro a r h hz
    rw [cp_issued] at h; rw [cp_completions] at hz; rw [cp_pending]
    by_cases ha : a = c
    · rw [ha] at h
      simp only [ha, if_true, countP_snoc] at hz ⊢
      have hne : ¬ rs = r.serial := by
        intro e
        simp [complKey, e] at hz
      have hz' : (net.cl c).completions.countP (complKey r.serial) = 0 := by omega
      rw [pLookup_erase, if_neg (fun e => hne e.symm)]
      exact inv.pend c r h hz'
    · simp only [ha, if_false] at hz ⊢
      exact inv.pend a r h hz
  · intro a r h
    rw [cp_issued] at h
    have := inv.tok a r h
    have e1 := countP_ite_tail (isReply r.serial) (a = c) (net.cl a).down rest _ (hd a)
    have e2 := countP_ite_tail (isCallFrom a r.serial) (r.dest = c) (net.cl r.dest).down rest _ (hd r.dest)
    simp only [tokens, stages, Stages.total, cp_up, cp_down, cp_exec, cp_completions, Net.upd_dropped,
      countP_ite_snoc] at this ⊢
    simp only [isCallFrom, Bool.false_eq_true, and_false, if_false, Nat.add_zero] at e2
    by_cases hk : a = c ∧ rs = r.serial
    · obtain ⟨ha, hr⟩ := hk
      subst ha
      simp only [isReply, complKey, hr, beq_self_eq_true, and_self, if_true] at e1 this ⊢
      omega
    · have k1 : ¬ (a = c ∧ isReply r.serial (Msg.reply sn rs sender dest content) = true) := by
        simp only [isReply, beq_iff_eq]; exact hk
      have k2 : ¬ (a = c ∧ complKey r.serial (rs, o) = true) := by
        simp only [complKey, beq_iff_eq]; exact hk
      simp only [k1, k2, if_false] at e1 ⊢
      omega
  · intro a r h
    rw [cp_issued] at h
    have := inv.ans_cnt a r h
    have e1 := countP_ite_tail (isReply r.serial) (a = c) (net.cl a).down rest _ (hd a)
    simp only [answersFor, stages, cp_up, cp_down, cp_exec, cp_completions, cp_answers, Net.upd_dropped,
      countP_ite_snoc] at this ⊢
    by_cases hk : a = c ∧ rs = r.serial
    · obtain ⟨ha, hr⟩ := hk
      subst ha
      simp only [isReply, complKey, hr, beq_self_eq_true, and_self, if_true] at e1 this ⊢
      omega
    · have k1 : ¬ (a = c ∧ isReply r.serial (Msg.reply sn rs sender dest content) = true) := by
        simp only [isReply, beq_iff_eq]; exact hk
      have k2 : ¬ (a = c ∧ complKey r.serial (rs, o) = true) := by
        simp only [complKey, beq_iff_eq]; exact hk
      simp only [k1, k2, if_false] at e1 ⊢
      omega
  · intro a r h
    rw [cp_issued] at h
    have := inv.inv_cnt a r h
    simp only [invocationsFor, resultsFor, stages, cp_exec, cp_answers, cp_invocations] at this ⊢
    exact this

end

end Txdbus.Net
