import TxdbusModel.Proofs.Net.Invariant
/-
C11 - the two general transitions of a client and the invariant:

* `Inv.exporter_move`: client `c`, acting as an exporter, replaces its `down`, `exec` lists and appends
  to its `up` queue and to its `invocations` / `answers` logs, such that for every key the number of
  tokens it holds (stamped call in `down`, unfired Deferred, reply in `up`) is unchanged
  (dispatch of a call, firing of a Deferred);
* `Inv.caller_move`: client `c`, acting as a caller, consumes a reply and records the completion, ignores a reply
  that comes after the deadline, or lets a deadline pass.
-/
namespace Txdbus.Net

variable {V : Type}

theorem Net.upd_congr (net : Net V) (c : Nat) (f g : Client V → Client V) (h : f (net.cl c) = g (net.cl c)) :
    net.upd c f = net.upd c g := by
  cases net with
  | mk n cl dropped =>
    simp only [Net.upd, Net.mk.injEq, true_and, and_true]
    funext j
    by_cases hj : j = c
    · subst hj; simpa using h
    · simp [hj]

/-- The exporter-side change of a client. -/
def moved (cl : Client V) (D : List (Msg V)) (E : List Exec) (I : List (Invocation V))
    (A : List (Option Nat × Nat × Answer V)) (U : List (Msg V)) (ns nt : Nat) : Client V :=
  { cl with down := D, exec := E, invocations := cl.invocations ++ I, answers := cl.answers ++ A,
            up := cl.up ++ U, nextSerial := ns, nextTok := nt }

section proj
variable (net : Net V) (c : Nat) (D : List (Msg V)) (E : List Exec) (I : List (Invocation V))
  (A : List (Option Nat × Nat × Answer V)) (U : List (Msg V)) (ns nt : Nat) (j : Nat)

local notation "net'" => Net.upd net c (fun cl => moved cl D E I A U ns nt)

theorem mv_up : ((net').cl j).up = if j = c then (net.cl j).up ++ U else (net.cl j).up := by
  simp only [moved, Net.upd_cl]; repeat' split <;> simp_all
theorem mv_down : ((net').cl j).down = if j = c then D else (net.cl j).down := by
  simp only [moved, Net.upd_cl]; repeat' split <;> simp_all
theorem mv_exec : ((net').cl j).exec = if j = c then E else (net.cl j).exec := by
  simp only [moved, Net.upd_cl]; repeat' split <;> simp_all
theorem mv_invocations : ((net').cl j).invocations =
    if j = c then (net.cl j).invocations ++ I else (net.cl j).invocations := by
  simp only [moved, Net.upd_cl]; repeat' split <;> simp_all
theorem mv_answers : ((net').cl j).answers = if j = c then (net.cl j).answers ++ A else (net.cl j).answers := by
  simp only [moved, Net.upd_cl]; repeat' split <;> simp_all
theorem mv_completions : ((net').cl j).completions = (net.cl j).completions := by
  simp only [moved, Net.upd_cl]; repeat' split <;> simp_all
theorem mv_issued : ((net').cl j).issued = (net.cl j).issued := by
  simp only [moved, Net.upd_cl]; repeat' split <;> simp_all
theorem mv_pending : ((net').cl j).pending = (net.cl j).pending := by
  simp only [moved, Net.upd_cl]; repeat' split <;> simp_all
theorem mv_late : ((net').cl j).late = (net.cl j).late := by
  simp only [moved, Net.upd_cl]; repeat' split <;> simp_all
theorem mv_nextSerial : ((net').cl j).nextSerial = if j = c then ns else (net.cl j).nextSerial := by
  simp only [moved, Net.upd_cl]; repeat' split <;> simp_all

end proj

theorem countP_ite {α : Type} (p : α → Bool) (b : Prop) [Decidable b] (l l' : List α) :
    (if b then l else l').countP p = if b then l.countP p else l'.countP p := by
  split <;> rfl

section
variable {w : World V} {net : Net V} {c : Nat}

theorem Inv.exporter_move (inv : Inv w net)
    {D : List (Msg V)} {E : List Exec} {I : List (Invocation V)} {A : List (Option Nat × Nat × Answer V)}
    {U : List (Msg V)} {ns nt : Nat}
    (hD : ∀ x, x ∈ D → x ∈ (net.cl c).down)
    (hE : ∀ e, e ∈ E → e ∈ (net.cl c).exec ∨ ExecOK w net c e)
    (hI : ∀ iv, iv ∈ I → InvOK w net c iv)
    (hA : ∀ x, x ∈ A → AnsOK w net c x)
    (hU : ∀ m, m ∈ U → UpOK w (net.upd c (fun cl => moved cl D E I A U ns nt)) c m)
    (hns : (net.cl c).nextSerial ≤ ns)
    (hUc : ∀ s, U.countP (isCall s) = 0)
    (hDr : ∀ s, D.countP (isReply s) = (net.cl c).down.countP (isReply s))
    (hT : ∀ a s, D.countP (isCallFrom a s) + E.countP (execKey a s) + U.countP (isReplyTo a s) =
      (net.cl c).down.countP (isCallFrom a s) + (net.cl c).exec.countP (execKey a s))
    (hAU : ∀ a s, A.countP (ansKey a s) = U.countP (isReplyTo a s))
    (hIE : ∀ a s, I.countP (invKey a s) + (net.cl c).exec.countP (execKey a s) =
      E.countP (execKey a s) + A.countP (ansResKey a s)) :
    Inv w (net.upd c (fun cl => moved cl D E I A U ns nt)) := by
  have hle : Le net (net.upd c (fun cl => moved cl D E I A U ns nt)) := by
    refine ⟨rfl, fun j r h => by rw [mv_issued]; exact h, fun j x h => ?_⟩
    rw [mv_answers]; split <;> simp [h]
  constructor
  · intro j m hm
    rw [mv_up] at hm
    by_cases hj : j = c
    · simp only [hj, if_true, List.mem_append] at hm
      rcases hm with hm | hm
      · exact (inv.up_ok j m (hj ▸ hm)).mono hle
      · rw [hj]; exact hU m hm
    · simp only [hj, if_false] at hm
      exact (inv.up_ok j m hm).mono hle
  · intro j m hm
    rw [mv_down] at hm
    by_cases hj : j = c
    · simp only [hj, if_true] at hm
      rw [hj]; exact (inv.down_ok c m (hD m hm)).mono hle
    · simp only [hj, if_false] at hm
      exact (inv.down_ok j m hm).mono hle
  · intro m hm
    exact (inv.drop_ok m hm).mono hle
  · intro j e he
    rw [mv_exec] at he
    by_cases hj : j = c
    · simp only [hj, if_true] at he
      rw [hj]
      rcases hE e he with h | h
      · exact (inv.exec_ok c e h).mono hle
      · exact h.mono hle
    · simp only [hj, if_false] at he
      exact (inv.exec_ok j e he).mono hle
  · intro j x hx
    rw [mv_answers] at hx
    by_cases hj : j = c
    · simp only [hj, if_true, List.mem_append] at hx
      rw [hj]
      rcases hx with hx | hx
      · exact (inv.ans_ok c x hx).mono hle
      · exact (hA x hx).mono hle
    · simp only [hj, if_false] at hx
      exact (inv.ans_ok j x hx).mono hle
  · intro j iv hiv
    rw [mv_invocations] at hiv
    by_cases hj : j = c
    · simp only [hj, if_true, List.mem_append] at hiv
      rw [hj]
      rcases hiv with h | h
      · exact (inv.inv_ok c iv h).mono hle
      · exact (hI iv h).mono hle
    · simp only [hj, if_false] at hiv
      exact (inv.inv_ok j iv hiv).mono hle
  · intro a x hx
    rw [mv_completions] at hx
    exact (inv.compl_ok a x hx).mono hle
  · intro a r h
    rw [mv_issued] at h; rw [mv_nextSerial]
    have := inv.serial_lt a r h
    split
    · rename_i ha; rw [ha] at this; omega
    · exact this
  · intro a r r' h h'
    rw [mv_issued] at h h'
    exact inv.serial_uniq a r r' h h'
  · intro a r h hz
    rw [mv_issued] at h; rw [mv_completions] at hz; rw [mv_pending]
    exact inv.pend a r h hz
  · intro a s v hp
    rw [mv_pending] at hp; rw [mv_issued, mv_completions]
    exact inv.pend_inv a s v hp
  · intro a s
    rw [mv_completions]; exact inv.compl_le a s
  · intro a s hs
    rw [mv_late] at hs; rw [mv_completions]; exact inv.late_ok a s hs
  · intro a r h
    rw [mv_issued] at h
    have := inv.tok a r h
    have t := hT a r.serial
    have u := hUc r.serial
    have dr := hDr r.serial
    simp only [tokens, stages, Stages.total, mv_up, mv_down, mv_exec, mv_completions, mv_late, Net.upd_dropped,
      countP_ite, List.countP_append] at this ⊢
    by_cases ha : a = c <;> by_cases hd : r.dest = c
    · simp only [ha, hd, if_true] at this t ⊢; omega
    · simp only [ha, hd, if_true, if_false] at this t ⊢; omega
    · simp only [ha, hd, if_true, if_false] at this t ⊢; omega
    · simp only [ha, hd, if_false] at this t ⊢; omega
  · intro a r h
    rw [mv_issued] at h
    have := inv.ans_cnt a r h
    have au := hAU a r.serial
    have dr := hDr r.serial
    simp only [answersFor, stages, mv_up, mv_down, mv_exec, mv_completions, mv_late, mv_answers, Net.upd_dropped,
      countP_ite, List.countP_append] at this ⊢
    by_cases ha : a = c <;> by_cases hd : r.dest = c
    · simp only [ha, hd, if_true] at this au ⊢; omega
    · simp only [ha, hd, if_true, if_false] at this au ⊢; omega
    · simp only [ha, hd, if_true, if_false] at this au ⊢; omega
    · simp only [ha, hd, if_false] at this au ⊢; omega
  · intro a r h
    rw [mv_issued] at h
    have := inv.inv_cnt a r h
    have ie := hIE a r.serial
    simp only [invocationsFor, resultsFor, stages, mv_exec, mv_answers, mv_invocations, countP_ite,
      List.countP_append] at this ⊢
    by_cases hd : r.dest = c
    · simp only [hd, if_true] at this ⊢; omega
    · simp only [hd, if_false] at this ⊢; omega

/-- The caller-side change of a client: its `down` queue and `pending` table are replaced, completions and
ignored replies are appended (a reply completes its call; a reply arrives too late; a deadline passes). -/
def callerMoved (cl : Client V) (D : List (Msg V)) (P : Pending) (C : List (Nat × Outcome V)) (L : List Nat) :
    Client V :=
  { cl with down := D, pending := P, completions := cl.completions ++ C, late := cl.late ++ L }

section projc
variable (net : Net V) (c : Nat) (D : List (Msg V)) (P : Pending) (C : List (Nat × Outcome V)) (L : List Nat)
  (j : Nat)

local notation "net'" => Net.upd net c (fun cl => callerMoved cl D P C L)

theorem cm_up : ((net').cl j).up = (net.cl j).up := by
  simp only [callerMoved, Net.upd_cl]; repeat' split <;> simp_all
theorem cm_down : ((net').cl j).down = if j = c then D else (net.cl j).down := by
  simp only [callerMoved, Net.upd_cl]; repeat' split <;> simp_all
theorem cm_exec : ((net').cl j).exec = (net.cl j).exec := by
  simp only [callerMoved, Net.upd_cl]; repeat' split <;> simp_all
theorem cm_invocations : ((net').cl j).invocations = (net.cl j).invocations := by
  simp only [callerMoved, Net.upd_cl]; repeat' split <;> simp_all
theorem cm_answers : ((net').cl j).answers = (net.cl j).answers := by
  simp only [callerMoved, Net.upd_cl]; repeat' split <;> simp_all
theorem cm_completions : ((net').cl j).completions =
    if j = c then (net.cl j).completions ++ C else (net.cl j).completions := by
  simp only [callerMoved, Net.upd_cl]; repeat' split <;> simp_all
theorem cm_late : ((net').cl j).late = if j = c then (net.cl j).late ++ L else (net.cl j).late := by
  simp only [callerMoved, Net.upd_cl]; repeat' split <;> simp_all
theorem cm_issued : ((net').cl j).issued = (net.cl j).issued := by
  simp only [callerMoved, Net.upd_cl]; repeat' split <;> simp_all
theorem cm_pending : ((net').cl j).pending = if j = c then P else (net.cl j).pending := by
  simp only [callerMoved, Net.upd_cl]; repeat' split <;> simp_all
theorem cm_nextSerial : ((net').cl j).nextSerial = (net.cl j).nextSerial := by
  simp only [callerMoved, Net.upd_cl]; repeat' split <;> simp_all

end projc

theorem Inv.caller_move (inv : Inv w net) {D : List (Msg V)} {P : Pending} {C : List (Nat × Outcome V)}
    {L : List Nat}
    (hD : ∀ x, x ∈ D → x ∈ (net.cl c).down)
    (hC : ∀ x, x ∈ C → ComplOK w net c x)
    (hcalls : ∀ a s, D.countP (isCallFrom a s) = (net.cl c).down.countP (isCallFrom a s))
    (hreplies : ∀ s, D.countP (isReply s) + C.countP (complReplyKey s) + L.countP (lateKey s) =
      (net.cl c).down.countP (isReply s))
    (hpend : ∀ r, r ∈ (net.cl c).issued → ((net.cl c).completions ++ C).countP (complKey r.serial) = 0 →
      pLookup P r.serial = some r.retSig)
    (hpinv : ∀ s v, pLookup P s = some v → ∃ r, r ∈ (net.cl c).issued ∧ r.serial = s ∧ v = r.retSig ∧
      ((net.cl c).completions ++ C).countP (complKey s) = 0)
    (hcle : ∀ s, ((net.cl c).completions ++ C).countP (complKey s) ≤ 1)
    (hlate : ∀ s, s ∈ (net.cl c).late ++ L → 1 ≤ ((net.cl c).completions ++ C).countP (complKey s)) :
    Inv w (net.upd c (fun cl => callerMoved cl D P C L)) := by
  have hle : Le net (net.upd c (fun cl => callerMoved cl D P C L)) :=
    ⟨rfl, fun j r h => by rw [cm_issued]; exact h, fun j x h => by rw [cm_answers]; exact h⟩
  constructor
  · intro j m hm
    rw [cm_up] at hm
    exact (inv.up_ok j m hm).mono hle
  · intro j m hm
    rw [cm_down] at hm
    by_cases hj : j = c
    · simp only [hj, if_true] at hm; rw [hj]; exact (inv.down_ok c m (hD m hm)).mono hle
    · simp only [hj, if_false] at hm; exact (inv.down_ok j m hm).mono hle
  · intro m hm
    exact (inv.drop_ok m hm).mono hle
  · intro j e he
    rw [cm_exec] at he
    exact (inv.exec_ok j e he).mono hle
  · intro j x hx
    rw [cm_answers] at hx
    exact (inv.ans_ok j x hx).mono hle
  · intro j iv hiv
    rw [cm_invocations] at hiv
    exact (inv.inv_ok j iv hiv).mono hle
  · intro a x hx
    rw [cm_completions] at hx
    by_cases ha : a = c
    · simp only [ha, if_true, List.mem_append] at hx
      rw [ha]
      rcases hx with hx | hx
      · exact (inv.compl_ok c x hx).mono hle
      · exact (hC x hx).mono hle
    · simp only [ha, if_false] at hx
      exact (inv.compl_ok a x hx).mono hle
  · intro a r h
    rw [cm_issued] at h; rw [cm_nextSerial]
    exact inv.serial_lt a r h
  · intro a r r' h h'
    rw [cm_issued] at h h'
    exact inv.serial_uniq a r r' h h'
  · intro a r h hz
    rw [cm_issued] at h; rw [cm_completions] at hz; rw [cm_pending]
    by_cases ha : a = c
    · rw [ha] at h; simp only [ha, if_true] at hz ⊢; exact hpend r h hz
    · simp only [ha, if_false] at hz ⊢; exact inv.pend a r h hz
  · intro a s v hp
    rw [cm_pending] at hp; rw [cm_issued, cm_completions]
    by_cases ha : a = c
    · simp only [ha, if_true] at hp ⊢; exact hpinv s v hp
    · simp only [ha, if_false] at hp ⊢; exact inv.pend_inv a s v hp
  · intro a s
    rw [cm_completions]
    by_cases ha : a = c
    · simp only [ha, if_true]; exact hcle s
    · simp only [ha, if_false]; exact inv.compl_le a s
  · intro a s hs
    rw [cm_late] at hs; rw [cm_completions]
    by_cases ha : a = c
    · simp only [ha, if_true] at hs ⊢; exact hlate s hs
    · simp only [ha, if_false] at hs ⊢; exact inv.late_ok a s hs
  · intro a r h
    rw [cm_issued] at h
    have := inv.tok a r h
    have e1 := hreplies r.serial
    have e2 := hcalls a r.serial
    simp only [tokens, stages, Stages.total, cm_up, cm_down, cm_exec, cm_completions, cm_late, Net.upd_dropped,
      countP_ite, List.countP_append] at this ⊢
    by_cases ha : a = c <;> by_cases hd : r.dest = c
    · simp only [ha, hd, if_true] at this e2 ⊢; omega
    · simp only [ha, hd, if_true, if_false] at this e2 ⊢; omega
    · simp only [ha, hd, if_true, if_false] at this e2 ⊢; omega
    · simp only [ha, hd, if_false] at this ⊢; omega
  · intro a r h
    rw [cm_issued] at h
    have := inv.ans_cnt a r h
    have e1 := hreplies r.serial
    simp only [answersFor, stages, cm_up, cm_down, cm_exec, cm_completions, cm_late, cm_answers, Net.upd_dropped,
      countP_ite, List.countP_append] at this ⊢
    by_cases ha : a = c
    · simp only [ha, if_true] at this ⊢; omega
    · simp only [ha, if_false] at this ⊢; omega
  · intro a r h
    rw [cm_issued] at h
    have := inv.inv_cnt a r h
    simp only [invocationsFor, resultsFor, stages, cm_exec, cm_answers, cm_invocations] at this ⊢
    exact this

end

end Txdbus.Net
