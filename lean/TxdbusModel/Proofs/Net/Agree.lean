import TxdbusModel.Proofs.Net.StepClient
/-
C11 - the lemma that connects the proxy side with the exporter side, and the provenance of the logs.

* `agreeing_proxy_accepted`: a call made through a proxy whose interface list agrees with the exported
  object's declaration is accepted by `handleMethodCallMessage` for the very interface and method the proxy
  rule selected, and is checked against that method's return signature.
* `issued_from_call_steps`: every record in a client's `issued` log was produced by a `call` step of that
  client in the schedule.
* `result_from_step`: every `result` answer in an exporter's log carries the result that a `toClient … (now
  res)` or `resolve … res` step of the schedule gave the method.
-/
namespace Txdbus.Net

variable {V : Type}

/-! ### proxy rule and dispatch agree -/

theorem findIface_named (nm member : String) (h : nm ≠ "") (l : List Iface) :
    findIface (some nm) member l = l.find? (fun x => x.name == nm) := by
  induction l with
  | nil => rfl
  | cons x t ih =>
    simp only [findIface, strOr, h, if_false, ne_eq, not_false_eq_true, if_true, List.find?_cons]
    by_cases hx : x.name = nm
    · simp [hx]
    · have : (x.name == nm) = false := by simpa using hx
      simp only [hx, if_false, this]
      exact ih

theorem proxyLookup_spec {kw : Option String} {member : String} {l : List Iface} {i : Iface} {m : MethodDecl}
    (h : proxyLookup kw member l = some (i, m)) : i ∈ l ∧ i.method? member = some m := by
  induction l with
  | nil => simp [proxyLookup] at h
  | cons x t ih =>
    unfold proxyLookup at h
    cases hs : proxySkip kw x with
    | true =>
      simp only [hs, if_true] at h
      obtain ⟨h1, h2⟩ := ih h
      exact ⟨List.mem_cons_of_mem _ h1, h2⟩
    | false =>
      simp only [hs, Bool.false_eq_true, if_false] at h
      cases hm : x.method? member with
      | some m' =>
        simp only [hm, Option.some.injEq, Prod.mk.injEq] at h
        obtain ⟨rfl, rfl⟩ := h
        exact ⟨List.mem_cons_self, hm⟩
      | none =>
        simp only [hm] at h
        obtain ⟨h1, h2⟩ := ih h
        exact ⟨List.mem_cons_of_mem _ h1, h2⟩

/-- The interface `i` a proxy holds is, as far as methods go, the same definition as the first interface of that
name the object exports (`getInterfaces()` order): same name, and every method name looks up the same
declaration (name, `sigIn`, `sigOut`, `nargs`, `nret`) - dicts compared as finite maps, as C15's `SameDefinition`
does (the XML lists methods in sorted order). -/
def Iface.AgreesIn (i : Iface) (o : ExpObj) : Prop :=
  ∃ d, o.ifaces.find? (fun x => x.name == i.name) = some d ∧ d.name = i.name ∧ ∀ n, d.method? n = i.method? n

/-- The proxy's interface list agrees with the exported object: every interface it lists `AgreesIn` the object.
An explicit proxy declared like the exporter satisfies it; an introspected proxy satisfies it for the object's
own interfaces by C15's round trip (`Proofs/Net/Introspected.lean`). -/
def Proxy.AgreesWith (px : Proxy) (o : ExpObj) : Prop :=
  ∀ i, i ∈ px.ifaces → i.AgreesIn o

/-- an interface that IS the first of its name at the exporter agrees -/
theorem Iface.agreesIn_of_find {i : Iface} {o : ExpObj}
    (h : o.ifaces.find? (fun x => x.name == i.name) = some i) : i.AgreesIn o :=
  ⟨i, h, rfl, fun _ => rfl⟩

/-- `(interface, member)` is not one of the three pairs `handleMethodCallMessage` answers itself. -/
def NotBuiltin (iname member : String) : Prop :=
  ¬ (iname = Gen.Dispatch.peerPair.1 ∧ member = Gen.Dispatch.peerPair.2) ∧
  ¬ (iname = Gen.Dispatch.introspectPair.1 ∧ member = Gen.Dispatch.introspectPair.2) ∧
  ¬ (iname = Gen.Dispatch.managedPair.1 ∧ member = Gen.Dispatch.managedPair.2)

/-- The record `conn.callRemote` is given by a proxy call whose method the proxy rule found. -/
theorem proxyResolve_ok {px : Proxy} {kw : Option String} {member : String} {args : List V} {i : Iface}
    {m : MethodDecl} (hl : proxyLookup kw member px.ifaces = some (i, m)) (hn : args.length = m.nargs) :
    proxyResolve (.viaProxy px kw member args) =
      .ok { serial := 0, dest := px.dest, path := px.path, iface := some i.name, member := member,
            sig := m.sigIn, args := args, retSig := some m.sigOut } := by
  simp [proxyResolve, hl, hn]

/-- **The connecting lemma.**  A call for `(i, m)` - an interface the proxy holds that agrees with the exported
object - is accepted for the exporter's own definition `d` of that interface and the same method `m`. -/
theorem agreeing_iface_check (w : World V) {dest : Nat} {path : String} {o : ExpObj} {member : String}
    {i : Iface} {m : MethodDecl} {f : Func}
    (hobj : lookupObj path (w.exports dest) = some o)
    (hag : i.AgreesIn o)
    (hmeth : i.method? member = some m)
    (hname : i.name ≠ "")
    (hnb : NotBuiltin i.name member)
    (himpl : o.resolveImpl i.name member = some f) :
    ∃ d, d.name = i.name ∧ check w dest path (some i.name) member m.sigIn = .run d m f := by
  obtain ⟨h1, h2, h3⟩ := hnb
  obtain ⟨d, hfind, hdn, hdm⟩ := hag
  refine ⟨d, hdn, ?_⟩
  have hmeth' : d.method? member = some m := by rw [hdm]; exact hmeth
  have himpl' : o.resolveImpl d.name member = some f := by rw [hdn]; exact himpl
  unfold check
  have e1 : ¬ (some i.name = some Gen.Dispatch.peerPair.1 ∧ member = Gen.Dispatch.peerPair.2) := by
    rintro ⟨a, b⟩; exact h1 ⟨by injection a, b⟩
  have e2 : ¬ (some i.name = some Gen.Dispatch.introspectPair.1 ∧ member = Gen.Dispatch.introspectPair.2) := by
    rintro ⟨a, b⟩; exact h2 ⟨by injection a, b⟩
  have e3 : ¬ (some i.name = some Gen.Dispatch.managedPair.1 ∧ member = Gen.Dispatch.managedPair.2) := by
    rintro ⟨a, b⟩; exact h3 ⟨by injection a, b⟩
  simp only [e1, e2, e3, if_false, hobj, findIface_named i.name member hname, hfind, Option.bind_some, hmeth',
    Option.map_some, ne_eq, not_true_eq_false, himpl']

theorem agreeing_proxy_check (w : World V) {px : Proxy} {o : ExpObj} {kw : Option String} {member : String}
    {i : Iface} {m : MethodDecl} {f : Func}
    (hobj : lookupObj px.path (w.exports px.dest) = some o)
    (hag : px.AgreesWith o)
    (hl : proxyLookup kw member px.ifaces = some (i, m))
    (hname : i.name ≠ "")
    (hnb : NotBuiltin i.name member)
    (himpl : o.resolveImpl i.name member = some f) :
    ∃ d, d.name = i.name ∧ check w px.dest px.path (some i.name) member m.sigIn = .run d m f := by
  obtain ⟨hmem, hmeth⟩ := proxyLookup_spec hl
  exact agreeing_iface_check w hobj (hag i hmem) hmeth hname hnb himpl

/-! ### provenance of the logs -/

theorem receive_issued (w : World V) (j : Nat) (cl : Client V) (m : Msg V) (beh : Behaviour V) :
    (receive w j cl m beh).issued = cl.issued := by
  cases m with
  | call n sender dest p i mem g args =>
    simp only [receive, dispatch]
    cases check w j p i mem g with
    | builtin sg b => rfl
    | refused nm t => rfl
    | run ifc md fn => cases beh <;> rfl
  | reply sn rs sender dest content =>
    simp only [receive, complete]
    cases pLookup cl.pending rs <;> rfl

/-- what `receive` adds to the answers log -/
theorem receive_answers (w : World V) (j : Nat) (cl : Client V) (m : Msg V) (beh : Behaviour V)
    (x : Option Nat × Nat × Answer V) (hx : x ∈ (receive w j cl m beh).answers) :
    x ∈ cl.answers ∨ ∀ so nr res, x.2.2 = .result so nr res → beh = .now res := by
  cases m with
  | call n sender dest p i mem g args =>
    simp only [receive, dispatch] at hx
    cases hck : check w j p i mem g with
    | builtin sg b =>
      simp only [hck, sendAnswer, List.mem_append, List.mem_singleton] at hx
      rcases hx with hx | hx
      · exact Or.inl hx
      · right; intro so nr res h; rw [hx] at h; cases h
    | refused nm t =>
      simp only [hck, sendAnswer, List.mem_append, List.mem_singleton] at hx
      rcases hx with hx | hx
      · exact Or.inl hx
      · right; intro so nr res h; rw [hx] at h; cases h
    | run ifc md fn =>
      cases beh with
      | now r =>
        simp only [hck, sendAnswer, List.mem_append, List.mem_singleton] at hx
        rcases hx with hx | hx
        · exact Or.inl hx
        · right; intro so nr res h; rw [hx] at h
          injection h with _ _ h3; rw [h3]
      | deferred =>
        simp only [hck] at hx
        exact Or.inl hx
  | reply sn rs sender dest content =>
    simp only [receive, complete] at hx
    cases hp : pLookup cl.pending rs <;> simp only [hp] at hx <;> exact Or.inl hx

theorem step_issued (w : World V) (net : Net V) (st : Step V) (a : Nat) (r : CallRec V)
    (h : r ∈ ((step w net st).cl a).issued) :
    r ∈ (net.cl a).issued ∨
      ∃ req r0, st = .call a req ∧ proxyResolve req = .ok r0 ∧ r = { r0 with serial := r.serial } := by
  cases st with
  | call c req =>
    simp only [step] at h
    split at h
    · by_cases ha : a = c
      · subst ha
        simp only [Net.upd_cl_same] at h
        rcases issue_cases' w (net.cl a) req with e | ⟨r0, hp, e⟩
        · rw [e] at h; exact Or.inl h
        · rw [e] at h
          simp only [issuedClient, List.mem_append, List.mem_singleton] at h
          rcases h with h | h
          · exact Or.inl h
          · right; exact ⟨req, r0, rfl, hp, by rw [h]⟩
      · rw [Net.upd_cl_ne _ _ _ ha] at h; exact Or.inl h
    · exact Or.inl h
  | toBus c =>
    left
    simp only [step] at h
    split at h
    · rw [busStep_eq] at h
      cases hup : (net.cl c).up with
      | nil => simpa [hup] using h
      | cons m rest =>
        simp only [hup] at h
        cases hd : (m.withSender c).dest with
        | none => simp only [hd, drp_issued] at h; exact h
        | some d =>
          simp only [hd] at h
          split at h
          · rw [fwd_issued] at h; exact h
          · rw [drp_issued] at h; exact h
    · exact h
  | toClient c beh =>
    left
    simp only [step] at h
    split at h
    · unfold clientStep at h
      cases hdown : (net.cl c).down with
      | nil => simpa [hdown] using h
      | cons m rest =>
        simp only [hdown] at h
        by_cases ha : a = c
        · subst ha
          simp only [Net.upd_cl_same, receive_issued] at h
          exact h
        · rw [Net.upd_cl_ne _ _ _ ha] at h; exact h
    · exact h
  | resolve c tok res =>
    left
    simp only [step] at h
    split at h
    · unfold resolveStep at h
      cases ht : takeExec tok (net.cl c).exec with
      | none => simpa [ht] using h
      | some pr =>
        simp only [ht] at h
        by_cases ha : a = c
        · subst ha
          simp only [Net.upd_cl_same, sendAnswer] at h
          exact h
        · rw [Net.upd_cl_ne _ _ _ ha] at h; exact h
    · exact h
  | expire c s0 =>
    left
    simp only [step] at h
    split at h
    · unfold expireStep at h
      cases hp : pLookup (net.cl c).pending s0 with
      | none => simpa [hp] using h
      | some v =>
        simp only [hp] at h
        by_cases ha : a = c
        · subst ha
          simp only [Net.upd_cl_same] at h
          exact h
        · rw [Net.upd_cl_ne _ _ _ ha] at h; exact h
    · exact h

theorem step_answers (w : World V) (net : Net V) (st : Step V) (j : Nat) (x : Option Nat × Nat × Answer V)
    (h : x ∈ ((step w net st).cl j).answers) :
    x ∈ (net.cl j).answers ∨
      ∀ so nr res, x.2.2 = .result so nr res → st = .toClient j (.now res) ∨ ∃ tok, st = .resolve j tok res := by
  cases st with
  | call c req =>
    left
    simp only [step] at h
    split at h
    · by_cases ha : j = c
      · subst ha
        simp only [Net.upd_cl_same] at h
        rcases issue_cases w (net.cl j) req with e | ⟨r, _, e⟩
        · rw [e] at h; exact h
        · rw [e] at h; exact h
      · rw [Net.upd_cl_ne _ _ _ ha] at h; exact h
    · exact h
  | toBus c =>
    left
    simp only [step] at h
    split at h
    · rw [busStep_eq] at h
      cases hup : (net.cl c).up with
      | nil => simpa [hup] using h
      | cons m rest =>
        simp only [hup] at h
        cases hd : (m.withSender c).dest with
        | none => simp only [hd, drp_answers] at h; exact h
        | some d =>
          simp only [hd] at h
          split at h
          · rw [fwd_answers] at h; exact h
          · rw [drp_answers] at h; exact h
    · exact h
  | toClient c beh =>
    simp only [step] at h
    split at h
    · unfold clientStep at h
      cases hdown : (net.cl c).down with
      | nil => left; simpa [hdown] using h
      | cons m rest =>
        simp only [hdown] at h
        by_cases ha : j = c
        · subst ha
          simp only [Net.upd_cl_same] at h
          rcases receive_answers w j _ m beh x h with g | g
          · exact Or.inl g
          · right; intro so nr res hr; left; rw [g so nr res hr]
        · rw [Net.upd_cl_ne _ _ _ ha] at h; exact Or.inl h
    · exact Or.inl h
  | resolve c tok res =>
    simp only [step] at h
    split at h
    · unfold resolveStep at h
      cases ht : takeExec tok (net.cl c).exec with
      | none => left; simpa [ht] using h
      | some pr =>
        simp only [ht] at h
        by_cases ha : j = c
        · subst ha
          simp only [Net.upd_cl_same, sendAnswer, List.mem_append, List.mem_singleton] at h
          rcases h with h | h
          · exact Or.inl h
          · right; intro so nr res' hr; right
            rw [h] at hr
            injection hr with _ _ h3
            exact ⟨tok, by rw [h3]⟩
        · rw [Net.upd_cl_ne _ _ _ ha] at h; exact Or.inl h
    · exact Or.inl h
  | expire c s0 =>
    left
    simp only [step] at h
    split at h
    · unfold expireStep at h
      cases hp : pLookup (net.cl c).pending s0 with
      | none => simpa [hp] using h
      | some v =>
        simp only [hp] at h
        by_cases ha : j = c
        · subst ha
          simp only [Net.upd_cl_same] at h
          exact h
        · rw [Net.upd_cl_ne _ _ _ ha] at h; exact h
    · exact h

theorem run_issued (w : World V) (steps : List (Step V)) (net : Net V) (a : Nat) (r : CallRec V)
    (h : r ∈ ((run w net steps).cl a).issued) :
    r ∈ (net.cl a).issued ∨
      ∃ req r0, Step.call a req ∈ steps ∧ proxyResolve req = .ok r0 ∧ r = { r0 with serial := r.serial } := by
  induction steps generalizing net with
  | nil => exact Or.inl h
  | cons st rest ih =>
    have h' : r ∈ ((run w (step w net st) rest).cl a).issued := h
    rcases ih _ h' with g | ⟨req, r0, hm, hp, hr⟩
    · rcases step_issued w net st a r g with g | ⟨req, r0, hs, hp, hr⟩
      · exact Or.inl g
      · exact Or.inr ⟨req, r0, by rw [hs]; exact List.mem_cons_self, hp, hr⟩
    · exact Or.inr ⟨req, r0, List.mem_cons_of_mem _ hm, hp, hr⟩

theorem run_answers (w : World V) (steps : List (Step V)) (net : Net V) (j : Nat) (x : Option Nat × Nat × Answer V)
    (h : x ∈ ((run w net steps).cl j).answers) :
    x ∈ (net.cl j).answers ∨
      ∀ so nr res, x.2.2 = .result so nr res →
        Step.toClient j (.now res) ∈ steps ∨ ∃ tok, Step.resolve j tok res ∈ steps := by
  induction steps generalizing net with
  | nil => exact Or.inl h
  | cons st rest ih =>
    have h' : x ∈ ((run w (step w net st) rest).cl j).answers := h
    rcases ih _ h' with g | g
    · rcases step_answers w net st j x g with g | g
      · exact Or.inl g
      · right; intro so nr res hr
        rcases g so nr res hr with e | ⟨tok, e⟩
        · left; rw [e]; exact List.mem_cons_self
        · right; exact ⟨tok, by rw [e]; exact List.mem_cons_self⟩
    · right; intro so nr res hr
      rcases g so nr res hr with e | ⟨tok, e⟩
      · left; exact List.mem_cons_of_mem _ e
      · right; exact ⟨tok, List.mem_cons_of_mem _ e⟩

theorem receive_completions (w : World V) (j : Nat) (cl : Client V) (m : Msg V) (beh : Behaviour V)
    (x : Nat × Outcome V) (hx : x ∈ (receive w j cl m beh).completions) :
    x ∈ cl.completions ∨ x.2.isTimeout = false := by
  cases m with
  | call n sender dest p i mem g args =>
    left
    simp only [receive, dispatch] at hx
    cases hck : check w j p i mem g with
    | builtin sg b => simpa [hck, sendAnswer] using hx
    | refused nm t => simpa [hck, sendAnswer] using hx
    | run ifc md fn =>
      cases beh with
      | now r => simpa [hck, sendAnswer] using hx
      | deferred => simpa [hck] using hx
  | reply sn rs sender dest content =>
    simp only [receive, complete] at hx
    cases hp : pLookup cl.pending rs with
    | none => left; simpa [hp] using hx
    | some v =>
      simp only [hp, List.mem_append, List.mem_singleton] at hx
      rcases hx with hx | hx
      · exact Or.inl hx
      · right; rw [hx]; exact outcomeOf_not_timeout _ _

theorem step_completions (w : World V) (net : Net V) (st : Step V) (a : Nat) (x : Nat × Outcome V)
    (h : x ∈ ((step w net st).cl a).completions) :
    x ∈ (net.cl a).completions ∨ x.2.isTimeout = false ∨ st = .expire a x.1 := by
  cases st with
  | call c req =>
    left
    simp only [step] at h
    split at h
    · by_cases ha : a = c
      · subst ha
        simp only [Net.upd_cl_same] at h
        rcases issue_cases w (net.cl a) req with e | ⟨r, _, e⟩
        · rw [e] at h; exact h
        · rw [e] at h; exact h
      · rw [Net.upd_cl_ne _ _ _ ha] at h; exact h
    · exact h
  | toBus c =>
    left
    simp only [step] at h
    split at h
    · rw [busStep_eq] at h
      cases hup : (net.cl c).up with
      | nil => simpa [hup] using h
      | cons m rest =>
        simp only [hup] at h
        cases hd : (m.withSender c).dest with
        | none => simp only [hd, drp_completions] at h; exact h
        | some d =>
          simp only [hd] at h
          split at h
          · rw [fwd_completions] at h; exact h
          · rw [drp_completions] at h; exact h
    · exact h
  | toClient c beh =>
    simp only [step] at h
    split at h
    · unfold clientStep at h
      cases hdown : (net.cl c).down with
      | nil => left; simpa [hdown] using h
      | cons m rest =>
        simp only [hdown] at h
        by_cases ha : a = c
        · subst ha
          simp only [Net.upd_cl_same] at h
          rcases receive_completions w a _ m beh x h with g | g
          · exact Or.inl g
          · exact Or.inr (Or.inl g)
        · rw [Net.upd_cl_ne _ _ _ ha] at h; exact Or.inl h
    · exact Or.inl h
  | resolve c tok res =>
    left
    simp only [step] at h
    split at h
    · unfold resolveStep at h
      cases ht : takeExec tok (net.cl c).exec with
      | none => simpa [ht] using h
      | some pr =>
        simp only [ht] at h
        by_cases ha : a = c
        · subst ha
          simp only [Net.upd_cl_same, sendAnswer] at h
          exact h
        · rw [Net.upd_cl_ne _ _ _ ha] at h; exact h
    · exact h
  | expire c s0 =>
    simp only [step] at h
    split at h
    · unfold expireStep at h
      cases hp : pLookup (net.cl c).pending s0 with
      | none => left; simpa [hp] using h
      | some v =>
        simp only [hp] at h
        by_cases ha : a = c
        · subst ha
          simp only [Net.upd_cl_same, List.mem_append, List.mem_singleton] at h
          rcases h with h | h
          · exact Or.inl h
          · right; right; rw [h]
        · rw [Net.upd_cl_ne _ _ _ ha] at h; exact Or.inl h
    · exact Or.inl h

theorem run_completions (w : World V) (steps : List (Step V)) (net : Net V) (a : Nat) (x : Nat × Outcome V)
    (h : x ∈ ((run w net steps).cl a).completions) :
    x ∈ (net.cl a).completions ∨ x.2.isTimeout = false ∨ Step.expire a x.1 ∈ steps := by
  induction steps generalizing net with
  | nil => exact Or.inl h
  | cons st rest ih =>
    have h' : x ∈ ((run w (step w net st) rest).cl a).completions := h
    rcases ih _ h' with g | g | g
    · rcases step_completions w net st a x g with g | g | g
      · exact Or.inl g
      · exact Or.inr (Or.inl g)
      · right; right; rw [g]; exact List.mem_cons_self
    · exact Or.inr (Or.inl g)
    · right; right; exact List.mem_cons_of_mem _ g

end Txdbus.Net
