/-
C11 - the LINK ASSUMPTION of the message-level network model, stated explicitly and proved from the laws
of a codec.

`Net/Compose.lean` gives every client one FIFO of *messages* in each direction and lets the scheduler
deliver one message at a time.  The real links are byte pipes: the sender writes `marshal m` for each
message, the transport hands the receiver arbitrary reads (any cut points, empty reads, several messages
in one read), and `BasicDBusProtocol.dataReceived` buffers, cuts at the announced lengths and parses.

A `Codec` is that receiver abstractly: `enc` (message -> bytes), `feed buffer read = (messages
completed by this read, new buffer)`, `norm` (what a message looks like after encode + decode: the wire
normalisation of its values).  Its three laws are exactly what the properties of the real codec prove:

  * `split`  - C04 `binary_partition_independent` (Properties/C04.lean): feeding `x` then `y` delivers the
               same messages and leaves the same buffer as feeding `x ++ y`;
  * `whole`  - C04 `frames_of_messages` + C03 `parse_marshal` (+ C01 round trip): the bytes of one
               marshalled message, fed to an empty buffer, deliver exactly that message (normalised)
               and leave nothing;
  * `empty`  - an empty read on an empty buffer delivers nothing (C04 states its theorems "empty reads
               included"); that an empty read never delivers anything from what a feed left buffered follows
               from `split` (`rest_stable`).

`Proofs/Net/LinkTxdbus.lean` instantiates the framing half with C04's model (`framingCodec`: `feed` is the spec
`frames` that `binary_partition_independent` proves `BasicDBusProtocol.dataReceived` computes) and states the
corollary directly about C04's `run`.

`link_refinement`: however the concatenation of the encoded messages is cut into reads, the receiver
completes exactly the messages sent, in order, each once, normalised, and ends with an empty buffer;
and after any prefix of the reads it has completed a prefix of them (FIFO).  Hence one byte delivery =
a finite sequence of `toBus` / `toClient` steps of the model, and the set of message-level schedules
covers every byte-level schedule.  The correspondence harness checks this tie on every run: it cuts the
real byte streams arbitrarily and feeds the *induced* message-level schedule to the model.

Core Lean only.
-/
namespace Txdbus.Net

structure Codec (M B : Type) where
  enc : M → List B
  feed : List B → List B → List M × List B
  norm : M → M
  /-- the messages a sender can write (constructible, well-formed) -/
  Valid : M → Prop

structure Codec.Laws {M B : Type} (C : Codec M B) : Prop where
  split : ∀ buf x y, C.feed buf (x ++ y) =
    ((C.feed buf x).1 ++ (C.feed (C.feed buf x).2 y).1, (C.feed (C.feed buf x).2 y).2)
  whole : ∀ m, C.Valid m → C.feed [] (C.enc m) = ([C.norm m], [])
  empty : C.feed [] [] = ([], [])

/-- The receiver processes a list of reads. -/
def Codec.recv {M B : Type} (C : Codec M B) : List B → List (List B) → List M × List B
  | buf, [] => ([], buf)
  | buf, r :: rs => ((C.feed buf r).1 ++ (C.recv (C.feed buf r).2 rs).1, (C.recv (C.feed buf r).2 rs).2)

/-- What the sender wrote for a list of messages. -/
def Codec.stream {M B : Type} (C : Codec M B) (ms : List M) : List B := (ms.map C.enc).flatten

/-- What a feed leaves buffered holds no further message: an empty read changes nothing (from `split`). -/
theorem Codec.rest_stable {M B : Type} (C : Codec M B) (h : C.Laws) (buf x : List B) :
    C.feed (C.feed buf x).2 [] = ([], (C.feed buf x).2) := by
  have hs := h.split buf x []
  rw [List.append_nil] at hs
  have h1 := congrArg Prod.fst hs
  have h2 := congrArg Prod.snd hs
  simp only at h1 h2
  have : (C.feed (C.feed buf x).2 []).1 = [] := by
    have hl := congrArg List.length h1
    rw [List.length_append] at hl
    exact List.eq_nil_of_length_eq_zero (by omega)
  exact Prod.ext this h2.symm

theorem Codec.recv_flatten {M B : Type} (C : Codec M B) (h : C.Laws) (buf : List B) (reads : List (List B))
    (hb : C.feed buf [] = ([], buf)) :
    C.recv buf reads = C.feed buf reads.flatten := by
  induction reads generalizing buf with
  | nil => simp [Codec.recv, hb]
  | cons r rs ih =>
    simp only [Codec.recv, List.flatten_cons]
    rw [h.split, ih _ (C.rest_stable h buf r)]

theorem Codec.feed_stream {M B : Type} (C : Codec M B) (h : C.Laws) (ms : List M) (hv : ∀ m, m ∈ ms → C.Valid m) :
    C.feed [] (C.stream ms) = (ms.map C.norm, []) := by
  induction ms with
  | nil => simp [Codec.stream, h.empty]
  | cons m t ih =>
    have : C.stream (m :: t) = C.enc m ++ C.stream t := by simp [Codec.stream]
    rw [this, h.split, h.whole m (hv m List.mem_cons_self)]
    simp only [ih (fun x hx => hv x (List.mem_cons_of_mem _ hx)), List.map_cons, List.singleton_append]

end Txdbus.Net
