import TxdbusModel.Net.CodecC03
import TxdbusModel.Proofs.Net.BytesSim
import TxdbusModel.Proofs.Proto.WithMsg
import TxdbusModel.Proofs.Msg.Forward
/-
C11 - `WireCodec.Laws` for the codec built from C03's model (`c03Codec`, Net/CodecC03.lean), on the domain given by the
premises of C03's theorems.  Composition only: C03 `parse_marshal` (Proofs/Msg/Main.lean), C03 `remarshal_ok` /
`remarshal_parse_gen` (Proofs/Msg/Forward.lean: what the bus's re-marshalling writes and how it parses), C04's bridge
`wellFormed_of_constructed_gen` (Proofs/Proto/WithMsg.lean) and `wellFormed_of_layout` (Proofs/Proto/Frames.lean).
-/
namespace Txdbus.Net
open Txdbus.Proto (Bytes)
open Txdbus.Msg (plain truthy setAttr Attr)
open Txdbus (PyVal)

variable {V β : Type}

/-! ### a little-endian specification encoding is well-formed for framing -/

theorem wellFormed_encodeMsg_little (sm : Txdbus.Msg.SpecMsg) (hl : sm.endian = .little) (he : sm.encodable = true) :
    Txdbus.Proto.Spec.WellFormed (Txdbus.Msg.Spec.encodeMsg sm) := by
  simp only [Txdbus.Msg.SpecMsg.encodable, Bool.and_eq_true, decide_eq_true_eq] at he
  obtain ⟨⟨⟨⟨⟨_, _⟩, _⟩, hb⟩, ha⟩, _⟩ := he
  have hpl : (Txdbus.Msg.Spec.headerPad sm).length < 8 := by
    simp only [Txdbus.Msg.Spec.headerPad, Txdbus.zeros_length]
    exact Txdbus.padLen_lt 8 _ (by decide)
  have hal : (16 + (Txdbus.Msg.Spec.fieldArray sm).length + (Txdbus.Msg.Spec.headerPad sm).length) % 8 = 0 := by
    simp only [Txdbus.Msg.Spec.headerPad, Txdbus.zeros_length]
    exact Txdbus.padLen_aligned 8 _ (by decide)
  have := Txdbus.Proto.wellFormed_of_layout (UInt8.ofNat sm.mtype) (UInt8.ofNat sm.flags) sm.serial
    (Txdbus.Msg.Spec.fieldArray sm) (Txdbus.Msg.Spec.headerPad sm) sm.body hpl hal hb ha
  simpa [Txdbus.Msg.Spec.encodeMsg, Txdbus.Msg.Spec.fixedPart, hl, Txdbus.Msg.Spec.endianByte,
    Txdbus.Msg.Spec.version] using this

/-! ### the domain: the premises of C03's theorems for the message -/

/-- the header attributes the destination sees (plain values) of the constructed object `x` -/
def plainAttrs (x : Txdbus.Msg.Msg β) : Attr → PyVal := fun a => plain (x.attrs a)

/-- what a receiver must see of the frame of an UNSTAMPED message: C04's `Sent.expected` -/
def viewPlain (x : Txdbus.Msg.Msg β) (d : β) : Txdbus.Msg.View β :=
  Txdbus.Proto.Receive.Sent.expected Gen.Message.tables ⟨x, none, d⟩

/-- ... and of the frame the bus writes for it: the same with `sender` = the unique name the bus set -/
def viewStamped (x : Txdbus.Msg.Msg β) (d : β) (sender : List Char) : Txdbus.Msg.View β :=
  { messageType := Gen.Message.tables.messageType x.cls, serial := x.serial, expectReply := x.expectReply,
    autoStart := x.autoStart,
    attrs := fun a => if a = .sender then .str .plain sender else plainAttrs x a,
    body := if truthy (plainAttrs x .signature) then some d else none }

/-- **The domain of `c03Codec`.**  The premises of C03 `marshal_wellformed` / `parse_marshal` for the constructor call of
the message (counter at the message's serial, at least 1; NUL-free signature; the construction succeeds; the body codec
round-trips this body to `d`), and that the content a receiver sees determines the message (`R.back`).  For a message
carrying the bus's sender stamp, in addition the premises of C03 `remarshal_parse` for the object the bus parsed: its
attributes are None / str / int (`AttrFwd`), ALL ITS FIELDS ARE IN THE TABLE OF ITS CLASS (`hin`: a field outside it is
dropped by the bus - C14's known finding), the codec decodes the body bytes as they are, and the re-marshalling itself
succeeds (size limit). -/
def C03Ok (R : C03Rep V β) (BC : Txdbus.Msg.BodyCodec β) (na : Char → Bool) (maxLen : Nat) (m : Msg V) : Prop :=
  1 ≤ m.serialOf ∧ Txdbus.Msg.Main.SigNoNul (R.call m) ∧
  ∃ (st' : Txdbus.Msg.St) (x : Txdbus.Msg.Msg β) (d : β),
    Txdbus.Msg.construct Gen.Message.tables BC na maxLen ⟨m.serialOf⟩ (R.call m) = (st', .ok x) ∧
    (∀ sg, x.attrs .signature = .str .plain sg → sg ≠ [] →
      ∃ bytes fds', BC.marshal sg x.body (R.call m).oob = .ok (bytes, fds') ∧
        BC.unmarshal sg bytes true none = .ok d) ∧
    match m.senderOf with
    | none => R.back (viewPlain x d) = some m
    | some s =>
      (∀ a, Txdbus.Msg.AttrFwd a (plainAttrs x a)) ∧
      (∀ a, a ≠ .sender → plainAttrs x a ≠ .none → ∃ ent ∈ Gen.Message.tables.headerAttrs x.cls, ent.1 = a) ∧
      (∀ sg, plainAttrs x .signature = .str .plain sg → sg.contains Txdbus.Msg.nul = false) ∧
      (∀ sg, plainAttrs x .signature = .str .plain sg → sg ≠ [] → BC.unmarshal sg x.rawBody true none = .ok d) ∧
      (∀ p, Txdbus.Msg.parseMessage Gen.Message.tables BC x.raw none = .ok p →
        ∃ m2, Txdbus.Msg.forward Gen.Message.tables maxLen p 108 (R.name s) = .ok m2) ∧
      R.back (viewStamped x d (R.name s)) = some m

theorem sender_in_table (cls : Txdbus.Msg.MsgClass) :
    ∃ ent ∈ Gen.Message.tables.headerAttrs cls, ent.1 = Attr.sender := by
  cases cls <;> decide

theorem plain_plain' (v : PyVal) : plain (plain v) = plain v := by cases v <;> rfl

/-- What the frame of a STAMPED message is and how it parses (C03 `parse_marshal`, then `remarshal_ok` /
`remarshal_parse_gen` on the object the bus parsed, with `sender` set). -/
theorem stamped_frame (R : C03Rep V β) (BC : Txdbus.Msg.BodyCodec β) (na : Char → Bool) (maxLen : Nat)
    (hmax : maxLen ≤ Txdbus.Msg.Spec.maxMessage) (m : Msg V) (s : Nat) (hs : m.senderOf = some s)
    (st' : Txdbus.Msg.St) (x : Txdbus.Msg.Msg β) (d : β)
    (h1 : 1 ≤ m.serialOf) (hsig : Txdbus.Msg.Main.SigNoNul (R.call m))
    (hc : Txdbus.Msg.construct Gen.Message.tables BC na maxLen ⟨m.serialOf⟩ (R.call m) = (st', .ok x))
    (hC : ∀ sg, x.attrs .signature = .str .plain sg → sg ≠ [] →
      ∃ bytes fds', BC.marshal sg x.body (R.call m).oob = .ok (bytes, fds') ∧ BC.unmarshal sg bytes true none = .ok d)
    (hshape : ∀ a, Txdbus.Msg.AttrFwd a (plainAttrs x a))
    (hin : ∀ a, a ≠ .sender → plainAttrs x a ≠ .none → ∃ ent ∈ Gen.Message.tables.headerAttrs x.cls, ent.1 = a)
    (hnul : ∀ sg, plainAttrs x .signature = .str .plain sg → sg.contains Txdbus.Msg.nul = false)
    (hC2 : ∀ sg, plainAttrs x .signature = .str .plain sg → sg ≠ [] → BC.unmarshal sg x.rawBody true none = .ok d)
    (hfwd : ∀ p, Txdbus.Msg.parseMessage Gen.Message.tables BC x.raw none = .ok p →
        ∃ m2, Txdbus.Msg.forward Gen.Message.tables maxLen p 108 (R.name s) = .ok m2) :
    ∃ m2, c03Frame R BC na maxLen m = some m2 ∧ Txdbus.Proto.Spec.WellFormed m2.raw ∧
      ∃ m3, Txdbus.Msg.parseMessage Gen.Message.tables BC m2.raw none = .ok m3 ∧
        m3.view Gen.Message.tables = viewStamped x d (R.name s) := by
  have _ := hmax
  obtain ⟨p, hp, p1, p2, p3, p4, p5, p6, _, _, p9, p10, _⟩ :=
    Txdbus.Msg.Main.parse_marshal Gen.Message.tables Txdbus.Msg.genTables_ok BC na maxLen ⟨m.serialOf⟩ st' (R.call m) x
      h1 hsig hc none d hC
  obtain ⟨m2, hm2⟩ := hfwd p hp
  have hframe : c03Frame R BC na maxLen m = some m2 := by
    simp only [c03Frame, hc, hs, hp, hm2]
  have hattrs : p.attrs = plainAttrs x := funext (fun a => p5 a)
  -- the object the bus re-marshals: `p` with `sender` set
  unfold Txdbus.Msg.forward at hm2
  have hshape' : ∀ a, Txdbus.Msg.AttrFwd a
      (({ p with attrs := setAttr p.attrs .sender (.str .plain (R.name s)) } : Txdbus.Msg.Msg β).attrs a) := by
    intro a
    by_cases ha : a = .sender
    · subst ha; simp only [setAttr, if_true]; exact Or.inr ⟨R.name s, rfl⟩
    · simp only [setAttr, ha, if_false, hattrs]; exact hshape a
  have hin' : ∀ a, ({ p with attrs := setAttr p.attrs .sender (.str .plain (R.name s)) } : Txdbus.Msg.Msg β).attrs a ≠ .none →
      ∃ ent ∈ Gen.Message.tables.headerAttrs
        ({ p with attrs := setAttr p.attrs .sender (.str .plain (R.name s)) } : Txdbus.Msg.Msg β).cls, ent.1 = a := by
    intro a
    by_cases ha : a = .sender
    · subst ha; intro _; exact sender_in_table _
    · simp only [setAttr, ha, if_false, hattrs, p1]; exact hin a ha
  have hsigattr : ({ p with attrs := setAttr p.attrs .sender (.str .plain (R.name s)) } : Txdbus.Msg.Msg β).attrs .signature =
      plainAttrs x .signature := by simp [setAttr, hattrs]
  obtain ⟨fs, _, hraw, _, _, _, _, _, _, _, m3, r0, r1, r2, r3, r4, _, r6, r7, _, _, _⟩ :=
    Txdbus.Msg.remarshal_parse_gen Gen.Message.tables Txdbus.Msg.genTables_ok BC maxLen _ m2 108 p.rawBody hshape' hin'
      (Or.inl rfl) (by rw [hsigattr]; exact hnul) hm2 none d
      (by rw [hsigattr, p9]; intro sg h1 h2; exact hC2 sg h1 h2)
  obtain ⟨fs', _, _, hraw', _, henc, _⟩ :=
    Txdbus.Msg.remarshal_ok Gen.Message.tables Txdbus.Msg.genTables_ok maxLen _ m2 108 p.rawBody hshape' (Or.inl rfl)
      (by rw [hsigattr]; exact hnul) hm2
  refine ⟨m2, hframe, ?_, m3, r0, ?_⟩
  · rw [hraw']
    exact wellFormed_encodeMsg_little _ (by simp [Txdbus.Msg.fwdSpec, Txdbus.Msg.endianOf]) henc
  · have hb : m3.body = if truthy (plainAttrs x .signature) then some d else none := by
      rw [r7]; simp [setAttr, hattrs]
    simp only [Txdbus.Msg.Msg.view, viewStamped, r1, r2, r3, r4, p1, p2, p3, p4, hb]
    congr 1
    funext a
    rw [r6 a]
    by_cases ha : a = .sender
    · subst ha; simp [setAttr, plain]
    · simp only [setAttr, ha, if_false, hattrs, plainAttrs, plain_plain']

/-- **`WireCodec.Laws` for txdbus's codec, as C03 models it**, on the domain `C03Ok`: the frame of every message of the
domain - written by a client with one of the constructors, or re-marshalled by the bus with the sender stamped - is
well-formed in C04's sense, and parsing it returns the message. -/
theorem c03Codec_laws (R : C03Rep V β) (BC : Txdbus.Msg.BodyCodec β) (na : Char → Bool) (maxLen : Nat)
    (hmax : maxLen ≤ Txdbus.Msg.Spec.maxMessage) :
    (c03Codec R BC na maxLen).Laws (C03Ok R BC na maxLen) := by
  constructor
  · intro m hm
    obtain ⟨h1, hsig, st', x, d, hc, hC, hrest⟩ := hm
    cases hs : m.senderOf with
    | none =>
      have hframe : c03Frame R BC na maxLen m = some x := by simp only [c03Frame, hc, hs]
      simp only [c03Codec, hframe]
      exact Txdbus.Proto.WithMsg.wellFormed_of_constructed_gen Gen.Message.tables Txdbus.Msg.genTables_ok BC na maxLen hmax
        ⟨m.serialOf⟩ st' (R.call m) x h1 hsig hc
    | some s =>
      rw [hs] at hrest
      obtain ⟨hshape, hin, hnul, hC2, hfwd, _⟩ := hrest
      obtain ⟨m2, hframe, hwf, _⟩ := stamped_frame R BC na maxLen hmax m s hs st' x d h1 hsig hc hC hshape hin hnul hC2 hfwd
      simp only [c03Codec, hframe]
      exact hwf
  · intro m hm
    obtain ⟨h1, hsig, st', x, d, hc, hC, hrest⟩ := hm
    cases hs : m.senderOf with
    | none =>
      rw [hs] at hrest
      have hframe : c03Frame R BC na maxLen m = some x := by simp only [c03Frame, hc, hs]
      obtain ⟨p, hp, p1, p2, p3, p4, p5, p6, _⟩ :=
        Txdbus.Msg.Main.parse_marshal Gen.Message.tables Txdbus.Msg.genTables_ok BC na maxLen ⟨m.serialOf⟩ st' (R.call m) x
          h1 hsig hc none d hC
      have hv : p.view Gen.Message.tables = viewPlain x d :=
        Txdbus.Proto.WithMsg.view_eq_expected Gen.Message.tables ⟨x, none, d⟩ p p1 p2 p3 p4 p5 p6
      simp only [c03Codec, hframe, hp, hv]
      exact hrest
    | some s =>
      rw [hs] at hrest
      obtain ⟨hshape, hin, hnul, hC2, hfwd, hback⟩ := hrest
      obtain ⟨m2, hframe, _, m3, hp3, hv⟩ :=
        stamped_frame R BC na maxLen hmax m s hs st' x d h1 hsig hc hC hshape hin hnul hC2 hfwd
      simp only [c03Codec, hframe, hp3, hv]
      exact hback

end Txdbus.Net

namespace Txdbus.Net
open Txdbus.Msg (plain truthy setAttr Attr strAttr)
open Txdbus (PyVal)

variable {V β : Type}

/-- **The forwarding premises hold for every CONSTRUCTED message without descriptors**: its attributes are None / a
plain str / an int, every non-None attribute other than `sender` is in the `_headerAttrs` table of its class (so the
bus drops nothing), and its signature has no NUL.  (From C03 `constructed_from_arguments` and the extracted tables.) -/
theorem constructed_fwd_premises (BC : Txdbus.Msg.BodyCodec β) (na : Char → Bool) (maxLen : Nat)
    (st st' : Txdbus.Msg.St) (c : Txdbus.Msg.Call β) (x : Txdbus.Msg.Msg β)
    (hc : Txdbus.Msg.construct Gen.Message.tables BC na maxLen st c = (st', .ok x))
    (hsig : Txdbus.Msg.Main.SigNoNul c) (hfd : x.attrs .unixFds = .none) :
    (∀ a, Txdbus.Msg.AttrFwd a (plainAttrs x a)) ∧
    (∀ a, a ≠ .sender → plainAttrs x a ≠ .none → ∃ ent ∈ Gen.Message.tables.headerAttrs x.cls, ent.1 = a) ∧
    (∀ sg, plainAttrs x .signature = .str .plain sg → sg.contains Txdbus.Msg.nul = false) := by
  obtain ⟨h1, h2, h3, h4, _, _⟩ :=
    Txdbus.Msg.Main.constructed_from_arguments Gen.Message.tables Txdbus.Msg.genTables_ok BC na maxLen st st' c x hc
  have hstr : ∀ (a : Attr) (o : Option (List Char)), a ≠ .replySerial → a ≠ .unixFds →
      Txdbus.Msg.AttrFwd a (plain (strAttr o)) := by
    intro a o hq1 hq2
    cases o with
    | none => exact Or.inl rfl
    | some s =>
      refine Or.inr ?_
      cases a <;> first | exact ⟨s, rfl⟩ | exact absurd rfl hq1 | exact absurd rfl hq2
  have hsigc : ∀ sg, plain (strAttr c.signature) = .str .plain sg → sg.contains Txdbus.Msg.nul = false := by
    intro sg h
    cases hcs : c.signature with
    | none => rw [hcs] at h; cases h
    | some s =>
      rw [hcs] at h
      simp only [strAttr, plain, PyVal.str.injEq, true_and] at h
      exact hsig sg (by rw [hcs, h])
  cases c with
  | methodCall a0 =>
    obtain ⟨c1, _, _, c4, c5, c6, c7, c8, c9, c10, c11⟩ := h1 a0 rfl
    refine ⟨?_, ?_, ?_⟩
    · intro a
      cases a <;> simp only [plainAttrs, c4, c5, c6, c7, c8, c9, c10, c11, hfd] <;>
        first | exact Or.inl rfl | exact hstr _ _ (by decide) (by decide)
    · intro a hs hn
      rw [c1]
      cases a <;> simp only [plainAttrs, c9, c10, c11, hfd, plain, ne_eq, not_true_eq_false] at hn <;>
        first | exact absurd rfl hs | decide
    · intro sg h
      simp only [plainAttrs, c8] at h
      exact hsigc sg h
  | methodReturn a0 =>
    obtain ⟨c1, _, _, c4, c5, c6, c7, c8, c9, c10, c11⟩ := h2 a0 rfl
    refine ⟨?_, ?_, ?_⟩
    · intro a
      cases a <;> simp only [plainAttrs, c4, c5, c6, c7, c8, c9, c10, c11, hfd] <;>
        first | exact Or.inl rfl | exact hstr _ _ (by decide) (by decide) | exact Or.inr ⟨_, _, rfl⟩
    · intro a hs hn
      rw [c1]
      cases a <;> simp only [plainAttrs, c7, c8, c9, c10, c11, hfd, plain, ne_eq, not_true_eq_false] at hn <;>
        first | exact absurd rfl hs | decide
    · intro sg h
      simp only [plainAttrs, c6] at h
      exact hsigc sg h
  | error a0 =>
    obtain ⟨c1, _, _, c4, c5, c6, c7, c8, c9, c10, c11⟩ := h3 a0 rfl
    refine ⟨?_, ?_, ?_⟩
    · intro a
      cases a <;> simp only [plainAttrs, c4, c5, c6, c7, c8, c9, c10, c11, hfd] <;>
        first | exact Or.inl rfl | exact hstr _ _ (by decide) (by decide) | exact Or.inr ⟨_, _, rfl⟩
    · intro a hs hn
      rw [c1]
      cases a <;> simp only [plainAttrs, c9, c10, c11, hfd, plain, ne_eq, not_true_eq_false] at hn <;>
        first | exact absurd rfl hs | decide
    · intro sg h
      simp only [plainAttrs, c7] at h
      exact hsigc sg h
  | signal a0 =>
    obtain ⟨c1, _, _, c4, c5, c6, c7, c8, c9, c10, c11⟩ := h4 a0 rfl
    refine ⟨?_, ?_, ?_⟩
    · intro a
      cases a <;> simp only [plainAttrs, c4, c5, c6, c7, c8, c9, c10, c11, hfd] <;>
        first | exact Or.inl rfl | exact hstr _ _ (by decide) (by decide)
    · intro a hs hn
      rw [c1]
      cases a <;> simp only [plainAttrs, c9, c10, c11, hfd, plain, ne_eq, not_true_eq_false] at hn <;>
        first | exact absurd rfl hs | decide
    · intro sg h
      simp only [plainAttrs, c8] at h
      exact hsigc sg h

end Txdbus.Net

namespace Txdbus.Net
open Txdbus.Msg (plain truthy setAttr Attr strAttr)
open Txdbus (PyVal)

variable {V β : Type}

/-- **The domain reduced to C03's premises.**  `C03Ok m` holds as soon as: the constructor call of `m` succeeds at
counter = the serial of `m` (at least 1) with a NUL-free signature and collects no descriptors; the body codec round-trips
the body (`hC`, and `hC2` on the body bytes for the bus's copy); for a stamped message the bus's re-marshalling succeeds
(`c03Frame` is defined: size limit); and the representation reads the message back from what a receiver sees (`hback`).
The forwarding premises of C03 `remarshal_parse` (attribute shapes, ALL FIELDS IN THE CLASS TABLE, no NUL) are derived
(`constructed_fwd_premises`). -/
theorem c03Ok_of_constructed (R : C03Rep V β) (BC : Txdbus.Msg.BodyCodec β) (na : Char → Bool) (maxLen : Nat)
    (m : Msg V) (st' : Txdbus.Msg.St) (x : Txdbus.Msg.Msg β) (d : β)
    (h1 : 1 ≤ m.serialOf) (hsig : Txdbus.Msg.Main.SigNoNul (R.call m))
    (hc : Txdbus.Msg.construct Gen.Message.tables BC na maxLen ⟨m.serialOf⟩ (R.call m) = (st', .ok x))
    (hfd : x.attrs .unixFds = .none)
    (hC : ∀ sg, x.attrs .signature = .str .plain sg → sg ≠ [] →
      ∃ bytes fds', BC.marshal sg x.body (R.call m).oob = .ok (bytes, fds') ∧ BC.unmarshal sg bytes true none = .ok d)
    (hC2 : ∀ sg, plainAttrs x .signature = .str .plain sg → sg ≠ [] → BC.unmarshal sg x.rawBody true none = .ok d)
    (hsome : m.senderOf ≠ none → (c03Frame R BC na maxLen m).isSome = true)
    (hback : match m.senderOf with
      | none => R.back (viewPlain x d) = some m
      | some s => R.back (viewStamped x d (R.name s)) = some m) :
    C03Ok R BC na maxLen m := by
  refine ⟨h1, hsig, st', x, d, hc, hC, ?_⟩
  cases hs : m.senderOf with
  | none => rw [hs] at hback; exact hback
  | some s =>
    rw [hs] at hback
    obtain ⟨p1, p2, p3⟩ := constructed_fwd_premises BC na maxLen _ st' (R.call m) x hc hsig hfd
    refine ⟨p1, p2, p3, hC2, ?_, hback⟩
    intro p hp
    have := hsome (by rw [hs]; simp)
    simp only [c03Frame, hc, hs, hp] at this
    cases hf : Txdbus.Msg.forward Gen.Message.tables maxLen p 108 (R.name s) with
    | ok m2 => exact ⟨m2, rfl⟩
    | error e => rw [hf] at this; cases this

end Txdbus.Net
